import XMT.PacketLemmas
import XMT.ChunkReadFrom
namespace XMT.Packet
open XMT XMT.Codec

theorem readExact_ok (s : Stream) (d r : Bytes) (hi : NoEmpty s) (h : s.flatten = d ++ r) :
    ∃ s', readExact d.length s = .ok (d, s') ∧ s'.flatten = r ∧ NoEmpty s' := by
  have h1 := readFull_fst d.length s
  have h2 := readFull_snd d.length s
  have h3 := readFull_noEmpty d.length s hi
  rw [h] at h1 h2
  rw [List.take_left] at h1
  rw [List.drop_left] at h2
  refine ⟨(readFull d.length s).2, ?_, h2, h3⟩
  unfold readExact
  simp only
  rw [if_pos (by rw [h1])]
  congr 1
  exact Prod.ext h1 rfl

theorem readTags_ok (tags : List Nat) (ht : ∀ t ∈ tags, 0 < t ∧ t < 2^32)
    (s : Stream) (r : Bytes) (hi : NoEmpty s) (h : s.flatten = tagBytes tags ++ r) :
    ∃ s', readTags tags.length s = .ok (tags, s') ∧ s'.flatten = r ∧ NoEmpty s' := by
  induction tags generalizing s with
  | nil => exact ⟨s, rfl, by simpa [tagBytes] using h, hi⟩
  | cons t ts ih =>
    have ht1 := ht t List.mem_cons_self
    have hv := ofBe32_be32 t ht1.2
    have h' : s.flatten = be32 t ++ (tagBytes ts ++ r) := by
      rw [h]; simp [tagBytes, List.flatMap_cons]
    obtain ⟨s1, e1, a1, i1⟩ := readExact_ok s (be32 t) _ hi h'
    obtain ⟨s2, e2, a2, i2⟩ := ih (fun x hx => ht x (List.mem_cons_of_mem _ hx)) s1 i1 a1
    refine ⟨s2, ?_, a2, i2⟩
    have hl : (be32 t).length = 4 := rfl
    rw [hl] at e1
    simp only [List.length_cons, readTags, e1, be32, hv]
    rw [if_neg (by omega), e2]

theorem readLen_ok (l : Nat) (hl : l < 2^64) (s : Stream) (r : Bytes) (hi : NoEmpty s)
    (h : s.flatten = (lenClass l).2 ++ r) :
    ∃ s', readLen (lenClass l).1 s = .ok (l, s') ∧ s'.flatten = r ∧ NoEmpty s' := by
  have K := Codec.limitsOK
  unfold lenClass at h ⊢
  by_cases c0 : l = 0
  · simp only [c0, if_true, List.nil_append] at h ⊢
    exact ⟨s, by simp [readLen], h, hi⟩
  · by_cases c1 : l < Facts.limitSmall
    · simp only [c0, c1, if_true, if_false] at h ⊢
      obtain ⟨s1, e1, a1, i1⟩ := readExact_ok s [byteOf l] r hi h
      refine ⟨s1, ?_, a1, i1⟩
      have : l % 256 = l := Nat.mod_eq_of_lt (by have := K.small; omega)
      have hl1 : ([byteOf l] : Bytes).length = 1 := rfl
      rw [hl1] at e1
      simp [readLen, e1, this]
    · by_cases c2 : l < Facts.limitMedium
      · simp only [c0, c1, c2, if_true, if_false] at h ⊢
        obtain ⟨s1, e1, a1, i1⟩ := readExact_ok s (be16 l) r hi h
        refine ⟨s1, ?_, a1, i1⟩
        have hv := ofBe16_be16 l (by have := K.medium; omega)
        have hl1 : (be16 l).length = 2 := rfl
        rw [hl1] at e1
        simp [readLen, e1, be16, hv]
      · by_cases c3 : l < Facts.limitLarge
        · simp only [c0, c1, c2, c3, if_true, if_false] at h ⊢
          obtain ⟨s1, e1, a1, i1⟩ := readExact_ok s (be32 l) r hi h
          refine ⟨s1, ?_, a1, i1⟩
          have hv := ofBe32_be32 l (by have := K.large; omega)
          have hl1 : (be32 l).length = 4 := rfl
          rw [hl1] at e1
          simp [readLen, e1, be32, hv]
        · simp only [c0, c1, c2, c3, if_false] at h ⊢
          obtain ⟨s1, e1, a1, i1⟩ := readExact_ok s (be64 l) r hi h
          refine ⟨s1, ?_, a1, i1⟩
          have hv := ofBe64_be64 l hl
          have hl1 : (be64 l).length = 8 := rfl
          rw [hl1] at e1
          simp [readLen, e1, be64, hv]

variable (cf : Nat → Nat)

theorem readPayload_ok (pay r : Bytes) (hp : pay.length ≤ Facts.maxSlice) (s : Stream)
    (hi : NoEmpty s) (h : s.flatten = pay ++ r) :
    ∃ s', readPayload cf pay.length s = .ok (pay, s') ∧ s'.flatten = r ∧ NoEmpty s' := by
  have hms := Chunk.Chunk.maxSlice_small
  unfold readPayload
  by_cases h0 : pay.length = 0
  · rw [if_pos h0]
    have : pay = [] := List.length_eq_zero_iff.mp h0
    subst this
    exact ⟨s, rfl, by simpa using h, hi⟩
  · rw [if_neg h0]
    simp only
    have hlt : pay.length < 2^63 := by omega
    rw [if_pos hlt]
    have hfl : pay.length ≤ s.flatten.length := by rw [h]; simp
    -- first ReadFrom: reads exactly `len` bytes
    obtain ⟨c1, s1, e1, i1, l1, r1, u1, n1, f1, ne1⟩ :=
      Chunk.Chunk.readFromLoop_spec cf (pay.length : Int) (by omega) (by omega)
        (s.flatten.length + s.length + 1) (Chunk.empty pay.length) s 0 (Chunk.Chunk.inv_empty _) rfl rfl hi
        (by omega)
    have hk : min ((pay.length : Int).toNat - (Chunk.empty (pay.length : Int)).len) s.flatten.length
        = pay.length := by
      have h0' : (Chunk.empty (pay.length : Int)).len = 0 := rfl
      rw [h0', Int.toNat_natCast, Nat.sub_zero]
      exact Nat.min_eq_left hfl
    rw [hk] at e1 u1 f1
    have hrf : (Chunk.empty (pay.length : Int)).readFrom cf s = (c1, pay.length, s1) := by
      unfold Chunk.Chunk.readFrom; rw [e1]; simp
    have hbl : bodyLoop cf (s.flatten.length + 2) (Chunk.empty pay.length) s 0 pay.length
        = (c1, pay.length, s1) := by
      rw [show s.flatten.length + 2 = (s.flatten.length + 1) + 1 from rfl]
      unfold bodyLoop
      rw [if_pos (by omega), hrf]
      simp only
      rw [if_neg h0, Nat.zero_add]
      unfold bodyLoop
      rw [if_neg (Nat.lt_irrefl _)]
    rw [hbl]
    simp only
    rw [if_neg (Nat.lt_irrefl _)]
    refine ⟨s1, ?_, ?_, ne1⟩
    · congr 2
      rw [u1, h]
      simp [Chunk.Chunk.unread, Chunk.empty]
    · rw [f1, h, List.drop_left]

/-- **Wire form round trip**: for every well-formed packet, every trailing data and every way the
stream splits the bytes into non-empty short reads, `Unmarshal` reproduces the packet and leaves
exactly the trailing bytes. -/
theorem unmarshal_marshal (p : Packet) (hp : WF p) (rest : Bytes) (s : Stream) (hi : NoEmpty s)
    (h : s.flatten = marshal p ++ rest) :
    ∃ s', unmarshal cf s = .ok (p, s') ∧ s'.flatten = rest ∧ NoEmpty s' := by
  have K := constOK
  have hms := Chunk.Chunk.maxSlice_small
  obtain ⟨hjob, hflags, hnt, htags, hdl, hdz, hpay⟩ := hp
  unfold marshal at h
  simp only [List.append_assoc] at h
  obtain ⟨s1, e1, a1, i1⟩ := readExact_ok s p.dev _ hi h
  obtain ⟨s2, e2, a2, i2⟩ := readExact_ok s1 (hdr14 p (lenClass p.payload.length).1) _ i1 a1
  obtain ⟨s3, e3, a3, i3⟩ := readLen_ok p.payload.length (by omega) s2 _ i2 a2
  obtain ⟨s4, e4, a4, i4⟩ := readTags_ok p.tags htags s3 _ i3 a3
  obtain ⟨s5, e5, a5, i5⟩ := readPayload_ok cf p.payload rest hpay s4 i4 a4
  have v1 := ofBe16_be16 p.job hjob
  have v2 := ofBe64_be64 p.flags hflags
  have v3 := ofBe16_be16 p.tags.length (by have := K.tags16; omega)
  have hl14 : (hdr14 p (lenClass p.payload.length).1).length = 14 := rfl
  rw [hdl] at e1
  rw [hl14] at e2
  unfold unmarshal
  rw [e1]
  simp only
  rw [if_neg hdz, e2]
  simp only [hdr14, e3, v1, v2, v3, e4, e5]
  exact ⟨s5, by cases p; rfl, a5, i5⟩

end XMT.Packet
