/-
  C01 — Packet wire format is lossless and self-delimiting; header fields are independent.
  Property theorems only. Models: XMT/Packet.lean (on XMT/Codec.lean and XMT/Chunk.lean),
  XMT/Flag.lean; lemmas: XMT/PacketLemmas.lean, XMT/PacketWire.lean, XMT/ChunkReadFrom.lean,
  XMT/FlagLemmas.lean.
-/
import XMT.PacketWire
import XMT.FlagLemmas
import XMT.TieXlate
namespace XMT.Props.C01
open XMT XMT.Codec XMT.Packet

variable (cf : Nat → Nat)

/-- read `n` packets one after the other from one stream -/
def unmarshalMany : Nat → Stream → Except PErr (List Packet.Packet × Stream)
  | 0, s => .ok ([], s)
  | n + 1, s =>
    match Packet.unmarshal cf s with
    | .error e => .error e
    | .ok (p, s) =>
      match unmarshalMany n s with
      | .error e => .error e
      | .ok (ps, s) => .ok (p :: ps, s)

/-- **Top-level wire form, lossless and exact**: any well-formed packet written with `Marshal` and
read back with `Unmarshal` is reproduced field for field and byte for byte, and reading consumes
exactly the bytes that writing produced — for every trailing data `rest`, every allocator behaviour
`cf` and **every** way the underlying stream splits the bytes into non-empty short reads. -/
theorem wire_roundtrip (p : Packet.Packet) (hp : WF p) (rest : Bytes) (s : Stream) (hne : NoEmpty s)
    (h : s.flatten = marshal p ++ rest) :
    ∃ s', Packet.unmarshal cf s = .ok (p, s') ∧ s'.flatten = rest :=
  let ⟨s', h1, h2, _⟩ := unmarshal_marshal cf p hp rest s hne h
  ⟨s', h1, h2⟩

/-- **Self-delimiting**: packets can be concatenated on one stream. -/
theorem wire_concat (ps : List Packet.Packet) (hp : ∀ p ∈ ps, WF p) (rest : Bytes) (s : Stream)
    (hne : NoEmpty s) (h : s.flatten = ps.flatMap marshal ++ rest) :
    ∃ s', unmarshalMany cf ps.length s = .ok (ps, s') ∧ s'.flatten = rest := by
  induction ps generalizing s with
  | nil => exact ⟨s, rfl, by simpa using h⟩
  | cons p ps ih =>
    simp only [List.flatMap_cons, List.append_assoc] at h
    obtain ⟨s1, e1, a1, i1⟩ := unmarshal_marshal cf p (hp p List.mem_cons_self) _ s hne h
    obtain ⟨s2, e2, a2⟩ := ih (fun q hq => hp q (List.mem_cons_of_mem _ hq)) s1 i1 a1
    exact ⟨s2, by simp [unmarshalMany, e1, e2], a2⟩

/-- the `Write` calls `Marshal` makes, concatenated, are the wire bytes (and `Marshal` succeeds on
well-formed packets) -/
theorem marshal_writes (p : Packet.Packet) (hp : WF p) :
    ∃ ws, marshalWrites p = .ok ws ∧ ws.flatten = marshal p := by
  have hpieces : ∀ (n : Nat) (b : Bytes), (pieces n b).flatten = b := by
    intro n b
    induction b using pieces.induct n with
    | case1 b h hb => unfold pieces; rw [dif_pos h, if_pos hb]; simpa using hb
    | case2 b h hb => unfold pieces; rw [dif_pos h, if_neg hb]; simp
    | case3 b h ih => unfold pieces; rw [dif_neg h]; simp [ih]
  unfold marshalWrites
  rw [if_neg (by have := hp.ntags; omega)]
  rw [if_neg (by
    intro h
    rw [List.any_eq_true] at h
    obtain ⟨t, ht, h0⟩ := h
    have := (hp.tags t ht).1
    simp at h0; omega)]
  refine ⟨_, rfl, ?_⟩
  simp only [List.flatten_append, hpieces, marshal, tagBytes]
  simp [List.flatten_cons, List.flatMap_def]

/-- **Nested stream form** (used inside batched packets), Chunk reader: lossless and exact. -/
theorem stream_roundtrip_chunk (p : Packet.Packet) (hp : WF p) (rest : Bytes) :
    unmarshalStream chunkPrim devReadChunk (marshalStream p ++ rest) = .ok (p, rest) := by
  obtain ⟨s', h1, h2, _⟩ := unmarshalStream_ok chunk_lawful devReadChunk devReadChunk_lawful p hp
    (marshalStream p ++ rest) rest trivial rfl
  simp only [id] at h2; subst h2; exact h1

/-- Nested stream form, stream reader, for every chunking of the underlying reader. -/
theorem stream_roundtrip_stream (p : Packet.Packet) (hp : WF p) (rest : Bytes) (s : Stream)
    (hne : NoEmpty s) (h : s.flatten = marshalStream p ++ rest) :
    ∃ s', unmarshalStream streamPrim devReadStream s = .ok (p, s') ∧ s'.flatten = rest :=
  let ⟨s', h1, h2, _⟩ := unmarshalStream_ok stream_lawful devReadStream devReadStream_lawful p hp s rest hne h
  ⟨s', h1, h2⟩

/-! ### Header field independence (`com.Flag`) -/
open XMT.Flag

/-- `SetLen` sets the fragment count and changes nothing else, apart from marking the packet as a
fragment. -/
theorem setLen_fields (f n : Nat) (hn : n < 2^16) :
    len (setLen f n) = n ∧ position (setLen f n) = position f ∧ group (setLen f n) = group f ∧
    bits (setLen f n) = bits f ||| flagFrag ∧ setLen f n < 2^64 := by
  obtain ⟨r, hr, h1, h2⟩ := setLen_eq f n hn
  obtain ⟨d, hd, h3, h4⟩ := bits_or_one f
  have hp : position f < 2^16 := Nat.mod_lt _ (by decide)
  have hlt : setLen f n < 2^64 := Nat.mod_lt _ (by decide)
  refine ⟨?_, ?_, ?_, ?_, hlt⟩
  · rw [hr]; unfold len u16; simp only [Nat.shiftRight_eq_div_pow]; omega
  · rw [hr]; unfold position u16; simp only [Nat.shiftRight_eq_div_pow]
    unfold position u16 at hp h1; simp only [Nat.shiftRight_eq_div_pow] at hp h1; omega
  · rw [hr]; unfold group u16; simp only [Nat.shiftRight_eq_div_pow]
    unfold position u16 at hp h1; simp only [Nat.shiftRight_eq_div_pow] at hp h1; omega
  · rw [hr]; unfold flagFrag; rw [hd]; unfold bits u16; omega

theorem setPosition_fields (f n : Nat) (hn : n < 2^16) :
    position (setPosition f n) = n ∧ len (setPosition f n) = len f ∧
    group (setPosition f n) = group f ∧ bits (setPosition f n) = bits f ||| flagFrag ∧
    setPosition f n < 2^64 := by
  obtain ⟨r, hr, h1, h2⟩ := setPosition_eq f n hn
  obtain ⟨d, hd, h3, h4⟩ := bits_or_one f
  have hp : len f < 2^16 := Nat.mod_lt _ (by decide)
  have hlt : setPosition f n < 2^64 := Nat.mod_lt _ (by decide)
  refine ⟨?_, ?_, ?_, ?_, hlt⟩
  · rw [hr]; unfold position u16; simp only [Nat.shiftRight_eq_div_pow]; omega
  · rw [hr]; unfold len u16; simp only [Nat.shiftRight_eq_div_pow]
    unfold len u16 at hp h1; simp only [Nat.shiftRight_eq_div_pow] at hp h1; omega
  · rw [hr]; unfold group u16; simp only [Nat.shiftRight_eq_div_pow]
    unfold len u16 at hp h1; simp only [Nat.shiftRight_eq_div_pow] at hp h1; omega
  · rw [hr]; unfold flagFrag; rw [hd]; unfold bits u16; omega

theorem setGroup_fields (f n : Nat) (hn : n < 2^16) (hf : f < 2^64) :
    group (setGroup f n) = n ∧ len (setGroup f n) = len f ∧
    position (setGroup f n) = position f ∧ bits (setGroup f n) = bits f ||| flagFrag ∧
    setGroup f n < 2^64 := by
  obtain ⟨r, hr, h1, h2⟩ := setGroup_eq f n hn hf
  obtain ⟨d, hd, h3, h4⟩ := bits_or_one f
  have hlt : setGroup f n < 2^64 := Nat.mod_lt _ (by decide)
  refine ⟨?_, ?_, ?_, ?_, hlt⟩
  · rw [hr]; unfold group u16; simp only [Nat.shiftRight_eq_div_pow]; omega
  · rw [hr]; unfold len u16; simp only [Nat.shiftRight_eq_div_pow]; omega
  · rw [hr]; unfold position u16; simp only [Nat.shiftRight_eq_div_pow]; omega
  · rw [hr]; unfold flagFrag; rw [hd]; unfold bits u16; omega

/-- `Clear` on a fragment drops the three fragment fields and the fragment mark and keeps the other
flag bits. -/
theorem clear_fields (f : Nat) (hfrag : bits f % 2 = 1) :
    len (clear f) = 0 ∧ position (clear f) = 0 ∧ group (clear f) = 0 ∧ clear f = bits f - flagFrag := by
  have hb : bits f < 2^16 := Nat.mod_lt _ (by decide)
  have hc : clear f = bits f - 1 := by
    unfold clear flagFrag; exact xor_one_of_odd _ hfrag
  refine ⟨?_, ?_, ?_, hc⟩ <;> rw [hc]
  · unfold len u16; simp only [Nat.shiftRight_eq_div_pow]; omega
  · unfold position u16; simp only [Nat.shiftRight_eq_div_pow]; omega
  · unfold group u16; simp only [Nat.shiftRight_eq_div_pow]; omega

/-! Non-vacuity -/
def demo : Packet.Packet :=
  { id := 7, job := 513, flags := 0x0003000200010001, tags := [1, 0xFFFFFFFF],
    dev := 1 :: List.replicate 31 0, payload := [1, 2, 3] }
example : WF demo := by
  constructor <;> try decide
example : Packet.marshal demo = 1 :: List.replicate 31 0 ++
    [7, 2, 1, 0, 3, 0, 2, 0, 1, 0, 1, 0, 2, 1, 3, 0, 0, 0, 1, 255, 255, 255, 255, 1, 2, 3] := by decide
example : len (setLen 0x0003000200010001 5) = 5 ∧ position (setLen 0x0003000200010001 5) = 2 := by decide

private theorem shr_small (n k : Nat) (hn : n < 2^16) (hk : 16 ≤ k) : n >>> k = 0 := by
  rw [Nat.shiftRight_eq_div_pow]
  apply Nat.div_eq_of_lt
  calc n < 2^16 := hn
    _ ≤ 2^k := Nat.pow_le_pow_right (by decide) hk

/-- **The flag-bit operations leave the fragment fields alone**: `Flag.Set(n)` with a mask inside the
16 flag bits changes no fragment-count, -position or -group field and ors the mask into the flag
bits (it does not mark the packet as a fragment). -/
theorem flag_set_fields (f n : Nat) (hn : n < 2^16) :
    len (Flag.set f n) = len f ∧ position (Flag.set f n) = position f ∧ group (Flag.set f n) = group f ∧
    bits (Flag.set f n) = bits f ||| n := by
  unfold len position group bits Flag.set u16
  refine ⟨?_, ?_, ?_, ?_⟩
  · rw [Nat.shiftRight_or_distrib, shr_small n 48 hn (by decide), Nat.or_zero]
  · rw [Nat.shiftRight_or_distrib, shr_small n 32 hn (by decide), Nat.or_zero]
  · rw [Nat.shiftRight_or_distrib, shr_small n 16 hn (by decide), Nat.or_zero]
  · rw [← Nat.and_two_pow_sub_one_eq_mod, ← Nat.and_two_pow_sub_one_eq_mod, Nat.and_or_distrib_right]
    congr 1
    rw [Nat.and_two_pow_sub_one_eq_mod]; exact Nat.mod_eq_of_lt hn

/-- …and `Flag.Unset(n)` likewise: count, position and group are untouched, exactly the bits of the mask
that were set are cleared. -/
theorem flag_unset_fields (f n : Nat) (hn : n < 2^16) :
    len (unset f n) = len f ∧ position (unset f n) = position f ∧ group (unset f n) = group f ∧
    bits (unset f n) = bits f - (bits f &&& n) ∧ bits (unset f n) ≤ bits f := by
  have hx : f &&& n = (f % 2^16) &&& n := by
    have h1 : f &&& n < 2^16 := Nat.lt_of_le_of_lt Nat.and_le_right hn
    have h2 := Nat.and_mod_two_pow (a := f) (b := n) (n := 16)
    rw [Nat.mod_eq_of_lt h1, Nat.mod_eq_of_lt hn] at h2
    exact h2
  have hle : (f % 2^16) &&& n ≤ f % 2^16 := Nat.and_le_left
  have hlo : f % 2^16 < 2^16 := Nat.mod_lt _ (by decide)
  have hdiv : (f - (f &&& n)) / 2^16 = f / 2^16 := by rw [hx]; omega
  have hmod : (f - (f &&& n)) % 2^16 = f % 2^16 - ((f % 2^16) &&& n) := by rw [hx]; omega
  have hs : ∀ k, 16 ≤ k → (f - (f &&& n)) >>> k = f >>> k := by
    intro k hk
    obtain ⟨j, rfl⟩ : ∃ j, k = 16 + j := ⟨k - 16, by omega⟩
    rw [Nat.shiftRight_add, Nat.shiftRight_add, Nat.shiftRight_eq_div_pow _ 16, Nat.shiftRight_eq_div_pow f 16, hdiv]
  unfold len position group bits unset u16
  refine ⟨by rw [hs 48 (by decide)], by rw [hs 32 (by decide)], by rw [hs 16 (by decide)], hmod, ?_⟩
  rw [hmod]; omega

/-! ### The same laws for the functions AS THE SOURCE HAS THEM NOW

`Facts.x_com_Flag_*` are regenerated on every run from the current `com/flag.go` by the Go→Lean
translator of the harness (`go/cmd/xmth/xlate.go`: Go's unsigned semantics written out naively, every
conversion / shift-left followed by `% 2^w`); `XMT/TieXlate.lean` proves each of them equal to the
hand-written model for all arguments. The field-independence laws are restated here for the
regenerated getters and setters: they are theorems about what the code says now, not about a model
that is only sampled against it. -/
section Src
open XMT.TieXlate

/-- `SetLen` of the current source: sets the count, keeps position, group and flag bits, only adds
`FlagFrag`; the result is a 64-bit word. -/
theorem src_setLen_fields (f n : Nat) (hn : n < 2^16) :
    Facts.x_com_Flag_Len (Facts.x_com_Flag_SetLen f n) = n ∧
    Facts.x_com_Flag_Position (Facts.x_com_Flag_SetLen f n) = Facts.x_com_Flag_Position f ∧
    Facts.x_com_Flag_Group (Facts.x_com_Flag_SetLen f n) = Facts.x_com_Flag_Group f ∧
    bits (Facts.x_com_Flag_SetLen f n) = bits f ||| Facts.flagFrag ∧ Facts.x_com_Flag_SetLen f n < 2^64 := by
  simp only [x_com_Flag_SetLen_eq, x_com_Flag_Len_eq, x_com_Flag_Position_eq, x_com_Flag_Group_eq]
  exact setLen_fields f n hn

/-- `SetPosition` of the current source. -/
theorem src_setPosition_fields (f n : Nat) (hn : n < 2^16) :
    Facts.x_com_Flag_Position (Facts.x_com_Flag_SetPosition f n) = n ∧
    Facts.x_com_Flag_Len (Facts.x_com_Flag_SetPosition f n) = Facts.x_com_Flag_Len f ∧
    Facts.x_com_Flag_Group (Facts.x_com_Flag_SetPosition f n) = Facts.x_com_Flag_Group f ∧
    bits (Facts.x_com_Flag_SetPosition f n) = bits f ||| Facts.flagFrag ∧
    Facts.x_com_Flag_SetPosition f n < 2^64 := by
  simp only [x_com_Flag_SetPosition_eq, x_com_Flag_Len_eq, x_com_Flag_Position_eq, x_com_Flag_Group_eq]
  exact setPosition_fields f n hn

/-- `SetGroup` of the current source (on a 64-bit word). -/
theorem src_setGroup_fields (f n : Nat) (hn : n < 2^16) (hf : f < 2^64) :
    Facts.x_com_Flag_Group (Facts.x_com_Flag_SetGroup f n) = n ∧
    Facts.x_com_Flag_Len (Facts.x_com_Flag_SetGroup f n) = Facts.x_com_Flag_Len f ∧
    Facts.x_com_Flag_Position (Facts.x_com_Flag_SetGroup f n) = Facts.x_com_Flag_Position f ∧
    bits (Facts.x_com_Flag_SetGroup f n) = bits f ||| Facts.flagFrag ∧
    Facts.x_com_Flag_SetGroup f n < 2^64 := by
  simp only [x_com_Flag_SetGroup_eq, x_com_Flag_Len_eq, x_com_Flag_Position_eq, x_com_Flag_Group_eq]
  exact setGroup_fields f n hn hf

/-- `Clear` of the current source, on a fragment: count, position and group become 0, the fragment
mark is dropped, the other flag bits stay. -/
theorem src_clear_fields (f : Nat) (hfrag : bits f % 2 = 1) :
    Facts.x_com_Flag_Len (Facts.x_com_Flag_Clear f) = 0 ∧ Facts.x_com_Flag_Position (Facts.x_com_Flag_Clear f) = 0 ∧
    Facts.x_com_Flag_Group (Facts.x_com_Flag_Clear f) = 0 ∧ Facts.x_com_Flag_Clear f = bits f - Facts.flagFrag := by
  simp only [x_com_Flag_Clear_eq, x_com_Flag_Len_eq, x_com_Flag_Position_eq, x_com_Flag_Group_eq]
  exact clear_fields f hfrag

/-- `Set` of the current source with a mask inside the 16 flag bits. -/
theorem src_flag_set_fields (f n : Nat) (hn : n < 2^16) :
    Facts.x_com_Flag_Len (Facts.x_com_Flag_Set f n) = Facts.x_com_Flag_Len f ∧
    Facts.x_com_Flag_Position (Facts.x_com_Flag_Set f n) = Facts.x_com_Flag_Position f ∧
    Facts.x_com_Flag_Group (Facts.x_com_Flag_Set f n) = Facts.x_com_Flag_Group f ∧
    bits (Facts.x_com_Flag_Set f n) = bits f ||| n := by
  simp only [x_com_Flag_Set_eq, x_com_Flag_Len_eq, x_com_Flag_Position_eq, x_com_Flag_Group_eq]
  exact flag_set_fields f n hn

/-- `Unset` of the current source (`*f &^ n`, on a 64-bit word) with a mask inside the 16 flag bits. -/
theorem src_flag_unset_fields (f n : Nat) (hn : n < 2^16) (hf : f < 2^64) :
    Facts.x_com_Flag_Len (Facts.x_com_Flag_Unset f n) = Facts.x_com_Flag_Len f ∧
    Facts.x_com_Flag_Position (Facts.x_com_Flag_Unset f n) = Facts.x_com_Flag_Position f ∧
    Facts.x_com_Flag_Group (Facts.x_com_Flag_Unset f n) = Facts.x_com_Flag_Group f ∧
    bits (Facts.x_com_Flag_Unset f n) = bits f - (bits f &&& n) ∧ bits (Facts.x_com_Flag_Unset f n) ≤ bits f := by
  simp only [x_com_Flag_Unset_eq f n hf, x_com_Flag_Len_eq, x_com_Flag_Position_eq, x_com_Flag_Group_eq]
  exact flag_unset_fields f n hn

/-- **The hand-written model of `com/flag.go` IS the current source**, function by function, for every
64-bit word and every argument (the statement the differential run only samples). -/
theorem src_flag_model (f n : Nat) (hf : f < 2^64) :
    Facts.x_com_Flag_Len f = len f ∧ Facts.x_com_Flag_Position f = position f ∧ Facts.x_com_Flag_Group f = group f ∧
    Facts.x_com_Flag_SetLen f n = setLen f n ∧ Facts.x_com_Flag_SetPosition f n = setPosition f n ∧
    Facts.x_com_Flag_SetGroup f n = setGroup f n ∧ Facts.x_com_Flag_Clear f = clear f ∧
    Facts.x_com_Flag_Set f n = Flag.set f n ∧ Facts.x_com_Flag_Unset f n = unset f n :=
  ⟨x_com_Flag_Len_eq f, x_com_Flag_Position_eq f, x_com_Flag_Group_eq f, x_com_Flag_SetLen_eq f n,
   x_com_Flag_SetPosition_eq f n, x_com_Flag_SetGroup_eq f n, x_com_Flag_Clear_eq f, x_com_Flag_Set_eq f n,
   x_com_Flag_Unset_eq f n hf⟩

/-! Non-vacuity: the regenerated functions compute (kernel evaluation), the hypotheses are met. -/
example : Facts.x_com_Flag_SetLen 0x0003000200010001 5 = 0x0005000200010001 := by decide
example : Facts.x_com_Flag_SetGroup 0x0003000200010008 0xFFFF = 0x00030002FFFF0009 := by decide
example : Facts.x_com_Flag_Clear 0x0003000200010009 = 8 ∧ bits 0x0003000200010009 % 2 = 1 := by decide
example : Facts.x_com_Flag_Unset 0xFFFFFFFFFFFFFFFF 0x8000 = 0xFFFFFFFFFFFF7FFF ∧ (0x8000 : Nat) < 2^16 ∧
    (0xFFFFFFFFFFFFFFFF : Nat) < 2^64 := by decide
example : Facts.x_com_Flag_SetPosition_src = "*f = Flag(f.Len())<<48 | Flag(n)<<32 | Flag(uint32(*f)) | FlagFrag" := by decide
end Src


end XMT.Props.C01
