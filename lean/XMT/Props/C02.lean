/-
  C02 — Fragmented packets reassemble to exactly the original, for every size.
  Property theorems only. Model: XMT/Frag.lean (sender split = Session.write, receiver =
  cluster.add/done + the FlagFrag arm of receive + markSweepFrags); lemmas: XMT/FragLemmas.lean,
  FragRecv.lean, FragAssemble.lean, FragMap.lean.  `F` (limits.Frag) is a parameter: every theorem
  holds for every fragment limit, every payload size and every residue of the size modulo `F`.

  -- OPEN: the property quantifies over *all* arrival permutations. The code answers a fragment with
  -- position > 0 of a group it has no state for with `SvDrop` and discards it (`first_not_zero_dropped`
  -- below is the proved negation, for every such fragment), so only arrival orders whose first
  -- fragment is fragment 0 reassemble: `reassemble_any_order_partial`. Known finding
  -- `order:first-arrival-not-fragment-0`.

  Scope notes (from an adversarial review of these statements, see DESIGN.md Appendix B.5):
  * duplicate arrivals: the any-order theorems take an arrival order WITHOUT repetitions of a
    fragment that is still needed (each needed position once); a duplicate of an already stored
    position is accepted by `cluster.add` and counted, so m arrivals containing a duplicate can
    complete a group with a hole (the harness feeds duplicates only after completion, scenario 5).
    Not proved either way; recorded as open.  [round s3: DECIDED, see the end of this file —
    `duplicates_complete_by_count_partial`, `duplicate_delivers_corrupted_witness`; the run-level
    sweep theorems are `fed_group_never_swept`, `starved_group_released`,
    `stale_group_released_late_dropped`.]
  * `sweep_decrements` / `sweep_keeps_active` are one-step facts about `markSweepFrags`; "a stale
    group is gone after fragMaxMisses sweeps" and "sweeps between arrivals do not disturb a transfer
    that is fed" are their evident iterations and are exercised by the differential run (sweeps
    interleaved with arrivals), not stated as run-level theorems.
  * `split_one_job`: the Job number drawn for a Job-less packet is a parameter of `withJob`.
-/
import XMT.FragMap
import XMT.FragSweep
import XMT.FragSend
namespace XMT.Props.C02
open XMT XMT.Packet XMT.Frag XMT.Flag

/-- **The split is lossless**: for every limit `F > 0`, packet and group id, the fragments carry
consecutive windows of at most `F` bytes which concatenate to exactly the original payload; their
number is the count computed from `Size()`. -/
theorem split_lossless (F : Nat) (hF : 0 < F) (p : Pkt) (g : Nat) :
    (split F p g).length = fragCount F (Packet.size p) ∧
    ((split F p g).map (·.payload)).flatten = p.payload ∧
    (∀ f ∈ split F p g, f.payload.length ≤ F ∧ f.id = p.id ∧ f.job = p.job ∧ f.dev = p.dev) := by
  rw [split_eq_fr]
  refine ⟨by simp, ?_, ?_⟩
  · have : ((List.range (fragCount F (Packet.size p))).map
        (fr F p g (fragCount F (Packet.size p)))).map (·.payload)
        = (List.range (fragCount F (Packet.size p))).map (fun k => (p.payload.drop (k * F)).take F) := by
      rw [List.map_map]; rfl
    rw [this, windows_flatten, List.take_of_length_le (fragCount_covers F hF p)]
  · intro f hf
    obtain ⟨i, _, rfl⟩ := List.mem_map.mp hf
    refine ⟨?_, rfl, rfl, rfl⟩
    show ((p.payload.drop (i * F)).take F).length ≤ F
    rw [List.length_take]; omega


/-- **One Job number per group**: `write` gives a packet without a Job number one before it is split
(`withJob`, the repaired code), so all fragments carry the same Job number — non-zero whenever the
drawn number is — and everything above applies to the packet with that number. -/
theorem split_one_job (F : Nat) (hF : 0 < F) (p : Pkt) (g j : Nat) :
    (∀ f ∈ split F (withJob p j) g, f.job = (withJob p j).job) ∧
    (p.job = 0 → p.flags &&& Facts.flagProxy = 0 → p.id.toNat > 1 → (withJob p j).job = j) ∧
    (p.job ≠ 0 → withJob p j = p) := by
  refine ⟨fun f hf => ((split_lossless F hF (withJob p j) g).2.2 f hf).2.2.1, ?_, ?_⟩
  · intro h1 h2 h3; unfold withJob; simp [h1, h2, h3]
  · intro h; unfold withJob; simp [h]

/-- **Exactly once, identical, any order after fragment 0** (the `_partial` form, see the header):
when fragment 0 arrives first and the others in *any* order `R`, the first `m-1` arrivals are only
stored, the last one delivers exactly one packet whose ID, job, device, flags and payload are the
original's, and the group leaves no reassembly state behind (`none`). -/
theorem reassemble_any_order_partial {F : Nat} {p : Pkt} {g m : Nat} (C : Ctx F p g m)
    (R : List Nat) (hR : (0 :: R).Perm (List.range m)) :
    feedGroup none ((0 :: R).map (fr F p g m)) =
      (none, List.replicate (m - 1) Out.stored ++ [.deliver { p with tags := [] }]) := by
  have hm2 := C.m2
  have hlen : (0 :: R).length = m := by rw [hR.length_eq]; simp
  have hRm : ∀ i ∈ R, i < m := fun i hi =>
    List.mem_range.mp (hR.subset (List.mem_cons_of_mem _ hi))
  have hgood : Good F p g m [fr F p g m 0] := ⟨⟨[], rfl⟩, fun f hf => ⟨0, by omega, by simpa using hf⟩⟩
  have hRne : R ≠ [] := by intro h; subst h; simp at hlen; omega
  simp only [List.length_cons] at hlen
  obtain ⟨h1, _⟩ := feed_rest C R [fr F p g m 0] hgood hRm (by simp; omega) (by left; simp; omega)
  obtain ⟨v, hv, hf⟩ := h1 (by simp; omega) hRne
  have hasm := assemble_perm C (0 :: R) hR
  simp only [List.map_cons, List.singleton_append] at hv hasm
  rw [hasm] at hv
  have hv' : v = { p with tags := [] } := (Option.some.inj hv).symm
  subst hv'
  simp only [List.map_cons, feedGroup, recv_first C, hf]
  congr 1
  have : m - 1 = (R.length - 1) + 1 := by omega
  rw [this, List.replicate_succ]; rfl

/-- the same at the level of `receive`'s fragment map, with fragments of **other groups
interleaved arbitrarily** (distinct group identifiers): the group is delivered exactly once,
identical to the original, and leaves no residual state, whatever else arrives in between. -/
theorem reassemble_interleaved {F : Nat} {p : Pkt} {g m : Nat} (C : Ctx F p g m)
    (R : List Nat) (hR : (0 :: R).Perm (List.range m)) (arr : List Pkt) (fs : Frags)
    (hprop : ∀ n ∈ arr, Proper n) (hfresh : fs.find g = none)
    (hmine : arr.filter (fun n => group n.flags = g) = (0 :: R).map (fr F p g m)) :
    (recvAll fs arr).1.find g = none ∧
    outsOf g arr (recvAll fs arr).2 =
      List.replicate (m - 1) Out.stored ++ [.deliver { p with tags := [] }] := by
  obtain ⟨h1, h2⟩ := recvAll_project g arr fs hprop
  rw [hfresh, hmine, reassemble_any_order_partial C R hR] at h1 h2
  exact ⟨h1, h2⟩

/-- **A group of which some fragment never arrives delivers nothing**: any arrivals (fragment 0
first, then any fragments of the group, fewer than `m` in total) are only stored. -/
theorem missing_delivers_nothing {F : Nat} {p : Pkt} {g m : Nat} (C : Ctx F p g m)
    (R : List Nat) (hRm : ∀ i ∈ R, i < m) (hlen : R.length + 1 < m) :
    feedGroup none ((0 :: R).map (fr F p g m)) =
      (some (St m ((0 :: R).map (fr F p g m))), List.replicate (R.length + 1) Out.stored) := by
  have hgood : Good F p g m [fr F p g m 0] :=
    ⟨⟨[], rfl⟩, fun f hf => ⟨0, by have := C.m2; omega, by simpa using hf⟩⟩
  obtain ⟨_, h2⟩ := feed_rest C R [fr F p g m 0] hgood hRm (by simp; omega) (by left; simp; omega)
  have hf := h2 (by simp; omega)
  simp only [List.map_cons, feedGroup, recv_first C, hf, List.singleton_append, List.replicate_succ]

/-- **Negation of the full statement** (known finding): a fragment with position > 0 arriving for a
group that has no reassembly state is answered with `SvDrop` and discarded — for *every* such
fragment of *every* fragmented packet, not only on a witness. -/
theorem first_not_zero_dropped {F : Nat} {p : Pkt} {g m : Nat} (C : Ctx F p g m) (i : Nat)
    (h0 : 0 < i) (hi : i < m) : recvGroup none (fr F p g m i) = (none, .dropReply) := by
  obtain ⟨_, _, pi, _, _⟩ := fr_flags C i hi
  unfold recvGroup
  simp only [pi]
  rw [if_pos h0]

/-- **Stale groups are swept** (`markSweepFrags`): every entry that survives a sweep is an old entry
whose miss counter went down by one and is still non-zero — so a group that is not fed any more
(its counter was set to `fragMaxMisses` by its last fragment) is gone after `fragMaxMisses` sweeps. -/
theorem sweep_decrements (fs : Frags) :
    ∀ kv ∈ sweep fs, kv.2.c ≠ 0 ∧
      ∃ kv0 ∈ fs, kv0.1 = kv.1 ∧ kv.2.c = (kv0.2.c + 255) % 256 ∧ kv.2.data = kv0.2.data := by
  intro kv hkv
  unfold sweep at hkv
  obtain ⟨hmap, hne⟩ := List.mem_filter.mp hkv
  obtain ⟨kv0, h0, rfl⟩ := List.mem_map.mp hmap
  exact ⟨by simpa using hne, kv0, h0, rfl, rfl, rfl⟩

/-! Non-vacuity: a concrete packet of 10 payload bytes with F = 4 would need Size() = 57 bytes →
15 fragments, most of them empty — the situation the repaired completion test handles. -/
def demo : Pkt := { id := 0x20, job := 77, flags := 0, tags := [],
                    dev := 1 :: List.replicate 31 0, payload := [1,2,3,4,5,6,7,8,9,10] }
example : (split 4 demo 9).length = 15 ∧ ((split 4 demo 9).map (·.payload)).flatten = demo.payload := by
  decide
example : (recvAll [] (split 4 demo 9)).1 = [] ∧
    (recvAll [] (split 4 demo 9)).2.getLast? = some (.deliver demo) := by decide

/-- **A wake-up of the receiver only ever discards stale groups**: `markSweepFrags` keeps every
group whose counter is above 1 — whatever its 16-bit identifier, 0 included — with the counter one
lower and the fragments untouched, and removes exactly the groups whose counter runs out. (Every
arriving fragment sets its group's counter back to `fragMaxMisses`, so a transfer that gets one
fragment per wake-up is never swept.) -/
theorem sweep_keeps_active (fs : Frag.Frags) (g : Nat) (cl : Frag.Cluster) (h : (g, cl) ∈ fs)
    (hc : 2 ≤ cl.c) (hc' : cl.c < 256) : (g, { cl with c := cl.c - 1 }) ∈ Frag.sweep fs := by
  unfold Frag.sweep
  rw [List.mem_filter]
  have hm : (cl.c + 255) % 256 = cl.c - 1 := by omega
  refine ⟨List.mem_map.mpr ⟨(g, cl), h, ?_⟩, ?_⟩
  · simp only [hm]
  · exact decide_eq_true (by simp only [hm]; omega)

/-! ## Round s3 — repeated fragments (duplicates) and wake-ups over whole histories

Lemmas: XMT/FragDup.lean, XMT/FragSweep.lean (the reassembly model itself is unchanged).

  -- OPEN (decided, negative): "fragment 0 first, then the fragments in any order, some of them
  -- MORE THAN ONCE ⇒ delivered exactly once, identical" is FALSE of the code: `cluster.add` stores and
  -- counts a repetition, `cluster.done` completes by count. `duplicates_complete_by_count_partial` is
  -- what does hold for every such arrival sequence; `duplicate_delivers_corrupted_witness` is the
  -- proved negation on a concrete packet. Known finding `duplicate:needed-fragment-repeated`.
  -- The sender never produces a repetition (`sender_never_repeats`) and nothing on the sending side
  -- queues a fragment twice, so the finding needs a replaying network element or peer.
-/

/-- **The sender never repeats a fragment**: the positions of the fragments `Session.write` queues
for one packet are `0, 1, …, m-1` in this order, each exactly once. -/
theorem sender_never_repeats {F : Nat} {p : Pkt} {g m : Nat} (C : Ctx F p g m) :
    (split F p g).map (fun f => position f.flags) = List.range m ∧
    ((split F p g).map (fun f => position f.flags)).Nodup := by
  rw [split_positions C]
  exact ⟨rfl, List.nodup_range⟩

/-- **Completion is by count** (the part of the duplicate statement that holds, for EVERY arrival
sequence with repetitions): fragment 0 first, then any `m-1` fragments of the group — positions
below `m`, repetitions allowed — are stored; the `m`-th arrival hands on exactly one packet, namely
`assemble` of what was collected (the original only if nothing was repeated, see the witness), and
releases the state; the fragments that arrive afterwards (positions above 0: the ones a repetition
displaced) are each answered with `SvDrop` and make no new state. -/
theorem duplicates_complete_by_count_partial {F : Nat} {p : Pkt} {g m : Nat} (C : Ctx F p g m)
    (R : List Nat) (hRm : ∀ i ∈ R, i < m) (hlen : R.length + 1 = m)
    (L : List Nat) (hL : ∀ i ∈ L, 0 < i ∧ i < m) :
    ∃ v, assemble ((0 :: R).map (fr F p g m)) = some v ∧
      feedGroup none (((0 :: R) ++ L).map (fr F p g m)) =
        (none, (List.replicate (m - 1) Out.stored ++ [.deliver v]) ++
               List.replicate L.length Out.dropReply) := by
  obtain ⟨v, hv, hf⟩ := feed_any_positions C R hRm hlen
  refine ⟨v, hv, ?_⟩
  rw [List.map_append, feedGroup_append, hf]
  simp only [late_positions_dropped C L hL]

/-- the witness packet is in the domain of the reassembly theorems (F = 4, 15 fragments) -/
theorem dupDemo_ctx : Ctx 4 dupDemo 9 15 :=
  ⟨by decide, by decide, by decide, by decide, by decide, by decide, by decide, by decide, by decide⟩

/-- **Negation of the full duplicate statement, on a concrete witness** (known finding
`duplicate:needed-fragment-repeated`): every one of the 15 fragments arrives, fragment 0 first,
fragment 1 twice (the second time while fragment 2 is still on its way). The 15th arrival hands the
handler a packet whose payload is `f0 ++ f1 ++ f1` — not the original — and fragment 2, arriving
next, is answered with `SvDrop`. -/
theorem duplicate_delivers_corrupted_witness :
    feedGroup none (dupArrivals.map (fr 4 dupDemo 9 15)) =
      (none, List.replicate 14 Out.stored ++
             [.deliver { dupDemo with payload := [1,2,3,4,5,6,7,8,5,6,7,8] }] ++ [.dropReply]) ∧
    dupArrivals.head? = some 0 ∧ (∀ i, i < 15 → i ∈ dupArrivals) ∧
    ({ dupDemo with payload := [1,2,3,4,5,6,7,8,5,6,7,8] } : Pkt).payload ≠ dupDemo.payload := by
  decide

/-- a repetition of fragment 0 that arrives when the group has no state (completed or swept) starts
a new cluster, which stays (residual state) until `markSweepFrags` has run `fragMaxMisses` times -/
theorem late_fragment_zero_restarts {F : Nat} {p : Pkt} {g m : Nat} (C : Ctx F p g m) :
    feedGroup none [fr F p g m 0] = (some (St m [fr F p g m 0]), [Out.stored]) ∧
    feedEv (some (St m [fr F p g m 0])) (List.replicate Facts.fragMaxMisses Ev.wake) = (none, []) := by
  refine ⟨late_zero_restarts C, ?_⟩
  have h1 : 1 ≤ (St m [fr F p g m 0]).c := by show 1 ≤ Facts.fragMaxMisses; decide
  have h2 : (St m [fr F p g m 0]).c < 256 := by show Facts.fragMaxMisses < 256; decide
  rw [feedEv_wakes _ _ h1 h2, if_neg (by show ¬ Facts.fragMaxMisses < Facts.fragMaxMisses; omega)]

example : ∃ R L, (∀ i ∈ R, i < 15) ∧ R.length + 1 = 15 ∧ (∀ i ∈ L, 0 < i ∧ i < 15) ∧
    (0 :: R) ++ L = dupArrivals :=
  ⟨[1, 1, 3, 4, 5, 6, 7, 8, 9, 10, 11, 12, 13, 14], [2], by decide, by decide, by decide, by decide⟩

/-- **A group that keeps receiving fragments is never swept — over ANY history.** `es` is any
interleaving of arrivals (of any number of groups, any fragments that go through the reassembly
path) and wake-ups of the receiving Session (`markSweepFrags`), starting from any fragment map `fs`
(distinct keys) without state for `g`. If the arrivals of group `g` are its fragments, fragment 0
first and the others in any order, and fewer than `fragMaxMisses` wake-ups fall between any two
consecutive arrivals of the group (`paced`; wake-ups before its first and after its last arrival are
unconstrained), then the group is answered exactly as without wake-ups: `m-1` times stored, then
delivered once, identical to the original, and no state for `g` is left. -/
theorem fed_group_never_swept {F : Nat} {p : Pkt} {g m : Nat} (C : Ctx F p g m)
    (R : List Nat) (hR : (0 :: R).Perm (List.range m)) (es : List Ev) (fs : Frags)
    (hn : (FragHostile.keys fs).Nodup) (hprop : ∀ n ∈ arrivals es, Proper n) (hfresh : fs.find g = none)
    (hmine : (arrivals es).filter (fun n => group n.flags = g) = (0 :: R).map (fr F p g m))
    (hpaced : paced Facts.fragMaxMisses none (projEv g es) = true) :
    (runEv fs es).1.find g = none ∧
    outsOf g (arrivals es) (runEv fs es).2 =
      List.replicate (m - 1) Out.stored ++ [.deliver { p with tags := [] }] := by
  obtain ⟨h1, h2⟩ := runEv_project g es fs hn hprop
  have href := reassemble_any_order_partial C R hR
  have harr : arrivals (projEv g es) = (0 :: R).map (fr F p g m) := by rw [arrivals_projEv, hmine]
  have hno : ∀ o ∈ (feedGroup none (arrivals (projEv g es))).2, o ≠ Out.errMismatch := by
    rw [harr, href]
    intro o ho
    simp only [List.mem_append, List.mem_replicate, List.mem_singleton] at ho
    rcases ho with ⟨_, rfl⟩ | rfl <;> simp
  obtain ⟨s1, s2⟩ := feedEv_paced (projEv g es) none none none (Or.inl ⟨rfl, rfl⟩) hpaced hno
  rw [harr, href] at s1 s2
  rw [hfresh] at h1 h2
  refine ⟨?_, by rw [h2, s1]⟩
  rw [h1]
  rcases s2 with ⟨_, h⟩ | ⟨k, _, ⟨x, _, hx, _⟩ | ⟨_, h⟩⟩
  · exact h
  · simp at hx
  · exact h

/-- **A group that receives nothing is released after its counter has run out — over ANY history**
of arrivals of other groups and wake-ups: with `w` wake-ups in the history, the entry of `g` is still
there with its fragments untouched and its counter `w` lower while `w` is below the counter, and it
is gone from then on. A state left by an arrival has counter `fragMaxMisses` (`recvGroup_c`), so
`fragMaxMisses` wake-ups without a fragment release the group. -/
theorem starved_group_released (g : Nat) (es : List Ev) (fs : Frags)
    (hn : (FragHostile.keys fs).Nodup) (hprop : ∀ n ∈ arrivals es, Proper n)
    (x : Cluster) (hx : fs.find g = some x) (h1 : 1 ≤ x.c) (h2 : x.c ≤ Facts.fragMaxMisses)
    (hnone : ∀ n ∈ arrivals es, group n.flags ≠ g) :
    (runEv fs es).1.find g = if wakes es < x.c then some { x with c := x.c - wakes es } else none := by
  obtain ⟨p1, _⟩ := runEv_project g es fs hn hprop
  have hF : Facts.fragMaxMisses < 256 := by decide
  rw [p1, hx, projEv_no_arrival g es hnone, feedEv_wakes _ _ h1 (by omega)]

/-- **Stale group, whole history**: the group gets fragment 0 and some more fragments, but fewer than
`m` (paced history `es1`), then nothing during a history `es2` with at least `fragMaxMisses`
wake-ups, then — history `es3` — fragments with a position above 0 arrive late. Nothing is ever
delivered for the group: in `es1` every fragment is stored, after `es2` the group has no state, and
in `es3` every late fragment is answered with `SvDrop` and no state is made. Fragments of other
groups and further wake-ups may be interleaved everywhere. -/
theorem stale_group_released_late_dropped {F : Nat} {p : Pkt} {g m : Nat} (C : Ctx F p g m)
    (R : List Nat) (hRm : ∀ i ∈ R, i < m) (hlen : R.length + 1 < m)
    (es1 es2 es3 : List Ev) (fs : Frags) (hn : (FragHostile.keys fs).Nodup) (hfresh : fs.find g = none)
    (hp1 : ∀ n ∈ arrivals es1, Proper n) (hp2 : ∀ n ∈ arrivals es2, Proper n)
    (hp3 : ∀ n ∈ arrivals es3, Proper n)
    (hmine : (arrivals es1).filter (fun n => group n.flags = g) = (0 :: R).map (fr F p g m))
    (hpaced : paced Facts.fragMaxMisses none (projEv g es1) = true)
    (hnone : ∀ n ∈ arrivals es2, group n.flags ≠ g) (hw : Facts.fragMaxMisses ≤ wakes es2)
    (L : List Nat) (hL : ∀ i ∈ L, 0 < i ∧ i < m)
    (hlate : (arrivals es3).filter (fun n => group n.flags = g) = L.map (fr F p g m)) :
    outsOf g (arrivals es1) (runEv fs es1).2 = List.replicate (R.length + 1) Out.stored ∧
    (runEv (runEv fs es1).1 es2).1.find g = none ∧
    outsOf g (arrivals es3) (runEv (runEv (runEv fs es1).1 es2).1 es3).2 =
      List.replicate L.length Out.dropReply ∧
    (runEv (runEv (runEv fs es1).1 es2).1 es3).1.find g = none := by
  have hF : Facts.fragMaxMisses < 256 := by decide
  -- es1
  obtain ⟨a1, a2⟩ := runEv_project g es1 fs hn hp1
  have href := missing_delivers_nothing C R hRm hlen
  have harr : arrivals (projEv g es1) = (0 :: R).map (fr F p g m) := by rw [arrivals_projEv, hmine]
  have hno : ∀ o ∈ (feedGroup none (arrivals (projEv g es1))).2, o ≠ Out.errMismatch := by
    rw [harr, href]
    intro o ho
    simp only [List.mem_replicate] at ho
    rw [ho.2]; simp
  obtain ⟨s1, s2⟩ := feedEv_paced (projEv g es1) none none none (Or.inl ⟨rfl, rfl⟩) hpaced hno
  rw [harr, href] at s1 s2
  rw [hfresh] at a1 a2
  have hn1 := keys_runEv_nodup es1 fs hn
  have hn2 := keys_runEv_nodup es2 _ hn1
  -- es2
  have hmid : (runEv (runEv fs es1).1 es2).1.find g = none := by
    rcases s2 with ⟨h, _⟩ | ⟨k, _, ⟨x, hk, hx, hc'⟩ | ⟨_, h⟩⟩
    · simp at h
    · have hst : (runEv fs es1).1.find g = some { x with c := Facts.fragMaxMisses - k } := by rw [a1, hc']
      rw [starved_group_released g es2 _ hn1 hp2 _ hst (by simp only; omega) (by simp only; omega) hnone]
      rw [if_neg (by simp only; omega)]
    · obtain ⟨b1, _⟩ := runEv_project g es2 _ hn1 hp2
      rw [b1, a1, h, projEv_no_arrival g es2 hnone, feedEv_none_wakes]
  -- es3
  obtain ⟨c1, c2⟩ := runEv_project g es3 _ hn2 hp3
  have hlate' : ∀ n ∈ arrivals (projEv g es3), ∃ i, 0 < i ∧ i < m ∧ n = fr F p g m i := by
    rw [arrivals_projEv, hlate]
    intro n hnm
    obtain ⟨i, hi, rfl⟩ := List.mem_map.mp hnm
    exact ⟨i, (hL i hi).1, (hL i hi).2, rfl⟩
  have h3 := feedEv_none_late C (projEv g es3) hlate'
  rw [hmid, h3] at c1 c2
  refine ⟨by rw [a2, s1], hmid, ?_, c1⟩
  rw [c2, arrivals_projEv, hlate, List.length_map]

/-! Non-vacuity of the history theorems: the 15 fragments of `dupDemo` (F = 4), fragment 0 first, two
wake-ups after every fragment (30 in all, never 5 in a row) — delivered; and a history that stops
after 3 fragments, 5 wake-ups: released, the late fragment 7 is answered with `SvDrop`. -/
def demoPaced : List Ev :=
  ((0 :: (List.range 15).drop 1).map (fun i => [Ev.arrive (fr 4 dupDemo 9 15 i), Ev.wake, Ev.wake])).flatten
example : paced Facts.fragMaxMisses none (projEv 9 demoPaced) = true ∧ wakes demoPaced = 30 ∧
    (runEv [] demoPaced).1 = [] ∧ (runEv [] demoPaced).2.getLast? = some (.deliver dupDemo) := by decide
example :
    (runEv [] ([0, 5, 3].map (fun i => Ev.arrive (fr 4 dupDemo 9 15 i)) ++ List.replicate 5 Ev.wake ++
      [Ev.arrive (fr 4 dupDemo 9 15 7)])) = ([], [.stored, .stored, .stored, .dropReply]) := by decide

/-! ## Round s3 — the sender side of the known finding `order:first-arrival-not-fragment-0` -/

/-- **The sender never emits a fragment with a position above 0 before fragment 0 of its group**
(one Session, one connection after the other). `write` (with or without the `ErrFullBuffer` guard,
any channel capacity, any content `q0` queued before, a carried-over packet, anything `q2` queued
afterwards) leaves a prefix of the fragments in the channel, and `next` — for all budgets, batching,
keep-alive elision, carry-over, and also while a group other than `g` is being abandoned — hands
them to the connections in that order: the positions of the fragments of group `g` that the peer
observes over all transmissions until the queue drains are `0, 1, …, k-1` with
`k = min (cap - len q0) m`. So the known finding `order:first-arrival-not-fragment-0` cannot be
caused by one sender on its own connections; it takes reordering between connections (several
connections in flight, a proxy hop) or a lost transmission of fragment 0.
(`write` and the channel are one step here: no concurrent consumer frees a slot during the call.) -/
theorem sender_emits_fragment_zero_first {F : Nat} {p : Pkt} {g m j : Nat}
    (C : Ctx F (withJob p j) g m)
    (P Fb : Nat) (hP : P < Facts.fragMax) (hP2 : 2 ≤ P) (i uuid : Bytes) (w : Bool) (cap : Nat)
    (q0 q1 q2 : List Pkt) (st : Batch.St)
    (hw : writeBig w cap uuid F q0 p g j = some q1) (hst : st.q = q1 ++ q2)
    (hother : ∀ a ∈ st.peek.toList ++ q0 ++ q2, isFragOf g a = false)
    (hpq : Batch.QWF (withJob p j)) (hqo : ∀ a ∈ st.peek.toList ++ q0 ++ q2, Batch.QWF a)
    (hlast : st.last = 0 ∨ st.last ≠ g) :
    ∃ obs, Batch.observe (Batch.drain P Fb i ((Batch.content st).length + 1) st) = .ok obs ∧
      (obs.filter (isFragOf g)).map (fun n => position n.flags) =
        List.range (min (cap - q0.length) m) := by
  have hcont0 : Batch.content st = st.peek.toList ++ (q0 ++
      ((split F (withJob p j) g).map (stamp uuid)).take (cap - q0.length) ++ q2) := by
    unfold Batch.content
    rw [hst, writeBig_prefix w cap uuid F q0 q1 p g j hw]
  have hq : ∀ a ∈ Batch.content st, Batch.QWF a := by
    rw [hcont0]
    intro a ha
    simp only [List.mem_append] at ha
    rcases ha with ha | (ha | ha) | ha
    · exact hqo a (by simp [ha])
    · exact hqo a (by simp [ha])
    · exact split_qwf C hpq uuid a (List.mem_of_mem_take ha)
    · exact hqo a (by simp [ha])
  obtain ⟨obs, ho, hk⟩ := group_order_preserved P Fb hP hP2 i st hq g hlast
  refine ⟨obs, ho, ?_⟩
  have hpos : ∀ l : List Pkt, (l.map Batch.core).map (fun n => position n.flags) =
      l.map (fun n => position n.flags) := by intro l; rw [List.map_map]; rfl
  have h1 := congrArg (List.map (fun n : Pkt => position n.flags)) hk
  rw [hpos, hpos] at h1
  rw [h1]
  have hnil : ∀ l : List Pkt, (∀ a ∈ l, isFragOf g a = false) → l.filter (isFragOf g) = [] := by
    intro l hl
    rw [List.filter_eq_nil_iff]
    intro a ha; rw [hl a ha]; simp
  have hcont : Batch.content st = st.peek.toList ++ (q0 ++
      ((split F (withJob p j) g).map (stamp uuid)).take (cap - q0.length) ++ q2) := by
    unfold Batch.content
    rw [hst, writeBig_prefix w cap uuid F q0 q1 p g j hw]
  rw [hcont]
  simp only [List.filter_append]
  rw [hnil _ (fun a ha => hother a (by simp [ha])), hnil q0 (fun a ha => hother a (by simp [ha])),
    hnil q2 (fun a ha => hother a (by simp [ha]))]
  simp only [List.nil_append, List.append_nil]
  have hall : ∀ a ∈ ((split F (withJob p j) g).map (stamp uuid)).take (cap - q0.length), isFragOf g a = true := by
    intro a ha
    obtain ⟨n, hn, rfl⟩ := List.mem_map.mp (List.mem_of_mem_take ha)
    rw [isFragOf_stamp]
    exact split_all_fragOf C n hn
  rw [List.filter_eq_self.mpr hall, List.map_take, List.map_map]
  have hsp : (split F (withJob p j) g).map ((fun n : Pkt => position n.flags) ∘ stamp uuid) = List.range m := by
    rw [← split_positions C]
    apply List.map_congr_left
    intro n _
    simp only [Function.comp]
    unfold stamp; split <;> rfl
  rw [hsp, List.take_range]

/-! Non-vacuity: a send channel of capacity 6 that already holds one small packet; `write` of the
15-fragment packet `dupDemo` (F = 4) leaves fragments 0..4 in it (the other ten are dropped by
`queue`); one more small packet would be dropped too. All hypotheses of the theorem hold and the
peer observes the positions 0, 1, 2, 3, 4 in this order. -/
def sendDev : Bytes := 1 :: List.replicate 31 0
def sendSmall : Pkt := { id := 0x21, job := 5, flags := 0, tags := [], dev := sendDev, payload := [7, 7] }
def sendQ1 : List Pkt := [sendSmall] ++ ((split 4 dupDemo 9).map (stamp sendDev)).take 5
example : withJob dupDemo 0 = dupDemo ∧ writeBig true 6 sendDev 4 [sendSmall] dupDemo 9 0 = some sendQ1 ∧
    (∀ a ∈ [sendSmall], isFragOf 9 a = false) := by decide
example : Batch.QWF (withJob dupDemo 0) ∧ ∀ a ∈ [sendSmall], Batch.QWF a :=
  ⟨qwfB_sound _ (by decide), qwfB_all _ (by decide)⟩
example : (Batch.observe (Batch.drain 256 4 sendDev 7 { q := sendQ1 ++ [], peek := none, last := 0 })).toOption.map
    (fun l => (l.filter (isFragOf 9)).map (fun n => position n.flags)) = some [0, 1, 2, 3, 4] := by decide

end XMT.Props.C02
