/-
  C02 — Fragmented packets reassemble to exactly the original, for every size.
  Property theorems only. Model: XMT/Frag.lean (sender split = Session.write, receiver =
  cluster.add/done + the FlagFrag arm of receive + markSweepFrags); lemmas: XMT/FragLemmas.lean,
  FragRecv.lean, FragAssemble.lean, FragMap.lean.  `F` (limits.Frag) is a parameter: every theorem
  holds for every fragment limit, every payload size and every residue of the size modulo `F`.

  -- OPEN: the property quantifies over *all* arrival permutations. The code answers a fragment with
  -- position > 0 of a group it has no state for with `SvDrop` and discards it (`first_not_zero_dropped`
  -- below is the proved negation, for every such fragment), so only arrival orders whose first
  -- fragment is fragment 0 reassemble: `reassemble_any_order_partial`. Known finding
  -- `order:first-arrival-not-fragment-0`.

  Scope notes (from an adversarial review of these statements, see DESIGN.md Appendix B.5):
  * duplicate arrivals: the any-order theorems take an arrival order WITHOUT repetitions of a
    fragment that is still needed (each needed position once); a duplicate of an already stored
    position is accepted by `cluster.add` and counted, so m arrivals containing a duplicate can
    complete a group with a hole (the harness feeds duplicates only after completion, scenario 5).
    Not proved either way; recorded as open.
  * `sweep_decrements` / `sweep_keeps_active` are one-step facts about `markSweepFrags`; "a stale
    group is gone after fragMaxMisses sweeps" and "sweeps between arrivals do not disturb a transfer
    that is fed" are their evident iterations and are exercised by the differential run (sweeps
    interleaved with arrivals), not stated as run-level theorems.
  * `split_one_job`: the Job number drawn for a Job-less packet is a parameter of `withJob`.
-/
import XMT.FragMap
namespace XMT.Props.C02
open XMT XMT.Packet XMT.Frag XMT.Flag

/-- **The split is lossless**: for every limit `F > 0`, packet and group id, the fragments carry
consecutive windows of at most `F` bytes which concatenate to exactly the original payload; their
number is the count computed from `Size()`. -/
theorem split_lossless (F : Nat) (hF : 0 < F) (p : Pkt) (g : Nat) :
    (split F p g).length = fragCount F (Packet.size p) ∧
    ((split F p g).map (·.payload)).flatten = p.payload ∧
    (∀ f ∈ split F p g, f.payload.length ≤ F ∧ f.id = p.id ∧ f.job = p.job ∧ f.dev = p.dev) := by
  rw [split_eq_fr]
  refine ⟨by simp, ?_, ?_⟩
  · have : ((List.range (fragCount F (Packet.size p))).map
        (fr F p g (fragCount F (Packet.size p)))).map (·.payload)
        = (List.range (fragCount F (Packet.size p))).map (fun k => (p.payload.drop (k * F)).take F) := by
      rw [List.map_map]; rfl
    rw [this, windows_flatten, List.take_of_length_le (fragCount_covers F hF p)]
  · intro f hf
    obtain ⟨i, _, rfl⟩ := List.mem_map.mp hf
    refine ⟨?_, rfl, rfl, rfl⟩
    show ((p.payload.drop (i * F)).take F).length ≤ F
    rw [List.length_take]; omega


/-- **One Job number per group**: `write` gives a packet without a Job number one before it is split
(`withJob`, the repaired code), so all fragments carry the same Job number — non-zero whenever the
drawn number is — and everything above applies to the packet with that number. -/
theorem split_one_job (F : Nat) (hF : 0 < F) (p : Pkt) (g j : Nat) :
    (∀ f ∈ split F (withJob p j) g, f.job = (withJob p j).job) ∧
    (p.job = 0 → p.flags &&& Facts.flagProxy = 0 → p.id.toNat > 1 → (withJob p j).job = j) ∧
    (p.job ≠ 0 → withJob p j = p) := by
  refine ⟨fun f hf => ((split_lossless F hF (withJob p j) g).2.2 f hf).2.2.1, ?_, ?_⟩
  · intro h1 h2 h3; unfold withJob; simp [h1, h2, h3]
  · intro h; unfold withJob; simp [h]

/-- **Exactly once, identical, any order after fragment 0** (the `_partial` form, see the header):
when fragment 0 arrives first and the others in *any* order `R`, the first `m-1` arrivals are only
stored, the last one delivers exactly one packet whose ID, job, device, flags and payload are the
original's, and the group leaves no reassembly state behind (`none`). -/
theorem reassemble_any_order_partial {F : Nat} {p : Pkt} {g m : Nat} (C : Ctx F p g m)
    (R : List Nat) (hR : (0 :: R).Perm (List.range m)) :
    feedGroup none ((0 :: R).map (fr F p g m)) =
      (none, List.replicate (m - 1) Out.stored ++ [.deliver { p with tags := [] }]) := by
  have hm2 := C.m2
  have hlen : (0 :: R).length = m := by rw [hR.length_eq]; simp
  have hRm : ∀ i ∈ R, i < m := fun i hi =>
    List.mem_range.mp (hR.subset (List.mem_cons_of_mem _ hi))
  have hgood : Good F p g m [fr F p g m 0] := ⟨⟨[], rfl⟩, fun f hf => ⟨0, by omega, by simpa using hf⟩⟩
  have hRne : R ≠ [] := by intro h; subst h; simp at hlen; omega
  simp only [List.length_cons] at hlen
  obtain ⟨h1, _⟩ := feed_rest C R [fr F p g m 0] hgood hRm (by simp; omega) (by left; simp; omega)
  obtain ⟨v, hv, hf⟩ := h1 (by simp; omega) hRne
  have hasm := assemble_perm C (0 :: R) hR
  simp only [List.map_cons, List.singleton_append] at hv hasm
  rw [hasm] at hv
  have hv' : v = { p with tags := [] } := (Option.some.inj hv).symm
  subst hv'
  simp only [List.map_cons, feedGroup, recv_first C, hf]
  congr 1
  have : m - 1 = (R.length - 1) + 1 := by omega
  rw [this, List.replicate_succ]; rfl

/-- the same at the level of `receive`'s fragment map, with fragments of **other groups
interleaved arbitrarily** (distinct group identifiers): the group is delivered exactly once,
identical to the original, and leaves no residual state, whatever else arrives in between. -/
theorem reassemble_interleaved {F : Nat} {p : Pkt} {g m : Nat} (C : Ctx F p g m)
    (R : List Nat) (hR : (0 :: R).Perm (List.range m)) (arr : List Pkt) (fs : Frags)
    (hprop : ∀ n ∈ arr, Proper n) (hfresh : fs.find g = none)
    (hmine : arr.filter (fun n => group n.flags = g) = (0 :: R).map (fr F p g m)) :
    (recvAll fs arr).1.find g = none ∧
    outsOf g arr (recvAll fs arr).2 =
      List.replicate (m - 1) Out.stored ++ [.deliver { p with tags := [] }] := by
  obtain ⟨h1, h2⟩ := recvAll_project g arr fs hprop
  rw [hfresh, hmine, reassemble_any_order_partial C R hR] at h1 h2
  exact ⟨h1, h2⟩

/-- **A group of which some fragment never arrives delivers nothing**: any arrivals (fragment 0
first, then any fragments of the group, fewer than `m` in total) are only stored. -/
theorem missing_delivers_nothing {F : Nat} {p : Pkt} {g m : Nat} (C : Ctx F p g m)
    (R : List Nat) (hRm : ∀ i ∈ R, i < m) (hlen : R.length + 1 < m) :
    feedGroup none ((0 :: R).map (fr F p g m)) =
      (some (St m ((0 :: R).map (fr F p g m))), List.replicate (R.length + 1) Out.stored) := by
  have hgood : Good F p g m [fr F p g m 0] :=
    ⟨⟨[], rfl⟩, fun f hf => ⟨0, by have := C.m2; omega, by simpa using hf⟩⟩
  obtain ⟨_, h2⟩ := feed_rest C R [fr F p g m 0] hgood hRm (by simp; omega) (by left; simp; omega)
  have hf := h2 (by simp; omega)
  simp only [List.map_cons, feedGroup, recv_first C, hf, List.singleton_append, List.replicate_succ]

/-- **Negation of the full statement** (known finding): a fragment with position > 0 arriving for a
group that has no reassembly state is answered with `SvDrop` and discarded — for *every* such
fragment of *every* fragmented packet, not only on a witness. -/
theorem first_not_zero_dropped {F : Nat} {p : Pkt} {g m : Nat} (C : Ctx F p g m) (i : Nat)
    (h0 : 0 < i) (hi : i < m) : recvGroup none (fr F p g m i) = (none, .dropReply) := by
  obtain ⟨_, _, pi, _, _⟩ := fr_flags C i hi
  unfold recvGroup
  simp only [pi]
  rw [if_pos h0]

/-- **Stale groups are swept** (`markSweepFrags`): every entry that survives a sweep is an old entry
whose miss counter went down by one and is still non-zero — so a group that is not fed any more
(its counter was set to `fragMaxMisses` by its last fragment) is gone after `fragMaxMisses` sweeps. -/
theorem sweep_decrements (fs : Frags) :
    ∀ kv ∈ sweep fs, kv.2.c ≠ 0 ∧
      ∃ kv0 ∈ fs, kv0.1 = kv.1 ∧ kv.2.c = (kv0.2.c + 255) % 256 ∧ kv.2.data = kv0.2.data := by
  intro kv hkv
  unfold sweep at hkv
  obtain ⟨hmap, hne⟩ := List.mem_filter.mp hkv
  obtain ⟨kv0, h0, rfl⟩ := List.mem_map.mp hmap
  exact ⟨by simpa using hne, kv0, h0, rfl, rfl, rfl⟩

/-! Non-vacuity: a concrete packet of 10 payload bytes with F = 4 would need Size() = 57 bytes →
15 fragments, most of them empty — the situation the repaired completion test handles. -/
def demo : Pkt := { id := 0x20, job := 77, flags := 0, tags := [],
                    dev := 1 :: List.replicate 31 0, payload := [1,2,3,4,5,6,7,8,9,10] }
example : (split 4 demo 9).length = 15 ∧ ((split 4 demo 9).map (·.payload)).flatten = demo.payload := by
  decide
example : (recvAll [] (split 4 demo 9)).1 = [] ∧
    (recvAll [] (split 4 demo 9)).2.getLast? = some (.deliver demo) := by decide

/-- **A wake-up of the receiver only ever discards stale groups**: `markSweepFrags` keeps every
group whose counter is above 1 — whatever its 16-bit identifier, 0 included — with the counter one
lower and the fragments untouched, and removes exactly the groups whose counter runs out. (Every
arriving fragment sets its group's counter back to `fragMaxMisses`, so a transfer that gets one
fragment per wake-up is never swept.) -/
theorem sweep_keeps_active (fs : Frag.Frags) (g : Nat) (cl : Frag.Cluster) (h : (g, cl) ∈ fs)
    (hc : 2 ≤ cl.c) (hc' : cl.c < 256) : (g, { cl with c := cl.c - 1 }) ∈ Frag.sweep fs := by
  unfold Frag.sweep
  rw [List.mem_filter]
  have hm : (cl.c + 255) % 256 = cl.c - 1 := by omega
  refine ⟨List.mem_map.mpr ⟨(g, cl), h, ?_⟩, ?_⟩
  · simp only [hm]
  · exact decide_eq_true (by simp only [hm]; omega)

end XMT.Props.C02
