/-
  C03 — Batching queued packets loses, duplicates or reorders nothing.
  Property theorems only. Model: XMT/Batch.lean (Session.next / nextPacket / writeUnpack /
  verifyPacket / isPacketNoP on the send side, the FlagMulti arm of receive on the receive side;
  nested codec from XMT/Packet.lean); lemmas: XMT/BatchLemmas.lean, BatchLoop.lean, BatchNext.lean.
  The budgets `P` (limits.Packets) and `F` (limits.Frag) are parameters.

  Domain (`QWF`): queued packets are well-formed packets (C01) that are not themselves batches
  (no Multi / MultiDevice flag) and carry a non-empty device ID — what `Session.queue` enqueues for a
  session that is not relaying pre-batched proxy traffic. Tag lists are compared modulo `core`
  (tags are re-stamped / merged per transmission and are not among the fields the property names).

  Scope notes (from an adversarial review of these statements, see DESIGN.md Appendix B.5):
  * a queued packet with Job 0 and an ID above 1 gets a random Job in `verifyPacket`; the model
    keeps Job 0 for it (the drawn number is not an input of `nextPacket`), so for such packets the
    theorems speak modulo the Job field - the harness compares them the same way.
  * the theorems hand the batch straight to the receiver's unpack loop; that the batch itself is
    marshalable (its merged tag list stays within PacketMaxTags) is not proved: two packets with very
    long tag lists can produce a batch that `Marshal` refuses after the packets were dequeued. Tags
    are stamped by proxies (a handful per packet); recorded as an observation, not exercised.
-/
import XMT.BatchLast
import XMT.BatchTags
import XMT.BatchTagsWitness
import XMT.BatchDrawLemmas
import XMT.BatchDrawDrain
import XMT.BatchBlockLemmas
namespace XMT.Props.C03
open XMT XMT.Packet XMT.Batch

/-- **What a batch carries is what the receiver's handlers observe**: a batch built by packing any
list of queued packets (`Carries`) is unpacked by the receive side into exactly that list — each
packet once, in order, field for field (nested stream form of C01). -/
theorem unpack_what_was_packed (fuel : Nat) (o : Pkt) (acc : List Pkt) (hc : Carries o acc)
    (hne : acc ≠ []) (hacc : ∀ a ∈ acc, QWF a) : unpack (fuel + 2) o = .ok acc :=
  unpack_carries fuel o acc hc hne hacc

/-- **The batching loop loses nothing and carries over what does not fit**: see `loop_spec`. -/
theorem loop_lossless (P F : Nat) (i : Bytes) (hP : P < Facts.fragMax) (fuel x s : Nat) (m : Bool)
    (o : Pkt) (n : Option Pkt) (q acc : List Pkt) (hc : Carries o acc) (hx : acc.length ≤ x)
    (hq : ∀ a ∈ n.toList ++ q, QWF a) (hn : n = none ∨ q ≠ []) :
    ∃ taken, Carries (loop P F i fuel x s m o n q).1 (acc ++ taken) ∧
      keepF (taken ++ (loop P F i fuel x s m o n q).2.1.toList ++ (loop P F i fuel x s m o n q).2.2)
        = keepF (n.toList ++ q) :=
  let ⟨taken, h1, h2, _⟩ := loop_spec P F i hP fuel x s m o n q acc hc hx hq hn
  ⟨taken, h1, h2⟩

/-- **One transmission**: for every budget `2 ≤ … P < 65535`, `F`, every queue content and packet
in hand, every tag list: what the peer unpacks from the transmission, followed by the carry-over
(`peek`) and the remaining queue, is — keep-alives and tag lists aside — exactly the packet in hand
followed by the queue: nothing lost, nothing duplicated, nothing reordered; what did not fit the
budget is carried over, not dropped. -/
theorem transmission_lossless (P F : Nat) (hP : P < Facts.fragMax) (i : Bytes) (t : List Nat)
    (n : Option Pkt) (q : List Pkt) (hq : ∀ a ∈ n.toList ++ q, QWF a) (hne : n.toList ++ q ≠ [])
    (X : List Nat) :
    ∃ o, (nextPacket P F q n i t).1 = some o ∧
      ∃ obs, unpack 3 { o with tags := X } = .ok obs ∧
        (keepF (obs ++ (nextPacket P F q n i t).2.1.toList ++ (nextPacket P F q n i t).2.2)).map core
          = (keepF (n.toList ++ q)).map core :=
  nextPacket_spec P F hP i t n q hq hne X

/-- **`Session.next`, one call**, including the carried-over packet (`peek`) and the
"sent on its own" shortcuts: see `next_spec`. -/
theorem session_next_lossless (P F : Nat) (hP : P < Facts.fragMax) (hP2 : 2 ≤ P) (i : Bytes) (st : St)
    (hlast : st.last = 0) (hq : ∀ a ∈ content st, QWF a) (o : Pkt) (ho : (next P F st i).1 = some o) :
    ∃ obs, unpack 3 o = .ok obs ∧
      (keepF (obs ++ content (next P F st i).2)).map core = (keepF (content st)).map core ∧
      (content (next P F st i).2).length < (content st).length :=
  let ⟨obs, h1, h2, _, h4, _⟩ := (next_spec P F hP hP2 i st hlast hq).2 o ho
  ⟨obs, h1, h2, h4⟩

/-- **All successive transmissions until the queue drains**: for every queue content (any number
of packets, any sizes, own or foreign devices, keep-alives in any position, with or without tags,
with or without a carried-over packet) and every budget, the sequence of packets the peer's
handlers observe is — keep-alives and tag lists aside — exactly the queued sequence, each once, in
order, with ID, job, device, flags and payload intact; the number of transmissions needed is at
most the number of queued packets. -/
theorem drain_lossless (P F : Nat) (hP : P < Facts.fragMax) (hP2 : 2 ≤ P) (i : Bytes) (st : St)
    (hlast : st.last = 0) (hq : ∀ a ∈ content st, QWF a) :
    ∃ obs, observe (drain P F i ((content st).length + 1) st) = .ok obs ∧
      (keepF obs).map core = (keepF (content st)).map core :=
  drain_spec P F hP hP2 i _ st (Nat.lt_succ_self _) hlast hq

/-- **… and with a fragment group the peer asked to abandon** (`Last > 0`, the exception the
property names): the observed sequence is the queued sequence minus a *prefix* of packets that all
belong to the abandoned group — nothing else is ever missing, duplicated or reordered. -/
theorem drain_lossless_abandoned_group (P F : Nat) (hP : P < Facts.fragMax) (hP2 : 2 ≤ P) (i : Bytes)
    (st : St) (hq : ∀ a ∈ content st, QWF a) :
    ∃ dropped rest, content st = dropped ++ rest ∧
      (∀ d ∈ dropped, 0 < st.last ∧ Flag.group d.flags = st.last) ∧
      ∃ obs, observe (drain P F i ((content st).length + 1) st) = .ok obs ∧
        (keepF obs).map core = (keepF rest).map core :=
  drain_spec_last P F hP hP2 i st hq

/-! Non-vacuity: two keep-alives only (the repaired case) and a mixed queue. -/
def dev : Bytes := 3 :: List.replicate 31 0
def nop : Pkt := { id := 0, job := 0, flags := 0, tags := [], dev := dev, payload := [] }
def dat (j : Nat) : Pkt := { id := 0x20, job := j, flags := 0, tags := [], dev := dev, payload := [1, 2, 3] }
example : QWF (dat 5) := by
  refine ⟨⟨by decide, by decide, by decide, by intro t ht; simp [dat] at ht, by decide, by decide, by decide⟩,
    by decide, by decide⟩
example : (nextPacket 256 1000 [nop] (some nop) dev []).1 = some nop := by decide
example : ((nextPacket 256 1000 [nop, dat 6] (some (dat 5)) dev []).1.map (unpack 3)) =
    some (.ok [dat 5, dat 6]) := by rfl

/-! ## Extension s3, part 1: is the batch handed out marshalable? (the merged tag list)

`writeUnpack` appends the tag list of every packed packet to the batch, `Session.next` stamps
`mergeTags(batch tags, tags of the packet picked first)` on what goes out, `Marshal` refuses more
than `PacketMaxTags` tags. `mergeTags` ranges over a Go map, so the theorems hold for EVERY merge
function `mg` with `IsMerge` (short-cuts literally, else duplicate-free union in any order);
`nextM mergeTags = next` and `nextM mg` differs from `next` in the tag list of the output only. -/

/-- **The tag list of one transmission**: what `nextPacket` hands out carries the tag lists of the
packets it packed, in order (followed by `t` on the single-packet path); packed packets, carry-over
and remaining queue are a sublist of the packet in hand followed by the queue. -/
theorem transmission_tags (P F : Nat) (hP : P < Facts.fragMax) (i : Bytes) (t : List Nat)
    (n : Option Pkt) (q : List Pkt) (hq : ∀ a ∈ n.toList ++ q, QWF a) (hne : n.toList ++ q ≠ []) :
    ∃ o taken, (nextPacket P F q n i t).1 = some o ∧
      (o.tags = tagsOf taken ∨ o.tags = tagsOf taken ++ t) ∧
      (taken ++ (nextPacket P F q n i t).2.1.toList ++ (nextPacket P F q n i t).2.2).Sublist (n.toList ++ q) :=
  nextPacket_tags P F hP i t n q hq hne

/-- **One `Session.next` call marshals when the queued tag lists fit together**: for every merge
function, every budget, every abandoned-group state and every content (queue and carried-over
packet) of queueable packets, what is handed out has at most as many tags as all held packets
together and no zero tag; so with `tagSum (content st) ≤ PacketMaxTags` the real `Marshal`
(`marshalWrites`) accepts it. The session afterwards holds a sublist of what it held. -/
theorem transmission_marshals (mg : List Nat → List Nat → List Nat) (hmg : ∀ a b, IsMerge a b (mg a b))
    (P F : Nat) (hP : P < Facts.fragMax) (i : Bytes) (st : St) (hq : ∀ a ∈ content st, QWF a)
    (hb : tagSum (content st) ≤ Facts.packetMaxTags) (o : Pkt) (ho : (nextM mg P F st i).1 = some o) :
    (∃ w, marshalWrites o = .ok w) ∧ (content (nextM mg P F st i).2).Sublist (content st) := by
  obtain ⟨hs, hm⟩ := nextM_marshals mg P F hmg hP i st hq
  obtain ⟨h1, h2⟩ := hm o ho
  exact ⟨(marshalWrites_ok_iff o).mpr ⟨Nat.le_trans h1 hb, h2⟩, hs⟩

/-- **Every transmission until the queue drains marshals** under the same hypothesis, for every
number of transmissions. -/
theorem drain_marshals (mg : List Nat → List Nat → List Nat) (hmg : ∀ a b, IsMerge a b (mg a b))
    (P F : Nat) (hP : P < Facts.fragMax) (i : Bytes) (fuel : Nat) (st : St) (hq : ∀ a ∈ content st, QWF a)
    (hb : tagSum (content st) ≤ Facts.packetMaxTags) :
    ∀ o ∈ drainM mg P F i fuel st, ∃ w, marshalWrites o = .ok w := by
  intro o ho
  obtain ⟨h1, h2⟩ := drainM_marshals mg P F hmg hP i fuel st hq o ho
  exact (marshalWrites_ok_iff o).mpr ⟨Nat.le_trans h1 hb, h2⟩

/-- the model's `next` is `nextM` with the model's (sorting) merge function, and the state after a
call does not depend on the merge function: the losslessness theorems above speak about `nextM` too -/
theorem nextM_is_next (P F : Nat) (st : St) (i : Bytes) :
    nextM mergeTags P F st i = next P F st i ∧
    ∀ mg, (nextM mg P F st i).2 = (next P F st i).2 :=
  ⟨rfl, fun mg => nextM_state mg P F st i⟩

-- OPEN (batch_wire_roundtrip): for the transmission `o` of `transmission_marshals`,
--   `Packet.unmarshal cf (marshalWrites o) = o` (C01's wire round trip). Needs `Packet.WF o` for a
--   batch: flags < 2^64 after SetLen / or, payload ≤ MaxSlice (a bound on limits.Frag); not proved.

/-- **The hypothesis is needed - a batch `Marshal` refuses** (negation on a witness): three
well-formed queueable packets, the first without tags, the other two with 16385 tags each (each
within `PacketMaxTags` = 32768 on its own), budget 256 packets / 32 MiB: the one transmission
`Session.next` builds dequeues all three, carries 32770 tags, and `Marshal` answers "tags list is
too large" - the three packets are lost. (`t = []` here, so `mergeTags` returns the batch's list
unchanged whatever the map order.) -/
theorem tags_overflow_witness :
    (∀ a ∈ content witnessSt, QWF a) ∧
    ∃ o, (next 256 33554432 witnessSt witnessDev).1 = some o ∧
      o.tags.length = 32770 ∧ marshalWrites o = .error .tooManyTags ∧
      content (next 256 33554432 witnessSt witnessDev).2 = [] :=
  ⟨witness_qwf, witness_overflow⟩

/-! Non-vacuity of the s3 theorems: a merge function exists (on the instance the model's own), the
tag budget hypothesis holds for a queue with tags. -/
example : ∃ mg : List Nat → List Nat → List Nat, ∀ a b, IsMerge a b (mg a b) := ⟨mergeRef, mergeRef_isMerge⟩
example : IsMerge [3, 1] [1, 2] [1, 2, 3] := by decide
example : ¬ IsMerge [3, 1] [1, 2] [1, 2, 3, 3] := by decide
example : IsMerge [] [1, 2] (mergeTags [] [1, 2]) := by decide
def tagged (j : Nat) (ts : List Nat) : Pkt := { dat j with tags := ts }
example : QWF (tagged 5 [1, 2]) := by
  refine ⟨⟨by decide, by decide, by decide, by decide, by decide, by decide, by decide⟩, by decide, by decide⟩
example : tagSum (content { q := [tagged 5 [1, 2], tagged 6 [2, 9]], peek := none, last := 0 }) ≤ Facts.packetMaxTags := by decide
example : ((nextM mergeRef 256 1000 { q := [tagged 5 [1, 2], tagged 6 [2, 9]], peek := none, last := 0 } dev).1.map (·.tags)) =
    some [9, 1, 2] := by decide

/-! ## Extension s3, part 2: the Job number `verifyPacket` draws

`XMT/BatchDraw.lean` is `Session.next` with the PRNG words as an input (`w : Nat → Nat`, `k` words
consumed so far): `verifyPacket` gives a packet queued with Job 0, ID above 1 and no Proxy flag the
Job `uint16(word)`. The differential run scripts the words (op `drainJ`), so model and code are
compared exactly, Job included. -/

/-- **The drawn Job is what the peer observes; nothing else changes**: `verifyPacket` with the next
word `w k` gives a packet that needs a Job the Job `w k mod 2^16` and consumes exactly that word;
every other packet keeps its Job and consumes nothing; ID, flags, tags and payload are untouched,
device and result are those of the draw-free `verify`. -/
theorem verify_draw (w : Nat → Nat) (n : Pkt) (i : Bytes) (k : Nat) :
    ((verifyD w n i k).1.job = if needsJob n then w k % 2^16 else n.job) ∧
    ((verifyD w n i k).2.2 = if needsJob n then k + 1 else k) ∧
    (verifyD w n i k).1.id = n.id ∧ (verifyD w n i k).1.flags = n.flags ∧
    (verifyD w n i k).1.tags = n.tags ∧ (verifyD w n i k).1.payload = n.payload ∧
    (verifyD w n i k).1.dev = (verify n i).1.dev ∧ (verifyD w n i k).2.1 = (verify n i).2 :=
  verifyD_spec w n i k

/-- **Where nothing needs a Job the model with draws is the model without**: for every word stream,
budget and state whose packets all carry a Job (or have ID ≤ 1 or the Proxy flag), `nextD` hands out
what `next` hands out, leaves the same state and consumes no word - every theorem above is a theorem
about `nextD` on that domain. -/
theorem next_with_draws_agrees (w : Nat → Nat) (P F : Nat) (st : St) (i : Bytes) (k : Nat)
    (hq : ∀ a ∈ content st, needsJob a = false) :
    nextD w P F st i k = ((next P F st i).1, (next P F st i).2, k) :=
  nextD_no_draw w P F st i k hq

/-- **One `Session.next` call with Job draws is the draw-free call on the pre-stamped session**: for
every word stream, budget and session (no abandoned group pending) there is a session `st₁` whose
content is the content of `st`, packet for packet, where only packets that needed a Job may differ
and only in carrying the low 16 bits of a drawn word as Job (`LR`), such that `nextD` hands out
exactly what `next` hands out on `st₁` and leaves exactly the same state: the batching code never
looks at the Job field, so `session_next_lossless` applies to `st₁`. -/
theorem session_next_draws (w : Nat → Nat) (P F : Nat) (st : St) (i : Bytes) (k : Nat) (hl : st.last = 0) :
    ∃ st₁ : St, LR w (content st) (content st₁) ∧ st₁.last = 0 ∧
      (nextD w P F st i k).1 = (next P F st₁ i).1 ∧ (nextD w P F st i k).2.1 = (next P F st₁ i).2 :=
  nextD_sim w P F st i k hl

/-- **All successive transmissions with Job draws**: for every word stream, every budget and every
content of queueable packets (packets queued without a Job included), what the peer's handlers
observe until the queue drains is - keep-alives and tag lists aside - a sequence `L` that is the
queued sequence packet for packet (`LR`): a packet that did not need a Job is intact, a packet that
needed one is intact except that its Job is `w j mod 2^16` for a word index `j`. -/
theorem drain_lossless_draws (w : Nat → Nat) (P F : Nat) (hP : P < Facts.fragMax) (hP2 : 2 ≤ P)
    (i : Bytes) (st : St) (k : Nat) (hlast : st.last = 0) (hq : ∀ a ∈ content st, QWF a) :
    ∃ obs L, observe (drainD P F w i ((content st).length + 1) st k) = .ok obs ∧
      LR w (content st) L ∧ (keepF obs).map core = (keepF L).map core :=
  drainD_spec P F w hP hP2 i _ st k (Nat.lt_succ_self _) hlast hq

-- OPEN (drain_lossless_draws_abandoned_group): the same with a fragment group the peer asked to
--   abandon pending (`st.last > 0`): `nextFromD_sim` is proved for `last = 0` only.
-- OPEN (draw_order): WHICH word a packet gets (`j` = number of words consumed before it, in the order
--   the packets are packed) is fixed by the model and compared exactly by the differential group
--   `jobdraw`, but `LR` only says "some word".

example : LR (fun k => 70000 + k) [dat 0, dat 7] [dat 4464, dat 7] :=
  .cons (Or.inr ⟨by decide, 0, rfl⟩) (.cons (Or.inl rfl) .nil)
example : needsJob (dat 0) = true := by decide
example : needsJob (dat 5) = false := by decide
example : (verifyD (fun k => 70000 + k) (dat 0) dev 3).1.job = 4467 := by decide
example : ((nextD (fun k => 70000 + k) 256 1000 { q := [dat 0, dat 0], peek := none, last := 0 } dev 0).1.map (unpack 3)) =
    some (.ok [dat 4464, dat 4465]) := by rfl

/-! ## Extension s3, part 3: every arm of `pick` - histories mixing `next(true)`, `next(false)`, `queue` -/

/-- **With something to send `next(i)` is the proven `next` in every mode**, and with nothing to
send it blocks (state untouched), returns nothing, or sends the idle packet and leaves an empty
session: no arm of `pick` touches a queued packet other than by handing it to the batching code. -/
theorem next_all_arms (P F : Nat) (md : Mode) (ib : Bool) (ks : Option Bytes) (st : St) (i : Bytes) :
    (content st ≠ [] → nextB P F md ib ks st i = (Tx.ofOption (next P F st i).1, (next P F st i).2)) ∧
    (content st = [] →
      (nextB P F md ib ks st i = (.blocked, st)) ∨
      (nextB P F md ib ks st i = (.nothing, { st with peek := none })) ∨
      (nextB P F md ib ks st i = (.sent (idlePkt i ks), { q := [], peek := none, last := 0 }))) :=
  ⟨nextB_nonempty P F md ib ks st i, nextB_empty P F md ib ks st i⟩

/-- **Histories mixing `next(true)`, `next(false)` and `queue` lose nothing**: see
`XMT.Batch.mixed_history_lossless` - for every budget, every session mode and `keyNextSync` outcome
per call and every interleaving of calls with `queue` events: what the peer unpacks from the
transmissions made with something to send, followed by what the session still holds, is - keep-alives
and tag lists aside - what it held at the start followed by what was queued since, each once, in
order; the other transmissions are idle packets (bare keep-alive / re-key announcement). -/
theorem mixed_calls_lossless (P F : Nat) (hP : P < Facts.fragMax) (hP2 : 2 ≤ P) (i : Bytes)
    (es : List Ev) (st : St) (hl : st.last = 0) (hq : ∀ a ∈ content st, QWF a)
    (hqe : ∀ a ∈ queuedOf es, QWF a) :
    ∃ obs, observe (carrying (runB P F i es st).1) = .ok obs ∧
      (keepF (obs ++ content (runB P F i es st).2)).map core
        = (keepF (content st ++ queuedOf es)).map core ∧
      (∀ x ∈ (runB P F i es st).1, x.2 = true → ∃ ks, x.1 = idlePkt i ks) :=
  mixed_history_lossless P F hP hP2 i es st hl hq hqe

/-- a call blocked in the server-side channel arm completes, when a packet is queued, as a call on
that packet -/
theorem blocked_call_resumes (P F : Nat) (st : St) (i : Bytes) (p : Pkt) (hp : st.peek = none) :
    resume P F st i p =
      (Tx.ofOption (next P F { st with q := p :: st.q } i).1, (next P F { st with q := p :: st.q } i).2) :=
  resume_eq P F st i p hp

def srvChan : Mode := { client := false, parentNil := false, channel := true }
def cliPoll : Mode := { client := true, parentNil := true, channel := false }
example : (nextB 256 1000 srvChan false none { q := [], peek := none, last := 0 } dev).1 matches .blocked := by decide
example : (nextB 256 1000 cliPoll true none { q := [], peek := none, last := 0 } dev).1 matches .nothing := by decide
example : (nextB 256 1000 cliPoll false none { q := [], peek := none, last := 0 } dev).1 matches .sent _ := by decide
example : carrying (runB 256 1000 dev [.call cliPoll false none, .queue (dat 5), .call srvChan false none, .queue (dat 6),
    .call cliPoll true none] { q := [], peek := none, last := 0 }).1 = [dat 5, dat 6] := by rfl

end XMT.Props.C03
