/-
  C03 — Batching queued packets loses, duplicates or reorders nothing.
  Property theorems only. Model: XMT/Batch.lean (Session.next / nextPacket / writeUnpack /
  verifyPacket / isPacketNoP on the send side, the FlagMulti arm of receive on the receive side;
  nested codec from XMT/Packet.lean); lemmas: XMT/BatchLemmas.lean, BatchLoop.lean, BatchNext.lean.
  The budgets `P` (limits.Packets) and `F` (limits.Frag) are parameters.

  Domain (`QWF`): queued packets are well-formed packets (C01) that are not themselves batches
  (no Multi / MultiDevice flag) and carry a non-empty device ID — what `Session.queue` enqueues for a
  session that is not relaying pre-batched proxy traffic. Tag lists are compared modulo `core`
  (tags are re-stamped / merged per transmission and are not among the fields the property names).

  Scope notes (from an adversarial review of these statements, see DESIGN.md Appendix B.5):
  * a queued packet with Job 0 and an ID above 1 gets a random Job in `verifyPacket`; the model
    keeps Job 0 for it (the drawn number is not an input of `nextPacket`), so for such packets the
    theorems speak modulo the Job field - the harness compares them the same way.
  * the theorems hand the batch straight to the receiver's unpack loop; that the batch itself is
    marshalable (its merged tag list stays within PacketMaxTags) is not proved: two packets with very
    long tag lists can produce a batch that `Marshal` refuses after the packets were dequeued. Tags
    are stamped by proxies (a handful per packet); recorded as an observation, not exercised.
-/
import XMT.BatchLast
namespace XMT.Props.C03
open XMT XMT.Packet XMT.Batch

/-- **What a batch carries is what the receiver's handlers observe**: a batch built by packing any
list of queued packets (`Carries`) is unpacked by the receive side into exactly that list — each
packet once, in order, field for field (nested stream form of C01). -/
theorem unpack_what_was_packed (fuel : Nat) (o : Pkt) (acc : List Pkt) (hc : Carries o acc)
    (hne : acc ≠ []) (hacc : ∀ a ∈ acc, QWF a) : unpack (fuel + 2) o = .ok acc :=
  unpack_carries fuel o acc hc hne hacc

/-- **The batching loop loses nothing and carries over what does not fit**: see `loop_spec`. -/
theorem loop_lossless (P F : Nat) (i : Bytes) (hP : P < Facts.fragMax) (fuel x s : Nat) (m : Bool)
    (o : Pkt) (n : Option Pkt) (q acc : List Pkt) (hc : Carries o acc) (hx : acc.length ≤ x)
    (hq : ∀ a ∈ n.toList ++ q, QWF a) (hn : n = none ∨ q ≠ []) :
    ∃ taken, Carries (loop P F i fuel x s m o n q).1 (acc ++ taken) ∧
      keepF (taken ++ (loop P F i fuel x s m o n q).2.1.toList ++ (loop P F i fuel x s m o n q).2.2)
        = keepF (n.toList ++ q) :=
  let ⟨taken, h1, h2, _⟩ := loop_spec P F i hP fuel x s m o n q acc hc hx hq hn
  ⟨taken, h1, h2⟩

/-- **One transmission**: for every budget `2 ≤ … P < 65535`, `F`, every queue content and packet
in hand, every tag list: what the peer unpacks from the transmission, followed by the carry-over
(`peek`) and the remaining queue, is — keep-alives and tag lists aside — exactly the packet in hand
followed by the queue: nothing lost, nothing duplicated, nothing reordered; what did not fit the
budget is carried over, not dropped. -/
theorem transmission_lossless (P F : Nat) (hP : P < Facts.fragMax) (i : Bytes) (t : List Nat)
    (n : Option Pkt) (q : List Pkt) (hq : ∀ a ∈ n.toList ++ q, QWF a) (hne : n.toList ++ q ≠ [])
    (X : List Nat) :
    ∃ o, (nextPacket P F q n i t).1 = some o ∧
      ∃ obs, unpack 3 { o with tags := X } = .ok obs ∧
        (keepF (obs ++ (nextPacket P F q n i t).2.1.toList ++ (nextPacket P F q n i t).2.2)).map core
          = (keepF (n.toList ++ q)).map core :=
  nextPacket_spec P F hP i t n q hq hne X

/-- **`Session.next`, one call**, including the carried-over packet (`peek`) and the
"sent on its own" shortcuts: see `next_spec`. -/
theorem session_next_lossless (P F : Nat) (hP : P < Facts.fragMax) (hP2 : 2 ≤ P) (i : Bytes) (st : St)
    (hlast : st.last = 0) (hq : ∀ a ∈ content st, QWF a) (o : Pkt) (ho : (next P F st i).1 = some o) :
    ∃ obs, unpack 3 o = .ok obs ∧
      (keepF (obs ++ content (next P F st i).2)).map core = (keepF (content st)).map core ∧
      (content (next P F st i).2).length < (content st).length :=
  let ⟨obs, h1, h2, _, h4, _⟩ := (next_spec P F hP hP2 i st hlast hq).2 o ho
  ⟨obs, h1, h2, h4⟩

/-- **All successive transmissions until the queue drains**: for every queue content (any number
of packets, any sizes, own or foreign devices, keep-alives in any position, with or without tags,
with or without a carried-over packet) and every budget, the sequence of packets the peer's
handlers observe is — keep-alives and tag lists aside — exactly the queued sequence, each once, in
order, with ID, job, device, flags and payload intact; the number of transmissions needed is at
most the number of queued packets. -/
theorem drain_lossless (P F : Nat) (hP : P < Facts.fragMax) (hP2 : 2 ≤ P) (i : Bytes) (st : St)
    (hlast : st.last = 0) (hq : ∀ a ∈ content st, QWF a) :
    ∃ obs, observe (drain P F i ((content st).length + 1) st) = .ok obs ∧
      (keepF obs).map core = (keepF (content st)).map core :=
  drain_spec P F hP hP2 i _ st (Nat.lt_succ_self _) hlast hq

/-- **… and with a fragment group the peer asked to abandon** (`Last > 0`, the exception the
property names): the observed sequence is the queued sequence minus a *prefix* of packets that all
belong to the abandoned group — nothing else is ever missing, duplicated or reordered. -/
theorem drain_lossless_abandoned_group (P F : Nat) (hP : P < Facts.fragMax) (hP2 : 2 ≤ P) (i : Bytes)
    (st : St) (hq : ∀ a ∈ content st, QWF a) :
    ∃ dropped rest, content st = dropped ++ rest ∧
      (∀ d ∈ dropped, 0 < st.last ∧ Flag.group d.flags = st.last) ∧
      ∃ obs, observe (drain P F i ((content st).length + 1) st) = .ok obs ∧
        (keepF obs).map core = (keepF rest).map core :=
  drain_spec_last P F hP hP2 i st hq

/-! Non-vacuity: two keep-alives only (the repaired case) and a mixed queue. -/
def dev : Bytes := 3 :: List.replicate 31 0
def nop : Pkt := { id := 0, job := 0, flags := 0, tags := [], dev := dev, payload := [] }
def dat (j : Nat) : Pkt := { id := 0x20, job := j, flags := 0, tags := [], dev := dev, payload := [1, 2, 3] }
example : QWF (dat 5) := by
  refine ⟨⟨by decide, by decide, by decide, by intro t ht; simp [dat] at ht, by decide, by decide, by decide⟩,
    by decide, by decide⟩
example : (nextPacket 256 1000 [nop] (some nop) dev []).1 = some nop := by decide
example : ((nextPacket 256 1000 [nop, dat 6] (some (dat 5)) dev []).1.map (unpack 3)) =
    some (.ok [dat 5, dat 6]) := by rfl

end XMT.Props.C03
