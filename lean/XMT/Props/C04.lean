/-
  C04 — No bytes from the network can crash a listener or make it allocate without bound.
  Property theorems only; models in XMT/Decode*.lean, lemmas in XMT/DecodeLemmas.lean,
  XMT/DecodeSafe.lean.

  Shape per decoder `d`: for EVERY byte string `bs` (not longer than `MaxSlice`, the largest Chunk the
  code can hold) `run d bs` is neither `panic` nor `hang`, and the bytes it requests from the
  allocator are at most `K·|bs| + B` with the constants spelled out.

  `panic` covers a refused `make` AND every index / reslice expression on the buffer: in the models
  `c.buf[c.rpos+i]`, `c.buf[c.rpos : c.rpos+l]`, `c.buf[c.rpos:]`, `c.rpos += n` (XMT.Decode: `idxP`,
  `sliceP`, `sliceFromP`, `advanceP`), `b[s]`, `b[s : s+i]`, `b[i:]` (XMT.DecodeDns: `idx`, `sliceP`,
  `sliceFromP`) and `b[:n]` of the stream reader (XMT.DecodeStream: `prefixP`) panic out of range as Go
  does.  The proofs discharge each bound from the guard the Go code puts in front of the expression
  (XMT/DecodeSlice.lean); the same decoders without the guard panic (`*_guard_needed` below,
  XMT/DecodeGuardsMatter.lean).
-/
import XMT.DecodeSafe
import XMT.DecodeDns
import XMT.DecodeStream
import XMT.DecodeGuardsMatter
import XMT.FragHostile
import XMT.PacketAlloc
import XMT.CbkHostile
import XMT.DispatchLemmas2
import XMT.DecodeStreamStrs

namespace XMT.Props.C04
open XMT XMT.Decode

/-- what "safe on every input" means for a decoder run from a fresh state -/
def TotalAndBounded {α : Type} (d : D α) (K B : Nat) : Prop :=
  ∀ bs : Bytes, bs.length ≤ Facts.maxSlice →
    (run d bs).isPanic = false ∧ (run d bs).isHang = false ∧ (run d bs).alloc ≤ K * bs.length + B

/-- composition: a `Safe` decoder is total and proportional from the empty state -/
theorem safe_total_bounded {α : Type} {K M B E : Nat} {d : D α} (h : Safe K M B E d) :
    TotalAndBounded d (K + M) (B + E) := by
  intro bs hb
  have := h { rest := bs } hb
  unfold run
  cases hr : d { rest := bs } with
  | ok a s' =>
    rw [hr] at this
    simp only [Bound] at this
    have e : (K + M) * bs.length = K * bs.length + M * bs.length := Nat.add_mul ..
    simp only [Out.isPanic, Out.isHang, Out.alloc]
    refine ⟨trivial, trivial, ?_⟩
    omega
  | err e s' =>
    rw [hr] at this
    simp only [Bound] at this
    have e : (K + M) * bs.length = K * bs.length + M * bs.length := Nat.add_mul ..
    simp only [Out.isPanic, Out.isHang, Out.alloc]
    refine ⟨trivial, trivial, ?_⟩
    omega
  | panic m => rw [hr] at this; exact absurd this id
  | hang => rw [hr] at this; exact absurd this id

/-- handlers compose: running one safe decoder after another (on what the first left) is safe, the
constants add up; a counted loop of a safe body costs nothing extra -/
theorem handler_compose {α β : Type} {K M1 B1 E1 M2 B2 E2 : Nat} {d : D α} {f : α → D β}
    (h1 : Safe K M1 B1 E1 d) (h2 : ∀ a, Safe K M2 B2 E2 (f a)) :
    TotalAndBounded (d >>= f) (K + (M1 + M2)) (B1 + B2 + max E1 E2) :=
  safe_total_bounded (safe_bind h1 h2)

theorem loop_compose {α : Type} {K E : Nat} {d : D α} (h : Safe K 0 0 E d) (n : Nat) :
    TotalAndBounded (rep n d) K E := by
  have := safe_total_bounded (safe_rep0 h n)
  simpa using this

/-! ### data layer (in-memory reader) -/

/-- `(*Chunk).Bytes()`: no input makes the reslice `c.buf[c.rpos : c.rpos+l]` (or any index read of the
header) leave the buffer, nothing is allocated -/
theorem bytes_total_alloc : TotalAndBounded bytes 1 0 := by
  simpa using safe_total_bounded (safe_bytes (K := 1) (Nat.le_refl 1))

theorem str_total_alloc : TotalAndBounded str 1 0 := by
  simpa using safe_total_bounded (safe_str (K := 1) (Nat.le_refl 1))

/-- the two theorems above rest on the guards of `Bytes()`: the same decoder with its length guards
deleted is NOT total for any constants (it panics on a 3-byte input), and neither is the one that
only lost `if n := c.Size(); n < c.rpos+int(l)` -/
theorem bytes_guard_needed (K B : Nat) :
    ¬ TotalAndBounded GuardsMatter.bytesBad K B ∧ ¬ TotalAndBounded GuardsMatter.bytesNoShortGuard K B ∧
    ¬ TotalAndBounded GuardsMatter.strBad K B := by
  refine ⟨fun h => ?_, fun h => ?_, fun h => ?_⟩
  · have := (h [1, 5, 65] (by decide)).1
    rw [GuardsMatter.bytesBad_panics_short] at this; cases this
  · have := (h [1, 5, 65] (by decide)).1
    rw [GuardsMatter.bytesNoShortGuard_panics] at this; cases this
  · have := (h [1, 5, 65] (by decide)).1
    rw [GuardsMatter.strBad_panics] at this; cases this

/-- the primitive reads rest on `checkBounds` -/
theorem checkBounds_guard_needed (K B : Nat) :
    ¬ TotalAndBounded GuardsMatter.u8rBad K B ∧ ¬ TotalAndBounded GuardsMatter.u16rBad K B := by
  refine ⟨fun h => ?_, fun h => ?_⟩
  · have := (h [] (by decide)).1
    rw [GuardsMatter.u8rBad_panics] at this; cases this
  · have := (h [1] (by decide)).1
    rw [GuardsMatter.u16rBad_panics] at this; cases this

/-- `data.ReadStringList` (after the fix): total, at most 129 bytes requested per byte received -/
theorem strList_total_alloc : TotalAndBounded strList 129 0 := by
  simpa using safe_total_bounded (safe_strList (K := 129) (Nat.le_refl _))

/-- the code before the fix: a 9-byte message whose count makes `make` panic, and a 5-byte message
that requests 64 GiB -/
theorem strListOld_panics : (run strListOld [7, 0x10, 0, 0, 0, 0, 0, 0, 0]).isPanic = true := by
  decide
theorem strListOld_alloc_unbounded :
    (run strListOld [5, 0xFF, 0xFF, 0xFF, 0xFF]).alloc = 16 * (2 ^ 32 - 1) := by
  decide

/-! ### registration / device info -/

theorem readDeviceInfo_total_alloc (t : Nat) : TotalAndBounded (readDeviceInfo t) 1 bDevInfo := by
  simpa using safe_total_bounded (safe_readDeviceInfo (K := 1) (Nat.le_refl 1) t)

theorem readProxyData_total_alloc (f : Bool) : TotalAndBounded (readProxyData f) 1 bProxy := by
  simpa using safe_total_bounded (safe_readProxyData (K := 1) (Nat.le_refl 1) f)

theorem bDevInfo_value : bDevInfo = 1066928 ∧ bProxy = 14280 := by decide

/-! ### batched packets -/

/-- one nested packet: the tag table (≤ 65535 × 4 bytes) is the only request sized by the peer
without a check; it is paid back when the tags are really there (`K = 2`) and is a one-off
constant when they are not (the unpack loop stops at the first error) -/
theorem unmarshalStream_total_alloc : TotalAndBounded unmarshalStream 2 bTags := by
  simpa using safe_total_bounded (safe_unmarshalStream (K := 2) (Nat.le_refl 2))

/-- the unpack loop of `receive` / `processMultiple`: ANY count of nested packets — the constant
does not grow with the count -/
theorem unpackLoop_total_alloc (x : Nat) : TotalAndBounded (rep x unmarshalStream) 2 bTags :=
  loop_compose (safe_unmarshalStream (Nat.le_refl 2)) x

/-! ### exported result decoders -/

theorem rPwd_total_alloc (fl : Nat) : TotalAndBounded (rPwd fl) 1 0 := by
  simpa using safe_total_bounded (safe_rPwd fl)
theorem rSpawn_total_alloc (fl : Nat) : TotalAndBounded (rSpawn fl) 1 0 := by
  simpa using safe_total_bounded (safe_rSpawn fl)
theorem rBool_total_alloc (fl : Nat) : TotalAndBounded (rBool fl) 1 0 := by
  simpa using safe_total_bounded (safe_rBool fl)
theorem rMounts_total_alloc (fl : Nat) : TotalAndBounded (rMounts fl) 129 0 := by
  simpa using safe_total_bounded (safe_rMounts fl)
theorem rUpload_total_alloc (fl : Nat) : TotalAndBounded (rUpload fl) 1 0 := by
  simpa using safe_total_bounded (safe_rUpload fl)
theorem rWhoami_total_alloc (fl : Nat) : TotalAndBounded (rWhoami fl) 1 0 := by
  simpa using safe_total_bounded (safe_rWhoami fl)
theorem rPull_total_alloc (fl : Nat) : TotalAndBounded (rPull fl) 1 0 := by
  simpa using safe_total_bounded (safe_rPull fl)
theorem rAssembly_total_alloc (fl : Nat) : TotalAndBounded (rAssembly fl) 1 0 := by
  simpa using safe_total_bounded (safe_rAssembly fl)
theorem rProcess_total_alloc (fl : Nat) : TotalAndBounded (rProcess fl) 1 0 := by
  simpa using safe_total_bounded (safe_rProcess fl)
theorem rDownload_total_alloc (fl : Nat) : TotalAndBounded (rDownload fl) 1 0 := by
  simpa using safe_total_bounded (safe_rDownload fl)
theorem rSystemIO_total_alloc (fl : Nat) : TotalAndBounded (rSystemIO fl) 1 0 := by
  simpa using safe_total_bounded (safe_rSystemIO fl)
theorem rLs_total_alloc (fl : Nat) : TotalAndBounded (rLs fl) (kLs + Facts.c04_sizeofInterface) 0 := by
  simpa using safe_total_bounded (safe_rLs fl)
theorem rWindowList_total_alloc (fl : Nat) :
    TotalAndBounded (rWindowList fl) (1 + Facts.c04_sizeofWindow) 0 := by
  simpa using safe_total_bounded (safe_rWindowList fl)
theorem rFuncRemapList_total_alloc (fl : Nat) :
    TotalAndBounded (rFuncRemapList fl) (1 + Facts.c04_sizeofFuncEntry) 0 := by
  simpa using safe_total_bounded (safe_rFuncRemapList fl)
theorem rProcessList_total_alloc (fl : Nat) :
    TotalAndBounded (rProcessList fl) (1 + Facts.c04_sizeofProcessInfo) 0 := by
  simpa using safe_total_bounded (safe_rProcessList fl)
theorem rRegistry_total_alloc (fl : Nat) :
    TotalAndBounded (rRegistry fl) (1 + Facts.c04_sizeofRegEntry) 0 := by
  simpa using safe_total_bounded (safe_rRegistry fl)
theorem rUserLogins_total_alloc (fl : Nat) : TotalAndBounded (rUserLogins fl) 1 bLogins := by
  simpa using safe_total_bounded (safe_rUserLogins fl)

/-- `result.Script`: any number of rounds; the one Packet allocated by the round that hits the end
of the data is the constant -/
theorem rScript_total_alloc (fl : Nat) : TotalAndBounded (rScript fl) kScript Facts.c04_sizeofPacket := by
  simpa using safe_total_bounded (safe_rScript fl)

/-! ### connection handler: channel or close -/

/-- whatever the flags of the received Packet and of the reply, and whether or not the peer is a
registered client, the end of `handle` never dereferences a missing Session -/
theorem handleSwitch_total (host : Option Bool) (nChan nextChan : Bool) :
    handleSwitch host nChan nextChan ≠ .panic := by
  cases host with
  | none => simp [handleSwitch]
  | some cs => cases cs <;> cases nChan <;> cases nextChan <;> decide

/-- a connection without a Session is always closed -/
theorem handleSwitch_noHost (nChan nextChan : Bool) : handleSwitch none nChan nextChan = .close := rfl

/-- before the fix: one Packet with `FlagChannel` from an unregistered client -/
theorem handleSwitchOld_panics : handleSwitchOld none true false = .panic := rfl

/-! ### DNS transform -/

/-- `DNSTransform.Read` (after the bounds fix) neither panics nor loops on ANY message -/
theorem dnsRead_total (b : Bytes) : Dns.Fine (Dns.read b) := Dns.read_fine b

/-- what it writes (into the Chunk the packet is then parsed from) is never more than it received:
the output buffer grows in proportion to the message -/
theorem dnsRead_alloc (b w : Bytes) (h : Dns.read b = .ok w) : w.length ≤ b.length :=
  Dns.read_len b w h

/-- `dnsRead_total` rests on the guards: with `if s += 2; s+i > len(b)` (resp. `if s += 10; s+2 >
len(b)`) deleted, a 33-byte (resp. 23-byte) message makes `b[s : s+i]` (resp. `b[s]`) panic -/
theorem dns_guard_needed :
    ¬ Dns.Fine (GuardsMatter.Dns.decodePacketBad GuardsMatter.Dns.shortRecord) ∧
    ¬ Dns.Fine (GuardsMatter.Dns.decodePacketBad GuardsMatter.Dns.shortAnswer) := by
  have h1 := GuardsMatter.Dns.decodePacketBad_panics
  have h2 := GuardsMatter.Dns.answersBad_panics
  constructor
  · intro h
    cases hr : GuardsMatter.Dns.decodePacketBad GuardsMatter.Dns.shortRecord with
    | panic m => rw [hr] at h; exact h
    | ok a => rw [hr] at h1; cases h1
    | err e => rw [hr] at h1; cases h1
    | hang => rw [hr] at h1; cases h1
  · intro h
    cases hr : GuardsMatter.Dns.decodePacketBad GuardsMatter.Dns.shortAnswer with
    | panic m => rw [hr] at h; exact h
    | ok a => rw [hr] at h2; cases h2
    | err e => rw [hr] at h2; cases h2
    | hang => rw [hr] at h2; cases h2

/-- before the fix: a 5-byte message hits `_ = b[12]` -/
theorem dnsOld_panics : ∃ b : Bytes, b.length = 5 ∧
    (match Dns.decodePacketOld b with | .panic _ => true | _ => false) = true :=
  ⟨[1, 2, 3, 4, 5], rfl, by decide⟩

/-! ### stream reader: known finding (allocation policy) -/

/-- `(*reader).Bytes()` requests the announced length before reading the body: 9 bytes ask for
`MaxSlice` = 4 TiB.  (Negation of `alloc ≤ K·len + B` for any sensible constants.) -/
theorem streamBytes_alloc_unbounded :
    Stream.bytesAlloc [[7, 0, 0, 4, 0, 0, 0, 0, 0]] = Facts.maxSlice := by decide

/-- the one reslice of the stream reader with a run-time bound, `b[:n]` after `io.ReadFull(r.r, b)`, is
in range on EVERY stream: evaluated as Go evaluates it (`none` = panic) it is the `body` read of
`Codec.streamPrim` -/
theorem streamBytes_reslice_total (l : Nat) (s : Codec.Stream) :
    Stream.bodyP l s = some (Codec.streamPrim.body l s) :=
  Stream.bodyP_eq l s

/-- what does hold: a single call never requests more than `MaxSlice` -/
theorem streamBytes_alloc_partial (s : Codec.Stream) : Stream.bytesAlloc s ≤ Facts.maxSlice :=
  Stream.bytesAlloc_le s

-- OPEN: streamBytes_alloc : ∀ s, Stream.bytesAlloc s ≤ K * s.flatten.length + B — false on the
-- current code (witness above); recorded as known finding `alloc:data.reader.Bytes`.
-- OPEN: receive / processMultiple / conn.resolve dispatch arms: only the unpack loop
-- (`unpackLoop_total_alloc`) and the channel-or-close decision (`handleSwitch_total`) are proved; the
-- arms run on the real code against a fake connServer/connHost (ops `recv`, `procmulti`, `resolve`).

/-! ### the top-level wire form `Packet.Unmarshal` on arbitrary bytes -/

/-- **Whatever the header announces, a decoded packet never holds more than was consumed from the
wire.** For EVERY piece stream `s` (any bytes, any piece sizes) on which the outcome model of
`Packet.Unmarshal` (XMT/Packet.lean — the model C01 round-trips and the differential run drives with
op `wire`) succeeds: identity + the 14 fixed header bytes + 4 bytes per tag + the payload + whatever
is left of the stream fit into the input, so the bytes a packet retains are bounded by the bytes its
sender paid for (K = 1); the tag count is a 16-bit value (at most 256 KiB of tag slots whatever
follows). An announced length is the chunk's `Limit`, never a pre-allocation. -/
theorem packetUnmarshal_alloc (cf : Nat → Nat) {s s' : Codec.Stream} {p : Packet.Packet}
    (h : Packet.unmarshal cf s = .ok (p, s')) :
    Facts.idSize + 14 + 4 * p.tags.length + p.payload.length + s'.flatten.length ≤ s.flatten.length ∧
    p.dev.length = Facts.idSize ∧ p.tags.length < 2^16 :=
  Packet.unmarshal_alloc cf h

/-- the payload handed on is exactly as long as announced; an announced length of 2^63 or more (which
`int(p.len)` turns into a negative, i.e. absent, `Limit`) is only ever satisfied by an input that
really is that long — a short hostile header ends in an error, not in a packet. -/
theorem packetUnmarshal_len (cf : Nat → Nat) {len : Nat} {s s' : Codec.Stream} {pay : Bytes}
    (h : Packet.readPayload cf len s = .ok (pay, s')) :
    (len < 2^63 → pay.length = len) ∧ len + s'.flatten.length ≤ s.flatten.length := by
  obtain ⟨h1, h2, h3⟩ := Packet.readPayload_len cf h
  exact ⟨h3, by omega⟩

/-- **Totality of the two read loops**: the fuel the model gives `readBody`'s loop and
`Chunk.ReadFrom`'s loop is never what ends them — with any amount of extra fuel they return the same
result, i.e. on every input they stop by their own exit conditions (a zero-byte read, the announced
length reached, the limit reached, a write error) after at most one iteration per byte or piece of the
input. -/
theorem packetUnmarshal_loops_terminate (cf : Nat → Nat) (c : Chunk.Chunk) (hc : c.Inv) (s : Codec.Stream)
    (t len k : Nat) :
    Packet.bodyLoop cf (s.flatten.length + 2 + k) c s t len = Packet.bodyLoop cf (s.flatten.length + 2) c s t len ∧
    Chunk.Chunk.readFromLoop cf (s.flatten.length + s.length + 1 + k) c s t =
      Chunk.Chunk.readFromLoop cf (s.flatten.length + s.length + 1) c s t := by
  induction k with
  | zero => exact ⟨rfl, rfl⟩
  | succ k ih =>
    constructor
    · rw [← ih.1, ← Nat.add_assoc]
      exact Packet.bodyLoop_fuel cf _ c s t len hc (by omega)
    · rw [← ih.2, ← Nat.add_assoc]
      exact Chunk.Chunk.readFromLoop_fuel cf _ c s t (by omega)

/-- non-vacuity: a 48-byte wire packet (no tags, one payload byte) decodes and the bound is tight;
the same header announcing 2^63 bytes ("no limit") with one byte following ends in an error -/
example : (Packet.unmarshal (fun n => n) [List.replicate 32 1 ++ [9, 0, 7, 0, 0, 0, 0, 0, 0, 0, 0, 0, 0, 1, 1, 0x2A]]).toOption.map
    (fun r => (r.1.payload, r.1.tags, r.2.flatten)) = some ([0x2A], [], []) := by decide
example : (Packet.unmarshal (fun n => n)
    [List.replicate 32 1 ++ [9, 0, 7, 0, 0, 0, 0, 0, 0, 0, 0, 0, 0, 7, 0x80, 0, 0, 0, 0, 0, 0, 0, 0x2A]]).toOption.isNone = true := by
  decide

/-! ### the CBK wrapper's reader and the Base64-shift transform's reader on hostile bytes -/

/-- **The CBK reader never panics on attacker-controlled bytes and never returns more than it was
given.** For every key and block size `newSource` accepts and EVERY piece stream `cs` (any bytes, any
chunking, empty pieces, truncated anywhere, count bytes of 0 or above the block size) and every list of
Read sizes `ks`, the literal `(*CBK).Read` state machine of XMT/Cbk.lean (`none` = an outcome the Go
code could only have by panicking) returns; what it hands out is at most the wire's length — at most
`n` bytes per whole `n+1`-byte block — and each Read stays within the size asked for. -/
theorem cbkRead_total_alloc (a b c d sz : UInt8) (s0 : Cbk.St) (h : Cbk.newSource a b c d sz = some s0)
    (cs : Codec.Stream) (ks : List Nat) :
    ∃ pieces e, Cbk.readSeq s0 cs ks = some (pieces, e) ∧
      pieces.flatten.length ≤ cs.flatten.length ∧
      pieces.flatten.length ≤ (s0.buf.length - 1) * (cs.flatten.length / s0.buf.length) ∧
      pieces.flatten.length ≤ ks.sum ∧ pieces.length ≤ ks.length :=
  Cbk.cbk_readSeq_hostile a b c d sz s0 h cs ks

/-- `io.ReadAll` through the CBK reader on hostile bytes: a result exists as soon as the model's fuel
exceeds the number of wire bytes (no panic, no hang; `none` is only ever fuel exhaustion), the error is
never `io.EOF`, the output is bounded by the wire and the result does not depend on extra fuel.
(`readAll 0 = none` by definition, hence "partial": the unconditional `≠ none` is false of the model
for that reason alone.) -/
theorem cbkReadAll_total_alloc_partial (a b c d sz : UInt8) (s0 : Cbk.St) (h : Cbk.newSource a b c d sz = some s0)
    (cs : Codec.Stream) :
    (∀ fuel, cs.flatten.length < fuel → ∃ out e, Cbk.readAll fuel s0 cs = some (out, e) ∧ e ≠ some .eof) ∧
    (∀ fuel out e, Cbk.readAll fuel s0 cs = some (out, e) →
      out.length ≤ cs.flatten.length ∧
      out.length ≤ (s0.buf.length - 1) * (cs.flatten.length / s0.buf.length)) ∧
    (∀ fuel, Cbk.readAll fuel s0 cs = none → fuel ≤ cs.flatten.length) ∧
    (∀ f1 f2, cs.flatten.length < f1 → cs.flatten.length < f2 → Cbk.readAll f1 s0 cs = Cbk.readAll f2 s0 cs) :=
  Cbk.cbk_readAll_hostile_partial a b c d sz s0 h cs

/-- One `Read` from EVERY state the reader can be in (invariant `HInv`: the buffer has its length,
the cursor is not negative; established by `newSource`, preserved by every `Read` whatever its
outcome) returns, keeps the invariant and never overruns the caller's buffer — so also for a consumer
that goes on reading after an error. -/
theorem cbkRead_step_total {n : Nat} (hn : 16 ≤ n) {s : Cbk.St} (h : Cbk.HInv n s) (r : Codec.Stream) (k : Nat) :
    ∃ s' r' got e, Cbk.read s r k = some (s', r', got, e) ∧ Cbk.HInv n s' ∧ got.length ≤ k :=
  Cbk.cbk_read_no_panic hn h r k

/-- The Base64-shift transform's `Read`: it fails exactly when the Base64 decoder fails and otherwise
returns the decoder's output, byte for byte shifted back — same length, nothing allocated beyond it
(base64 itself is a parameter). -/
theorem b64Read_total_alloc (dec64 : Bytes → Option Bytes) (shift : UInt8) (p : Bytes) :
    (Wrap.b64Read dec64 shift p = none ↔ dec64 p = none) ∧
    (∀ out, Wrap.b64Read dec64 shift p = some out →
      ∃ raw, dec64 p = some raw ∧ out.length = raw.length ∧ out = raw.map (· - shift)) :=
  ⟨Wrap.b64Read_eq_none dec64 shift p, fun out h => Wrap.b64Read_some dec64 shift p out h⟩

/-- non-vacuity of the hypothesis: a key and size `newSource` accepts -/
example : (Cbk.newSource 7 9 3 200 16).isSome = true := by decide

/-! ### the fragment dispatcher under a hostile peer (state across packets) -/

/-- ANY sequence of fragment packets (any IDs, jobs, groups, counts, positions, empty or not, any
flag bits), from ANY reassembly state: the dispatcher with Go's index expressions evaluated as Go does
(`c.data[0]` in `cluster.add` and after the sort in `cluster.done` panic on an empty slice) never
reaches the panic value; it is the panic-free function of XMT.Frag. -/
theorem fragDispatch_total (fs : Frag.Frags) (ns : List Frag.Pkt) :
    FragHostile.recvAllP fs ns = .ok (Frag.recvAll fs ns) :=
  FragHostile.recvAllP_ok ns fs

/-- the reassembly state a connection history leaves behind holds at most one stored fragment per
fragment received (each stored fragment is bytes the peer sent: state in proportion to input) -/
theorem fragDispatch_state_bounded (ns : List Frag.Pkt) :
    FragHostile.held (Frag.recvAll [] ns).1 ≤ ns.length := by
  have := FragHostile.recvAll_held ns [] (by simp [FragHostile.keys])
  simpa [FragHostile.held] using this

/-- the panic value is not decoration: with the emptiness guard of `cluster.done` folded into the
count test (seeded change C04-1) a group made only of empty fragments reaches it -/
theorem fragDispatch_folded_guard_panics :
    FragHostile.doneFolded { data := [], max := 1, e := 2, c := 0 } = .panic := rfl

/-! ### non-vacuity -/

-- (`decide +kernel`: the kernel evaluates the decoder; the elaborator's own evaluator is exponential in
-- the nesting depth of `match`es, which the explicit index / reslice steps of the model deepen)
example : ∃ bs, bs.length ≤ Facts.maxSlice ∧ (∃ s, run (readProxyData true) bs = .ok () s ∧ s.alloc = 56 + 2) :=
  ⟨[1, 1, 1, 65, 1, 1, 66, 0], by decide,
    ⟨[], 58, [.by [], .str [66], .str [65], .u8 1]⟩, by decide +kernel, by decide⟩
example : (run (rFuncRemapList 0) [0, 0, 0, 1, 0, 0, 0, 9]).alloc = 24 := by decide
example : (run (rLs 0) [0xFF, 0xFF, 0xFF, 0xFF, 1]).alloc = 0 := by decide
example : (match Dns.read [0, 0, 1, 0, 0, 1, 0, 0, 0, 0, 0, 1, 1, 97, 0, 0, 1, 0, 1,
    0xC0, 0x0C, 0, 0xA, 0, 1, 0, 0, 0, 0, 0, 2, 7, 9] with | .ok w => w == [7, 9] | _ => false) = true := by
  decide


/-! ### extension round 3: the dispatch arms on a decoded Packet (XMT/Dispatch.lean)

`conn.process` / `processSingle` / `processMultiple` / `conn.resolve`, the tail of `handle` (+ `conn.start`)
and `receive` as outcome-valued functions in which every method call on a nil `connHost`, every access
through a nil `*com.Packet` / `*Session`, every assignment into a nil map and every index expression is a
panicking primitive (`hostP`, `ptrP`, `mset`, `idxP`).  The server side is ANY scripted `connServer`
(client table, `talkSub` answers, failing `notify`) with ANY hosts (`next()` nil or any packet, any
channel answers). -/

open XMT.Dispatch in
/-- **`conn.process` never panics on a decoded packet.**  For EVERY server table `h`, EVERY packet `n`
(any ID / flags / count field / tags, any list of nested packets, more or fewer than announced), both
modes `o`, and every connection state `c` that has a host and no nil entry in `c.add` (what
`Listener.resolve` / `conn.resolve` build, see `dispatch_resolve_total`) — whatever `c.next`, `c.subs`
(nil or not) hold: the outcome is a reply or an error; in the non-channel mode a successful call leaves a
reply (`c.next != nil`), which is what `handle` then dereferences. -/
theorem dispatch_process_total (h : Srv) (c : Conn) (n : In) (o : Bool) (x : Host) (hc : c.host = some x)
    (hadd : ∀ a ∈ c.add, a.isSome = true) :
    (process h c n o).isPanic = false ∧
    (process h c n o).Post (fun c' => c'.host = c.host ∧ (o = false → c'.next.isSome = true)) :=
  ⟨Post.noPanic (process_post h c n o x hc hadd), process_post h c n o x hc hadd⟩

open XMT.Dispatch in
/-- **`conn.resolve` never panics**, for every tag list (zero tags, unknown tags, duplicates, a tag that
names the connection's own client, more than `PacketMaxTags`), every client table and every prior
sub-client table (nil included); in channel mode (`o`) the connection must have its host (the channel
threads run between `start` and `stop`).  It only ever appends non-nil packets to `c.add` and leaves
host and reply alone — the precondition of `dispatch_process_total`. -/
theorem dispatch_resolve_total (h : Srv) (c : Conn) (s : Host) (t : List Nat) (o : Bool)
    (hh : o = true → c.host.isSome = true) (hadd : ∀ a ∈ c.add, a.isSome = true) :
    (resolve h c s t o).isPanic = false ∧
    (resolve h c s t o).Post (fun c' => c'.host = c.host ∧ c'.next = c.next ∧ ∀ a ∈ c'.add, a.isSome = true) :=
  ⟨Post.noPanic (resolve_post h c s t o hh hadd), resolve_post h c s t o hh hadd⟩

open XMT.Dispatch in
/-- **The whole non-channel path of a registered client's packet**: `Listener.talk` builds the conn
(`Listener.resolve`: host = the Session, no reply yet, tags resolved with `o = false`), runs
`conn.process`, and `handle` writes the reply and decides between channel and close (`handleTail`,
`conn.start` included).  For EVERY packet, tag list, server table, `talk` result flag, write outcome:
no step panics. -/
theorem dispatch_talk_handle_total (h : Srv) (s : Host) (n : In) (subs : Option SubMap) (e wErr : Bool) :
    (do
      let c ← resolve h { host := some s, subs := subs } s n.hd.tags false
      let c ← process h c n false
      handleTail true (some c) e (has n.hd.flags fChannel) wErr).isPanic = false := by
  have h1 := resolve_post h { host := some s, subs := subs } s n.hd.tags false (by simp) (by simp)
  refine Post.noPanic (Q := fun _ => True) (Post.bind h1 ?_)
  intro c1 ⟨g1, _, g3⟩
  refine Post.bind (process_post h c1 n false s g1 g3) ?_
  intro c2 ⟨_, g5⟩
  exact handleTail_post c2 e _ wErr (g5 rfl)

open XMT.Dispatch in
/-- the tail of `handle` (after fix 8cb7ac5) for ANY conn `talk` may return that carries a reply: with or
without a host, any sub-client table -/
theorem dispatch_handleTail_total (v : Conn) (e nChan wErr : Bool) (hn : v.next.isSome = true) :
    (handleTail true (some v) e nChan wErr).isPanic = false :=
  Post.noPanic (handleTail_post v e nChan wErr hn)

open XMT.Dispatch in
/-- **`receive(s, l, n)` never panics**: for EVERY nested batch container (any depth, any counts, any
flags at every level, empty device IDs, fragments announcing 0 / 1 / more), with or without a Session
(`s == nil` is the call for oneshot packets) and with or without a Listener.  (The reassembly state behind
the `FlagFrag` arm is `fragDispatch_total`.) -/
theorem dispatch_receive_total (s : Option Sess) (l : Bool) (t : Tree) : (receive false s l t).isPanic = false :=
  receive_np s l t

open XMT.Dispatch in
/-- **The guards are needed** (the panic values are reachable):
(1) `processMultiple` without `if z == nil { continue }` (fix 5ec5818) panics when the host has nothing
to send; (2) `handle` without `case v.host == nil` (fix 8cb7ac5) panics on a packet with `FlagChannel`
from an unregistered device; (3) `receive` without `if s == nil || …` panics on a batch container that
reaches it without a Session; (4) `resolve` without the `n != nil` test panics when a tagged client has
nothing to send; (5) `process` on a conn without a host panics (what `conn.stop` must not cause while a
channel thread is still processing: fix 496804c); (6) the nil-map assignment of `processMultiple` is
reachable without `if c.subs == nil { c.subs = make(…) }`. -/
theorem dispatch_guards_needed :
    (pmStep false {} false { host := some { id := [5] }, next := some {}, subs := some [] } { dev := [5] }).isPanic = true ∧
    (pmStep true {} false { host := some { id := [5] }, next := some {}, subs := some [] } { dev := [5] }).isPanic = false ∧
    (handleTail false (some { next := some { id := 3, dev := [5] } }) false true false).isPanic = true ∧
    (handleTail true (some { next := some { id := 3, dev := [5] } }) false true false).isPanic = false ∧
    (receive true none true (.node { dev := [5], flags := fMulti ||| (1 <<< 48) } false [.node { dev := [5] } true []])).isPanic = true ∧
    (receive false none true (.node { dev := [5], flags := fMulti ||| (1 <<< 48) } false [.node { dev := [5] } true []])).isPanic = false ∧
    (tagStep false { clients := [(1, { id := [6] })] } { id := [5] } false [1] 0 { subs := some [] }).isPanic = true ∧
    (tagStep true { clients := [(1, { id := [6] })] } { id := [5] } false [1] 0 { subs := some [] }).isPanic = false ∧
    (process {} {} { hd := { dev := [5] }, subs := [] } false).isPanic = true ∧
    (pmStep true { subs := [([6], { k := true })] } false { host := some { id := [5] }, next := some {}, subs := none } { dev := [6] }).isPanic = true := by
  refine ⟨?_, ?_, ?_, ?_, ?_, ?_, ?_, ?_, ?_, ?_⟩ <;> decide

/-- non-vacuity: a multi-device batch of two packets (one for the connection's own client, one for a
sub-client whose `talkSub` answers with a packet) yields a reply container counting both -/
example : (match XMT.Dispatch.process
      { subs := [([6], { k := true, q := 9, r := some { id := 3, dev := [6] } })] }
      { host := some { id := [5], nxt := some { dev := [5] } } }
      { hd := { dev := [5], flags := XMT.Dispatch.fMulti ||| XMT.Dispatch.fMultiDevice ||| (2 <<< 48) },
        subs := [{ id := 32, dev := [5] }, { id := 33, dev := [6] }] } false with
    | .ok c => (c.next.map fun p => XMT.Flag.len p.flags) == some 2 && c.subs == some [(9, true)]
    | _ => false) = true := by decide


/-! ### extension round 3: `data.ReadStringList` over the stream reader -/

/-- the string list follows the allocation policy of `(*reader).Bytes()`: a list of ONE entry whose
header announces `MaxSlice` requests 4 TiB from 11 bytes (negation of `alloc ≤ K·len + B`; same known
finding `alloc:data.reader.(Bytes|ReadStringList)`) -/
theorem streamStrs_alloc_unbounded :
    Stream.strsAlloc [[1, 1, 7, 0, 0, 4, 0, 0, 0, 0, 0]] = Facts.maxSlice := by decide

/-- what does hold: `n` rounds of the entry loop request at most `n·(2·MaxSlice + 128)` bytes — per entry
the announced body buffer (≤ MaxSlice), its `string` copy (≤ MaxSlice, a successful `Bytes()` never
returns more) and the amortised `append` -/
theorem streamStrs_alloc_partial (n : Nat) (s : Codec.Stream) :
    Stream.strsAllocN n s ≤ n * (2 * Facts.maxSlice + XMT.Decode.appendCost) :=
  Stream.strsAllocN_le n s

-- OPEN: streamStrs_alloc : ∀ s, Stream.strsAlloc s ≤ K * s.flatten.length + B — false on the current code
-- (witness above).  Also open: the sharper partial bound in terms of the entries really present (the
-- loop stops at the first entry that is short).

/-- non-vacuity: two well-formed entries cost their bodies twice plus the appends -/
example : Stream.strsAlloc [[1, 2, 1, 1, 65, 1, 2, 66, 67]] = (1 + 1 + 128) + (2 + 2 + 128) := by decide

end XMT.Props.C04
