/-
  Property C05 — every task issued to a live session completes exactly once with its own result.

  Theorems over ALL traces of the protocol machine XMT/Proto.lean (`run? f (init n) tr = some st`:
  `tr` is any list of events the acceptor accepts from the initial state with `n` clients; the
  result function `f kind client job payload` of the clients' Taskers is arbitrary).  The machine
  abstracts the transport (C02/C03: what `next` hands out is what `receiveSingle` gets; C06: the
  session cipher is an involution under the agreed key) — a real run in which that fails is not a
  trace of the machine and is reported by the trace validation of the harness.

  Hypotheses named explicitly:
    * job numbers are not reused within a session (guard of the `task` step, `j ∉ used`);
    * no Cancel (C14), no shutdown / migration (C16) during the history.

  Scope notes (from an adversarial review of these statements, see DESIGN.md Appendix B.5):
  * these are theorems about the acceptor `stepS?`: they show that its local guards jointly imply
    the global property. That the real code only produces traces the acceptor accepts is the runtime
    trace validation of the harness (sampling), not a theorem. `drop_only_when_full`,
    `task_refused_iff_full`, `other_sessions_untouched` read back single guards on purpose: they are
    the points at which a real trace is rejected.
  * the acceptor has no capacity guard on the non-drop outcomes of a result; key material (re-key,
    sync) and channel switches are stutter steps for every field the theorems mention.
  * `Proto.lean` refuses a caller-supplied Job number below 2, `Job.lean` (C14) registers it as the
    code does; the harness never supplies one (see C14 scope notes).
-/
import XMT.ProtoLemmas
import XMT.ProtoProgress
namespace XMT.Props.C05
open XMT XMT.Proto

variable {f : Kind → Nat → JobId → Payload → Res}

/-- A client dispatches every job number at most once. -/
theorem exec_at_most_once {n : Nat} {tr : List Ev} {st : State} (h : run? f (init n) tr = some st)
    {c : Nat} {s : Sess} (hs : st[c]? = some s) (j : JobId) : s.execd.count j ≤ 1 := by
  have inv := ginv_run (ginv_init n) h c s hs
  have h1 := inv.execd j
  have h2 := inv.token j
  have : cntJ j s.down ≤ cntJ j s.all := by simp [Sess.all, Sess.down]; omega
  split at h2 <;> omega

/-- A Job is completed at most once. -/
theorem complete_at_most_once {n : Nat} {tr : List Ev} {st : State} (h : run? f (init n) tr = some st)
    {c : Nat} {s : Sess} (hs : st[c]? = some s) (j : JobId) : (s.completed.map (·.1)).count j ≤ 1 := by
  have inv := ginv_run (ginv_init n) h c s hs
  have h2 := inv.token j
  simp only [Sess.compJ] at h2
  split at h2 <;> omega

/-- A completed Job carries the result the addressed client computed for THAT job from THAT job's
    payload: `(j, k, p)` is the one and only Task call that issued number `j` in this session. -/
theorem complete_own_result {n : Nat} {tr : List Ev} {st : State} (h : run? f (init n) tr = some st)
    {c : Nat} {s : Sess} (hs : st[c]? = some s) {j : JobId} {r : Res} (hc : (j, r) ∈ s.completed) :
    ∃ k p, (j, k, p) ∈ s.pay ∧ r = f k c j p ∧ ∀ k' p', (j, k', p') ∈ s.pay → k' = k ∧ p' = p := by
  have inv := ginv_run (ginv_init n) h c s hs
  obtain ⟨k, p, h1, h2⟩ := inv.compl (j, r) hc
  exact ⟨k, p, h1, h2, fun k' p' h' => inv.payF j k' p' k p h' h1⟩

/-- No Job completes unless the client dispatched it. -/
theorem no_complete_without_exec {n : Nat} {tr : List Ev} {st : State} (h : run? f (init n) tr = some st)
    {c : Nat} {s : Sess} (hs : st[c]? = some s) {j : JobId} {r : Res} (hc : (j, r) ∈ s.completed) :
    j ∈ s.execd := by
  have inv := ginv_run (ginv_init n) h c s hs
  have h1 := inv.execd j
  have : 0 < s.compJ.count j := by
    apply List.count_pos_iff.mpr
    simp only [Sess.compJ, List.mem_map]
    exact ⟨(j, r), hc, rfl⟩
  exact List.count_pos_iff.mp (by omega)

/-- Every result that reaches Session.handle finds its Job in the table: nothing is "un-tracked",
    so a result is never thrown away on the server. -/
theorem results_always_tracked {n : Nat} {tr : List Ev} {st : State} (h : run? f (init n) tr = some st)
    {c : Nat} {s : Sess} (hs : st[c]? = some s) : s.untracked = 0 :=
  (ginv_run (ginv_init n) h c s hs).untr

/-- Each issued number has exactly one token: a packet somewhere in the pipeline (possibly one that
    a full queue discarded) or its completion record — never two, never none. -/
theorem one_token_per_job {n : Nat} {tr : List Ev} {st : State} (h : run? f (init n) tr = some st)
    {c : Nat} {s : Sess} (hs : st[c]? = some s) {j : JobId} (hj : j ∈ s.used) :
    cntJ j s.all + (s.completed.map (·.1)).count j = 1 := by
  have h2 := (ginv_run (ginv_init n) h c s hs).token j
  simpa [Sess.compJ, hj] using h2

/-- An event of one client changes nothing in the session of another client (no cross-client
    delivery in the machine; in the real code this is property C15). -/
theorem other_sessions_untouched {st st' : State} {ev : Ev} (hs : step? f st ev = some st')
    {c' : Nat} (hc : c' ≠ ev.c) : st'[c']? = st[c']? :=
  step_other hs hc

/-- Progress, as a function statement (no fairness axiom: the schedule is an explicit list).  In any
    reachable state, for any issued job that is not yet completed and whose token no full queue has
    discarded, there is an explicit list of at most 7 events of that session — server `next`, client
    receive, dispatch, result, client `next`, server receive, `handle` — that the machine accepts and
    after which the Job is completed with its own result.  (Hypothesis `hd` is the capacity clause:
    `queue` discards only when 128 packets are queued, see `drop_only_when_full`.) -/
theorem issued_task_completes_partial {n : Nat} {tr : List Ev} {st : State}
    (h : run? f (init n) tr = some st) {c : Nat} {s : Sess} (hs : st[c]? = some s) {j : JobId}
    (hj : j ∈ s.used) (hn : (s.completed.map (·.1)).count j = 0) (hd : cntJ j s.dropped = 0) :
    ∃ evs s', evs.length ≤ 7 ∧ runS? f c s evs = some s' ∧
      ∃ r k p, (j, r) ∈ s'.completed ∧ (j, k, p) ∈ s'.pay ∧ r = f k c j p := by
  have inv := ginv_run (ginv_init n) h c s hs
  have sh := gshape_run (gshape_init n) h c s hs
  have hr := rank_pos_of_token inv hj hn hd
  obtain ⟨evs, s', hlen, hrun, hdone⟩ := completes_within 7 s inv sh hj hn hd hr.2
  refine ⟨evs, s', hlen, hrun, ?_⟩
  have inv' : Inv f c s' := inv_runS inv hrun
  simp only [Sess.compJ, List.mem_map] at hdone
  obtain ⟨⟨j', r⟩, hmem, rfl⟩ := hdone
  obtain ⟨k, p, h1, h2⟩ := inv'.compl _ hmem
  exact ⟨r, k, p, hmem, h1, h2⟩

-- OPEN: issued_task_completes (without `hd`): every task issued while fewer than 128 jobs are
-- outstanding completes.  False as stated for the code and for the machine: control packets share
-- the client's 128-slot queue with the results, `queue` discards when it is full (witness on the
-- real code: known finding stuck:dropped, 127 outstanding results + two SetChannel toggles), and
-- a discarded token never moves again (`result_discarded_is_final`).

/-- A result that `queue` discarded is lost for good: whatever happens afterwards, its Job never
    completes (this is what makes the capacity clause necessary). -/
theorem result_discarded_is_final {n : Nat} {tr : List Ev} {st : State}
    (h : run? f (init n) tr = some st) {c : Nat} {s s' : Sess} (hs : st[c]? = some s) {j : JobId}
    (hd : 0 < cntJ j s.dropped) {evs : List SEv} (hrun : runS? f c s evs = some s') :
    ∀ r, (j, r) ∉ s'.completed := by
  intro r hr
  have := discarded_never_completes (ginv_run (ginv_init n) h c s hs) hd hrun
  exact this (by simp only [Sess.compJ, List.mem_map]; exact ⟨(j, r), hr, rfl⟩)

set_option maxRecDepth 100000 in
/-- Witness (machine side of the known finding stuck:dropped): with the client's queue filled by
    control packets the only outstanding job's result is discarded — an accepted trace after which
    the Job is still pending and its token sits in `dropped`. -/
theorem full_queue_discards_result :
    ((run? echoF (init 1) (List.replicate queueCap ⟨0, .cctrl false⟩ ++
        [⟨0, .task 0 5 77⟩, ⟨0, .snext [.task 0 5 77]⟩, ⟨0, .crecv (.task 0 5 77)⟩, ⟨0, .exec 0 5 77⟩,
         ⟨0, .result 5 (echoF 0 0 5 77) true⟩])).bind (·[0]?)).map
      (fun s => (s.jobs, cntJ 5 s.dropped, s.completed.length)) = some ([5], 1, 0) := by
  decide

/-- `queue` discards a result only when the client's send queue holds `queueCap` packets. -/
theorem drop_only_when_full {c : Nat} {s s' : Sess} {j : JobId} {r : Res}
    (hs : stepS? f c s (.result j r true) = some s') : s.cq.length ≥ queueCap := by
  simp only [stepS?] at hs
  split at hs
  · split at hs
    · split at hs
      · split at hs
        · assumption
        · cases hs
      · simp at *
    · cases hs
  · cases hs

/-- The server refuses a Task exactly when the send queue is full (`len+1 >= cap`), and then
    nothing changes. -/
theorem task_refused_iff_full {c : Nat} {s : Sess} :
    stepS? f c s .taskFull = some s ↔ s.sq.length + fullSlack ≥ queueCap := by
  simp [stepS?]

/-! ### non-vacuity: a concrete history with two clients, batching, a re-key and a control packet is
    accepted, completes all three jobs with their own results -/

def demo : List Ev :=
  [⟨0, .sctrl false⟩, ⟨0, .snext [.ctrl]⟩,
   ⟨0, .task 0 5 77⟩, ⟨0, .task 0 9 78⟩, ⟨1, .task 1 5 5000000⟩,
   ⟨0, .cnext [.rekey]⟩, ⟨0, .regen⟩, ⟨0, .srecv .rekey⟩,
   ⟨0, .snext [.task 0 5 77, .task 0 9 78]⟩, ⟨0, .sync⟩,
   ⟨0, .crecv (.task 0 9 78)⟩, ⟨0, .crecv (.task 0 5 77)⟩, ⟨1, .snext [.task 1 5 5000000]⟩,
   ⟨0, .exec 0 5 77⟩, ⟨0, .exec 0 9 78⟩, ⟨1, .crecv (.task 1 5 5000000)⟩, ⟨1, .exec 1 5 5000000⟩,
   ⟨0, .result 9 (echoF 0 0 9 78) false⟩, ⟨0, .result 5 (echoF 0 0 5 77) false⟩,
   ⟨1, .result 5 5000000 false⟩,
   ⟨0, .cnext [.result 5 (echoF 0 0 5 77), .result 9 (echoF 0 0 9 78)]⟩, ⟨1, .cnext [.result 5 5000000]⟩,
   ⟨0, .srecv (.result 9 (echoF 0 0 9 78))⟩, ⟨0, .srecv (.result 5 (echoF 0 0 5 77))⟩,
   ⟨1, .srecv (.result 5 5000000)⟩,
   ⟨0, .handle 9 (echoF 0 0 9 78) true⟩, ⟨1, .handle 5 5000000 true⟩, ⟨0, .handle 5 (echoF 0 0 5 77) true⟩]

example : ((run? echoF (init 2) demo).map fun st => st.map fun s => (s.completed.length, s.jobs.length, s.execd.length)) =
    some [(2, 0, 2), (1, 0, 1)] := by decide

/-- rejected: the same result handled twice, a result for a job of the other client, a result whose
    value is not the own result, a re-key packet inside a batch -/
example : run? echoF (init 2) (demo ++ [⟨0, .handle 5 (echoF 0 0 5 77) true⟩]) = none := by decide
example : run? echoF (init 2) [⟨0, .task 0 5 77⟩, ⟨1, .snext [.task 0 5 77]⟩] = none := by decide
example : run? echoF (init 1) [⟨0, .task 0 5 77⟩, ⟨0, .snext [.task 0 5 77]⟩, ⟨0, .crecv (.task 0 5 77)⟩,
    ⟨0, .exec 0 5 77⟩, ⟨0, .result 5 (echoF 0 0 5 78) false⟩] = none := by decide
example : run? echoF (init 1) [⟨0, .task 0 5 77⟩, ⟨0, .snext [.task 0 5 77]⟩, ⟨0, .crecv (.task 0 5 77)⟩,
    ⟨0, .exec 0 5 77⟩, ⟨0, .result 5 (echoF 0 0 5 77) false⟩, ⟨0, .cnext [.rekey, .result 5 (echoF 0 0 5 77)]⟩] = none := by
  decide

end XMT.Props.C05
