/-
  C06 — Both ends always hold the same session key; encryption is an exact involution.
  Property theorems only; model in XMT/Keys.lean, lemmas in XMT/Keys{Xor,Lemmas,Toy}.lean.

  The curve arithmetic is a parameter `c : Curve` with the hypotheses `c.WF` (Diffie–Hellman
  commutes, generated keys yield a secret, public keys have the array size and are not all zero).

  -- OPEN: the property as stated, for ALL fault sequences, is FALSE on this code: a lost reply to a
  -- re-key packet or to a (re-)registration hello desynchronises the two ends.  The negation is
  -- proved below on concrete witnesses (`replyLost_desync`, `replyLost_writeFail_permanent`,
  -- `rehello_replyLost_desync`, `helloLost_blocks_registration`; known findings), the part that
  -- holds is `synced_partial` (every history of completed / write-failed exchanges, re-keys,
  -- server-side drops and re-registrations).
  -- OPEN: channel (full duplex) mode and proxy/multi-device packets are not modelled.
-/
import XMT.KeysToy
import XMT.KeysPickWait
import XMT.RelaySplice
namespace XMT.Props.C06
open XMT XMT.Keys

/-! ### The payload cipher -/

/-- `XorOp` / `KeyCrypt` never changes the length, for every key and value. -/
theorem xorOp_length (value key : Bytes) : (xorOp value key).length = value.length :=
  Keys.xorOp_length value key

/-- Applying the cipher twice with the same key restores the bytes — all key lengths, all value
lengths (shorter, equal, longer than the key; partial last block). -/
theorem xorOp_involutive (value key : Bytes) : xorOp (xorOp value key) key = value :=
  Keys.xorOp_involutive value key

/-- An empty key or an empty value is a no-op. -/
theorem xorOp_empty (value key : Bytes) (h : key = [] ∨ value = []) : xorOp value key = value := by
  apply Keys.xorOp_noop
  rcases h with h | h <;> simp [h]

/-- What one side encrypts the other side decrypts to the original, as soon as both hold the same
secret. -/
theorem decrypt_of_equal_share (k1 k2 : KeyPair) (h : k1.share = k2.share) (p : Bytes) :
    xorOp (xorOp p k1.share) k2.share = p := by
  rw [← h]; exact Keys.xorOp_involutive p _

/-! ### Agreement -/

/-- Registration handshake: afterwards BOTH ends hold the secret `v` copied over an all-zero
65-byte buffer — byte-identical for every length of `v` (shorter than the buffer: zero tail;
longer: truncated), and `v` is the same Diffie–Hellman value computed from either side. -/
theorem handshake_agree (c : Curve) (hc : c.WF) (b a info : Bytes)
    (hb : b.length = privSize) (ha : a.length = privSize) :
    ∃ v cl sk, c.dh b (c.pubOf a) = some v ∧ c.dh a (c.pubOf b) = some v ∧
      (step c (init c b) (.connect a info .ok)).client = some cl ∧
      (step c (init c b) (.connect a info .ok)).server.sess = some sk ∧
      cl.keys.share = copyInto (zeros shareSize) v ∧ sk.share = copyInto (zeros shareSize) v := by
  have hi := init_inv c hc b hb
  obtain ⟨v, h1, h2, e⟩ := connectStep_fresh c hc (init c b).server rfl a info ha hi.srv
  have hp : (init c b).server.keys.priv = b := by
    simp [init, zero_fill c hc b hb]
  rw [hp] at h1 h2
  refine ⟨v, ⟨⟨(init c b).server.keys.pub, a, copyInto (zeros shareSize) v⟩, none, none⟩,
    ⟨c.pubOf a, (init c b).server.keys.priv, copyInto (zeros shareSize) v⟩, h1, h2, ?_, ?_, rfl, rfl⟩
  · simp only [step]; rw [e]
  · simp only [step]; rw [e]

/-- A completed re-key of a synchronised pair: both ends copy the same new secret `v` over the
same previous buffer (so stale tail bytes of a short secret are equal on both sides), and the
reply of that very exchange — encrypted by the server with the conn-local OLD key, decrypted by the
client BEFORE it swaps — arrives intact. -/
theorem rekey_agree (c : Curve) (hc : c.WF) (s : State) (cl : Client) (sk : KeyPair)
    (a reply fresh : Bytes) (ha : a.length = privSize) (hinv : Inv c s)
    (hcl : s.client = some cl) (hsk : s.server.sess = some sk) :
    ∃ v cl' sk', c.dh s.server.keys.priv (c.pubOf a) = some v ∧
      (step c s (.xchg (.rekey a) reply fresh .ok)).client = some cl' ∧
      (step c s (.xchg (.rekey a) reply fresh .ok)).server.sess = some sk' ∧
      cl'.keys.share = copyInto cl.keys.share v ∧ sk'.share = copyInto sk.share v ∧
      cl'.keys.share = sk'.share ∧ cl'.next = none ∧
      (step c s (.xchg (.rekey a) reply fresh .ok)).obs = s.obs ++ [⟨false, reply, reply⟩] := by
  obtain ⟨v, h1, _, e⟩ := xchgStep_rekey_ok c hc cl s.server sk a reply fresh ha hinv.srv
    (hinv.cli cl hcl) hsk
  have hsh : cl.keys.share = sk.share := hinv.synced cl sk hcl hsk
  refine ⟨v, ⟨⟨cl.keys.pub, a, copyInto cl.keys.share v⟩, none, none⟩,
    { sk with pub := c.pubOf a, share := copyInto sk.share v }, h1, ?_, ?_, rfl, rfl, ?_, rfl, ?_⟩
  · simp only [step, hcl]; rw [e]
  · simp only [step, hcl]; rw [e]
  · simp only [hsh]
  · simp only [step, hcl]; rw [e]

/-- A re-key (or anything else) whose announcement was not delivered leaves the sender on the old
key with nothing queued, and the server untouched — for every state, no hypotheses. -/
theorem writeFail_reverts (c : Curve) (s : State) (cl : Client) (send : Send) (reply fresh : Bytes)
    (hcl : s.client = some cl) :
    step c s (.xchg send reply fresh .writeFail) =
      { s with client := some { cl with next := none, hello := none } } := by
  simp only [step, hcl]
  rw [xchgStep_writeFail]
  simp

/-- **Both ends hold the same key after every history without a lost reply** (`_partial`: the
excluded histories are the known findings below).  For every curve satisfying the hypotheses, every
server key, every sequence of connects, data exchanges, re-keys, failed writes, server-side drops
and the re-registrations they cause: the shared-secret buffers are byte-identical whenever both
ends exist, and every payload that reached a handler is the payload that was queued. -/
theorem synced_partial (c : Curve) (hc : c.WF) (b : Bytes) (hb : b.length = privSize)
    (evs : List Ev) (hev : ∀ e ∈ evs, e.Sized ∧ e.NoLoss) :
    Synced (run c (init c b) evs) ∧ Intact (run c (init c b) evs) := by
  have h := run_inv c hc evs (init c b) hev (init_inv c hc b hb)
  exact ⟨h.synced, h.intact⟩

/-! ### The lost-reply cases: negation on concrete witnesses (known findings) -/

def kS : Bytes := zeros 65 ++ [3]
def kA : Bytes := zeros 65 ++ [5]
def kB : Bytes := zeros 65 ++ [7]
def kC : Bytes := zeros 65 ++ [2]
def kD : Bytes := zeros 65 ++ [11]

/-- connect; re-key exchange whose reply is lost -/
def wRekeyLost : List Ev := [.connect kA [9, 9] .ok, .xchg (.rekey kB) [] kC .replyLost]
def xData : Ev := .xchg (.data [1, 2, 3]) [4, 5, 6] kC .ok

set_option maxRecDepth 100000 in
/-- After "re-key written, reply lost" the server is on the new key and the client on the old one;
the next exchange is corrupted in both directions; after it the keys are equal again. -/
theorem replyLost_desync :
    ¬ Synced (run toy (init toy kS) wRekeyLost) ∧
    ¬ Intact (run toy (init toy kS) (wRekeyLost ++ [xData])) ∧
    Synced (run toy (init toy kS) (wRekeyLost ++ [xData])) := by
  refine ⟨?_, ?_, ?_⟩
  · rw [← syncedB_iff]; decide
  · rw [← intactB_iff]; decide
  · rw [← syncedB_iff]; decide

/-- "The announcement was written — no error reached the sender — but the server never received it"
(the connection died after the kernel accepted the bytes): the client side of a reply-lost exchange,
the server untouched. Not a constructor of `Fault`; the end-to-end harness produces it as fault `q`. -/
def xchgReqLost (c : Curve) (s : State) (send : Send) (fresh : Bytes) : State :=
  { step c s (.xchg send [] fresh .replyLost) with server := s.server, obs := s.obs }

set_option maxRecDepth 100000 in
/-- **The mirror image of `replyLost_desync`** (known finding `requestLost:rekey`): after a re-key
whose announcement was written but never reached the server both ends still agree — the client is on
the old key, the new pair stays queued — but the NEXT successful exchange makes the client swap to
the pair the server never saw: from then on the secrets differ and payloads are corrupted. So the
clause "a re-key whose announcement was not delivered leaves the sender on the old key" holds only
for a failure the sender is told about (`writeFail_reverts`). Same repair as the reply-lost cases: an
acknowledged re-key. -/
theorem requestLost_desync :
    Synced (xchgReqLost toy (run toy (init toy kS) [.connect kA [9, 9] .ok]) (.rekey kB) kC) ∧
    ¬ Synced (run toy (xchgReqLost toy (run toy (init toy kS) [.connect kA [9, 9] .ok]) (.rekey kB) kC) [xData]) ∧
    ¬ Intact (run toy (xchgReqLost toy (run toy (init toy kS) [.connect kA [9, 9] .ok]) (.rekey kB) kC) [xData, xData]) := by
  refine ⟨?_, ?_, ?_⟩
  · rw [← syncedB_iff]; decide
  · rw [← syncedB_iff]; decide
  · rw [← intactB_iff]; decide

set_option maxRecDepth 100000 in
/-- If the exchange after the lost reply fails at the write, `keyCheckRevert` drops the queued
KeyPair: the split is permanent (later exchanges do not heal it). -/
theorem replyLost_writeFail_permanent :
    ¬ Synced (run toy (init toy kS)
      (wRekeyLost ++ [.xchg (.data [1]) [] kC .writeFail, xData, xData, xData])) := by
  rw [← syncedB_iff]; decide

set_option maxRecDepth 100000 in
/-- Re-registration (server dropped the Session → SvRegister → queued hello) whose hello reply is
lost: the server holds a real secret, the client an all-zero one; neither later traffic nor a later
re-key repairs it. -/
theorem rehello_replyLost_desync :
    ¬ Synced (run toy (init toy kS)
      [.connect kA [9, 9] .ok, .drop, .xchg (.data []) [] kC .ok, .xchg (.data []) [] kD .replyLost,
       xData, .xchg (.rekey kB) [] kD .ok, xData]) ∧
    ¬ Intact (run toy (init toy kS)
      [.connect kA [9, 9] .ok, .drop, .xchg (.data []) [] kC .ok, .xchg (.data []) [] kD .replyLost,
       xData]) := by
  refine ⟨?_, ?_⟩
  · rw [← syncedB_iff]; decide
  · rw [← intactB_iff]; decide

set_option maxRecDepth 100000 in
/-- First registration whose reply is lost: the server keeps the Session; a new `Connect` of the
same device is then refused (no client comes into being) although the same `Connect` against a
server that does not know the device succeeds. -/
theorem helloLost_blocks_registration :
    (run toy (init toy kS) [.connect kA [9, 9] .replyLost, .connect kB [9, 9] .ok]).client = none ∧
    (run toy (init toy kS) [.connect kB [9, 9] .ok]).client.isSome = true := by
  refine ⟨?_, ?_⟩ <;> decide

/-! ### Start-up order (c2/server.go) -/

/-- The source generates `Server.Keys` before `go s.listen()` (regenerated fact). -/
theorem keys_before_listen : Facts.c06KeysBeforeListen = true := by decide

/-- The conn-local key copy is taken before `keyCryptAndUpdate` (regenerated fact; the model's
`talk` relies on this order). -/
theorem conn_copy_before_update : Facts.c06ConnCopyBeforeUpdate = true := by decide

/-- With the repaired `ListenContext`, for EVERY schedule of the Server event loop against the
Listener serving the first hello: if the registration completes, both ends hold the same secret —
and it does complete as soon as the Listener ran its two steps. -/
theorem boot_agree (c : Curve) (hc : c.WF) (b a : Bytes) (hb : b.length = privSize)
    (ha : a.length = privSize) (sched : List Tid) :
    (∀ r, bootRun c Facts.c06KeysBeforeListen b a sched = some r → r.1 = r.2) ∧
    (2 ≤ (sched.filter (· = .lis)).length →
      (bootRun c Facts.c06KeysBeforeListen b a sched).isSome = true) := by
  rw [keys_before_listen]
  obtain ⟨v, hv⟩ := hc.total b a hb ha
  have hv2 : c.dh a (c.pubOf b) = some v := by rw [hc.comm]; exact hv
  have hz := zero_fill c hc a ha
  have hzb := zero_fill c hc b hb
  have hgood0 : BootGood c b (c.pubOf a) v (bootInit c true b) := by
    refine ⟨?_, Or.inl rfl, Or.inl rfl⟩
    simp [bootInit, hzb]
  have hgood := boot_fold_good c hc b (c.pubOf a) v hb (hc.pubLen a) hv sched _ hgood0
  have hss := sessionSync_fresh c ⟨c.pubOf a, a, zeros shareSize⟩ (c.pubOf b) v false rfl
    (hc.pubLen a) (hc.pubLen b) (hc.pubNonzero b) hv2
  obtain ⟨_, hs, hr⟩ := hgood
  constructor
  · intro r hrun
    simp only [bootRun, hz] at hrun
    rcases hs with hs | hs <;> rcases hr with hr | hr <;> simp [hs, hr, hss] at hrun
    rw [← hrun]
  · intro hlen
    -- two Listener steps have run: the Session exists and the reply was sent
    have hcount : ∀ (sched : List Tid) (s : Boot),
        (2 ≤ (sched.filter (· = .lis)).length ∨
         (1 ≤ (sched.filter (· = .lis)).length ∧ s.sess.isSome) ∨
         (s.sess.isSome ∧ s.reply.isSome)) →
        ((sched.foldl (bootStep c b (c.pubOf a)) s).sess.isSome ∧
         (sched.foldl (bootStep c b (c.pubOf a)) s).reply.isSome) := by
      intro sched
      induction sched with
      | nil => intro s h; simpa using h
      | cons t ts ih =>
        intro s h
        apply ih
        obtain ⟨keys, ld, sess, reply⟩ := s
        cases t with
        | loop =>
          cases ld <;> simpa [bootStep] using h
        | lis =>
          cases sess with
          | none =>
            simp [bootStep] at h ⊢
            omega
          | some sk =>
            cases reply <;> simp [bootStep]
    have := hcount sched (bootInit c true b) (Or.inl hlen)
    simp only [bootRun, hz]
    rcases hs with hs | hs
    · simp [hs] at this
    · rcases hr with hr | hr
      · simp [hr] at this
      · simp [hs, hr, hss]

set_option maxRecDepth 100000 in
/-- Without the repair (KeyPair generated by the event loop) there are schedules on which the first
registration ends with different secrets, or fails. -/
theorem boot_race_unfixed :
    (bootRun toy false kS kA [.lis, .loop, .lis]).map (fun r => decide (r.1 = r.2)) = some false ∧
    bootRun toy false kS kA [.lis, .lis, .loop] = none ∧
    (bootRun toy false kS kA [.loop, .lis, .lis]).map (fun r => decide (r.1 = r.2)) = some true := by
  decide

/-! ### Non-vacuity -/

/-- The curve hypotheses are satisfiable. -/
example : toy.WF := toy_wf
-- The witness keys have the private-key size.
set_option maxRecDepth 100000 in
example : kS.length = privSize ∧ kA.length = privSize ∧ kB.length = privSize := by decide
-- A history with a re-key, a failed write, a drop and the re-registration meets the hypotheses of
-- `synced_partial`, really re-keys (the secret changes) and delivers payloads.
set_option maxRecDepth 100000 in
example :
    let evs : List Ev := [.connect kA [9] .ok, xData, .xchg (.rekey kB) [7, 7] kC .ok,
      .xchg (.rekey kD) [] kC .writeFail, xData, .drop, .xchg (.data [1]) [] kC .ok,
      .xchg (.data []) [] kC .ok, xData]
    (∀ e ∈ evs, e.Sized ∧ e.NoLoss) ∧
    ((run toy (init toy kS) (evs.take 2)).client.map (·.keys.share)) ≠
      ((run toy (init toy kS) (evs.take 3)).client.map (·.keys.share)) ∧
    (run toy (init toy kS) evs).obs.length = 7 ∧
    (run toy (init toy kS) evs).server.sess.isSome = true := by
  decide
/-- `xorOp` on a value longer than the key with a partial last block. -/
example : xorOp [1, 2, 3, 4, 5] [255, 1] = [254, 3, 252, 5, 250] := by decide
/-- a secret shorter than the buffer keeps the stale tail -/
example : copyInto [9, 9, 9, 9] [1, 2] = [1, 2, 9, 9] ∧ copyInto [9, 9] [1, 2, 3] = [1, 2] := by decide

/-- **The Channel-mode helper announces what it queues** (`(*Session).pickWait`): the helper thread
never touches the key in use; a KeyPair is queued only together with the packet that announces it
(flagged as key material, carrying that pair's public key); an abandoned helper — whose packet would
never be sent — changes nothing. So "a re-key whose announcement was not delivered leaves the sender
on the old key" cannot be broken from this thread: there is no queued pair without an announcement
in the send queue. Compared with the real function on every run (op `pickwait`). -/
theorem pickWait_announces_what_it_queues (c : Curve) (cl : Client) (abandoned : Bool) (roll : Option Bytes) :
    (pickWait c cl abandoned roll).2.keys = cl.keys ∧
    (abandoned = true → pickWait c cl abandoned roll = (none, cl)) ∧
    ((pickWait c cl abandoned roll).2.next ≠ cl.next →
      ∃ p v, (pickWait c cl abandoned roll).1 = some p ∧ p.crypt = true ∧
        (pickWait c cl abandoned roll).2.next = some v ∧ p.payload = v.pub) :=
  let h := pickWait_spec c cl abandoned roll
  ⟨h.1, h.2.2.1, h.2.2.2⟩

/-! ## a payload that rides on another device's connection (tag relay): known finding
`relaykeys:batch-spliced-after-encryption`

`conn.resolve` encrypts the tagged device's next transmission with that device's key and
`conn.process` merges it into the reply of the carrying connection with `writeUnpack`, which NESTS a
single packet as one element but SPLICES the elements of a Multi container. Model: XMT/RelaySplice.lean
on top of the batch model (C03) and the payload cipher. -/

/-- one packet queued for the tagged device — the current code nests it: the proxy's unpack loop
finds it, and the device's decryption returns exactly the packet queued, for every key and packet. -/
theorem relay_single_delivers (key devA : Bytes) (p : Packet.Packet) (hp : Packet.WF p) (hpl : Batch.Plain p) :
    RelaySplice.relay RelaySplice.currentArm key devA p.dev p = .ok [p] :=
  RelaySplice.single_relay key devA p hp hpl

/-- **two packets queued — the defect, on a kernel-checked witness** (two small packets, a 65-byte key
1..65): the current code splices the encrypted batch, the reply announces two elements, the proxy's
unpack loop fails with EOF (what the real proxy-side `receive` returns) and nothing is delivered;
nesting the same encrypted batch as ONE element delivers both packets. -/
theorem relay_splice_loses :
    Batch.writeUnpack (RelaySplice.emptyReply RelaySplice.devA)
      (RelaySplice.encryptFor RelaySplice.key65 (RelaySplice.container RelaySplice.devB [RelaySplice.p1, RelaySplice.p2]))
        = .ok RelaySplice.splicedReply ∧
    Flag.len RelaySplice.splicedReply.flags = 2 ∧
    RelaySplice.unpackRest 2 RelaySplice.splicedReply.payload = .error .eof ∧
    RelaySplice.unpack 2 RelaySplice.splicedReply.payload = .error .eof ∧
    RelaySplice.relay RelaySplice.currentArm RelaySplice.key65 RelaySplice.devA RelaySplice.devB
      (RelaySplice.container RelaySplice.devB [RelaySplice.p1, RelaySplice.p2]) = .error .eof ∧
    RelaySplice.relay RelaySplice.nestInto RelaySplice.key65 RelaySplice.devA RelaySplice.devB
      (RelaySplice.container RelaySplice.devB [RelaySplice.p1, RelaySplice.p2]) = .ok [RelaySplice.p1, RelaySplice.p2] :=
  RelaySplice.splice_loses_witness

/-- …and in general: whenever the first key byte is non-zero, whatever the spliced reply parses as (if
it parses at all) is not the batch that was queued — its first element's ID is the queued one XORed
with the key byte. -/
theorem relay_splice_never_delivers (k : UInt8) (ks : Bytes) (hk : k ≠ 0) (devA devB : Bytes) (p : Packet.Packet)
    (tl : List Packet.Packet) (hl : (p :: tl).length ≤ Facts.fragMax) (got : List Packet.Packet) (rest : Bytes)
    (h : RelaySplice.unpackRest
          (Flag.len (RelaySplice.spliceInto (RelaySplice.emptyReply devA)
            (RelaySplice.encryptFor (k :: ks) (RelaySplice.container devB (p :: tl)))).flags)
          (RelaySplice.spliceInto (RelaySplice.emptyReply devA)
            (RelaySplice.encryptFor (k :: ks) (RelaySplice.container devB (p :: tl)))).payload
        = .ok (got, rest)) :
    (∃ g gs, got = g :: gs ∧ g.id = k ^^^ p.id) ∧ got ≠ p :: tl :=
  RelaySplice.splice_never_delivers k ks hk devA devB p tl hl got rest h

/-- the repair shape: an encrypted batch nested as ONE element is delivered intact, for every key and
every non-empty batch of well-formed packets. -/
theorem relay_nest_delivers (key devA devB : Bytes) (ps : List Packet.Packet) (hps : ∀ p ∈ ps, Packet.WF p)
    (hne : ps ≠ []) (hl : ps.length ≤ Facts.fragMax) (hd : devB.length = Facts.idSize)
    (hz : devB.head? ≠ some 0) (hpay : (RelaySplice.elems ps).length ≤ Facts.maxSlice) :
    RelaySplice.relay RelaySplice.nestInto key devA devB (RelaySplice.container devB ps) = .ok ps :=
  RelaySplice.nest_relay key devA devB ps hps hne hl hd hz hpay

end XMT.Props.C06
