/-
  C06 — Both ends always hold the same session key; encryption is an exact involution.
  Property theorems only; model in XMT/Keys.lean, lemmas in XMT/Keys{Xor,Lemmas,Toy}.lean.

  The curve arithmetic is a parameter `c : Curve` with the hypotheses `c.WF` (Diffie–Hellman
  commutes, generated keys yield a secret, public keys have the array size and are not all zero).

  -- OPEN: the property as stated, for ALL fault sequences, is FALSE on this code: a lost reply to a
  -- re-key packet or to a (re-)registration hello desynchronises the two ends.  The negation is
  -- proved below on concrete witnesses (`replyLost_desync`, `replyLost_writeFail_permanent`,
  -- `rehello_replyLost_desync`, `helloLost_blocks_registration`; known findings), the part that
  -- holds is `synced_partial` (every history of completed / write-failed exchanges, re-keys,
  -- server-side drops and re-registrations).
  -- OPEN: channel (full duplex) mode: see the block "Per-connection key handling" at the end (false with a
  -- re-key inside the channel; proved without one); proxy / multi-device containers are not modelled.
-/
import XMT.KeysToy
import XMT.KeysPickWait
import XMT.RelaySplice
import XMT.KeysConnToy
namespace XMT.Props.C06
open XMT XMT.Keys

/-! ### The payload cipher -/

/-- `XorOp` / `KeyCrypt` never changes the length, for every key and value. -/
theorem xorOp_length (value key : Bytes) : (xorOp value key).length = value.length :=
  Keys.xorOp_length value key

/-- Applying the cipher twice with the same key restores the bytes — all key lengths, all value
lengths (shorter, equal, longer than the key; partial last block). -/
theorem xorOp_involutive (value key : Bytes) : xorOp (xorOp value key) key = value :=
  Keys.xorOp_involutive value key

/-- An empty key or an empty value is a no-op. -/
theorem xorOp_empty (value key : Bytes) (h : key = [] ∨ value = []) : xorOp value key = value := by
  apply Keys.xorOp_noop
  rcases h with h | h <;> simp [h]

/-- What one side encrypts the other side decrypts to the original, as soon as both hold the same
secret. -/
theorem decrypt_of_equal_share (k1 k2 : KeyPair) (h : k1.share = k2.share) (p : Bytes) :
    xorOp (xorOp p k1.share) k2.share = p := by
  rw [← h]; exact Keys.xorOp_involutive p _

/-! ### Agreement -/

/-- Registration handshake: afterwards BOTH ends hold the secret `v` copied over an all-zero
65-byte buffer — byte-identical for every length of `v` (shorter than the buffer: zero tail;
longer: truncated), and `v` is the same Diffie–Hellman value computed from either side. -/
theorem handshake_agree (c : Curve) (hc : c.WF) (b a info : Bytes)
    (hb : b.length = privSize) (ha : a.length = privSize) :
    ∃ v cl sk, c.dh b (c.pubOf a) = some v ∧ c.dh a (c.pubOf b) = some v ∧
      (step c (init c b) (.connect a info .ok)).client = some cl ∧
      (step c (init c b) (.connect a info .ok)).server.sess = some sk ∧
      cl.keys.share = copyInto (zeros shareSize) v ∧ sk.share = copyInto (zeros shareSize) v := by
  have hi := init_inv c hc b hb
  obtain ⟨v, h1, h2, e⟩ := connectStep_fresh c hc (init c b).server rfl a info ha hi.srv
  have hp : (init c b).server.keys.priv = b := by
    simp [init, zero_fill c hc b hb]
  rw [hp] at h1 h2
  refine ⟨v, ⟨⟨(init c b).server.keys.pub, a, copyInto (zeros shareSize) v⟩, none, none⟩,
    ⟨c.pubOf a, (init c b).server.keys.priv, copyInto (zeros shareSize) v⟩, h1, h2, ?_, ?_, rfl, rfl⟩
  · simp only [step]; rw [e]
  · simp only [step]; rw [e]

/-- A completed re-key of a synchronised pair: both ends copy the same new secret `v` over the
same previous buffer (so stale tail bytes of a short secret are equal on both sides), and the
reply of that very exchange — encrypted by the server with the conn-local OLD key, decrypted by the
client BEFORE it swaps — arrives intact. -/
theorem rekey_agree (c : Curve) (hc : c.WF) (s : State) (cl : Client) (sk : KeyPair)
    (a reply fresh : Bytes) (ha : a.length = privSize) (hinv : Inv c s)
    (hcl : s.client = some cl) (hsk : s.server.sess = some sk) :
    ∃ v cl' sk', c.dh s.server.keys.priv (c.pubOf a) = some v ∧
      (step c s (.xchg (.rekey a) reply fresh .ok)).client = some cl' ∧
      (step c s (.xchg (.rekey a) reply fresh .ok)).server.sess = some sk' ∧
      cl'.keys.share = copyInto cl.keys.share v ∧ sk'.share = copyInto sk.share v ∧
      cl'.keys.share = sk'.share ∧ cl'.next = none ∧
      (step c s (.xchg (.rekey a) reply fresh .ok)).obs = s.obs ++ [⟨false, reply, reply⟩] := by
  obtain ⟨v, h1, _, e⟩ := xchgStep_rekey_ok c hc cl s.server sk a reply fresh ha hinv.srv
    (hinv.cli cl hcl) hsk
  have hsh : cl.keys.share = sk.share := hinv.synced cl sk hcl hsk
  refine ⟨v, ⟨⟨cl.keys.pub, a, copyInto cl.keys.share v⟩, none, none⟩,
    { sk with pub := c.pubOf a, share := copyInto sk.share v }, h1, ?_, ?_, rfl, rfl, ?_, rfl, ?_⟩
  · simp only [step, hcl]; rw [e]
  · simp only [step, hcl]; rw [e]
  · simp only [hsh]
  · simp only [step, hcl]; rw [e]

/-- A re-key (or anything else) whose announcement was not delivered leaves the sender on the old
key with nothing queued, and the server untouched — for every state, no hypotheses. -/
theorem writeFail_reverts (c : Curve) (s : State) (cl : Client) (send : Send) (reply fresh : Bytes)
    (hcl : s.client = some cl) :
    step c s (.xchg send reply fresh .writeFail) =
      { s with client := some { cl with next := none, hello := none } } := by
  simp only [step, hcl]
  rw [xchgStep_writeFail]
  simp

/-- **Both ends hold the same key after every history without a lost reply** (`_partial`: the
excluded histories are the known findings below).  For every curve satisfying the hypotheses, every
server key, every sequence of connects, data exchanges, re-keys, failed writes, server-side drops
and the re-registrations they cause: the shared-secret buffers are byte-identical whenever both
ends exist, and every payload that reached a handler is the payload that was queued. -/
theorem synced_partial (c : Curve) (hc : c.WF) (b : Bytes) (hb : b.length = privSize)
    (evs : List Ev) (hev : ∀ e ∈ evs, e.Sized ∧ e.NoLoss) :
    Synced (run c (init c b) evs) ∧ Intact (run c (init c b) evs) := by
  have h := run_inv c hc evs (init c b) hev (init_inv c hc b hb)
  exact ⟨h.synced, h.intact⟩

/-! ### The lost-reply cases: negation on concrete witnesses (known findings) -/

def kS : Bytes := zeros 65 ++ [3]
def kA : Bytes := zeros 65 ++ [5]
def kB : Bytes := zeros 65 ++ [7]
def kC : Bytes := zeros 65 ++ [2]
def kD : Bytes := zeros 65 ++ [11]

/-- connect; re-key exchange whose reply is lost -/
def wRekeyLost : List Ev := [.connect kA [9, 9] .ok, .xchg (.rekey kB) [] kC .replyLost]
def xData : Ev := .xchg (.data [1, 2, 3]) [4, 5, 6] kC .ok

set_option maxRecDepth 100000 in
/-- After "re-key written, reply lost" the server is on the new key and the client on the old one;
the next exchange is corrupted in both directions; after it the keys are equal again. -/
theorem replyLost_desync :
    ¬ Synced (run toy (init toy kS) wRekeyLost) ∧
    ¬ Intact (run toy (init toy kS) (wRekeyLost ++ [xData])) ∧
    Synced (run toy (init toy kS) (wRekeyLost ++ [xData])) := by
  refine ⟨?_, ?_, ?_⟩
  · rw [← syncedB_iff]; decide
  · rw [← intactB_iff]; decide
  · rw [← syncedB_iff]; decide

/-- "The announcement was written — no error reached the sender — but the server never received it"
(the connection died after the kernel accepted the bytes): the client side of a reply-lost exchange,
the server untouched. Not a constructor of `Fault`; the end-to-end harness produces it as fault `q`. -/
def xchgReqLost (c : Curve) (s : State) (send : Send) (fresh : Bytes) : State :=
  { step c s (.xchg send [] fresh .replyLost) with server := s.server, obs := s.obs }

set_option maxRecDepth 100000 in
/-- **The mirror image of `replyLost_desync`** (known finding `requestLost:rekey`): after a re-key
whose announcement was written but never reached the server both ends still agree — the client is on
the old key, the new pair stays queued — but the NEXT successful exchange makes the client swap to
the pair the server never saw: from then on the secrets differ and payloads are corrupted. So the
clause "a re-key whose announcement was not delivered leaves the sender on the old key" holds only
for a failure the sender is told about (`writeFail_reverts`). Same repair as the reply-lost cases: an
acknowledged re-key. -/
theorem requestLost_desync :
    Synced (xchgReqLost toy (run toy (init toy kS) [.connect kA [9, 9] .ok]) (.rekey kB) kC) ∧
    ¬ Synced (run toy (xchgReqLost toy (run toy (init toy kS) [.connect kA [9, 9] .ok]) (.rekey kB) kC) [xData]) ∧
    ¬ Intact (run toy (xchgReqLost toy (run toy (init toy kS) [.connect kA [9, 9] .ok]) (.rekey kB) kC) [xData, xData]) := by
  refine ⟨?_, ?_, ?_⟩
  · rw [← syncedB_iff]; decide
  · rw [← syncedB_iff]; decide
  · rw [← intactB_iff]; decide

set_option maxRecDepth 100000 in
/-- If the exchange after the lost reply fails at the write, `keyCheckRevert` drops the queued
KeyPair: the split is permanent (later exchanges do not heal it). -/
theorem replyLost_writeFail_permanent :
    ¬ Synced (run toy (init toy kS)
      (wRekeyLost ++ [.xchg (.data [1]) [] kC .writeFail, xData, xData, xData])) := by
  rw [← syncedB_iff]; decide

set_option maxRecDepth 100000 in
/-- Re-registration (server dropped the Session → SvRegister → queued hello) whose hello reply is
lost: the server holds a real secret, the client an all-zero one; neither later traffic nor a later
re-key repairs it. -/
theorem rehello_replyLost_desync :
    ¬ Synced (run toy (init toy kS)
      [.connect kA [9, 9] .ok, .drop, .xchg (.data []) [] kC .ok, .xchg (.data []) [] kD .replyLost,
       xData, .xchg (.rekey kB) [] kD .ok, xData]) ∧
    ¬ Intact (run toy (init toy kS)
      [.connect kA [9, 9] .ok, .drop, .xchg (.data []) [] kC .ok, .xchg (.data []) [] kD .replyLost,
       xData]) := by
  refine ⟨?_, ?_⟩
  · rw [← syncedB_iff]; decide
  · rw [← intactB_iff]; decide

set_option maxRecDepth 100000 in
/-- First registration whose reply is lost: the server keeps the Session; a new `Connect` of the
same device is then refused (no client comes into being) although the same `Connect` against a
server that does not know the device succeeds. -/
theorem helloLost_blocks_registration :
    (run toy (init toy kS) [.connect kA [9, 9] .replyLost, .connect kB [9, 9] .ok]).client = none ∧
    (run toy (init toy kS) [.connect kB [9, 9] .ok]).client.isSome = true := by
  refine ⟨?_, ?_⟩ <;> decide

/-! ### Start-up order (c2/server.go) -/

/-- The source generates `Server.Keys` before `go s.listen()` (regenerated fact). -/
theorem keys_before_listen : Facts.c06KeysBeforeListen = true := by decide

/-- The conn-local key copy is taken before `keyCryptAndUpdate` (regenerated fact; the model's
`talk` relies on this order). -/
theorem conn_copy_before_update : Facts.c06ConnCopyBeforeUpdate = true := by decide

/-- With the repaired `ListenContext`, for EVERY schedule of the Server event loop against the
Listener serving the first hello: if the registration completes, both ends hold the same secret —
and it does complete as soon as the Listener ran its two steps. -/
theorem boot_agree (c : Curve) (hc : c.WF) (b a : Bytes) (hb : b.length = privSize)
    (ha : a.length = privSize) (sched : List Tid) :
    (∀ r, bootRun c Facts.c06KeysBeforeListen b a sched = some r → r.1 = r.2) ∧
    (2 ≤ (sched.filter (· = .lis)).length →
      (bootRun c Facts.c06KeysBeforeListen b a sched).isSome = true) := by
  rw [keys_before_listen]
  obtain ⟨v, hv⟩ := hc.total b a hb ha
  have hv2 : c.dh a (c.pubOf b) = some v := by rw [hc.comm]; exact hv
  have hz := zero_fill c hc a ha
  have hzb := zero_fill c hc b hb
  have hgood0 : BootGood c b (c.pubOf a) v (bootInit c true b) := by
    refine ⟨?_, Or.inl rfl, Or.inl rfl⟩
    simp [bootInit, hzb]
  have hgood := boot_fold_good c hc b (c.pubOf a) v hb (hc.pubLen a) hv sched _ hgood0
  have hss := sessionSync_fresh c ⟨c.pubOf a, a, zeros shareSize⟩ (c.pubOf b) v false rfl
    (hc.pubLen a) (hc.pubLen b) (hc.pubNonzero b) hv2
  obtain ⟨_, hs, hr⟩ := hgood
  constructor
  · intro r hrun
    simp only [bootRun, hz] at hrun
    rcases hs with hs | hs <;> rcases hr with hr | hr <;> simp [hs, hr, hss] at hrun
    rw [← hrun]
  · intro hlen
    -- two Listener steps have run: the Session exists and the reply was sent
    have hcount : ∀ (sched : List Tid) (s : Boot),
        (2 ≤ (sched.filter (· = .lis)).length ∨
         (1 ≤ (sched.filter (· = .lis)).length ∧ s.sess.isSome) ∨
         (s.sess.isSome ∧ s.reply.isSome)) →
        ((sched.foldl (bootStep c b (c.pubOf a)) s).sess.isSome ∧
         (sched.foldl (bootStep c b (c.pubOf a)) s).reply.isSome) := by
      intro sched
      induction sched with
      | nil => intro s h; simpa using h
      | cons t ts ih =>
        intro s h
        apply ih
        obtain ⟨keys, ld, sess, reply⟩ := s
        cases t with
        | loop =>
          cases ld <;> simpa [bootStep] using h
        | lis =>
          cases sess with
          | none =>
            simp [bootStep] at h ⊢
            omega
          | some sk =>
            cases reply <;> simp [bootStep]
    have := hcount sched (bootInit c true b) (Or.inl hlen)
    simp only [bootRun, hz]
    rcases hs with hs | hs
    · simp [hs] at this
    · rcases hr with hr | hr
      · simp [hr] at this
      · simp [hs, hr, hss]

set_option maxRecDepth 100000 in
/-- Without the repair (KeyPair generated by the event loop) there are schedules on which the first
registration ends with different secrets, or fails. -/
theorem boot_race_unfixed :
    (bootRun toy false kS kA [.lis, .loop, .lis]).map (fun r => decide (r.1 = r.2)) = some false ∧
    bootRun toy false kS kA [.lis, .lis, .loop] = none ∧
    (bootRun toy false kS kA [.loop, .lis, .lis]).map (fun r => decide (r.1 = r.2)) = some true := by
  decide

/-! ### Non-vacuity -/

/-- The curve hypotheses are satisfiable. -/
example : toy.WF := toy_wf
-- The witness keys have the private-key size.
set_option maxRecDepth 100000 in
example : kS.length = privSize ∧ kA.length = privSize ∧ kB.length = privSize := by decide
-- A history with a re-key, a failed write, a drop and the re-registration meets the hypotheses of
-- `synced_partial`, really re-keys (the secret changes) and delivers payloads.
set_option maxRecDepth 100000 in
example :
    let evs : List Ev := [.connect kA [9] .ok, xData, .xchg (.rekey kB) [7, 7] kC .ok,
      .xchg (.rekey kD) [] kC .writeFail, xData, .drop, .xchg (.data [1]) [] kC .ok,
      .xchg (.data []) [] kC .ok, xData]
    (∀ e ∈ evs, e.Sized ∧ e.NoLoss) ∧
    ((run toy (init toy kS) (evs.take 2)).client.map (·.keys.share)) ≠
      ((run toy (init toy kS) (evs.take 3)).client.map (·.keys.share)) ∧
    (run toy (init toy kS) evs).obs.length = 7 ∧
    (run toy (init toy kS) evs).server.sess.isSome = true := by
  decide
/-- `xorOp` on a value longer than the key with a partial last block. -/
example : xorOp [1, 2, 3, 4, 5] [255, 1] = [254, 3, 252, 5, 250] := by decide
/-- a secret shorter than the buffer keeps the stale tail -/
example : copyInto [9, 9, 9, 9] [1, 2] = [1, 2, 9, 9] ∧ copyInto [9, 9] [1, 2, 3] = [1, 2] := by decide

/-- **The Channel-mode helper announces what it queues** (`(*Session).pickWait`): the helper thread
never touches the key in use; a KeyPair is queued only together with the packet that announces it
(flagged as key material, carrying that pair's public key); an abandoned helper — whose packet would
never be sent — changes nothing. So "a re-key whose announcement was not delivered leaves the sender
on the old key" cannot be broken from this thread: there is no queued pair without an announcement
in the send queue. Compared with the real function on every run (op `pickwait`). -/
theorem pickWait_announces_what_it_queues (c : Curve) (cl : Client) (abandoned : Bool) (roll : Option Bytes) :
    (pickWait c cl abandoned roll).2.keys = cl.keys ∧
    (abandoned = true → pickWait c cl abandoned roll = (none, cl)) ∧
    ((pickWait c cl abandoned roll).2.next ≠ cl.next →
      ∃ p v, (pickWait c cl abandoned roll).1 = some p ∧ p.crypt = true ∧
        (pickWait c cl abandoned roll).2.next = some v ∧ p.payload = v.pub) :=
  let h := pickWait_spec c cl abandoned roll
  ⟨h.1, h.2.2.1, h.2.2.2⟩

/-! ## a payload that rides on another device's connection (tag relay): known finding
`relaykeys:batch-spliced-after-encryption`

`conn.resolve` encrypts the tagged device's next transmission with that device's key and
`conn.process` merges it into the reply of the carrying connection with `writeUnpack`, which NESTS a
single packet as one element but SPLICES the elements of a Multi container. Model: XMT/RelaySplice.lean
on top of the batch model (C03) and the payload cipher. -/

/-- one packet queued for the tagged device — the current code nests it: the proxy's unpack loop
finds it, and the device's decryption returns exactly the packet queued, for every key and packet. -/
theorem relay_single_delivers (key devA : Bytes) (p : Packet.Packet) (hp : Packet.WF p) (hpl : Batch.Plain p) :
    RelaySplice.relay RelaySplice.currentArm key devA p.dev p = .ok [p] :=
  RelaySplice.single_relay key devA p hp hpl

/-- **two packets queued — the defect, on a kernel-checked witness** (two small packets, a 65-byte key
1..65): the current code splices the encrypted batch, the reply announces two elements, the proxy's
unpack loop fails with EOF (what the real proxy-side `receive` returns) and nothing is delivered;
nesting the same encrypted batch as ONE element delivers both packets. -/
theorem relay_splice_loses :
    Batch.writeUnpack (RelaySplice.emptyReply RelaySplice.devA)
      (RelaySplice.encryptFor RelaySplice.key65 (RelaySplice.container RelaySplice.devB [RelaySplice.p1, RelaySplice.p2]))
        = .ok RelaySplice.splicedReply ∧
    Flag.len RelaySplice.splicedReply.flags = 2 ∧
    RelaySplice.unpackRest 2 RelaySplice.splicedReply.payload = .error .eof ∧
    RelaySplice.unpack 2 RelaySplice.splicedReply.payload = .error .eof ∧
    RelaySplice.relay RelaySplice.currentArm RelaySplice.key65 RelaySplice.devA RelaySplice.devB
      (RelaySplice.container RelaySplice.devB [RelaySplice.p1, RelaySplice.p2]) = .error .eof ∧
    RelaySplice.relay RelaySplice.nestInto RelaySplice.key65 RelaySplice.devA RelaySplice.devB
      (RelaySplice.container RelaySplice.devB [RelaySplice.p1, RelaySplice.p2]) = .ok [RelaySplice.p1, RelaySplice.p2] :=
  RelaySplice.splice_loses_witness

/-- …and in general: whenever the first key byte is non-zero, whatever the spliced reply parses as (if
it parses at all) is not the batch that was queued — its first element's ID is the queued one XORed
with the key byte. -/
theorem relay_splice_never_delivers (k : UInt8) (ks : Bytes) (hk : k ≠ 0) (devA devB : Bytes) (p : Packet.Packet)
    (tl : List Packet.Packet) (hl : (p :: tl).length ≤ Facts.fragMax) (got : List Packet.Packet) (rest : Bytes)
    (h : RelaySplice.unpackRest
          (Flag.len (RelaySplice.spliceInto (RelaySplice.emptyReply devA)
            (RelaySplice.encryptFor (k :: ks) (RelaySplice.container devB (p :: tl)))).flags)
          (RelaySplice.spliceInto (RelaySplice.emptyReply devA)
            (RelaySplice.encryptFor (k :: ks) (RelaySplice.container devB (p :: tl)))).payload
        = .ok (got, rest)) :
    (∃ g gs, got = g :: gs ∧ g.id = k ^^^ p.id) ∧ got ≠ p :: tl :=
  RelaySplice.splice_never_delivers k ks hk devA devB p tl hl got rest h

/-- the repair shape: an encrypted batch nested as ONE element is delivered intact, for every key and
every non-empty batch of well-formed packets. -/
theorem relay_nest_delivers (key devA devB : Bytes) (ps : List Packet.Packet) (hps : ∀ p ∈ ps, Packet.WF p)
    (hne : ps ≠ []) (hl : ps.length ≤ Facts.fragMax) (hd : devB.length = Facts.idSize)
    (hz : devB.head? ≠ some 0) (hpay : (RelaySplice.elems ps).length ≤ Facts.maxSlice) :
    RelaySplice.relay RelaySplice.nestInto key devA devB (RelaySplice.container devB ps) = .ok ps :=
  RelaySplice.nest_relay key devA devB ps hps hne hl hd hz hpay


/-! ## Per-connection key handling (extension): `conn.keys`, `Listener.resolve`, `handle`, channels

Model: XMT/KeysConn.lean (`Conn`, `listenerResolve`, `talkConn`, `pollUses`, `chanStep`), lemmas in
XMT/KeysConnLemmas.lean, toy-curve witnesses in XMT/KeysConnToy.lean.  A `KeyUse` records, for one
packet, the share handed to the sender's `KeyCrypt` (`enc`), the share handed to the receiver's
(`dec`), the buffer before and after; `Agree` = same share and the buffer restored.

  -- OPEN: "every packet of a channel is decrypted with the key it was encrypted with, for every
  -- sequence of channel events" is FALSE on this code as soon as a re-key is announced inside the
  -- channel (`chan_rekey_desync`, known finding chan:payload-after-rekey); proved part:
  -- `chan_no_rekey_agree`, `chan_rekey_partial`, and a channel opened BY the re-key poll starts on
  -- one key (`chan_open_rekey_good`; repaired defect chan:opened-by-rekey, `chan_opened_by_rekey_desync`
  -- shows what happened without the renewal).
  -- OPEN: a reply that carries packets of tagged devices (c.add non-empty: a Multi|MultiDevice
  -- container that `handle` encrypts a second time as a whole) and MultiDevice requests
  -- (`processMultiple`) are not modelled; tags that resolve to nothing are (`poll_tagged_key_agree`).
-/

/-- **(b) Every conn built by `Listener.resolve` carries the Session's key** — on the path without
Tags and on the path with Tags (whatever the tags resolve to, also when the tag loop fails with
`ErrMalformedTag`), and names that Session as its host. -/
theorem resolve_conn_carries_session_key (hs : List Host) (s : Host) (tags : List Nat) :
    (listenerResolve hs s tags).1.keys = s.keys ∧ (listenerResolve hs s tags).1.host = s.id :=
  listenerResolve_keys hs s tags

/-- Tie of (b) to the source (regenerated fact): `(*Listener).resolve` contains two `conn` literals
and BOTH initialise `keys` with `s.keys`; no statement of the function assigns `keys` otherwise. -/
theorem resolve_literals_copy_session_key : Facts.c06ResolveConnKeys = ["s.keys", "s.keys"] := by decide

/-- The conn that served the opening poll is the conn of the channel; its key copy is renewed from the
Session at the top of `(*conn).start` (regenerated fact: an assignment to a `keys` field in `handle` /
`(*conn).start`; repaired defect `chan:opened-by-rekey`).  The channel model of the code is
`chanOpen _ Facts.c06ConnStartRefresh`. -/
theorem conn_start_renews_copy : Facts.c06ConnStartRefresh = true := by decide

/-- **(a) In a poll the reply is encrypted with the key the client decrypts it with — for every
history** of connects, data polls, re-key polls, failed writes, server-side drops and
re-registrations (no lost reply): every `KeyCrypt` pair of the history, requests and replies, the
re-key poll included, used one share on both sides and restored the buffer. -/
theorem poll_key_agree (c : Curve) (hc : c.WF) (b : Bytes) (hb : b.length = privSize)
    (evs : List Ev) (hev : ∀ e ∈ evs, e.Sized ∧ e.NoLoss) :
    ∀ u ∈ histUses c false (init c b) evs, u.enc = u.dec ∧ u.got = u.sent :=
  histUses_agree c hc evs (init c b) hev (init_inv c hc b hb)

/-- …and the same for a poll whose request carries Tags (any list; tags that name no Session are
legal and skipped): both `KeyCrypt` pairs agree whenever the two ends held the same secret before. -/
theorem poll_tagged_key_agree (c : Curve) (tags : List Nat) (cl : Client) (srv : Server) (sk : KeyPair)
    (send : Send) (reply : Bytes) (f : Fault) (hs : srv.sess = some sk) (hk : cl.keys.share = sk.share) :
    ∀ u ∈ pollUses c false tags cl srv send reply f, u.enc = u.dec ∧ u.got = u.sent :=
  pollUses_agree c tags cl srv sk send reply f hs hk

/-- The explicit-conn poll IS the poll of the history machine (`Keys.talk`, registered arm). -/
theorem talkConn_is_talk (c : Curve) (srv : Server) (sk : KeyPair) (hs : srv.sess = some sk) (w : Pkt)
    (reply : Bytes) :
    ∃ t, talkConn c false [] sk w reply = some t ∧
      talk c srv w reply = ({ srv with sess := some t.1 }, some t.2.1, t.2.2.1) :=
  talkConn_talk c srv sk hs w reply

/-- **The conn-local copy is needed (guard-needed).**  In the re-key poll of a synchronised pair the
Session's live key after `talk` is the NEW secret while the client decrypts the reply BEFORE it
swaps: the code (`live = false`) encrypts the reply with the conn's copy = the client's key; the
variant that uses the live Session key (`live = true`) encrypts it with `copyInto old v`, which
equals the client's key only if the new secret happens to reproduce the old array. -/
theorem poll_reply_live_key_breaks (c : Curve) (live : Bool) (tags : List Nat) (cl : Client) (sk : KeyPair)
    (a v reply : Bytes) (hk : sk.pub.length = pubSize) (hpl : (c.pubOf a).length = pubSize)
    (hv : c.dh sk.priv (c.pubOf a) = some v) (hz : KeyPair.zero.fill c a = ⟨c.pubOf a, a, zeros shareSize⟩)
    (hn : cl.next = none) (hh : cl.hello = none) (hsh : cl.keys.share = sk.share)
    (t : KeyPair × Pkt × Option Bytes × Conn)
    (ht : talkConn c live tags sk ((clientNext c cl (.rekey a)).1.encryptedWith cl.keys.share) reply = some t) :
    t.1.share = copyInto sk.share v ∧ t.2.2.2.keys.share = cl.keys.share ∧
    t.2.1.payload = xorOp reply (if live then copyInto sk.share v else cl.keys.share) := by
  have e : (clientNext c cl (.rekey a)).1.encryptedWith cl.keys.share
      = { id := .data, crypt := true, payload := xorOp (c.pubOf a) sk.share } := by
    simp [clientNext, hn, hh, hz, Pkt.encryptedWith, hsh]
  rw [e] at ht
  have := talkConn_rekey c live tags sk (c.pubOf a) v reply hk hpl hv t ht
  rw [hsh]; exact this

set_option maxRecDepth 100000 in
/-- …on a kernel-checked witness (toy curve, reply `[1,2,3]`): with the conn copy both pairs of the
re-key poll agree — also with Tags —; with the live key the reply does not decrypt; a zero tag makes
`resolve` fail before anything is decrypted. -/
theorem poll_reply_live_key_breaks_witness :
    pollWitness false [] [1, 2, 3] = some [true, true] ∧
    pollWitness true [] [1, 2, 3] = some [true, false] ∧
    pollWitness false [77, 5] [1, 2, 3] = some [true, true] ∧
    pollWitness false [77, 0] [1, 2, 3] = some [] := by
  refine ⟨?_, ?_, ?_, ?_⟩ <;> decide

/-- **(c) A channel without a re-key keeps every packet on one key**: from a channel opened by a poll
of a synchronised pair, for EVERY interleaving of client writes (data / keep-alive), server reads,
server writes, client reads and failed writes, every `KeyCrypt` pair — both directions, packets in
flight included — used the same share on both sides and restored the buffer. -/
theorem chan_no_rekey_agree (c : Curve) (s : Chan) (hs : ChanGood s) (evs : List ChanEv)
    (hev : ∀ e ∈ evs, e.NoRekey) :
    ∀ u ∈ (chanRun c s evs).uses, u.enc = u.dec ∧ u.got = u.sent :=
  (chanRun_inv c s.sess.share evs s hev hs.inv).uses

/-- A channel opened by a DATA poll of a synchronised pair is `ChanGood` (hypothesis of (c)). -/
theorem chan_open_good (c : Curve) (refresh : Bool) (cl : Client) (sk : KeyPair) (p reply : Bytes)
    (hn : cl.next = none) (hh : cl.hello = none) (hsh : cl.keys.share = sk.share) :
    ∃ s, chanOpen c refresh cl sk (.data p) reply = some s ∧ ChanGood s := by
  rw [chanOpen_eq]
  refine ⟨_, rfl, ?_⟩
  cases refresh <;>
    simp [ChanGood, clientNext, hh, hn, checkSync, talkBody, updateIfCrypt, hsh, Pkt.encryptedWith]

set_option maxRecDepth 100000 in
/-- **(d) A re-key inside a running channel — the negation, kernel-checked** (known finding
`chan:payload-after-rekey`).  Channel opened by a data poll (it is `ChanGood`), then: the client
announces a re-key, the server reads it, the server sends `[1,2,3]`, the client reads it, the client
sends `[4,5,6]`, the server reads it.  Afterwards the two SESSIONS agree on the new secret, the conn's
copy does not; the announcement itself was decrypted with the key it was encrypted with, the two
payloads after it were not.  Second witness: a server packet IN FLIGHT while the client swaps is lost
even though the server has not even read the announcement (conn copy = Session key): using the live
Session key on the server would not repair it. -/
theorem chan_rekey_desync :
    chanWitness false (.data []) [.cSend (.rekey wB) false, .sRecv, .sSend [1, 2, 3] false, .cRecv,
      .cSend (.data [4, 5, 6]) false, .sRecv] = some (true, true, false, [true, false, false]) ∧
    chanWitness false (.data []) [.sSend [1, 2, 3] false, .cSend (.rekey wB) false, .cRecv]
      = some (true, false, true, [false]) := by
  refine ⟨?_, ?_⟩ <;> decide

/-- **A channel opened BY the re-key poll starts on one key** (the repaired code, `refresh = true`):
the client's next packet is a re-key announcement and `SetChannel(true)` was called, so the
announcement carries the Channel flag; the reply still uses the old key (`poll_key_agree`), both
Sessions swap, and the conn renews its copy from the Session before the channel runs: the channel is
`ChanGood` — hypothesis of `chan_no_rekey_agree` — on the NEW secret. -/
theorem chan_open_rekey_good (c : Curve) (cl : Client) (sk : KeyPair) (a v reply : Bytes)
    (hk : sk.pub.length = pubSize) (hpl : (c.pubOf a).length = pubSize)
    (hv : c.dh sk.priv (c.pubOf a) = some v) (hv2 : c.dh a cl.keys.pub = some v)
    (hal : cl.keys.priv.length = a.length)
    (hz : KeyPair.zero.fill c a = ⟨c.pubOf a, a, zeros shareSize⟩)
    (hn : cl.next = none) (hh : cl.hello = none) (hsh : cl.keys.share = sk.share) :
    ∃ s, chanOpen c true cl sk (.rekey a) reply = some s ∧ ChanGood s ∧
      s.sess.share = copyInto sk.share v := by
  have h0 : (c.pubOf a).length ≠ 0 := by rw [hpl]; exact pubSize_pos
  have hfp := fillPrivate_some c cl.keys a v hv2 hal
  rw [chanOpen_eq]
  refine ⟨_, rfl, ?_, ?_⟩
  · simp [ChanGood, clientNext, hh, hn, hz, checkSync, hfp, talkBody, updateIfCrypt, hsh,
      xorOp_involutive, h0, regenerate_pub c sk (c.pubOf a) v hk hpl hv, Pkt.encryptedWith]
  · simp [clientNext, hh, hn, hz, talkBody, updateIfCrypt, hsh,
      xorOp_involutive, h0, regenerate_pub c sk (c.pubOf a) v hk hpl hv, Pkt.encryptedWith]

set_option maxRecDepth 100000 in
/-- **…and the renewal is needed (guard-needed; repaired defect `chan:opened-by-rekey`)**, on a
kernel-checked witness: without it (`refresh = false`, the code before the repair) the channel opened
by the re-key poll runs on the conn built before `keyCryptAndUpdate`: it is NOT `ChanGood`, both
Sessions agree, and every packet of the channel, in both directions, is decrypted with a key it was
not encrypted with; with the renewal the same run agrees throughout. -/
theorem chan_opened_by_rekey_desync :
    chanWitness false (.rekey wB) [.sSend [1, 2, 3] false, .cRecv, .cSend (.data [4, 5, 6]) false, .sRecv]
      = some (false, true, false, [false, false]) ∧
    chanWitness true (.rekey wB) [.sSend [1, 2, 3] false, .cRecv, .cSend (.data [4, 5, 6]) false, .sRecv]
      = some (true, true, true, [true, true]) := by
  refine ⟨?_, ?_⟩ <;> decide

/-- **The part of the channel statement that holds with a re-key** (`_partial`): up to and including
the server's receipt of the announcement.  From a `ChanGood` channel, after any events without a
re-key, the client's write of ANYTHING (a re-key announcement included — the client swaps only after
the write), followed by server reads only: every `KeyCrypt` pair agrees.  What is excluded — any
client read or later client write after the swap, any server write after the announcement — is
exactly what `chan_rekey_desync` shows to fail. -/
theorem chan_rekey_partial (c : Curve) (s : Chan) (hs : ChanGood s) (pre post : List ChanEv)
    (send : Send) (fail : Bool) (hpre : ∀ e ∈ pre, e.NoRekey) (hpost : ∀ e ∈ post, e.IsSRecv) :
    ∀ u ∈ (chanRun c s (pre ++ [.cSend send fail] ++ post)).uses, u.enc = u.dec ∧ u.got = u.sent := by
  rw [chanRun_append, chanRun_append]
  have h1 := chanRun_inv c s.sess.share pre s hpre hs.inv
  have h2 := chanStep_cSend_invS c s.sess.share (chanRun c s pre) send fail h1
  exact (chanRun_sRecv_invS c s.sess.share post _ hpost h2).uses

/-! ### The copy of the secret into the fixed array (`fillShared`) -/

/-- **Both ends compute the same 65-byte array for every secret length** (0, shorter than the array,
exactly 65, the 66 bytes of half of all P-521 points — cut to 65 —, anything longer) whenever they
start from the same contents, and their arrays keep the array's length. -/
theorem share_copy_agree (prev v : Bytes) (k1 k2 : KeyPair) (c1 c2 : Curve) (n1 m1 n2 m2 : Bytes)
    (h1 : c1.dh m1 n1 = some v) (h2 : c2.dh m2 n2 = some v) (hp1 : k1.share = prev) (hp2 : k2.share = prev) :
    (k1.fillShared c1 n1 m1).1.share = (k2.fillShared c2 n2 m2).1.share ∧
    (k1.fillShared c1 n1 m1).1.share.length = prev.length := by
  rw [fillShared_some c1 k1 n1 m1 v h1, fillShared_some c2 k2 n2 m2 v h2, hp1, hp2]
  exact ⟨rfl, by simp⟩

/-- **…and the exact condition under which they do not**: from different previous contents (equal
length) the two arrays are equal iff the parts beyond the secret's length were equal — `copy` does not
clear the tail; a secret at least as long as the array hides every difference. -/
theorem share_copy_differs_iff (c1 c2 : Curve) (k1 k2 : KeyPair) (n1 m1 n2 m2 v : Bytes)
    (h1 : c1.dh m1 n1 = some v) (h2 : c2.dh m2 n2 = some v) (hl : k1.share.length = k2.share.length) :
    ((k1.fillShared c1 n1 m1).1.share = (k2.fillShared c2 n2 m2).1.share ↔
      k1.share.drop v.length = k2.share.drop v.length) ∧
    (k1.share.length ≤ v.length → (k1.fillShared c1 n1 m1).1.share = (k2.fillShared c2 n2 m2).1.share) := by
  refine ⟨fillShared_agree_iff c1 c2 k1 k2 n1 m1 n2 m2 v h1 h2 hl, fun hle => ?_⟩
  rw [fillShared_agree_iff c1 c2 k1 k2 n1 m1 n2 m2 v h1 h2 hl,
    List.drop_eq_nil_of_le hle, List.drop_eq_nil_of_le (hl ▸ hle)]

/-- Non-vacuity of the tail condition: a 2-byte secret over arrays that differ only in the stale
tail (derive-in-place over an old secret vs derive into a fresh zero array) — the arrays differ; with
equal tails, or a secret that covers the array, they agree. -/
example : copyInto [9, 9, 9, 7] [1, 2] ≠ copyInto [0, 0, 0, 0] [1, 2] ∧
    copyInto [9, 9, 0, 0] [1, 2] = copyInto [0, 0, 0, 0] [1, 2] ∧
    copyInto [9, 9, 9, 7] [1, 2, 3, 4, 5] = copyInto [0, 0, 0, 0] [1, 2, 3, 4, 5] := by decide
/-- Non-vacuity of (b): a conn built with Tags — one unknown, one naming a Session with a packet
queued, a duplicate — carries the host's key; the tagged packet is encrypted with the TAGGED
Session's key. -/
example :
    let h : Host := { id := 1, keys := ⟨[], [], [7, 7]⟩ }
    let t : Host := { id := 5, keys := ⟨[], [], [1, 2]⟩, queue := some [16, 16, 16] }
    (listenerResolve [h, t] h [9, 5, 5]).1 =
      { host := 1, keys := ⟨[], [], [7, 7]⟩, add := [(5, [17, 18, 17])], subs := [(5, true)] } ∧
    (listenerResolve [h, t] h [5, 0]).2.2 = false ∧ (listenerResolve [h, t] h [5, 0]).1.keys = h.keys := by
  decide
set_option maxRecDepth 100000 in
/-- Non-vacuity of (c): the toy channel opened by a data poll is `ChanGood`, and a run without a
re-key has uses to talk about (3 of them, all agreeing). -/
example : chanWitness false (.data []) [.sSend [1, 2, 3] false, .cSend (.data [4]) false, .cRecv, .sRecv,
    .cSend (.data []) false, .sRecv] = some (true, true, true, [true, true, true]) := by decide
set_option maxRecDepth 100000 in
/-- Non-vacuity of (a): a history with a re-key poll has six `KeyCrypt` pairs (request and reply of
three polls), and the hypotheses of `poll_key_agree` hold of it. -/
example : (∀ e ∈ [Ev.connect kA [9] .ok, xData, .xchg (.rekey kB) [7, 7] kC .ok, xData], e.Sized ∧ e.NoLoss) := by
  decide
set_option maxRecDepth 100000 in
example : (histUses toy false (init toy kS) [.connect kA [9] .ok, xData, .xchg (.rekey kB) [7, 7] kC .ok, xData]).length = 6 := by
  decide

end XMT.Props.C06
