/-
  C07 — Every wrapper stack and transform is lossless for every payload.
  Property theorems only; models in XMT/{Wrap,Cbk,Dns}.lean, lemmas in XMT/{Wrap,Cbk}Lemmas.lean.

  Scope notes (from an adversarial review of these statements, see DESIGN.md Appendix B.5):
  * zlib, gzip and the AES block function are PARAMETERS: `stack_roundtrip` and `sendrecv` take
    their round-trip laws (`LGood`) as hypotheses. Since session 3 encoding/hex and encoding/base64
    are Lean models (XMT/HexCodec.lean, XMT/B64Codec.lean) with proved round trips
    (`hex_roundtrip`, `base64_roundtrip`), so that `stack_roundtrip_concrete` / `sendrecv_concrete`
    (end of this file) have no assumed layer for stacks of XOR / CBK / Hex / Base64. The real codecs
    are exercised by the direct oracles on every run.
  * `Layer.dec` is whole-stream: "however the reads are chunked" is proved for CBK
    (`cbk_stream_chunked`) and holds for CFB byte by byte; for the parameter layers it is part of the
    assumed law.
  * `sendrecv` / `sendrecv_nowrap` are composition theorems; their hypotheses are discharged by C01
    (codec), `dns_roundtrip`, `b64shift_roundtrip`, `cbk_stream`, `xor_lossless` - the instantiation is
    not spelled out as one closed corollary.
  * `Dns.read` (XMT/Dns.lean) is only ever applied to what `Dns.write` produced; on malformed
    messages it still shows the outcomes of the reader before its repair (index panics). The reader
    on hostile bytes is the separate model XMT/DecodeDns.lean (C04), tied to the repaired code.
    Since session 3 the two reader models are proved to succeed on the same inputs with the same
    payload (`dns_reader_models_agree`, `dns_reader_models_fail_together`).
  * `cbk_block` / `cbk_shuffle_inverse` also cover `A = 0`, where Go's `i % e.A` would divide by zero:
    unreachable through `newSource` (forces `A` non-zero), see DESIGN B.4.
-/
import XMT.WrapLemmas
import XMT.CbkLemmas
import XMT.CbkStream
import XMT.DnsLemmas
import XMT.DnsRoundtrip
import XMT.HexLemmas
import XMT.B64Lemmas
import XMT.DnsAgree
namespace XMT.Props.C07
open XMT XMT.Wrap

/-! ## Stack composition (c2/cfg/profile.go MultiWrapper.Wrap / Unwrap / stackCloser) -/

/-- **Stack order theorem, any depth.** If every wrapper of the stack is lossless on its own
(`LGood`: for every chunking of the writes its reader returns the concatenation, and a repeated
`Close` writes nothing), then what `MultiWrapper.Unwrap` reads from the bytes that
`MultiWrapper.Wrap` + `Close` put into the sink is exactly what was written — for every list of
wrappers `m` (any depth, any order) and every chunking `ws` of the writes.  The model follows the
two `for x := len(m)-1; x >= 0; x--` loops and `stackCloser.Close` literally, including the second
`Close` that inner writers receive from layers that close their underlying writer. -/
theorem stack_roundtrip (m : List Layer) (h : ∀ L ∈ m, LGood L) (ws : List Bytes) :
    multiUnwrap m ((multiWrap m sink).run ws) = some ws.flatten := by
  obtain ⟨_, _, hr⟩ := multiWrap_good m h
  exact (hr ws).2

/-- Closing the stack again (as `writePacketTo` callers or outer layers may) writes nothing more. -/
theorem stack_close_idempotent (m : List Layer) (h : ∀ L ∈ m, LGood L) (ws : List Bytes) :
    let W := multiWrap m sink
    let s := (W.close (W.writes W.st ws).1).1
    (W.close s).2 = [] := by
  obtain ⟨D, hD, hr⟩ := multiWrap_good m h
  exact (hD _ (hr ws).1).1

/-! ## The stream-cipher wrappers: XOR and AES (CFB over a block function) -/

/-- The XOR wrapper (`wrapper.NewXOR(k)`: CFB over `crypto.XOR` with `iv[i] = (k[i]+i)^2`) is a
lossless layer for every non-empty key, every payload and every chunking. -/
theorem xor_lossless (key : Bytes) (h : key ≠ []) : LGood (xorLayer key) := xorLayer_good key h

/-- The block-cipher wrapper (`wrapper.NewBlock(aes, iv)`) is lossless for **any** block function
that fills a block (`E` = `cipher.Block.Encrypt`; CFB never calls `Decrypt`), so nothing about AES
itself is assumed. -/
theorem block_lossless (E : Bytes → Bytes) (iv : Bytes) (hn : 0 < iv.length)
    (hE : BlockFn iv.length E) : LGood (cfbLayer E iv) := cfbLayer_good hn hE

/-- CFB written in any chunking = CFB of the concatenation (one output `Write` per input `Write`),
and decrypting returns the plaintext. -/
theorem cfb_roundtrip (E : Bytes → Bytes) (iv : Bytes) (hn : 0 < iv.length) (hE : BlockFn iv.length E)
    (ws : List Bytes) : (cfbLayer E iv).dec ((cfbLayer E iv).run ws).flatten = some ws.flatten := by
  obtain ⟨_, _, hr⟩ := cfbLayer_good hn hE
  exact (hr ws).2

/-! ## CBK block cipher (data/crypto/cbk.go) -/

/-- **CBK block round trip, all 2^32 keys × every index × every block size.** For every key
`(A,B,C,D)`, every block index and every buffer of at least 16 bytes (the cipher's buffers have
17, 33, 65 or 129), the transform of `flushOutput` (substitution table, `scramble(false)`,
`Shuffle`) does not panic and is undone by the transform of `readInput` (`Deshuffle`,
`scramble(true)`, inverse table), which does not panic either.  Proved structurally: the
substitution and the shuffle add per-position constants; a scramble round is two nibble
exchanges and a byte-pair exchange for `g ≠ h < 8`, each an involution, the nibble exchanges
commute even when they share a byte; `g`,`h` always exist because no divisor in `blockIndex`
can be zero (after the repair). -/
theorem cbk_block (k : Cbk.Key) (index : UInt8) (b : Bytes) (hl : 16 ≤ b.length) :
    ∃ c, Cbk.encBlock k index b = some c ∧ c.length = b.length ∧ Cbk.decBlock k index c = some b :=
  Cbk.decBlock_encBlock k index b hl

/-- `blockIndex`/`scramble` never panic: `g`,`h` exist and are below 8 for every key, index, round. -/
theorem cbk_scramble_total (k : Cbk.Key) (index : UInt8) (i : Nat) :
    ∃ g h, Cbk.gh k index i = some (g, h) ∧ g.toNat < 8 ∧ h.toNat < 8 := Cbk.gh_some k index i

/-- The scramble alone: backwards after forwards is the identity on any ≥16-byte buffer. -/
theorem cbk_scramble_inverse (k : Cbk.Key) (index : UInt8) (b : Bytes) (hl : 16 ≤ b.length) :
    ∃ b', Cbk.scramble k index false b = some b' ∧ b'.length = b.length ∧
      Cbk.scramble k index true b' = some b := Cbk.scramble_inv k index b hl

theorem cbk_shuffle_inverse (k : Cbk.Key) (b : Bytes) : Cbk.deshuffle k (Cbk.shuffle k b) = b :=
  Cbk.deshuffle_shuffle k b

/-- **The CBK stream wrapper is lossless for every payload**: for every key and every block size
`newSource` accepts, the `Write`/`Flush`/`Close` and `Read` state machines (modelled literally in
XMT/Cbk.lean and compared byte for byte with the real code on every run) form a good layer — whatever
is written, in whatever write chunking, is read back exactly, followed by EOF; so `stack_roundtrip`
applies to every stack that contains CBK layers. -/
theorem cbk_stream (a b c d sz : UInt8) (s0 : Cbk.St) (h : Cbk.newSource a b c d sz = some s0) :
    LGood (Cbk.cbkLayer s0) := Cbk.cbk_stream a b c d sz s0 h

/-- …and however the wire bytes are chunked on the way (empty pieces, splits inside a block or its
count byte) and whatever sizes the `Read` calls ask for (0, smaller than what is buffered, larger than
a block): `readAll` returns the payload and EOF, and any sequence of Reads returns exactly the
functional specification `seqSpec` (each Read the next `k` bytes, the first Read with nothing left
EOF). Covers no writes at all, empty writes, totals that are exact multiples of the block size and
the block-index wrap after 31 blocks. -/
theorem cbk_stream_chunked (a b c d sz : UInt8) (s0 : Cbk.St) (h : Cbk.newSource a b c d sz = some s0)
    (ws : List Bytes) :
    ∃ out, Cbk.writeAll s0 ws = some out ∧
      ∀ cs : Codec.Stream, cs.flatten = out.flatten →
        (∀ fuel, out.flatten.length < fuel → Cbk.readAll fuel s0 cs = some (ws.flatten, none)) ∧
        (∀ ks, Cbk.readSeq s0 cs ks = some (Cbk.seqSpec ws.flatten ks)) :=
  Cbk.cbk_stream_chunked a b c d sz s0 h ws

/-! ## Base64-shift transform (c2/transform/base64.go) -/

/-- `B64(shift).Read(B64(shift).Write(p)) = p` for every shift byte and payload; base64 itself is a
parameter with its round-trip law. -/
theorem b64shift_roundtrip (enc64 : Bytes → Bytes) (dec64 : Bytes → Option Bytes)
    (h64 : ∀ x, dec64 (enc64 x) = some x) (shift : UInt8) (p : Bytes) :
    b64Read dec64 shift (b64Write enc64 shift p) = some p := b64_roundtrip enc64 dec64 h64 shift p

/-! ## DNS transform framing (c2/transform/dns.go) -/

/-- For **every** domain string (empty labels from leading/trailing/double dots, labels longer than
63 bytes, arbitrary bytes) the question name the encoder writes consists of labels of 1..63 bytes —
the only labels the decoder's `for i := 0; i < 64` loop can walk (this is what the two repairs of
`encodePacket` establish). -/
theorem dns_name_wellformed_partial (dom : Bytes) :
    ∃ ls, Dns.encName (Dns.splitDots dom) = Dns.encLabels ls ∧ Dns.LabelsOK ls :=
  Dns.encName_labels (Dns.splitDots dom)

/-- …and the decoder's label loop, started at the name inside any message
`pre ++ name ++ 0 :: post`, ends exactly behind the terminating zero: no early stop, no overrun, no
panic, for every domain. -/
theorem dns_name_decodes_partial (dom pre post : Bytes) :
    Dns.nameLoop (pre ++ Dns.encName (Dns.splitDots dom) ++ 0 :: post)
      ((pre ++ Dns.encName (Dns.splitDots dom) ++ 0 :: post).length + 2) 0 pre.length
      = .ok (pre.length + (Dns.encName (Dns.splitDots dom)).length + 1) :=
  Dns.nameLoop_encName dom pre post

/-- **The DNS transform is lossless for every payload**: for both `dnsServer` modes, every domain of
at most 255 bytes (any bytes, any dots), every random filler and every payload `b` of any length, the empty one included
(several 256-byte records per packet, several 2048-byte packets per `Write`), `DNSTransform.Write`
succeeds and `DNSTransform.Read` applied to the concatenation of the packets written returns exactly
`b` and no error. -/
theorem dns_roundtrip (server : Bool) (dom : Bytes) (rs : List (Nat → UInt8)) (b : Bytes)
    (hdom : dom.length ≤ 255) :
    ∃ pkts ws, Dns.write server dom rs b = some pkts ∧ Dns.read pkts.flatten = (ws, none) ∧ ws.flatten = b :=
  Dns.dns_roundtrip_name server dom rs b (by have := Dns.encName_splitDots_length dom; omega)

/-- The bound that is really needed is on the encoded question name: at most 1919 bytes (every domain
of at most 1918 bytes). It is tight — with a name of 1920 bytes a full server-mode packet is 4097
bytes, one more than the packet buffer, and `Write` reports a short write (30 labels of 63 bytes
and a 2048-byte payload; evaluated, not kernel-checked: the term is too deep for `decide`). -/
theorem dns_roundtrip_name (server : Bool) (dom : Bytes) (rs : List (Nat → UInt8)) (b : Bytes)
    (hname : (Dns.encName (Dns.splitDots dom)).length ≤ 1919) :
    ∃ pkts ws, Dns.write server dom rs b = some pkts ∧ Dns.read pkts.flatten = (ws, none) ∧ ws.flatten = b :=
  Dns.dns_roundtrip_name server dom rs b hname

/-! ## Send path → receive path (c2/vars.go writePacket / readPacket) -/

/-- A packet marshalled through any lossless stack and any lossless transform and read back
through the receive path is the packet that was sent.  `marshal`/`unmarshal` are `Packet.Marshal`'s
`Write` calls and `Packet.Unmarshal` (their round trip is property C01). -/
theorem sendrecv {P : Type} (m : List Layer) (hm : ∀ L ∈ m, LGood L) (t : Option Transform)
    (ht : ∀ tr, t = some tr → ∀ x, ∃ y, tr.write x = some y ∧ tr.read y = some x)
    (marshal : P → List Bytes) (unmarshal : Bytes → Option P)
    (hp : ∀ p, unmarshal (marshal p).flatten = some p) (p : P) :
    ∃ wire, writePacket (some (multiWrap m sink)) t (marshal p) = some wire ∧
      readPacket (some (multiUnwrap m)) t unmarshal wire = some p := by
  have hs := stack_roundtrip m hm (marshal p)
  cases t with
  | none =>
    refine ⟨_, rfl, ?_⟩
    simp [readPacket, hs, hp]
  | some tr =>
    obtain ⟨y, hw, hr⟩ := ht tr rfl ((multiWrap m sink).run (marshal p))
    refine ⟨y, hw, ?_⟩
    simp [readPacket, hr, hs, hp]

/-- The `w == nil` branch (no wrapper): direct `Marshal` into the cache. -/
theorem sendrecv_nowrap {P : Type} (t : Option Transform)
    (ht : ∀ tr, t = some tr → ∀ x, ∃ y, tr.write x = some y ∧ tr.read y = some x)
    (marshal : P → List Bytes) (unmarshal : Bytes → Option P)
    (hp : ∀ p, unmarshal (marshal p).flatten = some p) (p : P) :
    ∃ wire, writePacket none t (marshal p) = some wire ∧
      readPacket none t unmarshal wire = some p := by
  cases t with
  | none => exact ⟨_, rfl, by simp [readPacket, hp]⟩
  | some tr =>
    obtain ⟨y, hw, hr⟩ := ht tr rfl (marshal p).flatten
    exact ⟨y, hw, by simp [readPacket, hr, hp]⟩

/-! ## Facts the proofs rely on, re-checked against the regenerated constants -/

example : Facts.cbkSize = Cbk.size := by decide
example : Facts.dnsSeg = 256 ∧ Facts.dnsMax = 8 * Facts.dnsSeg ∧ Facts.dnsPacketCap = 4096 := by decide

/-! ## Non-vacuity -/

-- a three-deep stack XOR / CBK-free example really computes and round-trips in the model
example : multiUnwrap [xorLayer [1, 2, 3], xorLayer [9]]
    ((multiWrap [xorLayer [1, 2, 3], xorLayer [9]] sink).run [[10, 20], [], [30, 40, 50, 60]])
    = some [10, 20, 30, 40, 50, 60] := by decide
example : (multiWrap [xorLayer [1, 2, 3]] sink).run [[10, 20], [30, 40, 50, 60]] ≠ [10, 20, 30, 40, 50, 60] := by
  decide
example : LGood (xorLayer [7]) := xor_lossless [7] (by simp)
-- the CBK block transform on a 17-byte buffer (block size 16, count byte 3) with a key that divided
-- by zero before the repair
example : ∃ c, Cbk.encBlock ⟨119, 84, 48, 3⟩ 1 ([1, 2, 3] ++ List.replicate 13 0 ++ [3]) = some c ∧
    c ≠ [1, 2, 3] ++ List.replicate 13 0 ++ [3] := by
  obtain ⟨c, h, _, _⟩ := cbk_block ⟨119, 84, 48, 3⟩ 1 ([1, 2, 3] ++ List.replicate 13 0 ++ [3]) (by decide)
  refine ⟨c, h, ?_⟩
  intro e; rw [e] at h; revert h; decide

-- DNS: the three domain shapes that did not round-trip before the repairs, and a plain one, in both
-- modes, on a concrete payload (kernel-evaluated model run of encoder and decoder)
example : ∀ server ∈ [true, false], ∀ dom ∈ ([[101,120,97,109,112,108,101,46,99,111,109,46],  -- "example.com."
      [97,46,46,98], [46,97], List.replicate 70 120,                                  -- "a..b", ".a", 70 x 'x'
      [101,120,97,109,112,108,101,46,99,111,109]] : List Bytes),                       -- "example.com"
    (Dns.write server dom [fun _ => 7] [1, 2, 3]).map (fun pk => Dns.read pk.flatten)
      = some ([[1, 2, 3]], none) := by decide

/-! ## closed instances of the composition theorems -/

/-- the DNS transform as a `Transform` of the send/receive composition -/
def dnsTransform (server : Bool) (dom : Bytes) (rs : List (Nat → UInt8)) : Transform where
  write x := (Dns.write server dom rs x).map List.flatten
  read y := match Dns.read y with | (ws, none) => some ws.flatten | _ => none

theorem dnsTransform_lossless (server : Bool) (dom : Bytes) (rs : List (Nat → UInt8)) (hdom : dom.length ≤ 255) :
    ∀ x, ∃ y, (dnsTransform server dom rs).write x = some y ∧ (dnsTransform server dom rs).read y = some x := by
  intro x
  obtain ⟨pk, ws, h1, h2, h3⟩ := dns_roundtrip server dom rs x hdom
  exact ⟨pk.flatten, by simp [dnsTransform, h1], by simp [dnsTransform, h2, h3]⟩

/-- a layer the proofs of this file cover without assumptions: the XOR wrapper with a non-empty key or
the CBK wrapper with an accepted key and block size -/
def ProvedLayer (L : Layer) : Prop :=
  (∃ key, key ≠ [] ∧ L = xorLayer key) ∨
  (∃ a b c d sz s0, Cbk.newSource a b c d sz = some s0 ∧ L = Cbk.cbkLayer s0)

theorem provedLayer_good {L : Layer} (h : ProvedLayer L) : LGood L := by
  rcases h with ⟨key, hk, rfl⟩ | ⟨a, b, c, d, sz, s0, hs, rfl⟩
  · exact xor_lossless key hk
  · exact cbk_stream a b c d sz s0 hs

/-- **Closed instance**: a packet sent through ANY stack of XOR and CBK wrappers (any depth, any keys)
and the DNS transform (either mode, any domain of at most 255 bytes, any filler) — or no transform —
and read back through the receive path is the packet that was sent, for any packet codec with a round
trip (C01 proves it for `Packet.Marshal` / `Unmarshal`). Nothing else is assumed: this is
`sendrecv` with every hypothesis about wrappers and transform discharged by the theorems above. -/
theorem sendrecv_xor_cbk_dns {P : Type} (m : List Layer) (hm : ∀ L ∈ m, ProvedLayer L)
    (t : Option (Bool × Bytes × List (Nat → UInt8))) (ht : ∀ x, t = some x → x.2.1.length ≤ 255)
    (marshal : P → List Bytes) (unmarshal : Bytes → Option P)
    (hp : ∀ p, unmarshal (marshal p).flatten = some p) (p : P) :
    ∃ wire, writePacket (some (multiWrap m sink)) (t.map fun x => dnsTransform x.1 x.2.1 x.2.2) (marshal p) = some wire ∧
      readPacket (some (multiUnwrap m)) (t.map fun x => dnsTransform x.1 x.2.1 x.2.2) unmarshal wire = some p := by
  apply sendrecv m (fun L hL => provedLayer_good (hm L hL)) _ _ marshal unmarshal hp p
  intro tr htr
  cases t with
  | none => simp at htr
  | some x =>
    simp only [Option.map_some, Option.some.injEq] at htr
    subst htr
    exact dnsTransform_lossless x.1 x.2.1 x.2.2 (ht x rfl)

/-! ## Extension round 3 — encoding/hex and encoding/base64 are models, not parameters

The `Hex` and `Base64` wrappers (c2/wrapper/simple.go) and the Base64(-shift) transform
(c2/transform/base64.go) are thin calls into the Go standard library. XMT/HexCodec.lean and
XMT/B64Codec.lean transcribe the library's `Encode`/`Decode` and the streaming encoder / decoder
state machines (`hex.NewEncoder/NewDecoder`, `base64.NewEncoder/NewDecoder` with `StdEncoding`); they
are compared with the real library through the real wrappers on every run (groups hex-s3, b64-s3,
stack-s3: every `Write` made below, every `Read` answered, error classes on malformed streams).
The reader below is a `Src`: any list of pieces (empty ones = `(0, nil)` Reads), EOF delivered with or
after the last bytes. -/

/-- `hex.Decode(hex.Encode(x)) = x`, no error, for every byte string. -/
theorem hex_decode_encode (x : Bytes) : HexCodec.decode (HexCodec.encode x) = (x, none) :=
  HexCodec.decode_encode x

/-- **The Hex wrapper is lossless for every payload, every chunking of the writes and of the reads.**
For every list of `Write`s `ws`: what reaches the writer below (in chunks of at most
`bufferSize/2` input bytes per `Write`, `Close` adds nothing) is the hex encoding of the
concatenation; and for every way `cs` the wire is cut into pieces (empty pieces included), EOF arriving
with (`we = true`) or after the last bytes, and every list `ks` of `Read` buffer sizes (0 included):
the Reads deliver a prefix of the payload, the only error ever returned is `io.EOF`, exactly when the
whole payload has been delivered; and Reads of any fixed positive size `k` deliver the whole payload
followed by `io.EOF`. -/
theorem hex_roundtrip (ws : List Bytes) :
    (HexCodec.hexLayer.run ws).flatten = HexCodec.encode ws.flatten ∧
    ∀ (cs : List Bytes) (we : Bool), cs.flatten = (HexCodec.hexLayer.run ws).flatten →
      (∀ ks, ∃ rest, ws.flatten = (HexCodec.readSeq HexCodec.Dec.init ⟨cs, we⟩ ks).1.flatten ++ rest ∧
        ((HexCodec.readSeq HexCodec.Dec.init ⟨cs, we⟩ ks).2 = none ∨
          ((HexCodec.readSeq HexCodec.Dec.init ⟨cs, we⟩ ks).2 = some .eof ∧ rest = []))) ∧
      (∀ k fuel, 0 < k → ws.flatten.length + cs.length + 1 < fuel →
        HexCodec.readAll k fuel HexCodec.Dec.init ⟨cs, we⟩ = (ws.flatten, some .eof)) := by
  refine ⟨HexCodec.hexLayer_run ws, fun cs we h => ?_⟩
  have hi := HexCodec.inv_init cs we ws.flatten (by rw [h, HexCodec.hexLayer_run])
  exact ⟨fun ks => HexCodec.readSeq_spec ks _ _ _ hi,
    fun k fuel hk hf => HexCodec.readAll_spec k hk fuel _ _ _ hi hf⟩

/-- The `Hex` wrapper is a good layer of the stack model (no assumption left). -/
theorem hex_lossless : LGood HexCodec.hexLayer := HexCodec.hexLayer_good

/-- `StdEncoding.Decode(StdEncoding.Encode(x)) = x`, no error, for every byte string (all three
residues of the length mod 3, i.e. no, one and two padding characters). -/
theorem base64_decode_encode (x : Bytes) : B64Codec.decode (B64Codec.encode x) = (x, none) :=
  B64Codec.decode_encode x

/-- **The Base64 wrapper is lossless for every payload, every chunking of the writes and of the
reads.** The streaming encoder keeps up to two bytes between `Write`s and flushes a partial group
(padded) only on `Close`: for every list of `Write`s the bytes below after `Close` are the base64
encoding of the concatenation. The streaming decoder (refill until four characters, whole quanta
decoded, left-over output kept in `out`): for every cut `cs` of the wire into pieces, EOF with or
after the last bytes, and every list `ks` of `Read` sizes (0 included) the Reads deliver a prefix of
the payload, the only error is `io.EOF`, exactly at the end; Reads of any fixed positive size deliver
the whole payload followed by `io.EOF`. -/
theorem base64_roundtrip (ws : List Bytes) :
    (B64Codec.b64Layer.run ws).flatten = B64Codec.encode ws.flatten ∧
    ∀ (cs : List Bytes) (we : Bool), cs.flatten = (B64Codec.b64Layer.run ws).flatten →
      (∀ ks, ∃ rest, ws.flatten = (B64Codec.readSeq B64Codec.Dec.init ⟨cs, we⟩ ks).1.flatten ++ rest ∧
        ((B64Codec.readSeq B64Codec.Dec.init ⟨cs, we⟩ ks).2 = none ∨
          ((B64Codec.readSeq B64Codec.Dec.init ⟨cs, we⟩ ks).2 = some .eof ∧ rest = []))) ∧
      (∀ k fuel, 0 < k → ws.flatten.length + 1 < fuel →
        B64Codec.readAll k fuel B64Codec.Dec.init ⟨cs, we⟩ = (ws.flatten, some .eof)) := by
  refine ⟨B64Codec.b64Layer_run ws, fun cs we h => ?_⟩
  have hi := B64Codec.invB_init cs we ws.flatten (by rw [h, B64Codec.b64Layer_run])
  exact ⟨fun ks => B64Codec.readSeq_spec ks _ _ _ hi,
    fun k fuel hk hf => B64Codec.readAll_spec k hk fuel _ _ _ hi hf⟩

/-- The `Base64` wrapper is a good layer of the stack model (no assumption left); a second `Close`
writes nothing. -/
theorem base64_lossless : LGood B64Codec.b64Layer := B64Codec.b64Layer_good

/-- The Base64(-shift) transform with the concrete codec: `B64(shift).Read(B64(shift).Write(p)) = p`
for every shift byte and payload, nothing assumed about base64. -/
theorem b64transform_roundtrip (shift : UInt8) (p : Bytes) :
    B64Codec.transformRead shift (B64Codec.transformWrite shift p) = some p :=
  B64Codec.transform_roundtrip shift p

/-- The concrete transform is the parametric one of `b64shift_roundtrip` instantiated with the
model of `StdEncoding` (so the differential ops `b64w`/`b64r` and `b64tw`/`b64td` are about the same
function). -/
theorem b64transform_is_instance (shift : UInt8) (p : Bytes) :
    B64Codec.transformWrite shift p = b64Write B64Codec.encode shift p :=
  B64Codec.transformWrite_eq shift p

/-- the Base64(-shift) transform as a `Transform` of the send/receive composition -/
def b64Transform (shift : UInt8) : Transform where
  write x := some (B64Codec.transformWrite shift x)
  read y := B64Codec.transformRead shift y

theorem b64Transform_lossless (shift : UInt8) :
    ∀ x, ∃ y, (b64Transform shift).write x = some y ∧ (b64Transform shift).read y = some x :=
  fun x => ⟨_, rfl, B64Codec.transform_roundtrip shift x⟩

/-- a layer covered without assumptions: XOR, CBK (round 2), Hex, Base64 (this round) -/
def ProvedLayer3 (L : Layer) : Prop :=
  ProvedLayer L ∨ L = HexCodec.hexLayer ∨ L = B64Codec.b64Layer

theorem provedLayer3_good {L : Layer} (h : ProvedLayer3 L) : LGood L := by
  rcases h with h | rfl | rfl
  · exact provedLayer_good h
  · exact hex_lossless
  · exact base64_lossless

/-- **Stack theorem with NO assumed layer**: any stack (any depth, any order, any keys) made of XOR,
CBK, Hex and Base64 wrappers returns what was written, for every chunking of the writes. -/
theorem stack_roundtrip_concrete (m : List Layer) (h : ∀ L ∈ m, ProvedLayer3 L) (ws : List Bytes) :
    multiUnwrap m ((multiWrap m sink).run ws) = some ws.flatten :=
  stack_roundtrip m (fun L hL => provedLayer3_good (h L hL)) ws

/-- the transforms a profile can carry -/
inductive TSpec
  | dns (server : Bool) (dom : Bytes) (rs : List (Nat → UInt8))
  | b64 (shift : UInt8)

def TSpec.transform : TSpec → Transform
  | .dns server dom rs => dnsTransform server dom rs
  | .b64 shift => b64Transform shift

def TSpec.ok : TSpec → Prop
  | .dns _ dom _ => dom.length ≤ 255
  | .b64 _ => True

/-- **Closed instance of `sendrecv`**: a packet sent through ANY stack of XOR, CBK, Hex and Base64
wrappers and ANY transform a profile can carry (none, DNS in either mode with a domain of at most 255
bytes, Base64 with any shift) and read back through the receive path is the packet that was sent, for
any packet codec with a round trip (C01). No hypothesis about a wrapper, a codec of the standard
library or a transform is left. -/
theorem sendrecv_concrete {P : Type} (m : List Layer) (hm : ∀ L ∈ m, ProvedLayer3 L)
    (t : Option TSpec) (ht : ∀ x, t = some x → x.ok)
    (marshal : P → List Bytes) (unmarshal : Bytes → Option P)
    (hp : ∀ p, unmarshal (marshal p).flatten = some p) (p : P) :
    ∃ wire, writePacket (some (multiWrap m sink)) (t.map TSpec.transform) (marshal p) = some wire ∧
      readPacket (some (multiUnwrap m)) (t.map TSpec.transform) unmarshal wire = some p := by
  apply sendrecv m (fun L hL => provedLayer3_good (hm L hL)) _ _ marshal unmarshal hp p
  intro tr htr
  cases t with
  | none => simp at htr
  | some x =>
    simp only [Option.map_some, Option.some.injEq] at htr
    subst htr
    cases x with
    | dns server dom rs => exact dnsTransform_lossless server dom rs (ht _ rfl)
    | b64 shift => exact b64Transform_lossless shift

/-! ### One DNS reader model (review finding 2b) -/

/-- **The two DNS reader models agree wherever either succeeds**: the reader model of this property
(`Dns.read`, written before the reader's repair) returns a payload and no error exactly when the
reader model tied to the repaired code on hostile bytes (`Decode.Dns.read`, property C04) does, and
the payloads are equal. They differ only in which error a malformed message gets
(`DnsAgree.differ_short`, `DnsAgree.differ_errvalue`). -/
theorem dns_reader_models_agree (b w : Bytes) :
    Decode.Dns.read b = .ok w ↔ ∃ ws, Dns.read b = (ws, none) ∧ ws.flatten = w :=
  DnsAgree.read_agrees_iff b w

/-- …and fail on the same inputs. -/
theorem dns_reader_models_fail_together (b : Bytes) :
    (∃ e, Decode.Dns.read b = .err e) ↔ ∃ ws e, Dns.read b = (ws, some e) :=
  DnsAgree.read_err_iff b

/-- `dns_roundtrip` against the C04 reader model (the one tied to the repaired reader): for both
modes, every domain of at most 255 bytes, every filler and every payload, the reader returns exactly
the payload. -/
theorem dns_roundtrip_c04 (server : Bool) (dom : Bytes) (rs : List (Nat → UInt8)) (b : Bytes)
    (hdom : dom.length ≤ 255) :
    ∃ pkts, Dns.write server dom rs b = some pkts ∧ Decode.Dns.read pkts.flatten = .ok b :=
  DnsAgree.dns_roundtrip_c04 server dom rs b hdom

/-! ### Which wrappers exist (tie obligations over regenerated syntactic facts) -/

/-- how a wrapper implementation of c2/wrapper is covered by the theorems of this file -/
inductive Coverage
  | proved      -- a layer model with `LGood` proved
  | parameter   -- `LGood` is a hypothesis of `stack_roundtrip` for this layer (round-tripped by the oracles)
  deriving DecidableEq, Repr

/-- every type of c2/wrapper/*.go with a `Wrap` and an `Unwrap` method (for the enum-like ones: every
constant), with its coverage. A wrapper added to the package changes `Facts.wrapperKinds` and breaks
`wrapper_kinds_covered` until it gets a layer model (or is listed as a parameter). -/
def wrapperCoverage : List (String × Coverage) :=
  [("Block", .proved),            -- block_lossless: CFB over any block function
   ("CBK", .proved),              -- cbk_stream
   ("XOR", .proved),              -- xor_lossless
   ("compress:Gzip", .parameter),
   ("compress:Zlib", .parameter),
   ("simple:Base64", .proved),    -- base64_lossless
   ("simple:Hex", .proved)]       -- hex_lossless

theorem wrapper_kinds_covered : Facts.wrapperKinds = wrapperCoverage.map (·.1) := rfl

/-- the `Hex` / `Base64` wrappers are exactly the standard library constructors the models transcribe
(`StdEncoding`, `data.WriteCloser` around the hex encoder) -/
theorem simple_wrapper_calls : Facts.simpleWrapperCalls =
    ["Unwrap Base64: return base64.NewDecoder(base64.StdEncoding, r), nil",
     "Unwrap Hex: return hex.NewDecoder(r), nil",
     "Wrap Base64: return base64.NewEncoder(base64.StdEncoding, w), nil",
     "Wrap Hex: return data.WriteCloser(hex.NewEncoder(w)), nil"] := rfl

/-- the buffer sizes of the standard library the chunk behaviour of the models depends on -/
theorem codec_buffer_sizes :
    Facts.hexBufferSize = 1024 ∧ Facts.b64EncOut = 1024 ∧ Facts.b64DecBuf = 1024 := by decide

/-! ### Non-vacuity (round 3) -/

-- a hex stream cut inside a pair, EOF with the last bytes, Reads of 1, 0 and 5 bytes
example : HexCodec.readSeq HexCodec.Dec.init ⟨[[48], [49, 102], [], [70]], true⟩ [1, 0, 5, 5, 5, 5]
    = ([[], [], [1], [], [255]], some .eof) := by decide
-- malformed hex: odd length → unexpected EOF; bad alphabet → InvalidByteError
example : (HexCodec.readSeq HexCodec.Dec.init ⟨[[48, 49, 50]], false⟩ [4, 4, 4]).2 = some .ueof := by decide
example : (HexCodec.readSeq HexCodec.Dec.init ⟨[[48, 103]], false⟩ [4]).2 = some (.invalidByte 103) := by decide
-- base64: "Zm9vYmE=" written as 2+0+3 bytes, wire cut inside a quantum, Reads of 2 bytes
example : (B64Codec.b64Layer.run [[102, 111], [], [111, 98, 97]]).flatten = [90, 109, 57, 118, 89, 109, 69, 61] := by decide
example : B64Codec.readAll 2 9 B64Codec.Dec.init ⟨[[90, 109, 57], [118, 89, 109, 69], [], [61]], true⟩
    = ([102, 111, 111, 98, 97], some .eof) := by decide
-- malformed base64: missing padding → unexpected EOF (stream) / corrupt (whole buffer); data after padding
example : (B64Codec.readSeq B64Codec.Dec.init ⟨[[90, 109, 57, 118, 89, 109, 69]], false⟩ [9, 9]).2 = some .ueof := by decide
example : (B64Codec.decode [90, 109, 57, 118, 89, 109, 69]).2 = some .corrupt := by decide
example : (B64Codec.decode [89, 81, 61, 61, 89, 81, 61, 61]).2 = some .corrupt := by decide
-- a stack Hex ∘ Base64 ∘ XOR round-trips in the model, and the wire is not the payload
example : multiUnwrap [HexCodec.hexLayer, B64Codec.b64Layer, xorLayer [7, 9]]
    ((multiWrap [HexCodec.hexLayer, B64Codec.b64Layer, xorLayer [7, 9]] sink).run [[1, 2], [3, 4, 5]])
    = some [1, 2, 3, 4, 5] := by decide
example : ProvedLayer3 HexCodec.hexLayer ∧ ProvedLayer3 B64Codec.b64Layer := ⟨Or.inr (Or.inl rfl), Or.inr (Or.inr rfl)⟩
example : (TSpec.b64 3).ok ∧ (TSpec.dns true [97, 46, 98] []).ok := ⟨trivial, by simp [TSpec.ok]⟩

end XMT.Props.C07
