/-
  C07 — Every wrapper stack and transform is lossless for every payload.
  Property theorems only; models in XMT/{Wrap,Cbk,Dns}.lean, lemmas in XMT/{Wrap,Cbk}Lemmas.lean.

  Scope notes (from an adversarial review of these statements, see DESIGN.md Appendix B.5):
  * hex, base64, zlib, gzip and the AES block function are PARAMETERS: `stack_roundtrip` and
    `sendrecv` take their round-trip laws (`LGood`) as hypotheses; only the XOR/CFB layer, the CBK
    layer, the Base64-shift arithmetic and the DNS framing are proved here. The real codecs are
    exercised by the direct oracles on every run.
  * `Layer.dec` is whole-stream: "however the reads are chunked" is proved for CBK
    (`cbk_stream_chunked`) and holds for CFB byte by byte; for the parameter layers it is part of the
    assumed law.
  * `sendrecv` / `sendrecv_nowrap` are composition theorems; their hypotheses are discharged by C01
    (codec), `dns_roundtrip`, `b64shift_roundtrip`, `cbk_stream`, `xor_lossless` - the instantiation is
    not spelled out as one closed corollary.
  * `Dns.read` (XMT/Dns.lean) is only ever applied to what `Dns.write` produced; on malformed
    messages it still shows the outcomes of the reader before its repair (index panics). The reader
    on hostile bytes is the separate model XMT/DecodeDns.lean (C04), tied to the repaired code.
  * `cbk_block` / `cbk_shuffle_inverse` also cover `A = 0`, where Go's `i % e.A` would divide by zero:
    unreachable through `newSource` (forces `A` non-zero), see DESIGN B.4.
-/
import XMT.WrapLemmas
import XMT.CbkLemmas
import XMT.CbkStream
import XMT.DnsLemmas
import XMT.DnsRoundtrip
namespace XMT.Props.C07
open XMT XMT.Wrap

/-! ## Stack composition (c2/cfg/profile.go MultiWrapper.Wrap / Unwrap / stackCloser) -/

/-- **Stack order theorem, any depth.** If every wrapper of the stack is lossless on its own
(`LGood`: for every chunking of the writes its reader returns the concatenation, and a repeated
`Close` writes nothing), then what `MultiWrapper.Unwrap` reads from the bytes that
`MultiWrapper.Wrap` + `Close` put into the sink is exactly what was written — for every list of
wrappers `m` (any depth, any order) and every chunking `ws` of the writes.  The model follows the
two `for x := len(m)-1; x >= 0; x--` loops and `stackCloser.Close` literally, including the second
`Close` that inner writers receive from layers that close their underlying writer. -/
theorem stack_roundtrip (m : List Layer) (h : ∀ L ∈ m, LGood L) (ws : List Bytes) :
    multiUnwrap m ((multiWrap m sink).run ws) = some ws.flatten := by
  obtain ⟨_, _, hr⟩ := multiWrap_good m h
  exact (hr ws).2

/-- Closing the stack again (as `writePacketTo` callers or outer layers may) writes nothing more. -/
theorem stack_close_idempotent (m : List Layer) (h : ∀ L ∈ m, LGood L) (ws : List Bytes) :
    let W := multiWrap m sink
    let s := (W.close (W.writes W.st ws).1).1
    (W.close s).2 = [] := by
  obtain ⟨D, hD, hr⟩ := multiWrap_good m h
  exact (hD _ (hr ws).1).1

/-! ## The stream-cipher wrappers: XOR and AES (CFB over a block function) -/

/-- The XOR wrapper (`wrapper.NewXOR(k)`: CFB over `crypto.XOR` with `iv[i] = (k[i]+i)^2`) is a
lossless layer for every non-empty key, every payload and every chunking. -/
theorem xor_lossless (key : Bytes) (h : key ≠ []) : LGood (xorLayer key) := xorLayer_good key h

/-- The block-cipher wrapper (`wrapper.NewBlock(aes, iv)`) is lossless for **any** block function
that fills a block (`E` = `cipher.Block.Encrypt`; CFB never calls `Decrypt`), so nothing about AES
itself is assumed. -/
theorem block_lossless (E : Bytes → Bytes) (iv : Bytes) (hn : 0 < iv.length)
    (hE : BlockFn iv.length E) : LGood (cfbLayer E iv) := cfbLayer_good hn hE

/-- CFB written in any chunking = CFB of the concatenation (one output `Write` per input `Write`),
and decrypting returns the plaintext. -/
theorem cfb_roundtrip (E : Bytes → Bytes) (iv : Bytes) (hn : 0 < iv.length) (hE : BlockFn iv.length E)
    (ws : List Bytes) : (cfbLayer E iv).dec ((cfbLayer E iv).run ws).flatten = some ws.flatten := by
  obtain ⟨_, _, hr⟩ := cfbLayer_good hn hE
  exact (hr ws).2

/-! ## CBK block cipher (data/crypto/cbk.go) -/

/-- **CBK block round trip, all 2^32 keys × every index × every block size.** For every key
`(A,B,C,D)`, every block index and every buffer of at least 16 bytes (the cipher's buffers have
17, 33, 65 or 129), the transform of `flushOutput` (substitution table, `scramble(false)`,
`Shuffle`) does not panic and is undone by the transform of `readInput` (`Deshuffle`,
`scramble(true)`, inverse table), which does not panic either.  Proved structurally: the
substitution and the shuffle add per-position constants; a scramble round is two nibble
exchanges and a byte-pair exchange for `g ≠ h < 8`, each an involution, the nibble exchanges
commute even when they share a byte; `g`,`h` always exist because no divisor in `blockIndex`
can be zero (after the repair). -/
theorem cbk_block (k : Cbk.Key) (index : UInt8) (b : Bytes) (hl : 16 ≤ b.length) :
    ∃ c, Cbk.encBlock k index b = some c ∧ c.length = b.length ∧ Cbk.decBlock k index c = some b :=
  Cbk.decBlock_encBlock k index b hl

/-- `blockIndex`/`scramble` never panic: `g`,`h` exist and are below 8 for every key, index, round. -/
theorem cbk_scramble_total (k : Cbk.Key) (index : UInt8) (i : Nat) :
    ∃ g h, Cbk.gh k index i = some (g, h) ∧ g.toNat < 8 ∧ h.toNat < 8 := Cbk.gh_some k index i

/-- The scramble alone: backwards after forwards is the identity on any ≥16-byte buffer. -/
theorem cbk_scramble_inverse (k : Cbk.Key) (index : UInt8) (b : Bytes) (hl : 16 ≤ b.length) :
    ∃ b', Cbk.scramble k index false b = some b' ∧ b'.length = b.length ∧
      Cbk.scramble k index true b' = some b := Cbk.scramble_inv k index b hl

theorem cbk_shuffle_inverse (k : Cbk.Key) (b : Bytes) : Cbk.deshuffle k (Cbk.shuffle k b) = b :=
  Cbk.deshuffle_shuffle k b

/-- **The CBK stream wrapper is lossless for every payload**: for every key and every block size
`newSource` accepts, the `Write`/`Flush`/`Close` and `Read` state machines (modelled literally in
XMT/Cbk.lean and compared byte for byte with the real code on every run) form a good layer — whatever
is written, in whatever write chunking, is read back exactly, followed by EOF; so `stack_roundtrip`
applies to every stack that contains CBK layers. -/
theorem cbk_stream (a b c d sz : UInt8) (s0 : Cbk.St) (h : Cbk.newSource a b c d sz = some s0) :
    LGood (Cbk.cbkLayer s0) := Cbk.cbk_stream a b c d sz s0 h

/-- …and however the wire bytes are chunked on the way (empty pieces, splits inside a block or its
count byte) and whatever sizes the `Read` calls ask for (0, smaller than what is buffered, larger than
a block): `readAll` returns the payload and EOF, and any sequence of Reads returns exactly the
functional specification `seqSpec` (each Read the next `k` bytes, the first Read with nothing left
EOF). Covers no writes at all, empty writes, totals that are exact multiples of the block size and
the block-index wrap after 31 blocks. -/
theorem cbk_stream_chunked (a b c d sz : UInt8) (s0 : Cbk.St) (h : Cbk.newSource a b c d sz = some s0)
    (ws : List Bytes) :
    ∃ out, Cbk.writeAll s0 ws = some out ∧
      ∀ cs : Codec.Stream, cs.flatten = out.flatten →
        (∀ fuel, out.flatten.length < fuel → Cbk.readAll fuel s0 cs = some (ws.flatten, none)) ∧
        (∀ ks, Cbk.readSeq s0 cs ks = some (Cbk.seqSpec ws.flatten ks)) :=
  Cbk.cbk_stream_chunked a b c d sz s0 h ws

/-! ## Base64-shift transform (c2/transform/base64.go) -/

/-- `B64(shift).Read(B64(shift).Write(p)) = p` for every shift byte and payload; base64 itself is a
parameter with its round-trip law. -/
theorem b64shift_roundtrip (enc64 : Bytes → Bytes) (dec64 : Bytes → Option Bytes)
    (h64 : ∀ x, dec64 (enc64 x) = some x) (shift : UInt8) (p : Bytes) :
    b64Read dec64 shift (b64Write enc64 shift p) = some p := b64_roundtrip enc64 dec64 h64 shift p

/-! ## DNS transform framing (c2/transform/dns.go) -/

/-- For **every** domain string (empty labels from leading/trailing/double dots, labels longer than
63 bytes, arbitrary bytes) the question name the encoder writes consists of labels of 1..63 bytes —
the only labels the decoder's `for i := 0; i < 64` loop can walk (this is what the two repairs of
`encodePacket` establish). -/
theorem dns_name_wellformed_partial (dom : Bytes) :
    ∃ ls, Dns.encName (Dns.splitDots dom) = Dns.encLabels ls ∧ Dns.LabelsOK ls :=
  Dns.encName_labels (Dns.splitDots dom)

/-- …and the decoder's label loop, started at the name inside any message
`pre ++ name ++ 0 :: post`, ends exactly behind the terminating zero: no early stop, no overrun, no
panic, for every domain. -/
theorem dns_name_decodes_partial (dom pre post : Bytes) :
    Dns.nameLoop (pre ++ Dns.encName (Dns.splitDots dom) ++ 0 :: post)
      ((pre ++ Dns.encName (Dns.splitDots dom) ++ 0 :: post).length + 2) 0 pre.length
      = .ok (pre.length + (Dns.encName (Dns.splitDots dom)).length + 1) :=
  Dns.nameLoop_encName dom pre post

/-- **The DNS transform is lossless for every payload**: for both `dnsServer` modes, every domain of
at most 255 bytes (any bytes, any dots), every random filler and every payload `b` of any length, the empty one included
(several 256-byte records per packet, several 2048-byte packets per `Write`), `DNSTransform.Write`
succeeds and `DNSTransform.Read` applied to the concatenation of the packets written returns exactly
`b` and no error. -/
theorem dns_roundtrip (server : Bool) (dom : Bytes) (rs : List (Nat → UInt8)) (b : Bytes)
    (hdom : dom.length ≤ 255) :
    ∃ pkts ws, Dns.write server dom rs b = some pkts ∧ Dns.read pkts.flatten = (ws, none) ∧ ws.flatten = b :=
  Dns.dns_roundtrip_name server dom rs b (by have := Dns.encName_splitDots_length dom; omega)

/-- The bound that is really needed is on the encoded question name: at most 1919 bytes (every domain
of at most 1918 bytes). It is tight — with a name of 1920 bytes a full server-mode packet is 4097
bytes, one more than the packet buffer, and `Write` reports a short write (30 labels of 63 bytes
and a 2048-byte payload; evaluated, not kernel-checked: the term is too deep for `decide`). -/
theorem dns_roundtrip_name (server : Bool) (dom : Bytes) (rs : List (Nat → UInt8)) (b : Bytes)
    (hname : (Dns.encName (Dns.splitDots dom)).length ≤ 1919) :
    ∃ pkts ws, Dns.write server dom rs b = some pkts ∧ Dns.read pkts.flatten = (ws, none) ∧ ws.flatten = b :=
  Dns.dns_roundtrip_name server dom rs b hname

/-! ## Send path → receive path (c2/vars.go writePacket / readPacket) -/

/-- A packet marshalled through any lossless stack and any lossless transform and read back
through the receive path is the packet that was sent.  `marshal`/`unmarshal` are `Packet.Marshal`'s
`Write` calls and `Packet.Unmarshal` (their round trip is property C01). -/
theorem sendrecv {P : Type} (m : List Layer) (hm : ∀ L ∈ m, LGood L) (t : Option Transform)
    (ht : ∀ tr, t = some tr → ∀ x, ∃ y, tr.write x = some y ∧ tr.read y = some x)
    (marshal : P → List Bytes) (unmarshal : Bytes → Option P)
    (hp : ∀ p, unmarshal (marshal p).flatten = some p) (p : P) :
    ∃ wire, writePacket (some (multiWrap m sink)) t (marshal p) = some wire ∧
      readPacket (some (multiUnwrap m)) t unmarshal wire = some p := by
  have hs := stack_roundtrip m hm (marshal p)
  cases t with
  | none =>
    refine ⟨_, rfl, ?_⟩
    simp [readPacket, hs, hp]
  | some tr =>
    obtain ⟨y, hw, hr⟩ := ht tr rfl ((multiWrap m sink).run (marshal p))
    refine ⟨y, hw, ?_⟩
    simp [readPacket, hr, hs, hp]

/-- The `w == nil` branch (no wrapper): direct `Marshal` into the cache. -/
theorem sendrecv_nowrap {P : Type} (t : Option Transform)
    (ht : ∀ tr, t = some tr → ∀ x, ∃ y, tr.write x = some y ∧ tr.read y = some x)
    (marshal : P → List Bytes) (unmarshal : Bytes → Option P)
    (hp : ∀ p, unmarshal (marshal p).flatten = some p) (p : P) :
    ∃ wire, writePacket none t (marshal p) = some wire ∧
      readPacket none t unmarshal wire = some p := by
  cases t with
  | none => exact ⟨_, rfl, by simp [readPacket, hp]⟩
  | some tr =>
    obtain ⟨y, hw, hr⟩ := ht tr rfl (marshal p).flatten
    exact ⟨y, hw, by simp [readPacket, hr, hp]⟩

/-! ## Facts the proofs rely on, re-checked against the regenerated constants -/

example : Facts.cbkSize = Cbk.size := by decide
example : Facts.dnsSeg = 256 ∧ Facts.dnsMax = 8 * Facts.dnsSeg ∧ Facts.dnsPacketCap = 4096 := by decide

/-! ## Non-vacuity -/

-- a three-deep stack XOR / CBK-free example really computes and round-trips in the model
example : multiUnwrap [xorLayer [1, 2, 3], xorLayer [9]]
    ((multiWrap [xorLayer [1, 2, 3], xorLayer [9]] sink).run [[10, 20], [], [30, 40, 50, 60]])
    = some [10, 20, 30, 40, 50, 60] := by decide
example : (multiWrap [xorLayer [1, 2, 3]] sink).run [[10, 20], [30, 40, 50, 60]] ≠ [10, 20, 30, 40, 50, 60] := by
  decide
example : LGood (xorLayer [7]) := xor_lossless [7] (by simp)
-- the CBK block transform on a 17-byte buffer (block size 16, count byte 3) with a key that divided
-- by zero before the repair
example : ∃ c, Cbk.encBlock ⟨119, 84, 48, 3⟩ 1 ([1, 2, 3] ++ List.replicate 13 0 ++ [3]) = some c ∧
    c ≠ [1, 2, 3] ++ List.replicate 13 0 ++ [3] := by
  obtain ⟨c, h, _, _⟩ := cbk_block ⟨119, 84, 48, 3⟩ 1 ([1, 2, 3] ++ List.replicate 13 0 ++ [3]) (by decide)
  refine ⟨c, h, ?_⟩
  intro e; rw [e] at h; revert h; decide

-- DNS: the three domain shapes that did not round-trip before the repairs, and a plain one, in both
-- modes, on a concrete payload (kernel-evaluated model run of encoder and decoder)
example : ∀ server ∈ [true, false], ∀ dom ∈ ([[101,120,97,109,112,108,101,46,99,111,109,46],  -- "example.com."
      [97,46,46,98], [46,97], List.replicate 70 120,                                  -- "a..b", ".a", 70 x 'x'
      [101,120,97,109,112,108,101,46,99,111,109]] : List Bytes),                       -- "example.com"
    (Dns.write server dom [fun _ => 7] [1, 2, 3]).map (fun pk => Dns.read pk.flatten)
      = some ([[1, 2, 3]], none) := by decide

/-! ## closed instances of the composition theorems -/

/-- the DNS transform as a `Transform` of the send/receive composition -/
def dnsTransform (server : Bool) (dom : Bytes) (rs : List (Nat → UInt8)) : Transform where
  write x := (Dns.write server dom rs x).map List.flatten
  read y := match Dns.read y with | (ws, none) => some ws.flatten | _ => none

theorem dnsTransform_lossless (server : Bool) (dom : Bytes) (rs : List (Nat → UInt8)) (hdom : dom.length ≤ 255) :
    ∀ x, ∃ y, (dnsTransform server dom rs).write x = some y ∧ (dnsTransform server dom rs).read y = some x := by
  intro x
  obtain ⟨pk, ws, h1, h2, h3⟩ := dns_roundtrip server dom rs x hdom
  exact ⟨pk.flatten, by simp [dnsTransform, h1], by simp [dnsTransform, h2, h3]⟩

/-- a layer the proofs of this file cover without assumptions: the XOR wrapper with a non-empty key or
the CBK wrapper with an accepted key and block size -/
def ProvedLayer (L : Layer) : Prop :=
  (∃ key, key ≠ [] ∧ L = xorLayer key) ∨
  (∃ a b c d sz s0, Cbk.newSource a b c d sz = some s0 ∧ L = Cbk.cbkLayer s0)

theorem provedLayer_good {L : Layer} (h : ProvedLayer L) : LGood L := by
  rcases h with ⟨key, hk, rfl⟩ | ⟨a, b, c, d, sz, s0, hs, rfl⟩
  · exact xor_lossless key hk
  · exact cbk_stream a b c d sz s0 hs

/-- **Closed instance**: a packet sent through ANY stack of XOR and CBK wrappers (any depth, any keys)
and the DNS transform (either mode, any domain of at most 255 bytes, any filler) — or no transform —
and read back through the receive path is the packet that was sent, for any packet codec with a round
trip (C01 proves it for `Packet.Marshal` / `Unmarshal`). Nothing else is assumed: this is
`sendrecv` with every hypothesis about wrappers and transform discharged by the theorems above. -/
theorem sendrecv_xor_cbk_dns {P : Type} (m : List Layer) (hm : ∀ L ∈ m, ProvedLayer L)
    (t : Option (Bool × Bytes × List (Nat → UInt8))) (ht : ∀ x, t = some x → x.2.1.length ≤ 255)
    (marshal : P → List Bytes) (unmarshal : Bytes → Option P)
    (hp : ∀ p, unmarshal (marshal p).flatten = some p) (p : P) :
    ∃ wire, writePacket (some (multiWrap m sink)) (t.map fun x => dnsTransform x.1 x.2.1 x.2.2) (marshal p) = some wire ∧
      readPacket (some (multiUnwrap m)) (t.map fun x => dnsTransform x.1 x.2.1 x.2.2) unmarshal wire = some p := by
  apply sendrecv m (fun L hL => provedLayer_good (hm L hL)) _ _ marshal unmarshal hp p
  intro tr htr
  cases t with
  | none => simp at htr
  | some x =>
    simp only [Option.map_some, Option.some.injEq] at htr
    subst htr
    exact dnsTransform_lossless x.1 x.2.1 x.2.2 (ht x rfl)

end XMT.Props.C07
