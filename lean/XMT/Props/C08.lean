/-
  C08 — A binary profile built from settings means exactly those settings.
  Property theorems only; the lemmas live in XMT/CfgBuildPack.lean (one per public constructor,
  then induction over groups), CfgEquiv.lean and CfgTotal.lean.

  Model: XMT/CfgPack.lean (constructors, Pack/AddGroup, meaning) and XMT/Cfg.lean (parser).
  `tls ca pem key` stands for `com.NewTLSConfig` accepting the PEM blocks (only Build parses them).
-/
import XMT.CfgBuildPack
import XMT.CfgEquiv
import XMT.CfgGroups
import XMT.CfgGroupsPack
namespace XMT.Props.C08
open XMT XMT.Cfg

/-- **Main theorem.** For any list of groups of settings from the public constructors — every
argument length (hosts, keys, certificates up to and beyond the 65535 limit, header maps and domain
lists up to 255), any order, any offsets — with each group in its documented domain (`groupsOK`):
building the packed bytes yields exactly the profiles meant (hosts, sleep, jitter, kill date, work
hours, pinned keys, weight, connector, wrapper stack, transform — in the supplied order), the group
selector named last, and the identical bytes retained as source. -/
theorem build_pack (tls : Bytes → Bytes → Bytes → Bool) (gs : List (List Setting))
    (hok : groupsOK tls gs = true) : build tls (packGroups gs) = .ok (meaning gs) :=
  build_packGroups tls gs hok

/-- The stride lemma behind it, for every constructor: a non-nil setting in its domain placed
anywhere in a config (`pre`/`post` arbitrary bytes) is stepped over exactly — `stride` at its first
byte returns the offset just after its last byte (this is where `offset + low byte` used to leak
into the high byte). -/
theorem setting_stride (tls : Bytes → Bytes → Bytes → Bool) (s : Setting) (hd : s.inDom tls = true)
    (he : s.enc ≠ []) (pre post : Bytes) :
    stride (pre ++ s.enc ++ post) pre.length = .ok (pre.length + s.enc.length) :=
  (setting_spec tls s hd he pre post {} 0 (fun _ => rfl) (fun _ => rfl)).2.2.1

/-- …and decoded by build's switch to exactly its meaning, whatever precedes and follows. -/
theorem setting_decode (tls : Bytes → Bytes → Bytes → Bool) (s : Setting) (hd : s.inDom tls = true)
    (he : s.enc ≠ []) (pre post : Bytes) (P : Profile) (z : Nat)
    (hc : s.isConn = true → P.conn = none) (ht : s.isTrans = true → P.trans = none) :
    bcase tls (pre ++ s.enc ++ post) pre.length (pre.length + s.enc.length) s.tag P z =
      .ok (applySetting (P, z) s) :=
  (setting_spec tls s hd he pre post P z hc ht).2.2.2

/-- Validation succeeds on every such config (it succeeds exactly when building does, below). -/
theorem validate_pack (tls : Bytes → Bytes → Bytes → Bool) (gs : List (List Setting))
    (hok : groupsOK tls gs = true) : validate (packGroups gs) = .ok () := by
  have hb := build_pack tls gs hok
  rcases build_tls tls (packGroups gs) with h | ⟨l, h⟩
  · exact (validate_iff_build_allTrue _).mpr ⟨_, by rw [← h, hb]⟩
  · rw [hb] at h; cases h

/-- Validation succeeds exactly when building succeeds — for every byte string, certificate and
key contents (which only building parses) aside. -/
theorem validate_iff_build (tls : Bytes → Bytes → Bytes → Bool) (c : Bytes) :
    ((∃ b, build tls c = .ok b) → validate c = .ok ()) ∧
    (validate c = .ok () → (∃ b, build tls c = .ok b) ∨ ∃ l, build tls c = .error (.err l .ext)) := by
  constructor
  · rintro ⟨b, hb⟩
    rcases build_tls tls c with h | ⟨l, h⟩
    · exact (validate_iff_build_allTrue c).mpr ⟨b, by rw [← h, hb]⟩
    · rw [hb] at h; cases h
  · intro hv
    obtain ⟨b, hb⟩ := (validate_iff_build_allTrue c).mp hv
    rcases build_tls tls c with h | h
    · left; exact ⟨b, by rw [h, hb]⟩
    · right; exact h

/-- The profile hands back the identical bytes for re-transmission (`MarshalBinary` returns the
retained `src`), for every byte string that builds. -/
theorem marshalBinary_id (tls : Bytes → Bytes → Bytes → Bool) (c : Bytes) (b : Built)
    (h : build tls c = .ok (some b)) : b.src = c := by
  unfold build at h
  split at h
  · cases h
  · cases hl : buildLoop tls c (c.length + 1) 0 [] 0 with
    | error e => rw [hl] at h; cases h
    | ok r =>
      obtain ⟨e, g⟩ := r
      rw [hl] at h
      simp only [ok_bind] at h
      split at h
      · cases h
      · cases h; rfl

/-- The entries of a Group come back in descending weight order and are exactly the profiles
built (a permutation of them). -/
theorem sorted_by_weight (es : List Profile) :
    (sortByWeight es).Perm es ∧ (sortByWeight es).Pairwise (fun a b => a.weight ≥ b.weight) := by
  unfold sortByWeight
  refine ⟨List.mergeSort_perm _ _, ?_⟩
  have := List.pairwise_mergeSort (le := fun (a b : Profile) => decide (a.weight ≥ b.weight))
    (by intro a b c h1 h2; simp only [decide_eq_true_eq] at *; omega)
    (by intro a b; simp only [Bool.or_eq_true, decide_eq_true_eq]; omega) es
  simpa using this

/-- **Group extraction partitions the bytes at the separators** — for every non-empty byte string
(not only constructor output): `Groups()` is the number of parts, `Group(p)` is the p-th part for
every `0 ≤ p < Groups()`, and the parts joined by the separator byte are the config. -/
theorem groups_partition (c : Bytes) (hc : c ≠ []) :
    ∃ parts : List Bytes, groups c = .ok parts.length ∧
      (∀ p : Nat, p < parts.length → group c (p : Int) = .ok parts[p]?) ∧ joinSep parts = c :=
  groups_partition_all c hc

/-- **For packed configs the parts are the groups that were added** — for every list of groups
produced by the public constructors (`groupsOK`): `Groups()` is the number of groups added and
`Group(i)` is exactly the bytes of the i-th group added. (`groups_partition` alone only says the
bytes are cut at the separators the stride walk visits; that those are exactly the separators
`AddGroup` wrote, and that no offset the walk visits inside a group holds the separator tag — also
not a length byte or payload byte equal to 0xFA — follows from the per-constructor stride facts.) -/
theorem groups_of_pack (tls : Bytes → Bytes → Bytes → Bool) (gs : List (List Setting))
    (hok : groupsOK tls gs = true) :
    groups (packGroups gs) = .ok gs.length ∧
      ∀ i : Nat, i < gs.length → group (packGroups gs) (i : Int) = .ok (gs[i]?.map bytesOf) :=
  groups_of_pack_all tls gs hok

/-! Non-vacuity: concrete settings lists meet `groupsOK`, and the model really computes the
expected bytes and profile — including the inputs of the three defects this property exposed
(a 500-byte host at offset 10, a certificate longer than its key, a DNS transform after a host). -/
example : groupsOK (fun _ _ _ => true)
    [[.host [0x61], .flag tTCP, .sleep 5000000000, .jitter 10, .weight 10],
     [.host [0x62, 0x63], .dns [[0x64]], .flag tSelRandom, .xor [1, 2, 3], .tlsExCA 0 []]] = true := by decide
example : packGroups [[.host [0x61], .flag tTCP], [.weight 7]] = [0xA0, 0, 1, 0x61, 0xC0, 0xFA, 0xA3, 7] := by
  decide
example (s : Bytes) (h : s.length = 500) : (Setting.host s).enc = [0xA0, 1, 0xF4] ++ s := by
  have : s.take 500 = s := List.take_of_length_le (by omega)
  simp [Setting.enc, h, cap16, this, byteOf, Facts.cfg_valHost]
example : (Setting.tlsCerts 0 [1, 2, 3] [9]).enc = [0xB5, 0, 0, 3, 0, 1, 1, 2, 3, 9] := by decide
example : groups [0xC0, 0xFA, 0xC1] = .ok 2 ∧ group [0xC0, 0xFA, 0xC1] 1 = .ok (some [0xC1]) ∧
    joinSep [[0xC0], [0xC1]] = [0xC0, 0xFA, 0xC1] := ⟨rfl, rfl, rfl⟩
example : build (fun _ _ _ => true) (packGroups [[.host [0x61], .dns [[0x64]]]]) =
    .ok (some ⟨[{ hosts := [[0x61]], trans := some (.dns [[0x64]]) }], 0, [0xA0, 0, 1, 0x61, 0xE1, 1, 1, 0x64]⟩) := rfl

/-- `groups_of_pack` on a concrete two-group config whose first group contains the byte 0xFA as a
payload byte (a host name) and as a length byte: the walk does not take either for a separator. -/
example : groups (packGroups [[.host [0xFA, 0x61], .flag tTCP], [.weight 7, .jitter 0xFA]]) = .ok 2 ∧
    group (packGroups [[.host [0xFA, 0x61], .flag tTCP], [.weight 7, .jitter 0xFA]]) 1 =
      .ok (some [0xA3, 7, 0xA2, 0xFA]) := by
  have h := groups_of_pack (fun _ _ _ => true) [[.host [0xFA, 0x61], .flag tTCP], [.weight 7, .jitter 0xFA]] (by decide)
  exact ⟨h.1, h.2 1 (by decide)⟩

end XMT.Props.C08
