/-
  C09 — Arbitrary profile bytes never crash the parser and validate iff they build.
  Property theorems only; the lemmas live in XMT/CfgTotal.lean, CfgJsonTotal.lean, CfgEquiv.lean.

  `Safe x` says: `x` is a value or an error of the package — not a panic (out-of-range index or
  slice) and not running out of loop fuel (non-termination).  The model (XMT/Cfg.lean,
  XMT/CfgJson.lean) mirrors convert.go / config.go / z_json.go with every index and slice checked.
-/
import XMT.CfgTotal
import XMT.CfgJsonTotal
import XMT.CfgEquiv
namespace XMT.Props.C09
open XMT XMT.Cfg

/-- The case-label sets the theorems rely on, regenerated from the source on every run: `build`
handles exactly the tags `validate` handles, and `next` knows all of them except `invalid`. -/
theorem tie_case_labels :
    Facts.cfg_cases_build = Facts.cfg_cases_validate ∧
    Facts.cfg_cases_next = Facts.cfg_cases_validate.filter (· ≠ Facts.cfg_invalid) := by decide

/-- The stride expressions of `next` as parsed from the source (fully parenthesised): the 16-bit
lengths are grouped before being added to the offset. -/
theorem tie_next_strides :
    Facts.cfg_next_ret_valXOR_valHost = "((i + 3) + (int(c[(i + 2)]) | (int(c[(i + 1)]) << 8)))" ∧
    Facts.cfg_next_ret_valTLSxCA = "((i + 4) + (int(c[(i + 3)]) | (int(c[(i + 2)]) << 8)))" ∧
    Facts.cfg_next_ret_valAES = "(((i + 3) + int(c[(i + 1)])) + int(c[(i + 2)]))" := ⟨rfl, rfl, rfl⟩

/-- `next` (the stride function every entry point uses) returns normally at every offset inside
the config, for every byte string. -/
theorem next_total (c : Bytes) (i : Nat) (hi : i < c.length) : ∃ r, next c i = .ok r :=
  next_ok c i (by omega)

/-- and when it returns an offset, the offset is strictly larger (every loop over `next` makes
progress, so none of them can spin). -/
theorem next_progress (c : Bytes) (i r : Nat) (hi : i < c.length) (h : next c i = .ok (some r)) :
    i < r := next_gt c i r hi h

/-- `Validate` returns normally — nil or an error — for every byte string. -/
theorem validate_total (c : Bytes) : Safe (validate c) := validate_safe c

/-- `Build` returns normally for every byte string, whatever the certificate parser says. -/
theorem build_total (tls : Bytes → Bytes → Bytes → Bool) (c : Bytes) : Safe (build tls c) :=
  build_safe tls c

/-- `Groups` returns normally for every byte string. -/
theorem groups_total (c : Bytes) : Safe (groups c) := groups_safe c

/-- `Group(p)` returns normally for every byte string and every position (negative included). -/
theorem group_total (c : Bytes) (p : Int) : Safe (group c p) := group_safe c p

/-- `MarshalJSON` returns normally for every byte string. -/
theorem json_total (c : Bytes) : Safe (jsonOutcome c) := json_safe c

/-- `String` returns normally for every byte string. -/
theorem string_total (c : Bytes) : Safe (stringOutcome c) := string_safe c

/-- Anything that builds validates. -/
theorem build_ok_validates (tls : Bytes → Bytes → Bytes → Bool) (c : Bytes) (b : Option Built)
    (h : build tls c = .ok b) : validate c = .ok () := by
  rcases build_tls tls c with h' | ⟨l, h'⟩
  · exact (validate_iff_build_allTrue c).mpr ⟨b, by rw [← h', h]⟩
  · rw [h] at h'; cases h'

/-- Anything that validates builds — except where building alone rejects the contents of an
embedded certificate or key (an error of the external constructor, class `ext`). -/
theorem validate_ok_builds (tls : Bytes → Bytes → Bytes → Bool) (c : Bytes) (h : validate c = .ok ()) :
    (∃ b, build tls c = .ok b) ∨ (∃ l, build tls c = .error (.err l .ext)) := by
  obtain ⟨b, hb⟩ := (validate_iff_build_allTrue c).mp h
  rcases build_tls tls c with h' | h'
  · left; exact ⟨b, by rw [h', hb]⟩
  · right; exact h'

/-- With certificate and key contents accepted the two agree exactly. -/
theorem validate_iff_build (c : Bytes) :
    validate c = .ok () ↔ ∃ b, build (fun _ _ _ => true) c = .ok b :=
  validate_iff_build_allTrue c

/-! Non-vacuity: the model really rejects / accepts, and the repaired inputs of the four defects
behave as the theorems say (on the unrepaired parser the first and third panicked and the second
validated without building). -/
example : validate [0xB1, 0, 0, 0, 0, 0, 0, 1, 5] = .error (.err "wc2" .invalid) := rfl
example : validate [0xA8, 50] = .ok () ∧ (build (fun _ _ _ => true) [0xA8, 50]).isOk = true := ⟨rfl, rfl⟩
example : build (fun _ _ _ => false) [0xA0, 0, 3, 3] = .error (.err "host" .invalid) := rfl
example : validate [0xC0, 0xA0, 0, 1, 0x41] = .ok () := rfl
example : build (fun _ _ _ => false) [0xB4, 0, 0, 1, 0x41] = .error (.err "tls-ca" .ext) ∧
    validate [0xB4, 0, 0, 1, 0x41] = .ok () := ⟨rfl, rfl⟩
example : next [0xA0, 1, 0xF4] 0 = .ok none ∧ next [0xA0, 0, 1, 7, 0xC0] 0 = .ok (some 4) := ⟨rfl, rfl⟩

end XMT.Props.C09
