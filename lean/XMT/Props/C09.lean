/-
  C09 — Arbitrary profile bytes never crash the parser and validate iff they build.
  Property theorems only; the lemmas live in XMT/CfgTotal.lean, CfgJsonTotal.lean, CfgEquiv.lean.

  `Safe x` says: `x` is a value or an error of the package — not a panic (out-of-range index or
  slice) and not running out of loop fuel (non-termination).  The model (XMT/Cfg.lean,
  XMT/CfgJson.lean) mirrors convert.go / config.go / z_json.go with every index and slice checked.
-/
import XMT.CfgTotal
import XMT.CfgJsonTotal
import XMT.CfgEquiv
import XMT.TieXlateCfg
namespace XMT.Props.C09
open XMT XMT.Cfg

/-- The case-label sets the theorems rely on, regenerated from the source on every run: `build`
handles exactly the tags `validate` handles, and `next` knows all of them except `invalid`. -/
theorem tie_case_labels :
    Facts.cfg_cases_build = Facts.cfg_cases_validate ∧
    Facts.cfg_cases_next = Facts.cfg_cases_validate.filter (· ≠ Facts.cfg_invalid) := by decide

/-- The stride expressions of `next` as parsed from the source (fully parenthesised): the 16-bit
lengths are grouped before being added to the offset. -/
theorem tie_next_strides :
    Facts.cfg_next_ret_valXOR_valHost = "((i + 3) + (int(c[(i + 2)]) | (int(c[(i + 1)]) << 8)))" ∧
    Facts.cfg_next_ret_valTLSxCA = "((i + 4) + (int(c[(i + 3)]) | (int(c[(i + 2)]) << 8)))" ∧
    Facts.cfg_next_ret_valAES = "(((i + 3) + int(c[(i + 1)])) + int(c[(i + 2)]))" := ⟨rfl, rfl, rfl⟩

/-- `next` (the stride function every entry point uses) returns normally at every offset inside
the config, for every byte string. -/
theorem next_total (c : Bytes) (i : Nat) (hi : i < c.length) : ∃ r, next c i = .ok r :=
  next_ok c i (by omega)

/-- and when it returns an offset, the offset is strictly larger (every loop over `next` makes
progress, so none of them can spin). -/
theorem next_progress (c : Bytes) (i r : Nat) (hi : i < c.length) (h : next c i = .ok (some r)) :
    i < r := next_gt c i r hi h

/-- `Validate` returns normally — nil or an error — for every byte string. -/
theorem validate_total (c : Bytes) : Safe (validate c) := validate_safe c

/-- `Build` returns normally for every byte string, whatever the certificate parser says. -/
theorem build_total (tls : Bytes → Bytes → Bytes → Bool) (c : Bytes) : Safe (build tls c) :=
  build_safe tls c

/-- `Groups` returns normally for every byte string. -/
theorem groups_total (c : Bytes) : Safe (groups c) := groups_safe c

/-- `Group(p)` returns normally for every byte string and every position (negative included). -/
theorem group_total (c : Bytes) (p : Int) : Safe (group c p) := group_safe c p

/-- `MarshalJSON` returns normally for every byte string. -/
theorem json_total (c : Bytes) : Safe (jsonOutcome c) := json_safe c

/-- `String` returns normally for every byte string. -/
theorem string_total (c : Bytes) : Safe (stringOutcome c) := string_safe c

/-- Anything that builds validates. -/
theorem build_ok_validates (tls : Bytes → Bytes → Bytes → Bool) (c : Bytes) (b : Option Built)
    (h : build tls c = .ok b) : validate c = .ok () := by
  rcases build_tls tls c with h' | ⟨l, h'⟩
  · exact (validate_iff_build_allTrue c).mpr ⟨b, by rw [← h', h]⟩
  · rw [h] at h'; cases h'

/-- Anything that validates builds — except where building alone rejects the contents of an
embedded certificate or key (an error of the external constructor, class `ext`). -/
theorem validate_ok_builds (tls : Bytes → Bytes → Bytes → Bool) (c : Bytes) (h : validate c = .ok ()) :
    (∃ b, build tls c = .ok b) ∨ (∃ l, build tls c = .error (.err l .ext)) := by
  obtain ⟨b, hb⟩ := (validate_iff_build_allTrue c).mp h
  rcases build_tls tls c with h' | h'
  · left; exact ⟨b, by rw [h', hb]⟩
  · right; exact h'

/-- With certificate and key contents accepted the two agree exactly. -/
theorem validate_iff_build (c : Bytes) :
    validate c = .ok () ↔ ∃ b, build (fun _ _ _ => true) c = .ok b :=
  validate_iff_build_allTrue c

/-! Non-vacuity: the model really rejects / accepts, and the repaired inputs of the four defects
behave as the theorems say (on the unrepaired parser the first and third panicked and the second
validated without building). -/
example : validate [0xB1, 0, 0, 0, 0, 0, 0, 1, 5] = .error (.err "wc2" .invalid) := rfl
example : validate [0xA8, 50] = .ok () ∧ (build (fun _ _ _ => true) [0xA8, 50]).isOk = true := ⟨rfl, rfl⟩
example : build (fun _ _ _ => false) [0xA0, 0, 3, 3] = .error (.err "host" .invalid) := rfl
example : validate [0xC0, 0xA0, 0, 1, 0x41] = .ok () := rfl
example : build (fun _ _ _ => false) [0xB4, 0, 0, 1, 0x41] = .error (.err "tls-ca" .ext) ∧
    validate [0xB4, 0, 0, 1, 0x41] = .ok () := ⟨rfl, rfl⟩
example : next [0xA0, 1, 0xF4] 0 = .ok none ∧ next [0xA0, 0, 1, 7, 0xC0] 0 = .ok (some 4) := ⟨rfl, rfl⟩

/-! ### `next` of the CURRENT source (session 3, translator part 2)

`Facts.x_cfg_Config_next` is regenerated from c2/cfg/convert.go on every run (whole body of `next`,
`none` = index out of range, the value is Go's result with `-1`); `XMT.TieXlateCfg.x_next_eq_partial`
proves it equal to the hand model for the tags of `provedTags` (fixed strides, valXOR/valHost). -/
section Src
open XMT.TieXlateCfg

-- OPEN: src_next_total / src_next_progress without the hypothesis `hT` (needs x_next_eq for the arms
-- valAES, valMuTLS, valTLSxCA, valTLSCert, valWC2, valDNS and the no-label case; these arms are compared
-- with the real function by the differential group `xnext`).

/-- `next_total` for the regenerated function: at every offset inside the config it returns a value,
never an index panic (tags of `provedTags`). -/
theorem src_next_total_partial (c : Bytes) (i : Nat) (hlen : c.length < 2^62) (hi : i < c.length)
    (hT : ∀ b, c[i]? = some b → b.toNat ∈ provedTags) :
    ∃ r, Facts.x_cfg_Config_next c (i : Int) = some r := by
  obtain ⟨r, h⟩ := next_total c i hi
  rw [x_next_eq_partial c i hlen hT, h]
  cases r <;> exact ⟨_, rfl⟩

/-- `next_progress` for the regenerated function: a result other than `-1` is strictly larger than the
offset (tags of `provedTags`). -/
theorem src_next_progress_partial (c : Bytes) (i : Nat) (r : Int) (hlen : c.length < 2^62) (hi : i < c.length)
    (hT : ∀ b, c[i]? = some b → b.toNat ∈ provedTags)
    (h : Facts.x_cfg_Config_next c (i : Int) = some r) (hr : r ≠ -1) : (i : Int) < r := by
  rw [x_next_eq_partial c i hlen hT] at h
  obtain ⟨m, hm⟩ := next_total c i hi
  rw [hm] at h
  cases m with
  | none => simp only [conv, Option.some.injEq] at h; omega
  | some n =>
    have := next_progress c i n hi hm
    simp only [conv, Option.some.injEq] at h
    omega

/-- A negative offset: `-1` (all byte strings, all tags). -/
theorem src_next_negative (c : Bytes) (i : Int) (h : i < 0) : Facts.x_cfg_Config_next c i = some (-1) :=
  next_neg c i h

-- non-vacuity: the hypotheses hold of real settings and the regenerated function computes
-- (host "\x07" of length 1 then a separator; a truncated host; the tag read at i = len(c) panics)
example : (∀ b, ([0xA0, 0, 1, 7, 0xC0] : Bytes)[0]? = some b → b.toNat ∈ provedTags) ∧
    Facts.x_cfg_Config_next [0xA0, 0, 1, 7, 0xC0] 0 = some 4 ∧
    Facts.x_cfg_Config_next [0xA0, 1, 0xF4] 0 = some (-1) ∧ Facts.x_cfg_Config_next [0xA0, 1, 0xF4] 3 = none ∧
    Facts.x_cfg_Config_next [0xE1, 2, 1, 65, 2, 66, 67, 0xC0] 0 = some 7 := by decide
end Src

end XMT.Props.C09
