/-
  C10 — The typed binary codec round-trips every value and both implementations agree.
  Property theorems only; lemmas live in XMT/Codec*.lean.
-/
import XMT.CodecPrefix
namespace XMT.Props.C10
open XMT XMT.Codec

/-- Both writers emit byte-identical encodings (the stream writer's `Write` calls, concatenated,
are the in-memory writer's bytes). -/
theorem writers_agree (v : Val) : (encStream v).flatten = encChunk v := by
  have hb : ∀ b : Bytes, (encBytesStream b).flatten = encBytesChunk b := by
    intro b
    unfold encBytesStream encBytesChunk
    split
    · rename_i h
      have : b = [] := List.length_eq_zero_iff.mp h
      subst this; simp [lenPrefix]
    · simp
  cases v with
  | strs l =>
    simp only [encStream, encChunk, List.flatten_append, List.flatten_cons, List.flatten_nil,
      List.append_nil]
    congr 1
    induction l with
    | nil => rfl
    | cons b l ih => simp [List.flatMap_cons, hb, ih]
  | bytes b => exact hb b
  | _ => simp [encStream, encChunk]

theorem writers_agree_all (vs : List Val) : (encAllStream vs).flatten = encAllChunk vs := by
  induction vs with
  | nil => rfl
  | cons v vs ih =>
    simp only [encAllStream, encAllChunk, List.flatMap_cons, List.flatten_append] at ih ⊢
    rw [writers_agree, ih]

/-- Pairings (either writer) × Chunk reader: the values come back in order and exactly the written
bytes are consumed (`rest` is whatever follows on the buffer). -/
theorem roundtrip_chunkReader (vs : List Val) (hv : ∀ v ∈ vs, v.WF) (rest : Bytes) :
    decAll chunkPrim (vs.map Val.ty) (encAllChunk vs ++ rest) = .ok (vs, rest) ∧
    decAll chunkPrim (vs.map Val.ty) ((encAllStream vs).flatten ++ rest) = .ok (vs, rest) := by
  obtain ⟨s', h1, h2, _⟩ := decAll_ok chunk_lawful vs hv (encAllChunk vs ++ rest) rest trivial rfl
  simp only [id] at h2; subst h2
  exact ⟨h1, by rw [writers_agree_all]; exact h1⟩

/-- Pairings (either writer) × stream reader, for **every** way the underlying `io.Reader` splits
the bytes into (non-empty) short reads. -/
theorem roundtrip_streamReader (vs : List Val) (hv : ∀ v ∈ vs, v.WF) (rest : Bytes)
    (cs : Stream) (hne : NoEmpty cs)
    (hcs : cs.flatten = encAllChunk vs ++ rest ∨ cs.flatten = (encAllStream vs).flatten ++ rest) :
    ∃ cs', decAll streamPrim (vs.map Val.ty) cs = .ok (vs, cs') ∧ cs'.flatten = rest := by
  have h : cs.flatten = encAllChunk vs ++ rest := by
    rcases hcs with h | h
    · exact h
    · rw [h, writers_agree_all]
  obtain ⟨s', h1, h2, _⟩ := decAll_ok stream_lawful vs hv cs rest hne h
  exact ⟨s', h1, h2⟩

/-- Reading past the end reports an error rather than fabricating a value: every strict prefix
of an encoded sequence makes the Chunk reader stop with an error, having produced only values that
were really written. -/
theorem truncated_chunkReader (vs : List Val) (hv : ∀ v ∈ vs, v.WF) (p : Bytes)
    (hp : p <+: encAllChunk vs) (hne : p ≠ encAllChunk vs) :
    ∃ e k, decAll chunkPrim (vs.map Val.ty) p = .error (e, vs.take k) :=
  decAll_prefix_err chunk_lawful vs hv p trivial hp (strict_prefix_length hp hne)

/-- Same for the stream reader under every chunking. -/
theorem truncated_streamReader (vs : List Val) (hv : ∀ v ∈ vs, v.WF) (cs : Stream)
    (hne : NoEmpty cs) (hp : cs.flatten <+: encAllChunk vs) (hs : cs.flatten ≠ encAllChunk vs) :
    ∃ e k, decAll streamPrim (vs.map Val.ty) cs = .error (e, vs.take k) :=
  decAll_prefix_err stream_lawful vs hv cs hne hp (strict_prefix_length hp hs)

/-! Non-vacuity: concrete values on both sides of a prefix-class switch meet the hypotheses, and
the model really computes the expected result. -/
example : (Val.bytes [7, 7, 7]).WF ∧ (Val.strs [[1], []]).WF ∧ (Val.u32 4000000000).WF := by
  refine ⟨by simp [Val.WF, Facts.maxSlice], ⟨by simp, ?_⟩, by simp [Val.WF]⟩
  intro s hs; simp at hs; rcases hs with rfl | rfl <;> simp [Facts.maxSlice]
example : lenPrefix 255 = [1, 255] ∧ lenPrefix 256 = [3, 1, 0] ∧ lenPrefix 65536 = [5, 0, 1, 0, 0] := by
  decide
example : decAll chunkPrim [.u16, .bool] [1, 2, 1, 9] = .ok ([.u16 258, .bool true], [9]) := by rfl
example : decAll streamPrim [.u16, .bool] [[1], [2, 1, 9]] = .ok ([.u16 258, .bool true], [[9]]) := by
  rfl
example : decAll chunkPrim [.u16, .u32] [1, 2, 1, 9] = .error (.eof, [.u16 258]) := by rfl

end XMT.Props.C10
