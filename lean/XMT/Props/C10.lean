/-
  C10 — The typed binary codec round-trips every value and both implementations agree.
  Property theorems only; lemmas live in XMT/Codec*.lean.
-/
import XMT.CodecPrefix
import XMT.CodecTypedLemmas
import XMT.CodecIO
import XMT.CodecClasses
namespace XMT.Props.C10
open XMT XMT.Codec

/-- Both writers emit byte-identical encodings (the stream writer's `Write` calls, concatenated,
are the in-memory writer's bytes). -/
theorem writers_agree (v : Val) : (encStream v).flatten = encChunk v := by
  have hb : ∀ b : Bytes, (encBytesStream b).flatten = encBytesChunk b := by
    intro b
    unfold encBytesStream encBytesChunk
    split
    · rename_i h
      have : b = [] := List.length_eq_zero_iff.mp h
      subst this; simp [lenPrefix]
    · simp
  cases v with
  | strs l =>
    simp only [encStream, encChunk, List.flatten_append, List.flatten_cons, List.flatten_nil,
      List.append_nil]
    congr 1
    induction l with
    | nil => rfl
    | cons b l ih => simp [List.flatMap_cons, hb, ih]
  | bytes b => exact hb b
  | _ => simp [encStream, encChunk]

theorem writers_agree_all (vs : List Val) : (encAllStream vs).flatten = encAllChunk vs := by
  induction vs with
  | nil => rfl
  | cons v vs ih =>
    simp only [encAllStream, encAllChunk, List.flatMap_cons, List.flatten_append] at ih ⊢
    rw [writers_agree, ih]

/-- Pairings (either writer) × Chunk reader: the values come back in order and exactly the written
bytes are consumed (`rest` is whatever follows on the buffer). -/
theorem roundtrip_chunkReader (vs : List Val) (hv : ∀ v ∈ vs, v.WF) (rest : Bytes) :
    decAll chunkPrim (vs.map Val.ty) (encAllChunk vs ++ rest) = .ok (vs, rest) ∧
    decAll chunkPrim (vs.map Val.ty) ((encAllStream vs).flatten ++ rest) = .ok (vs, rest) := by
  obtain ⟨s', h1, h2, _⟩ := decAll_ok chunk_lawful vs hv (encAllChunk vs ++ rest) rest trivial rfl
  simp only [id] at h2; subst h2
  exact ⟨h1, by rw [writers_agree_all]; exact h1⟩

/-- Pairings (either writer) × stream reader, for **every** way the underlying `io.Reader` splits
the bytes into (non-empty) short reads. -/
theorem roundtrip_streamReader (vs : List Val) (hv : ∀ v ∈ vs, v.WF) (rest : Bytes)
    (cs : Stream) (hne : NoEmpty cs)
    (hcs : cs.flatten = encAllChunk vs ++ rest ∨ cs.flatten = (encAllStream vs).flatten ++ rest) :
    ∃ cs', decAll streamPrim (vs.map Val.ty) cs = .ok (vs, cs') ∧ cs'.flatten = rest := by
  have h : cs.flatten = encAllChunk vs ++ rest := by
    rcases hcs with h | h
    · exact h
    · rw [h, writers_agree_all]
  obtain ⟨s', h1, h2, _⟩ := decAll_ok stream_lawful vs hv cs rest hne h
  exact ⟨s', h1, h2⟩

/-- Reading past the end reports an error rather than fabricating a value: every strict prefix
of an encoded sequence makes the Chunk reader stop with an error, having produced only values that
were really written. -/
theorem truncated_chunkReader (vs : List Val) (hv : ∀ v ∈ vs, v.WF) (p : Bytes)
    (hp : p <+: encAllChunk vs) (hne : p ≠ encAllChunk vs) :
    ∃ e k, decAll chunkPrim (vs.map Val.ty) p = .error (e, vs.take k) :=
  decAll_prefix_err chunk_lawful vs hv p trivial hp (strict_prefix_length hp hne)

/-- Same for the stream reader under every chunking. -/
theorem truncated_streamReader (vs : List Val) (hv : ∀ v ∈ vs, v.WF) (cs : Stream)
    (hne : NoEmpty cs) (hp : cs.flatten <+: encAllChunk vs) (hs : cs.flatten ≠ encAllChunk vs) :
    ∃ e k, decAll streamPrim (vs.map Val.ty) cs = .error (e, vs.take k) :=
  decAll_prefix_err stream_lawful vs hv cs hne hp (strict_prefix_length hp hs)

/-! Non-vacuity: concrete values on both sides of a prefix-class switch meet the hypotheses, and
the model really computes the expected result. -/
example : (Val.bytes [7, 7, 7]).WF ∧ (Val.strs [[1], []]).WF ∧ (Val.u32 4000000000).WF := by
  refine ⟨by simp [Val.WF, Facts.maxSlice], ⟨by simp, ?_⟩, by simp [Val.WF]⟩
  intro s hs; simp at hs; rcases hs with rfl | rfl <;> simp [Facts.maxSlice]
example : lenPrefix 255 = [1, 255] ∧ lenPrefix 256 = [3, 1, 0] ∧ lenPrefix 65536 = [5, 0, 1, 0, 0] := by
  decide
example : decAll chunkPrim [.u16, .bool] [1, 2, 1, 9] = .ok ([.u16 258, .bool true], [9]) := by rfl
example : decAll streamPrim [.u16, .bool] [[1], [2, 1, 9]] = .ok ([.u16 258, .bool true], [[9]]) := by
  rfl
example : decAll chunkPrim [.u16, .u32] [1, 2, 1, 9] = .error (.eof, [.u16 258]) := by rfl

/-! ## Extension (round 3): the whole exported codec surface, the length-prefix classes and
non-canonical headers, and the stream reader over an `io.Reader` described call by call. -/

/-! ### 1. Coverage of the codec surface (regenerated method lists of `data/*.go`) -/

/-- Every method of the `data.Reader` and `data.Writer` interfaces (as parsed from `data/data.go`
on this run) is in the coverage table `surface`, and where the table names a model function the
Go signature is the one that function models (`ReadInt16` is `(*int16) error`, …). -/
theorem surface_covers_interfaces :
    coversIface Facts.c10_ifaceReader = true ∧ coversIface Facts.c10_ifaceWriter = true := by
  constructor <;> decide

/-- Both implementations provide every interface method with the interface's signature:
`*data.Chunk` both interfaces, the stream `reader` the Reader, the stream `writer` the Writer. -/
theorem implementations_provide_interfaces :
    provides Facts.c10_methodsChunk Facts.c10_ifaceReader = true ∧
    provides Facts.c10_methodsChunk Facts.c10_ifaceWriter = true ∧
    provides Facts.c10_methodsStreamReader Facts.c10_ifaceReader = true ∧
    provides Facts.c10_methodsStreamWriter Facts.c10_ifaceWriter = true := by
  refine ⟨?_, ?_, ?_, ?_⟩ <;> decide

/-- No exported method of the three implementations is unaccounted for: each is an interface method
or one of the listed `*Chunk` extras (byte-queue / positional / wire-form methods of C11, C01, C06). -/
theorem surface_explains_every_method :
    explained Facts.c10_methodsChunk (Facts.c10_ifaceReader ++ Facts.c10_ifaceWriter) chunkExtras = true ∧
    explained Facts.c10_methodsStreamReader Facts.c10_ifaceReader [] = true ∧
    explained Facts.c10_methodsStreamWriter Facts.c10_ifaceWriter [] = true := by
  refine ⟨?_, ?_, ?_⟩ <;> decide

example : lookup "ReadInt16" = some (.readPtr .i16) ∧ lookup "WriteFloat64" = some (.write .f64) ∧
    (Cover.readPtr .i16).sig = some "(*int16) error" := by decide

/-- Go's conversions around the primitive codec lose nothing: `intW(uintW(n)) = n` for every `n`
of the signed type, for `int` through the 64-bit wire form on this platform. -/
theorem signed_casts_roundtrip :
    (∀ n, fitsS 8 n → toS 8 (toU 8 n) = n) ∧ (∀ n, fitsS 16 n → toS 16 (toU 16 n) = n) ∧
    (∀ n, fitsS 32 n → toS 32 (toU 32 n) = n) ∧ (∀ n, fitsS 64 n → toS 64 (toU 64 n) = n) ∧
    (∀ n, fitsS Facts.c10_intSize n → toS Facts.c10_intSize (toU 64 n) = n) :=
  ⟨fun n h => toS_toU (by simp) n h, fun n h => toS_toU (by simp) n h,
   fun n h => toS_toU (by simp) n h, fun n h => toS_toU (by simp) n h, int_cast_roundtrip⟩

example : toU 16 (-2) = 65534 ∧ toS 16 65534 = -2 ∧ toS 8 128 = -128 ∧ fitsS 8 (-128) ∧ ¬ fitsS 8 128 := by
  decide

/-- Both writers emit byte-identical encodings for every Go-level value (all 16 kinds). -/
theorem writers_agree_typed (gs : List GVal) : (encAllGStream gs).flatten = encAllGChunk gs := by
  rw [encAllGStream_lower, encAllGChunk_lower, writers_agree_all]

/-- Go-level round trip, (either writer) × Chunk reader: the caller gets back exactly the values
written — signed, platform-width, float bit patterns, strings — and exactly the written bytes are
consumed. -/
theorem roundtrip_typed_chunkReader (gs : List GVal) (hg : ∀ g ∈ gs, g.WF) (rest : Bytes) :
    decAllG chunkPrim (gs.map GVal.kind) (encAllGChunk gs ++ rest) = .ok (gs, rest) ∧
    decAllG chunkPrim (gs.map GVal.kind) ((encAllGStream gs).flatten ++ rest) = .ok (gs, rest) := by
  obtain ⟨s', h1, h2, _⟩ := decAllG_ok chunk_lawful gs hg (encAllGChunk gs ++ rest) rest trivial rfl
  simp only [id] at h2; subst h2
  exact ⟨h1, by rw [writers_agree_typed]; exact h1⟩

/-- Go-level truncation, Chunk reader. -/
theorem truncated_typed_chunkReader (gs : List GVal) (hg : ∀ g ∈ gs, g.WF) (p : Bytes)
    (hp : p <+: encAllGChunk gs) (hne : p ≠ encAllGChunk gs) :
    ∃ e k, decAllG chunkPrim (gs.map GVal.kind) p = .error (e, gs.take k) :=
  decAllG_prefix_err chunk_lawful gs hg p trivial hp (strict_prefix_length hp hne)

/-! ### 3. The stream reader over an `io.Reader` described call by call (`IOStream`): `(0, nil)`
reads anywhere, `io.EOF` together with the final data, `(0, io.EOF)`, any splitting. -/

/-- (either writer) × stream reader for **every** behaviour of the underlying `io.Reader` that keeps
the contract "no data after `io.EOF`" (`EofOK`): any splitting into short reads, no-progress
`(0, nil)` reads anywhere, the final bytes delivered together with `io.EOF`. -/
theorem roundtrip_ioReader (vs : List Val) (hv : ∀ v ∈ vs, v.WF) (rest : Bytes)
    (cs : IOStream) (hok : EofOK cs)
    (hcs : absIO cs = encAllChunk vs ++ rest ∨ absIO cs = (encAllStream vs).flatten ++ rest) :
    ∃ cs', decAll ioPrim (vs.map Val.ty) cs = .ok (vs, cs') ∧ absIO cs' = rest := by
  have h : absIO cs = encAllChunk vs ++ rest := by
    rcases hcs with h | h
    · exact h
    · rw [h, writers_agree_all]
  obtain ⟨s', h1, h2, _⟩ := decAll_ok io_lawful vs hv cs rest hok h
  exact ⟨s', h1, h2⟩

/-- Every strict prefix, delivered in any of those ways, makes the stream reader stop with an error
after values that were really written. -/
theorem truncated_ioReader (vs : List Val) (hv : ∀ v ∈ vs, v.WF) (cs : IOStream)
    (hok : EofOK cs) (hp : absIO cs <+: encAllChunk vs) (hs : absIO cs ≠ encAllChunk vs) :
    ∃ e k, decAll ioPrim (vs.map Val.ty) cs = .error (e, vs.take k) :=
  decAll_prefix_err io_lawful vs hv cs hok hp (strict_prefix_length hp hs)

/-- The same at the Go level (all 16 kinds). -/
theorem roundtrip_typed_ioReader (gs : List GVal) (hg : ∀ g ∈ gs, g.WF) (rest : Bytes)
    (cs : IOStream) (hok : EofOK cs)
    (hcs : absIO cs = encAllGChunk gs ++ rest ∨ absIO cs = (encAllGStream gs).flatten ++ rest) :
    ∃ cs', decAllG ioPrim (gs.map GVal.kind) cs = .ok (gs, cs') ∧ absIO cs' = rest := by
  have h : absIO cs = encAllGChunk gs ++ rest := by
    rcases hcs with h | h
    · exact h
    · rw [h, writers_agree_typed]
  obtain ⟨s', h1, h2, _⟩ := decAllG_ok io_lawful gs hg cs rest hok h
  exact ⟨s', h1, h2⟩

theorem truncated_typed_ioReader (gs : List GVal) (hg : ∀ g ∈ gs, g.WF) (cs : IOStream)
    (hok : EofOK cs) (hp : absIO cs <+: encAllGChunk gs) (hs : absIO cs ≠ encAllGChunk gs) :
    ∃ e k, decAllG ioPrim (gs.map GVal.kind) cs = .error (e, gs.take k) :=
  decAllG_prefix_err io_lawful gs hg cs hok hp (strict_prefix_length hp hs)

/-- `io.ReadFull` as modelled returns exactly the next `k` bytes of everything the reader will
deliver (fewer only at the end) and leaves the rest, for every script that keeps the contract. -/
theorem readFull_exact (cs : IOStream) (k : Nat) (hok : EofOK cs) :
    (readFullIO cs k).1 = (absIO cs).take k ∧ absIO (readFullIO cs k).2 = (absIO cs).drop k ∧
    EofOK (readFullIO cs k).2 :=
  ⟨readFullIO_fst cs k hok, readFullIO_snd cs k hok, readFullIO_inv cs k hok⟩

/-- The old piece-list streams are the scripts without flags. -/
theorem stream_is_io_script (cs : Stream) : EofOK (ofStream cs) ∧ absIO (ofStream cs) = cs.flatten :=
  ⟨ofStream_eofOK cs, absIO_ofStream cs⟩

/- non-vacuity: a script with a no-progress read, a split 16-bit value and the last byte delivered
together with io.EOF, followed by further EOFs -/
example : EofOK [⟨[], false⟩, ⟨[1], false⟩, ⟨[], false⟩, ⟨[2, 1], true⟩, ⟨[], true⟩] := by decide
example : decAllG ioPrim [.i16, .bool]
    [⟨[], false⟩, ⟨[0xFF], false⟩, ⟨[], false⟩, ⟨[0xFE, 1], true⟩, ⟨[], true⟩] =
    .ok ([.i16 (-2), .bool true], [⟨[], true⟩]) := by rfl
example : decAllG ioPrim [.u16] [⟨[1], true⟩] = .error (.unexpectedEOF, []) := by rfl
example : decAllG ioPrim [.u16] [⟨[], false⟩, ⟨[], true⟩] = .error (.eof, []) := by rfl

/-- Pointer readers `ReadX(p *T) error` of both readers: a complete encoding sets the destination
to the written value whatever it held before; a strict prefix reports an error and leaves the
destination untouched (nothing fabricated through the pointer either). -/
theorem pointer_read (g old : GVal) (hg : g.WF) :
    (∀ rest, readInto chunkPrim g.kind old (encGChunk g ++ rest) = (g, .ok rest)) ∧
    (∀ p, p <+: encGChunk g → p ≠ encGChunk g → ∃ e, readInto chunkPrim g.kind old p = (old, .error e)) ∧
    (∀ cs rest, EofOK cs → absIO cs = encGChunk g ++ rest →
      ∃ cs', readInto ioPrim g.kind old cs = (g, .ok cs') ∧ absIO cs' = rest) ∧
    (∀ cs, EofOK cs → absIO cs <+: encGChunk g → absIO cs ≠ encGChunk g →
      ∃ e, readInto ioPrim g.kind old cs = (old, .error e)) := by
  refine ⟨?_, ?_, ?_, ?_⟩
  · intro rest
    obtain ⟨s', h1, h2, _⟩ := readInto_ok chunk_lawful g old hg (encGChunk g ++ rest) rest trivial rfl
    simp only [id] at h2; subst h2; exact h1
  · intro p hp hne
    exact readInto_prefix chunk_lawful g old hg p trivial hp (strict_prefix_length hp hne)
  · intro cs rest hok h
    obtain ⟨s', h1, h2, _⟩ := readInto_ok io_lawful g old hg cs rest hok h
    exact ⟨s', h1, h2⟩
  · intro cs hok hp hne
    exact readInto_prefix io_lawful g old hg cs hok hp (strict_prefix_length hp hne)

example : readInto chunkPrim .i32 (.i32 7) [0xFF, 0xFF] = (.i32 7, .error .eof) ∧
    readInto chunkPrim .i32 (.i32 7) [0xFF, 0xFF, 0xFF, 0xFE, 9] = (.i32 (-2), .ok [9]) := ⟨rfl, rfl⟩

/-- `data.ReadStringList` into a destination that already holds `old` (both readers): the result
is `slIntoResult old l` — the written list only if the destination was shorter than it (or the
list is non-empty and exactly as long); an empty list leaves the destination as it is and a shorter
list keeps the destination's tail (the documented "resized only if not large enough"). -/
theorem strlist_into (l old : List Bytes) (hl1 : l.length < 2 ^ (Facts.c10_intSize - 1))
    (hl2 : ∀ b ∈ l, b.length ≤ Facts.maxSlice) (rest : Bytes) :
    decStrsInto chunkPrim old (encChunk (.strs l) ++ rest) = (slIntoResult old l, .ok rest) ∧
    (∀ cs, EofOK cs → absIO cs = encChunk (.strs l) ++ rest →
      ∃ cs', decStrsInto ioPrim old cs = (slIntoResult old l, .ok cs') ∧ absIO cs' = rest) := by
  constructor
  · obtain ⟨s', h1, h2, _⟩ := decStrsInto_ok chunk_lawful l old hl1 hl2
      (encChunk (.strs l) ++ rest) rest trivial (by simp [encChunk])
    simp only [id] at h2; subst h2; exact h1
  · intro cs hok h
    obtain ⟨s', h1, h2, _⟩ := decStrsInto_ok io_lawful l old hl1 hl2 cs rest hok
      (by rw [h]; simp [encChunk])
    exact ⟨s', h1, h2⟩

/-- Into a fresh (empty) destination the result is the written list. -/
theorem strlist_into_fresh (l : List Bytes) : slIntoResult [] l = l := by
  unfold slIntoResult
  by_cases h : l = []
  · simp [h]
  · have : ¬ (0 ≥ l.length) := by
      intro h0; exact h (List.length_eq_zero_iff.mp (by omega))
    simp [h, this]

/-- Witness of the stale-destination behaviour: the empty list read into `["a"]` leaves `["a"]`,
`["x"]` read into `["a","b"]` leaves `["x","b"]`. -/
theorem strlist_into_stale_witness :
    decStrsInto chunkPrim [[0x61]] (encChunk (.strs [])) = ([[0x61]], .ok []) ∧
    decStrsInto chunkPrim [[0x61], [0x62]] (encChunk (.strs [[0x78]])) = ([[0x78], [0x62]], .ok []) :=
  ⟨rfl, rfl⟩

/-! ### 2. Length-prefix classes and non-canonical headers -/

/-- The three writer switches (`(*Chunk).WriteBytes`, `(*writer).WriteBytes`, `WriteStringList`) and
the three reader switches (`(*Chunk).Bytes`, `(*reader).Bytes`, `ReadStringList`), as extracted from
the source on this run, are the expected ones; both `Bytes()` check `l == 0` then `l > MaxSlice`. -/
theorem prefix_switches_tie :
    Facts.c10_swChunkWriter = expectedSwitch ∧ Facts.c10_swStreamWriter = expectedSwitch ∧
    Facts.c10_swListWriter = expectedSwitch ∧
    Facts.c10_casesChunkBytes = expectedCases ∧ Facts.c10_casesStreamBytes = expectedCases ∧
    Facts.c10_casesListReader = expectedCases ∧
    Facts.c10_guardsChunkBytes.take 2 = ["l == 0", "l > MaxSlice"] ∧
    Facts.c10_guardsStreamBytes.take 2 = ["l == 0", "l > MaxSlice"] := by
  refine ⟨?_, ?_, ?_, ?_, ?_, ?_, ?_, ?_⟩ <;> decide

/-- Each of the three extracted writer switches, run on any length / count, writes the model's
header `lenPrefix l`: all writers select the same class. -/
theorem prefix_class_of_every_writer (l : Nat) :
    evalSwitch Facts.c10_swChunkWriter l = some (lenPrefix l) ∧
    evalSwitch Facts.c10_swStreamWriter l = some (lenPrefix l) ∧
    evalSwitch Facts.c10_swListWriter l = some (lenPrefix l) := by
  obtain ⟨h1, h2, h3, _⟩ := prefix_switches_tie
  rw [h1, h2, h3]
  exact ⟨evalSwitch_expected l, evalSwitch_expected l, evalSwitch_expected l⟩

/-- The class selection is monotone in the length: class, tag and header size never decrease. -/
theorem prefix_class_monotone {a b : Nat} (h : a ≤ b) :
    lenClass a ≤ lenClass b ∧ lenTag a ≤ lenTag b ∧ (lenPrefix a).length ≤ (lenPrefix b).length := by
  refine ⟨lenClass_mono h, lenTag_mono h, ?_⟩
  rw [lenPrefix_length, lenPrefix_length]
  have := lenClass_mono h
  omega

/-- … and exact: the header is tag + big-endian length in the class's width, the class holds the
length, and no narrower class would (so the switch flips exactly at 1, 2^8, 2^16, 2^32). -/
theorem prefix_class_exact (l : Nat) (hl : l < 2^64) :
    lenPrefix l = byteOf (lenTag l) :: beW (lenClass l) l ∧ l < 2 ^ (8 * lenClass l) ∧
    ∀ w, (w = 0 ∨ w = 1 ∨ w = 2 ∨ w = 4) → w < lenClass l → ¬ l < 2 ^ (8 * w) :=
  ⟨lenPrefix_eq l, lenClass_fits l hl, fun w hw hlt => lenClass_minimal l w hw hlt⟩

example : (List.map lenClass [0, 1, 255, 256, 65535, 65536, 4294967295, 4294967296]) =
    [0, 1, 1, 2, 2, 4, 4, 8] ∧
    (List.map lenTag [0, 1, 255, 256, 65535, 65536, 4294967295, 4294967296]) = [0, 1, 1, 3, 3, 5, 5, 7] := by
  decide

/-- **Non-canonical headers are accepted** by both readers' `Bytes()`: any tag of a class (also the
even tags 2/4/6/8 no writer emits) with any non-zero length that fits its field — e.g. a length
below 256 behind a 2-, 4- or 8-byte field — followed by that many bytes decodes to those bytes,
consuming exactly header + body. -/
theorem noncanonical_accepted (t : UInt8) (w : Nat) (hw : widthOfTag t = some w) (hw0 : w ≠ 0)
    (b : Bytes) (hb0 : b ≠ []) (hb : b.length ≤ Facts.maxSlice) (hl : b.length < 2 ^ (8 * w))
    (rest : Bytes) :
    decBytes chunkPrim (t :: (beW w b.length ++ (b ++ rest))) = .ok (b, rest) ∧
    (∀ cs, EofOK cs → absIO cs = t :: (beW w b.length ++ (b ++ rest)) →
      ∃ cs', decBytes ioPrim cs = .ok (b, cs') ∧ absIO cs' = rest) := by
  constructor
  · obtain ⟨s', h1, h2, _⟩ := decBytes_noncanonical chunk_lawful t w hw hw0 b hb0 hb hl
      (t :: (beW w b.length ++ (b ++ rest))) rest trivial rfl
    simp only [id] at h2; subst h2; exact h1
  · intro cs hok h
    obtain ⟨s', h1, h2, _⟩ := decBytes_noncanonical io_lawful t w hw hw0 b hb0 hb hl cs rest hok h
    exact ⟨s', h1, h2⟩

example : decBytes chunkPrim [3, 0, 2, 7, 8, 9] = .ok ([7, 8], [9]) ∧
    decBytes chunkPrim [8, 0, 0, 0, 0, 0, 0, 0, 1, 7] = .ok ([7], []) ∧
    widthOfTag 4 = some 2 := ⟨rfl, rfl, by decide⟩

/-- A zero length behind a non-zero tag is refused by both readers' `Bytes()` with
`io.ErrUnexpectedEOF` (the writers encode the empty value as the single byte 0). -/
theorem noncanonical_zero_length_rejected (t : UInt8) (w : Nat) (hw : widthOfTag t = some w)
    (hw0 : w ≠ 0) (rest : Bytes) :
    decBytes chunkPrim (t :: (beW w 0 ++ rest)) = .error .unexpectedEOF ∧
    (∀ cs, EofOK cs → absIO cs = t :: (beW w 0 ++ rest) → decBytes ioPrim cs = .error .unexpectedEOF) :=
  ⟨decBytes_zeroLen chunk_lawful t w hw hw0 _ rest trivial rfl,
   fun cs hok h => decBytes_zeroLen io_lawful t w hw hw0 cs rest hok h⟩

/-- An announced length above `MaxSlice` is refused with `ErrTooLarge` by both readers, whatever
follows (nothing is allocated or read for it). -/
theorem overlong_rejected (t : UInt8) (w : Nat) (hw : widthOfTag t = some w) (hw0 : w ≠ 0)
    (l : Nat) (hl : l < 2 ^ (8 * w)) (hbig : l > Facts.maxSlice) (rest : Bytes) :
    decBytes chunkPrim (t :: (beW w l ++ rest)) = .error .tooLarge ∧
    (∀ cs, EofOK cs → absIO cs = t :: (beW w l ++ rest) → decBytes ioPrim cs = .error .tooLarge) :=
  ⟨decBytes_tooLarge chunk_lawful t w hw hw0 l hl hbig _ rest trivial rfl,
   fun cs hok h => decBytes_tooLarge io_lawful t w hw hw0 l hl hbig cs rest hok h⟩

/-- A tag above 8 is refused with `ErrInvalidType` by both readers. -/
theorem unknown_tag_rejected (t : UInt8) (hw : widthOfTag t = none) (rest : Bytes) :
    decBytes chunkPrim (t :: rest) = .error .invalidType ∧
    (∀ cs, EofOK cs → absIO cs = t :: rest → decBytes ioPrim cs = .error .invalidType) :=
  ⟨decBytes_badTag chunk_lawful t hw _ rest trivial rfl,
   fun cs hok h => decBytes_badTag io_lawful t hw cs rest hok h⟩

example : widthOfTag 9 = none ∧ widthOfTag 255 = none ∧ widthOfTag 7 = some 8 := by decide

/-- `ReadStringList` accepts non-canonical count headers too, and — unlike `Bytes()` — a zero count
behind a non-zero tag (the empty list). -/
theorem noncanonical_count_accepted (t : UInt8) (w : Nat) (hw : widthOfTag t = some w) (hw0 : w ≠ 0)
    (l : List Bytes) (hl63 : l.length < 2^63) (hl : ∀ b ∈ l, b.length ≤ Facts.maxSlice)
    (hfit : l.length < 2 ^ (8 * w)) (rest : Bytes) :
    decStrs chunkPrim (t :: (beW w l.length ++ (l.flatMap encBytesChunk ++ rest))) = .ok (l, rest) ∧
    (∀ cs, EofOK cs → absIO cs = t :: (beW w l.length ++ (l.flatMap encBytesChunk ++ rest)) →
      ∃ cs', decStrs ioPrim cs = .ok (l, cs') ∧ absIO cs' = rest) := by
  constructor
  · obtain ⟨s', h1, h2, _⟩ := decStrs_noncanonical chunk_lawful t w hw hw0 l hl63 hl hfit
      (t :: (beW w l.length ++ (l.flatMap encBytesChunk ++ rest))) rest trivial rfl
    simp only [id] at h2; subst h2; exact h1
  · intro cs hok h
    obtain ⟨s', h1, h2, _⟩ := decStrs_noncanonical io_lawful t w hw hw0 l hl63 hl hfit cs rest hok h
    exact ⟨s', h1, h2⟩

example : decStrs chunkPrim [4, 0, 0, 9] = .ok ([], [9]) ∧
    decStrs chunkPrim [5, 0, 0, 0, 1, 2, 1, 7] = .ok ([[7]], []) := ⟨rfl, rfl⟩


end XMT.Props.C10
