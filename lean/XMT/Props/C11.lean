/-
  C11 — The packet buffer behaves like a FIFO byte queue and never exceeds its limit.
  Property theorems only; the model is XMT/Chunk.lean, lemmas are in XMT/ChunkLemmas.lean,
  XMT/ChunkOps.lean, XMT/ChunkSeq.lean.  All theorems hold for every allocator capacity
  function `cf` (Go's size classes are only used by the driver).

  Scope notes (from an adversarial review of these statements, see DESIGN.md Appendix B.5):
  * the Chunk model has no panic outcome: "no operation panics" is carried by the differential run
    (the harness reports a panic of the real code as a failing input: this is how the negative
    positional write was found and repaired) plus `pos_in_bounds` / `pos_negative_refused`.
  * `QStep` says nothing for `seek` / positional writes beyond the invariant (`step_refines`); their
    effect on the bytes is `writePos_spec` / `seek_spec` in XMT/ChunkOps.lean and the state-level
    comparison of the differential run (full state incl. capacity after every op).
  * `write_exact` allows "accept nothing and report the limit" whenever a limit is set; the code does
    refuse a write that does not fit the room left by UNREAD + READ bytes (the limit counts the
    buffer, not the queue): by design of `Limit`, visible in the model (`w40 r5 w3` under limit 40).
-/
import XMT.ChunkSeq
import XMT.ChunkReadFrom
namespace XMT.Props.C11
open XMT XMT.Chunk XMT.Chunk.Chunk

variable (cf : Nat → Nat)

/-- Every operation keeps the representation invariant and the limit setting, and moves the queue
of unread bytes exactly as the byte-queue model `QStep` says. -/
theorem step_refines (c : Chunk) (op : Op) (hb : ∀ p b, op = .pos p b → 0 < b.length) (h : c.Inv) :
    (step cf c op).1.Inv ∧ (step cf c op).1.limit = c.limit ∧
    QStep c.unread op (step cf c op).2 (step cf c op).1.unread := by
  cases op with
  | write b =>
    rcases hr : write cf c b with ⟨c1, n, e⟩
    obtain ⟨h1, h2, h3, h4, h5, _⟩ := write_spec cf c b h c1 n e hr
    simp only [step, hr, QStep]
    exact ⟨h1, h2, h4, h3, h5⟩
  | read k =>
    rcases hr : read c k with ⟨c1, g, e⟩
    obtain ⟨h1, h2, h3, h4⟩ := read_spec c k h c1 g e hr
    simp only [step, hr, QStep]
    exact ⟨h1, h2, h3, h4⟩
  | fixed b =>
    rcases hr : writeFixed cf c b with ⟨c1, e⟩
    obtain ⟨h1, h2, h3, h4⟩ := writeFixed_spec cf c b h c1 e hr
    simp only [step, hr, QStep]
    refine ⟨h1, h2, ?_⟩
    by_cases he : e = none
    · exact Or.inl ⟨he, h3 he⟩
    · exact Or.inr ⟨he, h4 he⟩
  | bytes b =>
    rcases hr : writeBytes cf c b with ⟨c1, e⟩
    obtain ⟨h1, h2, h3, h4⟩ := writeBytes_spec cf c b h c1 e hr
    simp only [step, hr, QStep]
    refine ⟨h1, h2, ?_⟩
    by_cases he : e = none
    · exact Or.inl ⟨he, h3 he⟩
    · exact Or.inr ⟨he, h4 he⟩
  | readFixed k =>
    rcases hr : readFixed c k with ⟨c1, r⟩
    obtain ⟨h1, h2, h3⟩ := readFixed_spec c k h c1 r hr
    simp only [step, hr]
    refine ⟨h1, h2, ?_⟩
    rcases h3 with ⟨a1, a2, a3⟩ | ⟨a1, a2, a3⟩
    · subst a2; exact Or.inl ⟨a1, rfl, rfl, a3⟩
    · subst a2; exact Or.inr ⟨a1, rfl, by rw [a3]⟩
  | truncate n =>
    rcases hr : truncate c n with ⟨c1, e⟩
    obtain ⟨h1, h2, h3, h4⟩ := truncate_spec c n h c1 e hr
    simp only [step, hr, QStep]
    refine ⟨h1, h2, ?_⟩
    by_cases he : e = none
    · obtain ⟨a1, a2, a3⟩ := h3 he
      exact Or.inl ⟨he, a1, a2, a3⟩
    · exact Or.inr ⟨he, by rw [h4 he]⟩
  | grow n =>
    rcases hr : growOp cf c n with ⟨c1, e⟩
    obtain ⟨h1, h2, h3⟩ := growOp_spec cf c n h c1 e hr
    simp only [step, hr, QStep]
    exact ⟨h1, h2, h3⟩
  | seek o w =>
    rcases hr : seek c o w with ⟨c1, r, e⟩
    obtain ⟨h1, h2, _⟩ := seek_spec c o w h c1 r e hr
    simp only [step, hr, QStep]
    exact ⟨h1, h2, trivial⟩
  | pos p b =>
    rcases hr : writePos c p b with ⟨c1, e⟩
    obtain ⟨h1, h2, _⟩ := writePos_spec c p b (hb p b rfl) h c1 e hr
    simp only [step, hr, QStep]
    exact ⟨h1, h2, trivial⟩
  | reset => exact reset_spec c h
  | clear => exact clear_spec c h

/-- Positional writes have at least one byte (the Go methods write 1, 2, 4 or 8). -/
def OpsOK (ops : List Op) : Prop := ∀ op ∈ ops, ∀ p b, op = .pos p b → 0 < b.length

/-- **Limit**: from an empty buffer with limit `L`, after *any* sequence of operations the
invariant holds; in particular the buffer never holds more than the limit. -/
theorem never_exceeds_limit (L : Int) (ops : List Op) (hops : OpsOK ops) :
    (run cf (empty L) ops).1.Inv ∧ (L > 0 → ((run cf (empty L) ops).1.size : Int) ≤ L) := by
  have key : ∀ (ops : List Op) (c : Chunk), OpsOK ops → c.Inv → c.limit = L →
      (run cf c ops).1.Inv ∧ (run cf c ops).1.limit = L := by
    intro ops
    induction ops with
    | nil => intro c _ h hl; exact ⟨h, hl⟩
    | cons op ops ih =>
      intro c ho h hl
      obtain ⟨h1, h2, _⟩ := step_refines cf c op (ho op List.mem_cons_self) h
      exact ih _ (fun o hm => ho o (List.mem_cons_of_mem _ hm)) h1 (by rw [h2, hl])
  obtain ⟨h1, h2⟩ := key ops (empty L) hops (inv_empty L) rfl
  exact ⟨h1, fun hp => by have := h1.lim (by rw [h2]; exact hp); rw [h2] at this; exact this⟩

/-- Write/read operations only. -/
def IsRW : Op → Bool
  | .write _ | .read _ => true
  | _ => false

/-- bytes accepted by the writes / returned by the reads of a run -/
def accepted : List Op → List Out → Bytes
  | .write b :: ops, .wrote n _ :: outs => b.take n ++ accepted ops outs
  | _ :: ops, _ :: outs => accepted ops outs
  | _, _ => []
def returned : List Out → Bytes
  | .got g _ :: outs => g ++ returned outs
  | _ :: outs => returned outs
  | [] => []

/-- **FIFO**: for any interleaving of writes and reads, what the reads returned followed by what
is still unread is exactly what the writes accepted, in order — the bytes read are the bytes
written. -/
theorem fifo (c : Chunk) (h : c.Inv) (ops : List Op) (hrw : ∀ op ∈ ops, IsRW op = true) :
    c.unread ++ accepted ops (run cf c ops).2 =
      returned (run cf c ops).2 ++ (run cf c ops).1.unread := by
  induction ops generalizing c with
  | nil => simp [run, accepted, returned]
  | cons op ops ih =>
    have hop := hrw op List.mem_cons_self
    have hrest : ∀ o ∈ ops, IsRW o = true := fun o hm => hrw o (List.mem_cons_of_mem _ hm)
    cases op with
    | write b =>
      rcases hr : write cf c b with ⟨c1, n, e⟩
      obtain ⟨h1, _, h3, _⟩ := write_spec cf c b h c1 n e hr
      have := ih c1 h1 hrest
      simp only [run, step, hr, accepted, returned]
      rw [← this, h3, List.append_assoc]
    | read k =>
      rcases hr : read c k with ⟨c1, g, e⟩
      obtain ⟨h1, _, h3, h4⟩ := read_spec c k h c1 g e hr
      have := ih c1 h1 hrest
      simp only [run, step, hr, accepted, returned]
      rw [List.append_assoc, ← this, h3, h4, ← List.append_assoc, List.take_append_drop]
    | _ => simp [IsRW] at hop

/-- **Exact counts**: a write reports exactly how many bytes it accepted; it accepts everything
unless it reports an error, and a limit error is only ever reported when a limit is set. -/
theorem write_exact (c : Chunk) (b : Bytes) (h : c.Inv) (c' : Chunk) (n : Nat) (e : Option Err)
    (hw : write cf c b = (c', n, e)) :
    n ≤ b.length ∧ c'.unread = c.unread ++ b.take n ∧
    (e = none → n = b.length) ∧ (e = some .limit → c.limit > 0) := by
  obtain ⟨_, _, h3, h4, h5, h6⟩ := write_spec cf c b h c' n e hw
  exact ⟨h4, h3, h5, h6⟩

/-- **No panic in a positional write**: the only indexing a positional write does happens on the
branch that returns no error, and there every index the Go code uses (`c.buf[p] … c.buf[p+k]`) lies
inside the slice. The branches that refuse are covered by `pos_negative_refused` (a negative position:
`ErrInvalidIndex`, the chunk untouched — before the repair the Go code indexed `c.buf[p]` and
panicked) and by the `eof` / `limit` returns of `writePos`, which index nothing. -/
theorem pos_in_bounds (c : Chunk) (p : Int) (b : Bytes) (hb : 0 < b.length) (h : c.Inv)
    (c' : Chunk) (hok : writePos c p b = (c', none)) : 0 ≤ p ∧ p.toNat + b.length ≤ c.len :=
  let ⟨_, _, _, _, h5, _⟩ := writePos_spec c p b hb h c' none hok
  ⟨(h5 rfl).1, (h5 rfl).2.1⟩

/-- a negative position is refused before anything is indexed; the chunk is untouched -/
theorem pos_negative_refused (c : Chunk) (p : Int) (b : Bytes) (hp : p < 0) :
    writePos c p b = (c, some .invalidIndex) := by
  unfold writePos
  simp [hp]

/-- **`ReadFrom` under a limit reads exactly up to the limit** (this is what `Packet.readBody`
relies on, C01): for every limit `0 < L ≤ MaxSlice`, every chunk at cursor 0, every stream and every
way it is split into non-empty short reads, with `k = min (room under the limit) (bytes available)`
exactly `k` bytes are appended, `k` is the count reported, the stream is advanced by exactly `k`
bytes and the chunk holds at most `L` bytes. -/
theorem readFrom_reads_up_to_limit (L : Int) (hL : 0 < L) (hLm : L ≤ Facts.maxSlice) (c : Chunk)
    (s : Codec.Stream) (h : c.Inv) (hl : c.limit = L) (hr : c.rpos = 0) (hne : Codec.NoEmpty s) :
    ∃ c' s', c.readFrom cf s = (c', min (L.toNat - c.len) s.flatten.length, s') ∧ c'.Inv ∧
      c'.unread = c.unread ++ s.flatten.take (min (L.toNat - c.len) s.flatten.length) ∧
      s'.flatten = s.flatten.drop (min (L.toNat - c.len) s.flatten.length) ∧ (c'.len : Int) ≤ L := by
  obtain ⟨c', s', e, i, l, _, u, _, f, _⟩ := readFromLoop_spec cf L hL hLm
    (s.flatten.length + s.length + 1) c s 0 h hl hr hne (by omega)
  refine ⟨c', s', ?_, i, u, f, ?_⟩
  · unfold Chunk.readFrom; rw [e]; simp
  · have := i.lim (by rw [l]; exact hL); rw [l] at this; exact this

/-! Non-vacuity: the defect the repaired `grow` had (limit 10: w5 w5 r5 w100 held 15 bytes) is a
reachable op sequence; the model now keeps it within the limit and accepts exactly 5 bytes. -/
example : OpsOK [.write [1,2,3,4,5], .write [1,2,3,4,5], .read 5, .write (List.replicate 100 9)] := by
  intro op hm p b hp; subst hp; simp at hm
example :
    let r := run (fun n => n) (empty 10) [.write [1,2,3,4,5], .write [6,7,8,9,10], .read 5,
      .write (List.replicate 100 9)]
    r.1.size = 10 ∧ r.1.unread = [6,7,8,9,10,9,9,9,9,9] := by decide

end XMT.Props.C11
