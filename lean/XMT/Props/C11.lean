/-
  C11 — The packet buffer behaves like a FIFO byte queue and never exceeds its limit.
  Property theorems only; the model is XMT/Chunk.lean, lemmas are in XMT/ChunkLemmas.lean,
  XMT/ChunkOps.lean, XMT/ChunkSeq.lean.  All theorems hold for every allocator capacity
  function `cf` (Go's size classes are only used by the driver).

  Scope notes (from an adversarial review of these statements, see DESIGN.md Appendix B.5):
  * the Chunk model has no panic outcome: "no operation panics" is carried by the differential run
    (the harness reports a panic of the real code as a failing input: this is how the negative
    positional write was found and repaired) plus `pos_in_bounds` / `pos_negative_refused`.
  * `QStep` says nothing for `seek` / positional writes beyond the invariant (`step_refines`); their
    effect on the bytes is `writePos_spec` / `seek_spec` in XMT/ChunkOps.lean and the state-level
    comparison of the differential run (full state incl. capacity after every op).
  * `write_exact` allows "accept nothing and report the limit" whenever a limit is set; the code does
    refuse a write that does not fit the room left by UNREAD + READ bytes (the limit counts the
    buffer, not the queue): by design of `Limit`, visible in the model (`w40 r5 w3` under limit 40).
-/
import XMT.ChunkSeq
import XMT.ChunkReadFrom
import XMT.ChunkRoom
import XMT.ChunkExact
import XMT.ChunkPanic
import XMT.ChunkPanicGrow
import XMT.ChunkCensus
namespace XMT.Props.C11
open XMT XMT.Chunk XMT.Chunk.Chunk

variable (cf : Nat → Nat)

/-- Every operation keeps the representation invariant and the limit setting, and moves the queue
of unread bytes exactly as the byte-queue model `QStep` says. -/
theorem step_refines (c : Chunk) (op : Op) (hb : ∀ p b, op = .pos p b → 0 < b.length) (h : c.Inv) :
    (step cf c op).1.Inv ∧ (step cf c op).1.limit = c.limit ∧
    QStep c.unread op (step cf c op).2 (step cf c op).1.unread := by
  cases op with
  | write b =>
    rcases hr : write cf c b with ⟨c1, n, e⟩
    obtain ⟨h1, h2, h3, h4, h5, _⟩ := write_spec cf c b h c1 n e hr
    simp only [step, hr, QStep]
    exact ⟨h1, h2, h4, h3, h5⟩
  | read k =>
    rcases hr : read c k with ⟨c1, g, e⟩
    obtain ⟨h1, h2, h3, h4⟩ := read_spec c k h c1 g e hr
    simp only [step, hr, QStep]
    exact ⟨h1, h2, h3, h4⟩
  | fixed b =>
    rcases hr : writeFixed cf c b with ⟨c1, e⟩
    obtain ⟨h1, h2, h3, h4⟩ := writeFixed_spec cf c b h c1 e hr
    simp only [step, hr, QStep]
    refine ⟨h1, h2, ?_⟩
    by_cases he : e = none
    · exact Or.inl ⟨he, h3 he⟩
    · exact Or.inr ⟨he, h4 he⟩
  | bytes b =>
    rcases hr : writeBytes cf c b with ⟨c1, e⟩
    obtain ⟨h1, h2, h3, h4⟩ := writeBytes_spec cf c b h c1 e hr
    simp only [step, hr, QStep]
    refine ⟨h1, h2, ?_⟩
    by_cases he : e = none
    · exact Or.inl ⟨he, h3 he⟩
    · exact Or.inr ⟨he, h4 he⟩
  | readFixed k =>
    rcases hr : readFixed c k with ⟨c1, r⟩
    obtain ⟨h1, h2, h3⟩ := readFixed_spec c k h c1 r hr
    simp only [step, hr]
    refine ⟨h1, h2, ?_⟩
    rcases h3 with ⟨a1, a2, a3⟩ | ⟨a1, a2, a3⟩
    · subst a2; exact Or.inl ⟨a1, rfl, rfl, a3⟩
    · subst a2; exact Or.inr ⟨a1, rfl, by rw [a3]⟩
  | truncate n =>
    rcases hr : truncate c n with ⟨c1, e⟩
    obtain ⟨h1, h2, h3, h4⟩ := truncate_spec c n h c1 e hr
    simp only [step, hr, QStep]
    refine ⟨h1, h2, ?_⟩
    by_cases he : e = none
    · obtain ⟨a1, a2, a3⟩ := h3 he
      exact Or.inl ⟨he, a1, a2, a3⟩
    · exact Or.inr ⟨he, by rw [h4 he]⟩
  | grow n =>
    rcases hr : growOp cf c n with ⟨c1, e⟩
    obtain ⟨h1, h2, h3⟩ := growOp_spec cf c n h c1 e hr
    simp only [step, hr, QStep]
    exact ⟨h1, h2, h3⟩
  | seek o w =>
    rcases hr : seek c o w with ⟨c1, r, e⟩
    obtain ⟨h1, h2, _⟩ := seek_spec c o w h c1 r e hr
    simp only [step, hr, QStep]
    exact ⟨h1, h2, trivial⟩
  | pos p b =>
    rcases hr : writePos c p b with ⟨c1, e⟩
    obtain ⟨h1, h2, _⟩ := writePos_spec c p b (hb p b rfl) h c1 e hr
    simp only [step, hr, QStep]
    exact ⟨h1, h2, trivial⟩
  | reset => exact reset_spec c h
  | clear => exact clear_spec c h

/-- Positional writes have at least one byte (the Go methods write 1, 2, 4 or 8). -/
def OpsOK (ops : List Op) : Prop := ∀ op ∈ ops, ∀ p b, op = .pos p b → 0 < b.length

/-- **Limit**: from an empty buffer with limit `L`, after *any* sequence of operations the
invariant holds; in particular the buffer never holds more than the limit. -/
theorem never_exceeds_limit (L : Int) (ops : List Op) (hops : OpsOK ops) :
    (run cf (empty L) ops).1.Inv ∧ (L > 0 → ((run cf (empty L) ops).1.size : Int) ≤ L) := by
  have key : ∀ (ops : List Op) (c : Chunk), OpsOK ops → c.Inv → c.limit = L →
      (run cf c ops).1.Inv ∧ (run cf c ops).1.limit = L := by
    intro ops
    induction ops with
    | nil => intro c _ h hl; exact ⟨h, hl⟩
    | cons op ops ih =>
      intro c ho h hl
      obtain ⟨h1, h2, _⟩ := step_refines cf c op (ho op List.mem_cons_self) h
      exact ih _ (fun o hm => ho o (List.mem_cons_of_mem _ hm)) h1 (by rw [h2, hl])
  obtain ⟨h1, h2⟩ := key ops (empty L) hops (inv_empty L) rfl
  exact ⟨h1, fun hp => by have := h1.lim (by rw [h2]; exact hp); rw [h2] at this; exact this⟩

/-- Write/read operations only. -/
def IsRW : Op → Bool
  | .write _ | .read _ => true
  | _ => false

/-- bytes accepted by the writes / returned by the reads of a run -/
def accepted : List Op → List Out → Bytes
  | .write b :: ops, .wrote n _ :: outs => b.take n ++ accepted ops outs
  | _ :: ops, _ :: outs => accepted ops outs
  | _, _ => []
def returned : List Out → Bytes
  | .got g _ :: outs => g ++ returned outs
  | _ :: outs => returned outs
  | [] => []

/-- **FIFO**: for any interleaving of writes and reads, what the reads returned followed by what
is still unread is exactly what the writes accepted, in order — the bytes read are the bytes
written. -/
theorem fifo (c : Chunk) (h : c.Inv) (ops : List Op) (hrw : ∀ op ∈ ops, IsRW op = true) :
    c.unread ++ accepted ops (run cf c ops).2 =
      returned (run cf c ops).2 ++ (run cf c ops).1.unread := by
  induction ops generalizing c with
  | nil => simp [run, accepted, returned]
  | cons op ops ih =>
    have hop := hrw op List.mem_cons_self
    have hrest : ∀ o ∈ ops, IsRW o = true := fun o hm => hrw o (List.mem_cons_of_mem _ hm)
    cases op with
    | write b =>
      rcases hr : write cf c b with ⟨c1, n, e⟩
      obtain ⟨h1, _, h3, _⟩ := write_spec cf c b h c1 n e hr
      have := ih c1 h1 hrest
      simp only [run, step, hr, accepted, returned]
      rw [← this, h3, List.append_assoc]
    | read k =>
      rcases hr : read c k with ⟨c1, g, e⟩
      obtain ⟨h1, _, h3, h4⟩ := read_spec c k h c1 g e hr
      have := ih c1 h1 hrest
      simp only [run, step, hr, accepted, returned]
      rw [List.append_assoc, ← this, h3, h4, ← List.append_assoc, List.take_append_drop]
    | _ => simp [IsRW] at hop

/-- **Exact counts**: a write reports exactly how many bytes it accepted; it accepts everything
unless it reports an error, and a limit error is only ever reported when a limit is set. -/
theorem write_exact (c : Chunk) (b : Bytes) (h : c.Inv) (c' : Chunk) (n : Nat) (e : Option Err)
    (hw : write cf c b = (c', n, e)) :
    n ≤ b.length ∧ c'.unread = c.unread ++ b.take n ∧
    (e = none → n = b.length) ∧ (e = some .limit → c.limit > 0) := by
  obtain ⟨_, _, h3, h4, h5, h6⟩ := write_spec cf c b h c' n e hw
  exact ⟨h4, h3, h5, h6⟩

/-- **No panic in a positional write**: the only indexing a positional write does happens on the
branch that returns no error, and there every index the Go code uses (`c.buf[p] … c.buf[p+k]`) lies
inside the slice. The branches that refuse are covered by `pos_negative_refused` (a negative position:
`ErrInvalidIndex`, the chunk untouched — before the repair the Go code indexed `c.buf[p]` and
panicked) and by the `eof` / `limit` returns of `writePos`, which index nothing. -/
theorem pos_in_bounds (c : Chunk) (p : Int) (b : Bytes) (hb : 0 < b.length) (h : c.Inv)
    (c' : Chunk) (hok : writePos c p b = (c', none)) : 0 ≤ p ∧ p.toNat + b.length ≤ c.len :=
  let ⟨_, _, _, _, h5, _⟩ := writePos_spec c p b hb h c' none hok
  ⟨(h5 rfl).1, (h5 rfl).2.1⟩

/-- a negative position is refused before anything is indexed; the chunk is untouched -/
theorem pos_negative_refused (c : Chunk) (p : Int) (b : Bytes) (hp : p < 0) :
    writePos c p b = (c, some .invalidIndex) := by
  unfold writePos
  simp [hp]

/-- **`ReadFrom` under a limit reads exactly up to the limit** (this is what `Packet.readBody`
relies on, C01): for every limit `0 < L ≤ MaxSlice`, every chunk at cursor 0, every stream and every
way it is split into non-empty short reads, with `k = min (room under the limit) (bytes available)`
exactly `k` bytes are appended, `k` is the count reported, the stream is advanced by exactly `k`
bytes and the chunk holds at most `L` bytes. -/
theorem readFrom_reads_up_to_limit (L : Int) (hL : 0 < L) (hLm : L ≤ Facts.maxSlice) (c : Chunk)
    (s : Codec.Stream) (h : c.Inv) (hl : c.limit = L) (hr : c.rpos = 0) (hne : Codec.NoEmpty s) :
    ∃ c' s', c.readFrom cf s = (c', min (L.toNat - c.len) s.flatten.length, s') ∧ c'.Inv ∧
      c'.unread = c.unread ++ s.flatten.take (min (L.toNat - c.len) s.flatten.length) ∧
      s'.flatten = s.flatten.drop (min (L.toNat - c.len) s.flatten.length) ∧ (c'.len : Int) ≤ L := by
  obtain ⟨c', s', e, i, l, _, u, _, f, _⟩ := readFromLoop_spec cf L hL hLm
    (s.flatten.length + s.length + 1) c s 0 h hl hr hne (by omega)
  refine ⟨c', s', ?_, i, u, f, ?_⟩
  · unfold Chunk.readFrom; rw [e]; simp
  · have := i.lim (by rw [l]; exact hL); rw [l] at this; exact this

/-! Non-vacuity: the defect the repaired `grow` had (limit 10: w5 w5 r5 w100 held 15 bytes) is a
reachable op sequence; the model now keeps it within the limit and accepts exactly 5 bytes. -/
example : OpsOK [.write [1,2,3,4,5], .write [1,2,3,4,5], .read 5, .write (List.replicate 100 9)] := by
  intro op hm p b hp; subst hp; simp at hm
example :
    let r := run (fun n => n) (empty 10) [.write [1,2,3,4,5], .write [6,7,8,9,10], .read 5,
      .write (List.replicate 100 9)]
    r.1.size = 10 ∧ r.1.unread = [6,7,8,9,10,9,9,9,9,9] := by decide

/-! ## Extension (review item #12 of DESIGN B.5): exact clauses for Seek / positional writes, the exact
acceptance count of Write, a panic outcome, and the method census.  Models and lemmas:
XMT/ChunkExact.lean, XMT/ChunkRoom.lean, XMT/ChunkPanic.lean, XMT/ChunkPanicGrow.lean, XMT/ChunkCensus.lean.
This section supersedes the three scope notes at the top of this file: (1) there is now a panic outcome
(`no_op_panics`, `reservation_never_panics`, `neg_guard_needed`); (2) `seek` / positional writes have exact
clauses (`step_refines_exact`); (3) `write_exact` is replaced by `write_count_exact` — and the remark
"the limit counts the buffer, not the queue" is only half of the truth: it does so while the request fits
the spare capacity; once `grow` slides or reallocates, the read bytes are reclaimed (`room`). -/

/-- **Seek, exactly** (all three whence values, out-of-range targets): the retained bytes never change;
with `aim = o` (whence 0), `o + cursor` (1), `o + len` (2) the cursor becomes `aim` and `aim` is
returned iff `whence ≤ 2 ∧ 0 ≤ aim ≤ len`; a whence above 2 is the whence error, any other target
`ErrInvalidIndex`, both with result 0 and nothing changed. -/
theorem seek_exact (c : Chunk) (o : Int) (w : Nat) (h : c.Inv) :
    SeekX c.view c.rpos o w (c.seek o w).2.1 (c.seek o w).2.2 (c.seek o w).1.view (c.seek o w).1.rpos :=
  Chunk.seek_exact c o w h

/-- **Seek then Read**: after a successful `Seek` to offset `t`, `Read(k)` returns the retained bytes
`[t, t+k)` (as far as they exist) — bytes that were read before are readable again. -/
theorem seek_then_read (c : Chunk) (o : Int) (w : Nat) (k : Nat) (h : c.Inv)
    (hok : (c.seek o w).2.2 = none) :
    ((c.seek o w).1.read k).2.1 = (c.view.drop (c.seek o w).2.1.toNat).take k := by
  have hx := Chunk.seek_exact c o w h
  rcases hs : c.seek o w with ⟨c1, t, e⟩
  rw [hs] at hx hok
  simp only at hx hok ⊢
  obtain ⟨i1, _, _⟩ := seek_spec c o w h c1 t e hs
  rcases hr : c1.read k with ⟨c2, g, e2⟩
  obtain ⟨_, _, hg, _⟩ := read_spec c1 k i1 c2 g e2 hr
  simp only
  rw [hg]
  show (c1.view.drop c1.rpos).take k = _
  obtain ⟨hv, hcase⟩ := hx
  rw [hv]
  rcases hcase with ⟨_, _, _, _, ht, hrr⟩ | ⟨_, he, _⟩ | ⟨_, _, he, _⟩
  · have : t.toNat = c1.rpos := by omega
    rw [this]
  · rw [hok] at he; cases he
  · rw [hok] at he; cases he

/-- **Positional writes, exactly** (WriteBoolPos, WriteUint8Pos, WriteUint16Pos, WriteUint32Pos,
WriteUint64Pos; `b` = the big-endian image of the value, 1/2/4/8 bytes): the cursor and the length
never change; the error is `ErrInvalidIndex` exactly for `p < 0`, `io.EOF` exactly when
`p + |b| > len`, and otherwise there is no error and the retained bytes become
`v[..p] ++ b ++ v[p+|b|..]`. (`ErrLimit` cannot be returned while `len ≤ Limit`.) -/
theorem pos_write_exact (c : Chunk) (p : Int) (b : Bytes) (hb : 0 < b.length) (h : c.Inv) :
    PosX c.view c.rpos p b (c.writePos p b).2 (c.writePos p b).1.view (c.writePos p b).1.rpos :=
  Chunk.pos_exact c p b hb h

/-- element-wise form of `pos_write_exact`: after a successful positional write every retained byte
outside `[p, p+|b|)` is unchanged and the bytes inside are the image; the number of unread bytes is
unchanged whatever the outcome. -/
theorem pos_write_bytes (c : Chunk) (p : Int) (b : Bytes) (hb : 0 < b.length) (h : c.Inv) :
    (c.writePos p b).1.unread.length = c.unread.length ∧
    ((c.writePos p b).2 = none → ∀ i : Nat,
      (c.writePos p b).1.view[i]? =
        if i < p.toNat then c.view[i]? else if i < p.toNat + b.length then b[i - p.toNat]? else c.view[i]?) ∧
    ((c.writePos p b).2 ≠ none → (c.writePos p b).1 = c) := by
  have hx := Chunk.pos_exact c p b hb h
  rcases hr : c.writePos p b with ⟨c1, e⟩
  rw [hr] at hx
  simp only at hx ⊢
  obtain ⟨i1, _, h3, h4, _, h6⟩ := writePos_spec c p b hb h c1 e hr
  obtain ⟨_, _, hx⟩ := hx
  refine ⟨by rw [unread_length _ i1, unread_length _ h, h3, h4], fun hn i => ?_, h6⟩
  rcases hx with ⟨_, hp, _, hv⟩ | ⟨_, he, _⟩ | ⟨_, _, he, _⟩
  · rw [hv]; exact splice_get c.view b p.toNat hp i
  · rw [hn] at he; cases he
  · rw [hn] at he; cases he

/-- **Every operation, exactly**: the refinement of `step_refines` with the exact clauses for `seek`
and positional writes (`VStep` on retained bytes + cursor; `QStep` on the queue for all others). -/
theorem step_refines_exact (c : Chunk) (op : Op) (hb : ∀ p b, op = .pos p b → 0 < b.length) (h : c.Inv) :
    (step cf c op).1.Inv ∧ (step cf c op).1.limit = c.limit ∧
    VStep c.view c.rpos op (step cf c op).2 (step cf c op).1.view (step cf c op).1.rpos := by
  obtain ⟨h1, h2, h3⟩ := step_refines cf c op hb h
  refine ⟨h1, h2, ?_⟩
  cases op with
  | seek o w => exact Chunk.seek_exact c o w h
  | pos p b => exact Chunk.pos_exact c p b (hb p b rfl) h
  | write b => exact h3
  | read k => exact h3
  | fixed b => exact h3
  | bytes b => exact h3
  | readFixed k => exact h3
  | truncate n => exact h3
  | grow n => exact h3
  | reset => exact h3
  | clear => exact h3

/-- **Exact acceptance count of `Write`** (replaces the weak `write_exact`): for every state satisfying
the invariant and sizes below `max int` / `MaxSlice` (`NoHuge`: no `ErrTooLarge`), `Write(b)` accepts
all of `b` without a limit, and under a limit exactly `n = min |b| (room c |b|)` bytes, `room` being
what the code leaves under `Limit` in that state (XMT/ChunkRoom.lean); the only error is `ErrLimit`,
returned exactly when not everything was accepted or the request was `refused`. -/
theorem write_count_exact (c : Chunk) (b : Bytes) (h : c.Inv) (hh : NoHuge c b.length)
    (c' : Chunk) (n : Nat) (e : Option Err) (hw : write cf c b = (c', n, e)) :
    c'.unread = c.unread ++ b.take n ∧
    (c.limit ≤ 0 → n = b.length ∧ e = none) ∧
    (c.limit > 0 → n = min b.length (room c b.length) ∧
      (e = some .limit ↔ n < b.length ∨ refused c b.length) ∧ (e = none ∨ e = some .limit)) :=
  ⟨(write_spec cf c b h c' n e hw).2.2.1, write_count cf c b h hh c' n e hw⟩

/-- for a non-empty `b`: **`ErrLimit` iff fewer than `|b|` bytes were accepted.** -/
theorem write_limit_iff_short (c : Chunk) (b : Bytes) (hb : 0 < b.length) (h : c.Inv)
    (hh : NoHuge c b.length) (hl : c.limit > 0) (c' : Chunk) (n : Nat) (e : Option Err)
    (hw : write cf c b = (c', n, e)) : e = some .limit ↔ n < b.length := by
  obtain ⟨hn, hi, _⟩ := (write_count cf c b h hh c' n e hw).2 hl
  rw [hi]
  refine ⟨fun hor => ?_, Or.inl⟩
  rcases hor with h1 | h1
  · exact h1
  · rw [hn, room_refused c b.length h h1]; omega

/-- a request that fits under the limit counting the WHOLE buffer is accepted completely -/
theorem write_fits_accepted (c : Chunk) (b : Bytes) (h : c.Inv) (hh : NoHuge c b.length)
    (hl : c.limit > 0) (hfit : (c.len : Int) + b.length ≤ c.limit) (hb : 0 < b.length)
    (c' : Chunk) (n : Nat) (e : Option Err) (hw : write cf c b = (c', n, e)) : n = b.length ∧ e = none := by
  obtain ⟨hn, hi, hor⟩ := (write_count cf c b h hh c' n e hw).2 hl
  have hroom : b.length ≤ room c b.length := by
    have := h.rl; have := h.lc
    have hc : c.cap = c.arr.length := rfl
    unfold room roomReq
    split
    · omega
    · split
      · omega
      · split
        · omega
        · split
          · omega
          · split
            · omega
            · omega
  have hnn : n = b.length := by omega
  refine ⟨hnn, ?_⟩
  rcases hor with h0 | h0
  · exact h0
  · exfalso
    rcases hi.1 h0 with h1 | h1
    · omega
    · have := room_refused c b.length h h1; omega

/-- The plain "`ErrLimit` iff `n < |b|`" is FALSE for the empty write: on a full, unread chunk
(`Limit` 5 holding 5 bytes) `Write(nil)` accepts 0 of 0 bytes and still reports `ErrLimit`
(`grow`: `x >= c.Limit`).  Reproduced on the real code by the harness group `exact` (corpus case). -/
theorem write_empty_on_full_reports_limit :
    ((run (fun n => n) (empty 5) [.write [1,2,3,4,5]]).1.write (fun n => n) []).2 = (0, some .limit) := by
  decide

/-- **No operation panics**: from any state satisfying the invariant, every operation sequence (typed
widths ≥ 1 byte) runs through the panic-outcome model `runP` (XMT/ChunkPanic.lean: every direct index /
reslice of `c.buf` in the exported methods is a bounds check that may panic) without a panic, and
yields exactly the results of the total model. -/
theorem no_op_panics (c : Chunk) (h : c.Inv) (ops : List Op) (hops : ∀ op ∈ ops, OpOKP op) :
    runP cf c ops = .ok (run cf c ops) := by
  induction ops generalizing c with
  | nil => rfl
  | cons op ops ih =>
    have ho := hops op List.mem_cons_self
    have h1 := (step_refines cf c op ho.1 h).1
    have := ih (step cf c op).1 h1 (fun o hm => hops o (List.mem_cons_of_mem _ hm))
    simp only [runP, run, stepP_ok cf c op ho h, PRes.ok_bind, this]
    rfl

/-- **The reservation code does not panic either** (XMT/ChunkPanicGrow.lean: `reslice`, `grow` with its
rewind / slide / reallocation reslices, `quickSlice`, `checkWriteSize`, and `WriteBytes` with its header
indexing and roll-back, every index and reslice of the source as a bounds check): from a state
satisfying the invariant each of them returns exactly what the total model returns, so `no_op_panics`
loses nothing by reserving through the total functions; the reslice of `reslice` is in range in EVERY
state (its own capacity test suffices). -/
theorem reservation_never_panics (c : Chunk) (h : c.Inv) (n : Nat) (b : Bytes) :
    growP cf c n = .ok (grow cf c n) ∧ quickSliceP cf c n = .ok (quickSlice cf c n) ∧
    checkWriteSizeP cf c n = .ok (checkWriteSize cf c n) ∧ writeBytesP cf c b = .ok (writeBytes cf c b) ∧
    (∀ (c' : Chunk) (k : Nat), resliceP c' k = .ok (reslice c' k)) :=
  ⟨growP_ok cf c n h, quickSliceP_ok cf c n h, checkWriteSizeP_ok cf c n h, writeBytesP_ok cf c b h,
    resliceP_ok⟩

-- the guards of the reservation model can fail: a cursor beyond the length (outside `Inv`) makes the
-- reallocation of `grow` panic at `trySlice(c.buf[c.rpos:], …)`
example : (growP (fun n => n) { arr := [1], len := 1, rpos := 2, limit := 0, isNil := false } 1).isPanic = true := by
  decide

/-- the observers that index `c.buf` (Payload, String, MarshalStream's argument) do not panic either -/
theorem observers_never_panic (c : Chunk) (h : c.Inv) :
    (payloadP c).isPanic = false ∧ (stringP c).isPanic = false ∧ marshalArgP c = .ok c.unread :=
  ⟨payloadP_ok c h, stringP_ok c, marshalArgP_ok c h⟩

/-- **The negative-position guard (fix 6edbaf9) is needed and sufficient**: without it a positional
write at `p = -1` on a non-empty chunk indexes `c.buf[-1]` and panics; with it the same call returns
`ErrInvalidIndex` and leaves the chunk untouched; and with the guard NO positional write panics, in
any state whatsoever (the position checks alone keep every index inside the slice). -/
theorem neg_guard_needed :
    (∃ c : Chunk, c.Inv ∧ (writePosP false c (-1) [7]).isPanic = true ∧
      writePosP true c (-1) [7] = .ok (c, some .invalidIndex)) ∧
    (∀ (c : Chunk) (p : Int) (b : Bytes), 0 < b.length → writePosP true c p b = .ok (c.writePos p b)) :=
  ⟨⟨ofBytes [1, 2, 3], ⟨by decide, by decide, by intro h; exact absurd h (by decide), by decide⟩,
    by decide, by decide⟩, fun c p b hb => writePosP_ok c p b hb⟩

/-- **Method census** (regenerated from the source by go/parser on every run): every exported method
of `*data.Chunk` in the files compiled here is either in the model's op table or in the explicit
"not modelled, because …" list, and neither list names a method that does not exist — a new method
cannot appear unnoticed.  The positional writers are exactly the five modelled ones and each of them
starts with the `if p < 0 { return ErrInvalidIndex }` guard. -/
theorem method_census :
    Facts.c11_chunkMethods.all (fun m => Census.modelled.any (·.1 == m) || Census.notModelled.any (·.1 == m)) = true ∧
    (Census.modelled ++ Census.notModelled).all (fun p => Facts.c11_chunkMethods.contains p.1) = true ∧
    Facts.c11_posWriters = ["WriteBoolPos", "WriteUint16Pos", "WriteUint32Pos", "WriteUint64Pos", "WriteUint8Pos"] ∧
    Facts.c11_posGuardNeg = 5 := by
  decide

/-! Non-vacuity of the extension. -/
example : (ofBytes [1, 2, 3, 4]).Inv ∧ NoHuge (ofBytes [1, 2, 3, 4]) 3 := by
  refine ⟨⟨by decide, by decide, by intro h; exact absurd h (by decide), by decide⟩, ?_, ?_⟩
  · simp [Chunk.cap, ofBytes, maxInt]
  · simp [ofBytes, Facts.maxSlice]
-- seek: whence 2 (from the end), then a 2-byte positional write, then read: exact bytes
example :
    let r := run (fun n => n) (ofBytes [1, 2, 3, 4]) [.read 3, .seek (-3) 2, .pos 2 (be16 0xAABB), .read 9]
    r.2.length = 4 ∧ r.1.view = [1, 2, 0xAA, 0xBB] := by decide
-- room: limit 40, 40 written, 5 read: a 3-byte write is refused although 5 bytes were read …
example : refused (run (fun n => max n 64) (empty 40) [.write (List.replicate 40 1), .read 5]).1 3 := by decide
-- … while limit 100, w60 r50 w30 reclaims the read bytes (room 90 > Limit - len = 40)
set_option maxRecDepth 8000 in
example : room (run (fun n => max n 64) (empty 100) [.write (List.replicate 60 1), .read 50]).1 30 = 90 := by decide
example : OpOKP (.pos 2 (be16 7)) :=
  ⟨fun p b h => by cases h; decide, ⟨fun b h => Op.noConfusion h, fun k h => Op.noConfusion h⟩⟩

end XMT.Props.C11
