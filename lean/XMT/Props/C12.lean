/-
  C12 — Session settings and identity survive every synchronisation path unchanged.
  Property theorems only; the model is XMT/Info.lean, lemmas live in XMT/Info*.lean.
-/
import XMT.InfoOrder
namespace XMT.Props.C12
open XMT XMT.Codec XMT.Info

/-! ## Tie: field orders extracted from the current source -/

/-- The straight-line codecs (`Machine`, `WorkHours`, `Address`, `hardware`) write and read their
fields in the same order, and that order is the one the model uses.  (Regenerated from the source
on every run; a swapped or missing field on one side breaks this.) -/
theorem codec_field_orders_agree :
    Facts.c12_fields_machineW = Facts.c12_fields_machineR ∧
    Facts.c12_fields_machineW = expectMachine ∧
    Facts.c12_fields_workW = Facts.c12_fields_workR ∧
    Facts.c12_fields_workW = expectWorkHours ∧
    Facts.c12_fields_addressW = Facts.c12_fields_addressR ∧
    Facts.c12_fields_addressW = expectAddress ∧
    Facts.c12_fields_macW = Facts.c12_fields_macR ∧
    Facts.c12_fields_macW = expectMac := by
  decide

/-- The guarded functions (per-kind writer/reader, proxy data, interface and network loops, key
pair, ID, setters, client handler, server absorption) have, statement by statement, the shape the
model was written from. -/
theorem source_traces_as_modelled :
    Facts.c12_trace_writeDeviceInfo = Pinned.writeDeviceInfo ∧
    Facts.c12_trace_readDeviceInfo = Pinned.readDeviceInfo ∧
    Facts.c12_trace_writeProxyData = Pinned.writeProxyData ∧
    Facts.c12_trace_readProxyData = Pinned.readProxyData ∧
    Facts.c12_trace_ifaceW = Pinned.ifaceW ∧ Facts.c12_trace_ifaceR = Pinned.ifaceR ∧
    Facts.c12_trace_networkW = Pinned.networkW ∧ Facts.c12_trace_networkR = Pinned.networkR ∧
    Facts.c12_trace_idRead = Pinned.idRead ∧ Facts.c12_trace_idWrite = Pinned.idWrite ∧
    Facts.c12_trace_idW = Pinned.idW ∧ Facts.c12_trace_idR = Pinned.idR ∧
    Facts.c12_trace_keysW = Pinned.keysW ∧ Facts.c12_trace_keysR = Pinned.keysR ∧
    Facts.c12_trace_setDuration = Pinned.setDuration ∧
    Facts.c12_trace_setKillDate = Pinned.setKillDate ∧
    Facts.c12_trace_setWorkHours = Pinned.setWorkHours ∧
    Facts.c12_trace_setProfile = Pinned.setProfile ∧
    Facts.c12_trace_muxMvTime = Pinned.muxMvTime ∧
    Facts.c12_trace_muxMvProfile = Pinned.muxMvProfile ∧
    Facts.c12_trace_handleInfoResult = Pinned.handleInfoResult := by
  decide

/-- Statement order in `LoadContext` (migration) and `connectContextInner` (spawn), regenerated from
c2/c2.go: the Profile's defaults are seeded BEFORE the hand-off stream is read, so what the old process
sent is what the new Session runs with (the round-trip theorems below say the reader reproduces it;
this obligation says nothing overwrites it afterwards). -/
theorem handoff_applied_after_profile_defaults :
    Facts.c12_loadSeedsBeforeHandoff = 1 ∧ Facts.c12_spawnSeedsBeforeSync = 1 := by decide

/-- Statement order in `(*Session).MigrateProfile`, regenerated from c2/session.go: the hand-off is
marshalled (`writeDeviceInfo(infoMigrate, …)`) only after the Session lock is held, after the loop that
waits for the pending work and after the new process has connected to the pipe — so an order that was
still in flight when the migration started is part of what the new process receives. -/
theorem migrate_snapshot_after_drain : Facts.c12_migrateSnapshotAfterDrain = 1 := by decide

/-- The six kind constants are pairwise distinct and ordered around `infoRefresh` the way the
guards `t > infoRefresh` / `t != infoMigrate` need: registration, refresh and migration carry proxy
data; settings-sync and migration-completion do not; only migration carries identity and keys. -/
theorem kinds_partition :
    [Facts.c12_infoHello, Facts.c12_infoMigrate, Facts.c12_infoRefresh, Facts.c12_infoSync,
      Facts.c12_infoProxy, Facts.c12_infoSyncMigrate].Nodup ∧
    Facts.c12_infoHello ≤ Facts.c12_infoRefresh ∧ Facts.c12_infoMigrate ≤ Facts.c12_infoRefresh ∧
    Facts.c12_infoSync > Facts.c12_infoRefresh ∧ Facts.c12_infoSyncMigrate > Facts.c12_infoRefresh ∧
    [Facts.c12_timeSleepJitter, Facts.c12_timeKillDate, Facts.c12_timeWorkHours].Nodup ∧
    Facts.c12_timeSleepJitter = 0 ∧ Facts.c12_timeWorkHours < 256 := by
  decide

/-! ## Every message kind reproduces the sender's values on the receiving side -/

/-- The stream writer (local pipe) emits, `Write` call by `Write` call, exactly the bytes the packet
writer appends to a packet body. -/
theorem pipe_writer_agrees (t : Nat) (s : Session) (its : List Item)
    (_h : writeItems t s = .ok its) : (callsOf its).flatten = encItems its :=
  calls_flatten its

/-- **Packet-borne messages** (all kinds, any `t`): reading the packet body written for kind `t` by
`snd` into the receiving Session `rcv` succeeds, yields exactly `absorb t snd rcv` and consumes
exactly the written bytes (`rest` is whatever follows). -/
theorem roundtrip_packet (t : Nat) (snd rcv : Session) (h : WF t snd) (rest : Bytes) :
    ∃ bs, writeInfo t snd = .ok bs ∧
      (readInfo chunkX t rcv).run (bs ++ rest) = .ok (absorb t snd rcv, rest) := by
  obtain ⟨bs, hw, hr⟩ := reads_info chunkX_lawful t snd rcv h
  obtain ⟨s', e, a, _⟩ := hr (bs ++ rest) rest trivial rfl
  simp only [id] at a
  subst a
  exact ⟨bs, hw, e⟩

/-- **Pipe-borne messages** (migration hand-off, spawn; in fact every kind): the same for the stream
reader, for **every** way the underlying `io.Reader` splits the bytes into non-empty short reads. -/
theorem roundtrip_pipe (t : Nat) (snd rcv : Session) (h : WF t snd) (rest : Bytes) :
    ∃ bs, writeInfo t snd = .ok bs ∧
      ∀ cs : Stream, NoEmpty cs → cs.flatten = bs ++ rest →
        ∃ cs', (readInfo streamX t rcv).run cs = .ok (absorb t snd rcv, cs') ∧
          cs'.flatten = rest := by
  obtain ⟨bs, hw, hr⟩ := reads_info streamX_lawful t snd rcv h
  refine ⟨bs, hw, fun cs hne hcs => ?_⟩
  obtain ⟨s', e, a, _⟩ := hr cs rest hne hcs
  exact ⟨s', e, a⟩

/-- What `absorb` is, field by field: every kind other than the proxy update carries jitter and
sleep **exactly**, the kill date at whole seconds (`normKill`) and the work hours up to
nil ↔ `Empty()` (`normWork`). -/
theorem settings_arrive (t : Nat) (snd rcv : Session) (ht : t ≠ Facts.c12_infoProxy) :
    (absorb t snd rcv).1.jitter = snd.jitter ∧ (absorb t snd rcv).1.sleep = snd.sleep ∧
    (absorb t snd rcv).1.kill = normKill snd.kill ∧ (absorb t snd rcv).1.work = normWork snd.work := by
  unfold absorb
  simp only [ht, if_false]
  split
  · simp [absorbSettings]
  · split <;> simp [absorbSettings]

/-- The kill date is reproduced exactly unless it is the Unix epoch second 0 (indistinguishable from
"none" on the wire) or carries nanoseconds (only whole seconds travel). -/
theorem kill_exact (k : Time) (h : k.isZero = true ∨ (k.sec ≠ 0 ∧ k.nsec = 0)) : normKill k = k := by
  unfold normKill killWire killOfWire
  rcases h with h | ⟨h1, h2⟩
  · simp only [h, if_true]
    simp only [Time.isZero, decide_eq_true_eq] at h
    obtain ⟨a, b⟩ := h
    cases k; simp_all [Time.zero]
  · by_cases hz : k.isZero = true
    · simp only [hz, if_true]
      simp only [Time.isZero, decide_eq_true_eq] at hz
      obtain ⟨a, b⟩ := hz
      cases k; simp_all [Time.zero]
    · simp only [hz]
      simp only [Bool.false_eq_true, if_false, h1]
      cases k; simp_all [Time.unix]

/-- Work hours are reproduced exactly unless they are a non-nil value that is `Empty()` (which means
"no work hours" and arrives as nil). -/
theorem work_exact (w : Option WorkHours) (h : ∀ x, w = some x → x.empty = false) :
    normWork w = w := by
  cases w with
  | none => rfl
  | some x => simp [normWork, workOfWire, h x rfl]

/-- Registration, refresh and migration-completion carry the device details exactly. -/
theorem device_arrives (t : Nat) (snd rcv : Session) (ht : t ≠ Facts.c12_infoProxy)
    (hd : hasDevice t) : (absorb t snd rcv).1.device = snd.device := by
  unfold hasDevice at hd
  unfold absorb
  simp only [ht, if_false]
  split
  · simp [absorbSettings, absorbHead, hd]
  · split <;> simp [absorbSettings, absorbHead, hd]

/-- The migration hand-off carries identity, key material and the proxy list (with the proxy's
profile) exactly. -/
theorem migration_arrives (snd rcv : Session) :
    (absorb Facts.c12_infoMigrate snd rcv).1.id = snd.id ∧
    (absorb Facts.c12_infoMigrate snd rcv).1.keys = snd.keys ∧
    (absorb Facts.c12_infoMigrate snd rcv).2 = proxyView true snd := by
  have h1 : Facts.c12_infoMigrate ≠ Facts.c12_infoProxy := by decide
  have h2 : ¬ Facts.c12_infoMigrate > Facts.c12_infoRefresh := by decide
  have h3 : ¬ (Facts.c12_infoMigrate = Facts.c12_infoHello ∨ Facts.c12_infoMigrate = Facts.c12_infoRefresh ∨
      Facts.c12_infoMigrate = Facts.c12_infoSyncMigrate) := by decide
  unfold absorb
  simp only [h1, h2, if_false, ne_eq, not_true_eq_false]
  simp [absorbSettings, absorbHead, h3]

/-- The proxy update carries name and address of the attached proxy and nothing else. -/
theorem proxy_update_arrives (snd rcv : Session) :
    absorb Facts.c12_infoProxy snd rcv = (rcv, proxyView false snd) := by
  simp [absorb]

/-- Domain condition made explicit: a Session that is not an active client writes **no** proxy
section at all (not even the count byte), so a message kind that carries one cannot be read back. -/
theorem non_client_writes_no_proxy_section (s rcv : Session) (h : s.client = false) :
    writeInfo Facts.c12_infoProxy s = .ok [] ∧
    (readInfo chunkX Facts.c12_infoProxy rcv).run [] = .error (.codec .eof) := by
  constructor
  · simp [writeInfo, writeItems, proxyItems, h, Except.map, encItems, pure, Except.pure]
  · rfl

/-- The stated domain edges are real (each excluded input really is not reproduced): a kill date at
Unix second 0 arrives as "none"; nanoseconds are dropped; a non-nil `Empty()` work-hours value arrives
as nil; 256 interfaces are written as count 0 with no entries; an ID whose first byte is zero is
rejected by the reader although all its bytes are there. -/
theorem domain_edges :
    normKill ⟨0, 0⟩ = Time.zero ∧ normKill ⟨0, 0⟩ ≠ ⟨0, 0⟩ ∧
    normKill ⟨1700000000, 5⟩ = ⟨1700000000, 0⟩ ∧
    normWork (some ⟨255, 0, 0, 0, 0⟩) = none ∧
    encItems (networkItems (List.replicate 256 ⟨[], 0, []⟩)) = [0] ∧
    (readID chunkX).run (0 :: List.replicate 31 1) = .error .noProgress := by
  decide +kernel

/-! ## Order → effect → echo -/

/-- **SetDuration(t, j)**: the order always completes; an ordered jitter (`j ≠ -1`) is in effect on
the client clamped exactly as documented (`< 0 → 0`, `> 100 → 100`), an ordered sleep (`t > 0`) is in
effect exactly; a sleep-only order (`j = -1`, `SetSleep`) carries the server's view of the jitter, which
the client keeps as it is when it is a legal percentage; kill date and work hours of the client are
untouched; afterwards the server's view equals the client's. -/
theorem order_duration (srv cli : Session) (t j : Int)
    (hs : SettingsWF srv) (hc : SettingsWF cli) (ht : I64 t) :
    ∃ srv2 cli2, order (setDuration srv t j).1 (setDuration srv t j).2 cli = .ok (srv2, cli2) ∧
      (j ≠ -1 → cli2.jitter = (if j < 0 then 0 else if j > 100 then 100 else byteOf j.toNat)) ∧
      (t > 0 → cli2.sleep = t) ∧
      (j = -1 → srv.jitter.toNat ≤ 100 → cli2.jitter = srv.jitter) ∧
      cli2.kill = cli.kill ∧ cli2.work = cli.work ∧
      Synced srv2 cli2 :=
  order_duration_ok srv cli t j hs hc ht

/-- **SetKillDate(k)**: the client's kill date becomes the ordered one (whole seconds, see
`kill_exact`), nothing else changes on the client, and the server's view equals the client's. -/
theorem order_killdate (srv cli : Session) (k : Time)
    (hs : SettingsWF srv) (hc : SettingsWF cli) (hk : I64 k.sec) :
    ∃ srv2 cli2, order (setKillDate srv k).1 (setKillDate srv k).2 cli = .ok (srv2, cli2) ∧
      cli2.kill = normKill k ∧
      cli2.jitter = cli.jitter ∧ cli2.sleep = cli.sleep ∧ cli2.work = cli.work ∧
      Synced srv2 cli2 :=
  order_killdate_ok srv cli k hs hc hk

/-- **SetWorkHours(w)**: when `Verify` accepts `w`, the client's work hours become the ordered ones
(nil for nil / `Empty()`), nothing else changes on the client, and the server's view equals the
client's.  When `Verify` rejects, nothing is sent. -/
theorem order_workhours (srv cli : Session) (w : Option WorkHours)
    (hs : SettingsWF srv) (hc : SettingsWF cli) :
    match setWorkHours srv w with
    | none => ∃ x, w = some x ∧ x.empty = false ∧ x.verify = false
    | some (srv1, payload) =>
      ∃ srv2 cli2, order srv1 payload cli = .ok (srv2, cli2) ∧
        cli2.work = normWork w ∧
        cli2.jitter = cli.jitter ∧ cli2.sleep = cli.sleep ∧ cli2.kill = cli.kill ∧
        Synced srv2 cli2 :=
  order_workhours_ok srv cli w hs hc

/-- **SetProfile / SetProfileBytes (MvProfile)**: when the client accepts the profile bytes, its
settings are untouched and its echo leaves the server with the client's view. -/
theorem order_profile (parseOK : Bytes → Bool) (srv cli : Session) (b : Bytes)
    (hc : SettingsWF cli) (hb : b.length ≤ Facts.maxSlice) (hp : parseOK b = true) :
    ∃ srv2, orderProfile parseOK srv b cli = .ok (srv2, cli) ∧ Synced srv2 cli :=
  order_profile_ok parseOK srv cli b hc hb hp

/-- **SvResync** (settings / refresh changed inside a script): the packet body is the kind byte
followed by the info of that kind; the server's absorption of it yields exactly the sender's values. -/
theorem resync_roundtrip (t : UInt8) (snd rcv : Session) (h : WF t.toNat snd) (rest : Bytes) :
    ∃ bs, writeInfo t.toNat snd = .ok bs ∧
      (readResync chunkX rcv).run (t :: bs ++ rest) = .ok ((absorb t.toNat snd rcv).1, rest) :=
  resync_ok t snd rcv h rest

/-- `Synced` means the two ends have the same view of the settings. -/
theorem synced_same_view (srv cli : Session) (h : Synced srv cli) : view srv = view cli :=
  view_eq_of_synced srv cli h

/-! ## The defect that was repaired (kept as a machine-checked witness) -/

/-- `KeyPair.Unmarshal` as it was (one `Read` per key, all bytes demanded from it) fails on a
migration hand-off as soon as the pipe delivers the public key in two reads, although every byte is
there; the repaired reader (`io.ReadFull`) accepts the same stream (`roundtrip_pipe`). -/
theorem old_keypair_reader_fails_on_short_read :
    ∃ (snd rcv : Session) (bs : Bytes) (cs : Stream),
      WF Facts.c12_infoMigrate snd ∧ writeInfo Facts.c12_infoMigrate snd = .ok bs ∧
      NoEmpty cs ∧ cs.flatten = bs ∧
      (readInfoOld streamX Facts.c12_infoMigrate rcv).run cs = .error (.codec .unexpectedEOF) ∧
      (∃ cs', (readInfo streamX Facts.c12_infoMigrate rcv).run cs =
        .ok (absorb Facts.c12_infoMigrate snd rcv, cs')) :=
  old_keys_witness

/-! ## Non-vacuity -/

example : WF Facts.c12_infoHello exampleSession ∧ WF Facts.c12_infoMigrate exampleSession ∧
    WF Facts.c12_infoProxy exampleSession ∧ WF Facts.c12_infoSync exampleSession :=
  exampleSession_WF

example : writeInfo Facts.c12_infoSync exampleSession =
    .ok [100, 0, 0, 0, 0, 0x3b, 0x9a, 0xca, 0, 0, 0, 0, 0, 0x65, 0x53, 0xf1, 0, 62, 9, 0, 17, 30] := by
  decide

example : (absorb Facts.c12_infoSync exampleSession exampleReceiver).1.jitter = 100 ∧
    (absorb Facts.c12_infoSync exampleSession exampleReceiver).1.device = exampleReceiver.device := by
  decide

example : (order (setDuration exampleReceiver 5000000000 250).1 (setDuration exampleReceiver 5000000000 250).2
    exampleSession).map (fun r => (r.2.jitter, r.2.sleep, view r.1 == view r.2)) =
    .ok (100, 5000000000, true) := by
  decide

end XMT.Props.C12
