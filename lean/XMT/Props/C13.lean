/-
  C13 — Session state flags are never lost or corrupted, and 'closed' dominates.
  Property theorems only; lemmas live in XMT/StateLemmas.lean and XMT/StateConcLemmas.lean.

  Sequential part: for ALL words (symbolic, no enumeration): closed dominates, flags and the 16-bit
  last group are independent, a channel request changes the word iff it differs from the standing
  request, the 'updated' notice is consumed exactly once.
  Concurrent part: the mutators of the repaired code are compare-and-swap loops; for ALL programs
  and ALL schedules the execution is linearizable (it equals a sequential execution of the calls
  that took effect, in an order that keeps every thread's program order, with the same results);
  corollaries: no lost flag update, flag/last independence under concurrency, exactly one winner
  among concurrent test-and-clear (the 'updated' notice) / test-and-set callers.  The code before
  the repair (`Store(Load() | v)`) provably loses an update on a 4-step schedule.

  Scope notes (from an adversarial review of these statements, see DESIGN.md Appendix B.5):
  * `setChannel`, `tag` and the predicates that load the word more than once are stated for ONE
    caller at a time (sequential part); the concurrent theorems cover Set / Unset / SetLast / trySet /
    tryUnset. Two concurrent identical `SetChannel(true)` calls can both report "changed", and a
    multi-load predicate can straddle a concurrent close; neither is claimed here.
  * `standing` is the early-return guard of `SetChannel` by design ("changes state only when it
    differs from the standing request" is what that guard implements); `closed_dominates` unfolds the
    predicates, whose shapes are those of c2/state.go (compared with the real methods on all 2^16 flag
    words by the differential run).
  * `linearizable` gives an order that keeps every thread's program order; real-time order between
    threads is not part of the statement.
  Round s3 (appended at the end of this file): `linearizable_realtime` adds real-time order;
  `acc_linearizable_prims`, `acc_no_lost_flag_update`, `acc_closed_stays`, `acc_closed_dominates_partial`
  cover ALL methods (as their access programs, XMT.StateAcc) under all schedules at the level of
  read-modify-write primitives; `setChannel_not_linearizable`, `setChannel_off_no_linearization_point`,
  prove that SetChannel is NOT linearizable as a single operation (open known findings, replayed on the
  real code); Tag and the Closed()-then-load predicates were not either and have been REPAIRED in
  c2/state.go (Tag = tryUnset(stateSeen); one atomic load per predicate): `orig_tag_not_linearizable`,
  `orig_ready_not_linearizable` are witnesses about the original access programs (`Call.origTag`,
  `Call.origReady`), `repaired_tag_same_schedule`, `repaired_ready_same_schedule`, `tag_is_test_and_clear`,
  `predicates_are_single_loads` are about the code as it is now;
  `access_lists_match_source`, `model_accesses_follow_source` tie every method's access list to the source.
-/
import XMT.StateOwners
import XMT.TieXlateState
import XMT.StateLemmas
import XMT.StateConcLemmas
import XMT.StateAccLemmas
import XMT.StateRT
import XMT.StateAccLin
import XMT.StateAccShape
import XMT.StateAccInv
namespace XMT.Props.C13
open XMT XMT.State XMT.StateConc

/-! ## tie obligations on facts regenerated from c2/state.go -/

/-- Access shapes (1=Load 3=CompareAndSwap 4=`for {` 5=`}`; 2 would be a plain Store): every mutator
is one `for { Load; CompareAndSwap }` loop, and `ChannelCanStop` takes the notice through
`tryUnset`.  (`trySet` is an optional primitive: absent or a CAS loop.) -/
theorem mutators_are_cas_loops :
    Facts.c13AccSet = [4, 1, 3, 5] ∧ Facts.c13AccUnset = [4, 1, 3, 5] ∧ Facts.c13AccSetLast = [4, 1, 3, 5] ∧
    Facts.c13AccTryUnset = [4, 1, 3, 5] ∧ (Facts.c13AccTrySet = [4, 1, 3, 5] ∨ Facts.c13AccTrySet = []) ∧
    Facts.c13CanStopTestAndClear = 1 := by decide

/-- No statement of package c2 writes a state word except through those mutators: no assignment,
operator assignment or increment / decrement of a `state` field (or to `*s` inside c2/state.go), no atomic store /
swap / add anywhere on one (count regenerated from all files of the package by go/parser). The
interleaving theorems below speak about histories of `Set` / `Unset` / `SetLast` / `trySet` /
`tryUnset` operations; this obligation is what makes them cover the package. -/
theorem all_writes_through_mutators : Facts.c13DirectStateWrites = 0 := by decide

/-- …and every call of a flag mutator (`Set` / `Unset` / `trySet` / `tryUnset` on a `state` field) in
package c2 passes a flag constant (`state…`, alone or or-ed), never a computed mask: together with
`flags_are_distinct_low_bits` no flag operation can reach into the group half of the word, which is
what "updating one part never alters the other" needs at the call sites (the theorems below prove it
for flag arguments). Count regenerated from all files of the package by go/parser. -/
theorem flag_ops_take_flag_constants : Facts.c13NonConstantFlagMasks = 0 := by decide

/-- The 16 flags are 16 distinct single bits of the low half (so the high half is free for `last`). -/
theorem flags_are_distinct_low_bits :
    allFlags = allK.map (2 ^ ·) ∧ (∀ k ∈ allK, k < 16) ∧ allK.Nodup := ⟨by decide, allK_lt, allK_nodup⟩

/-! ## sequential: all 2^32 words, symbolically -/


/-- 'closed' dominates every predicate, for every word. -/
theorem closed_dominates (s : Nat) (h : closed s = true) :
    ready s = false ∧ canRecv s = false ∧ closing s = true ∧ shutdown s = true ∧
    sendClosed s = true ∧ wakeClosed s = true ∧ recvClosed s = true ∧
    channelCanStart s = false ∧ channelCanStop s = (s, true) := by
  simp [ready, canRecv, closing, shutdown, sendClosed, wakeClosed, recvClosed, channelCanStart,
    channelCanStop, h]

/-- no mutator that is not asked to clear the closed flag can re-open a closed word -/
theorem closed_stable (s v : Nat) (e : Bool) (hs : s < 2 ^ 32) (h : closed s = true) :
    closed (set s v) = true ∧ (v.testBit kClosed = false → closed (unset s v) = true) ∧
    closed (setLast s v) = true ∧ closed (setChannel s e).1 = true ∧
    closed (channelCanStop s).1 = true ∧ closed (tag s).1 = true := by
  have hc : s.testBit kClosed = true := by rw [closed, has_stClosed] at h; exact h
  have hk := kClosed_lt
  have h1 : kValue ≠ kClosed := by decide
  have h2 : kUpdated ≠ kClosed := by decide
  have h3 : kSeen ≠ kClosed := by decide
  have hl : ¬ 16 ≤ kClosed := by omega
  refine ⟨?_, ?_, ?_, ?_, ?_, ?_⟩
  · rw [closed, has_stClosed, testBit_set, hc]; rfl
  · intro hv; rw [closed, has_stClosed, testBit_unset_wf _ _ hs, hc, hv]; rfl
  · rw [closed, has_stClosed, testBit_setLast, hc]; simp [hk, hl]
  · unfold setChannel
    split <;> split <;> simp only [closed, has_stClosed, hc]
    · rw [stChannelValue_eq, stChannelUpdated_eq, testBit_set_pow, testBit_set_pow, hc]; rfl
    · rw [stChannelValue_eq, stChannelUpdated_eq, testBit_set_pow, testBit_unset_pow _ _ hs, hc]
      simp [h1]
  · rw [(closed_dominates s h).2.2.2.2.2.2.2.2]; exact h
  · unfold tag
    split
    · exact h
    · simp only [closed, has_stClosed]
      rw [stSeen_eq, testBit_unset_pow _ _ hs, hc]; simp [h3]



/-- Setting or clearing one flag changes exactly that bit of the word. -/
theorem flag_set_clear_exact (s k i : Nat) (hs : s < 2 ^ 32) :
    (set s (2 ^ k)).testBit i = (s.testBit i || decide (k = i)) ∧
    (unset s (2 ^ k)).testBit i = (s.testBit i && !decide (k = i)) :=
  ⟨testBit_set_pow s k i, testBit_unset_pow k i hs⟩

/-- Flags and the 16-bit last-group value are independent: flag updates (any mask below 2^16)
leave `last` alone, `SetLast` leaves every flag alone and installs exactly its argument, and all
results stay 32-bit words. -/
theorem flags_last_independent (s v : Nat) (hs : s < 2 ^ 32) (hv : v < 2 ^ 16) :
    last (set s v) = last s ∧ last (unset s v) = last s ∧
    flags (setLast s v) = flags s ∧ last (setLast s v) = v ∧
    predicates (setLast s v) = predicates s ∧
    set s v < 2 ^ 32 ∧ unset s v < 2 ^ 32 ∧ setLast s v < 2 ^ 32 := by
  refine ⟨last_set s hv, last_unset s hv, flags_setLast s v, last_setLast s hv, ?_,
    set_lt hs (Nat.lt_of_lt_of_le hv (by decide)), unset_lt v hs, setLast_lt s v⟩
  have e := fun k (hk : k < 16) => has_setLast s v hk
  simp only [predicates, seen, ready, moving, closed, canRecv, closing, channel, shutdown, replacing,
    recvClosed, sendClosed, wakeClosed, shutdownWait, channelValue, channelProxy, channelUpdated,
    channelCanStart, stSeen_eq, stReady_eq, stMoving_eq, stClosed_eq, stCanRecv_eq, stClosing_eq,
    stChannel_eq, stShutdown_eq, stReplacing_eq, stRecvClose_eq, stSendClose_eq, stWakeClose_eq,
    stShutdownWait_eq, stChannelValue_eq, stChannelProxy_eq, stChannelUpdated_eq,
    e _ kSeen_lt, e _ kReady_lt, e _ kMoving_lt, e _ kClosed_lt, e _ kCanRecv_lt, e _ kClosing_lt,
    e _ kChannel_lt, e _ kShutdown_lt, e _ kReplacing_lt, e _ kRecvClose_lt, e _ kSendClose_lt,
    e _ kWakeClose_lt, e _ kShutdownWait_lt, e _ kValue_lt, e _ kProxy_lt, e _ kUpdated_lt]

/-- A channel request that equals the standing request changes nothing and reports `false`. -/
theorem setChannel_same (s : Nat) (e : Bool) (h : standing s e = true) : setChannel s e = (s, false) := by
  unfold standing at h
  unfold setChannel
  cases e <;> cases hv : channelValue s <;> cases hc : channel s <;> cases hp : channelProxy s <;> simp_all

/-- A request that differs is recorded: it reports `true`, the value becomes the request, the
'updated' notice is raised, and no other bit of the word moves. -/
theorem setChannel_differs (s : Nat) (e : Bool) (hs : s < 2 ^ 32) (h : standing s e = false) :
    ∃ s', setChannel s e = (s', true) ∧ s' < 2 ^ 32 ∧ channelValue s' = e ∧ channelUpdated s' = true ∧
      ∀ i, i ≠ kValue → i ≠ kUpdated → s'.testBit i = s.testBit i := by
  have hvu : kValue ≠ kUpdated := by decide
  have huv : kUpdated ≠ kValue := by decide
  have h32 : (2:Nat) ^ kValue < 2 ^ 32 ∧ (2:Nat) ^ kUpdated < 2 ^ 32 := by decide
  unfold standing at h
  unfold setChannel
  cases e
  · refine ⟨set (unset s stChannelValue) stChannelUpdated, ?_, ?_, ?_, ?_, ?_⟩
    · cases hv : channelValue s <;> cases hc : channel s <;> cases hp : channelProxy s <;> simp_all
    · exact set_lt (unset_lt _ hs) (by rw [stChannelUpdated_eq]; exact h32.2)
    · rw [channelValue, has_stChannelValue, stChannelValue_eq, stChannelUpdated_eq, testBit_set_pow,
        testBit_unset_pow _ _ hs]; simp [huv]
    · rw [channelUpdated, has_stChannelUpdated, stChannelUpdated_eq, testBit_set_pow]; simp
    · intro i h1 h2
      rw [stChannelValue_eq, stChannelUpdated_eq, testBit_set_pow, testBit_unset_pow _ _ hs]
      simp [Ne.symm h1, Ne.symm h2]
  · refine ⟨set (set s stChannelValue) stChannelUpdated, ?_, ?_, ?_, ?_, ?_⟩
    · simp_all
    · exact set_lt (set_lt hs (by rw [stChannelValue_eq]; exact h32.1)) (by rw [stChannelUpdated_eq]; exact h32.2)
    · rw [channelValue, has_stChannelValue, stChannelValue_eq, stChannelUpdated_eq, testBit_set_pow,
        testBit_set_pow]; simp
    · rw [channelUpdated, has_stChannelUpdated, stChannelUpdated_eq, testBit_set_pow]; simp
    · intro i h1 h2
      rw [stChannelValue_eq, stChannelUpdated_eq, testBit_set_pow, testBit_set_pow]
      simp [Ne.symm h1, Ne.symm h2]

/-- Repeating a request never changes the word a second time. -/
theorem setChannel_idempotent (s : Nat) (e : Bool) (hs : s < 2 ^ 32) :
    (setChannel (setChannel s e).1 e).1 = (setChannel s e).1 := by
  have hvu : kValue ≠ kUpdated := by decide
  cases h : standing s e
  · obtain ⟨s', h1, hs', hv, hu, _⟩ := setChannel_differs s e hs h
    rw [h1]
    cases h2 : standing s' e
    · obtain ⟨s'', h3, _, hv2, hu2, hb⟩ := setChannel_differs s' e hs' h2
      rw [h3]
      apply Nat.eq_of_testBit_eq; intro i
      by_cases hi1 : i = kValue
      · subst hi1
        rw [channelValue, has_stChannelValue] at hv hv2
        rw [hv, hv2]
      · by_cases hi2 : i = kUpdated
        · subst hi2
          rw [channelUpdated, has_stChannelUpdated] at hu hu2
          rw [hu, hu2]
        · exact hb i hi1 hi2
    · rw [setChannel_same s' e h2]
  · rw [setChannel_same s e h, setChannel_same s e h]

/-- The 'updated' notice is consumed exactly once: with the channel running and the session not
closing, the first `ChannelCanStop` clears the notice (and nothing else) and answers with the
recorded value; the next one finds no notice, leaves the word alone and answers "keep going". -/
theorem notice_consumed_once (s : Nat) (hs : s < 2 ^ 32) (hu : channelUpdated s = true)
    (hch : channel s = true) (hcl : closing s = false) :
    channelCanStop s = (unset s stChannelUpdated, !channelValue s) ∧
    channelCanStop (unset s stChannelUpdated) = (unset s stChannelUpdated, false) ∧
    ∀ i, (unset s stChannelUpdated).testBit i = (s.testBit i && !decide (kUpdated = i)) := by
  have h1 : kUpdated ≠ kValue := by decide
  have h2 : kUpdated ≠ kChannel := by decide
  have h3 : kUpdated ≠ kClosed := by decide
  have h4 : kUpdated ≠ kClosing := by decide
  have hb : ∀ i, (unset s stChannelUpdated).testBit i = (s.testBit i && !decide (kUpdated = i)) := by
    intro i; rw [stChannelUpdated_eq, testBit_unset_pow _ _ hs]
  have hu' : s.testBit kUpdated = true := by rwa [channelUpdated, has_stChannelUpdated] at hu
  have hch' : s.testBit kChannel = true := by rwa [channel, has_stChannel] at hch
  -- the word after the clear
  have e1 : channelValue (unset s stChannelUpdated) = channelValue s := by
    rw [channelValue, has_stChannelValue, hb, channelValue, has_stChannelValue]; simp [h1]
  have e2 : channel (unset s stChannelUpdated) = true := by
    rw [channel, has_stChannel, hb, hch']; simp [h2]
  have e3 : closing (unset s stChannelUpdated) = false := by
    rw [← hcl]
    simp only [closing, closed, has_stClosed, has_stClosing, hb]
    simp [h3, h4]
  have e4 : (unset s stChannelUpdated).testBit kUpdated = false := by rw [hb]; simp
  refine ⟨?_, ?_, hb⟩
  · unfold channelCanStop
    rw [stChannelUpdated_eq] at e1 ⊢
    simp [hcl, hch, tryUnset_pow_of_set hu', e1]
  · unfold channelCanStop
    rw [stChannelUpdated_eq] at e2 e3 e4 ⊢
    simp [e3, e2, tryUnset_pow_of_clear e4]

/-- Without a pending notice `ChannelCanStop` is read-only. -/
theorem canStop_without_notice (s : Nat) (hu : channelUpdated s = false) : (channelCanStop s).1 = s := by
  have hu' : s.testBit kUpdated = false := by rwa [channelUpdated, has_stChannelUpdated] at hu
  unfold channelCanStop
  split
  · rfl
  · rw [stChannelUpdated_eq, tryUnset_pow_of_clear hu']; simp

/-- `Tag` reports the seen flag and clears exactly that flag. -/
theorem tag_spec (s : Nat) (hs : s < 2 ^ 32) :
    (tag s).2 = seen s ∧ ∀ i, (tag s).1.testBit i = (s.testBit i && !decide (kSeen = i)) := by
  unfold tag
  cases h : seen s
  · have : s.testBit kSeen = false := by rwa [seen, has_stSeen] at h
    refine ⟨rfl, fun i => ?_⟩
    by_cases hi : kSeen = i
    · subst hi; simp [this]
    · simp [hi]
  · refine ⟨rfl, fun i => ?_⟩
    simp only [Bool.not_true, Bool.false_eq_true, ↓reduceIte]
    rw [stSeen_eq, testBit_unset_pow _ _ hs]


/-! ## the access-level programs are the sequential methods -/

/-- Every method of state.go, written as its sequence of atomic loads / compare-and-swap loops
(XMT.StateAcc, the model the schedule replay runs against the real code), computes — when no other
thread interferes — exactly the sequential function the theorems above are about, within 8
accesses. -/
theorem access_model_refines_sequential (c : StateAcc.Call) (w : Nat) :
    StateAcc.solo 8 c.meth w = some (c.seq w) := StateAcc.solo_eq_seq c w

/-! ## concurrent: all programs, all schedules -/

/-- **Linearizability.** For every initial word, every family of thread programs over
Set / Unset / SetLast / tryUnset / trySet and EVERY schedule, there is a sequential history `lin`
(the calls that took effect) which is legal from the initial word, ends in the current word, keeps
each thread's program order (`proj t lin` followed by the thread's remaining calls is its program)
and reproduces exactly the results each thread got. -/
theorem linearizable (w : Nat) (progs : List (List Op)) (sched : List Nat) :
    let s := run (Sys.init w progs) sched
    ∃ lin, Lin w lin s.mem ∧ s.thr.length = progs.length ∧ (∀ e ∈ lin, e.tid < progs.length) ∧
      ∀ t th, s.thr[t]? = some th →
        ∃ p, progs[t]? = some p ∧ (proj t lin).map (·.op) ++ th.ops = p ∧ th.rets = (proj t lin).map (·.ret) := by
  intro s
  have hi : Inv w progs s := inv_run (inv_init w progs) sched
  exact ⟨s.hist, hi.lin, hi.len, hi.tid, hi.thr⟩

/-- **No lost update** (flags). Once all calls have returned: a flag that some call set (or that
was set initially) and that no call of any thread clears is set in the final word; dually for
clears.  Holds for every schedule. -/
theorem no_lost_flag_update (w : Nat) (progs : List (List Op)) (sched : List Nat) (k : Nat) (hk : k < 16)
    (hdone : (run (Sys.init w progs) sched).completed = true) :
    ((∀ p ∈ progs, ∀ op ∈ p, op.clears k = false) →
      (w.testBit k = true ∨ ∃ p ∈ progs, ∃ op ∈ p, op.sets k = true) →
      (run (Sys.init w progs) sched).mem.testBit k = true) ∧
    ((∀ p ∈ progs, ∀ op ∈ p, op.sets k = false) →
      (w.testBit k = false ∨ ∃ p ∈ progs, ∃ op ∈ p, op.clears k = true) →
      (run (Sys.init w progs) sched).mem.testBit k = false) := by
  have hi : Inv w progs (run (Sys.init w progs) sched) := inv_run (inv_init w progs) sched
  constructor
  · intro hc hs
    apply lin_bit_set hi.lin hk
    · intro e he
      obtain ⟨p, hp, hop⟩ := inv_op_of_hist hi he
      exact hc p hp _ hop
    · rcases hs with hs | ⟨p, hp, op, hop, hs⟩
      · exact Or.inl hs
      · obtain ⟨e, he, rfl⟩ := inv_hist_of_op hi hdone hp hop
        exact Or.inr ⟨e, he, hs⟩
  · intro hc hs
    apply lin_bit_clear hi.lin hk
    · intro e he
      obtain ⟨p, hp, hop⟩ := inv_op_of_hist hi he
      exact hc p hp _ hop
    · rcases hs with hs | ⟨p, hp, op, hop, hs⟩
      · exact Or.inl hs
      · obtain ⟨e, he, rfl⟩ := inv_hist_of_op hi hdone hp hop
        exact Or.inr ⟨e, he, hs⟩

/-- **Updating one part never alters the other, under any interleaving** (also mid-execution):
threads that only touch flags (masks below 2^16) never change `last`; threads that only call
`SetLast` never change a flag. -/
theorem parts_independent_concurrently (w : Nat) (progs : List (List Op)) (sched : List Nat) :
    ((∀ p ∈ progs, ∀ op ∈ p, op.flagOnly = true) →
      last (run (Sys.init w progs) sched).mem = last w) ∧
    ((∀ p ∈ progs, ∀ op ∈ p, op.isSetLast = true) →
      flags (run (Sys.init w progs) sched).mem = flags w) := by
  have hi : Inv w progs (run (Sys.init w progs) sched) := inv_run (inv_init w progs) sched
  constructor
  · intro h
    apply lin_last_flagOnly hi.lin
    intro e he
    obtain ⟨p, hp, hop⟩ := inv_op_of_hist hi he
    exact h p hp _ hop
  · intro h
    apply lin_flags_setLast hi.lin
    intro e he
    obtain ⟨p, hp, hop⟩ := inv_op_of_hist hi he
    exact h p hp _ hop

/-- **The last group with a single writer.** If one thread `p` issues all `SetLast` calls (the
others, and `p`'s other calls, are flag calls with masks below 2^16), then once all calls have
returned the last-group value is the argument of `p`'s final `SetLast` (or the initial value if it
made none) — under every schedule, whatever the flag traffic around it. -/
theorem single_writer_last (w : Nat) (progs : List (List Op)) (sched : List Nat) (p : Nat) (prog : List Op)
    (hp : progs[p]? = some prog)
    (hothers : ∀ t q, progs[t]? = some q → t ≠ p → ∀ op ∈ q, op.flagOnly = true)
    (hprog : ∀ op ∈ prog, op.flagOnly = true ∨ (op.isSetLast = true ∧ op.lastOk = true))
    (hdone : (run (Sys.init w progs) sched).completed = true) :
    last (run (Sys.init w progs) sched).mem = (lastWritten prog).getD (last w) := by
  have hi : Inv w progs (run (Sys.init w progs) sched) := inv_run (inv_init w progs) sched
  have hev : ∀ e ∈ (run (Sys.init w progs) sched).hist,
      (e.op.flagOnly = true ∨ (e.op.isSetLast = true ∧ e.op.lastOk = true)) ∧ (e.op.isSetLast = true → e.tid = p) := by
    intro e he
    obtain ⟨q, hq, hop⟩ := inv_op_of_hist_tid hi he
    by_cases htp : e.tid = p
    · rw [htp, hp] at hq
      cases hq
      exact ⟨hprog _ hop, fun _ => htp⟩
    · have hf := hothers e.tid q hq htp _ hop
      exact ⟨Or.inl hf, fun h => by rw [flagOnly_not_setLast _ hf] at h; cases h⟩
  rw [lin_last_written hi.lin (fun e he => (hev e he).1), lastWritten_filter,
    setLast_ops_of_writer (fun e he => (hev e he).2), ← lastWritten_filter]
  have hpl : p < (run (Sys.init w progs) sched).thr.length := by
    rw [hi.len]
    rcases Nat.lt_or_ge p progs.length with h | h
    · exact h
    · rw [List.getElem?_eq_none h] at hp; cases hp
  obtain ⟨th, hth⟩ := getElem?_of_lt_thr hpl
  obtain ⟨q, hq, h1, _⟩ := hi.thr p th hth
  rw [hp] at hq
  cases hq
  have hops : th.ops = [] := by
    have := List.all_eq_true.mp hdone th (List.mem_of_getElem? hth)
    simpa using this
  rw [hops, List.append_nil] at h1
  rw [h1]

/-- **Progress** (the `completed` hypothesis above is always attainable): from every state of the
machine some continuation of the schedule lets every call return — a thread that runs alone
finishes each call within three accesses, a failed compare-and-swap only ever sends it back to the
load. -/
theorem completion_always_possible (w : Nat) (progs : List (List Op)) (sched : List Nat) :
    ∃ more, (run (Sys.init w progs) (sched ++ more)).completed = true := by
  obtain ⟨more, h⟩ := exists_completion (run (Sys.init w progs) sched)
  exact ⟨more, by rw [run_append]; exact h⟩

/-- **The notice is consumed exactly once, whoever polls.** Any number of threads call
`tryUnset(2^k)` (what `ChannelCanStop` does with the 'updated' flag) next to calls that leave bit
`k` alone; the flag is initially set.  For every schedule, once all have returned, exactly one of
the `tryUnset` calls in the linearization (whose per-thread projections are the results the threads
really got, by `linearizable`) reported success. -/
theorem test_and_clear_single_winner (w : Nat) (progs : List (List Op)) (sched : List Nat) (k : Nat) (hk : k < 16)
    (hops : ∀ p ∈ progs, ∀ op ∈ p, op = .tryUnset (2 ^ k) ∨ (op.sets k = false ∧ op.clears k = false))
    (hw : w.testBit k = true) (hcall : ∃ p ∈ progs, Op.tryUnset (2 ^ k) ∈ p)
    (hdone : (run (Sys.init w progs) sched).completed = true) :
    let s := run (Sys.init w progs) sched
    ∃ lin, Lin w lin s.mem ∧
      (∀ t th, s.thr[t]? = some th →
        ∃ p, progs[t]? = some p ∧ (proj t lin).map (·.op) = p ∧ th.rets = (proj t lin).map (·.ret)) ∧
      (lin.filter fun e => e.op == .tryUnset (2 ^ k) && e.ret).length = 1 ∧ s.mem.testBit k = false := by
  intro s
  have hi : Inv w progs s := inv_run (inv_init w progs) sched
  have hops' : ∀ e ∈ s.hist, e.op = .tryUnset (2 ^ k) ∨ (e.op.sets k = false ∧ e.op.clears k = false) := by
    intro e he
    obtain ⟨p, hp, hop⟩ := inv_op_of_hist hi he
    exact hops p hp _ hop
  obtain ⟨p, hp, hop⟩ := hcall
  obtain ⟨e, he, heq⟩ := inv_hist_of_op hi hdone hp hop
  refine ⟨s.hist, hi.lin, ?_, ?_, ?_⟩
  · intro t th hth
    obtain ⟨p, hp, h1, h2⟩ := hi.thr t th hth
    have hops : th.ops = [] := by
      have := List.all_eq_true.mp hdone th (List.mem_of_getElem? hth)
      simpa using this
    rw [hops, List.append_nil] at h1
    exact ⟨p, hp, h1, h2⟩
  · have := lin_TU_winner hi.lin hops' hk
    rw [if_pos ⟨hw, e, he, heq⟩] at this
    exact this
  · rcases (lin_TU_once hi.lin hops' hk).1 hw with ⟨_, _, h3⟩ | ⟨h1, _⟩
    · exact absurd heq (h3 e he)
    · exact h1

/-- The same for `trySet` ("set closing unless already closing"): of any number of concurrent
callers on a clear flag exactly one is told that it made the change. -/
theorem test_and_set_single_winner (w : Nat) (progs : List (List Op)) (sched : List Nat) (k : Nat) (hk : k < 16)
    (hops : ∀ p ∈ progs, ∀ op ∈ p, op = .trySet (2 ^ k) ∨ (op.sets k = false ∧ op.clears k = false))
    (hw : w.testBit k = false) (hcall : ∃ p ∈ progs, Op.trySet (2 ^ k) ∈ p)
    (hdone : (run (Sys.init w progs) sched).completed = true) :
    let s := run (Sys.init w progs) sched
    ∃ lin, Lin w lin s.mem ∧
      (∀ t th, s.thr[t]? = some th →
        ∃ p, progs[t]? = some p ∧ (proj t lin).map (·.op) = p ∧ th.rets = (proj t lin).map (·.ret)) ∧
      (lin.filter fun e => e.op == .trySet (2 ^ k) && e.ret).length = 1 ∧ s.mem.testBit k = true := by
  intro s
  have hi : Inv w progs s := inv_run (inv_init w progs) sched
  have hops' : ∀ e ∈ s.hist, e.op = .trySet (2 ^ k) ∨ (e.op.sets k = false ∧ e.op.clears k = false) := by
    intro e he
    obtain ⟨p, hp, hop⟩ := inv_op_of_hist hi he
    exact hops p hp _ hop
  obtain ⟨p, hp, hop⟩ := hcall
  obtain ⟨e, he, heq⟩ := inv_hist_of_op hi hdone hp hop
  refine ⟨s.hist, hi.lin, ?_, ?_, ?_⟩
  · intro t th hth
    obtain ⟨p, hp, h1, h2⟩ := hi.thr t th hth
    have hops : th.ops = [] := by
      have := List.all_eq_true.mp hdone th (List.mem_of_getElem? hth)
      simpa using this
    rw [hops, List.append_nil] at h1
    exact ⟨p, hp, h1, h2⟩
  · have := lin_TS_winner hi.lin hops' hk
    rw [if_pos ⟨hw, e, he, heq⟩] at this
    exact this
  · rcases (lin_TS_once hi.lin hops' hk).1 hw with ⟨_, _, h3⟩ | ⟨h1, _⟩
    · exact absurd heq (h3 e he)
    · exact h1

/-! ## the code before the repair loses an update (proved negation, replayed on the real code) -/

/-- `Store(Load() | v)`: thread 0 calls `Set(stateClosing)`, thread 1 calls `Set(stateReady)`; under
the 4-step schedule load₀ load₁ store₀ store₁ both calls return, nobody clears the closing flag,
and yet it is not set — the conclusion of `no_lost_flag_update` fails for the load/store machine. -/
theorem unrepaired_loses_update :
    ∃ sched, (runLS (Sys.init 0 [[.set stClosing], [.set stReady]]) sched).completed = true ∧
      (runLS (Sys.init 0 [[.set stClosing], [.set stReady]]) sched).mem.testBit kClosing = false ∧
      (∀ p ∈ [[Op.set stClosing], [Op.set stReady]], ∀ op ∈ p, op.clears kClosing = false) ∧
      (∃ p ∈ [[Op.set stClosing], [Op.set stReady]], ∃ op ∈ p, op.sets kClosing = true) :=
  ⟨[0, 1, 0, 1], by decide⟩

/-- …while the repaired machine, on the same schedule (plus the retry), keeps both flags. -/
theorem repaired_same_schedule :
    (run (Sys.init 0 [[.set stClosing], [.set stReady]]) [0, 1, 0, 1, 1, 1]).completed = true ∧
    (run (Sys.init 0 [[.set stClosing], [.set stReady]]) [0, 1, 0, 1, 1, 1]).mem = stClosing ||| stReady ∧
    (run (Sys.init 0 [[.set stClosing], [.set stReady]]) [0, 1, 0, 1, 1, 1]).casFail = 1 := by decide

/-! ## non-vacuity -/

example : closed (stClosed ||| stReady ||| stCanRecv) = true ∧ ready (stReady ||| stCanRecv) = true := by decide
example : standing (stChannel ||| stChannelProxy) false = false ∧ standing stChannel false = true ∧
    setChannel stChannel true = (stChannel ||| stChannelValue ||| stChannelUpdated, true) := by decide
example : channelUpdated (stChannel ||| stChannelUpdated) = true ∧ channel (stChannel ||| stChannelUpdated) = true ∧
    closing (stChannel ||| stChannelUpdated) = false ∧
    channelCanStop (stChannel ||| stChannelUpdated) = (stChannel, true) ∧ channelCanStop stChannel = (stChannel, false) := by
  decide
example : setLast 0xFFFF 0xBEEF = 0xBEEFFFFF ∧ last 0xBEEFFFFF = 0xBEEF ∧ unset 0xBEEFFFFF stClosed = 0xBEEFFFFB := by decide
/-- three consumers, one notice, an interleaving with failed compare-and-swaps: completed, one winner -/
example :
    let s := run (Sys.init stChannelUpdated [[.tryUnset stChannelUpdated], [.tryUnset stChannelUpdated], [.set stReady, .tryUnset stChannelUpdated]])
      [0, 1, 2, 2, 0, 1, 0, 1, 2, 0, 1, 1, 2, 2]
    s.completed = true ∧ s.casFail = 4 ∧ s.mem = stReady ∧ s.thr.map (·.rets) = [[true], [false], [true, false]] := by
  decide


/-! ## round s3: real-time order, call-level (non-)linearizability of the multi-access methods -/

/-- **Linearizability with real-time order.** `runT` is the machine `run` with ghost clocks
(`StateRT.runT_sys`: erasing them gives `run` on the same schedule): every call that took effect is
logged with the schedule position `inv` of its FIRST shared-memory access and `fin` of its LAST one
(`inv ≤ fin < |sched|`), so "A returned before B was invoked" implies `A.fin < B.inv`.  For every
initial word, all programs and EVERY schedule the log, with the clocks erased, is the linearization
`lin` of `linearizable` (legal from `w`, ends in the current word, per-thread program order and
results), and it respects real time: whenever `lin[i].fin < lin[j].inv`, call `i` precedes call `j`
in the linearization.  (Calls of one thread never overlap: the earlier one's `fin` is below the later
one's `inv`, so program order is the special case.) -/
theorem linearizable_realtime (w : Nat) (progs : List (List Op)) (sched : List Nat) :
    let ts := StateRT.runT (StateRT.TSys.init w progs) sched
    let s := run (Sys.init w progs) sched
    ts.sys = s ∧ ts.thist.map (·.ev) = s.hist ∧
    Lin w (ts.thist.map (·.ev)) s.mem ∧
    (∀ t th, s.thr[t]? = some th → ∃ p, progs[t]? = some p ∧
      (proj t (ts.thist.map (·.ev))).map (·.op) ++ th.ops = p ∧ th.rets = (proj t (ts.thist.map (·.ev))).map (·.ret)) ∧
    (∀ te ∈ ts.thist, te.inv ≤ te.fin ∧ te.fin < sched.length) ∧
    (∀ i j (hi : i < ts.thist.length) (hj : j < ts.thist.length), ts.thist[i].fin < ts.thist[j].inv → i < j) ∧
    (∀ i j (hi : i < ts.thist.length) (hj : j < ts.thist.length), i < j →
      ts.thist[i].ev.tid = ts.thist[j].ev.tid → ts.thist[i].fin < ts.thist[j].inv) := by
  intro ts s
  have hT : StateRT.TInv ts := StateRT.tinv_run (StateRT.tinv_init w progs) sched
  have hsys : ts.sys = s := StateRT.runT_sys _ sched
  have hI : Inv w progs s := inv_run (inv_init w progs) sched
  have he : ts.thist.map (·.ev) = s.hist := by rw [← hsys]; exact hT.erase
  have hnow : ts.now = sched.length := by
    have := StateRT.runT_now (StateRT.TSys.init w progs) sched
    rw [this]; simp [StateRT.TSys.init]
  refine ⟨hsys, he, ?_, ?_, ?_, ?_, ?_⟩
  · rw [he]; exact hI.lin
  · rw [he]; exact hI.thr
  · intro te hte
    have := hT.bound te hte
    exact ⟨this.1, by rw [← hnow]; exact this.2⟩
  · exact StateRT.realtime_of_sorted hT.sorted (fun te hte => (hT.bound te hte).1)
  · intro i j hi hj hij
    exact List.pairwise_iff_getElem.mp hT.prog i j hi hj hij

/-- non-vacuity of `linearizable_realtime`: two threads, thread 1's first call overlaps thread 0's
(failed compare-and-swap, retry), thread 0's second call starts after thread 1 returned: the log
is (thread, inv, fin) = (1,1,2), (0,0,5), (0,6,7). -/
example :
    let ts := StateRT.runT (StateRT.TSys.init 0 [[.set stClosing, .set stSeen], [.set stReady]]) [0, 1, 1, 0, 0, 0, 0, 0]
    ts.thist.map (fun te => (te.ev.tid, te.inv, te.fin)) = [(1, 1, 2), (0, 0, 5), (0, 6, 7)] ∧
    ts.sys.completed = true ∧ ts.sys.casFail = 1 := by decide


/-! ### proved negations: the multi-access methods are not linearizable as single operations -/

/-- **`SetChannel` is not linearizable as one operation** (proved negation; finding
`not-linearizable:SetChannel:both-report-changed`).  Two threads call `SetChannel(true)` on word 0;
both perform their `ChannelValue()` load before either performs its `Set`: both return `true`
("changed"), whereas in each of the two sequential orders the second call meets the standing request
and returns `false`.  The final word is the sequential one — only the report is duplicated (in c2 the
one caller, `Session.SetChannel`, then queues the channel packet twice). -/
theorem setChannel_not_linearizable :
    let progs : List (List StateAcc.Call) := [[.setChannel true], [.setChannel true]]
    let s := StateAcc.runA (StateAcc.ASys.init 0 progs) [0, 1, 0, 0, 0, 0, 1, 1, 1, 1]
    s.completed = true ∧ s.thr.map (·.rets) = [[1], [1]] ∧ s.mem = stChannelValue ||| stChannelUpdated ∧
    StateAccLin.seqOutcomes 0 progs = [(stChannelValue ||| stChannelUpdated, [[1], [0]]), (stChannelValue ||| stChannelUpdated, [[0], [1]])] ∧
    StateAccLin.linearizableA 0 progs [0, 1, 0, 0, 0, 0, 1, 1, 1, 1] = false := by decide

/-- **`SetChannel(false)` has no linearization point** (proved negation; finding
`not-linearizable:SetChannel:off-straddles`): its guard `(!Channel() || !ChannelProxy()) &&
!ChannelValue()` is three loads.  Word = `ChannelValue`; thread 0 loads `Channel` (clear), thread 1
runs `Set(Channel|ChannelProxy)` and `Unset(ChannelValue)`, thread 0 loads `ChannelValue` (clear now)
and returns `false` ("nothing to cancel") without raising the notice — yet at every moment of the
execution the request differed from the standing one (`standing _ false = false` on all three words
the memory ever held), and every sequential order returns `true` and raises the notice. -/
theorem setChannel_off_no_linearization_point :
    let progs : List (List StateAcc.Call) :=
      [[.setChannel false], [.prim (.set (stChannel ||| stChannelProxy)), .prim (.unset stChannelValue)]]
    let s := StateAcc.runA (StateAcc.ASys.init stChannelValue progs) [0, 1, 1, 1, 1, 0]
    s.completed = true ∧ s.thr.map (·.rets) = [[0], [1, 1]] ∧ s.mem = stChannel ||| stChannelProxy ∧
    standing stChannelValue false = false ∧ standing (stChannelValue ||| stChannel ||| stChannelProxy) false = false ∧
    standing (stChannel ||| stChannelProxy) false = false ∧
    (∀ o ∈ StateAccLin.seqOutcomes stChannelValue progs, o = (stChannel ||| stChannelProxy ||| stChannelUpdated, [[1], [1, 1]])) ∧
    StateAccLin.linearizableA stChannelValue progs [0, 1, 1, 1, 1, 0] = false := by decide

/-- **`Tag` BEFORE the repair was not linearizable with two concurrent taggers** (witness about the
original access program `Call.origTag`: `Seen()` load, then `Unset(stateSeen)`; repaired finding
`not-linearizable:Tag:both-report-seen`): both callers load before either clears, both return
`true`; sequentially exactly one does. -/
theorem orig_tag_not_linearizable :
    let progs : List (List StateAcc.Call) := [[.origTag], [.origTag]]
    let s := StateAcc.runA (StateAcc.ASys.init stSeen progs) [0, 1, 0, 0, 1, 1]
    s.completed = true ∧ s.thr.map (·.rets) = [[1], [1]] ∧ s.mem = 0 ∧
    StateAccLin.seqOutcomes stSeen progs = [(0, [[1], [0]]), (0, [[0], [1]])] ∧
    StateAccLin.linearizableA stSeen progs [0, 1, 0, 0, 1, 1] = false := by decide

/-- …the repaired `Tag` (`return s.tryUnset(stateSeen)`: one compare-and-swap loop) on the same
schedule: thread 1's compare-and-swap fails, it reloads, finds the mark gone and reports `false`;
exactly one tagger wins and the outcome is a sequential one. -/
theorem repaired_tag_same_schedule :
    let progs : List (List StateAcc.Call) := [[.tag], [.tag]]
    let s := StateAcc.runA (StateAcc.ASys.init stSeen progs) [0, 1, 0, 0, 1, 1]
    s.completed = true ∧ s.thr.map (·.rets) = [[1], [0]] ∧ s.mem = 0 ∧ s.casFail = 1 ∧
    StateAccLin.linearizableA stSeen progs [0, 1, 0, 0, 1, 1] = true := by decide

/-- **The repaired `Tag` is the test-and-clear primitive**: its access program and its sequential
meaning are those of the direct call `tryUnset(stateSeen)`, so every all-schedule theorem about the
primitives (`linearizable`, `linearizable_realtime`, `test_and_clear_single_winner` with `k = kSeen`:
of any number of concurrent taggers exactly one reports the mark) is a theorem about `Tag`. -/
theorem tag_is_test_and_clear :
    StateAcc.Call.tag.meth = (StateAcc.Call.prim (.tryUnset stSeen)).meth ∧ stSeen = 2 ^ kSeen ∧ kSeen < 16 ∧
    ∀ w, StateAcc.Call.tag.seq w = (StateAcc.Call.prim (.tryUnset stSeen)).seq w := by
  refine ⟨rfl, stSeen_eq, kSeen_lt, fun w => ?_⟩
  have := StateAcc.solo_eq_seq .tag w
  have h2 := StateAcc.solo_eq_seq (.prim (.tryUnset stSeen)) w
  rw [show StateAcc.Call.tag.meth = (StateAcc.Call.prim (.tryUnset stSeen)).meth from rfl, h2] at this
  exact (Option.some.inj this).symm

/-- **A two-load predicate could report a combination that never existed** (witness about the
original access program `Call.origReady`: `Closed()` load, then a second load; repaired finding
`not-linearizable:Ready:straddles-close`): `Ready()` loads `Closed` (clear), another thread runs
`Set(stateClosed)` and then `Set(stateReady)`, `Ready()` loads `Ready` (set) and returns `true` — the
word was never "ready and not closed" (it was 0, closed, closed|ready), every sequential order
returns `false`, and the call returned `true` after the session was closed. -/
theorem orig_ready_not_linearizable :
    let progs : List (List StateAcc.Call) := [[.origReady], [.prim (.set stClosed), .prim (.set stReady)]]
    let s := StateAcc.runA (StateAcc.ASys.init 0 progs) [0, 1, 1, 1, 1, 0]
    s.completed = true ∧ s.thr.map (·.rets) = [[1], [1, 1]] ∧ s.mem = stClosed ||| stReady ∧
    ready 0 = false ∧ ready stClosed = false ∧ ready (stClosed ||| stReady) = false ∧
    (∀ o ∈ StateAccLin.seqOutcomes 0 progs, o = (stClosed ||| stReady, [[0], [1, 1]])) ∧
    StateAccLin.linearizableA 0 progs [0, 1, 1, 1, 1, 0] = false := by decide

/-- …the repaired `Ready` (one load) on the same schedule answers `false` and the outcome is the
sequential one. -/
theorem repaired_ready_same_schedule :
    let progs : List (List StateAcc.Call) := [[.ready], [.prim (.set stClosed), .prim (.set stReady)]]
    let s := StateAcc.runA (StateAcc.ASys.init 0 progs) [0, 1, 1, 1, 1, 0]
    s.completed = true ∧ s.thr.map (·.rets) = [[0], [1, 1]] ∧ s.mem = stClosed ||| stReady ∧
    StateAccLin.linearizableA 0 progs [0, 1, 1, 1, 1, 0] = true := by decide

/-- **The repaired predicates are single atomic reads of the sequential predicate.**  `Ready`,
`CanRecv`, `ChannelCanStart`, `Closing` / `Shutdown` / `RecvClosed` / `SendClosed` / `WakeClosed`
(and the plain flag reads and `Last`) perform exactly ONE shared-memory access, and what they return
is the sequential predicate (`Call.seq`, the functions `closed_dominates` is about) of the word that
access read, the word being left alone.  The load is the linearization point: under every schedule
the answer is the truth about a word the session really held, so a word with the closed flag never
yields ready / receivable / startable / non-closing. -/
theorem predicates_are_single_loads (c : StateAcc.Call)
    (hc : c = .ready ∨ c = .canRecv ∨ c = .canStart ∨ c = .last ∨ (∃ m, c = .dom m) ∨ (∃ m, c = .simple m)) :
    ∃ k, c.meth = .load k ∧ ∀ w, k w = .ret (c.seq w).2 ∧ (c.seq w).1 = w := by
  have key : ∀ k, c.meth = .load k → (∀ w, ∃ r, k w = .ret r) → (∀ w, (c.seq w).1 = w) →
      ∀ w, k w = .ret (c.seq w).2 ∧ (c.seq w).1 = w := by
    intro k hk hr hw w
    refine ⟨?_, hw w⟩
    obtain ⟨r, hr⟩ := hr w
    have := StateAcc.solo_eq_seq c w
    rw [hk] at this
    simp only [StateAcc.solo, hr, Option.some.injEq] at this
    rw [hr, ← this]
  rcases hc with rfl | rfl | rfl | rfl | ⟨m, rfl⟩ | ⟨m, rfl⟩
  all_goals exact ⟨_, rfl, key _ rfl (fun w => ⟨_, rfl⟩) (fun w => rfl)⟩


/-! ### tie: the access lists of every method, regenerated from the source -/

/-- **Tie of the access lists.** For every method of `*state` in c2/state.go the flattened sequence
of `atomic.LoadUint32` (1) / `CompareAndSwapUint32` (3) calls and retry loops (4 … 5), callee
methods inlined, regenerated from the current source by go/parser, IS the model's table
`StateAccShape.accessLists` (26 methods).  One more or one fewer access, a reordered one, a
`Store` (2), another atomic primitive (6), a new or renamed method: this no longer checks. -/
theorem access_lists_match_source : Facts.c13AccessLists = StateAccShape.accessLists := by decide

/-- …and the access programs of the interleaving model follow that table: for EVERY call and
EVERY word, the accesses the program `c.meth` performs when it runs alone (`trace`: 1 per load; 4 1 3 5
per pass of a read-modify-write loop, 4 1 5 when it returns early) are a sublist of the row of each
source method the call stands for — the program takes one path through the source, never an access
the source does not have, never in another order. -/
theorem model_accesses_follow_source (c : StateAcc.Call) (w : Nat) :
    (StateAccShape.Call.fns c).all (StateAccShape.within (StateAccShape.trace 8 c.meth w)) = true :=
  StateAccShape.trace_sublist c w

/-- coverage: the rows are reached in full (one word per row; the two rows with exclusive branches —
`ChannelCanStop`, `SetChannel` — by the words of their branches) -/
example :
    StateAccShape.trace 8 (StateAcc.Call.canRecv).meth stCanRecv = [1] ∧
    StateAccShape.trace 8 (StateAcc.Call.canStart).meth 0 = [1] ∧
    StateAccShape.trace 8 (StateAcc.Call.tag).meth stSeen = [4, 1, 3, 5] ∧
    StateAccShape.trace 8 (StateAcc.Call.canStop).meth (stChannel ||| stChannelUpdated) = [1, 1, 4, 1, 3, 5, 1] ∧
    StateAccShape.trace 8 (StateAcc.Call.canStop).meth stChannel = [1, 1, 4, 1, 5, 1] ∧
    StateAccShape.trace 8 (StateAcc.Call.setChannel true).meth 0 = [1, 4, 1, 3, 5, 4, 1, 3, 5] ∧
    StateAccShape.trace 8 (StateAcc.Call.setChannel false).meth (stChannel ||| stChannelValue) = [1, 1, 1, 4, 1, 3, 5, 4, 1, 3, 5] ∧
    StateAccShape.trace 8 (StateAcc.Call.ready).meth 0 = [1] ∧
    StateAccShape.trace 8 (StateAcc.Call.dom stClosing).meth 0 = [1] ∧
    StateAccShape.trace 8 (StateAcc.Call.prim (.trySet stClosing)).meth 0 = [4, 1, 3, 5] := by decide


/-! ### all methods (SetChannel, Tag, ChannelCanStop, the multi-load predicates) under all schedules -/

/-- **Every interleaving of ALL methods is a sequential history of read-modify-write primitives.**
Threads run arbitrary programs over every method of c2/state.go, each method being the sequence of
atomic loads and compare-and-swap loops the source performs (`StateAcc.Call.meth`; `SetChannel` =
1–3 loads + two loops, `Tag` = load + loop, `ChannelCanStop` = 3 loads + loop + load, …).  For EVERY
schedule there is a history `lin` of primitives (`Set` / `Unset` / `SetLast` / `tryUnset` / `trySet`,
called directly or from inside a compound method) that is a legal sequential execution from the
initial word ending in the current word, in which every primitive belongs to a call of the issuing
thread's program (`Call.prims`), and which contains every directly called primitive that has
returned.  Consequently no compound method can lose or corrupt what another thread's primitive did:
the word is always the result of applying whole primitives one after the other. -/
theorem acc_linearizable_prims (w : Nat) (progs : List (List StateAcc.Call)) (sched : List Nat) :
    let s := StateAcc.runA (StateAcc.ASys.init w progs) sched
    ∃ lin, Lin w lin s.mem ∧ s.thr.length = progs.length ∧
      (∀ e ∈ lin, ∃ p, progs[e.tid]? = some p ∧ ∃ c ∈ p, e.op ∈ StateAccInv.Call.prims c) ∧
      ∀ t th, s.thr[t]? = some th → ∃ done, progs[t]? = some (done ++ th.calls) ∧
        ∀ op, StateAcc.Call.prim op ∈ done → ∃ e ∈ lin, e.op = op ∧ e.tid = t := by
  intro s
  have hi := StateAccInv.ginv_run (StateAccInv.ginv_init w progs) sched
  have hs : (StateAccInv.runG (StateAccInv.GSys.init w progs) sched).sys = s := StateAccInv.runG_sys _ sched
  rw [← hs]
  refine ⟨_, hi.lin, hi.len, hi.ops, ?_⟩
  intro t th ht
  obtain ⟨done, h1, h2, _⟩ := hi.thr t th ht
  exact ⟨done, h1, h2⟩

/-- **No update of another flag is lost, whatever compound methods run next to it.**  Flag bit
`k < 16`; no call of any thread can clear it (`Call.prims`: `SetChannel(false)` clears only
ChannelValue, `Tag` only Seen, `ChannelCanStop` only ChannelUpdated).  Then under EVERY schedule:
if the bit was set initially it is set in every intermediate word, and once a thread has returned
from a direct `Set` / `trySet` of it (`done`), it is set — `SetChannel`, `Tag`, `ChannelCanStop` and
the predicates in flight in other threads notwithstanding.  Dually for clears. -/
theorem acc_no_lost_flag_update (w : Nat) (progs : List (List StateAcc.Call)) (sched : List Nat) (k : Nat) (hk : k < 16) :
    let s := StateAcc.runA (StateAcc.ASys.init w progs) sched
    ((∀ p ∈ progs, ∀ c ∈ p, ∀ op ∈ StateAccInv.Call.prims c, op.clears k = false) →
      (w.testBit k = true → s.mem.testBit k = true) ∧
      (∀ (t : Nat) (th : StateAcc.AThread) (done : List StateAcc.Call) (op : Op), s.thr[t]? = some th → progs[t]? = some (done ++ th.calls) → StateAcc.Call.prim op ∈ done →
        op.sets k = true → s.mem.testBit k = true)) ∧
    ((∀ p ∈ progs, ∀ c ∈ p, ∀ op ∈ StateAccInv.Call.prims c, op.sets k = false) →
      (w.testBit k = false → s.mem.testBit k = false) ∧
      (∀ (t : Nat) (th : StateAcc.AThread) (done : List StateAcc.Call) (op : Op), s.thr[t]? = some th → progs[t]? = some (done ++ th.calls) → StateAcc.Call.prim op ∈ done →
        op.clears k = true → s.mem.testBit k = false)) := by
  intro s
  have hi := StateAccInv.ginv_run (StateAccInv.ginv_init w progs) sched
  have hs : (StateAccInv.runG (StateAccInv.GSys.init w progs) sched).sys = s := StateAccInv.runG_sys _ sched
  rw [← hs]
  have hmem : ∀ {P : Op → Prop}, (∀ p ∈ progs, ∀ c ∈ p, ∀ op ∈ StateAccInv.Call.prims c, P op) →
      ∀ e ∈ (StateAccInv.runG (StateAccInv.GSys.init w progs) sched).hist, P e.op := by
    intro P h e he
    obtain ⟨p, hp, c, hc, hop⟩ := hi.ops e he
    exact h p (List.mem_of_getElem? hp) c hc _ hop
  have hdone : ∀ (t : Nat) (th : StateAcc.AThread) (done : List StateAcc.Call) (op : Op), (StateAccInv.runG (StateAccInv.GSys.init w progs) sched).sys.thr[t]? = some th →
      progs[t]? = some (done ++ th.calls) → StateAcc.Call.prim op ∈ done →
      ∃ e ∈ (StateAccInv.runG (StateAccInv.GSys.init w progs) sched).hist, e.op = op := by
    intro t th done op ht hp hop
    obtain ⟨done', h1, h2, _⟩ := hi.thr t th ht
    rw [hp] at h1
    have : done = done' := List.append_cancel_right (Option.some.inj h1)
    subst this
    obtain ⟨e, he, h, _⟩ := h2 op hop
    exact ⟨e, he, h⟩
  constructor
  · intro hc
    refine ⟨fun hw => lin_bit_set hi.lin hk (hmem hc) (Or.inl hw), ?_⟩
    intro t th done op ht hp hop hsets
    obtain ⟨e, he, rfl⟩ := hdone t th done op ht hp hop
    exact lin_bit_set hi.lin hk (hmem hc) (Or.inr ⟨e, he, hsets⟩)
  · intro hc
    refine ⟨fun hw => lin_bit_clear hi.lin hk (hmem hc) (Or.inl hw), ?_⟩
    intro t th done op ht hp hop hcl
    obtain ⟨e, he, rfl⟩ := hdone t th done op ht hp hop
    exact lin_bit_clear hi.lin hk (hmem hc) (Or.inr ⟨e, he, hcl⟩)

/-- **'closed' stays, at every intermediate state, under all methods**: if no call of any program
clears the closed flag (no call site in c2 does), a closed word is closed after every prefix of every
schedule — `SetChannel`, `Tag`, `ChannelCanStop`, `SetLast` and all flag traffic included. -/
theorem acc_closed_stays (w : Nat) (progs : List (List StateAcc.Call)) (sched : List Nat)
    (hc : ∀ p ∈ progs, ∀ c ∈ p, ∀ op ∈ StateAccInv.Call.prims c, op.clears kClosed = false)
    (hw : closed w = true) : closed (StateAcc.runA (StateAcc.ASys.init w progs) sched).mem = true := by
  have h := ((acc_no_lost_flag_update w progs sched kClosed kClosed_lt).1 hc).1
  rw [closed, has_stClosed] at hw ⊢
  exact h hw

/-- **'closed' dominates, access by access** (partial): every dominated method starts with the
`Closed()` load, and if that load sees a closed word the method returns the dominated answer at
once, without a further access.  With `acc_closed_stays` (every load of a run that started closed
sees a closed word) this is why a call on a closed session answers as closed under every schedule. -/
theorem acc_closed_dominates_partial (c : StateAcc.Call) (v : Nat) (hv : StateAccInv.closedAnswer c = some v) :
    ∃ k, c.meth = .load k ∧ ∀ w, closed w = true → k w = .ret v := by
  cases c <;> simp only [StateAccInv.closedAnswer] at hv <;> cases hv <;> refine ⟨_, rfl, ?_⟩ <;> intro w hw <;>
    simp only [closed] at hw <;> simp [hw, StateAcc.b2n]
-- OPEN: the composed statement — for all programs without a call that clears the closed flag, all
-- schedules and a closed initial word, every result of a call `c` with `StateAccInv.closedAnswer c = some v`
-- recorded in `rets` equals `v` — needs the results aligned with the calls in the invariant; it is
-- checked on the real code by the oracles `closed-dominates-concurrent:*` (groups acc, s3lin).

/-- non-vacuity: SetChannel(true) in flight (its load done, both loops pending) while thread 1 sets
Ready and thread 2 runs Tag; every prefix keeps Ready once set, and the final word has all updates -/
example :
    let progs : List (List StateAcc.Call) := [[.setChannel true], [.prim (.set stReady)], [.tag]]
    let s := StateAcc.runA (StateAcc.ASys.init stSeen progs) [0, 2, 1, 0, 1, 0, 2, 2, 2, 0, 0, 0, 0]
    s.completed = true ∧ s.mem = stReady ||| stChannelValue ||| stChannelUpdated ∧ s.casFail = 2 ∧
    (∀ p ∈ progs, ∀ c ∈ p, ∀ op ∈ StateAccInv.Call.prims c, op.clears kReady = false) := by decide

/-! ### regenerated source (session 3): the read-only predicates of c2/state.go are translated from
the CURRENT source on every run (go/cmd/xmth/xlate.go → Facts.x_c2_state_*) -/

/-- The hand-written predicates of the model (XMT/State.lean, the list the differential run compares
with the real code) are, for every word, exactly the regenerated translations of the source's own
predicate functions: a change of any mask or connective in c2/state.go changes the right-hand side
and this theorem no longer checks. -/
theorem src_state_predicates (s : Nat) : State.predicates s =
    [Facts.x_c2_state_Seen s, Facts.x_c2_state_Ready s, Facts.x_c2_state_Moving s, Facts.x_c2_state_Closed s,
     Facts.x_c2_state_CanRecv s, Facts.x_c2_state_Closing s, Facts.x_c2_state_Channel s,
     Facts.x_c2_state_Shutdown s, Facts.x_c2_state_Replacing s, Facts.x_c2_state_RecvClosed s,
     Facts.x_c2_state_SendClosed s, Facts.x_c2_state_WakeClosed s, Facts.x_c2_state_ShutdownWait s,
     Facts.x_c2_state_ChannelValue s, Facts.x_c2_state_ChannelProxy s, Facts.x_c2_state_ChannelUpdated s,
     Facts.x_c2_state_ChannelCanStart s] :=
  XMT.TieXlateState.predicates_eq s

/-- … and the 16-bit `Last` field accessor likewise. -/
theorem src_state_last (s : Nat) : Facts.x_c2_state_Last s = State.last s :=
  XMT.TieXlateState.x_c2_state_Last_eq s

/-! ### which component may touch which flag (session 3; regenerated fact c13FuncMasks) -/

/-- For every function of package c2 outside state.go, the union of the flag bits it may set and the
union of the bits it may clear (regenerated from the current source on every run) are the reviewed
ones. A function that starts clearing or setting a flag it did not touch before - e.g. a close path
that also drops the channel-proxy flag, which only clientSet / clientClear own - changes its row;
folding several calls into one with the same bits, or reordering them, does not. -/
theorem flag_masks_as_reviewed : Facts.c13FuncMasks = StateOwners.reviewed := by decide

/-- Consequence read off the regenerated table: the channel-proxy flag (the mirror of `s.chn != nil`)
is set only by the two clientSet functions and cleared only by the two clientClear functions; the
closed flag is set only by the shutdown / listen teardown paths and never cleared by anyone. -/
theorem flag_owners :
    StateOwners.setters Facts.c13FuncMasks 2048 = ["Listener.clientSet", "Proxy.clientSet"] ∧
    StateOwners.clearers Facts.c13FuncMasks 2048 = ["Listener.clientClear", "Proxy.clientClear"] ∧
    StateOwners.setters Facts.c13FuncMasks 4 = ["Listener.listen", "Proxy.listen", "Session.shutdown", "proxyClient.Close"] ∧
    StateOwners.clearers Facts.c13FuncMasks 4 = [] := by decide

/-- No method of package c2 with a VALUE receiver changes flags through that receiver (it would
change a copy and the update would be lost for every other holder of the Session / proxyClient):
the regenerated list of such methods is empty. -/
theorem no_value_receiver_mutators : Facts.c13ValueReceiverMutators = [] := by decide

end XMT.Props.C13
