/-
  C14 — A Job finishes exactly once whether it completes, errors or is cancelled.
  Property theorems only; the model is XMT/Job.lean (`stepF` = the code as repaired by the `fix:`
  commits, `stepO` = the code before), the invariant and its preservation are in XMT/JobInv.lean.

  Quantification: `prog : List Kind` is ANY finite set of threads (any number of Task / result
  arrival (normal, error-flagged, duplicate = same number again, unknown number) / Cancel (repeated) /
  Wait / IsDone / accept / frag calls on one session), `sched : List Nat` ANY schedule of their
  atomic actions (entries naming finished, blocked or non-existent threads are no-ops), starting
  from a fresh session `{}`. Nothing is bounded.

  Scope notes (from an adversarial review of these statements, see DESIGN.md Appendix B.5):
  * granularity: the locked region of `Cancel` (delete; close(done); Status = Canceled; done = nil)
    is ONE atomic action of the model. Lock-free readers (`Wait`, `IsDone`, a `Status` read) can in
    the real code run inside that region and see the channel closed with the old Status;
    `status_first_event` / `released_once` / `finished_is_final` speak about the states between
    actions, i.e. once the finishing call has left its locked region. Open: the sub-steps of that
    region as seen by lock-free readers.
  * all universally quantified theorems are safety statements (nothing wrong is recorded); that a
    result for a pending Job IS recorded is shown on examples and by the differential run.
  * `St.count` (the unlocked `len(s.jobs)` test of `handle`) is not part of the invariant.
  * `Task` registers a caller-supplied Job number as it is (also 1, whose result `handle` then drops:
    `low_numbers_ignored`); "never 0 or 1" is proved for the numbers `newJobID` hands out
    (`jobid_fresh`). The harness never supplies a number below 2.
  * (extension) the sub-steps of the locked regions as seen by lock-free readers are now modelled and
    proved: section "Sub-steps" at the end of this file (model XMT/JobSub.lean, invariant
    XMT/JobSubInv*.lean). `count` is now covered: `count_is_table_size`, `sub_count_is_table_size`.
  * `resync_only_for_pending` is definitional on purpose: it pins the gate to `hasJob` alone; the tie is
    the differential op `resync`.
-/
import XMT.JobInv
import XMT.JobSubGood
import XMT.JobCount
namespace XMT.Props.C14
open XMT XMT.Job

/-- the state reached by the repaired code from a fresh session under schedule `sched` -/
abbrev reach (prog : List Kind) (sched : List Nat) : St := runF prog {} sched

theorem reach_inv (prog : List Kind) (sched : List Nat) : Inv prog (reach prog sched) :=
  inv_runF prog sched {} (inv_init prog)

/-! ### obligations on the regenerated constants -/

/-- The statuses are pairwise distinct and the three final ones differ from the pending ones; the
id-allocation loop rejects 0 and 1 (`i > 1`). Closed by `decide` on Generated/Facts.lean. -/
theorem facts_ok :
    [stWaiting, stAccepted, stReceiving, stCompleted, stError, stCanceled].Nodup ∧
    1 ≤ idMinExcl ∧ handleMin = 2 ∧ acceptMin = 2 ∧ fragMin = 2 ∧ 0 < idTries := by decide

/-! ### the property, for all programs and all schedules (repaired code) -/

/-- Nothing panics: no thread ever dies in `close` of a closed or nil channel, and the session lock
is never left held. -/
theorem no_panic (prog : List Kind) (sched : List Nat) (t : Nat) :
    ((reach prog sched).loc t).out.isPanic = false ∧ (reach prog sched).lockHeld = false := by
  have h := reach_inv prog sched
  refine ⟨?_, h.noLock⟩
  have := h.noPanic t
  cases e : ((reach prog sched).loc t).out <;> simp_all [Out.isPanic]

/-- Waiters are released exactly once: the done channel of every Job is closed at most once, and it
is closed iff the close counter is 1. -/
theorem released_once (prog : List Kind) (sched : List Nat) (r : Nat) (hr : r < (reach prog sched).nJobs) :
    ((reach prog sched).jobs r).closes ≤ 1 ∧
    (((reach prog sched).jobs r).closed = true ↔ ((reach prog sched).jobs r).closes = 1) := by
  have h := (reach_inv prog sched).jobs r hr
  unfold JobOK at h
  cases e : ((reach prog sched).jobs r).closed <;> simp_all

/-- The final status reflects the first finishing event: as soon as the waiters are released the
Status is the one of the event that released them (Completed / Error for a result, Canceled for
Cancel) — in every reachable state, hence also whatever runs afterwards. -/
theorem status_first_event (prog : List Kind) (sched : List Nat) (r : Nat)
    (hr : r < (reach prog sched).nJobs) (hc : ((reach prog sched).jobs r).closed = true) :
    ∃ e, ((reach prog sched).jobs r).first = some e ∧ ((reach prog sched).jobs r).status = e.status := by
  have h := (reach_inv prog sched).jobs r hr
  exact (h.2 hc).2

/-- The Job leaves the pending table: a finished Job is never in the table, and whatever the table
holds under a number is an unfinished Job with that number (no entry is ever attributed to a
different number). -/
theorem leaves_table (prog : List Kind) (sched : List Nat) (i r : Nat)
    (ht : (reach prog sched).table i = some r) :
    r < (reach prog sched).nJobs ∧ ((reach prog sched).jobs r).id = i ∧
    ((reach prog sched).jobs r).closed = false ∧ ((reach prog sched).jobs r).doneNil = false := by
  have h := (reach_inv prog sched).tab i r ht
  exact ⟨h.1, h.2.1, h.2.2.1, h.2.2.2.1⟩

/-- Results with an unknown, already used (duplicate) or cancelled number are ignored: when the
number is not in the pending table at the locked lookup, `handle` returns false and no Job, no
table entry and no other thread changes. (A finished or cancelled Job is not in the table, see
`leaves_table`.) -/
theorem foreign_results_ignored (s : St) (t id : Nat) (ef : Bool) (tag : Nat)
    (hpc : (s.loc t).pc = 1) (hl : s.lockHeld = false) (hn : s.table id = none) :
    let s' := resultF s t id ef tag
    s'.jobs = s.jobs ∧ s'.table = s.table ∧ s'.nJobs = s.nJobs ∧
    (s'.loc t).out = .ignored ∧ (s'.loc t).pc = fin ∧ ∀ t', t' ≠ t → s'.loc t' = s.loc t' := by
  simp [resultF, hpc, hl, hn, finish, setLoc, upd_apply]
  intro t' h; simp [h]

/-- … and numbers below 2 are rejected before the table is even read. -/
theorem low_numbers_ignored (s : St) (t id : Nat) (ef : Bool) (tag : Nat)
    (hpc : (s.loc t).pc = 0) (hid : id < 2) :
    let s' := resultF s t id ef tag
    s'.jobs = s.jobs ∧ s'.table = s.table ∧ (s'.loc t).out = .ignored ∧ (s'.loc t).pc = fin := by
  have : id < handleMin := by have := facts_ok.2.2.1; omega
  simp [resultF, hpc, this, finish, setLoc]

/-- A result is only ever recorded in the Job that was pending under exactly the result's number
when the handler looked it up: a handle-thread that is past its lookup owns a Job with its own
number, and that Job is not (any more) in the table. -/
theorem result_recorded_in_own_job (prog : List Kind) (sched : List Nat) (t id : Nat) (ef : Bool) (tag : Nat)
    (hk : prog[t]? = some (.result id ef tag))
    (h2 : 2 ≤ ((reach prog sched).loc t).pc) (h6 : ((reach prog sched).loc t).pc ≤ 6) :
    ∃ r, ((reach prog sched).loc t).ref = some r ∧ r < (reach prog sched).nJobs ∧
      ((reach prog sched).jobs r).id = id ∧ ((reach prog sched).jobs r).owner = some t ∧
      (reach prog sched).table id ≠ some r := by
  have hi := reach_inv prog sched
  obtain ⟨hn, hr⟩ := hi.own t id ef tag hk h2 h6
  cases e : ((reach prog sched).loc t).ref with
  | none => exact absurd e hn
  | some r =>
    obtain ⟨hlt, ho⟩ := hr r e
    refine ⟨r, rfl, hlt, ho.2.1, ho.1, ?_⟩
    intro ht
    have := (hi.tab id r ht).2.2.2.2
    rw [ho.1] at this
    cases this

/-- Wait never blocks on a finished Job: inside `Wait` (either action) a thread whose Job's channel
is closed always makes progress. -/
theorem no_block_after_finish (s : St) (t k r : Nat) (hj : jobOf s k = some (some r))
    (hc : (s.jobs r).closed = true) (hpc : (s.loc t).pc = 0 ∨ (s.loc t).pc = 1) :
    ((waitF s t k).loc t).pc ≠ (s.loc t).pc := by
  rcases hpc with h | h
  · simp [waitF, hj, h, finish, goto, setLoc]
    split <;> simp [fin]
  · simp [waitF, hj, h, hc, finish, setLoc, fin]

/-- IsDone on a finished Job answers true (either the field is already nil, or the channel read
into the local is closed). -/
theorem isDone_after_finish (s : St) (t k r : Nat) (hj : jobOf s k = some (some r))
    (hc : (s.jobs r).closed = true) (hpc : (s.loc t).pc = 0 ∨ (s.loc t).pc = 1) :
    ((isDoneF s t k).loc t).pc = 1 ∨ ((isDoneF s t k).loc t).out = .bool true := by
  rcases hpc with h | h <;> simp [isDoneF, hj, h, hc, finish, goto, setLoc]
  split <;> simp

/-- Job numbers handed out by newJobID are never 0 or 1, fit 16 bits and are never the number of a
pending Job — for every table and every PRNG draw sequence. (0 = "cannot assign a Job ID": the loop
gives up after `idTries` = 512 draws even when free numbers exist; it cannot spin forever.) -/
theorem jobid_fresh (table : Nat → Option Nat) (draws : List Nat) :
    newJobID table draws = 0 ∨
    (2 ≤ newJobID table draws ∧ newJobID table draws < 65536 ∧ table (newJobID table draws) = none) := by
  unfold newJobID
  generalize draws.take idTries = ds
  induction ds with
  | nil => left; rfl
  | cons d ds ih =>
    unfold newJobIDGo
    simp only
    split
    · rename_i h
      right
      have := facts_ok.2.1
      exact ⟨by omega, Nat.mod_lt _ (by decide), h.1⟩
    · exact ih

/-- **The SvResync gate** (`receiveSingle`, the consumer of `hasJob`): the settings an SvResync
packet carries are applied exactly while the Job it names is pending; a number that is not in the
table is ignored whatever it is — 0 and 1, which are never handed out, get no shortcut — and a
number `newJobID` is about to hand out is not yet accepted. The decision function is compared with
the real `receiveSingle` on every run (op `resync`). -/
theorem resync_only_for_pending (table : Nat → Option Nat) (id : Nat) :
    (resyncApplied table id = true ↔ ∃ r, table id = some r) ∧
    (table id = none → resyncApplied table id = false) := by
  unfold resyncApplied hasJob
  cases h : table id <;> simp

theorem resync_fresh_number_ignored (table : Nat → Option Nat) (draws : List Nat)
    (h : newJobID table draws ≠ 0) : resyncApplied table (newJobID table draws) = false := by
  rcases jobid_fresh table draws with h0 | ⟨_, _, hn⟩
  · exact absurd h0 h
  · exact (resync_only_for_pending table _).2 hn

/-- … and Task registers a Job only under a number that is not pending (check, queueing and
insert are one locked action), so a pending Job is never displaced from the table. -/
theorem task_never_displaces (s : St) (t id : Nat) (draws : List Nat) (wf : Bool) (i r : Nat)
    (ht : s.table i = some r) : (taskF s t id draws wf).table i = some r := by
  unfold taskF
  dsimp only
  split
  · split
    · split
      · exact ht
      · split <;> simpa [finish, setLoc] using ht
    · simpa [setLoc] using ht
  · split
    · exact ht
    · split
      · simpa [finish, setLoc] using ht
      · rename_i hn
        split
        · simpa [finish, setLoc] using ht
        · simp only [finish, setLoc, upd_apply]
          split
          · rename_i e; subst e; rw [hn] at ht; cases ht
          · exact ht
  · exact ht

/-- Exactly once, for ever: whatever runs after a Job is finished (any further schedule `more`:
late or duplicate results, repeated Cancel, accept, frag, new Tasks re-using the number …), its
channel stays closed, the close counter and the first finishing event do not change, and its
Status, Result and Error are frozen — nothing is ever attributed to a finished Job. -/
theorem finished_is_final (prog : List Kind) (sched more : List Nat) (r : Nat)
    (hr : r < (reach prog sched).nJobs) (hc : ((reach prog sched).jobs r).closed = true) :
    let a := (reach prog sched).jobs r
    let b := (reach prog (sched ++ more)).jobs r
    b.closed = true ∧ b.closes = 1 ∧ b.first = a.first ∧ b.status = a.status ∧ b.result = a.result ∧
    b.err = a.err ∧ b.id = a.id := by
  have hi := reach_inv prog sched
  have g := good_runF prog more (reach prog sched) hi
  have hle := g.2.2 r hr
  simp only [reach, runF_append]
  unfold JobLe at hle
  obtain ⟨l1, l2, l3, l4, l5⟩ := hle
  obtain ⟨e, he, _⟩ := ((hi.jobs r hr).2 hc).2
  have hb := g.1.jobs r (Nat.lt_of_lt_of_le hr g.2.1)
  refine ⟨l3 hc, (hb.2 (l3 hc)).1, ?_, (l5 hc).1, (l5 hc).2.1, (l5 hc).2.2, l1.symm⟩
  rw [he]; exact l4 e he

/-- No Job is ever lost: in every reachable state an unfinished Job is either pending in the table
under its own number (so a result or Cancel can still finish it) or a handle-thread that took it
out of the table is on its way to close it. -/
theorem never_orphaned (prog : List Kind) (sched : List Nat) (r : Nat) (hr : r < (reach prog sched).nJobs)
    (hc : ((reach prog sched).jobs r).closed = false) :
    (reach prog sched).table ((reach prog sched).jobs r).id = some r ∨
    ∃ t, ((reach prog sched).jobs r).owner = some t ∧ isResult prog t = true ∧
      2 ≤ ((reach prog sched).loc t).pc ∧ ((reach prog sched).loc t).pc ≤ 5 ∧
      ((reach prog sched).loc t).ref = some r := by
  have h := (reach_inv prog sched).live r hr
  unfold Kjob at h
  rcases h with h | h | ⟨hn, h⟩
  · exact Or.inl h
  · rw [hc] at h; cases h
  · right
    cases e : ((reach prog sched).jobs r).owner with
    | none => exact absurd e hn
    | some t => exact ⟨t, rfl, h t e⟩

/-- … in particular, once every thread has returned each Job is either still pending or finished
(waiters released, out of the table): no Job is left half-finished. -/
theorem quiescent_jobs (prog : List Kind) (sched : List Nat)
    (hq : ∀ t, t < prog.length → ((reach prog sched).loc t).pc = fin) (r : Nat)
    (hr : r < (reach prog sched).nJobs) :
    (reach prog sched).table ((reach prog sched).jobs r).id = some r ∨
    ((reach prog sched).jobs r).closed = true := by
  cases hc : ((reach prog sched).jobs r).closed with
  | true => exact Or.inr rfl
  | false =>
    rcases never_orphaned prog sched r hr hc with h | ⟨t, _, hres, _, h5, _⟩
    · exact Or.inl h
    · have hlt : t < prog.length := by
        unfold isResult at hres
        cases e : prog[t]? with
        | none => rw [e] at hres; cases hres
        | some k => exact (List.getElem?_eq_some_iff.mp e).1
      rw [hq t hlt] at h5; simp [fin] at h5

/-- the hypothesis of `quiescent_jobs` is satisfiable: a run in which all three threads returned -/
example :
    let prog := [Kind.task 5 [] false, .result 5 true 0, .cancel 0]
    ∀ t, t < prog.length → ((reach prog [0, 0, 1, 1, 2, 1, 1, 2, 1, 1, 1]).loc t).pc = fin := by decide

/-! ### non-vacuity: concrete runs of the repaired model -/

/-- the double-close schedule of the unrepaired code (see `orig_double_close`) is harmless now:
handle parked before its close, Cancel runs completely, handle closes. Status stays Completed. -/
example :
    let s := runF [.task 5 [] false, .result 5 false 0, .cancel 0] {} [0, 0, 1, 1, 1, 1, 2, 2, 1, 1]
    (s.loc 1).out = .handled ∧ (s.loc 2).out = .ret ∧ (s.jobs 0).closes = 1 ∧
    (s.jobs 0).status = stCompleted ∧ (s.jobs 0).first = some .completed ∧ s.table 5 = none := by decide

/-- Cancel first, then the result: ignored, status Canceled. -/
example :
    let s := runF [.task 5 [] false, .result 5 true 0, .cancel 0] {} [0, 0, 2, 2, 1, 1]
    (s.loc 1).out = .ignored ∧ (s.jobs 0).status = stCanceled ∧ (s.jobs 0).closes = 1 := by decide

/-- hypotheses of `result_recorded_in_own_job` / `never_orphaned` (second alternative): a handler
parked before its close owns Job 0, which is neither in the table nor finished. -/
example :
    let s := reach [.task 5 [] false, .result 5 false 0] [0, 0, 1, 1, 1, 1]
    (s.loc 1).pc = 5 ∧ (s.loc 1).ref = some 0 ∧ (s.jobs 0).owner = some 1 ∧ s.table 5 = none ∧
    (s.jobs 0).closed = false := by decide

/-- hypotheses of `finished_is_final`: Job 0 finished by an error result; a duplicate result, a
Cancel, an accept and a Task re-using the number run afterwards. -/
example :
    let prog := [Kind.task 5 [] false, .result 5 true 0, .result 5 false 0, .cancel 0, .accept 5, .task 5 [] false]
    let a := (reach prog [0, 0, 1, 1, 1, 1, 1, 1, 1]).jobs 0
    let b := (reach prog ([0, 0, 1, 1, 1, 1, 1, 1, 1] ++ [5, 5, 2, 2, 2, 2, 2, 2, 3, 3, 4, 4])).jobs 0
    a.closed = true ∧ a.status = stError ∧ b.status = stError ∧ b.result = some 0 ∧ b.closes = 1 := by decide

/-! ### negations: the defects of the unrepaired code, each on a concrete schedule

`stepO false` is the code before all repairs. Every schedule below is replayed on the real code
from corpus/C14 (as a label script) on every run. -/

/-- Cancel of a pending Job left Status = Waiting (never Canceled). -/
theorem orig_cancel_status_waiting :
    let s := runO false [.task 5 [] false, .cancel 0] {} [0, 0, 0, 0, 1, 1, 1]
    (s.jobs 0).closed = true ∧ (s.jobs 0).first = some .canceled ∧ (s.jobs 0).status = stWaiting := by
  decide

/-- Double close: handle stores Status=Completed and tests `j.done != nil`; Cancel sees
Status ≥ Completed and closes; handle closes again → panic "close of closed channel". -/
theorem orig_double_close :
    ∃ sched, ((runO false [.task 5 [] false, .result 5 false 0, .cancel 0] {} sched).loc 1).out = .panicClosed :=
  ⟨[0, 0, 0, 0, 1, 1, 1, 1, 1, 2, 2, 2, 2, 1], by decide⟩

/-- close(nil) while holding the session lock: Cancel passes its unlocked checks, handle completes
the Job (done = nil), Cancel takes the lock, finds the Job gone and closes the nil field: panic with
the lock held — every later locked access of the session blocks forever. -/
theorem orig_close_nil_under_lock :
    ∃ sched, let s := runO false [.task 5 [] false, .result 5 false 0, .cancel 0] {} sched
      (s.loc 2).out = .panicNil ∧ s.lockHeld = true :=
  ⟨[0, 0, 0, 0, 2, 2, 1, 1, 1, 1, 1, 1, 1, 2], by decide⟩

/-- A completion racing a cancellation overwrites the status: Cancel finishes the Job first
(waiters released by Cancel), the handler that had already looked the Job up then stores Completed. -/
theorem orig_status_overwritten :
    ∃ sched, let s := runO true [.task 5 [] false, .result 5 false 0, .cancel 0] {} sched
      (s.jobs 0).first = some .canceled ∧ (s.jobs 0).status = stCompleted ∧ (s.jobs 0).closes = 1 :=
  ⟨[0, 0, 0, 0, 1, 1, 2, 2, 2, 1, 1, 1], by decide⟩

/-- Task queued the packet before it registered the Job: a fast result finds no Job and is dropped,
the Job then waits forever. -/
theorem orig_result_before_registration :
    ∃ sched, let s := runO true [.task 5 [] false, .task 7 [] false, .result 7 false 1] {} sched
      s.pub = [5, 7] ∧ (s.loc 2).out = .ignored ∧ s.table 7 = some 1 ∧ (s.jobs 1).closed = false :=
  ⟨[0, 0, 0, 0, 1, 1, 1, 2, 2, 1], by decide⟩

/-- Two Tasks with the same number both pass the duplicate check; the second insert displaces the
first Job, which can then never be finished. -/
theorem orig_task_displaces_pending :
    ∃ sched, let s := runO true [.task 5 [] false, .task 5 [] false] {} sched
      (s.loc 0).out = .job 0 ∧ (s.loc 1).out = .job 1 ∧ s.table 5 = some 1 ∧ (s.jobs 0).closed = false :=
  ⟨[0, 0, 1, 1, 0, 0, 1, 1], by decide⟩

/-- accept raced a completion: the finished Job ends with Status = Accepted. -/
theorem orig_accept_overwrites_final_status :
    ∃ sched, let s := runO true [.task 5 [] false, .result 5 false 0, .accept 5] {} sched
      (s.jobs 0).closed = true ∧ (s.jobs 0).first = some .completed ∧ (s.jobs 0).status = stAccepted :=
  ⟨[0, 0, 0, 0, 2, 2, 1, 1, 1, 1, 1, 1, 1, 2], by decide⟩

/-- Wait read `j.done` twice: non-nil at the test, nil at the receive → blocked forever on a
finished Job (the step of the waiting thread is the identity on the state, so it stays blocked
however often it is scheduled; no other thread is left to run). -/
theorem orig_wait_blocks_after_finish :
    ∃ sched, let prog := [.task 5 [] false, .result 5 false 0, .wait 0]
      let s := runO true prog {} sched
      (s.jobs 0).closed = true ∧ (s.loc 0).pc = fin ∧ (s.loc 1).pc = fin ∧ (s.loc 2).pc = 1 ∧
      stepO true prog s 2 = s := by
  refine ⟨[0, 0, 0, 0, 2, 1, 1, 1, 1, 1, 1, 1], by decide, by decide, by decide, by decide, ?_⟩
  have hj : jobOf (runO true [.task 5 [] false, .result 5 false 0, .wait 0] {} [0, 0, 0, 0, 2, 1, 1, 1, 1, 1, 1, 1]) 0
      = some (some 0) := by decide
  have hn : ((runO true [.task 5 [] false, .result 5 false 0, .wait 0] {} [0, 0, 0, 0, 2, 1, 1, 1, 1, 1, 1, 1]).jobs 0).doneNil
      = true := by decide
  have hp : ((runO true [.task 5 [] false, .result 5 false 0, .wait 0] {} [0, 0, 0, 0, 2, 1, 1, 1, 1, 1, 1, 1]).loc 2).pc
      = 1 := by decide
  simp [stepO, stepKO, waitO, hj, hn, hp]

/-- IsDone read `j.done` twice: called after the Job was finished (channel closed, field not yet
nil) it passes the nil test, the handler then stores nil, and the `select` on the re-read nil field
falls to `default`: false for a Job that was finished before the call began. -/
theorem orig_isDone_false_after_finish :
    let prog := [.task 5 [] false, .result 5 false 0, .isDone 0]
    let s1 := runO true prog {} [0, 0, 0, 0, 1, 1, 1, 1, 1, 1]
    let s2 := runO true prog s1 [2, 1, 2]
    (s1.jobs 0).closed = true ∧ (s1.loc 2).pc = 0 ∧ (s2.loc 2).out = .bool false := by decide

/-! ### recorded finding (not repaired): stale result after the number is handed out again

Results are matched by the 16-bit number only. After Job #0 (number 7) is cancelled the number is
free, a second Task may get it (explicitly or from newJobID), and the late result of the first Task
is then recorded in the second Job. This holds for the repaired code as well (protocol limit). -/
theorem stale_result_after_id_reuse :
    let s := runF [.task 7 [] false, .cancel 0, .task 7 [] false, .result 7 false 0] {} [0, 0, 1, 1, 2, 2, 3, 3, 3, 3, 3, 3, 3]
    (s.jobs 0).status = stCanceled ∧ (s.loc 2).out = .job 1 ∧ (s.jobs 1).result = some 0 ∧
    (s.jobs 1).status = stCompleted := by decide


/-! ## Sub-steps of the locked regions as seen by lock-free readers (model XMT/JobSub.lean)

`Job.Cancel`'s locked region is five single writes (`jobs[ID] = nil`, `delete`, `Status = Canceled`,
`close(done)`, `done = nil`), `Session.frag`'s two; `Wait`, `IsDone`, `IsError` and the reads of
`Status` / `Result` / `Error` that follow them are threads whose every single read can fall between
any two of those writes (and between the unlocked stores of `handle`). `prog : List KindS` is ANY
set of threads, `sched` ANY schedule; nothing is bounded. Memory is sequentially consistent (what
the schedule replay executes); the order of Cancel's writes is the list `cancelActs`, which is
compared with the order regenerated from the source (`sub_order_tie`). -/

section SubSteps
open XMT.JobSub

/-- the state the repaired code reaches from a fresh session under `sched`, single writes interleaved -/
abbrev reachS (prog : List KindS) (sched : List Nat) : StS := runS prog {} sched

theorem sub_reach_inv (prog : List KindS) (sched : List Nat) : InvS prog (reachS prog sched) :=
  inv_runS prog sched {} (invS_init prog)

/-- **Tie of the write ORDER.** The sequence of shared-memory writes inside Cancel's locked region
(the list the model's step function interprets), of handle's job-finishing block, of accept and of
frag is the sequence regenerated from c2/job.go and c2/session_no_implant.go by go/parser. Swapping
`close(j.done)` and `j.Status = …` in the source breaks this obligation even if no sampled schedule
exposes the difference. -/
theorem sub_order_tie :
    Facts.c14sCancelOrder = cancelActs.map CAct.name ∧ Facts.c14sHandleOrder = handleActs ∧
    Facts.c14sAcceptOrder = acceptActs ∧ Facts.c14sFragOrder = fragActs := by decide

/-- Nothing panics at sub-step granularity either (readers included: they only read), and the session
lock is only ever held by a Cancel or frag thread that is inside its region — never by a thread that
has returned or died. -/
theorem sub_no_panic (prog : List KindS) (sched : List Nat) (t : Nat) :
    ((reachS prog sched).loc t).out.isPanic = false ∧
    ((reachS prog sched).lock = some t → ((reachS prog sched).loc t).pc ≠ fin) := by
  have h := sub_reach_inv prog sched
  constructor
  · have := h.noPanic t
    cases e : ((reachS prog sched).loc t).out <;> simp_all [Out.isPanic]
  · intro hl
    rcases h.lockOK t hl with ⟨_, _, h2, h6⟩ | ⟨_, _, _, _, h2⟩
    · simp only [fin]; omega
    · simp only [fin]; omega

/-- **In EVERY state between two single writes** — also inside Cancel's locked region — a Job whose
done channel is closed has the Status of the event that closed it, was closed exactly once, holds the
Result / Error of that event (none for Cancel), and a `done` field that is nil belongs to a closed
channel. So there is no instant at which a lock-free reader can find the waiters released and the
Status not final. -/
theorem sub_released_with_final_status (prog : List KindS) (sched : List Nat) (r : Nat)
    (hr : r < (reachS prog sched).nJobs) :
    let j := (reachS prog sched).jobs r
    (j.doneNil = true → j.closed = true) ∧
    (j.closed = true → j.closes = 1 ∧ ∃ e, j.first = some e ∧ j.status = e.status ∧
      (e = .canceled → j.result = none ∧ j.err = false) ∧ (e = .error → j.err = true) ∧
      (e = .completed → j.err = false)) := by
  have h := (sub_reach_inv prog sched).jobs r hr
  unfold JobOKS at h
  refine ⟨?_, ?_⟩
  · intro hn
    cases hc : ((reachS prog sched).jobs r).closed with
    | true => rfl
    | false => have := (h.1 hc).2.2; rw [hn] at this; cases this
  · intro hc
    obtain ⟨h1, e, h2, h3, h4, h5, h6⟩ := h.2 hc
    exact ⟨h1, e, h2, h3, h4, fun x => (h5 x).2, fun x => (h6 x).2⟩

/-- Exactly once, for ever, at sub-step granularity: whatever single actions run after the channel of
a Job was closed, its Status, Result, Error and first finishing event never change. -/
theorem sub_finished_is_final (prog : List KindS) (sched more : List Nat) (r : Nat)
    (hr : r < (reachS prog sched).nJobs) (hc : ((reachS prog sched).jobs r).closed = true) :
    let a := (reachS prog sched).jobs r
    let b := (reachS prog (sched ++ more)).jobs r
    b.closed = true ∧ b.status = a.status ∧ b.result = a.result ∧ b.err = a.err ∧
    (∀ e, a.first = some e → b.first = some e) := by
  have hi := sub_reach_inv prog sched
  have g := good_runS prog more (reachS prog sched) hi
  have hle := g.2.2 r hr
  simp only [reachS, runS_append]
  unfold JobLe at hle
  obtain ⟨_, _, l3, l4, l5⟩ := hle
  exact ⟨l3 hc, (l5 hc).1, (l5 hc).2.1, (l5 hc).2.2, l4⟩

/-- **A reader that observed 'done' observes the final Status.** In every reachable state, whatever
a reader thread (`j.Wait()` returned, or `j.IsDone()` said true) has read from `j.Status` is the
Status of the event that released the waiters — Completed / Error / Canceled, never Waiting, Accepted
or Receiving — and it is what the Job holds now (and for ever: `sub_finished_is_final`). -/
theorem reader_sees_final_status (prog : List KindS) (sched : List Nat) (t k r v : Nat)
    (hk : isReader prog t k) (hj : jobOf (reachS prog sched) k = some (some r))
    (hv : ((reachS prog sched).loc t).oSt = some v) :
    ∃ e, ((reachS prog sched).jobs r).first = some e ∧ v = e.status ∧
      ((reachS prog sched).jobs r).status = v ∧ ((reachS prog sched).jobs r).closed = true ∧
      v ≠ stWaiting ∧ v ≠ stAccepted ∧ v ≠ stReceiving := by
  have h := sub_reach_inv prog sched
  obtain ⟨hc, hs⟩ := (((h.rd t k hk).2 r hj).2.1) v hv
  have hr : r < (reachS prog sched).nJobs := h.outJob k r (jobOf_job hj)
  obtain ⟨_, e, h2, h3, _⟩ := (h.jobs r hr).2 hc
  refine ⟨e, h2, by rw [hs, h3], hs.symm, hc, ?_⟩
  rw [hs, h3]
  cases e <;> decide

/-- … and the Result it reads is the Job's final Result, which — when there is one — is the packet of
a handle-thread whose packet carried exactly this Job's number (never a result of another Job); a
cancelled Job has none. -/
theorem reader_sees_own_result (prog : List KindS) (sched : List Nat) (t k r : Nat) (x : Option Nat)
    (hk : isReader prog t k) (hj : jobOf (reachS prog sched) k = some (some r))
    (hv : ((reachS prog sched).loc t).oRes = some x) :
    x = ((reachS prog sched).jobs r).result ∧ ((reachS prog sched).jobs r).closed = true ∧
    (((reachS prog sched).jobs r).first = some .canceled → x = none) ∧
    (∀ g, x = some g → ∃ (t' : Nat) (ef : Bool), prog[t']? = some (KindS.result ((reachS prog sched).jobs r).id ef g)) := by
  have h := sub_reach_inv prog sched
  obtain ⟨hc, hs⟩ := (((h.rd t k hk).2 r hj).2.2.1) x hv
  have hr : r < (reachS prog sched).nJobs := h.outJob k r (jobOf_job hj)
  obtain ⟨_, e, h2, _, h4, _⟩ := (h.jobs r hr).2 hc
  refine ⟨hs, hc, ?_, ?_⟩
  · intro hf
    rw [h2] at hf
    cases hf
    rw [hs]; exact (h4 rfl).1
  · intro g hg
    obtain ⟨t', ef, _, hp⟩ := h.res r g hr (by rw [← hs, hg])
    exact ⟨t', ef, hp⟩

/-- `IsError` (and the Error read of the other readers) is exact: after 'done' was observed, the
Error a reader sees is non-empty iff the Job was finished by an error-flagged result. -/
theorem reader_error_iff_error_event (prog : List KindS) (sched : List Nat) (t k r : Nat) (b : Bool)
    (hk : isReader prog t k) (hj : jobOf (reachS prog sched) k = some (some r))
    (hv : ((reachS prog sched).loc t).oErr = some b) :
    (b = true ↔ ((reachS prog sched).jobs r).first = some .error) := by
  have h := sub_reach_inv prog sched
  obtain ⟨hc, hs⟩ := (((h.rd t k hk).2 r hj).2.2.2) b hv
  have hr : r < (reachS prog sched).nJobs := h.outJob k r (jobOf_job hj)
  obtain ⟨_, e, h2, _, h4, h5, h6⟩ := (h.jobs r hr).2 hc
  rw [h2, hs]
  cases e with
  | completed => simp [(h6 rfl).2]
  | error => simp [(h5 rfl).2]
  | canceled => simp [(h4 rfl).2]

/-- A reader that is past its done-test (between `Wait` returning / `IsDone` answering true and its
last read) reads a Job whose channel IS closed: 'done' is never reported early, whichever writes of
Cancel or handle the test fell between. -/
theorem reader_done_means_closed (prog : List KindS) (sched : List Nat) (t k r : Nat)
    (hk : isReader prog t k) (hj : jobOf (reachS prog sched) k = some (some r))
    (h2 : 2 ≤ ((reachS prog sched).loc t).pc) (h4 : ((reachS prog sched).loc t).pc ≤ 4) :
    ((reachS prog sched).jobs r).closed = true :=
  (((sub_reach_inv prog sched).rd t k hk).2 r hj).1 h2 h4

/-- Wait never blocks on a finished Job at sub-step granularity: both actions of `Wait` (the one read
of `j.done`, the receive from the channel read) make progress once the channel is closed — the
receive is never on a nil channel because the field is read once. -/
theorem sub_no_block_after_finish (s : StS) (t k r : Nat) (hj : jobOf s k = some (some r))
    (hc : (s.jobs r).closed = true) (hpc : (s.loc t).pc = 0 ∨ (s.loc t).pc = 1) :
    ((waitRdS s t k).loc t).pc ≠ (s.loc t).pc := by
  rcases hpc with h | h
  · simp [waitRdS, hj, h, JobSub.goto, JobSub.setLoc]
    split <;> simp
  · simp [waitRdS, hj, h, hc, JobSub.goto, JobSub.setLoc]

/-- non-vacuity: a waiter parked in `Wait`, Cancel executed write by write with the waiter scheduled
between every two writes: the waiter stays blocked until the close, then reads Canceled / no Result /
no Error; the lock is free at the end. -/
example :
    let prog := [KindS.task 5 [] false, .cancel 0, .waitRd 0]
    let s := reachS prog [0, 0, 2, 1, 2, 1, 2, 1, 2, 1, 2, 1, 2, 1, 2, 1, 2, 2, 2]
    jobOf s 0 = some (some 0) ∧ (s.loc 2).oSt = some stCanceled ∧
    (s.loc 2).oRes = some none ∧ (s.loc 2).oErr = some false ∧ (s.loc 2).pc = fin ∧ s.lock = none ∧
    (s.jobs 0).first = some .canceled := by decide

example : isReader [KindS.task 5 [] false, .cancel 0, .waitRd 0] 2 0 := Or.inl rfl

/-- non-vacuity of `reader_done_means_closed` / `sub_no_panic` (second part): the Cancel thread is
parked inside its region after the close (holding the lock), the reader is between its reads. -/
example :
    let prog := [KindS.task 5 [] false, .cancel 0, .doneRd 0]
    let s := reachS prog [0, 0, 1, 1, 1, 1, 1, 1, 2, 2, 2]
    s.lock = some 1 ∧ (s.loc 1).pc = 6 ∧ (s.loc 2).pc = 3 ∧ (s.loc 2).oSt = some stCanceled ∧
    (s.jobs 0).closed = true ∧ (s.jobs 0).doneNil = false := by decide

/-- an error-flagged result, reader `IsError` after the close and before `done = nil` -/
example :
    let prog := [KindS.task 5 [] false, .result 5 true 7, .isError 0]
    let s := reachS prog [0, 0, 1, 1, 1, 1, 1, 1, 1, 2, 2, 2, 1]
    (s.loc 2).out = .bool true ∧ (s.loc 2).oErr = some true ∧ (s.jobs 0).first = some .error ∧
    (s.jobs 0).result = some 7 := by decide

/-! ### negation: the write order before this round's repair (`cancelActsO`: close, then
`Status, done = Canceled, nil`) -/

/-- Cancel released the waiters BEFORE it stored the Status: a waiter parked in `Wait` is released by
the close, reads `j.Status` and gets Waiting — the Status of a Job that is not finished — although
`Wait` has returned; the Job then ends Canceled. Replayed on the real code by the corpus of
c14_s3_sub.go (`T:5:0:-,C:0,w:0  0@end,2@W2,1@Cs,2@end,1@end`). -/
theorem orig_cancel_releases_before_status :
    let prog := [KindS.task 5 [] false, .cancel 0, .waitRd 0]
    let s := runSO prog {} [0, 0, 2, 1, 1, 1, 1, 1, 2, 2, 1, 2, 2]
    (s.loc 2).oSt = some stWaiting ∧ (s.loc 2).pc = fin ∧ (s.jobs 0).status = stCanceled ∧
    (s.jobs 0).first = some .canceled := by decide

/-- … and IsDone likewise: true, then Status = Accepted (an `accept` had run before). -/
theorem orig_isDone_true_status_not_final :
    let prog := [KindS.task 5 [] false, .accept 5, .cancel 0, .doneRd 0]
    let s := runSO prog {} [0, 0, 1, 1, 2, 2, 2, 2, 2, 3, 3, 3, 2, 3, 3]
    (s.loc 3).out = .bool true ∧ (s.loc 3).oSt = some stAccepted ∧ (s.jobs 0).status = stCanceled := by decide

/-- the same schedules on the repaired order: the waiter is still blocked when the Status is stored -/
example :
    let prog := [KindS.task 5 [] false, .cancel 0, .waitRd 0]
    let s := reachS prog [0, 0, 2, 1, 1, 1, 1, 1, 2, 2, 1, 2, 2, 1, 2, 2, 2]
    (s.loc 2).oSt = some stCanceled ∧ (s.loc 2).pc = fin := by decide

/-- Scope of the reader guarantees: they are for readers that test 'done' first. A thread that polls
`j.Status` alone sees `handle`'s two stores for an error-flagged result one after the other:
Completed (a final-looking value) while the Job is not finished, then Error. Not repaired (the
contract of the API is `Wait` / `IsDone` first); recorded here so that nobody reads
`reader_sees_final_status` as a statement about bare Status polls. -/
theorem status_poll_sees_completed_before_error :
    let prog := [KindS.task 5 [] false, .result 5 true 0]
    let a := reachS prog [0, 0, 1, 1, 1]
    let b := reachS prog [0, 0, 1, 1, 1, 1, 1, 1, 1, 1]
    (a.jobs 0).status = stCompleted ∧ (a.jobs 0).closed = false ∧
    (b.jobs 0).status = stError ∧ (b.jobs 0).first = some .error := by decide

/-! ### beyond sequential consistency: which earlier values an unsynchronised read may return

All stores to `j.Status` / `j.Result` / `j.Error` of one Job are ordered by happens-before (they are
made under the session lock while the Job is in the table, or by the one thread that took it out), so
under the Go memory model a read may return the value of any of those stores that is not
happens-before-overwritten: in terms of the sequentially consistent run `sched`, the value the field
had after SOME prefix `sched.take m`, where `m` is not before the reader's last synchronisation.
A receive from the closed channel synchronises with the close (`m ≥` the prefix that closed it);
a reader that returned because its plain read of `j.done` saw nil has synchronised with nothing
since `Task` returned the Job. -/

/-- **Synchronised path.** Whatever prefix at or after the close of the channel a read takes its value
from, it is the final Status / Result / Error: a reader released by `<-d` (or told true by the
`select` of IsDone) sees the final values under the Go memory model too, not only under sequential
consistency. -/
theorem sync_read_sees_final (prog : List KindS) (sched : List Nat) (m0 m r : Nat) (hm : m0 ≤ m)
    (hr : r < (reachS prog (sched.take m0)).nJobs)
    (hc : ((reachS prog (sched.take m0)).jobs r).closed = true) :
    ((reachS prog (sched.take m)).jobs r).status = ((reachS prog sched).jobs r).status ∧
    ((reachS prog (sched.take m)).jobs r).result = ((reachS prog sched).jobs r).result ∧
    ((reachS prog (sched.take m)).jobs r).err = ((reachS prog sched).jobs r).err := by
  have e1 : sched.take m = sched.take m0 ++ (sched.take m).drop m0 := by
    have := (List.take_append_drop m0 (sched.take m)).symm
    rwa [List.take_take, Nat.min_eq_left hm] at this
  have e2 : sched = sched.take m0 ++ sched.drop m0 := (List.take_append_drop m0 sched).symm
  have a := sub_finished_is_final prog (sched.take m0) ((sched.take m).drop m0) r hr hc
  have b := sub_finished_is_final prog (sched.take m0) (sched.drop m0) r hr hc
  rw [← e1] at a
  rw [← e2] at b
  exact ⟨a.2.1.trans b.2.1.symm, a.2.2.1.trans b.2.2.1.symm, a.2.2.2.1.trans b.2.2.2.1.symm⟩

/-- **Unsynchronised (nil) path: OPEN, with witness.** `handle` finishes the Job (prefix 10: Status
Completed, channel closed, `done = nil`); a reader then calls `Wait`, its plain read of `j.done` sees
nil and `Wait` returns without any synchronisation; the value of `j.Status` after prefix 2 (right
after `Task` returned the Job: Waiting) is one the Go memory model allows for its next read. Under
sequential consistency — and on the real hardware the replay runs on — the read returns Completed
(`reader_sees_final_status`). -/
theorem nil_path_allows_stale_status :
    let prog := [KindS.task 5 [] false, .result 5 false 0, .waitRd 0]
    let sched := [0, 0, 1, 1, 1, 1, 1, 1, 2]
    ((reachS prog (sched.take 8)).jobs 0).doneNil = true ∧           -- the reader's read of j.done sees nil
    ((reachS prog sched).loc 2).pc = 2 ∧                              -- Wait has returned, via the nil test
    ((reachS prog (sched.take 2)).jobs 0).status = stWaiting ∧       -- an allowed (stale) value …   
    ((reachS prog sched).jobs 0).status = stCompleted := by decide   -- … the final one

end SubSteps

/-! ### review note "`count` outside the invariant": now inside -/

/-- `count` (the model of `len(s.jobs)`, which `handle` / `accept` / `frag` read WITHOUT the lock) is the
number of keys of the pending table in every reachable state of the coarse model … -/
theorem count_is_table_size (prog : List Kind) (sched : List Nat) :
    CountIs (reach prog sched).table (reach prog sched).count :=
  countIs_runF prog sched {} countIs_empty

/-- … so the unlocked `len(s.jobs) == 0` guard never drops the result of a pending Job: while a Job is
in the table the count is not 0, and a handle-thread for its number (≥ 2) passes the guard and goes
on to the locked lookup. -/
theorem guard_never_drops_pending (prog : List Kind) (sched : List Nat) (t id r : Nat) (ef : Bool) (tag : Nat)
    (ht : (reach prog sched).table id = some r) :
    (reach prog sched).count ≠ 0 ∧
    (2 ≤ id → ((reach prog sched).loc t).pc = 0 →
      ((resultF (reach prog sched) t id ef tag).loc t).pc = 1 ∧
      ((resultF (reach prog sched) t id ef tag).loc t).out = ((reach prog sched).loc t).out) := by
  have hc := count_is_table_size prog sched
  have hne : (reach prog sched).count ≠ 0 := by
    intro h0
    have := (countIs_zero_iff hc).mp h0 id
    rw [ht] at this; cases this
  refine ⟨hne, ?_⟩
  intro h2 hpc
  have hm : ¬ id < handleMin := by have := facts_ok.2.2.1; omega
  simp [resultF, hpc, hm, hne, Job.goto, Job.setLoc]

/-- the same for the sub-step model: also between the single writes of Cancel's locked region
(`delete` changes the table and the count in one write) -/
theorem sub_count_is_table_size (prog : List JobSub.KindS) (sched : List Nat) :
    CountIs (JobSub.runS prog {} sched).table (JobSub.runS prog {} sched).count :=
  JobSub.countIs_runS prog sched {} (JobSub.invS_init prog) countIs_empty

/-- non-vacuity of `guard_never_drops_pending` -/
example :
    let s := reach [.task 5 [] false, .result 5 false 0] [0, 0]
    s.table 5 = some 0 ∧ (s.loc 1).pc = 0 ∧ s.count = 1 := by decide

/-- Review note "caller-supplied Job 1": `Task` registers whatever number the caller put into the
packet (the code has no guard; only `newJobID` avoids 0 and 1 — `jobid_fresh`). A Job registered
under 1 is a normal pending Job for `Cancel`, but `handle` drops every result numbered below 2 before
it looks at the table (`low_numbers_ignored`), so such a Job can only be finished by `Cancel`. The
property's "never 0 or 1" clause is about numbers handed out, which is what is proved; this witness
pins down what happens otherwise (c2 itself uses Job 1 only for SvShutdown packets, never via Task). -/
theorem caller_supplied_one_only_cancel :
    let prog := [Kind.task 1 [] false, .result 1 false 0, .cancel 0]
    let a := reach prog [0, 0, 1, 1, 1]
    let b := reach prog [0, 0, 1, 1, 1, 2, 2]
    (a.loc 1).out = .ignored ∧ a.table 1 = some 0 ∧ (a.jobs 0).closed = false ∧
    (b.jobs 0).status = stCanceled ∧ (b.jobs 0).closed = true ∧ b.table 1 = none := by decide


-- OPEN: attribution across number reuse. Full statement: "a result meant for the Job created by
-- Task k is never recorded in a Job created by another Task". False as stated (see
-- `stale_result_after_id_reuse`); what is proved is `result_recorded_in_own_job` (attribution by
-- number is exact) together with `foreign_results_ignored`.

end XMT.Props.C14
