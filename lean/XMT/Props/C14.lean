/-
  C14 — A Job finishes exactly once whether it completes, errors or is cancelled.
  Property theorems only; the model is XMT/Job.lean (`stepF` = the code as repaired by the `fix:`
  commits, `stepO` = the code before), the invariant and its preservation are in XMT/JobInv.lean.

  Quantification: `prog : List Kind` is ANY finite set of threads (any number of Task / result
  arrival (normal, error-flagged, duplicate = same number again, unknown number) / Cancel (repeated) /
  Wait / IsDone / accept / frag calls on one session), `sched : List Nat` ANY schedule of their
  atomic actions (entries naming finished, blocked or non-existent threads are no-ops), starting
  from a fresh session `{}`. Nothing is bounded.

  Scope notes (from an adversarial review of these statements, see DESIGN.md Appendix B.5):
  * granularity: the locked region of `Cancel` (delete; close(done); Status = Canceled; done = nil)
    is ONE atomic action of the model. Lock-free readers (`Wait`, `IsDone`, a `Status` read) can in
    the real code run inside that region and see the channel closed with the old Status;
    `status_first_event` / `released_once` / `finished_is_final` speak about the states between
    actions, i.e. once the finishing call has left its locked region. Open: the sub-steps of that
    region as seen by lock-free readers.
  * all universally quantified theorems are safety statements (nothing wrong is recorded); that a
    result for a pending Job IS recorded is shown on examples and by the differential run.
  * `St.count` (the unlocked `len(s.jobs)` test of `handle`) is not part of the invariant.
  * `Task` registers a caller-supplied Job number as it is (also 1, whose result `handle` then drops:
    `low_numbers_ignored`); "never 0 or 1" is proved for the numbers `newJobID` hands out
    (`jobid_fresh`). The harness never supplies a number below 2.
  * `resync_only_for_pending` is definitional on purpose: it pins the gate to `hasJob` alone; the tie is
    the differential op `resync`.
-/
import XMT.JobInv
namespace XMT.Props.C14
open XMT XMT.Job

/-- the state reached by the repaired code from a fresh session under schedule `sched` -/
abbrev reach (prog : List Kind) (sched : List Nat) : St := runF prog {} sched

theorem reach_inv (prog : List Kind) (sched : List Nat) : Inv prog (reach prog sched) :=
  inv_runF prog sched {} (inv_init prog)

/-! ### obligations on the regenerated constants -/

/-- The statuses are pairwise distinct and the three final ones differ from the pending ones; the
id-allocation loop rejects 0 and 1 (`i > 1`). Closed by `decide` on Generated/Facts.lean. -/
theorem facts_ok :
    [stWaiting, stAccepted, stReceiving, stCompleted, stError, stCanceled].Nodup ∧
    1 ≤ idMinExcl ∧ handleMin = 2 ∧ acceptMin = 2 ∧ fragMin = 2 ∧ 0 < idTries := by decide

/-! ### the property, for all programs and all schedules (repaired code) -/

/-- Nothing panics: no thread ever dies in `close` of a closed or nil channel, and the session lock
is never left held. -/
theorem no_panic (prog : List Kind) (sched : List Nat) (t : Nat) :
    ((reach prog sched).loc t).out.isPanic = false ∧ (reach prog sched).lockHeld = false := by
  have h := reach_inv prog sched
  refine ⟨?_, h.noLock⟩
  have := h.noPanic t
  cases e : ((reach prog sched).loc t).out <;> simp_all [Out.isPanic]

/-- Waiters are released exactly once: the done channel of every Job is closed at most once, and it
is closed iff the close counter is 1. -/
theorem released_once (prog : List Kind) (sched : List Nat) (r : Nat) (hr : r < (reach prog sched).nJobs) :
    ((reach prog sched).jobs r).closes ≤ 1 ∧
    (((reach prog sched).jobs r).closed = true ↔ ((reach prog sched).jobs r).closes = 1) := by
  have h := (reach_inv prog sched).jobs r hr
  unfold JobOK at h
  cases e : ((reach prog sched).jobs r).closed <;> simp_all

/-- The final status reflects the first finishing event: as soon as the waiters are released the
Status is the one of the event that released them (Completed / Error for a result, Canceled for
Cancel) — in every reachable state, hence also whatever runs afterwards. -/
theorem status_first_event (prog : List Kind) (sched : List Nat) (r : Nat)
    (hr : r < (reach prog sched).nJobs) (hc : ((reach prog sched).jobs r).closed = true) :
    ∃ e, ((reach prog sched).jobs r).first = some e ∧ ((reach prog sched).jobs r).status = e.status := by
  have h := (reach_inv prog sched).jobs r hr
  exact (h.2 hc).2

/-- The Job leaves the pending table: a finished Job is never in the table, and whatever the table
holds under a number is an unfinished Job with that number (no entry is ever attributed to a
different number). -/
theorem leaves_table (prog : List Kind) (sched : List Nat) (i r : Nat)
    (ht : (reach prog sched).table i = some r) :
    r < (reach prog sched).nJobs ∧ ((reach prog sched).jobs r).id = i ∧
    ((reach prog sched).jobs r).closed = false ∧ ((reach prog sched).jobs r).doneNil = false := by
  have h := (reach_inv prog sched).tab i r ht
  exact ⟨h.1, h.2.1, h.2.2.1, h.2.2.2.1⟩

/-- Results with an unknown, already used (duplicate) or cancelled number are ignored: when the
number is not in the pending table at the locked lookup, `handle` returns false and no Job, no
table entry and no other thread changes. (A finished or cancelled Job is not in the table, see
`leaves_table`.) -/
theorem foreign_results_ignored (s : St) (t id : Nat) (ef : Bool) (tag : Nat)
    (hpc : (s.loc t).pc = 1) (hl : s.lockHeld = false) (hn : s.table id = none) :
    let s' := resultF s t id ef tag
    s'.jobs = s.jobs ∧ s'.table = s.table ∧ s'.nJobs = s.nJobs ∧
    (s'.loc t).out = .ignored ∧ (s'.loc t).pc = fin ∧ ∀ t', t' ≠ t → s'.loc t' = s.loc t' := by
  simp [resultF, hpc, hl, hn, finish, setLoc, upd_apply]
  intro t' h; simp [h]

/-- … and numbers below 2 are rejected before the table is even read. -/
theorem low_numbers_ignored (s : St) (t id : Nat) (ef : Bool) (tag : Nat)
    (hpc : (s.loc t).pc = 0) (hid : id < 2) :
    let s' := resultF s t id ef tag
    s'.jobs = s.jobs ∧ s'.table = s.table ∧ (s'.loc t).out = .ignored ∧ (s'.loc t).pc = fin := by
  have : id < handleMin := by have := facts_ok.2.2.1; omega
  simp [resultF, hpc, this, finish, setLoc]

/-- A result is only ever recorded in the Job that was pending under exactly the result's number
when the handler looked it up: a handle-thread that is past its lookup owns a Job with its own
number, and that Job is not (any more) in the table. -/
theorem result_recorded_in_own_job (prog : List Kind) (sched : List Nat) (t id : Nat) (ef : Bool) (tag : Nat)
    (hk : prog[t]? = some (.result id ef tag))
    (h2 : 2 ≤ ((reach prog sched).loc t).pc) (h6 : ((reach prog sched).loc t).pc ≤ 6) :
    ∃ r, ((reach prog sched).loc t).ref = some r ∧ r < (reach prog sched).nJobs ∧
      ((reach prog sched).jobs r).id = id ∧ ((reach prog sched).jobs r).owner = some t ∧
      (reach prog sched).table id ≠ some r := by
  have hi := reach_inv prog sched
  obtain ⟨hn, hr⟩ := hi.own t id ef tag hk h2 h6
  cases e : ((reach prog sched).loc t).ref with
  | none => exact absurd e hn
  | some r =>
    obtain ⟨hlt, ho⟩ := hr r e
    refine ⟨r, rfl, hlt, ho.2.1, ho.1, ?_⟩
    intro ht
    have := (hi.tab id r ht).2.2.2.2
    rw [ho.1] at this
    cases this

/-- Wait never blocks on a finished Job: inside `Wait` (either action) a thread whose Job's channel
is closed always makes progress. -/
theorem no_block_after_finish (s : St) (t k r : Nat) (hj : jobOf s k = some (some r))
    (hc : (s.jobs r).closed = true) (hpc : (s.loc t).pc = 0 ∨ (s.loc t).pc = 1) :
    ((waitF s t k).loc t).pc ≠ (s.loc t).pc := by
  rcases hpc with h | h
  · simp [waitF, hj, h, finish, goto, setLoc]
    split <;> simp [fin]
  · simp [waitF, hj, h, hc, finish, setLoc, fin]

/-- IsDone on a finished Job answers true (either the field is already nil, or the channel read
into the local is closed). -/
theorem isDone_after_finish (s : St) (t k r : Nat) (hj : jobOf s k = some (some r))
    (hc : (s.jobs r).closed = true) (hpc : (s.loc t).pc = 0 ∨ (s.loc t).pc = 1) :
    ((isDoneF s t k).loc t).pc = 1 ∨ ((isDoneF s t k).loc t).out = .bool true := by
  rcases hpc with h | h <;> simp [isDoneF, hj, h, hc, finish, goto, setLoc]
  split <;> simp

/-- Job numbers handed out by newJobID are never 0 or 1, fit 16 bits and are never the number of a
pending Job — for every table and every PRNG draw sequence. (0 = "cannot assign a Job ID": the loop
gives up after `idTries` = 512 draws even when free numbers exist; it cannot spin forever.) -/
theorem jobid_fresh (table : Nat → Option Nat) (draws : List Nat) :
    newJobID table draws = 0 ∨
    (2 ≤ newJobID table draws ∧ newJobID table draws < 65536 ∧ table (newJobID table draws) = none) := by
  unfold newJobID
  generalize draws.take idTries = ds
  induction ds with
  | nil => left; rfl
  | cons d ds ih =>
    unfold newJobIDGo
    simp only
    split
    · rename_i h
      right
      have := facts_ok.2.1
      exact ⟨by omega, Nat.mod_lt _ (by decide), h.1⟩
    · exact ih

/-- **The SvResync gate** (`receiveSingle`, the consumer of `hasJob`): the settings an SvResync
packet carries are applied exactly while the Job it names is pending; a number that is not in the
table is ignored whatever it is — 0 and 1, which are never handed out, get no shortcut — and a
number `newJobID` is about to hand out is not yet accepted. The decision function is compared with
the real `receiveSingle` on every run (op `resync`). -/
theorem resync_only_for_pending (table : Nat → Option Nat) (id : Nat) :
    (resyncApplied table id = true ↔ ∃ r, table id = some r) ∧
    (table id = none → resyncApplied table id = false) := by
  unfold resyncApplied hasJob
  cases h : table id <;> simp

theorem resync_fresh_number_ignored (table : Nat → Option Nat) (draws : List Nat)
    (h : newJobID table draws ≠ 0) : resyncApplied table (newJobID table draws) = false := by
  rcases jobid_fresh table draws with h0 | ⟨_, _, hn⟩
  · exact absurd h0 h
  · exact (resync_only_for_pending table _).2 hn

/-- … and Task registers a Job only under a number that is not pending (check, queueing and
insert are one locked action), so a pending Job is never displaced from the table. -/
theorem task_never_displaces (s : St) (t id : Nat) (draws : List Nat) (wf : Bool) (i r : Nat)
    (ht : s.table i = some r) : (taskF s t id draws wf).table i = some r := by
  unfold taskF
  dsimp only
  split
  · split
    · split
      · exact ht
      · split <;> simpa [finish, setLoc] using ht
    · simpa [setLoc] using ht
  · split
    · exact ht
    · split
      · simpa [finish, setLoc] using ht
      · rename_i hn
        split
        · simpa [finish, setLoc] using ht
        · simp only [finish, setLoc, upd_apply]
          split
          · rename_i e; subst e; rw [hn] at ht; cases ht
          · exact ht
  · exact ht

/-- Exactly once, for ever: whatever runs after a Job is finished (any further schedule `more`:
late or duplicate results, repeated Cancel, accept, frag, new Tasks re-using the number …), its
channel stays closed, the close counter and the first finishing event do not change, and its
Status, Result and Error are frozen — nothing is ever attributed to a finished Job. -/
theorem finished_is_final (prog : List Kind) (sched more : List Nat) (r : Nat)
    (hr : r < (reach prog sched).nJobs) (hc : ((reach prog sched).jobs r).closed = true) :
    let a := (reach prog sched).jobs r
    let b := (reach prog (sched ++ more)).jobs r
    b.closed = true ∧ b.closes = 1 ∧ b.first = a.first ∧ b.status = a.status ∧ b.result = a.result ∧
    b.err = a.err ∧ b.id = a.id := by
  have hi := reach_inv prog sched
  have g := good_runF prog more (reach prog sched) hi
  have hle := g.2.2 r hr
  simp only [reach, runF_append]
  unfold JobLe at hle
  obtain ⟨l1, l2, l3, l4, l5⟩ := hle
  obtain ⟨e, he, _⟩ := ((hi.jobs r hr).2 hc).2
  have hb := g.1.jobs r (Nat.lt_of_lt_of_le hr g.2.1)
  refine ⟨l3 hc, (hb.2 (l3 hc)).1, ?_, (l5 hc).1, (l5 hc).2.1, (l5 hc).2.2, l1.symm⟩
  rw [he]; exact l4 e he

/-- No Job is ever lost: in every reachable state an unfinished Job is either pending in the table
under its own number (so a result or Cancel can still finish it) or a handle-thread that took it
out of the table is on its way to close it. -/
theorem never_orphaned (prog : List Kind) (sched : List Nat) (r : Nat) (hr : r < (reach prog sched).nJobs)
    (hc : ((reach prog sched).jobs r).closed = false) :
    (reach prog sched).table ((reach prog sched).jobs r).id = some r ∨
    ∃ t, ((reach prog sched).jobs r).owner = some t ∧ isResult prog t = true ∧
      2 ≤ ((reach prog sched).loc t).pc ∧ ((reach prog sched).loc t).pc ≤ 5 ∧
      ((reach prog sched).loc t).ref = some r := by
  have h := (reach_inv prog sched).live r hr
  unfold Kjob at h
  rcases h with h | h | ⟨hn, h⟩
  · exact Or.inl h
  · rw [hc] at h; cases h
  · right
    cases e : ((reach prog sched).jobs r).owner with
    | none => exact absurd e hn
    | some t => exact ⟨t, rfl, h t e⟩

/-- … in particular, once every thread has returned each Job is either still pending or finished
(waiters released, out of the table): no Job is left half-finished. -/
theorem quiescent_jobs (prog : List Kind) (sched : List Nat)
    (hq : ∀ t, t < prog.length → ((reach prog sched).loc t).pc = fin) (r : Nat)
    (hr : r < (reach prog sched).nJobs) :
    (reach prog sched).table ((reach prog sched).jobs r).id = some r ∨
    ((reach prog sched).jobs r).closed = true := by
  cases hc : ((reach prog sched).jobs r).closed with
  | true => exact Or.inr rfl
  | false =>
    rcases never_orphaned prog sched r hr hc with h | ⟨t, _, hres, _, h5, _⟩
    · exact Or.inl h
    · have hlt : t < prog.length := by
        unfold isResult at hres
        cases e : prog[t]? with
        | none => rw [e] at hres; cases hres
        | some k => exact (List.getElem?_eq_some_iff.mp e).1
      rw [hq t hlt] at h5; simp [fin] at h5

/-- the hypothesis of `quiescent_jobs` is satisfiable: a run in which all three threads returned -/
example :
    let prog := [Kind.task 5 [] false, .result 5 true 0, .cancel 0]
    ∀ t, t < prog.length → ((reach prog [0, 0, 1, 1, 2, 1, 1, 2, 1, 1, 1]).loc t).pc = fin := by decide

/-! ### non-vacuity: concrete runs of the repaired model -/

/-- the double-close schedule of the unrepaired code (see `orig_double_close`) is harmless now:
handle parked before its close, Cancel runs completely, handle closes. Status stays Completed. -/
example :
    let s := runF [.task 5 [] false, .result 5 false 0, .cancel 0] {} [0, 0, 1, 1, 1, 1, 2, 2, 1, 1]
    (s.loc 1).out = .handled ∧ (s.loc 2).out = .ret ∧ (s.jobs 0).closes = 1 ∧
    (s.jobs 0).status = stCompleted ∧ (s.jobs 0).first = some .completed ∧ s.table 5 = none := by decide

/-- Cancel first, then the result: ignored, status Canceled. -/
example :
    let s := runF [.task 5 [] false, .result 5 true 0, .cancel 0] {} [0, 0, 2, 2, 1, 1]
    (s.loc 1).out = .ignored ∧ (s.jobs 0).status = stCanceled ∧ (s.jobs 0).closes = 1 := by decide

/-- hypotheses of `result_recorded_in_own_job` / `never_orphaned` (second alternative): a handler
parked before its close owns Job 0, which is neither in the table nor finished. -/
example :
    let s := reach [.task 5 [] false, .result 5 false 0] [0, 0, 1, 1, 1, 1]
    (s.loc 1).pc = 5 ∧ (s.loc 1).ref = some 0 ∧ (s.jobs 0).owner = some 1 ∧ s.table 5 = none ∧
    (s.jobs 0).closed = false := by decide

/-- hypotheses of `finished_is_final`: Job 0 finished by an error result; a duplicate result, a
Cancel, an accept and a Task re-using the number run afterwards. -/
example :
    let prog := [Kind.task 5 [] false, .result 5 true 0, .result 5 false 0, .cancel 0, .accept 5, .task 5 [] false]
    let a := (reach prog [0, 0, 1, 1, 1, 1, 1, 1, 1]).jobs 0
    let b := (reach prog ([0, 0, 1, 1, 1, 1, 1, 1, 1] ++ [5, 5, 2, 2, 2, 2, 2, 2, 3, 3, 4, 4])).jobs 0
    a.closed = true ∧ a.status = stError ∧ b.status = stError ∧ b.result = some 0 ∧ b.closes = 1 := by decide

/-! ### negations: the defects of the unrepaired code, each on a concrete schedule

`stepO false` is the code before all repairs. Every schedule below is replayed on the real code
from corpus/C14 (as a label script) on every run. -/

/-- Cancel of a pending Job left Status = Waiting (never Canceled). -/
theorem orig_cancel_status_waiting :
    let s := runO false [.task 5 [] false, .cancel 0] {} [0, 0, 0, 0, 1, 1, 1]
    (s.jobs 0).closed = true ∧ (s.jobs 0).first = some .canceled ∧ (s.jobs 0).status = stWaiting := by
  decide

/-- Double close: handle stores Status=Completed and tests `j.done != nil`; Cancel sees
Status ≥ Completed and closes; handle closes again → panic "close of closed channel". -/
theorem orig_double_close :
    ∃ sched, ((runO false [.task 5 [] false, .result 5 false 0, .cancel 0] {} sched).loc 1).out = .panicClosed :=
  ⟨[0, 0, 0, 0, 1, 1, 1, 1, 1, 2, 2, 2, 2, 1], by decide⟩

/-- close(nil) while holding the session lock: Cancel passes its unlocked checks, handle completes
the Job (done = nil), Cancel takes the lock, finds the Job gone and closes the nil field: panic with
the lock held — every later locked access of the session blocks forever. -/
theorem orig_close_nil_under_lock :
    ∃ sched, let s := runO false [.task 5 [] false, .result 5 false 0, .cancel 0] {} sched
      (s.loc 2).out = .panicNil ∧ s.lockHeld = true :=
  ⟨[0, 0, 0, 0, 2, 2, 1, 1, 1, 1, 1, 1, 1, 2], by decide⟩

/-- A completion racing a cancellation overwrites the status: Cancel finishes the Job first
(waiters released by Cancel), the handler that had already looked the Job up then stores Completed. -/
theorem orig_status_overwritten :
    ∃ sched, let s := runO true [.task 5 [] false, .result 5 false 0, .cancel 0] {} sched
      (s.jobs 0).first = some .canceled ∧ (s.jobs 0).status = stCompleted ∧ (s.jobs 0).closes = 1 :=
  ⟨[0, 0, 0, 0, 1, 1, 2, 2, 2, 1, 1, 1], by decide⟩

/-- Task queued the packet before it registered the Job: a fast result finds no Job and is dropped,
the Job then waits forever. -/
theorem orig_result_before_registration :
    ∃ sched, let s := runO true [.task 5 [] false, .task 7 [] false, .result 7 false 1] {} sched
      s.pub = [5, 7] ∧ (s.loc 2).out = .ignored ∧ s.table 7 = some 1 ∧ (s.jobs 1).closed = false :=
  ⟨[0, 0, 0, 0, 1, 1, 1, 2, 2, 1], by decide⟩

/-- Two Tasks with the same number both pass the duplicate check; the second insert displaces the
first Job, which can then never be finished. -/
theorem orig_task_displaces_pending :
    ∃ sched, let s := runO true [.task 5 [] false, .task 5 [] false] {} sched
      (s.loc 0).out = .job 0 ∧ (s.loc 1).out = .job 1 ∧ s.table 5 = some 1 ∧ (s.jobs 0).closed = false :=
  ⟨[0, 0, 1, 1, 0, 0, 1, 1], by decide⟩

/-- accept raced a completion: the finished Job ends with Status = Accepted. -/
theorem orig_accept_overwrites_final_status :
    ∃ sched, let s := runO true [.task 5 [] false, .result 5 false 0, .accept 5] {} sched
      (s.jobs 0).closed = true ∧ (s.jobs 0).first = some .completed ∧ (s.jobs 0).status = stAccepted :=
  ⟨[0, 0, 0, 0, 2, 2, 1, 1, 1, 1, 1, 1, 1, 2], by decide⟩

/-- Wait read `j.done` twice: non-nil at the test, nil at the receive → blocked forever on a
finished Job (the step of the waiting thread is the identity on the state, so it stays blocked
however often it is scheduled; no other thread is left to run). -/
theorem orig_wait_blocks_after_finish :
    ∃ sched, let prog := [.task 5 [] false, .result 5 false 0, .wait 0]
      let s := runO true prog {} sched
      (s.jobs 0).closed = true ∧ (s.loc 0).pc = fin ∧ (s.loc 1).pc = fin ∧ (s.loc 2).pc = 1 ∧
      stepO true prog s 2 = s := by
  refine ⟨[0, 0, 0, 0, 2, 1, 1, 1, 1, 1, 1, 1], by decide, by decide, by decide, by decide, ?_⟩
  have hj : jobOf (runO true [.task 5 [] false, .result 5 false 0, .wait 0] {} [0, 0, 0, 0, 2, 1, 1, 1, 1, 1, 1, 1]) 0
      = some (some 0) := by decide
  have hn : ((runO true [.task 5 [] false, .result 5 false 0, .wait 0] {} [0, 0, 0, 0, 2, 1, 1, 1, 1, 1, 1, 1]).jobs 0).doneNil
      = true := by decide
  have hp : ((runO true [.task 5 [] false, .result 5 false 0, .wait 0] {} [0, 0, 0, 0, 2, 1, 1, 1, 1, 1, 1, 1]).loc 2).pc
      = 1 := by decide
  simp [stepO, stepKO, waitO, hj, hn, hp]

/-- IsDone read `j.done` twice: called after the Job was finished (channel closed, field not yet
nil) it passes the nil test, the handler then stores nil, and the `select` on the re-read nil field
falls to `default`: false for a Job that was finished before the call began. -/
theorem orig_isDone_false_after_finish :
    let prog := [.task 5 [] false, .result 5 false 0, .isDone 0]
    let s1 := runO true prog {} [0, 0, 0, 0, 1, 1, 1, 1, 1, 1]
    let s2 := runO true prog s1 [2, 1, 2]
    (s1.jobs 0).closed = true ∧ (s1.loc 2).pc = 0 ∧ (s2.loc 2).out = .bool false := by decide

/-! ### recorded finding (not repaired): stale result after the number is handed out again

Results are matched by the 16-bit number only. After Job #0 (number 7) is cancelled the number is
free, a second Task may get it (explicitly or from newJobID), and the late result of the first Task
is then recorded in the second Job. This holds for the repaired code as well (protocol limit). -/
theorem stale_result_after_id_reuse :
    let s := runF [.task 7 [] false, .cancel 0, .task 7 [] false, .result 7 false 0] {} [0, 0, 1, 1, 2, 2, 3, 3, 3, 3, 3, 3, 3]
    (s.jobs 0).status = stCanceled ∧ (s.loc 2).out = .job 1 ∧ (s.jobs 1).result = some 0 ∧
    (s.jobs 1).status = stCompleted := by decide

-- OPEN: attribution across number reuse. Full statement: "a result meant for the Job created by
-- Task k is never recorded in a Job created by another Task". False as stated (see
-- `stale_result_after_id_reuse`); what is proved is `result_recorded_in_own_job` (attribution by
-- number is exact) together with `foreign_results_ignored`.

end XMT.Props.C14
