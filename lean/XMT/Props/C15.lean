/-
  C15 — Packets are only ever processed in the session of the device they name.

  Property theorems only; the model is XMT/Route.lean + XMT/RouteProxy.lean (the code AFTER the
  five `fix:` commits listed in known/C15.json), lemmas are in XMT/RouteLemmas.lean,
  XMT/RouteOutbound.lean and XMT/RouteProxyLemmas.lean, witnesses in XMT/RouteWitness.lean.

  EVERY theorem below is stated for an ARBITRARY hash function `hash : ID → Nat` — nothing is
  assumed about injectivity, so all sets of registered IDs are covered, colliding ones included —
  for an arbitrary table `t` (any registration history) and arbitrary packets / batches / tag lists.
  The history theorems quantify over all lists of operations (registration, traffic, removal, in
  any order).

  Two parts of the property do NOT hold on the code as it is and are recorded as known findings
  (known/C15.json); each has its negation proved here on a concrete witness built from a REAL
  colliding pair of IDs, next to the `_partial` theorem that holds on the excluded domain:
    * tag-collision:*      a proxy tag is only the 32-bit hash; the Session stored under that hash
                           is touched and its queue is handed to the proxy's connection even when
                           it belongs to another device            (`tag_collision_violates`)
    * mdflag-bypass:*      receive() skips its device test for a packet flagged MultiDevice, so an
                           element of a same-device batch can name another device
                                                                   (`mdflag_bypass_violates`)
-/
import XMT.RouteLemmas
import XMT.RouteOutbound
import XMT.RouteProxyLemmas
import XMT.RouteProxyRegister
import XMT.RouteWitness
import XMT.RouteChan
namespace XMT.Props.C15
open XMT XMT.Route

/-! ### the hash really collides -/

/-- The model of `device.ID.Hash` (FNV-1, constants regenerated from device/id.go) maps the two
distinct IDs that the harness' birthday search found on the real function to the same value. -/
theorem hash_collision_exists :
    idHash Witness.idA = idHash Witness.idB ∧ Witness.idA ≠ Witness.idB := by decide

/-! ### looking a session up by device ID returns that device's session or nothing -/

/-- `Server.Session(i)` never returns the Session of another device — for every hash function. -/
theorem lookup_exact (hash : ID → Nat) (t : Tbl) (i : ID) (s : Sess)
    (h : lookup hash t i = some s) : s.id = i :=
  (lookup_some h).1

/-- … and it does return the Session of every registered device (table invariant `Inv`: keys are
the hashes of the stored, non-empty IDs — see `table_invariant`). -/
theorem lookup_registered (hash : ID → Nat) (t : Tbl) (k : Nat) (s : Sess) (hi : Inv hash t)
    (h : t.get k = some s) : lookup hash t s.id = some s :=
  lookup_of_slot hi h

/-- The table invariant holds after every history of registrations, traffic, removals, queueing
and look-ups, in any order, starting from the empty table. -/
theorem table_invariant (hash : ID → Nat) (ops : List Op) : Inv hash (run hash [] ops).1 :=
  run_inv ops (inv_nil hash)

/-- `Server.Remove(i)` removes the Session of `i` … -/
theorem remove_removes_own (hash : ID → Nat) (t : Tbl) (i : ID) :
    lookup hash (remove hash t i) i = none :=
  remove_removes hash t i

/-- … and never the Session of another device `a`, even when `hash i = hash a`. -/
theorem remove_keeps_others (hash : ID → Nat) (t : Tbl) (i a : ID) (s : Sess)
    (hs : t.get (hash a) = some s) (hid : s.id = a) (hne : i ≠ a) :
    (remove hash t i).get (hash a) = some s :=
  remove_keeps_other hash t i a s hs hid hne

/-! ### effects only on the own session -/

-- OPEN (false as stated, see `mdflag_bypass_violates`): the statement without `InnerOK`:
--   ∀ hash closing t n, AllOwn (talk hash closing t n).2.1

/-- **Listener.talk**: every effect on a Session — host/last-seen update, key replacement,
delivery to the handler, registration — caused by a packet (alone or as an element of a
multi-device batch) happens on the Session whose device ID EQUALS the device ID that packet names.
For every hash function, table, packet, batch composition and tag list.  `InnerOK n`: no element of
a *same-device* batch carries `FlagMultiDevice` (the excluded case is the known finding). -/
theorem effects_only_own_partial (hash : ID → Nat) (closing : Bool) (t : Tbl) (n : Pkt)
    (hin : InnerOK n = true) : AllOwn (talk hash closing t n).2.1 :=
  talk_own hash closing t n hin (tagsOK_true _ _ _)

/-- **Listener.talkSub** (an element of a multi-device batch, or called directly): same, with no
side condition at all. -/
theorem effects_only_own_talkSub (hash : ID → Nat) (closing : Bool) (t : Tbl) (n : Sub) (o : Bool) :
    AllOwn (talkSub hash closing t n o).2.1 :=
  talkSub_own hash closing t n o

/-- Over whole histories: all orders of registration, traffic, removal. -/
theorem history_effects_only_own_partial (hash : ID → Nat) (t : Tbl) (ops : List Op)
    (h : ∀ op ∈ ops, op.ok = true) : AllOwn (run hash t ops).2 :=
  run_own hash ops t h

/-- Negation of the full statement on a concrete witness (known finding `mdflag-bypass:receive`):
A is registered; A sends a same-device batch whose element names B and is flagged MultiDevice;
the handler of A's Session fires for the packet that names B. -/
theorem mdflag_bypass_violates :
    ¬ AllOwn (talk idHash false Witness.tblA Witness.pktInnerMD).2.1 := by
  intro h
  have hm : Ev.recv Witness.idA Witness.idB 20 5 ∈ (talk idHash false Witness.tblA Witness.pktInnerMD).2.1 := by
    decide
  have : Witness.idA = Witness.idB := h _ hm
  exact absurd this (by decide)

/-! ### a packet naming an unknown device triggers a re-registration request, nothing else -/

/-- If no registered Session has the packet's device ID (Sessions with the same HASH may exist)
and the packet is not a hello, `talk` changes nothing, has no effect on any Session and answers
with `SvRegister` naming the sender. -/
theorem unknown_gets_register (hash : ID → Nat) (t : Tbl) (n : Pkt)
    (hun : ∀ k s, t.get k = some s → s.id ≠ n.hd.dev) (he : idEmpty n.hd.dev = false)
    (hh : (n.hd.pid == svHello) = false) :
    talk hash false t n =
      (t, [], .ok { ok := false, host := none, next := [registerReply n.hd], subs := [] }) :=
  talk_unknown hash t n hun he hh

/-- …and the same for an element of a multi-device batch (`Listener.talkSub`): an element naming a
device nobody registered is answered with `SvRegister` naming that device; no Session is touched,
whatever shares its hash. -/
theorem unknown_batch_element_gets_register (hash : ID → Nat) (t : Tbl) (n : Sub) (o : Bool)
    (hun : ∀ k s, t.get k = some s → s.id ≠ n.dev) (he : idEmpty n.dev = false)
    (hh : (n.pid == svHello) = false) :
    talkSub hash false t n o = (t, [], .ok { host := none, key := 0, reply := [registerReply n] }) := by
  unfold talkSub
  simp only [he, Bool.or_self, Bool.false_eq_true, ↓reduceIte]
  split
  · simp [hh]
  · have : (n.pid != svHello) = true := by simp [bne, hh]
    simp [this]
  · rename_i s hf
    obtain ⟨hid, hget⟩ := find_own hf
    exact absurd hid (hun _ s hget)

/-- A hello from a device whose hash slot is held by another device is refused without any
effect: the registered Session is neither replaced nor touched. -/
theorem colliding_hello_refused (hash : ID → Nat) (t : Tbl) (n : Pkt) (s : Sess)
    (hs : t.get (hash n.hd.dev) = some s) (hne : s.id ≠ n.hd.dev) (he : idEmpty n.hd.dev = false)
    (hh : (n.hd.pid == svHello) = true) :
    talk hash false t n = (t, [], .error .malformed) :=
  talk_collide_hello hash t n s hs hne he hh

/-- A registered device keeps its slot, with a Session of its own ID, through every history that
does not remove that very device: no traffic, registration attempt or removal that names another
device — colliding or not — can displace it ("never delivery to some other session"). -/
theorem registered_stays (hash : ID → Nat) (t : Tbl) (a : ID) (s : Sess) (ops : List Op)
    (hops : ∀ op ∈ ops, op.notRemove a) (hs : t.get (hash a) = some s) (hid : s.id = a) :
    ∃ s', (run hash t ops).1.get (hash a) = some s' ∧ s'.id = a :=
  run_stays ops hops hs hid

/-! ### tags -/

-- OPEN (false as stated, see `tag_collision_violates`): the statement without `TagsOK`:
--   ∀ hash t n allowed, n.tags = allowed.map hash → every tagTouch/tagOut event names a device in `allowed`

/-- **conn.resolve**: if every Session that a tag of the packet can reach is the sender's own or
belongs to a device the sender really serves (`allowed`) — i.e. no *foreign* Session shares the
32-bit value of an announced tag — then tag resolution touches and drains only Sessions of devices
in `allowed` (and every packet-driven effect is on the own Session, as above). -/
theorem tags_only_served_partial (hash : ID → Nat) (closing : Bool) (t : Tbl) (n : Pkt) (allowed : List ID)
    (hin : InnerOK n = true) (htag : TagsOK (· ∈ allowed) t n.tags n.hd.dev) :
    AllGood (· ∈ allowed) (talk hash closing t n).2.1 :=
  talk_own hash closing t n hin htag

/-- Negation on a concrete witness (known finding `tag-collision-*:conn.resolve`): A and P are
registered, A has a task queued; P announces the tag `hash B` because it proxies B (which is not
registered and whose hash equals A's); the server updates A's host/last-seen and hands A's queued
task to P's connection. -/
theorem tag_collision_violates :
    Witness.pktTagB.tags = [Witness.idB].map idHash ∧
    ¬ AllGood (· ∈ [Witness.idB]) (talk idHash false Witness.tblAP Witness.pktTagB).2.1 := by
  refine ⟨rfl, fun h => ?_⟩
  have hm : Ev.tagOut Witness.idP Witness.idA (idHash Witness.idB) ∈
      (talk idHash false Witness.tblAP Witness.pktTagB).2.1 := by decide
  have : Witness.idA ∈ [Witness.idB] := h _ hm
  exact absurd this (by decide)

/-! ### outbound packets are only handed to the connection that serves their device -/

/-- Every packet placed into the reply of `talk` names the sender, a device named by an element
of the batch, or — through tag resolution — a device in `allowed` (under the same `TagsOK`
hypothesis as above; `QOK`: what is queued on a Session names that Session, which `Session.queue`
/ `verifyPacket` guarantee and `queue_invariant` shows to be preserved). -/
theorem outbound_own_conn_partial (hash : ID → Nat) (closing : Bool) (t : Tbl) (n : Pkt) (allowed : List ID)
    (hq : QOK t) (htag : TagsOK (· ∈ allowed) t n.tags n.hd.dev) (r : Reply)
    (h : (talk hash closing t n).2.2 = .ok r) :
    ∀ l ∈ r.next, l.dev = n.hd.dev ∨ l.dev ∈ n.subs.map (·.dev) ∨ l.dev ∈ allowed :=
  talk_outbound hash closing t n allowed hq htag r h

/-- `QOK` holds after every history from the empty table. -/
theorem queue_invariant (hash : ID → Nat) (ops : List Op) (hops : ∀ op ∈ ops, op.queuesOwn = true) :
    QOK (run hash [] ops).1 :=
  run_qok hash ops hops (qok_nil)

/-! ### the proxy -/

/-- **Proxy.accept**: a packet coming down from the server is queued only for the client entry
whose ID equals the packet's device ID. -/
theorem proxy_accept_own (hash : ID → Nat) (t : Proxy.PTbl) (n : Sub) :
    Proxy.AllOwn (Proxy.accept hash t n).2.1 :=
  Proxy.accept_own hash t n

/-- … and for a device the proxy has no entry for (entries with the same hash may exist) nothing is
queued anywhere; `receive` then reports the mismatch. -/
theorem proxy_accept_unknown (hash : ID → Nat) (t : Proxy.PTbl) (n : Sub)
    (hun : ∀ k c, t.get k = some c → c.id ≠ n.dev) : Proxy.accept hash t n = (t, [], false) :=
  Proxy.accept_unknown hash t n hun

/-- `receive` on the proxy's parent Session: handled by the parent itself only when it names the
parent, otherwise by `accept` (side condition: the packet is not flagged MultiDevice — the
client-side face of the known finding `mdflag-bypass:receive`). -/
theorem proxy_receive_own_partial (hash : ID → Nat) (parent : ID) (t : Proxy.PTbl) (n : Sub)
    (hmd : hasFlag n.flags flagMultiDevice = false) :
    Proxy.AllOwn (Proxy.receiveDown hash parent t n).2.1 :=
  Proxy.receiveDown_own hash parent t n hmd

/-- **Proxy.subsRegister** (the server asked the client that runs the proxy to register again): every
proxied client's queue receives exactly one re-registration request and that request names the
client whose queue it is — for every table and whatever Job numbers are drawn. -/
theorem proxy_reregistration_own (t : Proxy.PTbl) (job : Nat → Nat) :
    Proxy.AllOwn (Proxy.subsRegister t job).2 ∧
    (Proxy.subsRegister t job).1.map (fun e => (e.1, e.2.id)) = t.map (fun e => (e.1, e.2.id)) ∧
    ∀ e ∈ (Proxy.subsRegister t job).1, ∃ e0 ∈ t, e.1 = e0.1 ∧ e.2.id = e0.2.id ∧
      e.2.q = e0.2.q ++ [{ dev := e.2.id, pid := svRegister, job := job e.1 }] :=
  ⟨Proxy.subsRegister_own t job, (Proxy.subsRegister_each t job).1, (Proxy.subsRegister_each t job).2⟩

/-- **Proxy.talk / Proxy.talkSub**: seen-marking, registration and removal requests only ever
concern the client entry of the device the packet names. -/
theorem proxy_talk_own (hash : ID → Nat) (closing : Bool) (t : Proxy.PTbl) (n : Pkt) :
    Proxy.AllOwn (Proxy.talk hash closing t n).2.1 :=
  Proxy.talk_own hash closing t n

theorem proxy_talkSub_own (hash : ID → Nat) (closing : Bool) (t : Proxy.PTbl) (n : Sub) (o : Bool) :
    Proxy.AllOwn (Proxy.talkSub hash closing t n o).2.1 :=
  Proxy.talkSub_own hash closing t n o

/-- A packet (not a hello) from a device the proxy has no entry for — entries with the same hash
may exist — is answered with SvRegister naming the sender and has no effect. -/
theorem proxy_unknown_gets_register (hash : ID → Nat) (t : Proxy.PTbl) (n : Pkt)
    (hun : ∀ k c, t.get k = some c → c.id ≠ n.hd.dev) (he : idEmpty n.hd.dev = false)
    (hh : (n.hd.pid == svHello) = false) (htags : n.tags = [])
    (hmd : hasFlag n.hd.flags flagMultiDevice = false) :
    Proxy.talk hash false t n =
      (t, [], .ok { ok := false, host := none,
                    next := [registerReply { n.hd with flags := n.hd.flags ||| flagProxy }], subs := [] }) :=
  Proxy.talk_unknown hash t n hun he hh htags hmd

/-! ### channel mode: the outbound queue of a Session follows the CURRENT tag list of a connection -/

/-- Whatever packets were read from a channel connection before: after the connection handled a
packet with tag list `tags`, a Session whose queue is redirected to this connection is named by
`tags`, is stored in the table under that tag and is not the connection's own host. (`Tracked` is the
book-keeping invariant "redirected to c ⇒ recorded in c.subs"; it holds for a fresh connection and is
kept by every packet, `chan_history_tracked`.) -/
theorem chan_redirects_only_current_tags (c : RouteChan.Conn) (tags : List Nat) (t t' : RouteChan.CTbl)
    (c' : RouteChan.Conn) (htr : RouteChan.Tracked c t) (h : RouteChan.resolve c tags t = some (t', c'))
    (k : Nat) (hk : RouteChan.chnOf t' k = some c.cid) :
    k ∈ tags ∧ ∃ v, t.get k = some v ∧ (v.id == c.host) = false :=
  (RouteChan.resolve_redirects_only_tagged c tags t t' c' htr h k hk).2

/-- A Session recorded by an earlier packet of the connection and not named by the current one is
released (its queue is its own again): no stale redirect survives a packet. -/
theorem chan_releases_stale (c : RouteChan.Conn) (tags : List Nat) (t t' : RouteChan.CTbl) (c' : RouteChan.Conn)
    (h : RouteChan.resolve c tags t = some (t', c')) (k : Nat)
    (hk : k ∈ RouteChan.keys c.subs) (hn : k ∉ RouteChan.keys c'.subs) : RouteChan.chnOf t' k = none :=
  RouteChan.resolve_releases_stale c tags t t' c' h k hk hn

/-- the invariant over a whole channel (any number of packets, any tag lists) -/
theorem chan_history_tracked (ps : List (List Nat)) (c : RouteChan.Conn) (t t' : RouteChan.CTbl) (c' : RouteChan.Conn)
    (htr : RouteChan.Tracked c t) (h : RouteChan.runConn c t ps = some (t', c')) : RouteChan.Tracked c' t' :=
  (RouteChan.runConn_tracked ps c t t' c' htr h).1

/-- in particular a packet WITHOUT tags leaves nothing redirected to the connection -/
theorem chan_empty_tags_release_all (c : RouteChan.Conn) (t t' : RouteChan.CTbl) (c' : RouteChan.Conn)
    (htr : RouteChan.Tracked c t) (h : RouteChan.resolve c [] t = some (t', c')) (k : Nat) :
    RouteChan.chnOf t' k ≠ some c.cid := by
  intro hk
  have := (chan_redirects_only_current_tags c [] t t' c' htr h k hk).1
  cases this

/-! ### non-vacuity: the hypotheses are met by non-trivial instances, the model really computes -/

-- a table with a registered device and a colliding unregistered one satisfies `unknown_gets_register`
example : (∀ k s, Witness.tblA.get k = some s → s.id ≠ (Witness.pktFromB 20).hd.dev) ∧
    Witness.tblA.get (idHash (Witness.pktFromB 20).hd.dev) ≠ none := by
  refine ⟨?_, by decide⟩
  intro k s h
  simp only [Witness.tblA, Tbl.get] at h
  split at h
  · cases h; decide
  · cases h
-- … and the answer is SvRegister for B, A's Session (and its queued task) untouched
example : talk idHash false Witness.tblA (Witness.pktFromB 20) =
    (Witness.tblA, [],
      .ok { ok := false, host := none, next := [{ dev := Witness.idB, pid := Facts.c15SvRegister, job := 0 }], subs := [] }) := by
  rfl
-- the colliding hello is refused
example : talk idHash false Witness.tblA (Witness.pktFromB Facts.c15SvHello) =
    (Witness.tblA, [], .error .malformed) := by rfl
-- Server.Session(B) = nil, Server.Session(A) = A's session
example : lookup idHash Witness.tblA Witness.idB = none ∧
    (lookup idHash Witness.tblA Witness.idA).map (·.id) = some Witness.idA := by decide
-- `InnerOK`, `Inv`, `QOK`, `TagsOK` on concrete data
example : InnerOK Witness.pktTagB = true ∧ InnerOK Witness.pktInnerMD = false := by decide
example : TagsOK (· ∈ [Witness.idA]) Witness.tblAP Witness.pktTagB.tags Witness.idP := by
  intro tag ht v hv
  simp only [Witness.pktTagB, List.mem_singleton] at ht
  subst ht
  have : Witness.tblAP.get (idHash Witness.idB) = some { id := Witness.idA, q := [{ dev := Witness.idA, pid := 200, job := 70 }] } := by
    decide
  rw [this] at hv; cases hv
  exact Or.inr (by simp)
-- a legitimate own packet is delivered to the own handler and answered with the queued task
example : (talk idHash false Witness.tblA
    { hd := { dev := Witness.idA, pid := 20, job := 5, flags := 0, empty := false, info := false }, tags := [], subs := [] }).2 =
    ([.touch Witness.idA Witness.idA, .recv Witness.idA Witness.idA 20 5],
     .ok { ok := true, host := some Witness.idA, next := [{ dev := Witness.idA, pid := 200, job := 70 }], subs := [] }) := by
  rfl

-- channel mode, concrete: host 9, Sessions under keys 5 and 6; tags [5] then []
example : (RouteChan.runConn { cid := 1, host := [9], subs := [] }
    [(5, { id := [5], chn := none }), (6, { id := [6], chn := none })] [[5]]).map (fun r => RouteChan.chnOf r.1 5) = some (some 1) := by decide
example : (RouteChan.runConn { cid := 1, host := [9], subs := [] }
    [(5, { id := [5], chn := none }), (6, { id := [6], chn := none })] [[5], []]).map (fun r => RouteChan.chnOf r.1 5) = some none := by decide

end XMT.Props.C15
