/-
  C16 — Closing always terminates cleanly on both sides, from any state, repeatedly.
  Property theorems only. The model is XMT/Close.lean (`cfgF` = the current tree, its repair flags
  regenerated from the source; `cfgO` = the tree before the `fix:` commits); the invariants and
  their preservation are in XMT/CloseInv.lean, XMT/CloseInit.lean.

  Quantification: `prog : List Kind` is ANY finite set of threads working on one Session (any number
  of concurrent Close()/close(false) calls, connection handlers carrying the peer's SvShutdown, the
  listen goroutine with ANY scripted sequence of connect / exchange outcomes, waiters, senders,
  wakers, context cancellation, the event thread, the server loop, reply pickers), `sched : List Nat`
  ANY schedule of their atomic actions (entries naming finished, blocked or non-existent threads are
  no-ops), from a fresh live Session with any receive-channel configuration and any number `q` of
  queued packets. Nothing is bounded.

  Scope notes (from an adversarial review of these statements, see DESIGN.md Appendix B.5):
  * `Listener.Close` / `Server.Close` are not modelled (`srvActive` is constant); the end-to-end
    scenarios exercise them. No thread of the model blocks on `s.wake` / `s.send`; `wait()` and a
    connect+exchange are single always-enabled actions, so a missed-wake hang is not expressible:
    liveness of the real goroutines is sampled end to end only (open statement 3).
  * "a reachable peer is told" has no positive theorem (and fails in the model when the context is
    cancelled between the last two actions of the closing listen turn); see the known finding
    `lost-shutdown:peek-overwritten` for the server side.
  * `close_returns`: a thread that died with a send on a closed channel (`panicSend`, the known
    findings) counts as finished; read "every thread has returned or died with the recorded panic".
  * the repair flags (`errShutdown`, `ackLocked`, ...) are regenerated facts; the invariants are
    proved for the configuration they denote (`cfgF`), reverting one changes `cfgF` and breaks the
    `facts_ok` obligations rather than a lemma that names the flag.
-/
import XMT.CloseQuiesce
import XMT.CloseVariant
import XMT.TeardownInit
namespace XMT.Props.C16
open XMT XMT.Close

/-- the state the current tree reaches from a fresh Session under schedule `sched` -/
abbrev reach (client : Bool) (prog : List Kind) (hr cr : Bool) (q : Nat) (sched : List Nat) : St :=
  run (cfgF client) prog.length (init (cfgF client) prog hr cr q) sched

/-! ### obligations on the regenerated facts -/

/-- What the proofs need from the source: the closing transition is the atomic test-and-set, the
flags the close path tests are never cleared, and `shutdown` sets each guard flag before it closes
the channel, sets Closed and closes `s.ch` last, all but the last under the lock. Closed by
`decide` on Generated/Facts.lean. -/
theorem facts_ok :
    Facts.c16CloseTrySet = true ∧ Facts.c16MonotoneFlags = true ∧
    Facts.c16ShutdownOrder =
      ["s.lock.Lock()", "s.state.Set(stateSendClose)", "close(s.send)", "s.state.Set(stateWakeClose)",
       "close(s.wake)", "s.state.Set(stateRecvClose)", "close(s.recv)", "s.state.Set(stateClosed)",
       "s.s.Remove(s.ID, false)", "s.m.close()", "s.lock.Unlock()", "close(s.ch)"] := by decide

/-- the other repairs the model is instantiated with are present in the source -/
theorem facts_ok2 :
    Facts.c16EventerReturns = true ∧ Facts.c16ChanWakeLocked = true ∧ Facts.c16AckLocked = true ∧
    Facts.c16ListenBreakOnShutdown = true := by decide

/-- `MigrateProfile` (c2/session.go): every error exit after `s.state.Set(stateMoving)` calls
`s.state.Unset(stateMoving)` first (count of exits that do not, regenerated from the source). A Session
left with the Moving flag ends `listen()` without its final SvShutdown and `shutdown()` returns before
`close(s.ch)`: a later Close would never return. The close machine above is about Sessions that are not
moving; this obligation is what keeps a failed migration inside it. -/
theorem migrate_error_exits_roll_back : Facts.c16MigrateExitsNoRollback = 0 := by decide

theorem reach_inv1 (client : Bool) (prog : List Kind) (hu : uniqueListen prog = true) (hr cr : Bool)
    (q : Nat) (sched : List Nat) : Inv1 (cfgF client) (reach client prog hr cr q sched) :=
  inv1_run (cfgF client) facts_ok.1 prog.length sched _ (inv1_init (cfgF client) prog hu hr cr q)

/-! ### the property, for all programs and all schedules (current tree) -/

/-- No channel of the Session is ever closed twice and no thread dies in `close` of a closed
channel: under ALL interleavings of any number of concurrent close calls, SvShutdown handlers and
the Session's own threads, each of send / wake / recv / the event queue / ch is closed at most once. -/
theorem no_double_close (client : Bool) (prog : List Kind) (hu : uniqueListen prog = true)
    (hr cr : Bool) (q : Nat) (sched : List Nat) :
    let s := reach client prog hr cr q sched
    s.sendC ≤ 1 ∧ s.wakeC ≤ 1 ∧ s.recvC ≤ 1 ∧ s.evC ≤ 1 ∧ s.chC ≤ 1 ∧
    ∀ t c, (s.loc t).out ≠ .panicClose c := by
  have h := reach_inv1 client prog hu hr cr q sched
  have le1 : ∀ {c k : Nat}, closedBy (reach client prog hr cr q sched) c k → c ≤ 1 := by
    intro c k hc
    rcases hc with hc | ⟨hc, _⟩ <;> omega
  exact ⟨le1 h.sendC, le1 h.wakeC, le1 h.recvC, le1 h.evC, le1 h.chC, h.noPanic⟩

/-- … and shutdown() is entered by at most one thread, ever. -/
theorem shutdown_entered_once (client : Bool) (prog : List Kind) (hu : uniqueListen prog = true)
    (hr cr : Bool) (q : Nat) (sched : List Nat) (t u : Nat)
    (ht : ((reach client prog hr cr q sched).loc t).sd = true)
    (hu' : ((reach client prog hr cr q sched).loc u).sd = true) : t = u :=
  (reach_inv1 client prog hu hr cr q sched).uniq t u (Or.inl ht) (Or.inl hu')



/-- well-formed program: a Session has at most one listen goroutine, a client Session has one -/
def wf (client : Bool) (prog : List Kind) : Bool :=
  uniqueListen prog && (!client || hasListen prog)

theorem reach_inv (client : Bool) (prog : List Kind) (hw : wf client prog = true) (hr cr : Bool)
    (q : Nat) (sched : List Nat) :
    Inv1 (cfgF client) (reach client prog hr cr q sched) ∧
    Inv2 (cfgF client) prog.length (reach client prog hr cr q sched) ∧
    Inv3 (cfgF client) (reach client prog hr cr q sched) := by
  simp only [wf, Bool.and_eq_true, Bool.or_eq_true, Bool.not_eq_true'] at hw
  refine inv123_run (cfgF client) facts_ok.1 facts_ok2.2.1 prog.length sched _
    (inv1_init (cfgF client) prog hw.1 hr cr q) (inv2_init (cfgF client) prog hr cr q)
    (inv3_init (cfgF client) prog ?_ hr cr q)
  intro hc
  rcases hw.2 with h | h
  · have : client = true := hc
    simp [this] at h
  · exact h

/-- Close returns, part 2 — the end of every maximal run: in ANY reachable state in which no thread
can move, if the Session is a client Session or its Closing flag is set, then every thread has
returned (every Close()/close(false) call, every SvShutdown handler, the listen goroutine, every
Wait(), the event thread; only the server loop idles at its receive, pc 92), `s.ch` is closed exactly once (Wait / Done
are released), the Closed flag is set (IsClosed), the event queue of a client is closed, the lock
is free and nobody died in a double close. Together with `closing_variant` (no infinite run):
from the moment Closing is set every schedule reaches such a state after at most `measure` steps. -/
theorem close_returns (client : Bool) (prog : List Kind) (hw : wf client prog = true) (hr cr : Bool)
    (q : Nat) (sched : List Nat) :
    let s := reach client prog hr cr q sched
    quiescent (cfgF client) prog.length s → (client = true ∨ s.closing = true) →
    (∀ t, t < prog.length → (s.loc t).pc = fin ∨ (s.loc t).pc = 92) ∧
    s.chC = 1 ∧ s.closed = true ∧ s.lock = none ∧ (client = true → s.evC = 1) ∧
    ∀ t c, (s.loc t).out ≠ .panicClose c := by
  intro s hq hc
  obtain ⟨hi, hj, hk⟩ := reach_inv client prog hw hr cr q sched
  have hd := quiescent_done (cfgF client) prog.length s hi hj hk hq hc
  refine ⟨?_, hd.2.1, hd.2.2.1, hd.2.2.2.1, hd.2.2.2.2, hi.noPanic⟩
  exact hd.1

/-- The server stops listing the session: at the end of every maximal run of a closing server-side
Session whose Server loop is running (a thread at pc 92), the id is no longer in `Server.sessions` (both Remove calls
were issued before, the loop has drained them). -/
theorem server_unlists (prog : List Kind) (hw : wf false prog = true) (hr cr : Bool) (q : Nat)
    (sched : List Nat) (d : Nat) (hdn : d < prog.length) :
    let s := reach false prog hr cr q sched
    (s.loc d).pc = 92 → quiescent (cfgF false) prog.length s → s.closing = true →
    s.listed = false ∧ s.delReq = 0 := by
  intro s h92 hq hc
  obtain ⟨hi, hj, hk⟩ := reach_inv false prog hw hr cr q sched
  refine ⟨quiescent_unlisted (cfgF false) prog.length s hi hj hk hq rfl hc d hdn h92, ?_⟩
  have := hq d hdn
  unfold enabled at this; rw [h92] at this
  simpa using this

/-- every further schedule from a closing state executes at most `measure` actions -/
theorem closing_terminates (client : Bool) (prog : List Kind) (hw : wf client prog = true)
    (hr cr : Bool) (q : Nat) (sched more : List Nat) :
    let s := reach client prog hr cr q sched
    s.closing = true → effSteps (cfgF client) prog.length s more ≤ measure prog.length s := by
  intro s hc
  simp only [wf, Bool.and_eq_true] at hw
  have hi : Inv1 (cfgF client) s := reach_inv1 client prog hw.1 hr cr q sched
  clear_value s
  induction more generalizing s with
  | nil => simp [effSteps]
  | cons t ts ih =>
    have hi' := inv1_step (cfgF client) facts_ok.1 prog.length s t hi
    have hc' := step_closing (cfgF client) prog.length s t hc
    have := ih _ hc' hi'
    simp only [effSteps]
    split
    · rename_i hh
      have e : step (cfgF client) prog.length s t = act (cfgF client) s t := by
        unfold step; simp [hh.1, hh.2]
      have hv := var_act (cfgF client) facts_ok2.1 prog.length s t hh.1 hc hh.2 (hi.contOk t)
      rw [e] at this ⊢; omega
    · have e : step (cfgF client) prog.length s t = s := by
        unfold step; rename_i hh; simp [hh]
      rw [e] at this ⊢; omega

/-- Nothing panics, PARTIAL: under the assumption that the check and the non-blocking send of
Session.queue and of Session.Wake are not separated (`fuse`), no thread ever panics — neither close
of a closed channel nor send on a closed channel — under all schedules. The assumption is needed:
`queue_send_on_closed`, `wake_send_on_closed` below. chanWake and the acknowledgement write need
no assumption (they hold the lock). -/
theorem no_panic_partial (client : Bool) (prog : List Kind) (hw : wf client prog = true)
    (hr cr : Bool) (q : Nat) (sched : List Nat) (t : Nat) :
    let cfg := { cfgF client with fuse := true }
    ((run cfg prog.length (init cfg prog hr cr q) sched).loc t).out.isPanic = false := by
  intro cfg
  simp only [wf, Bool.and_eq_true] at hw
  have h := inv12_run cfg facts_ok.1 facts_ok2.2.1 prog.length sched _
    (inv1_init cfg prog hw.1 hr cr q) (inv2_init cfg prog hr cr q)
  have a := h.1.noPanic t
  have b := h.2.noPanicS rfl t
  cases e : ((run cfg prog.length (init cfg prog hr cr q) sched).loc t).out <;> simp_all [Out.isPanic]

/-- Close returns, part 1 — the variant: once the Closing flag is set, EVERY enabled atomic action
of EVERY thread (the closers, the SvShutdown handlers, the listen goroutine whatever its connects
do, waiters, senders, the event thread, the server loop) strictly decreases `measure`; so from a
closing Session every run, under every schedule, makes at most `measure` further steps: no call
can spin or loop for ever. -/
theorem closing_variant (client : Bool) (prog : List Kind) (hu : uniqueListen prog = true)
    (hr cr : Bool) (q : Nat) (sched : List Nat) (t : Nat) (ht : t < prog.length) :
    let s := reach client prog hr cr q sched
    s.closing = true → enabled (cfgF client) prog.length s t = true →
    measure prog.length (step (cfgF client) prog.length s t) < measure prog.length s := by
  intro s hc he
  have hi := reach_inv1 client prog hu hr cr q sched
  have : step (cfgF client) prog.length s t = act (cfgF client) s t := by
    unfold step; simp [ht, he]
  rw [this]
  exact var_act (cfgF client) facts_ok2.1 prog.length s t ht hc he (hi.contOk t)

/-! ### negations: the defects, machine-checked on the model of the unrepaired code -/

set_option maxRecDepth 1000000

/-- The unrepaired check-then-set: two connection handlers that both carry the client's SvShutdown
both pass `Closing()`, both `Set(stateClosing)`, both run shutdown(); the second dies in the
unguarded `close(s.ch)`. (Replayed on the real code with the fix reverted: corpus/C16.) -/
def dcProg : List Kind := [.recvShutdown, .recvShutdown]
def dcSched : List Nat :=
  [0,0,0,0,0,0,0, 1,1,1,1,1,1,1, 0,0,0,0,0,0,0,0,0,0,0,0,0,0, 1,1,1,1,1,1,1,1,1,1]

theorem orig_double_close :
    ((run (cfgO false) 2 (init (cfgO false) dcProg false false 0) dcSched).loc 1).out = .panicClose .ch := by
  decide

/-- the three steps that matter: both threads are past the `Closing()` check before either sets the flag -/
theorem orig_both_pass_check :
    let s := run (cfgO false) 2 (init (cfgO false) dcProg false false 0) (dcSched.take 14)
    (s.loc 0).pc = 25 ∧ (s.loc 1).pc = 25 ∧ s.closing = false := by
  decide

/-- the same schedule on the current tree: the loser of the test-and-set returns -/
theorem fixed_same_schedule :
    let s := run (cfgF false) 2 (init (cfgF false) dcProg false false 0) (dcSched ++ [0, 0, 0, 0, 0, 0])
    (s.loc 0).out = .ret ∧ (s.loc 1).out = .ret ∧ s.chC = 1 := by
  decide


/-! ### negations: the recorded findings, on the model of the CURRENT tree -/

/-- OPEN: `∀ prog sched t, ((reach …).loc t).out.isPanic = false` (nothing panics) is FALSE for the
current tree: two check-then-send windows remain (known/C16.json). The witnesses: -/
def qProg : List Kind := [.send, .recvShutdown]
def qSched : List Nat := [0] ++ List.replicate 33 1 ++ [0]

/-- Session.queue: the sender passes `SendClosed()`, a handler with the client's SvShutdown runs the
whole shutdown (closes s.send), the sender sends: send on closed channel. -/
theorem queue_send_on_closed :
    ((reach false qProg false false 0 qSched).loc 0).out = .panicSend .send := by decide

def wProg : List Kind := [.listen [], .close true]
def wSched : List Nat := [1, 1, 1, 1] ++ List.replicate 25 0 ++ [1]

/-- Session.Wake in a client's Close(): the caller passes `WakeClosed()`, the listen goroutine
completes the handshake and shutdown (closes s.wake), the caller sends: send on closed channel. -/
theorem wake_send_on_closed :
    ((reach true wProg false false 0 wSched).loc 1).out = .panicSend .wake := by decide

/-- OPEN: "a server-side Close() that returned leaves the SvShutdown packet pending until it is
sent" is FALSE: the connection handler's `n, s.peek = nextPacket(…)` overwrites it. After this
schedule Close() has returned, nothing was sent, nothing is pending and the Session is not closing. -/
theorem server_close_request_lost :
    let s := reach false [.serve, .close true] false false 2 [0, 0, 1, 1, 1, 1, 1, 0]
    (s.loc 1).out = .ret ∧ (s.loc 0).out = .ret ∧ s.peek = false ∧ s.told = 0 ∧ s.closing = false := by
  decide

/-! ### non-vacuity -/

example : uniqueListen dcProg = true := by decide
example : uniqueListen [.listen [true, false], .close true, .close true, .evLoop, .cancel, .waitCh] = true := by decide
example : uniqueListen [.listen [], .listen []] = false := by decide

/-- the hypotheses of `close_returns` / `server_unlists` are satisfiable: a server-side Session with
two SvShutdown handlers, an operator Close(), a waiter and the server loop, run to the end -/
def nvProg : List Kind := [.recvShutdown, .recvShutdown, .close true, .waitCh, .srvLoop]
def nvSched : List Nat := (List.replicate 30 [0, 1, 2, 3, 4]).flatten

example : wf false nvProg = true := by decide
example : (reach false nvProg true false 3 nvSched).closing = true := by decide
example : quiescent (cfgF false) nvProg.length (reach false nvProg true false 3 nvSched) := by
  intro t ht
  have : t = 0 ∨ t = 1 ∨ t = 2 ∨ t = 3 ∨ t = 4 := by simp [nvProg] at ht; omega
  rcases this with rfl | rfl | rfl | rfl | rfl <;> decide
example : ((reach false nvProg true false 3 nvSched).loc 4).pc = 92 := by decide

/-- … and a client Session: Close() twice, context cancellation with the event thread, a waiter -/
def nvProgC : List Kind := [.listen [true, true], .close true, .close true, .evLoop, .cancel, .waitCh]
def nvSchedC : List Nat := (List.replicate 40 [1, 0, 2, 4, 3, 5]).flatten

example : wf true nvProgC = true := by decide
example : quiescent (cfgF true) nvProgC.length (reach true nvProgC false false 2 nvSchedC) := by
  intro t ht
  have : t = 0 ∨ t = 1 ∨ t = 2 ∨ t = 3 ∨ t = 4 ∨ t = 5 := by simp [nvProgC] at ht; omega
  rcases this with rfl | rfl | rfl | rfl | rfl | rfl <;> decide
example : (reach true nvProgC false false 2 nvSchedC).told = 1 := by decide

/-! ## Server / Listener teardown (extension) — model XMT/Teardown.lean

  Threads: the Server loop from its first statement (`go s.listen()`), any number of `Server.Close()`
  callers, cancellation of the parent context, the `listen` goroutine and any number of `Close()` callers
  of every Listener, `Server.Remove(id, false)` callers (Sessions shutting down), connection handlers
  registering new Sessions; channels with their real capacities (a full channel blocks, a closed one
  panics). A schedule entry is `t + 1000 * arm` (arm = the case Go's `select` / `range` chose).
  `prog`, `sched`, the number of Listeners `nl` and Sessions `ns` are arbitrary. -/

/-- the state the current tree reaches from a fresh Server (run word 0, loop not yet started) with `nl`
Listeners in `s.active` and `ns` registered Sessions -/
abbrev treach (nl ns : Nat) (prog : List Teardown.Kind) (sched : List Nat) : Teardown.St :=
  Teardown.run (Teardown.cfgF nl) prog.length (Teardown.init (Teardown.cfgF nl) ns prog) sched

/-- What the teardown proofs need from the source (closed by `decide` on Generated/Facts.lean): the loop
claims the run word with CompareAndSwap(0,1); the channel capacities; the statement order of
Server.shutdown, Server.Close, Server.Remove(…, false), Listener.Close and of the exit sequence of
Listener.listen is the order of the model's pcs 110‥119, 120‥122, 150‥151, 140‥144, 134‥139. -/
theorem td_facts_ok :
    Facts.c16SrvLoopCAS = true ∧ Facts.c16DelListenerCap = 16 ∧ Facts.c16DelSessionCap = 64 ∧
    Facts.c16SrvShutdownOrder =
      ["s.cancel()", "v.Close()", "v.Close()", "delete(s.active, <-s.delListener)", "<-s.delListener",
       "s.active = nil", "atomic.SwapUint32(&s.run, 2)", "close(s.new)", "close(s.delListener)",
       "close(s.delSession)", "close(s.events)", "close(s.ch)"] ∧
    Facts.c16SrvCloseOrder = ["s.cancel()", "atomic.LoadUint32(&s.run)", "s.shutdown()", "<-s.ch"] ∧
    Facts.c16SrvRemoveOrder = ["s.IsActive()", "s.delSession <- i"] ∧
    Facts.c16LsnCloseOrder =
      ["l.state.Closed()", "l.state.Set(stateClosing)", "l.cancel()", "l.state.Replacing()",
       "l.listener.Close()", "<-l.ch"] ∧
    Facts.c16LsnExitOrder =
      ["l.cancel()", "l.state.WakeClosed()", "l.state.Set(stateWakeClose)", "l.listener.Close()",
       "l.s.delListener <- l.name", "l.state.Set(stateClosed)", "close(l.ch)"] := by decide

theorem td_reach_inv (nl ns : Nat) (prog : List Teardown.Kind) (hu : Teardown.uniqueLL prog = true)
    (sched : List Nat) : Teardown.Inv (Teardown.cfgF nl) (treach nl ns prog sched) :=
  Teardown.inv_run (Teardown.cfgF nl) td_facts_ok.1 prog.length sched _
    (Teardown.inv_init (Teardown.cfgF nl) ns prog hu)

/-- Server / Listener teardown, no double close: under ALL interleavings (and all choices of `select`
and of the map iteration) of the Server loop, any number of Server.Close() callers, context cancellation,
the Listener goroutines, any number of Listener.Close() callers, Server.Remove callers and registering
handlers, each of `s.new`, `s.delListener`, `s.delSession`, `s.events`, `s.ch` and every `l.ch` is closed
at most once and no thread dies in a close of a closed channel. -/
theorem td_no_double_close (nl ns : Nat) (prog : List Teardown.Kind)
    (hu : Teardown.uniqueLL prog = true) (sched : List Nat) :
    let s := treach nl ns prog sched
    s.newC ≤ 1 ∧ s.dlC ≤ 1 ∧ s.dsC ≤ 1 ∧ s.evC ≤ 1 ∧ s.chC ≤ 1 ∧ (∀ j, s.lchC j ≤ 1) ∧
    ∀ t c, (s.loc t).out ≠ .panicClose c := by
  have h := td_reach_inv nl ns prog hu sched
  have le1 : ∀ {c k : Nat}, Teardown.closedBy (treach nl ns prog sched) c k → c ≤ 1 := by
    intro c k hc
    rcases hc with hc | ⟨hc, _⟩ <;> omega
  refine ⟨le1 h.newC, le1 h.dlC, le1 h.dsC, le1 h.evC, le1 h.chC, ?_, h.noPanic⟩
  intro j
  rcases h.lch j with hj | ⟨hj, _⟩ <;> omega

/-- … because at most one thread ever passes the `SwapUint32(&s.run, 2) == 2` guard of Server.shutdown,
and once one has, the run word stays 2: a loop goroutine scheduled late cannot restart a finished Server. -/
theorem td_shutdown_winner_unique (nl ns : Nat) (prog : List Teardown.Kind)
    (hu : Teardown.uniqueLL prog = true) (sched : List Nat) (t u : Nat)
    (ht : ((treach nl ns prog sched).loc t).won = true)
    (hv : ((treach nl ns prog sched).loc u).won = true) :
    t = u ∧ (treach nl ns prog sched).run = 2 :=
  ⟨(td_reach_inv nl ns prog hu sched).uniq t u ht hv, (td_reach_inv nl ns prog hu sched).wonRun t ht⟩

/-! ### negations (teardown): the repaired defect on the model of the unrepaired code, the recorded
findings on the model of the current tree; all replayed on the real code (corpus of c16_s3.go) -/

/-- Server.listen with `SwapUint32(&s.run, 1)` (before the `fix:` commit): two Close() callers of a Server
whose loop has not started both read run == 0 and enter shutdown(); the first completes it; the loop
goroutine, scheduled only now, resets the run word 2 → 1 and returns; the second caller passes the swap
guard and closes `s.new` again: close of closed channel. -/
def tdLateProg : List Teardown.Kind := [.sclose, .sclose, .loop]
def tdLateSched : List Nat := [0, 0, 1, 1, 0, 0, 0, 0, 0, 0, 0, 0, 0, 0, 2, 1, 1, 1, 1, 1, 1]

theorem td_orig_late_start_double_close :
    let cfg := { Teardown.cfgF 0 with loopCAS := false }
    ((Teardown.run cfg 3 (Teardown.init cfg 0 tdLateProg) tdLateSched).loc 1).out = .panicClose .new := by
  decide

/-- the same schedule on the current tree: the late loop returns without touching the run word, the second
caller returns at the guard, Close() returns for both -/
theorem td_fixed_late_start :
    let s := treach 0 0 tdLateProg (tdLateSched ++ [0])
    (s.loc 0).out = .ret ∧ (s.loc 1).out = .ret ∧ (s.loc 2).out = .ret ∧ s.chC = 1 ∧ s.run = 2 := by
  decide

/-- OPEN: `∀ … t, ((treach …).loc t).out.isPanic = false` (nothing panics during a teardown) is FALSE for
the current tree: Server.Remove(id, false) tests IsActive() and then sends on `s.delSession`; the Server
shuts down in between and closes the channel (known/C16.json, panic:teardown:send-on-closed:delSession). -/
theorem td_remove_send_on_closed :
    ((treach 0 1 [.remove 0, .loop, .sclose] [1, 0, 2, 2, 1, 1, 1, 1, 1, 1, 1, 1, 1, 1, 0]).loc 0).out
      = .panicSend .delSession := by
  decide

/-- OPEN (same statement): on the CURRENT tree a Server.Close() caller that read run == 0 runs shutdown()
itself while the loop goroutine of the first Listen starts (its claim of the run word succeeds: it is still
0); the caller closes the channels; the loop's `select` may then take `case l := <-s.new` on the closed
channel and dereference the nil Listener (`l.name`): the process dies (known/C16.json,
panic:teardown:other:loop). Go chooses among the ready cases at random: the context arm ends the loop
cleanly, this arm does not. -/
theorem td_close_races_loop_start_nil_deref :
    let s := treach 0 0 [.sclose, .loop] [0, 0, 1, 0, 0, 0, 0, 0, 0, 0, 0, 0, 0, 3001]
    (s.loc 1).out = .panicNil ∧ s.newC = 1 ∧ s.run = 2 := by
  decide

/-- 17 Listeners: P, A0‥A16, Z -/
def tdManyProg (n : Nat) : List Teardown.Kind :=
  [.loop] ++ (List.range n).map .llisten ++ [.sclose]
/-- Close() cancels; every Listener goroutine runs its exit sequence (the 17th blocks in
`l.s.delListener <- l.name`: 16 names are buffered); the loop enters shutdown and calls Close() on that
Listener first -/
def tdManySched (n : Nat) : List Nat :=
  [n + 1] ++ ((List.range n).map fun j => List.replicate 7 (1 + j)).flatten ++ [0, 0, 0, 1000 * n, 0, 0, 0, 0, 0, n + 1]

/-- OPEN: "every Server.Close() call returns" is FALSE for a Server with more Listeners than
cap(s.delListener) = 16: Server.shutdown closes the Listeners one after the other and only afterwards
receives from `s.delListener`; the 17th Listener goroutine blocks in its send, its `l.ch` is never
closed, shutdown waits for it in Listener.Close: no thread can move, Close() has not returned
(known/C16.json, hang:teardown:*). -/
theorem td_many_listeners_deadlock :
    let s := treach 17 0 (tdManyProg 17) (tdManySched 17)
    (List.range 19).all (fun t => !Teardown.enabled (Teardown.cfgF 17) s t) = true ∧
    (s.loc 0).pc = 144 ∧ (s.loc 17).pc = 137 ∧ (s.loc 18).pc = 122 ∧ s.ctxDone = true ∧ s.chC = 0 := by
  decide

/-! ### non-vacuity (teardown) -/

example : Teardown.uniqueLL (tdManyProg 17) = true := by decide
example : Teardown.uniqueLL [.loop, .llisten 0, .llisten 1, .lclose 1, .lclose 1, .sclose, .sclose, .cancel,
    .remove 0, .register 1 2] = true := by decide
example : Teardown.uniqueLL [.llisten 0, .llisten 0] = false := by decide

/-- with 16 Listeners the same teardown runs to its end: every Listener closed, all five Server channels
closed once, both the loop and Close() have returned -/
def tdFullSched (n : Nat) : List Nat :=
  [n + 1] ++ ((List.range n).map fun j => List.replicate 7 (1 + j)).flatten ++ [0, 0, 0, 1000 * n] ++
  ((List.range n).map fun k => [0, 1000 * (n - 1 - k)]).flatten ++ [0] ++ List.replicate n 0 ++
  [0, 0, 0, 0, 0, 0, 0, n + 1, n + 1]

example :
    let s := treach 16 0 (tdManyProg 16) (tdFullSched 16)
    (List.range 18).all (fun t => (s.loc t).out == .ret) = true ∧ s.chC = 1 ∧ s.dlC = 1 ∧ s.run = 2 ∧
    (List.range 16).all (fun j => s.lchC j == 1 && s.lClosed j) = true := by
  decide


end XMT.Props.C16
