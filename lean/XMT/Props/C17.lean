/-
  C17 — Profile groups rotate as the selector promises and yield only their own entries.
  Property theorems only; the model is XMT/Group.lean, lemmas live in XMT/GroupLemmas.lean.

  Reading guide.  `Group.WF g` = the entries are distinct allocations (pairwise distinct `ptr`) and
  the cursor, if set, is one of them.  `run g ops` executes a call history (each op with the PRNG
  words available to it: the theorems hold for every word sequence).  `rotStep g k` is the
  round-robin step from position `k` (next entry in order, wrapping; reports a change unless there
  is a single entry); `pick g ds` is the random pick with the next PRNG word.

  Scope notes (from an adversarial review of these statements, see DESIGN.md Appendix B.5):
  * `listen_reports_failures` is about the client loop's bookkeeping (`sw`): the model of the loop
    has no Profile field; a Profile whose `Switch` reports a change (several groups) is covered by the
    Group theorems above and by the differential run of the real loop with real multi-group profiles,
    not by one closed theorem. Read it as partial in that sense.
-/
import XMT.GroupLemmas
import XMT.ClientLoopSwitch
import XMT.HostBox
import XMT.GroupLoopLemmas
namespace XMT.Props.C17
open XMT XMT.Group

/-- Obligations on the regenerated facts: the six selector ids are pairwise distinct, non-zero bytes
(`Build` recognises a configured selector by `s > 0`), and the semi selectors draw from a non-empty
range. -/
theorem facts_ok :
    [selLastValid, selRoundRobin, selRandom, selSemiRoundRobin, selSemiRandom, selSemiLastValid].Nodup ∧
    (∀ s ∈ [selLastValid, selRoundRobin, selRandom, selSemiRoundRobin, selSemiRandom, selSemiLastValid],
      0 < s ∧ s < 256) ∧ 0 < semiN ∧ Plain selRoundRobin ∧ Plain 0 := by
  decide

/-! ### The active entry is always one of the configured groups; nothing panics -/

/-- For every well-formed group and every call history (Switch(failed / not failed), Next, all
accessors, any PRNG words): no panic, entries and selector are never changed, the cursor stays one
of the entries, and after the first call it is set. -/
theorem cur_valid (g : Group) (hwf : g.WF) (ops : List (Op × List Nat)) :
    ∃ g' os, run g ops = .ok (g', os) ∧ g'.entries = g.entries ∧ g'.sel = g.sel ∧ g'.WF ∧
      os.length = ops.length ∧ (ops ≠ [] → g.entries ≠ [] → ∃ c ∈ g.entries, g'.cur = some c) :=
  run_spec g ops hwf

/-! ### Build: entries are the configured groups ordered by descending weight -/

/-- The tail of `Config.Build` on two or more built groups: fresh cursor, entries are a permutation
of the configured groups in descending weight order, the selector is `globalSel`. -/
theorem build_sorted (es : List (Entry × Nat)) (g : Group) (h : buildTail es = .group g) :
    2 ≤ es.length ∧ g.cur = none ∧ g.entries.Pairwise (fun a b => a.weight ≥ b.weight) ∧
    g.entries.Perm (es.map (·.1)) ∧ g.sel = globalSel (es.map (·.2)) := by
  match es, h with
  | a :: b :: rest, h =>
    simp only [buildTail, Profile.group.injEq] at h
    subst h
    exact ⟨by simp, rfl, sortDesc_sorted _, sortDesc_perm _, rfl⟩

/-- distinct allocations in, well-formed group out -/
theorem build_wf (es : List (Entry × Nat)) (g : Group) (h : buildTail es = .group g)
    (hnd : (es.map (·.1.ptr)).Nodup) : g.WF := by
  obtain ⟨_, hc, _, hp, _⟩ := build_sorted es g h
  refine ⟨?_, fun c hcc => by rw [hc] at hcc; cases hcc⟩
  have := (hp.map (·.ptr)).nodup_iff
  rw [this]
  have he : es.map (·.1.ptr) = (es.map (·.1)).map (·.ptr) := by simp [List.map_map, Function.comp_def]
  rw [← he]; exact hnd

/-- the selector byte `Build` keeps is the last one configured in any group -/
theorem build_selector_last (pre post : List Nat) (s : Nat) (hs : 0 < s) (hb : s < 256)
    (hpost : ∀ x ∈ post, x = 0) : globalSel (pre ++ s :: post) = s :=
  globalSel_last pre post s hs hb hpost

/-- the weight clamp keeps the order of weights up to the cap and never exceeds it -/
theorem clampWeight_le (b : Nat) : clampWeight b ≤ Facts.c17WeightCap ∧ (b ≤ Facts.c17WeightCap → clampWeight b = b) := by
  unfold clampWeight
  constructor
  · split <;> omega
  · intro h; split <;> omega

/-! ### What is handed out belongs to the active entry -/

/-- After any history `ops` on a well-formed group with entries, every accessor (Next, Sleep,
Jitter, KillDate, WorkHours, TrustedKey, Connect/Listen) returns the value of one entry `c` of the
configured groups which is the active one afterwards — `Own c op o`: Next yields one of `c`'s own
hosts together with `c`'s own wrapper and transform — and an accessor never moves a set cursor. -/
theorem accessor_own (g : Group) (hwf : g.WF) (hne : g.entries ≠ []) (ops : List (Op × List Nat))
    (op : Op) (hop : op.isSwitch = false) (ds : List Nat) :
    ∃ g1 os g2 o ds', run g ops = .ok (g1, os) ∧ step g1 op ds = .ok (g2, o, ds') ∧
      (∃ c ∈ g.entries, g2.cur = some c ∧ Own c op o) ∧ (∀ c, g1.cur = some c → g2 = g1) := by
  obtain ⟨g1, os, hr, he, _, hwf1, _, _⟩ := run_spec g ops hwf
  obtain ⟨g2, o, ds', hs, _, _, _, hsame, hown⟩ := step_acc_spec g1 op ds hwf1 hop
  refine ⟨g1, os, g2, o, ds', hr, hs, ?_, hsame⟩
  obtain ⟨c, hm, hc, ho⟩ := hown (by rw [he]; exact hne)
  exact ⟨c, by rw [← he]; exact hm, hc, ho⟩

/-- `Next` spelled out: host from the active entry's own list (or the empty string when it has
none), with that entry's own wrapper and transform. -/
theorem next_own (g : Group) (hwf : g.WF) (hne : g.entries ≠ []) (ds : List Nat) :
    ∃ g' h w t ds' c, step g .next ds = .ok (g', .next h w t, ds') ∧ c ∈ g.entries ∧ g'.cur = some c ∧
      w = c.w ∧ t = c.t ∧ (h ∈ c.hosts ∨ (c.hosts = [] ∧ h = [])) := by
  obtain ⟨g', o, ds', hs, _, _, _, _, hown⟩ := step_acc_spec g .next ds hwf rfl
  obtain ⟨c, hm, hc, ho⟩ := hown hne
  cases o with
  | next h w t => exact ⟨g', h, w, t, ds', c, hs, hm, hc, ho.1, ho.2.1, ho.2.2⟩
  | _ => exact absurd ho (by simp [Own])


/-- Headline composition: build any two or more configured groups (distinct allocations, any weights,
any hosts, any selector bytes), run any call history, then call any accessor: nothing panics and
what is handed out is the own value of one of the *configured* groups, which is the active entry. -/
theorem built_group_hands_out_own (es : List (Entry × Nat)) (hnd : (es.map (·.1.ptr)).Nodup)
    (g : Group) (h : buildTail es = .group g) (ops : List (Op × List Nat)) (op : Op)
    (hop : op.isSwitch = false) (ds : List Nat) :
    ∃ g1 os g2 o ds', run g ops = .ok (g1, os) ∧ step g1 op ds = .ok (g2, o, ds') ∧
      ∃ p ∈ es.map (·.1), g2.cur = some p ∧ Own p op o := by
  have hwf := build_wf es g h hnd
  obtain ⟨hlen, _, _, hperm, _⟩ := build_sorted es g h
  have hne : g.entries ≠ [] := by
    intro hnil
    have := hperm.length_eq
    rw [hnil] at this
    simp at this
    omega
  obtain ⟨g1, os, g2, o, ds', hr, hs, ⟨c, hm, hc, ho⟩, _⟩ := accessor_own g hwf hne ops op hop ds
  exact ⟨g1, os, g2, o, ds', hr, hs, c, hperm.mem_iff.mp hm, hc, ho⟩

/-! ### Switch reports a change iff the cursor changed -/

theorem switch_reports_change (g : Group) (hwf : g.WF) (e : Bool) (ds : List Nat) :
    ∃ g' b ds', switch g e ds = .ok (g', b, ds') ∧ (b = true ↔ g'.curPtr ≠ g.curPtr) ∧
      (b = false → g' = g) := by
  obtain ⟨g', b, ds', hs, _, _, _, hb, hf, _, _⟩ := switch_spec g e ds hwf
  exact ⟨g', b, ds', hs, hb, hf⟩

/-! ### last-valid -/

/-- last-valid, cursor set: `Switch(false)` changes nothing (and draws nothing); `Switch(true)` does
the round-robin step. -/
theorem lastValid_step (g : Group) (hwf : g.WF) (hs : g.sel = selLastValid) (k : Nat) (c : Entry)
    (hk : g.entries[k]? = some c) (hc : g.cur = some c) (e : Bool) (ds : List Nat) :
    switch g e ds = if e then .ok ((rotStep g k).1, (rotStep g k).2, ds) else .ok (g, false, ds) := by
  have hg := guards_lastValid g e ds c hc hs
  have hnr : (g.sel == selRandom || g.sel == selSemiRandom) = false := by rw [hs]; decide
  cases e with
  | false => simpa using switch_stop g false ds ds k c hk (by simpa using hg)
  | true => simpa using switch_rot g true ds ds k c hwf.1 hk hc hnr (by simpa using hg)

/-- last-valid changes the active group only after a reported failure: over any history that
contains no `Switch(true)`, the group (cursor included) is exactly what it was. -/
theorem lastValid_sticks (g : Group) (hwf : g.WF) (hs : g.sel = selLastValid) (c : Entry)
    (hc : g.cur = some c) (ops : List (Op × List Nat)) (hno : ∀ od ∈ ops, od.1 ≠ .switch true) :
    ∃ os, run g ops = .ok (g, os) :=
  lastValid_run g c hwf hs hc ops hno

/-! ### round-robin -/

/-- round-robin, one call: from position `k` to position `(k+1) mod n`, whatever `failed` says and
without consuming PRNG words. (`Plain` = round-robin or any value that is none of the other five
selector ids.) -/
theorem roundRobin_step (g : Group) (hwf : g.WF) (hp : Plain g.sel) (k : Nat) (c : Entry)
    (hk : g.entries[k]? = some c) (hc : g.cur = some c) (e : Bool) (ds : List Nat) :
    switch g e ds = .ok ((rotStep g k).1, (rotStep g k).2, ds) :=
  plain_step g hwf hp k c hk hc e ds

/-- round-robin over a history: starting at position `k`, after a history with `m` Switch calls
(interleaved with any accessor calls, any flags, any PRNG words) the cursor is at position
`(k + m) mod n`; nothing else changed. -/
theorem roundRobin_cycle (g : Group) (hwf : g.WF) (hp : Plain g.sel) (k : Nat) (c : Entry)
    (hk : g.entries[k]? = some c) (hc : g.cur = some c) (ops : List (Op × List Nat)) :
    ∃ os, run g ops = .ok ({ g with cur := g.entries[(k + countSw ops) % g.entries.length]? }, os) :=
  plain_run ops g hwf hp k c hk hc

/-- from a freshly built group: the first call of any kind activates entry 0 (the highest weight),
then every Switch call advances by one: after `first :: rest` the cursor is at
`(number of Switch calls in rest) mod n`. -/
theorem roundRobin_from_start (g : Group) (hwf : g.WF) (hp : Plain g.sel) (hc : g.cur = none)
    (hne : g.entries ≠ []) (first : Op × List Nat) (rest : List (Op × List Nat)) :
    ∃ os, run g (first :: rest) =
      .ok ({ g with cur := g.entries[countSw rest % g.entries.length]? }, os) := by
  obtain ⟨op, ds⟩ := first
  have hnr := not_random_of g hp.2.2.2.2 hp.2.2.1
  obtain ⟨o, ds', hs⟩ := step_first g op ds hc hne hnr
  obtain ⟨e0, tl, hent⟩ := List.exists_cons_of_ne_nil hne
  let g1 : Group := { g with cur := g.entries[0]? }
  have hg1c : g1.cur = some e0 := by show g.entries[0]? = some e0; rw [hent]; rfl
  have hg1k : g1.entries[0]? = some e0 := by show g.entries[0]? = some e0; rw [hent]; rfl
  have hwf1 : g1.WF := WF_of_cur g g1 hwf rfl ⟨e0, by rw [hent]; simp, hg1c⟩
  obtain ⟨os, hr⟩ := plain_run rest g1 hwf1 hp 0 e0 hg1k hg1c
  refine ⟨o :: os, ?_⟩
  simp only [run, hs]
  rw [hr]
  simp only [Nat.zero_add]
  rfl

/-- round-robin visits every group in order before repeating: the positions reached by 0 … n-1
further Switch calls are pairwise distinct (hence, the entries being distinct, all n groups), and
every position is reached within n-1 calls. -/
theorem roundRobin_visits_all (n k : Nat) (hk : k < n) :
    (∀ i j, i < n → j < n → (k + i) % n = (k + j) % n → i = j) ∧
    (∀ j, j < n → ∃ m, m < n ∧ (k + m) % n = j) := by
  constructor
  · intro i j hi hj h
    rcases Nat.lt_or_ge (k + i) n with h1 | h1 <;> rcases Nat.lt_or_ge (k + j) n with h2 | h2
    · rw [Nat.mod_eq_of_lt h1, Nat.mod_eq_of_lt h2] at h; omega
    · rw [Nat.mod_eq_of_lt h1, Nat.mod_eq_sub_mod h2, Nat.mod_eq_of_lt (by omega)] at h; omega
    · rw [Nat.mod_eq_sub_mod h1, Nat.mod_eq_of_lt (by omega), Nat.mod_eq_of_lt h2] at h; omega
    · rw [Nat.mod_eq_sub_mod h1, Nat.mod_eq_of_lt (by omega), Nat.mod_eq_sub_mod h2,
        Nat.mod_eq_of_lt (by omega)] at h; omega
  · intro j hj
    rcases Nat.lt_or_ge j k with h | h
    · refine ⟨n - k + j, by omega, ?_⟩
      have : k + (n - k + j) = j + n := by omega
      rw [this, Nat.add_mod_right, Nat.mod_eq_of_lt hj]
    · exact ⟨j - k, by omega, by rw [show k + (j - k) = j by omega, Nat.mod_eq_of_lt hj]⟩

/-! ### the semi selectors either stay or do what their base selector does -/

/-- semi-round-robin, cursor set: one PRNG word `r` is drawn; the call stays (returns false,
nothing changes) iff `FastRandN(4)` of that word is non-zero, otherwise it is exactly the
round-robin step (`roundRobin_step`). -/
theorem semiRoundRobin_refines (g : Group) (hwf : g.WF) (hs : g.sel = selSemiRoundRobin) (k : Nat)
    (c : Entry) (hk : g.entries[k]? = some c) (hc : g.cur = some c) (e : Bool) (ds : List Nat) :
    switch g e ds = if fastRandN (pop ds).1 semiN != 0 then .ok (g, false, (pop ds).2)
                    else .ok ((rotStep g k).1, (rotStep g k).2, (pop ds).2) := by
  have hg := guards_semi g e ds c hc (Or.inl hs)
  have hnr : (g.sel == selRandom || g.sel == selSemiRandom) = false := by rw [hs]; decide
  cases hb : (fastRandN (pop ds).1 semiN != 0) with
  | true => rw [hb] at hg; simpa using switch_stop g e ds _ k c hk hg
  | false => rw [hb] at hg; simpa using switch_rot g e ds _ k c hwf.1 hk hc hnr hg

/-- semi-last-valid, cursor set: after a reported failure it does what last-valid does (the
round-robin step, no PRNG word); otherwise it draws one word and either stays or does that step. -/
theorem semiLastValid_refines (g : Group) (hwf : g.WF) (hs : g.sel = selSemiLastValid) (k : Nat)
    (c : Entry) (hk : g.entries[k]? = some c) (hc : g.cur = some c) (e : Bool) (ds : List Nat) :
    switch g e ds =
      if e then .ok ((rotStep g k).1, (rotStep g k).2, ds)
      else if fastRandN (pop ds).1 semiN != 0 then .ok (g, false, (pop ds).2)
      else .ok ((rotStep g k).1, (rotStep g k).2, (pop ds).2) := by
  have hg := guards_semiLastValid g e ds c hc hs
  have hnr : (g.sel == selRandom || g.sel == selSemiRandom) = false := by rw [hs]; decide
  cases e with
  | true => simpa using switch_rot g true ds ds k c hwf.1 hk hc hnr (by simpa using hg)
  | false =>
    simp only [Bool.false_eq_true, if_false] at hg ⊢
    cases hb : (fastRandN (pop ds).1 semiN != 0) with
    | true => rw [hb] at hg; simpa using switch_stop g false ds _ k c hk hg
    | false => rw [hb] at hg; simpa using switch_rot g false ds _ k c hwf.1 hk hc hnr hg

/-- random: every call is the random pick, and the pick is one of the entries; true is reported
iff it differs from the active one. -/
theorem random_picks_entry (g : Group) (hs : g.sel = selRandom) (hne : g.entries ≠ []) (e : Bool)
    (ds : List Nat) :
    switch g e ds = pick g ds ∧
    ∃ n ∈ g.entries, pick g ds =
      .ok (if ptrEq n g.cur then g else { g with cur := some n }, !ptrEq n g.cur, (pop ds).2) := by
  refine ⟨?_, pick_spec g ds hne⟩
  have hl : (g.entries.length == 0) = false := by
    cases h : g.entries with
    | nil => exact absurd h hne
    | cons a b => simp
  have hg : guards g e ds = (false, ds) :=
    guards_plain g e ds (by rw [hs]; decide) (by rw [hs]; decide) (by rw [hs]; decide) (by rw [hs]; decide)
  unfold switch
  simp only [hl, hg]
  exact select_random g ds (Or.inl hs)

/-- semi-random, cursor set: one word decides between staying and the random pick (drawn with the
following word) — the same `pick` the random selector performs. -/
theorem semiRandom_refines (g : Group) (hs : g.sel = selSemiRandom) (k : Nat) (c : Entry)
    (hk : g.entries[k]? = some c) (hc : g.cur = some c) (e : Bool) (ds : List Nat) :
    switch g e ds = if fastRandN (pop ds).1 semiN != 0 then .ok (g, false, (pop ds).2)
                    else pick g (pop ds).2 := by
  have hg := guards_semi g e ds c hc (Or.inr hs)
  cases hb : (fastRandN (pop ds).1 semiN != 0) with
  | true => rw [hb] at hg; simpa using switch_stop g e ds _ k c hk hg
  | false =>
    rw [hb] at hg
    unfold switch
    simp only [length_ne_zero g k c hk, hg]
    simpa using select_random g _ (Or.inr hs)


/-- the "25 % chance" of the semi selectors, exactly: with the regenerated literal (4), the stay/go
draw lets the call through iff the raw 32-bit PRNG word is below 2^30 (a quarter of the range). -/
theorem semi_chance (r : Nat) : fastRandN r semiN = 0 ↔ r % 2^32 < 2^30 := by
  have : semiN = 4 := by decide
  rw [this]
  unfold fastRandN
  rw [Nat.shiftRight_eq_div_pow]
  omega

/-- first use (cursor not yet set): no selector draws its stay/go word; the non-random selectors
activate entry 0, the random ones do the random pick. -/
theorem first_use (g : Group) (hc : g.cur = none) (hne : g.entries ≠ []) (e : Bool) (ds : List Nat) :
    ((g.sel == selRandom || g.sel == selSemiRandom) = false →
        switch g e ds = .ok ({ g with cur := g.entries[0]? }, true, ds)) ∧
    (g.sel = selRandom ∨ g.sel = selSemiRandom → switch g e ds = pick g ds) :=
  ⟨switch_first g e ds hc hne, switch_first_random g e ds hc hne⟩

/-! ### Non-vacuity: a concrete three-group profile meets every hypothesis and the model computes -/

def exE (p w : Nat) : Entry :=
  { ptr := p, weight := clampWeight w, hosts := [[p.toUInt8], [0x41]], w := 10 + p, t := 20 + p, sleep := 1000 + p,
    jitter := p, kill := 0, kds := false, work := 0, keys := [], conn := 2 }

def exG (sel : Nat) : Group :=
  match buildTail [(exE 0 5, 0), (exE 1 200, sel), (exE 2 50, 0)] with
  | .group g => g
  | _ => { cur := none, entries := [], sel := 0 }

example : buildTail [(exE 0 5, 0), (exE 1 200, selRoundRobin), (exE 2 50, 0)] = .group (exG selRoundRobin) := by
  decide
example : (exG selRoundRobin).WF ∧ (exG selRoundRobin).entries.map (·.ptr) = [1, 2, 0] ∧
    (exG selRoundRobin).entries.map (·.weight) = [100, 50, 5] ∧ Plain (exG selRoundRobin).sel := by
  refine ⟨⟨by decide, fun c h => by cases h⟩, by decide, by decide, by decide⟩
/-- round-robin really cycles 1 → 2 → 0 → 1 (ptrs), Next hands out the active entry's wrapper -/
example : (match run (exG selRoundRobin) [(.next, []), (.switch false, []), (.switch true, []), (.switch false, []), (.next, [0])] with
    | .ok (g, os) => (g.cur.map (·.ptr), os)
    | .panic _ => (none, [])) =
    (some 1, [.next [1] 11 21, .switched true, .switched true, .switched true, .next [1] 11 21]) := by
  decide
/-- last-valid stays on Switch(false) and moves on Switch(true); semi-round-robin stays on a word
with FastRandN(4) ≠ 0 and moves on the word 0 -/
example : (match run (exG selLastValid) [(.switch false, []), (.switch false, []), (.switch true, []), (.sleep, [])] with
    | .ok (g, os) => (g.cur.map (·.ptr), os)
    | .panic _ => (none, [])) = (some 2, [.switched true, .switched false, .switched true, .sleep 1002]) := by
  decide
example : (match run (exG selSemiRoundRobin) [(.switch false, []), (.switch true, [2^30]), (.switch false, [0])] with
    | .ok (g, os) => (g.cur.map (·.ptr), os)
    | .panic _ => (none, [])) = (some 2, [.switched true, .switched false, .switched true]) := by
  decide

/-! ### the consumer: what `(*Session).listen` reports to the selector -/

/-- Over the whole connection loop of a client Session (model XMT/ClientLoop.lean of c2/session.go
`listen`; any configuration, PRNG words, number of turns, and ANY script of connect errors, failed
exchanges and successful exchanges): `Switch` is called once per connection attempt, and the k-th
call is given `true` exactly when attempt k-1 failed; the first call is given `false`. "Last-valid
changes only after a reported failure" rests on this report. -/
theorem listen_reports_failures (c : Client.Cfg) (q : Nat → Nat) (script : Nat → Client.Res) (fuel : Nat) (now : Int) :
    (Client.run c q script fuel { now := now }).sw =
      (List.range (Client.run c q script fuel { now := now }).ci).map
        (fun k => decide (k > 0) && (script (k - 1) != .ok)) := by
  have h := Client.run_sw c q script 0 fuel { now := now } ⟨⟨Nat.le_refl _, rfl⟩, rfl⟩
  obtain ⟨_, h2⟩ := h
  rw [h2]
  simp only [Nat.sub_zero, Nat.zero_add]
  rfl

-- concrete: exchange fails, connect fails, exchange succeeds, … : reports false, true, true, false
example : (Client.run { sleep := 1000000, jitter := 0, kill := none, work := none, off := 0 } (fun _ => 0)
    (fun k => [Client.Res.sessErr, .fail, .ok, .ok].getD k .fail) 4 { now := 0 }).sw = [false, true, true, false] := by decide


/-! ### s3: the connection loop COMPOSED with the multi-group profile (XMT/GroupLoop.lean)

`GroupLoop.session g ds script` = what `connectContextInner` does with the profile (`Next`), then the
loop `(*Session).listen` with `s.p = g`, the connector outcomes `script` and ONE PRNG word stream `ds`.
`HostsNE g` = every group names a host and no host is the empty string.  `OwnConn g cn` = attempt
`cn` was made with a host, the wrapper and the transform of ONE entry of `g`, which was the active
one.  `Link g a b` (consecutive attempts) = the Switch call between them was given "`a` failed", the two
active entries are related by one call of `Group.switch` with that flag, host / wrapper / transform are
kept iff it reported no change, and a reported change forgives one error.  `GiveUp cn` = a connect
error met with more than `maxErrors` on the counter, or a failed exchange that takes it above. -/

open XMT.GroupLoop in
/-- One turn of the real loop on a group IS one call of the selector function: `Group.switch` is
given the failure flag of the previous attempt, the loop re-reads host / wrapper / transform (`Next`)
exactly when it reports a change and keeps them otherwise, and connects through the active entry. -/
theorem loop_turn_is_switch (st : St) (r : Res) (hinv : Inv st) (hh : HostsNE st.g) :
    ∃ g1 b ds1 st' cont cn, switch st.g st.e st.ds = .ok (g1, b, ds1) ∧ turn st r = .ok (st', cont) ∧
      st'.g = g1 ∧ st'.trace = st.trace ++ [cn] ∧ cn.swArg = st.e ∧ cn.swRes = b ∧ cn.cur = g1.curPtr ∧
      st'.e = (cn.res != .ok) ∧
      (b = false → st'.host = st.host ∧ st'.w = st.w ∧ st'.t = st.t ∧ cn.errs = st.errors ∧ g1 = st.g) ∧
      (b = true → cn.errs = errDec st.errors ∧ g1.curPtr ≠ st.g.curPtr) ∧
      (∃ c ∈ st.g.entries, g1.cur = some c ∧ cn.host ∈ c.hosts ∧ cn.w = c.w ∧ cn.t = c.t) ∧
      (cont = false ↔ GiveUp cn) := by
  obtain ⟨g1, b, ds1, st', cont, cn, h1, h2, h3, _, _, h6, h7, h8, h9, _, _, _, h13, h14, h15,
    ⟨c, hc1, hc2, _, hc4, hc5, hc6⟩, h17, _⟩ := turn_spec st r hinv hh
  exact ⟨g1, b, ds1, st', cont, cn, h1, h2, h3, h6, h7, h8, h9, h13, h14, h15, ⟨c, hc1, hc2, hc4, hc5, hc6⟩, h17⟩

open XMT.GroupLoop in
/-- The composition, for every group (any number of entries, any selector value, fresh or used), every
PRNG word stream and every history of connector outcomes: nothing panics; the group's entries and
selector never change; EVERY connection attempt is made with a host, the wrapper and the transform of
one configured entry, the active one; the first Switch call is told "no failure"; every two consecutive
attempts are linked by one call of `Group.switch` with the failure flag of the earlier one (so each
selector theorem above applies turn by turn — see `loop_link_contract`); one attempt is made per script
element until the loop gives up, and it gives up at the first attempt that meets `GiveUp`, never
before. -/
theorem loop_composition (g : Group) (hwf : g.WF) (hne : g.entries ≠ []) (hh : HostsNE g)
    (ds : List Nat) (script : List Res) :
    ∃ st cont, session g ds script = .ok (st, cont) ∧ st.g.entries = g.entries ∧ st.g.sel = g.sel ∧
      (∀ cn ∈ st.trace, OwnConn g cn) ∧ Adj (Link g) st.trace ∧
      (∀ cn, st.trace.head? = some cn → cn.swArg = false ∧ cn.errs = 0) ∧
      st.trace.length ≤ script.length ∧
      (cont = true → st.trace.length = script.length ∧ ∀ cn ∈ st.trace, ¬ GiveUp cn) ∧
      (cont = false → ∃ init last, st.trace = init ++ [last] ∧ GiveUp last ∧ ∀ cn ∈ init, ¬ GiveUp cn) := by
  obtain ⟨st0, hst, hinv, he, hs, htr, hee, herr, _⟩ := start_spec g ds hwf hne hh
  have hh0 : HostsNE st0.g := by unfold HostsNE; rw [he]; exact hh
  obtain ⟨st, cont, hrun, he', hs', hadj, hown, ⟨more, hmore, hlen, hfull⟩, hgo, hstop, hfirst⟩ :=
    GroupLoop.run_spec g script st0 hinv hh0 he hs (by rw [htr]; trivial)
      (by intro a ha; rw [htr] at ha; cases ha) (by intro cn hcn; rw [htr] at hcn; cases hcn)
      (by intro cn hcn; rw [htr] at hcn; cases hcn)
  rw [htr, List.nil_append] at hmore
  refine ⟨st, cont, ?_, he', hs', hown, hadj, ?_, by rw [hmore]; exact hlen, ?_, hstop⟩
  · unfold session; simp only [hst]; exact hrun
  · intro cn hcn
    obtain ⟨h1, h2⟩ := hfirst htr cn hcn
    refine ⟨by rw [h1, hee], ?_⟩
    rw [h2, herr]; unfold errDec; split <;> simp
  · intro hc; exact ⟨by rw [hmore]; exact hfull hc, hgo hc⟩

open XMT.GroupLoop in
/-- The selector contracts, turn by turn of the loop.  For two consecutive attempts `a`, `b` on a group
with distinct entries, `a` made on the entry at position `k`, with `succ` = the entry at position
`(k+1) mod n`:  round-robin goes to `succ` whatever happened;  last-valid stays (no change reported,
hence same host, wrapper, transform) after a success and goes to `succ` after a failure;
semi-round-robin either stays or goes to `succ`;  semi-last-valid goes to `succ` after a failure and
otherwise either stays or goes to `succ`;  (random / semi-random: `b` is made on a member entry, by
`loop_composition`, and stays iff no change is reported). -/
theorem loop_link_contract (g : Group) (hnd : (g.entries.map (·.ptr)).Nodup) (a b : Conn) (h : Link g a b) :
    b.swArg = (a.res != .ok) ∧
    (b.swRes = false → b.cur = a.cur ∧ b.host = a.host ∧ b.w = a.w ∧ b.t = a.t) ∧
    ∃ k ca, g.entries[k]? = some ca ∧ a.cur = some ca.ptr ∧
      (Plain g.sel → b.cur = (g.entries[(k+1) % g.entries.length]?).map (·.ptr)) ∧
      (g.sel = selLastValid →
        (a.res = .ok → b.swRes = false) ∧
        (a.res ≠ .ok → b.cur = (g.entries[(k+1) % g.entries.length]?).map (·.ptr))) ∧
      (g.sel = selSemiRoundRobin →
        b.swRes = false ∨ b.cur = (g.entries[(k+1) % g.entries.length]?).map (·.ptr)) ∧
      (g.sel = selSemiLastValid →
        (a.res ≠ .ok → b.cur = (g.entries[(k+1) % g.entries.length]?).map (·.ptr)) ∧
        (b.swRes = false ∨ b.cur = (g.entries[(k+1) % g.entries.length]?).map (·.ptr))) := by
  obtain ⟨harg, ⟨ca, cb, ds, ds', hca, hcb, hac, hbc, hsw⟩, hstay, _⟩ := h
  obtain ⟨k, hk⟩ := mem_getElem? g.entries ca hca
  have hwf : ({ g with cur := some ca } : Group).WF := ⟨hnd, fun c hc => by cases hc; exact hca⟩
  have succ_of : g.entries[(k+1) % g.entries.length]? = some cb →
      b.cur = (g.entries[(k+1) % g.entries.length]?).map (·.ptr) := by
    intro hx; rw [hx, hbc]; rfl
  have hne : (a.res ≠ .ok) → b.swArg = true := by
    intro hr; rw [harg]; cases hres : a.res <;> simp_all
  have heq : (a.res = .ok) → b.swArg = false := by
    intro hr; rw [harg, hr]; rfl
  refine ⟨harg, fun hb => ⟨(hstay hb).1, (hstay hb).2.1, (hstay hb).2.2.1, (hstay hb).2.2.2.1⟩, k, ca, hk, hac,
    ?_, ?_, ?_, ?_⟩
  · intro hp
    have := roundRobin_step { g with cur := some ca } hwf hp k ca hk rfl b.swArg ds
    exact succ_of (link_rot g ca cb k b.swArg b.swRes ds ds ds' hsw this).1
  · intro hs
    have hstep := lastValid_step { g with cur := some ca } hwf hs k ca hk rfl b.swArg ds
    refine ⟨fun hr => ?_, fun hr => ?_⟩
    · rw [heq hr] at hstep hsw
      exact (link_stay g ca cb false b.swRes ds ds ds' hsw (by simpa using hstep)).2
    · rw [hne hr] at hstep hsw
      exact succ_of (link_rot g ca cb k true b.swRes ds ds ds' hsw (by simpa using hstep)).1
  · intro hs
    have hstep := semiRoundRobin_refines { g with cur := some ca } hwf hs k ca hk rfl b.swArg ds
    cases hd : (fastRandN (pop ds).1 semiN != 0) with
    | true =>
      rw [hd] at hstep
      exact Or.inl (link_stay g ca cb b.swArg b.swRes ds (pop ds).2 ds' hsw (by simpa using hstep)).2
    | false =>
      rw [hd] at hstep
      exact Or.inr (succ_of (link_rot g ca cb k b.swArg b.swRes ds (pop ds).2 ds' hsw (by simpa using hstep)).1)
  · intro hs
    have hstep := semiLastValid_refines { g with cur := some ca } hwf hs k ca hk rfl b.swArg ds
    have hfail : b.swArg = true → b.cur = (g.entries[(k+1) % g.entries.length]?).map (·.ptr) := by
      intro he
      rw [he] at hstep hsw
      exact succ_of (link_rot g ca cb k true b.swRes ds ds ds' hsw (by simpa using hstep)).1
    refine ⟨fun hr => hfail (hne hr), ?_⟩
    cases he : b.swArg with
    | true => exact Or.inr (hfail he)
    | false =>
      rw [he] at hstep hsw
      simp only [Bool.false_eq_true, if_false] at hstep
      cases hd : (fastRandN (pop ds).1 semiN != 0) with
      | true =>
        rw [hd] at hstep
        exact Or.inl (link_stay g ca cb false b.swRes ds (pop ds).2 ds' hsw (by simpa using hstep)).2
      | false =>
        rw [hd] at hstep
        exact Or.inr (succ_of (link_rot g ca cb k false b.swRes ds (pop ds).2 ds' hsw (by simpa using hstep)).1)

open XMT.GroupLoop in
/-- Round-robin over the whole life of a Session, on a freshly built group: the registration uses
entry 0 (the highest weight) and connection attempt `i` of the loop (i = 0, 1, …) goes to the entry at
position `(i + 1) mod n` — cyclic order, every group before any repeats — whatever the connector
outcomes and PRNG words are; Switch reports a change in every turn (unless there is a single entry). -/
theorem loop_roundRobin_order (g : Group) (hwf : g.WF) (hp : Plain g.sel) (hc : g.cur = none)
    (hne : g.entries ≠ []) (hh : HostsNE g) (ds : List Nat) (script : List Res) :
    ∃ st cont, session g ds script = .ok (st, cont) ∧
      ∀ i cn, st.trace[i]? = some cn →
        cn.cur = (g.entries[(i + 1) % g.entries.length]?).map (·.ptr) ∧
        cn.swRes = decide (g.entries.length ≠ 1) := by
  obtain ⟨st0, hst, hinv, he, hs, htr, _, _, _⟩ := start_spec g ds hwf hne hh
  have hh0 : HostsNE st0.g := by unfold HostsNE; rw [he]; exact hh
  obtain ⟨e0, tl, hent⟩ := List.exists_cons_of_ne_nil hne
  have hk0 : g.entries[0]? = some e0 := by rw [hent]; rfl
  -- what `start` did with the group: `Next` → `init` → entry 0
  have hg0 : st0.g.cur = some e0 := by
    have hi := init_first g ds hc hne (not_random_of g hp.2.2.2.2 hp.2.2.1)
    unfold start gNext at hst
    rw [hi] at hst
    simp only [hk0] at hst
    cases hn : e0.next ds with
    | panic s => rw [hn] at hst; cases hst
    | ok x =>
      rw [hn] at hst
      obtain ⟨⟨h, w, t⟩, ds'⟩ := x
      simp only [Outcome.ok.injEq] at hst
      rw [← hst] <;> exact hk0
  obtain ⟨st, cont, more, hrun, hmore, hall⟩ := run_plain g hp script st0 hinv hh0 he hs 0 e0 hk0 hg0
  refine ⟨st, cont, by unfold session; simp only [hst]; exact hrun, ?_⟩
  intro i cn hi
  rw [hmore, htr, List.nil_append] at hi
  have := hall i cn hi
  rw [show 0 + 1 + i = i + 1 by omega] at this
  exact this

open XMT.GroupLoop in
/-- The error budget, counted in consecutive failures.  In any run, take a stretch `a :: l` of
consecutive FAILED attempts (connect error or failed exchange) at the end of the trace, during which
Switch reported no change (so nothing was forgiven): the counter met by the (i+1)-th of them is
`a.errs + i + 1`, and while the loop is still going the stretch holds at most
`maxErrors + 1 - a.errs` attempts (`maxErrors + 1` = 6 from a clean counter): one more unforgiven
connect failure and `GiveUp` holds, i.e. the loop ends there (`loop_composition`). -/
theorem loop_budget_no_switch (g : Group) (hwf : g.WF) (hne : g.entries ≠ []) (hh : HostsNE g)
    (ds : List Nat) (script : List Res) (st : St) (cont : Bool)
    (hrun : session g ds script = .ok (st, cont)) (pre l : List Conn) (a : Conn)
    (htr : st.trace = pre ++ a :: l) (hfail : ∀ c ∈ a :: l, c.res ≠ .ok)
    (hns : ∀ c ∈ l, c.swRes = false) :
    (∀ i c, l[i]? = some c → c.errs = a.errs + i + 1) ∧
    (cont = true → a.errs + l.length ≤ maxErrors) := by
  obtain ⟨st', cont', hrun', _, _, _, hadj, _, _, hgo, _⟩ := loop_composition g hwf hne hh ds script
  rw [hrun] at hrun'
  simp only [Outcome.ok.injEq, Prod.mk.injEq] at hrun'
  obtain ⟨rfl, rfl⟩ := hrun'
  rw [htr] at hadj
  have hchain := chain_errs g l a (Adj_suffix _ pre _ hadj) hns hfail
  refine ⟨hchain, fun hc => ?_⟩
  obtain ⟨_, hng⟩ := hgo hc
  -- the last attempt of the stretch did not meet GiveUp
  have key : ∀ z : Conn, z ∈ st.trace → z.res ≠ .ok → z.errs ≤ maxErrors := by
    intro z hz hr
    have h := hng z hz
    unfold GiveUp at h
    cases hres : z.res with
    | ok => exact absurd hres hr
    | fail =>
      rcases Nat.lt_or_ge maxErrors z.errs with hlt | hge
      · exact absurd (Or.inl ⟨hres, hlt⟩) h
      · exact hge
    | sessErr =>
      rcases Nat.lt_or_ge maxErrors (z.errs + 1) with hlt | hge
      · exact absurd (Or.inr ⟨hres, hlt⟩) h
      · omega
  cases hl : l.length with
  | zero =>
    have := key a (by rw [htr]; simp) (hfail a (by simp))
    omega
  | succ n =>
    have hlt : n < l.length := by omega
    have hz : l[n]? = some l[n] := List.getElem?_eq_getElem hlt
    have hmem : l[n] ∈ l := List.getElem_mem hlt
    have h1 := hchain n l[n] hz
    have h2 := key l[n] (by rw [htr]; simp [hmem]) (hfail l[n] (List.mem_cons_of_mem _ hmem))
    omega

/-! non-vacuity: the three-group example profile, every group with hosts -/

example : GroupLoop.HostsNE (exG selLastValid) ∧ (exG selLastValid).WF ∧ (exG selLastValid).entries ≠ [] := by
  refine ⟨by decide, ⟨by decide, fun c h => by cases h⟩, by decide⟩

/-- last-valid in the loop: registration on ptr 1 (weight 100); ok, ok keep it; a connect failure moves
the loop to ptr 2 with THAT entry's wrapper 12 / transform 22 and forgives nothing at errors 0… -/
example : (match GroupLoop.session (exG selLastValid) [] [.ok, .fail, .ok, .sessErr, .ok] with
    | .ok (st, cont) =>
      (st.trace.map (fun c => [c.swArg.toNat, c.swRes.toNat, (c.cur.map (· + 1)).getD 0, c.w, c.t, c.errs]), cont)
    | .panic _ => ([], false)) =
    -- [Switch argument, Switch result, ptr + 1, wrapper, transform, errors]
    (([[0, 0, 2, 11, 21, 0], [0, 0, 2, 11, 21, 0], [1, 1, 3, 12, 22, 0], [0, 0, 3, 12, 22, 0], [1, 1, 1, 10, 20, 0]],
      true) : List (List Nat) × Bool) := by
  decide

/-- round-robin in the loop: 2 → 0 → 1 → 2 (ptrs; order by weight is 1, 2, 0) -/
example : (match GroupLoop.session (exG selRoundRobin) [] [.ok, .fail, .fail, .ok] with
    | .ok (st, _) => st.trace.map (·.cur)
    | .panic _ => []) = [some 2, some 0, some 1, some 2] := by
  decide

/-- a single-entry group never reports a change, so nothing is forgiven: the loop gives up at the
7th consecutive connect failure (counter 6 > maxErrors = 5), not before -/
example : (match GroupLoop.session { cur := none, entries := [exE 0 5], sel := selRoundRobin } []
      (List.replicate 9 .fail) with
    | .ok (st, cont) => (st.trace.map (·.errs), cont)
    | .panic _ => ([], true)) = (([0, 1, 2, 3, 4, 5, 6], false) : List Nat × Bool) := by
  decide


/-- a reported switch forgives one error (by design of `listen`): round-robin over three groups and 20
connect failures in a row — the counter is never above 1 when Connect is called and the loop is
still going; "gives up after N consecutive failures" holds for stretches without a reported switch
only (previous example) -/
example : (match GroupLoop.session (exG selRoundRobin) [] (List.replicate 20 .fail) with
    | .ok (st, cont) => (st.trace.length, st.trace.all (fun c => decide (c.errs ≤ 1)), cont)
    | .panic _ => (0, false, false)) = ((20, true, true) : Nat × Bool × Bool) := by
  decide

/-! ### s3: the points the hypotheses above exclude -/

/-- `g.entries ≠ []` (hypothesis of `accessor_own`, `next_own`, `random_picks_entry`, `first_use`): a
Group without entries (the zero value `new(cfg.Group)`; `Build` never returns one: it hands back nil
for no group and the bare profile for one) answers EVERY call with the documented default —
Switch false, Next ("", nil, nil), Sleep / Jitter -1, no kill date, no work hours, TrustedKey =
"key not empty", ErrNotAConnector / ErrNotAListener — draws no PRNG word, stays as it is, and does
not panic, whatever its selector byte is. -/
theorem empty_group_defaults (sel : Nat) (op : Op) (ds : List Nat) :
    step { cur := none, entries := [], sel := sel } op ds =
      .ok ({ cur := none, entries := [], sel := sel }, obsNil op, ds) := by
  cases op <;> rfl

example : obsNil .next = .next [] 0 0 ∧ obsNil .sleep = .sleep (-1) ∧ obsNil (.trusted false 7) = .trusted true := by
  decide

open XMT.GroupLoop in
/-- `HostsNE` (hypothesis of the loop theorems) cannot be dropped: with a group that names no host the
loop keeps the host of the group it was on before (`if len(h) > 0 { s.host.Set(h) }`) and connects to
it with the NEW group's wrapper, transform and connector.  Witness: round-robin over exE 1 (hosts
[01], [41]) and a hostless entry; the first attempt of the loop is made on the hostless entry (ptr 7,
wrapper 17, transform 27) with the host [01] of entry 1.  (No panic; observed on the real loop by the
harness, count `s3:hostless:kept-foreign-host`.) -/
theorem loop_hostless_group_keeps_foreign_host :
    let hostless : Entry := { exE 7 50 with hosts := [] }
    let g : Group := { cur := none, entries := [exE 1 200, hostless], sel := selRoundRobin }
    g.WF ∧ ¬ HostsNE g ∧
    ∃ st cont cn, session g [] [.ok, .ok] = .ok (st, cont) ∧ st.trace[0]? = some cn ∧
      cn.cur = some 7 ∧ cn.w = 17 ∧ cn.t = 27 ∧ cn.host = [1] ∧ ¬ OwnConn g cn := by
  refine ⟨⟨by decide, fun c h => by cases h⟩, by decide, ?_⟩
  refine ⟨_, _, _, rfl, rfl, by decide, by decide, by decide, by decide, ?_⟩
  rintro ⟨c, hc, hcur, hhost, _, _⟩
  simp only [List.mem_cons, List.not_mem_nil, or_false] at hc
  rcases hc with rfl | rfl
  · revert hcur; decide
  · revert hhost; decide

/-! ### the host container of the `ews && implant` build (c2/x_ews.go; model XMT/HostBox.lean,
tied to the real file by the differential group `ews`: the harness mounts a copy of the CURRENT
c2/x_ews.go into its own package and drives it with the same Set/Wrap/Unwrap sequences) -/

/-- Whatever the container held before (any length, wrapped or not), after `Set(h)` it hands out
exactly `h`: "the host handed out always belongs to the active group" does not depend on the hosts
of earlier groups being shorter or longer. -/
theorem hostbox_set_hands_out (c : HostBox.Box) (h : Bytes) : HostBox.string (HostBox.set c h) = h :=
  HostBox.set_string c h

/-- Over any number of turns of the connection loop (Unwrap, Set on a switch, Connect with String(),
Wrap with 16 fresh PRNG bytes), for all hosts and all PRNG draws, the host given to the connector in
every turn is the host of the last switch (the one set before the loop when there was none). -/
theorem hostbox_loop_hands_out_active (c : HostBox.Box) (cur : Bytes) (ts : List HostBox.Turn)
    (hinv : HostBox.string (HostBox.unwrap c) = cur) (hk : c.k ≠ [])
    (hd : ∀ t ∈ ts, t.draws ≠ []) :
    HostBox.observed c ts = HostBox.expected cur ts :=
  HostBox.observed_eq c cur ts hinv hk hd

-- non-vacuous: long host, then a shorter one, then a longer one again (shrink-then-grow), wrapped between
example : HostBox.observed (HostBox.set HostBox.empty [1,2,3,4,5,6])
    [⟨none, List.replicate 16 7⟩, ⟨some [9,9], List.replicate 16 0⟩, ⟨some [1,2,3,4], List.replicate 16 200⟩, ⟨none, List.replicate 16 3⟩]
    = [[1,2,3,4,5,6], [9,9], [1,2,3,4], [1,2,3,4]] := by decide
example : HostBox.string (HostBox.unwrap (HostBox.set HostBox.empty [1,2,3])) = [1,2,3] ∧ (HostBox.set HostBox.empty [1,2,3]).k ≠ [] := by decide

end XMT.Props.C17
