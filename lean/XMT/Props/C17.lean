/-
  C17 — Profile groups rotate as the selector promises and yield only their own entries.
  Property theorems only; the model is XMT/Group.lean, lemmas live in XMT/GroupLemmas.lean.

  Reading guide.  `Group.WF g` = the entries are distinct allocations (pairwise distinct `ptr`) and
  the cursor, if set, is one of them.  `run g ops` executes a call history (each op with the PRNG
  words available to it: the theorems hold for every word sequence).  `rotStep g k` is the
  round-robin step from position `k` (next entry in order, wrapping; reports a change unless there
  is a single entry); `pick g ds` is the random pick with the next PRNG word.

  Scope notes (from an adversarial review of these statements, see DESIGN.md Appendix B.5):
  * `listen_reports_failures` is about the client loop's bookkeeping (`sw`): the model of the loop
    has no Profile field; a Profile whose `Switch` reports a change (several groups) is covered by the
    Group theorems above and by the differential run of the real loop with real multi-group profiles,
    not by one closed theorem. Read it as partial in that sense.
-/
import XMT.GroupLemmas
import XMT.ClientLoopSwitch
import XMT.HostBox
namespace XMT.Props.C17
open XMT XMT.Group

/-- Obligations on the regenerated facts: the six selector ids are pairwise distinct, non-zero bytes
(`Build` recognises a configured selector by `s > 0`), and the semi selectors draw from a non-empty
range. -/
theorem facts_ok :
    [selLastValid, selRoundRobin, selRandom, selSemiRoundRobin, selSemiRandom, selSemiLastValid].Nodup ∧
    (∀ s ∈ [selLastValid, selRoundRobin, selRandom, selSemiRoundRobin, selSemiRandom, selSemiLastValid],
      0 < s ∧ s < 256) ∧ 0 < semiN ∧ Plain selRoundRobin ∧ Plain 0 := by
  decide

/-! ### The active entry is always one of the configured groups; nothing panics -/

/-- For every well-formed group and every call history (Switch(failed / not failed), Next, all
accessors, any PRNG words): no panic, entries and selector are never changed, the cursor stays one
of the entries, and after the first call it is set. -/
theorem cur_valid (g : Group) (hwf : g.WF) (ops : List (Op × List Nat)) :
    ∃ g' os, run g ops = .ok (g', os) ∧ g'.entries = g.entries ∧ g'.sel = g.sel ∧ g'.WF ∧
      os.length = ops.length ∧ (ops ≠ [] → g.entries ≠ [] → ∃ c ∈ g.entries, g'.cur = some c) :=
  run_spec g ops hwf

/-! ### Build: entries are the configured groups ordered by descending weight -/

/-- The tail of `Config.Build` on two or more built groups: fresh cursor, entries are a permutation
of the configured groups in descending weight order, the selector is `globalSel`. -/
theorem build_sorted (es : List (Entry × Nat)) (g : Group) (h : buildTail es = .group g) :
    2 ≤ es.length ∧ g.cur = none ∧ g.entries.Pairwise (fun a b => a.weight ≥ b.weight) ∧
    g.entries.Perm (es.map (·.1)) ∧ g.sel = globalSel (es.map (·.2)) := by
  match es, h with
  | a :: b :: rest, h =>
    simp only [buildTail, Profile.group.injEq] at h
    subst h
    exact ⟨by simp, rfl, sortDesc_sorted _, sortDesc_perm _, rfl⟩

/-- distinct allocations in, well-formed group out -/
theorem build_wf (es : List (Entry × Nat)) (g : Group) (h : buildTail es = .group g)
    (hnd : (es.map (·.1.ptr)).Nodup) : g.WF := by
  obtain ⟨_, hc, _, hp, _⟩ := build_sorted es g h
  refine ⟨?_, fun c hcc => by rw [hc] at hcc; cases hcc⟩
  have := (hp.map (·.ptr)).nodup_iff
  rw [this]
  have he : es.map (·.1.ptr) = (es.map (·.1)).map (·.ptr) := by simp [List.map_map, Function.comp_def]
  rw [← he]; exact hnd

/-- the selector byte `Build` keeps is the last one configured in any group -/
theorem build_selector_last (pre post : List Nat) (s : Nat) (hs : 0 < s) (hb : s < 256)
    (hpost : ∀ x ∈ post, x = 0) : globalSel (pre ++ s :: post) = s :=
  globalSel_last pre post s hs hb hpost

/-- the weight clamp keeps the order of weights up to the cap and never exceeds it -/
theorem clampWeight_le (b : Nat) : clampWeight b ≤ Facts.c17WeightCap ∧ (b ≤ Facts.c17WeightCap → clampWeight b = b) := by
  unfold clampWeight
  constructor
  · split <;> omega
  · intro h; split <;> omega

/-! ### What is handed out belongs to the active entry -/

/-- After any history `ops` on a well-formed group with entries, every accessor (Next, Sleep,
Jitter, KillDate, WorkHours, TrustedKey, Connect/Listen) returns the value of one entry `c` of the
configured groups which is the active one afterwards — `Own c op o`: Next yields one of `c`'s own
hosts together with `c`'s own wrapper and transform — and an accessor never moves a set cursor. -/
theorem accessor_own (g : Group) (hwf : g.WF) (hne : g.entries ≠ []) (ops : List (Op × List Nat))
    (op : Op) (hop : op.isSwitch = false) (ds : List Nat) :
    ∃ g1 os g2 o ds', run g ops = .ok (g1, os) ∧ step g1 op ds = .ok (g2, o, ds') ∧
      (∃ c ∈ g.entries, g2.cur = some c ∧ Own c op o) ∧ (∀ c, g1.cur = some c → g2 = g1) := by
  obtain ⟨g1, os, hr, he, _, hwf1, _, _⟩ := run_spec g ops hwf
  obtain ⟨g2, o, ds', hs, _, _, _, hsame, hown⟩ := step_acc_spec g1 op ds hwf1 hop
  refine ⟨g1, os, g2, o, ds', hr, hs, ?_, hsame⟩
  obtain ⟨c, hm, hc, ho⟩ := hown (by rw [he]; exact hne)
  exact ⟨c, by rw [← he]; exact hm, hc, ho⟩

/-- `Next` spelled out: host from the active entry's own list (or the empty string when it has
none), with that entry's own wrapper and transform. -/
theorem next_own (g : Group) (hwf : g.WF) (hne : g.entries ≠ []) (ds : List Nat) :
    ∃ g' h w t ds' c, step g .next ds = .ok (g', .next h w t, ds') ∧ c ∈ g.entries ∧ g'.cur = some c ∧
      w = c.w ∧ t = c.t ∧ (h ∈ c.hosts ∨ (c.hosts = [] ∧ h = [])) := by
  obtain ⟨g', o, ds', hs, _, _, _, _, hown⟩ := step_acc_spec g .next ds hwf rfl
  obtain ⟨c, hm, hc, ho⟩ := hown hne
  cases o with
  | next h w t => exact ⟨g', h, w, t, ds', c, hs, hm, hc, ho.1, ho.2.1, ho.2.2⟩
  | _ => exact absurd ho (by simp [Own])


/-- Headline composition: build any two or more configured groups (distinct allocations, any weights,
any hosts, any selector bytes), run any call history, then call any accessor: nothing panics and
what is handed out is the own value of one of the *configured* groups, which is the active entry. -/
theorem built_group_hands_out_own (es : List (Entry × Nat)) (hnd : (es.map (·.1.ptr)).Nodup)
    (g : Group) (h : buildTail es = .group g) (ops : List (Op × List Nat)) (op : Op)
    (hop : op.isSwitch = false) (ds : List Nat) :
    ∃ g1 os g2 o ds', run g ops = .ok (g1, os) ∧ step g1 op ds = .ok (g2, o, ds') ∧
      ∃ p ∈ es.map (·.1), g2.cur = some p ∧ Own p op o := by
  have hwf := build_wf es g h hnd
  obtain ⟨hlen, _, _, hperm, _⟩ := build_sorted es g h
  have hne : g.entries ≠ [] := by
    intro hnil
    have := hperm.length_eq
    rw [hnil] at this
    simp at this
    omega
  obtain ⟨g1, os, g2, o, ds', hr, hs, ⟨c, hm, hc, ho⟩, _⟩ := accessor_own g hwf hne ops op hop ds
  exact ⟨g1, os, g2, o, ds', hr, hs, c, hperm.mem_iff.mp hm, hc, ho⟩

/-! ### Switch reports a change iff the cursor changed -/

theorem switch_reports_change (g : Group) (hwf : g.WF) (e : Bool) (ds : List Nat) :
    ∃ g' b ds', switch g e ds = .ok (g', b, ds') ∧ (b = true ↔ g'.curPtr ≠ g.curPtr) ∧
      (b = false → g' = g) := by
  obtain ⟨g', b, ds', hs, _, _, _, hb, hf, _, _⟩ := switch_spec g e ds hwf
  exact ⟨g', b, ds', hs, hb, hf⟩

/-! ### last-valid -/

/-- last-valid, cursor set: `Switch(false)` changes nothing (and draws nothing); `Switch(true)` does
the round-robin step. -/
theorem lastValid_step (g : Group) (hwf : g.WF) (hs : g.sel = selLastValid) (k : Nat) (c : Entry)
    (hk : g.entries[k]? = some c) (hc : g.cur = some c) (e : Bool) (ds : List Nat) :
    switch g e ds = if e then .ok ((rotStep g k).1, (rotStep g k).2, ds) else .ok (g, false, ds) := by
  have hg := guards_lastValid g e ds c hc hs
  have hnr : (g.sel == selRandom || g.sel == selSemiRandom) = false := by rw [hs]; decide
  cases e with
  | false => simpa using switch_stop g false ds ds k c hk (by simpa using hg)
  | true => simpa using switch_rot g true ds ds k c hwf.1 hk hc hnr (by simpa using hg)

/-- last-valid changes the active group only after a reported failure: over any history that
contains no `Switch(true)`, the group (cursor included) is exactly what it was. -/
theorem lastValid_sticks (g : Group) (hwf : g.WF) (hs : g.sel = selLastValid) (c : Entry)
    (hc : g.cur = some c) (ops : List (Op × List Nat)) (hno : ∀ od ∈ ops, od.1 ≠ .switch true) :
    ∃ os, run g ops = .ok (g, os) :=
  lastValid_run g c hwf hs hc ops hno

/-! ### round-robin -/

/-- round-robin, one call: from position `k` to position `(k+1) mod n`, whatever `failed` says and
without consuming PRNG words. (`Plain` = round-robin or any value that is none of the other five
selector ids.) -/
theorem roundRobin_step (g : Group) (hwf : g.WF) (hp : Plain g.sel) (k : Nat) (c : Entry)
    (hk : g.entries[k]? = some c) (hc : g.cur = some c) (e : Bool) (ds : List Nat) :
    switch g e ds = .ok ((rotStep g k).1, (rotStep g k).2, ds) :=
  plain_step g hwf hp k c hk hc e ds

/-- round-robin over a history: starting at position `k`, after a history with `m` Switch calls
(interleaved with any accessor calls, any flags, any PRNG words) the cursor is at position
`(k + m) mod n`; nothing else changed. -/
theorem roundRobin_cycle (g : Group) (hwf : g.WF) (hp : Plain g.sel) (k : Nat) (c : Entry)
    (hk : g.entries[k]? = some c) (hc : g.cur = some c) (ops : List (Op × List Nat)) :
    ∃ os, run g ops = .ok ({ g with cur := g.entries[(k + countSw ops) % g.entries.length]? }, os) :=
  plain_run ops g hwf hp k c hk hc

/-- from a freshly built group: the first call of any kind activates entry 0 (the highest weight),
then every Switch call advances by one: after `first :: rest` the cursor is at
`(number of Switch calls in rest) mod n`. -/
theorem roundRobin_from_start (g : Group) (hwf : g.WF) (hp : Plain g.sel) (hc : g.cur = none)
    (hne : g.entries ≠ []) (first : Op × List Nat) (rest : List (Op × List Nat)) :
    ∃ os, run g (first :: rest) =
      .ok ({ g with cur := g.entries[countSw rest % g.entries.length]? }, os) := by
  obtain ⟨op, ds⟩ := first
  have hnr := not_random_of g hp.2.2.2.2 hp.2.2.1
  obtain ⟨o, ds', hs⟩ := step_first g op ds hc hne hnr
  obtain ⟨e0, tl, hent⟩ := List.exists_cons_of_ne_nil hne
  let g1 : Group := { g with cur := g.entries[0]? }
  have hg1c : g1.cur = some e0 := by show g.entries[0]? = some e0; rw [hent]; rfl
  have hg1k : g1.entries[0]? = some e0 := by show g.entries[0]? = some e0; rw [hent]; rfl
  have hwf1 : g1.WF := WF_of_cur g g1 hwf rfl ⟨e0, by rw [hent]; simp, hg1c⟩
  obtain ⟨os, hr⟩ := plain_run rest g1 hwf1 hp 0 e0 hg1k hg1c
  refine ⟨o :: os, ?_⟩
  simp only [run, hs]
  rw [hr]
  simp only [Nat.zero_add]
  rfl

/-- round-robin visits every group in order before repeating: the positions reached by 0 … n-1
further Switch calls are pairwise distinct (hence, the entries being distinct, all n groups), and
every position is reached within n-1 calls. -/
theorem roundRobin_visits_all (n k : Nat) (hk : k < n) :
    (∀ i j, i < n → j < n → (k + i) % n = (k + j) % n → i = j) ∧
    (∀ j, j < n → ∃ m, m < n ∧ (k + m) % n = j) := by
  constructor
  · intro i j hi hj h
    rcases Nat.lt_or_ge (k + i) n with h1 | h1 <;> rcases Nat.lt_or_ge (k + j) n with h2 | h2
    · rw [Nat.mod_eq_of_lt h1, Nat.mod_eq_of_lt h2] at h; omega
    · rw [Nat.mod_eq_of_lt h1, Nat.mod_eq_sub_mod h2, Nat.mod_eq_of_lt (by omega)] at h; omega
    · rw [Nat.mod_eq_sub_mod h1, Nat.mod_eq_of_lt (by omega), Nat.mod_eq_of_lt h2] at h; omega
    · rw [Nat.mod_eq_sub_mod h1, Nat.mod_eq_of_lt (by omega), Nat.mod_eq_sub_mod h2,
        Nat.mod_eq_of_lt (by omega)] at h; omega
  · intro j hj
    rcases Nat.lt_or_ge j k with h | h
    · refine ⟨n - k + j, by omega, ?_⟩
      have : k + (n - k + j) = j + n := by omega
      rw [this, Nat.add_mod_right, Nat.mod_eq_of_lt hj]
    · exact ⟨j - k, by omega, by rw [show k + (j - k) = j by omega, Nat.mod_eq_of_lt hj]⟩

/-! ### the semi selectors either stay or do what their base selector does -/

/-- semi-round-robin, cursor set: one PRNG word `r` is drawn; the call stays (returns false,
nothing changes) iff `FastRandN(4)` of that word is non-zero, otherwise it is exactly the
round-robin step (`roundRobin_step`). -/
theorem semiRoundRobin_refines (g : Group) (hwf : g.WF) (hs : g.sel = selSemiRoundRobin) (k : Nat)
    (c : Entry) (hk : g.entries[k]? = some c) (hc : g.cur = some c) (e : Bool) (ds : List Nat) :
    switch g e ds = if fastRandN (pop ds).1 semiN != 0 then .ok (g, false, (pop ds).2)
                    else .ok ((rotStep g k).1, (rotStep g k).2, (pop ds).2) := by
  have hg := guards_semi g e ds c hc (Or.inl hs)
  have hnr : (g.sel == selRandom || g.sel == selSemiRandom) = false := by rw [hs]; decide
  cases hb : (fastRandN (pop ds).1 semiN != 0) with
  | true => rw [hb] at hg; simpa using switch_stop g e ds _ k c hk hg
  | false => rw [hb] at hg; simpa using switch_rot g e ds _ k c hwf.1 hk hc hnr hg

/-- semi-last-valid, cursor set: after a reported failure it does what last-valid does (the
round-robin step, no PRNG word); otherwise it draws one word and either stays or does that step. -/
theorem semiLastValid_refines (g : Group) (hwf : g.WF) (hs : g.sel = selSemiLastValid) (k : Nat)
    (c : Entry) (hk : g.entries[k]? = some c) (hc : g.cur = some c) (e : Bool) (ds : List Nat) :
    switch g e ds =
      if e then .ok ((rotStep g k).1, (rotStep g k).2, ds)
      else if fastRandN (pop ds).1 semiN != 0 then .ok (g, false, (pop ds).2)
      else .ok ((rotStep g k).1, (rotStep g k).2, (pop ds).2) := by
  have hg := guards_semiLastValid g e ds c hc hs
  have hnr : (g.sel == selRandom || g.sel == selSemiRandom) = false := by rw [hs]; decide
  cases e with
  | true => simpa using switch_rot g true ds ds k c hwf.1 hk hc hnr (by simpa using hg)
  | false =>
    simp only [Bool.false_eq_true, if_false] at hg ⊢
    cases hb : (fastRandN (pop ds).1 semiN != 0) with
    | true => rw [hb] at hg; simpa using switch_stop g false ds _ k c hk hg
    | false => rw [hb] at hg; simpa using switch_rot g false ds _ k c hwf.1 hk hc hnr hg

/-- random: every call is the random pick, and the pick is one of the entries; true is reported
iff it differs from the active one. -/
theorem random_picks_entry (g : Group) (hs : g.sel = selRandom) (hne : g.entries ≠ []) (e : Bool)
    (ds : List Nat) :
    switch g e ds = pick g ds ∧
    ∃ n ∈ g.entries, pick g ds =
      .ok (if ptrEq n g.cur then g else { g with cur := some n }, !ptrEq n g.cur, (pop ds).2) := by
  refine ⟨?_, pick_spec g ds hne⟩
  have hl : (g.entries.length == 0) = false := by
    cases h : g.entries with
    | nil => exact absurd h hne
    | cons a b => simp
  have hg : guards g e ds = (false, ds) :=
    guards_plain g e ds (by rw [hs]; decide) (by rw [hs]; decide) (by rw [hs]; decide) (by rw [hs]; decide)
  unfold switch
  simp only [hl, hg]
  exact select_random g ds (Or.inl hs)

/-- semi-random, cursor set: one word decides between staying and the random pick (drawn with the
following word) — the same `pick` the random selector performs. -/
theorem semiRandom_refines (g : Group) (hs : g.sel = selSemiRandom) (k : Nat) (c : Entry)
    (hk : g.entries[k]? = some c) (hc : g.cur = some c) (e : Bool) (ds : List Nat) :
    switch g e ds = if fastRandN (pop ds).1 semiN != 0 then .ok (g, false, (pop ds).2)
                    else pick g (pop ds).2 := by
  have hg := guards_semi g e ds c hc (Or.inr hs)
  cases hb : (fastRandN (pop ds).1 semiN != 0) with
  | true => rw [hb] at hg; simpa using switch_stop g e ds _ k c hk hg
  | false =>
    rw [hb] at hg
    unfold switch
    simp only [length_ne_zero g k c hk, hg]
    simpa using select_random g _ (Or.inr hs)


/-- the "25 % chance" of the semi selectors, exactly: with the regenerated literal (4), the stay/go
draw lets the call through iff the raw 32-bit PRNG word is below 2^30 (a quarter of the range). -/
theorem semi_chance (r : Nat) : fastRandN r semiN = 0 ↔ r % 2^32 < 2^30 := by
  have : semiN = 4 := by decide
  rw [this]
  unfold fastRandN
  rw [Nat.shiftRight_eq_div_pow]
  omega

/-- first use (cursor not yet set): no selector draws its stay/go word; the non-random selectors
activate entry 0, the random ones do the random pick. -/
theorem first_use (g : Group) (hc : g.cur = none) (hne : g.entries ≠ []) (e : Bool) (ds : List Nat) :
    ((g.sel == selRandom || g.sel == selSemiRandom) = false →
        switch g e ds = .ok ({ g with cur := g.entries[0]? }, true, ds)) ∧
    (g.sel = selRandom ∨ g.sel = selSemiRandom → switch g e ds = pick g ds) :=
  ⟨switch_first g e ds hc hne, switch_first_random g e ds hc hne⟩

/-! ### Non-vacuity: a concrete three-group profile meets every hypothesis and the model computes -/

def exE (p w : Nat) : Entry :=
  { ptr := p, weight := clampWeight w, hosts := [[p.toUInt8], [0x41]], w := 10 + p, t := 20 + p, sleep := 1000 + p,
    jitter := p, kill := 0, kds := false, work := 0, keys := [], conn := 2 }

def exG (sel : Nat) : Group :=
  match buildTail [(exE 0 5, 0), (exE 1 200, sel), (exE 2 50, 0)] with
  | .group g => g
  | _ => { cur := none, entries := [], sel := 0 }

example : buildTail [(exE 0 5, 0), (exE 1 200, selRoundRobin), (exE 2 50, 0)] = .group (exG selRoundRobin) := by
  decide
example : (exG selRoundRobin).WF ∧ (exG selRoundRobin).entries.map (·.ptr) = [1, 2, 0] ∧
    (exG selRoundRobin).entries.map (·.weight) = [100, 50, 5] ∧ Plain (exG selRoundRobin).sel := by
  refine ⟨⟨by decide, fun c h => by cases h⟩, by decide, by decide, by decide⟩
/-- round-robin really cycles 1 → 2 → 0 → 1 (ptrs), Next hands out the active entry's wrapper -/
example : (match run (exG selRoundRobin) [(.next, []), (.switch false, []), (.switch true, []), (.switch false, []), (.next, [0])] with
    | .ok (g, os) => (g.cur.map (·.ptr), os)
    | .panic _ => (none, [])) =
    (some 1, [.next [1] 11 21, .switched true, .switched true, .switched true, .next [1] 11 21]) := by
  decide
/-- last-valid stays on Switch(false) and moves on Switch(true); semi-round-robin stays on a word
with FastRandN(4) ≠ 0 and moves on the word 0 -/
example : (match run (exG selLastValid) [(.switch false, []), (.switch false, []), (.switch true, []), (.sleep, [])] with
    | .ok (g, os) => (g.cur.map (·.ptr), os)
    | .panic _ => (none, [])) = (some 2, [.switched true, .switched false, .switched true, .sleep 1002]) := by
  decide
example : (match run (exG selSemiRoundRobin) [(.switch false, []), (.switch true, [2^30]), (.switch false, [0])] with
    | .ok (g, os) => (g.cur.map (·.ptr), os)
    | .panic _ => (none, [])) = (some 2, [.switched true, .switched false, .switched true]) := by
  decide

/-! ### the consumer: what `(*Session).listen` reports to the selector -/

/-- Over the whole connection loop of a client Session (model XMT/ClientLoop.lean of c2/session.go
`listen`; any configuration, PRNG words, number of turns, and ANY script of connect errors, failed
exchanges and successful exchanges): `Switch` is called once per connection attempt, and the k-th
call is given `true` exactly when attempt k-1 failed; the first call is given `false`. "Last-valid
changes only after a reported failure" rests on this report. -/
theorem listen_reports_failures (c : Client.Cfg) (q : Nat → Nat) (script : Nat → Client.Res) (fuel : Nat) (now : Int) :
    (Client.run c q script fuel { now := now }).sw =
      (List.range (Client.run c q script fuel { now := now }).ci).map
        (fun k => decide (k > 0) && (script (k - 1) != .ok)) := by
  have h := Client.run_sw c q script 0 fuel { now := now } ⟨⟨Nat.le_refl _, rfl⟩, rfl⟩
  obtain ⟨_, h2⟩ := h
  rw [h2]
  simp only [Nat.sub_zero, Nat.zero_add]
  rfl

-- concrete: exchange fails, connect fails, exchange succeeds, … : reports false, true, true, false
example : (Client.run { sleep := 1000000, jitter := 0, kill := none, work := none, off := 0 } (fun _ => 0)
    (fun k => [Client.Res.sessErr, .fail, .ok, .ok].getD k .fail) 4 { now := 0 }).sw = [false, true, true, false] := by decide

/-! ### the host container of the `ews && implant` build (c2/x_ews.go; model XMT/HostBox.lean,
tied to the real file by the differential group `ews`: the harness mounts a copy of the CURRENT
c2/x_ews.go into its own package and drives it with the same Set/Wrap/Unwrap sequences) -/

/-- Whatever the container held before (any length, wrapped or not), after `Set(h)` it hands out
exactly `h`: "the host handed out always belongs to the active group" does not depend on the hosts
of earlier groups being shorter or longer. -/
theorem hostbox_set_hands_out (c : HostBox.Box) (h : Bytes) : HostBox.string (HostBox.set c h) = h :=
  HostBox.set_string c h

/-- Over any number of turns of the connection loop (Unwrap, Set on a switch, Connect with String(),
Wrap with 16 fresh PRNG bytes), for all hosts and all PRNG draws, the host given to the connector in
every turn is the host of the last switch (the one set before the loop when there was none). -/
theorem hostbox_loop_hands_out_active (c : HostBox.Box) (cur : Bytes) (ts : List HostBox.Turn)
    (hinv : HostBox.string (HostBox.unwrap c) = cur) (hk : c.k ≠ [])
    (hd : ∀ t ∈ ts, t.draws ≠ []) :
    HostBox.observed c ts = HostBox.expected cur ts :=
  HostBox.observed_eq c cur ts hinv hk hd

-- non-vacuous: long host, then a shorter one, then a longer one again (shrink-then-grow), wrapped between
example : HostBox.observed (HostBox.set HostBox.empty [1,2,3,4,5,6])
    [⟨none, List.replicate 16 7⟩, ⟨some [9,9], List.replicate 16 0⟩, ⟨some [1,2,3,4], List.replicate 16 200⟩, ⟨none, List.replicate 16 3⟩]
    = [[1,2,3,4,5,6], [9,9], [1,2,3,4], [1,2,3,4]] := by decide
example : HostBox.string (HostBox.unwrap (HostBox.set HostBox.empty [1,2,3])) = [1,2,3] ∧ (HostBox.set HostBox.empty [1,2,3]).k ≠ [] := by decide

end XMT.Props.C17
