/-
  C18 — Task, filter and launcher descriptions decode to what the operator encoded.
  Property theorems, tie obligations and non-vacuity examples only; lemmas live in XMT/Task*.lean.

  Shape of the argument
  * Process / DLL / Zombie / Assembly: the writer trace (server-only file) and the reader trace
    (implant file) are REGENERATED from the Go source on every run (`Facts.c18_schema_*`); the
    generic schema codec round-trips for every schema (`schema_roundtrip_*`), so each type needs
    only three obligations on the current facts, closed by `decide`: the traces are recognised
    schemas, they are equal, and they mention every field of the struct.
  * Filter, sentinelPath, Sentinel, file frame: hand-written models (guards / loop); the
    normalised source of every modelled function is compared with the text the model was written
    from (`tie_*`).
-/
import XMT.TaskLemmas
namespace XMT.Props.C18
open XMT XMT.Codec XMT.Task

/-! ### Generic schema codec -/

/-- Any schema, any well-typed description, in-memory reader (a task Packet): decoding returns
every field in order — filters normalised — and leaves exactly the trailing bytes. -/
theorem schema_roundtrip_chunk (W : Schema) (ρ : Rec) (hw : WT W ρ) (rest : Bytes) :
    decS chunkPrim W (encS W ρ ++ rest) = .ok (normRec W ρ, rest) := by
  obtain ⟨s', e, a, _⟩ := decS_ok chunk_lawful W ρ hw (encS W ρ ++ rest) rest trivial rfl
  simp only [id] at a; subst a; exact e

/-- The same through the stream reader, for every way the io.Reader splits the bytes. -/
theorem schema_roundtrip_stream (W : Schema) (ρ : Rec) (hw : WT W ρ) (rest : Bytes) (cs : Stream)
    (hne : NoEmpty cs) (hcs : cs.flatten = encS W ρ ++ rest) :
    ∃ cs', decS streamPrim W cs = .ok (normRec W ρ, cs') ∧ cs'.flatten = rest := by
  obtain ⟨s', e, a, _⟩ := decS_ok stream_lawful W ρ hw cs rest hne hcs
  exact ⟨s', e, a⟩

/-- Normalisation touches nothing but empty filters. -/
theorem norm_only_empty_filters (v : FVal) (h : ∀ f, v = .filter (some f) → f.isEmpty = false) :
    normF v = v := by
  cases v with
  | prim v => rfl
  | filter f =>
    cases f with
    | none => rfl
    | some f => simp [normF, normPtr, h f rfl]

/-- The decoded description, read field by field: every field the schema mentions has the encoded
value (normalised). With the coverage clause of `TaskRoundTrips` this is every field of the struct. -/
theorem decoded_fields (W : Schema) (ρ : Rec) (f : String) (h : f ∈ W.map Prod.fst) :
    (normRec W ρ).lookup f = some (normF (ρ f)) :=
  normRec_lookup W ρ f h

/-! ### The four task descriptions (schemas extracted from the current source) -/

/-- `task.Process`: `Process.MarshalStream` (v_process.go) ⇄ `(*Process).UnmarshalStream` (process.go). -/
theorem process_roundtrip :
    TaskRoundTrips Facts.c18_schema_Process_marshal Facts.c18_schema_Process_unmarshal
      Facts.c18_fields_Process :=
  taskRoundTrips_of_tie _ _ _ (by decide) (by decide) (by decide)

/-- `task.DLL`: v_dll.go ⇄ dll.go. -/
theorem dll_roundtrip :
    TaskRoundTrips Facts.c18_schema_DLL_marshal Facts.c18_schema_DLL_unmarshal
      Facts.c18_fields_DLL :=
  taskRoundTrips_of_tie _ _ _ (by decide) (by decide) (by decide)

/-- `task.Zombie`: zombie.go (both directions). -/
theorem zombie_roundtrip :
    TaskRoundTrips Facts.c18_schema_Zombie_marshal Facts.c18_schema_Zombie_unmarshal
      Facts.c18_fields_Zombie :=
  taskRoundTrips_of_tie _ _ _ (by decide) (by decide) (by decide)

/-- `task.Assembly`: v_assembly.go ⇄ assembly.go. -/
theorem assembly_roundtrip :
    TaskRoundTrips Facts.c18_schema_Assembly_marshal Facts.c18_schema_Assembly_unmarshal
      Facts.c18_fields_Assembly :=
  taskRoundTrips_of_tie _ _ _ (by decide) (by decide) (by decide)

/-! ### Process filter -/

/-- `(*Filter).MarshalStream` ⇄ `filter.UnmarshalStream(r, &f)` (pointer field of a task): the
decoded filter is the encoded one with empty filters normalised to nil; exact consumption; both
readers, every chunking. -/
theorem filter_roundtrip_ptr (f : Option Filter) (hf : (FVal.filter f).WF) (rest : Bytes) :
    decFilterPtr chunkPrim (encFilter f ++ rest) = .ok (normPtr f, rest) ∧
    ∀ cs : Stream, NoEmpty cs → cs.flatten = encFilter f ++ rest →
      ∃ cs', decFilterPtr streamPrim cs = .ok (normPtr f, cs') ∧ cs'.flatten = rest := by
  constructor
  · obtain ⟨s', e, a, _⟩ := filterPtr_ok chunk_lawful f hf (encFilter f ++ rest) rest trivial rfl
    simp only [id] at a; subst a; exact e
  · intro cs hne hcs
    obtain ⟨s', e, a, _⟩ := filterPtr_ok stream_lawful f hf cs rest hne hcs
    exact ⟨s', e, a⟩

/-- `(*Filter).MarshalStream` ⇄ `(*Filter).UnmarshalStream(r)` on an embedded value (Sentinel,
`taskElevate`): empty filters come back as the zero value. -/
theorem filter_roundtrip_val (f : Filter) (hf : f.WF) (rest : Bytes) :
    decFilterVal chunkPrim (encFilter (some f) ++ rest) = .ok (normVal f, rest) ∧
    ∀ cs : Stream, NoEmpty cs → cs.flatten = encFilter (some f) ++ rest →
      ∃ cs', decFilterVal streamPrim cs = .ok (normVal f, cs') ∧ cs'.flatten = rest := by
  constructor
  · obtain ⟨s', e, a, _⟩ := filterVal_ok chunk_lawful f hf (encFilter (some f) ++ rest) rest trivial rfl
    simp only [id] at a; subst a; exact e
  · intro cs hne hcs
    obtain ⟨s', e, a, _⟩ := filterVal_ok stream_lawful f hf cs rest hne hcs
    exact ⟨s', e, a⟩

/-- What "normalisation of empty filters" is, exactly: a non-empty filter is untouched; an empty
one (which can differ from the zero filter only in `Fallback`) becomes nil / the zero filter. -/
theorem filter_norm (f : Filter) :
    (f.isEmpty = false → normPtr (some f) = some f ∧ normVal f = f) ∧
    (f.isEmpty = true → normPtr (some f) = none ∧ normVal f = Filter.zero ∧
      f = { Filter.zero with fallback := f.fallback }) := by
  have hE : Facts.c18_filterEmpty = 0 := by decide
  constructor
  · intro h; simp [normPtr, normVal, h]
  · intro h
    refine ⟨by simp [normPtr, h], by simp [normVal, h], ?_⟩
    obtain ⟨ex, inc, pid, fb, se, el⟩ := f
    simp only [Filter.isEmpty, hE, Bool.and_eq_true, beq_iff_eq, List.length_eq_zero_iff] at h
    obtain ⟨⟨⟨⟨h1, h2⟩, h3⟩, h4⟩, h5⟩ := h
    have h2' : se = 0 := UInt8.toNat_inj.mp (by simpa using h2)
    have h3' : el = 0 := UInt8.toNat_inj.mp (by simpa using h3)
    subst h1 h2' h3' h4 h5
    rfl

/-! ### Launcher description (man.Sentinel) -/

/-- One launcher path: kinds below `sentPathDownload` have no argument list on the wire. -/
theorem sentinelPath_roundtrip (p : SPath) (hp : p.WF) (rest : Bytes) :
    decPath chunkPrim (encPath p ++ rest) = .ok (normPath p, rest) ∧
    (p.t.toNat < Facts.c18_sentPathDownload → p.extra = [] → normPath p = p) ∧
    (Facts.c18_sentPathDownload ≤ p.t.toNat → normPath p = p) := by
  refine ⟨?_, ?_, ?_⟩
  · obtain ⟨s', e, a, _⟩ := decPath_ok chunk_lawful p hp (encPath p ++ rest) rest trivial rfl
    simp only [id] at a; subst a; exact e
  · intro h1 h2
    obtain ⟨t, path, extra⟩ := p
    simp only at h2; subst h2
    simp [normPath]
  · intro h
    have : ¬ p.t.toNat < Facts.c18_sentPathDownload := by omega
    simp [normPath, this]

/-- Descriptions the public constructors (`AddExecute/AddDLL/AddASM/AddDownload/AddZombie`) can
build: an argument list only on kinds that have one. -/
def Constructible (x : Sentinel) : Prop :=
  ∀ p ∈ x.paths, p.t.toNat < Facts.c18_sentPathDownload → p.extra = []

def SentinelWF (x : Sentinel) : Prop := x.filter.WF ∧ ∀ p ∈ x.paths, p.WF

/-- What a persisted description decodes to, for EVERY description: its first `0xFFFF` paths
(normalised) and its filter (normalised); exactly the written bytes are consumed. -/
theorem sentinel_decodes_prefix (x : Sentinel) (hx : SentinelWF x) (rest : Bytes) :
    decSentinel chunkPrim (encSentinel x ++ rest) = .ok (normSentinel x, rest) ∧
    ∀ cs : Stream, NoEmpty cs → cs.flatten = encSentinel x ++ rest →
      ∃ cs', decSentinel streamPrim cs = .ok (normSentinel x, cs') ∧ cs'.flatten = rest := by
  constructor
  · obtain ⟨s', e, a, _⟩ := decSentinel_ok chunk_lawful x hx.1 hx.2 (encSentinel x ++ rest) rest trivial rfl
    simp only [id] at a; subst a; exact e
  · intro cs hne hcs
    obtain ⟨s', e, a, _⟩ := decSentinel_ok stream_lawful x hx.1 hx.2 cs rest hne hcs
    exact ⟨s', e, a⟩

/-
  -- FULL STATEMENT (false, see `sentinel_truncation_witness`; recorded as known finding
  -- `sentinel:paths-truncated`): for every constructible description x, whatever the number of
  -- paths,  decSentinel (encSentinel x) = ok ({x with filter := normVal x.filter}, []).
  -- The wire format carries a uint16 count, so the statement holds exactly up to 65535 paths:
-/

/-- Equality (modulo the empty-filter normalisation) for every constructible description with at
most `0xFFFF` paths. -/
theorem sentinel_roundtrip_partial (x : Sentinel) (hx : SentinelWF x) (hc : Constructible x)
    (hn : x.paths.length ≤ maxPaths) (rest : Bytes) :
    decSentinel chunkPrim (encSentinel x ++ rest) = .ok ({ x with filter := normVal x.filter }, rest) := by
  have h := (sentinel_decodes_prefix x hx rest).1
  have hnorm : normSentinel x = { x with filter := normVal x.filter } := by
    simp only [normSentinel, List.take_of_length_le hn]
    congr 1
    have : ∀ ps : List SPath, (∀ p ∈ ps, p.t.toNat < Facts.c18_sentPathDownload → p.extra = []) →
        ps.map normPath = ps := by
      intro ps
      induction ps with
      | nil => intro _; rfl
      | cons p ps ih =>
        intro h
        have hp := h p List.mem_cons_self
        have : normPath p = p := by
          by_cases ht : p.t.toNat < Facts.c18_sentPathDownload
          · obtain ⟨t, path, extra⟩ := p
            have := hp ht
            simp only at this; subst this
            simp [normPath]
          · simp [normPath, ht]
        simp [this, ih (fun q hq => h q (List.mem_cons_of_mem _ hq))]
    exact this x.paths hc
  rw [h, hnorm]

/-- Negation of the full statement: a description with more than `0xFFFF` paths does NOT come
back — the decoder returns a strictly shorter path list. -/
theorem sentinel_truncates (x : Sentinel) (hx : SentinelWF x) (hn : x.paths.length > maxPaths) :
    ∃ y, decSentinel chunkPrim (encSentinel x) = .ok (y, []) ∧ y.paths.length = maxPaths ∧
      y.paths ≠ x.paths := by
  have h := (sentinel_decodes_prefix x hx []).1
  simp only [List.append_nil] at h
  refine ⟨normSentinel x, h, ?_, ?_⟩
  · simp only [normSentinel, List.length_map, List.length_take]; omega
  · intro he
    have := congrArg List.length he
    simp only [normSentinel, List.length_map, List.length_take] at this
    omega

/-- 65536 × `AddExecute("a")` -/
def truncWitness : Sentinel := ⟨List.replicate 65536 ⟨0, [97], []⟩, Filter.zero⟩

/-- … on a concrete witness. -/
theorem sentinel_truncation_witness :
    ∃ y, decSentinel chunkPrim (encSentinel truncWitness) = .ok (y, []) ∧
      y.paths ≠ truncWitness.paths := by
  have hx : SentinelWF truncWitness := by
    refine ⟨?_, ?_⟩
    · show Filter.zero.WF
      simp [Filter.WF, Filter.zero, Val.WF]
    intro p hp
    have : p = ⟨0, [97], []⟩ := List.eq_of_mem_replicate hp
    subst this
    exact ⟨by decide, by decide, by simp⟩
  have hlen : truncWitness.paths.length > maxPaths := by
    show (List.replicate 65536 _).length > maxPaths
    rw [List.length_replicate]; decide
  obtain ⟨y, h1, _, h3⟩ := sentinel_truncates truncWitness hx hlen
  exact ⟨y, h1, h3⟩

/-! ### Launcher file: IV ++ CTR(codec) -/

/-- `Sentinel.Read(c, ·) ∘ Sentinel.Write(c, ·)` for every cipher (the CTR keystream is an
arbitrary function of the IV — i.e. all keys), every IV of block size, and every way the file is
delivered in short reads: the description of `sentinel_decodes_prefix` comes back and exactly the
written bytes are consumed (`rest`, whatever follows, is still unread). -/
theorem sentinel_file_roundtrip (c : Cipher) (hb : c.blockSize ≠ 0) (iv : Bytes)
    (hiv : iv.length = c.blockSize) (x : Sentinel) (hx : SentinelWF x) (rest : Bytes) (cs : Stream)
    (hne : NoEmpty cs) (hcs : cs.flatten = sentinelWrite (some c) iv x ++ rest) :
    ∃ cs', sentinelRead (some c) cs = .ok (normSentinel x, cs') ∧
      cs'.flatten = xorAt (c.ks iv) (encSentinel x).length rest :=
  sentinelRead_cipher_ok c hb iv hiv x hx.1 hx.2 rest cs hne hcs

/-- Without encryption (`c == nil` or block size 0). -/
theorem sentinel_file_roundtrip_plain (c : Option Cipher) (hc : ∀ c', c = some c' → c'.blockSize = 0)
    (iv : Bytes) (x : Sentinel) (hx : SentinelWF x) (rest : Bytes) (cs : Stream)
    (hne : NoEmpty cs) (hcs : cs.flatten = sentinelWrite c iv x ++ rest) :
    ∃ cs', sentinelRead c cs = .ok (normSentinel x, cs') ∧ cs'.flatten = rest :=
  sentinelRead_plain_ok c hc iv x hx.1 hx.2 rest cs hne hcs

/-- The encrypted file really is encrypted with the keystream and is `blockSize` bytes longer. -/
theorem sentinel_file_length (c : Cipher) (hb : c.blockSize ≠ 0) (iv : Bytes)
    (hiv : iv.length = c.blockSize) (x : Sentinel) :
    (sentinelWrite (some c) iv x).length = c.blockSize + (encSentinel x).length := by
  simp [sentinelWrite, hb, xorAt_length, hiv]

/-! ### Tie: the hand-written models against the normalised source of the modelled functions -/

theorem tie_filter :
    Facts.c18_body_Filter_isEmpty =
      ["ret f.PID == 0 && f.Session == Empty && f.Elevated == Empty && len(f.Exclude) == 0 && len(f.Include) == 0"] ∧
    Facts.c18_body_Filter_MarshalStream =
      ["if f == nil || f.isEmpty() {", "ret w.WriteBool(false)", "}", "w.WriteBool(true)",
       "w.WriteUint32(f.PID)", "w.WriteBool(f.Fallback)", "w.WriteUint8(uint8(f.Session))",
       "w.WriteUint8(uint8(f.Elevated))", "data.WriteStringList(w, f.Exclude)",
       "ret data.WriteStringList(w, f.Include)"] ∧
    Facts.c18_body_Filter_unmarshalStream =
      ["r.ReadUint32(&f.PID)", "r.ReadBool(&f.Fallback)", "r.ReadUint8((*uint8)(&f.Session))",
       "r.ReadUint8((*uint8)(&f.Elevated))", "data.ReadStringList(r, &f.Exclude)",
       "ret data.ReadStringList(r, &f.Include)"] ∧
    Facts.c18_body_Filter_UnmarshalStream =
      ["v, err := r.Bool()", "if err != nil {", "ret err", "}", "if !v {", "ret nil", "}",
       "if f == nil {", "f = new(Filter)", "}", "ret f.unmarshalStream(r)"] ∧
    Facts.c18_body_filter_UnmarshalStream =
      ["v, err := r.Bool()", "if err != nil {", "ret err", "}", "if !v {", "ret nil", "}",
       "if *f == nil {", "*f = new(Filter)", "}", "ret (*f).unmarshalStream(r)"] ∧
    Facts.c18_fields_Filter = ["Exclude", "Include", "PID", "Fallback", "Session", "Elevated"] ∧
    Facts.c18_filterEmpty = 0 := by
  decide

theorem tie_sentinelPath :
    Facts.c18_body_sentinelPath_MarshalStream =
      ["w.WriteUint8(p.t)", "w.WriteString(p.path)", "if p.t < sentPathDownload {", "ret nil", "}",
       "ret data.WriteStringList(w, p.extra)"] ∧
    Facts.c18_body_sentinelPath_UnmarshalStream =
      ["r.ReadUint8(&p.t)", "r.ReadString(&p.path)", "if p.t < sentPathDownload {", "ret nil", "}",
       "ret data.ReadStringList(r, &p.extra)"] ∧
    Facts.c18_fields_sentinelPath = ["path", "extra", "t"] ∧
    Facts.c18_sentPathDownload ≤ Facts.c18_sentPathZombie ∧ Facts.c18_sentPathZombie < 256 := by
  decide

theorem tie_sentinel :
    Facts.c18_body_Sentinel_MarshalStream =
      ["s.Filter.MarshalStream(w)", "n := len(s.paths)", "if n > 0xFFFF {", "n = 0xFFFF", "}",
       "w.WriteUint16(uint16(n))", "for i := 0; i < n; i++ {", "s.paths[i].MarshalStream(w)", "}",
       "ret nil"] ∧
    Facts.c18_body_Sentinel_UnmarshalStream =
      ["s.Filter.UnmarshalStream(r)", "n, err := r.Uint16()", "if err != nil {", "ret err", "}",
       "s.paths = make([]sentinelPath, n)", "for i := uint16(0); i < n; i++ {",
       "s.paths[i].UnmarshalStream(r)", "}", "ret nil"] ∧
    Facts.c18_fields_Sentinel = ["paths", "Filter"] ∧ maxPaths = 0xFFFF := by
  decide

theorem tie_frame :
    Facts.c18_body_Sentinel_write = ["ret s.MarshalStream(data.NewWriter(w))"] ∧
    Facts.c18_body_Sentinel_read = ["ret s.UnmarshalStream(data.NewReader(r))"] ∧
    Facts.c18_body_Sentinel_Write =
      ["if c == nil || c.BlockSize() == 0 {", "ret s.write(w)", "}",
       "var ( k = make([]byte, c.BlockSize()) _, err = rand.Read(k) )", "if err != nil {", "ret err",
       "}", "n, err := w.Write(k)", "if err != nil {", "ret err", "}", "if n != c.BlockSize() {",
       "ret io.ErrShortWrite", "}", "o, err := crypto.NewBlockWriter(c, k, w)", "if err != nil {",
       "ret err", "}", "err = s.write(o)", "o.Close()", "ret err"] ∧
    Facts.c18_body_Sentinel_Read =
      ["if c == nil || c.BlockSize() == 0 {", "ret s.read(r)", "}",
       "var ( k = make([]byte, c.BlockSize()) n, err = io.ReadFull(r, k) )", "if err != nil {",
       "ret err", "}", "if n != c.BlockSize() {", "ret io.ErrUnexpectedEOF", "}",
       "i, err := crypto.NewBlockReader(c, k, r)", "if err != nil {", "ret err", "}",
       "err = s.read(i)", "i.Close()", "ret err"] := by
  decide

/-! ### Non-vacuity -/

/-- A non-trivial Process description (arguments, a non-empty filter, stdin) satisfies `WT` for
the schema extracted from the current source … -/
def sampleRec : Rec := fun n =>
  match n with
  | "Args" => .prim (.strs [[99, 109, 100], [47, 99]])
  | "Env" => .prim (.strs [])
  | "Dir" | "User" | "Domain" | "Pass" => .prim (.bytes [120])
  | "Stdin" | "Data" | "Path" => .prim (.bytes [1, 2, 3])
  | "Wait" | "Hide" => .prim (.bool true)
  | "Flags" => .prim (.u32 7)
  | "Timeout" => .prim (.u64 1000000000)
  | "Filter" => .filter (some ⟨[[97]], [], 4, true, 2, 0⟩)
  | _ => .prim (.bool false)

example : ∃ W, schemaOf Facts.c18_schema_Process_marshal = some W ∧ W.length = 12 ∧ WT W sampleRec := by
  refine ⟨_, rfl, by decide, ?_⟩
  intro e he
  simp only [List.mem_cons, List.not_mem_nil, or_false] at he
  rcases he with rfl | rfl | rfl | rfl | rfl | rfl | rfl | rfl | rfl | rfl | rfl | rfl <;>
    simp [sampleRec, FVal.ty, FVal.WF, Val.ty, Val.WF, Filter.WF, Facts.maxSlice]

/-- … and the model really computes: the encoding of an Assembly description and its decoding. -/
example : ∃ W, schemaOf Facts.c18_schema_Assembly_marshal = some W ∧
    encS W sampleRec = [1, 0, 0, 0, 0, 59, 154, 202, 0, 1, 0, 0, 0, 4, 1, 2, 0, 1, 1, 1, 1, 97, 0, 1, 3, 1, 2, 3] ∧
    decS chunkPrim W (encS W sampleRec ++ [9]) = .ok (normRec W sampleRec, [9]) :=
  ⟨_, rfl, by decide, by rfl⟩

example : normPtr (some ⟨[], [], 0, true, 0, 0⟩) = none ∧ encFilter (some ⟨[], [], 0, true, 0, 0⟩) = [0] := by
  decide

example : encPath ⟨1, [97], [[98]]⟩ = [1, 1, 1, 97] ∧ encPath ⟨3, [97], [[98]]⟩ = [3, 1, 1, 97, 1, 1, 1, 1, 98] := by
  decide

/-- a constructible, well-formed launcher description and its file image under a toy keystream,
read back through three short reads (the first one shorter than the IV) -/
def sampleSentinel : Sentinel :=
  ⟨[⟨0, [42], []⟩, ⟨4, [97], [[98], []]⟩], ⟨[], [[99]], 0, false, 0, 2⟩⟩
def toyCipher : Cipher := ⟨2, fun iv i => UInt8.ofNat (iv.length + i)⟩

example : SentinelWF sampleSentinel ∧ Constructible sampleSentinel ∧
    sampleSentinel.paths.length ≤ maxPaths := by
  refine ⟨⟨⟨by decide, ⟨by decide, by simp [sampleSentinel]⟩, ⟨by decide, ?_⟩⟩, ?_⟩, ?_, by decide⟩
  · intro s hs; simp [sampleSentinel] at hs; subst hs; simp [Facts.maxSlice]
  · intro p hp
    simp [sampleSentinel] at hp
    rcases hp with rfl | rfl
    · exact ⟨by decide, by decide, by simp⟩
    · refine ⟨by decide, by decide, ?_⟩
      intro s hs; simp at hs; rcases hs with rfl | rfl <;> simp [Facts.maxSlice]
  · intro p hp
    simp [sampleSentinel] at hp
    rcases hp with rfl | rfl
    · intro _; rfl
    · intro h; exact absurd h (by decide)

example : sentinelWrite (some toyCipher) [7, 7] sampleSentinel =
    [7, 7, 3, 3, 4, 5, 6, 7, 8, 11, 10, 10, 13, 12, 15, 108, 16, 19, 18, 18, 21, 63, 18, 22, 25, 120,
     27, 25, 29, 28, 124, 31] := by decide

example : sentinelRead (some toyCipher) [[7], [7, 3], [3, 4, 5, 6, 7, 8, 11, 10, 10, 13, 12, 15, 108,
    16, 19, 18, 18, 21, 63, 18, 22, 25, 120, 27, 25, 29, 28, 124, 31]] = .ok (sampleSentinel, []) := by
  rfl

end XMT.Props.C18
