/-
  C19 — Sleep, jitter, work hours and kill date gate activity exactly as configured.
  Property theorems only; models in XMT/{Work,Jitter,ClientLoop}.lean, lemmas in XMT/*Lemmas.lean.

  The literals the Go code compares against (`> 126`, `< 127`, `> 23`, `> 60`, `< 101`, `== 100`,
  `w <= 0`, where the kill date is tested) are read from the current source into `XMT.Facts`;
  what a proof needs from them is the decidable proposition `…FactsOK`, closed by `decide` inside
  each proof, so a change of one of those literals re-runs the proofs against the new value.
-/
import XMT.ClientLoopLemmas
import XMT.TieXlateWait
namespace XMT.Props.C19
open XMT XMT.Work XMT.Jitter XMT.Client

/-! ### Work hours -/

/-- For every rule whose end is not before its start and every instant of a (DST-free) day:
`Work()` says "wait" (> 0) exactly when the local time is outside the configured days /
start–end window and "go" (= 0) otherwise; the wait is never longer than a day. -/
theorem work_spec (r : Rule) (t : Inst) (ht : t.WF) (hr : EndNotBeforeStart r) :
    (0 < work r t ↔ Outside r t) ∧ (work r t = 0 ↔ ¬ Outside r t) ∧
    0 ≤ work r t ∧ work r t ≤ nsDay := by
  have hf : Work.FactsOK := by decide
  have hrange := Client.work_range hf r t ht
  have hs := startOf_bounds hf r
  have key : 0 < work r t ↔ Outside r t := by
    rw [work_eq_workSpec hf r t ht]
    obtain ⟨_, h0, h1⟩ := ht
    unfold workSpec Outside
    by_cases hd : dayIn r t.wd
    · simp only [hd, not_true_eq_false, if_false, false_or]
      by_cases hst : t.ns < startOf r
      · simp only [hst, if_true, true_or, iff_true]; omega
      · simp only [hst, if_false, false_or]
        cases he : endOf r with
        | none => simp
        | some e =>
          have hle := hr e he
          have h2 : ¬ e < startOf r := by omega
          simp only [h2, if_false, Option.some.injEq, exists_eq_left']
          by_cases h3 : e < t.ns
          · simp only [h3, if_true, iff_true]; omega
          · simp [h3]
    · simp only [hd, not_false_eq_true, if_true, true_or, iff_true]; omega
  refine ⟨key, ?_, hrange.1, hrange.2⟩
  constructor
  · intro h0 ho; have := key.mpr ho; omega
  · intro hno
    have : ¬ 0 < work r t := fun h => hno (key.mp h)
    omega

/-- `Work()` never returns a negative duration or more than a day, for every rule whatsoever
(out-of-range fields, end before start). -/
theorem work_range (r : Rule) (t : Inst) (ht : t.WF) : 0 ≤ work r t ∧ work r t ≤ nsDay :=
  Client.work_range (by decide) r t ht

/-- What is waited for: the next local midnight when the day is not selected, today's start when it
is still ahead, tomorrow's start once the end has passed. -/
theorem work_value (r : Rule) (t : Inst) (ht : t.WF) (hr : EndNotBeforeStart r) :
    (¬ dayIn r t.wd → work r t = nsDay - t.ns) ∧
    (dayIn r t.wd → t.ns < startOf r → work r t = startOf r - t.ns) ∧
    (dayIn r t.wd → ∀ e, endOf r = some e → e < t.ns → work r t = startOf r + nsDay - t.ns) := by
  have hf : Work.FactsOK := by decide
  rw [work_eq_workSpec hf r t ht]
  unfold workSpec
  refine ⟨fun hd => by simp [hd], fun hd hs => by simp [hd, hs], fun hd e he hlt => ?_⟩
  have hle := hr e he
  have h1 : ¬ t.ns < startOf r := by omega
  have h2 : ¬ e < startOf r := by omega
  simp [hd, h1, he, h2, hlt]

/-- An `Empty()` rule never makes the client wait. -/
theorem empty_never_waits (r : Rule) (t : Inst) (h : empty r = true) : work r t = 0 := by
  have hA : Facts.c19EmptyDaysAbove = Facts.c19WorkDaysAbove := by decide
  have : restAll r = true := by
    unfold empty at h; unfold restAll
    rw [hA] at h
    simp only [Bool.and_eq_true] at h ⊢
    obtain ⟨⟨⟨⟨h1, h2⟩, h3⟩, h4⟩, h5⟩ := h
    exact ⟨⟨⟨⟨h5, h1⟩, h2⟩, h3⟩, h4⟩
  unfold work; simp [this]

/-- `Verify()` accepts exactly the rules whose hours are ≤ 23 and minutes ≤ 59; for those the
window lies inside the day. -/
theorem verify_ok_iff (r : Rule) :
    verify r = none ↔ (r.sh ≤ 23 ∧ r.sm ≤ 59 ∧ r.eh ≤ 23 ∧ r.em ≤ 59) := by
  have h1 : Facts.c19VerifyEndMinMax = 59 := by decide
  have h2 : Facts.c19VerifyEndHourMax = 23 := by decide
  have h3 : Facts.c19VerifyStartMinMax = 59 := by decide
  have h4 : Facts.c19VerifyStartHourMax = 23 := by decide
  unfold verify
  rw [h1, h2, h3, h4]
  constructor
  · intro h
    split at h
    · cases h
    · split at h
      · cases h
      · split at h
        · cases h
        · split at h
          · cases h
          · omega
  · rintro ⟨a, b, c, d⟩
    have e1 : ¬ r.em > 59 := by omega
    have e2 : ¬ r.eh > 23 := by omega
    have e3 : ¬ r.sm > 59 := by omega
    have e4 : ¬ r.sh > 23 := by omega
    simp [e1, e2, e3, e4]

/-! ### Jittered delay -/

/-- For every sleep a `time.Duration` can hold (1 ns … 2^63−1 ns, so in particular from 1 ms up),
every jitter value and every PRNG stream: `wait` arms its ticker (no panic, no skipped sleep) with a
delay that is positive and at most one sleep away from the configured sleep. -/
theorem delay_positive_within_one_sleep (S : Int) (jitter : Nat) (q : Nat → Nat)
    (hS : 0 < S) (hS2 : S < 2^63) :
    ∃ w k, delay S jitter q = (.sleep w, k) ∧ 0 < w ∧ w - S ≤ S ∧ S - w ≤ S := by
  obtain ⟨w, k, h, h0, h1, _⟩ := delay_sleep (by decide) S jitter q hS hS2
  exact ⟨w, k, h, h0, by omega, by omega⟩

/-- Jitter 0 (and the values above 100, which the code treats as "off"): exactly the sleep, and
the PRNG is not consulted. -/
theorem delay_no_jitter (S : Int) (jitter : Nat) (q : Nat → Nat) (hS : 0 < S)
    (hj : jitter = 0 ∨ jitter > 100) : delay S jitter q = (.sleep S, 0) := by
  have h1 : Facts.c19SleepBelow = 1 := by decide
  have h2 : Facts.c19JitterBelow = 101 := by decide
  unfold delay
  rw [h1, h2]
  have hlt : ¬ S < ((1 : Nat) : Int) := by rw [show ((1 : Nat) : Int) = 1 from rfl]; omega
  have hjj : (decide (jitter > 0) && decide (jitter < 101)) = false := by
    rcases hj with h | h
    · subst h; rfl
    · have : ¬ jitter < 101 := by omega
      simp [this]
  simp only [hlt, if_false, hjj, Bool.false_eq_true]
  rw [tick_pos S hS]

/-- Sleeps of at most one millisecond are never jittered. -/
theorem delay_small_sleep (S : Int) (jitter : Nat) (q : Nat → Nat) (hS : 0 < S) (hS2 : S ≤ 1000000) :
    ∃ k, delay S jitter q = (.sleep S, k) := by
  obtain ⟨k, _, h | ⟨d0, neg, _, _, hms, _, _, _⟩⟩ := delay_shape (by decide) S jitter q hS (by omega)
  · exact ⟨k, by rw [h, tick_pos S hS]⟩
  · omega

/-- Below 2^62 ns (146 years) nothing wraps: the delay is the sleep, or the sleep plus or minus a
whole number `d` of milliseconds with `d < sleep / 1ms` — hence strictly within one sleep. -/
theorem delay_exact_below_2_62 (S : Int) (jitter : Nat) (q : Nat → Nat) (hS : 0 < S) (hS2 : S ≤ 2^62) :
    ∃ w k, delay S jitter q = (.sleep w, k) ∧
      (w = S ∨ ∃ d : Int, 0 ≤ d ∧ d < S / 1000000 ∧ (w = S + d * 1000000 ∨ w = S - d * 1000000)) ∧
      0 < w ∧ w < 2 * S := by
  have hf : Jitter.FactsOK := by decide
  obtain ⟨k, _, h | ⟨d0, neg, h1, h2, _, _, _, h⟩⟩ := delay_shape hf S jitter q hS (by omega)
  · exact ⟨S, k, by rw [h, tick_pos S hS], Or.inl rfl, hS, by omega⟩
  · have he := applyJitter_exact hf S d0 neg hS hS2 h1 h2
    have hb := applyJitter_bounds hf S d0 neg hS (by omega) h1 h2
    refine ⟨_, k, by rw [h, tick_pos _ hb.1], Or.inr ⟨d0, h1, h2, ?_⟩, hb.1, ?_⟩
    · cases neg
      · left; simpa using he
      · right; simpa using he
    · rw [he]; cases neg <;> simp <;> (try omega)

/-- The `w <= 0` fallback (the repair) is live: for this sleep and draw the sum is exactly 2^63,
wraps to MinInt64, whose negation is MinInt64 again; the repaired code sleeps the plain sleep
(the unrepaired `w == 0` let MinInt64 reach the ticker, which panics). -/
theorem delay_overflow_arm_live :
    i64 (4611686018428775808 + 4611686018426 * 1000000) = -2^63 ∧ i64 (-2^63 * -1) = -2^63 ∧
    applyJitter 4611686018428775808 4611686018426 false = 4611686018428775808 := by
  decide

/-! ### Kill date and the connection loop -/

-- OPEN: no_connect_after_kill — the literal clause "a client never opens a connection after its kill date":
--
--   theorem no_connect_after_kill (c : Cfg) (hc : c.WF) (q : Nat → Nat) (script : Nat → Res) (fuel : Nat)
--       (now t : Int) (sd : Bool) (r : Res)
--       (h : Ev.connect t sd r ∈ (run c q script fuel { now := now }).trace) : NotAfterKill c t
--
-- does NOT hold for the code (known finding kill:connect-after-kill:shutdown-notify; negation proved on
-- a witness below, `no_connect_after_kill_fails`): when wait() notices the kill date, listen() opens one
-- more connection to deliver the SvShutdown notification.

/-- Proved part of the kill-date clause: every connection that is not that single, final shutdown
notification is opened at or before the kill date — for every configuration, PRNG stream,
Connector behaviour and number of loop turns. -/
theorem no_connect_after_kill_partial (c : Cfg) (hc : c.WF) (q : Nat → Nat) (script : Nat → Res)
    (fuel : Nat) (now : Int) (t : Int) (r : Res)
    (h : Ev.connect t false r ∈ (run c q script fuel { now := now }).trace) : NotAfterKill c t := by
  have := (run_spec (by decide) c hc q script fuel { now := now } (inv_init c now)).1 _ h
  exact (killed_false_iff c t).mp (this rfl)

/-- The shutdown notification is sent at most once and nothing is opened after it. -/
theorem shutdown_connect_once_and_last (c : Cfg) (hc : c.WF) (q : Nat → Nat) (script : Nat → Res)
    (fuel : Nat) (now : Int) (t : Int) (r : Res)
    (h : Ev.connect t true r ∈ (run c q script fuel { now := now }).trace) :
    ∃ pre, (run c q script fuel { now := now }).trace = pre ++ [Ev.connect t true r] ∧
      ∀ t' r', Ev.connect t' true r' ∉ pre :=
  (run_spec (by decide) c hc q script fuel { now := now } (inv_init c now)).2 t r h

/-- Negation of the literal statement on a concrete run (sleep 60 s, no jitter, kill date 150 s
after the start, Connector always succeeds): connections at 60 s and 120 s, then the shutdown
notification at 180 s — after the kill date. -/
theorem no_connect_after_kill_fails :
    let c : Cfg := { sleep := 60000000000, jitter := 0, kill := some 150000000000, work := none, off := 0 }
    c.WF ∧ Ev.connect 180000000000 true .ok ∈ (run c (fun _ => 0) (fun _ => .ok) 8 { now := 0 }).trace ∧
    ¬ NotAfterKill c 180000000000 := by
  refine ⟨by decide, by decide, ?_⟩
  intro h
  have := h 150000000000 rfl
  omega

/-- In the loop every sleep is positive and within one sleep of the configured sleep, every
work-hours wait is positive and at most a day, and the loop never panics. -/
theorem loop_delays_in_range (c : Cfg) (hc : c.WF) (q : Nat → Nat) (script : Nat → Res)
    (fuel : Nat) (now : Int) :
    (∀ d, Ev.sleep d ∈ (run c q script fuel { now := now }).trace → 0 < d ∧ d ≤ 2 * c.sleep) ∧
    (∀ d, Ev.workWait d ∈ (run c q script fuel { now := now }).trace → 0 < d ∧ d ≤ nsDay) ∧
    (∀ s, Ev.panic s ∉ (run c q script fuel { now := now }).trace) := by
  have hall := (run_spec (by decide) c hc q script fuel { now := now } (inv_init c now)).1
  exact ⟨fun d h => hall _ h, fun d h => hall _ h, fun s h => hall _ h⟩

/-- `wait` is the gate: when it returns normally without the closing flag, the kill date has not
passed at that instant (this is what the re-check after the sleep provides). -/
theorem wait_gate (c : Cfg) (hc : c.WF) (q : Nat → Nat) (st : St)
    (h1 : (wait c q st).halted = false) (h2 : (wait c q st).closing = false) :
    NotAfterKill c (wait c q st).now :=
  (killed_false_iff c _).mp ((wait_spec (by decide) c hc q st).2.2 h1 h2)

/-- First contact (`connectContextInner`): `p.Connect` is only reached while the kill date has not
passed (after the optional work-hours sleep). -/
theorem first_connect_not_after_kill (c : Cfg) (now t : Int) (h : firstConnect c now = some t) :
    NotAfterKill c t := by
  unfold firstConnect at h
  cases hk : killed c (firstNow c now) with
  | true => rw [hk] at h; simp at h
  | false =>
    rw [hk] at h
    simp at h
    subst h
    exact (killed_false_iff c _).mp hk

/-! ### Non-vacuity: the hypotheses are met by non-trivial instances and the models compute. -/

-- Monday–Friday 09:00–17:30, Tuesday 08:59:59.999999999 → wait 1 ns; 17:30:00 → go; +1 ns → wait
example :
    let r : Rule := ⟨62, 9, 0, 17, 30⟩
    r.WF ∧ EndNotBeforeStart r ∧ (⟨2, 32399999999999⟩ : Inst).WF ∧
    work r ⟨2, 32399999999999⟩ = 1 ∧ work r ⟨2, 63000000000000⟩ = 0 ∧
    work r ⟨2, 63000000000001⟩ = 55799999999999 ∧ work r ⟨6, 0⟩ = 86400000000000 ∧
    Outside r ⟨6, 0⟩ ∧ ¬ Outside r ⟨2, 63000000000000⟩ := by decide
-- start == end is a one-instant window; Saturday → Sunday; minute 60 carries
example : work ⟨0, 9, 0, 9, 0⟩ ⟨1, 32400000000000⟩ = 0 ∧ work ⟨0, 9, 0, 9, 0⟩ ⟨1, 32400000000001⟩ = 86399999999999 ∧
    work ⟨64, 0, 0, 0, 0⟩ ⟨0, 0⟩ = 86400000000000 ∧ work ⟨0, 9, 60, 0, 0⟩ ⟨3, 35999999999999⟩ = 1 ∧
    verify ⟨0, 9, 60, 0, 0⟩ = some .startMin ∧ ¬ EndNotBeforeStart ⟨0, 17, 0, 9, 0⟩ := by decide
-- jitter: 60 s, jitter 100, draw 5 ms, plus / minus; a 146-year sleep is a legal hypothesis instance
example : delay 60000000000 100 (fun i => [0, 5, 0].getD i 0) = (.sleep 60005000000, 3) ∧
    delay 60000000000 100 (fun i => [0, 5, 2147483648].getD i 0) = (.sleep 59995000000, 3) ∧
    delay 60000000000 0 (fun _ => 7) = (.sleep 60000000000, 0) ∧
    (0 : Int) < 4611686018428775808 ∧ (4611686018428775808 : Int) < 2^63 := by decide
-- kill date inside the sleep: the repaired wait() closes, the loop makes no regular connection after it
example :
    let c : Cfg := { sleep := 60000000000, jitter := 0, kill := some 150000000000, work := none, off := 0 }
    c.WF ∧ (run c (fun _ => 0) (fun _ => .ok) 8 { now := 0 }).trace =
      [.sleep 60000000000, .connect 60000000000 false .ok, .sleep 60000000000, .connect 120000000000 false .ok,
       .sleep 60000000000, .connect 180000000000 true .ok] := by decide

/-! ### The delay computation of the CURRENT source (session 3, translator part 2)

`XMT.TieXlateWait.srcDelay` is the guard `s.sleep < 1`, the statements of `(*Session).wait` from
`w := s.sleep` to the arming of the ticker as REGENERATED from c2/session.go on every run
(`Facts.x_c2_Session_wait_delay`: Go's int64 arithmetic spelled out, PRNG call sites and field reads as
parameters) and the ticker. `x_wait_delay_eq` proves the hand model equal to it for every int64 sleep,
so the delay theorems hold of the regenerated function. -/
section Src
open XMT.TieXlateWait

/-- `delay_positive_within_one_sleep` for the regenerated delay computation. -/
theorem src_delay_positive_within_one_sleep (S : Int) (jitter : Nat) (q : Nat → Nat)
    (hS : 0 < S) (hS2 : S < 2^63) :
    ∃ w, srcDelay S jitter q = .sleep w ∧ 0 < w ∧ w - S ≤ S ∧ S - w ≤ S := by
  obtain ⟨w, k, h, h0, h1, h2⟩ := delay_positive_within_one_sleep S jitter q hS hS2
  exact ⟨w, by rw [← x_wait_delay_eq S jitter q (by omega) hS2, h], h0, h1, h2⟩

/-- `delay_no_jitter` for the regenerated delay computation. -/
theorem src_delay_no_jitter (S : Int) (jitter : Nat) (q : Nat → Nat) (hS : 0 < S) (hS2 : S < 2^63)
    (hj : jitter = 0 ∨ jitter > 100) : srcDelay S jitter q = .sleep S := by
  rw [← x_wait_delay_eq S jitter q (by omega) hS2, delay_no_jitter S jitter q hS hj]

/-- `delay_exact_below_2_62` for the regenerated delay computation. -/
theorem src_delay_exact_below_2_62 (S : Int) (jitter : Nat) (q : Nat → Nat) (hS : 0 < S) (hS2 : S ≤ 2^62) :
    ∃ w, srcDelay S jitter q = .sleep w ∧
      (w = S ∨ ∃ d : Int, 0 ≤ d ∧ d < S / 1000000 ∧ (w = S + d * 1000000 ∨ w = S - d * 1000000)) ∧
      0 < w ∧ w < 2 * S := by
  obtain ⟨w, k, h, h1, h2, h3⟩ := delay_exact_below_2_62 S jitter q hS hS2
  exact ⟨w, by rw [← x_wait_delay_eq S jitter q (by omega) (by omega), h], h1, h2, h3⟩

/-- A non-positive sleep: the regenerated computation does not sleep either (the guard). -/
theorem src_delay_none (S : Int) (jitter : Nat) (q : Nat → Nat) (hS : S < 1) : srcDelay S jitter q = .none := by
  unfold srcDelay; simp [hS]

/-- The PRNG helpers of package util as regenerated from util/rand.go and util/rand_fast.go are the
functions the delay model draws with. -/
theorem src_prng_helpers (n : Int) (r hi lo v : Nat) (hn : 0 ≤ n) :
    Facts.x_util_FastRandN n r = fastRandN r n.toNat ∧ Facts.x_util_random_Uint64 hi lo = uint64Of hi lo ∧
    Facts.x_util_abs64 v = abs64 v :=
  ⟨x_util_FastRandN_eq n r hn, x_util_random_Uint64_eq hi lo, x_util_abs64_eq v⟩

-- non-vacuity: the regenerated function computes (60 s, jitter 100, draw 5 ms, plus / minus; jitter 50
-- with a percentage draw that hits; the overflow witness of fix c7eed5b falls back to the plain sleep)
example : srcDelay 60000000000 100 (fun i => [0, 5, 0].getD i 0) = .sleep 60005000000 ∧
    srcDelay 60000000000 100 (fun i => [0, 5, 2147483648].getD i 0) = .sleep 59995000000 ∧
    srcDelay 60000000000 50 (fun i => [0, 0, 7, 0].getD i 0) = .sleep 60007000000 ∧
    srcDelay 60000000000 0 (fun _ => 7) = .sleep 60000000000 ∧ srcDelay 0 100 (fun _ => 7) = .none ∧
    Facts.x_c2_Session_wait_delay 4611686018428775808 100 (fun _ => 0) (fun _ => 4611686018426) (fun _ => 0) =
      4611686018428775808 := by decide
end Src

end XMT.Props.C19
