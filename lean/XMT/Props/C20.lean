/-
  C20 — UTF-16 and name-hash helpers under the Windows wrappers match the reference.
  Property theorems only; the model is XMT/Utf16.lean, lemmas live in XMT/Utf16{Lemmas,Decode,
  Roundtrip,Reg,Utf8}.lean.

  Reading guide.  `utf16FromString`, `utf16Encode`, `utf16EncodeStd`, `utf16Decode`, `fnvHash`,
  `entryToString/ToStringList/ToInteger` are the literal models of the Go functions (output buffer
  sized by the sizing loop, every `b[n] = …` / `b[:n]` / `v[n:i]` / byte read bounds-checked: an
  out-of-range access is `Outcome.panic`, so `= .ok …` also says "no panic, no read outside").
  `refEncode` / `refDecode` are the Unicode UTF-16 encoding form (D91) with U+FFFD substitution,
  `fnv1Ref` is 32-bit FNV-1; the differential run also compares these three reference definitions
  themselves with Go's unicode/utf16 and hash/fnv.
  A Go string is its byte list; `utf8Decode` models the Go runtime's `[]rune(s)` conversion
  (`utf16FromStringB` is `UTF16FromString` on the bytes, `utf16FromString` the same on `[]rune(s)`).
-/
import XMT.Utf16Reg
import XMT.Utf16Utf8
import XMT.RegDisplayLemmas
import XMT.ViewSites
import XMT.RegKeyLemmas
namespace XMT.Props.C20
open XMT XMT.Utf16

/-! ### encoders -/

/-- `UTF16EncodeStd` returns exactly the standard encoding, for every `[]rune` (any integers:
negative, surrogates, beyond U+10FFFF are replaced by U+FFFD as the standard library does),
supplementary-plane runes at any position; in particular no rune after one is dropped and no buffer
index is out of range. -/
theorem encodeStd_is_reference (s : List Int) : utf16EncodeStd s = .ok (refEncode s) :=
  utf16EncodeStd_eq s

/-- `utf16Encode` (the encoder under `UTF16FromString`): `EINVAL` iff a 0 rune occurs before the
last position, otherwise exactly the standard encoding. -/
theorem encode_is_reference (s : List Int) :
    utf16Encode s = if innerNul s then .err .einval else .ok (refEncode s) :=
  utf16Encode_eq s

/-- `UTF16FromString` on a NUL-free string: the standard encoding followed by one terminator. -/
theorem fromString_is_reference (rs : List Int) (hn : (0 : Int) ∉ rs) :
    utf16FromString rs = .ok (refEncode rs ++ [0]) := by
  rw [utf16FromString_eq, if_neg hn]

/-- `UTF16FromString` on a string that contains NUL (at any position): `EINVAL`. -/
theorem fromString_nul_is_error (rs : List Int) (hn : (0 : Int) ∈ rs) :
    utf16FromString rs = .err .einval := by
  rw [utf16FromString_eq, if_pos hn]

/-- Exactly one terminator: the buffer ends in a NUL word and contains no other NUL word (so a
callee scanning for the terminator stops at the end of the buffer and not before). -/
theorem fromString_single_terminator (rs : List Int) (hn : (0 : Int) ∉ rs) :
    ∃ u, utf16FromString rs = .ok (u ++ [0]) ∧ (0 : UInt16) ∉ u :=
  ⟨refEncode rs, fromString_is_reference rs hn, fun h => hn ((zero_mem_refEncode rs).mp h)⟩

/-- **Every Go string** (an arbitrary byte string: valid text over the whole Unicode range,
supplementary-plane characters at any position, UTF-8-encoded lone surrogates and any other
ill-formed bytes, embedded NUL, empty): a NUL byte anywhere gives `EINVAL`; otherwise the result is
exactly the standard UTF-16 encoding of the string's code points `[]rune(s)` followed by one
terminator. -/
theorem fromStringBytes_is_reference (s : Bytes) :
    utf16FromStringB s =
      if (0 : UInt8) ∈ s then .err .einval else .ok (refEncode (utf8Decode s) ++ [0]) :=
  utf16FromStringB_eq s

/-- For every NUL-free Go string the buffer has exactly one NUL word, the last one, and decoding
the buffer gives back the string's code points (`UTF16ToString(UTF16FromString(s)) =
string([]rune(s))`, which is `s` itself when `s` is valid UTF-8). -/
theorem toString_fromStringBytes (s : Bytes) (hn : (0 : UInt8) ∉ s) :
    ∃ u, utf16FromStringB s = .ok (u ++ [0]) ∧ (0 : UInt16) ∉ u ∧
      utf16Decode (u ++ [0]) = .ok (utf8Decode s) := by
  have h0 : (0 : Int) ∉ utf8Decode s := fun e => hn ((zero_mem_utf8Decode s).mp e)
  have hz : (0 : UInt16) ∉ refEncode (utf8Decode s) := fun h => h0 ((zero_mem_refEncode _).mp h)
  refine ⟨refEncode (utf8Decode s), ?_, hz, ?_⟩
  · rw [utf16FromStringB_eq, if_neg hn]
  · rw [utf16Decode_eq, untilNul_append_zero _ hz, refDecode_refEncode _ (utf8Decode_scalar s)]

/-! ### decoder -/

/-- `UTF16Decode` of any `uint16` buffer is the standard decoding of the part before the first NUL
(unpaired surrogates, including a high surrogate directly before the NUL or the end, become U+FFFD). -/
theorem decode_is_reference (u : U16s) : utf16Decode u = .ok (refDecode (untilNul u)) :=
  utf16Decode_eq u

/-- Every rune `UTF16Decode` returns is a Unicode scalar value, so the `string(...)` conversion in
`UTF16ToString` substitutes nothing. -/
theorem decode_yields_scalars (u : U16s) :
    ∃ rs, utf16Decode u = .ok rs ∧ ∀ r ∈ rs, isScalar r = true :=
  ⟨_, utf16Decode_eq u, refDecode_scalar _ _ (Nat.le_refl _)⟩

/-! ### mutually inverse on valid text -/

/-- Valid text (Unicode scalar values, no NUL) survives `UTF16FromString` then `UTF16Decode`. -/
theorem decode_fromString (rs : List Int) (hs : ∀ r ∈ rs, isScalar r = true) (hn : (0 : Int) ∉ rs) :
    ∃ u, utf16FromString rs = .ok u ∧ utf16Decode u = .ok rs := by
  refine ⟨refEncode rs ++ [0], fromString_is_reference rs hn, ?_⟩
  rw [utf16Decode_eq, untilNul_append_zero _ (fun h => hn ((zero_mem_refEncode rs).mp h)),
    refDecode_refEncode rs hs]

/-- The same for `UTF16EncodeStd` (no terminator added). -/
theorem decode_encodeStd (rs : List Int) (hs : ∀ r ∈ rs, isScalar r = true) (hn : (0 : Int) ∉ rs) :
    ∃ u, utf16EncodeStd rs = .ok u ∧ utf16Decode u = .ok rs := by
  refine ⟨refEncode rs, utf16EncodeStd_eq rs, ?_⟩
  rw [utf16Decode_eq, untilNul_of_not_mem _ (fun h => hn ((zero_mem_refEncode rs).mp h)),
    refDecode_refEncode rs hs]

/-- Well-formed NUL-free UTF-16 (every surrogate paired) survives `UTF16Decode` then
`UTF16FromString`, which gives the buffer back with its terminator. -/
theorem fromString_decode (u : U16s) (hw : wellFormed16 u = true) (hn : (0 : UInt16) ∉ u) :
    ∃ rs, utf16Decode u = .ok rs ∧ utf16FromString rs = .ok (u ++ [0]) := by
  refine ⟨refDecode u, ?_, ?_⟩
  · rw [utf16Decode_eq, untilNul_of_not_mem u hn]
  · have hr := refEncode_refDecode u.length u (Nat.le_refl _) hw
    have h0 : (0 : Int) ∉ refDecode u := by
      intro h
      have := (zero_mem_refEncode (refDecode u)).mpr h
      rw [hr] at this
      exact hn this
    rw [fromString_is_reference _ h0, hr]

/-! ### registry value decoding never reads outside the value -/

/-- No registry decoder ever reads a byte outside the value, for every type code and every byte
string (no hypothesis). -/
theorem registry_never_reads_outside (ty : Nat) (d : Bytes) :
    entryToString ty d ≠ .panic "read-oob" ∧ entryToStringList ty d ≠ .panic "read-oob" ∧
    entryToInteger ty d ≠ .panic "read-oob" ∧ entryToBinary ty d ≠ .panic "read-oob" := by
  have hv := regView_no_oob d
  refine ⟨?_, ?_, ?_, ?_⟩
  · unfold entryToString
    split
    · simp
    · split
      · simp
      · cases hr : regView d with
        | ok v => simp only []; rw [utf16Decode_eq]; simp
        | err e => simp
        | panic p =>
          simp only []
          intro h
          injection h with h
          exact hv (by rw [hr, h])
  · by_cases hc : d.length / 2 ≤ Facts.regArrayCap
    · rw [entryToStringList_eq ty d hc]
      split
      · simp
      · split <;> simp
    · unfold entryToStringList
      split
      · simp
      · split
        · simp
        · have : regView d = .panic "slice-bounds" := by
            unfold regView
            split
            · rename_i h; rw [List.getElem?_eq_none_iff] at h; omega
            · rw [if_pos (by omega)]
          rw [this]
          simp
  · rw [entryToInteger_eq]
    split
    · split <;> simp
    · split
      · split <;> simp
      · simp
  · unfold entryToBinary
    split <;> simp

/-- `Entry.ToString`: type / size errors exactly as coded, otherwise the standard decoding of the
little-endian words of the value up to the first NUL — no panic for any value whose word count
fits the `[1 << 29]uint16` view. -/
theorem registry_toString (ty : Nat) (d : Bytes) (hc : d.length / 2 ≤ Facts.regArrayCap) :
    entryToString ty d =
      if ty ≠ Facts.regTypeString ∧ ty ≠ Facts.regTypeExpandString then .err .unexpectedType
      else if d.length < 3 then .err .unexpectedSize
      else .ok (refDecode (untilNul (leWords d))) :=
  entryToString_eq ty d hc

/-- `Entry.ToStringList`: the NUL-terminated segments of the word list (one final terminator
dropped), each decoded by the standard decoder; the slice `v[n:i]` is always in range. -/
theorem registry_toStringList (ty : Nat) (d : Bytes) (hc : d.length / 2 ≤ Facts.regArrayCap) :
    entryToStringList ty d =
      if ty ≠ Facts.regTypeStringList then .err .unexpectedType
      else if d.length < 3 then .err .unexpectedSize
      else .ok ((segs (stripLastNul (leWords d))).map refDecode) := by
  rw [entryToStringList_eq ty d hc, segs_map_decode]

/-- `Entry.ToInteger`: the little-endian value of exactly 4 (DWORD) or 8 (QWORD) bytes, which fits
32 resp. 64 bits; every other length or type is an error; never a panic. -/
theorem registry_toInteger (ty : Nat) (d : Bytes) :
    entryToInteger ty d =
      (if ty = Facts.regTypeDword then (if d.length ≠ 4 then .err .unexpectedSize else .ok (leNat d))
       else if ty = Facts.regTypeQword then (if d.length ≠ 8 then .err .unexpectedSize else .ok (leNat d))
       else .err .unexpectedType) ∧
    leNat d < 256 ^ d.length :=
  ⟨entryToInteger_eq ty d, leNat_lt d⟩

/-! ### name hash -/

/-- `FnvHash` (uint32 arithmetic with wrap-around, constants read from the source) is 32-bit FNV-1
(offset basis 0x811C9DC5, prime 0x01000193, multiply then xor) of all bytes of the name. -/
theorem fnv_is_fnv1 (name : Bytes) : (fnvHash name).toNat = fnv1Ref name :=
  fnvHash_eq name

/-! ### non-vacuity: the hypotheses are satisfiable by non-trivial inputs and the model computes
the expected concrete results (the first two are the inputs on which the unrepaired code failed) -/

example : utf16FromString [0x1F600] = .ok [0xD83D, 0xDE00, 0] := by decide
example : utf16FromString [0x61, 0x1F600, 0x62] = .ok [0x61, 0xD83D, 0xDE00, 0x62, 0] := by decide
example : utf16FromString [0x61, 0, 0x62] = .err .einval := by decide
example : utf16FromString [] = .ok [0] := by decide
example : utf8Decode [0x61, 0xF0, 0x9F, 0x98, 0x80, 0xED, 0xA0, 0x80, 0xC3] = [0x61, 0x1F600, 0xFFFD, 0xFFFD, 0xFFFD, 0xFFFD] := by
  decide
example : utf16FromStringB [0x61, 0xF0, 0x9F, 0x98, 0x80, 0x62] = .ok [0x61, 0xD83D, 0xDE00, 0x62, 0] := by decide
example : utf16FromStringB [0x61, 0, 0x62] = .err .einval ∧ (0 : UInt8) ∉ [0x61, 0xF0, 0x9F, 0x98, 0x80, 0x62] := by decide
example : utf16EncodeStd [-1, 0xD800, 0x110000, 0x10FFFF, 0x42, 0] = .ok [0xFFFD, 0xFFFD, 0xFFFD, 0xDBFF, 0xDFFF, 0x42, 0] := by
  decide
example : utf16Decode [0x61, 0xD83D, 0xDE00, 0xD83D, 0, 0x62] = .ok [0x61, 0x1F600, 0xFFFD] := by decide
example : (∀ r ∈ [0x61, 0x1F600, 0xFFFF, 0x10FFFF], isScalar r = true) ∧ (0 : Int) ∉ [0x61, 0x1F600, 0xFFFF, 0x10FFFF] := by
  decide
example : wellFormed16 [0x61, 0xD83D, 0xDE00, 0xFFFF] = true ∧ (0 : UInt16) ∉ [0x61, 0xD83D, 0xDE00, 0xFFFF] := by decide
example : wellFormed16 [0xDE00, 0xD83D] = false := by decide
example : entryToString 1 [0x41, 0, 0x42] = .ok [0x41] := by decide
example : entryToString 1 [0x41, 0] = .err .unexpectedSize ∧ entryToString 3 [0x41, 0, 0, 0] = .err .unexpectedType := by
  decide
example : entryToStringList 7 [0x41, 0, 0, 0, 0x42, 0, 0x43] = .ok [[0x41]] := by decide
example : entryToStringList 7 [0x41, 0, 0, 0, 0x42, 0, 0, 0, 0, 0] = .ok [[0x41], [0x42]] := by decide
example : entryToInteger 4 [0xFF, 0, 0x10, 0x20] = .ok 0x201000FF := by decide
example : (fnvHash [0x4E, 0x74]).toNat = 1131865847 ∧ fnv1Ref [0xC3, 0xA9] = 3463954941 := by decide

/-! ### session 3 — the display form of a registry value (`Entry.String`, device/regedit/v_no_implant.go)

`entryString ty nameLen d` is the literal model of `Entry.String()` (XMT/RegDisplay.lean): the type
switch in source order, the length guards, both `[]uint16` views `[: len(e.Data)/2 : len(e.Data)/2]`
read through bounds-checked accesses (`Outcome.panic "read-oob"` outside the value), the MULTI_SZ
splitting loop with its `", "` separator, the little-endian DWORD/QWORD assembly, `util.Uitoa`
(modelled loop-for-loop over its `[20]byte` buffer) and `hex.EncodeToString`. The result is the rune
list of the returned string. `entryStringV vl` is the same function with the view length `vl len`. -/

/-- `Entry.String` never reads a byte outside the value: for every type code, every name and every
byte string no access of the `[]uint16` view has an index ≥ `len(Data)` (no hypothesis). -/
theorem string_never_reads_outside (ty nameLen : Nat) (d : Bytes) :
    entryString ty nameLen d ≠ .panic "read-oob" :=
  entryString_no_oob ty nameLen d

/-- `Entry.String` equals the reference display form and never panics (for every value whose word
count fits the `[1 << 29]uint16` view): `"<invalid>"`/`""` for keys, the decimal digits of the
little-endian value for DWORD/QWORD of exactly 4/8 bytes, lower-case hex for BINARY, the standard
UTF-16 decoding up to the first NUL for SZ/EXPAND_SZ, the NUL-terminated segments (one final terminator
dropped, an unterminated tail ignored) decoded and joined by `", "` for MULTI_SZ, `""` otherwise. -/
theorem string_is_reference (ty nameLen : Nat) (d : Bytes) (hc : d.length / 2 ≤ Facts.regArrayCap) :
    entryString ty nameLen d = .ok (refDisplay ty nameLen d) :=
  entryString_eq ty nameLen d hc

/-- Guard needed: the view length must round *down*. With `(len(e.Data)+1)/2` words `Entry.String` of
any SZ / EXPAND_SZ / MULTI_SZ value of odd length ≥ 3 reads the byte after the value. -/
theorem string_view_guard_needed (ty nameLen : Nat) (d : Bytes)
    (hty : ty = Facts.regTypeString ∨ ty = Facts.regTypeExpandString ∨ ty = Facts.regTypeStringList)
    (h3 : 3 ≤ d.length) (hodd : d.length % 2 = 1) (hc : (d.length + 1) / 2 ≤ Facts.regArrayCap) :
    entryStringV (fun l => (l + 1) / 2) ty nameLen d = .panic "read-oob" :=
  entryStringV_roundUp_oob ty nameLen d hty h3 hodd hc

/-- The display form agrees with the typed decoders: for a string value it is `ToString`'s result, for
a list value `ToStringList`'s elements joined by `", "`, for an integer value `ToInteger` in decimal. -/
theorem string_agrees_with_decoders (ty nameLen : Nat) (d : Bytes) (hc : d.length / 2 ≤ Facts.regArrayCap)
    (h3 : 3 ≤ d.length) :
    ((ty = Facts.regTypeString ∨ ty = Facts.regTypeExpandString) →
        entryToString ty d = entryString ty nameLen d) ∧
    (ty = Facts.regTypeStringList →
        ∃ l, entryToStringList ty d = .ok l ∧ entryString ty nameLen d = .ok (joinSegs l)) := by
  have e1 : Facts.regTypeString = 1 := by decide
  have e2 : Facts.regTypeExpandString = 2 := by decide
  have e7 : Facts.regTypeStringList = 7 := by decide
  have e4 : Facts.regTypeDword = 4 := by decide
  have e11 : Facts.regTypeQword = 11 := by decide
  have e3 : Facts.regTypeBinary = 3 := by decide
  constructor
  · intro hty
    rw [string_is_reference ty nameLen d hc, registry_toString ty d hc]
    unfold refDisplay
    rw [e1, e2, e7, e4, e11, e3]
    rw [e1, e2] at hty
    rcases hty with h | h <;> subst h <;> simp
    all_goals (rw [if_neg (by omega), if_neg (by omega)])
  · intro hty
    refine ⟨(segs (stripLastNul (leWords d))).map refDecode, ?_, ?_⟩
    · rw [registry_toStringList ty d hc, if_neg (by simp [hty]), if_neg (by omega)]
    · rw [string_is_reference ty nameLen d hc]
      unfold refDisplay
      rw [e1, e2, e7, e4, e11, e3]
      rw [e7] at hty
      subst hty
      simp
      omega

/-- `util.Uitoa` is the decimal representation for every `uint64`: the wrapping `0x30 + v - n*0xA`
is the digit `v % 10`, at most 20 digits are written and no index of the `[20]byte` buffer is out of
range. -/
theorem uitoa_is_decimal (v : Nat) (h : v < 18446744073709551616) : uitoa v = .ok (decRef v) :=
  uitoa_eq v h

/-- … where "decimal" means: the returned string consists of ASCII digits only, denotes `v` in base
ten, is not empty and has no leading zero (so it is *the* decimal numeral of `v`). -/
theorem uitoa_digits (v : Nat) (h : v < 18446744073709551616) :
    ∃ s, uitoa v = .ok s ∧ decValue s = v ∧ (∀ b ∈ s, 0x30 ≤ b.toNat ∧ b.toNat ≤ 0x39) ∧
      (v ≠ 0 → s.head? ≠ some 0x30) ∧ s ≠ [] :=
  ⟨decRef v, uitoa_eq v h, decRef_spec v v (Nat.le_refl _)⟩

/-! ### session 3 — every array view over raw memory in the device packages has the expected bound
(regenerated by go/parser from *all* build variants, including the `//go:build windows` files that do
not compile on the test host) -/

/-- Tie obligation: each of the slice expressions over a `(*[N]T)(unsafe.Pointer(..))` view has the
bound `XMT.ViewSites.siteOk` requires — in particular every `[1 << 29]uint16` view over a byte slice
(`Entry.ToString`, `Entry.ToStringList`, `Entry.String` twice, and the Windows-only `Key.String`,
`Key.Strings`) is `[: len/2 : len/2]` over `&X[0]` of the same `X`. -/
theorem tie_view_sites_bounded : Facts.c20ViewSites.all ViewSites.siteOk = true := by decide

/-- Tie obligation: the `uint16` views are exactly these six (a new consumer of the UTF-16 helpers
over raw memory has to be added to the model or to this list). -/
theorem tie_word_views_pinned :
    (Facts.c20ViewSites.filter ViewSites.isWordView).map ViewSites.siteWhere =
      [["device/regedit/entry.go", "Entry.ToString"], ["device/regedit/entry.go", "Entry.ToStringList"],
       ["device/regedit/v_no_implant.go", "Entry.String"], ["device/regedit/v_no_implant.go", "Entry.String"],
       ["device/winapi/registry/value.go", "Key.String"], ["device/winapi/registry/value.go", "Key.Strings"]] := by
  decide

/-! ### session 3 — the precomputed API-name hashes -/

/-- Every hash literal of the `crypt` proc tables of device/winapi (`funcX = dllY.proc(0x…)`,
regenerated together with the name its `!crypt` twin `funcX = dllY.proc("Name")` passes) is
`FnvHash` of that name, so both build variants resolve the same export. -/
theorem api_hashes_are_fnv1 :
    ∀ e ∈ Facts.c20ApiHashes, (fnvHash e.2.1).toNat = e.2.2 := by
  have h : Facts.c20ApiHashes.all (fun e => fnv1Ref e.2.1 == e.2.2) = true := by decide +kernel
  intro e he
  rw [fnv_is_fnv1]
  have := List.all_eq_true.mp h e he
  simpa using this

/-- Tie obligation: every variable of the hash tables was joined with a name (same variable, same DLL,
same resolver kind), there are at least 170 of them, and no two names of the table collide. -/
theorem tie_api_tables_joined :
    Facts.c20ApiUnmatched = [] ∧ 170 ≤ Facts.c20ApiHashes.length ∧
    (Facts.c20ApiHashes.map (·.2.2)).eraseDups.length = (Facts.c20ApiHashes.map (·.2.1)).eraseDups.length := by
  decide +kernel

/-! ### session 3 — the Windows-only readers `Key.String` / `Key.Strings` (device/winapi/registry/value.go)

These do not compile on the test host and are not run. `keyString` / `keyStrings` (XMT/RegKey.lean)
model what they do with the bytes `getValue` returned; the tie is syntactic: the regenerated statement
traces of the two functions must equal the pinned texts the model was written from. -/

/-- Tie obligation: the statement traces of `Key.String` and `Key.Strings` (every statement, guard,
slice bound, operand; regenerated by go/parser from the windows-tagged file) are the pinned ones. -/
theorem tie_key_traces :
    Facts.c20_trace_KeyString = Pinned.keyString ∧ Facts.c20_trace_KeyStrings = Pinned.keyStrings := by
  decide +kernel

/-- Neither reader reads a byte outside the value `getValue` returned, for every type code and every
byte string (in particular not the stale bytes between `len` and `cap` of the 64-byte buffer). -/
theorem key_readers_never_read_outside (ty : Nat) (d : Bytes) :
    keyString ty d ≠ .panic "read-oob" ∧ keyStrings ty d ≠ .panic "read-oob" :=
  ⟨keyString_no_oob ty d, keyStrings_no_oob ty d⟩

/-- `Key.String`: wrong type → `ErrUnexpectedType`; otherwise the standard decoding of the value's
little-endian words up to the first NUL (any length, including 0, 1 and odd lengths). -/
theorem key_string_is_reference (ty : Nat) (d : Bytes) (hc : d.length / 2 ≤ Facts.regArrayCap) :
    keyString ty d =
      if ty = Facts.regTypeString ∨ ty = Facts.regTypeExpandString
      then .ok (refDecode (untilNul (leWords d))) else .err .unexpectedType :=
  keyString_eq ty d hc

/-- `Key.Strings`: wrong type → `ErrUnexpectedType`; otherwise the NUL-terminated segments of the word
list (one final terminator dropped), each decoded by the standard decoder. -/
theorem key_strings_is_reference (ty : Nat) (d : Bytes) (hc : d.length / 2 ≤ Facts.regArrayCap) :
    keyStrings ty d =
      if ty ≠ Facts.regTypeStringList then .err .unexpectedType
      else .ok ((segs (stripLastNul (leWords d))).map refDecode) :=
  keyStrings_eq ty d hc

/-- On values of at least 3 bytes the Windows-only readers and the portable decoders of
device/regedit (which the harness runs) return the same results. -/
theorem key_readers_agree_with_entry (ty : Nat) (d : Bytes) (hc : d.length / 2 ≤ Facts.regArrayCap)
    (h3 : 3 ≤ d.length) :
    keyString ty d = entryToString ty d ∧ keyStrings ty d = entryToStringList ty d := by
  rw [key_string_is_reference ty d hc, key_strings_is_reference ty d hc, registry_toString ty d hc,
    registry_toStringList ty d hc]
  constructor
  · by_cases h : ty = Facts.regTypeString ∨ ty = Facts.regTypeExpandString
    · rw [if_pos h, if_neg (by intro ⟨a, b⟩; rcases h with h | h <;> contradiction), if_neg (by omega)]
    · rw [if_neg h, if_pos (by constructor <;> intro e <;> exact h (by simp [e]))]
  · by_cases h : ty ≠ Facts.regTypeStringList
    · rw [if_pos h, if_pos h]
    · rw [if_neg h, if_neg h, if_neg (by omega)]

example : entryString 7 1 [0x41, 0, 0, 0, 0x42, 0, 0x43, 0, 0, 0, 0, 0] = .ok [0x41, 44, 32, 0x42, 0x43] := by decide
example : entryString 7 1 [0, 0, 0x41, 0, 0, 0, 0, 0] = .ok [44, 32, 0x41] ∧ entryString 7 1 [0, 0, 0x41, 0, 0, 0, 0x42] = .ok [] := by decide
example : entryString 1 1 [0x3D, 0xD8, 0x00, 0xDE, 0, 0, 0x42] = .ok [0x1F600] := by decide
example : entryString 4 1 [0xFF, 0, 0x10, 0x20] = .ok [53, 51, 55, 57, 49, 57, 55, 52, 51] := by decide
example : entryString 11 1 [0xFF, 0xFF, 0xFF, 0xFF, 0xFF, 0xFF, 0xFF, 0xFF] =
    .ok [49, 56, 52, 52, 54, 55, 52, 52, 48, 55, 51, 55, 48, 57, 53, 53, 49, 54, 49, 53] := by decide
example : entryString 3 1 [0xAB, 0x01] = .ok [0x61, 0x62, 0x30, 0x31] ∧ entryString 0 0 [] = .ok invalidRunes ∧
    entryString 4 1 [1, 2, 3] = .ok [] ∧ entryString 9 1 [1, 2, 3, 4] = .ok [] := by decide
example : entryStringV (fun l => (l + 1) / 2) 1 1 [0x41, 0, 0x42] = .panic "read-oob" ∧
    entryString 1 1 [0x41, 0, 0x42] = .ok [0x41] := by decide
example : uitoa 18446744073709551615 = .ok [49, 56, 52, 52, 54, 55, 52, 52, 48, 55, 51, 55, 48, 57, 53, 53, 49, 54, 49, 53] ∧
    uitoa 10 = .ok [49, 48] ∧ uitoa 0 = .ok [48] := by decide
example : (3 : Nat) / 2 ≤ Facts.regArrayCap ∧ (3 + 1) / 2 ≤ Facts.regArrayCap := by decide
example : Facts.c20ViewSites.length = 16 ∧ Facts.c20ApiHashes.length = 176 := by decide +kernel
example : ViewSites.siteOk ["f.go", "F", "[(1 << 29)]uint16", "&#[0]", "", "((len(#) + 1) / 2)", "((len(#) + 1) / 2)"] = false := by decide +kernel
example : keyString 1 [0x41] = .ok [] ∧ keyString 1 [0x41, 0, 0x42] = .ok [0x41] ∧ keyString 7 [] = .err .unexpectedType ∧
    keyStrings 7 [0x41, 0, 0, 0, 0x42, 0, 0, 0, 0, 0] = .ok [[0x41], [0x42]] ∧ keyStrings 7 [0x41] = .ok [] := by decide

end XMT.Props.C20
