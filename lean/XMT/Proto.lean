/-
  XMT.Proto — abstract protocol machine for property C05 (every task issued to a live session
  completes exactly once with its own result).

  One `Sess` is one client ⇄ server pair.  A job travels through eight places, each of which is a
  piece of the real program state (c2/session.go, c2/session_no_implant.go, c2/channel.go,
  c2/vars.go, c2/mux.go):

      sq      server-side Session.send (+ Session.peek)       Session.Task → write → queue
      s2c     returned by the server's Session.next, not yet through the client's receive
      cmux    client eventer queue (event{hf: defaultClientMux}), receiveSingle → s.m.queue
      run     Tasker goroutines started by defaultClientMux / muxHandleExternalAsync
      cq      client-side Session.send (+ peek)               muxHandleSend → write(true) → queue
      c2s     returned by the client's Session.next, not yet through the server's receive
      smux    Server.events (event{af: s.handle})
      dropped packets discarded by the `default:` arm of the select in Session.queue (queue full)

  and ends in the log `completed` (Session.handle found the number in the job table, removed it and
  released the waiters).  The places are bags: the order inside a queue, the cut into batches and
  fragments (C02/C03) and the session cipher (C06) are NOT part of this model — the transport is
  "what `next` handed out is what `receiveSingle` gets, intact"; a real run in which that fails is
  rejected by the acceptor (the packet received is not one in flight).

  `step?` is the executable acceptor used for trace validation; it is total (`Option`), and every
  guard is the guard of the corresponding Go statement:
    * Task: job number ≥ 2, not registered, `len(send)+1 < cap(send)` (Session.write, w=false);
    * queue: dropped only when the channel is full (`select … default`);
    * handle: completes iff the number is in the table, otherwise "un-tracked".
  Core-only (compiled into the driver).
-/
import XMT.Base
import XMT.Generated.Facts
namespace XMT.Proto

abbrev JobId := Nat
abbrev Kind := Nat
abbrev Payload := Nat
abbrev Res := Nat

/-- capacity of Session.send (regenerated from the `make(chan *com.Packet, N)` literals) -/
def queueCap : Nat := Facts.c05QueueCap
/-- `len(s.send)+fullSlack >= cap(s.send)` is Session.write's "buffer full" test -/
def fullSlack : Nat := Facts.c05FullSlack
/-- smallest job number Session.handle / Task accept -/
def minJob : Nat := Facts.c05MinJob

inductive Pkt
  | task (k : Kind) (j : JobId) (p : Payload)
  | result (j : JobId) (r : Res)
  | rekey
  /-- any other queued packet (channel flag packets, SvComplete with the server key, SvDrop, …):
      it occupies a queue slot and carries no job -/
  | ctrl
  deriving DecidableEq, Repr, Inhabited

/-- the packet carries job number `j` -/
def Pkt.isJ (j : JobId) : Pkt → Bool
  | .task _ i _ => i == j
  | .result i _ => i == j
  | .rekey => false
  | .ctrl => false

/-- the packet is followed on the wire by the model (control packets only occupy queue slots) -/
def Pkt.tracked : Pkt → Bool
  | .ctrl => false
  | _ => true

structure Sess where
  sq : List Pkt := []
  s2c : List Pkt := []
  cmux : List Pkt := []
  run : List Pkt := []
  cq : List Pkt := []
  c2s : List Pkt := []
  smux : List Pkt := []
  dropped : List Pkt := []
  /-- Session.jobs: numbers of the pending Jobs -/
  jobs : List JobId := []
  /-- every number ever issued in this session -/
  used : List JobId := []
  /-- log of the Task calls that succeeded: number, task kind, payload -/
  pay : List (JobId × Kind × Payload) := []
  /-- log: client dispatched the task (defaultClientMux) -/
  execd : List JobId := []
  /-- log: Session.handle completed the Job with this result -/
  completed : List (JobId × Res) := []
  /-- count of results that Session.handle found no Job for -/
  untracked : Nat := 0
  /-- ghost: re-key bookkeeping (client keysNext set; number of client / server key switches) -/
  keysNext : Bool := false
  ck : Nat := 0
  sk : Nat := 0
  deriving Repr, Inhabited

/-- session-level events (what the harness observes on the real code, see go/cmd/xmth/c05.go) -/
inductive SEv
  /-- operator: Session.Task succeeded (hook: Session.queue on the server side) -/
  | task (k : Kind) (j : JobId) (p : Payload)
  /-- operator: Session.Task returned ErrFullBuffer -/
  | taskFull
  /-- server Session.next returned this batch -/
  | snext (ps : List Pkt)
  /-- client receiveSingle got this packet -/
  | crecv (p : Pkt)
  /-- client defaultClientMux dispatched the task -/
  | exec (k : Kind) (j : JobId) (p : Payload)
  /-- client muxHandleSend → queue(result); `drop` = the select took the default arm -/
  | result (j : JobId) (r : Res) (drop : Bool)
  /-- client Session.next returned this batch (a generated re-key packet appears here) -/
  | cnext (ps : List Pkt)
  /-- server receiveSingle got this packet -/
  | srecv (p : Pkt)
  /-- server Session.handle entered with this result; `tracked` = number was in the table -/
  | handle (j : JobId) (r : Res) (tracked : Bool)
  /-- server keyListenerRegenerate / client keyCheckSync / client keyCheckRevert -/
  | regen | sync | revert
  /-- Session.queue called with a control packet on the server / client side -/
  | sctrl (drop : Bool) | cctrl (drop : Bool)
  /-- SetChannel (server- or client-side), Wake: no effect on the job pipeline -/
  | setChan (server on : Bool) | wake
  deriving DecidableEq, Repr

/-- `xs` minus one occurrence of each element of `ps`; `none` if some element is missing -/
def takeAll : List Pkt → List Pkt → Option (List Pkt)
  | xs, [] => some xs
  | xs, p :: ps => if p ∈ xs then takeAll (xs.erase p) ps else none

section
variable (f : Kind → Nat → JobId → Payload → Res) (c : Nat)

/-- one step of the session machine of client number `c` -/
def stepS? (s : Sess) : SEv → Option Sess
  | .task k j p =>
    if minJob ≤ j ∧ j ∉ s.used ∧ s.sq.length + fullSlack < queueCap then
      some { s with sq := s.sq ++ [.task k j p], jobs := j :: s.jobs, used := j :: s.used,
                    pay := (j, k, p) :: s.pay }
    else none
  | .taskFull => if s.sq.length + fullSlack ≥ queueCap then some s else none
  | .snext ps =>
    if .rekey ∈ ps then none else
    match takeAll s.sq ps with
    | some sq' => some { s with sq := sq', s2c := s.s2c ++ ps.filter Pkt.tracked }
    | none => none
  | .crecv p =>
    if p ∈ s.s2c then
      match p with
      | .task .. => some { s with s2c := s.s2c.erase p, cmux := s.cmux ++ [p] }
      | _ => none
    else none
  | .exec k j p =>
    if .task k j p ∈ s.cmux then
      some { s with cmux := s.cmux.erase (.task k j p), run := s.run ++ [.task k j p], execd := j :: s.execd }
    else none
  | .result j r drop =>
    match s.run.find? (Pkt.isJ j) with
    | some (.task k i p) =>
      if r = f k c j p ∧ i = j then
        if drop then
          if s.cq.length ≥ queueCap then
            some { s with run := s.run.erase (.task k i p), dropped := s.dropped ++ [.result j r] }
          else none
        else some { s with run := s.run.erase (.task k i p), cq := s.cq ++ [.result j r] }
      else none
    | _ => none
  | .cnext ps =>
    if .rekey ∈ ps then
      -- a re-key packet is produced by pick() only when nothing else is queued: it travels alone
      if ps = [.rekey] then some { s with c2s := s.c2s ++ ps, keysNext := true } else none
    else
      match takeAll s.cq ps with
      | some cq' => some { s with cq := cq', c2s := s.c2s ++ ps.filter Pkt.tracked }
      | none => none
  | .srecv p =>
    if p ∈ s.c2s then
      match p with
      | .result .. => some { s with c2s := s.c2s.erase p, smux := s.smux ++ [p] }
      | .rekey => some { s with c2s := s.c2s.erase p }
      | _ => none
    else none
  | .handle j r tracked =>
    if .result j r ∈ s.smux then
      if j ∈ s.jobs then
        if tracked then
          some { s with smux := s.smux.erase (.result j r), jobs := s.jobs.erase j,
                        completed := (j, r) :: s.completed }
        else none
      else
        if tracked then none
        else some { s with smux := s.smux.erase (.result j r), untracked := s.untracked + 1 }
    else none
  | .regen => some { s with sk := s.sk + 1 }
  | .sync => some { s with ck := s.ck + 1, keysNext := false }
  | .revert => some { s with keysNext := false }
  | .sctrl drop =>
    if drop then (if s.sq.length ≥ queueCap then some s else none)
    else some { s with sq := s.sq ++ [.ctrl] }
  | .cctrl drop =>
    if drop then (if s.cq.length ≥ queueCap then some s else none)
    else some { s with cq := s.cq ++ [.ctrl] }
  | .setChan _ _ => some s
  | .wake => some s

end

/-- global state: one `Sess` per connected client -/
abbrev State := List Sess

/-- global event: which client's session, and what happened there -/
structure Ev where
  c : Nat
  e : SEv
  deriving DecidableEq, Repr

def step? (f : Kind → Nat → JobId → Payload → Res) (st : State) (ev : Ev) : Option State :=
  match st[ev.c]? with
  | none => none
  | some s =>
    match stepS? f ev.c s ev.e with
    | none => none
    | some s' => some (st.set ev.c s')

/-- run a whole trace; `none` = the trace is not a trace of the machine -/
def run? (f : Kind → Nat → JobId → Payload → Res) : State → List Ev → Option State
  | st, [] => some st
  | st, ev :: evs =>
    match step? f st ev with
    | none => none
    | some st' => run? f st' evs

/-- index of the first rejected event (for diagnostics in the driver) -/
def firstReject (f : Kind → Nat → JobId → Payload → Res) : State → List Ev → Nat → Option Nat
  | _, [], _ => none
  | st, ev :: evs, i =>
    match step? f st ev with
    | none => some i
    | some st' => firstReject f st' evs (i + 1)

def init (n : Nat) : State := List.replicate n {}

/-- all packets of the session that are somewhere in the pipeline -/
def Sess.all (s : Sess) : List Pkt :=
  s.sq ++ s.s2c ++ s.cmux ++ s.run ++ s.cq ++ s.c2s ++ s.smux ++ s.dropped

/-- the part of the pipeline behind the client's dispatch -/
def Sess.down (s : Sess) : List Pkt :=
  s.run ++ s.cq ++ s.c2s ++ s.smux ++ s.dropped

/-- the concrete result function used by the harness' echo Tasker (kind 0) and by MvTime (kind 1):
    kind 0: 64-bit mix of client number, job number and payload digest; kind 1: the requested sleep -/
def echoF : Kind → Nat → JobId → Payload → Res
  | 0, c, j, p => ((p * 0x9E3779B97F4A7C15 + j * 0x10001 + c + 1) % 2 ^ 64) ||| 1
  | _, _, _, p => p

end XMT.Proto
