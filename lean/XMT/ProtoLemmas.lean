/-
  XMT.ProtoLemmas — counting lemmas and the inductive invariant of the C05 protocol machine.
-/
import XMT.Proto
namespace XMT.Proto

/-- number of packets in `l` that carry job number `j` -/
def cntJ (j : JobId) (l : List Pkt) : Nat := l.countP (Pkt.isJ j)

@[simp] theorem cntJ_nil (j : JobId) : cntJ j [] = 0 := rfl
@[simp] theorem cntJ_append (j : JobId) (a b : List Pkt) : cntJ j (a ++ b) = cntJ j a + cntJ j b := by
  simp [cntJ, List.countP_append]
@[simp] theorem cntJ_cons (j : JobId) (p : Pkt) (a : List Pkt) :
    cntJ j (p :: a) = cntJ j a + (if p.isJ j then 1 else 0) := by
  simp [cntJ, List.countP_cons]

theorem cntJ_erase (j : JobId) (p : Pkt) (a : List Pkt) (h : p ∈ a) :
    cntJ j (a.erase p) + (if p.isJ j then 1 else 0) = cntJ j a := by
  induction a with
  | nil => cases h
  | cons x xs ih =>
    by_cases hx : x = p
    · subst hx; simp
    · have : p ∈ xs := by
        cases h with
        | head => exact absurd rfl hx
        | tail _ h => exact h
      have := ih this
      rw [List.erase_cons_tail (by simpa using hx)]
      simp; omega

theorem cntJ_pos_of_mem {j : JobId} {p : Pkt} {a : List Pkt} (h : p ∈ a) (hp : p.isJ j = true) :
    0 < cntJ j a := by
  unfold cntJ; exact List.countP_pos_iff.mpr ⟨p, h, hp⟩

theorem exists_of_cntJ_pos {j : JobId} {a : List Pkt} (h : 0 < cntJ j a) : ∃ p ∈ a, p.isJ j = true := by
  unfold cntJ at h; exact List.countP_pos_iff.mp h

theorem cntJ_eq_zero_of_not_mem {j : JobId} {a : List Pkt} (h : ∀ p ∈ a, p.isJ j = false) : cntJ j a = 0 := by
  unfold cntJ
  apply List.countP_eq_zero.mpr
  intro p hp; simp [h p hp]

theorem takeAll_spec : ∀ (ps xs xs' : List Pkt), takeAll xs ps = some xs' →
    (∀ j, cntJ j xs' + cntJ j ps = cntJ j xs) ∧ (∀ p ∈ xs', p ∈ xs) ∧ (∀ p ∈ ps, p ∈ xs) ∧
      xs'.length + ps.length = xs.length
  | [], xs, xs', h => by
    simp [takeAll] at h; subst h; simp
  | p :: ps, xs, xs', h => by
    simp only [takeAll] at h
    split at h
    · rename_i hp
      obtain ⟨h1, h2, h3, h4⟩ := takeAll_spec ps _ _ h
      refine ⟨?_, ?_, ?_, ?_⟩
      · intro j
        have := h1 j
        have := cntJ_erase j p xs hp
        simp; omega
      · intro q hq; exact List.mem_of_mem_erase (h2 q hq)
      · intro q hq
        cases hq with
        | head => exact hp
        | tail _ hq => exact List.mem_of_mem_erase (h3 q hq)
      · have := List.length_erase_of_mem hp
        have : 0 < xs.length := List.length_pos_of_mem hp
        simp; omega
    · cases h

theorem cntJ_filter_tracked (j : JobId) (ps : List Pkt) : cntJ j (ps.filter Pkt.tracked) = cntJ j ps := by
  induction ps with
  | nil => rfl
  | cons p ps ih =>
    cases p <;> simp [List.filter_cons, Pkt.tracked, Pkt.isJ, ih]

theorem isJ_task (k j p i) : (Pkt.task k j p).isJ i = (j == i) := rfl
theorem isJ_result (j r i) : (Pkt.result j r).isJ i = (j == i) := rfl

def Sess.compJ (s : Sess) : List JobId := s.completed.map (·.1)

/-- content of a packet is what the log of issued tasks says -/
def good (f : Kind → Nat → JobId → Payload → Res) (c : Nat) (pay : List (JobId × Kind × Payload)) : Pkt → Prop
  | .task k j q => (j, k, q) ∈ pay
  | .result j r => ∃ k q, (j, k, q) ∈ pay ∧ r = f k c j q
  | _ => True

structure Inv (f : Kind → Nat → JobId → Payload → Res) (c : Nat) (s : Sess) : Prop where
  token : ∀ j, cntJ j s.all + s.compJ.count j = if j ∈ s.used then 1 else 0
  execd : ∀ j, s.execd.count j = cntJ j s.down + s.compJ.count j
  pend : ∀ j, 0 < cntJ j s.all → j ∈ s.jobs
  cont : ∀ p ∈ s.all, good f c s.pay p
  compl : ∀ jr ∈ s.completed, ∃ k q, (jr.1, k, q) ∈ s.pay ∧ jr.2 = f k c jr.1 q
  payF : ∀ j k q k' q', (j, k, q) ∈ s.pay → (j, k', q') ∈ s.pay → k = k' ∧ q = q'
  payU : ∀ j k q, (j, k, q) ∈ s.pay → j ∈ s.used
  untr : s.untracked = 0

variable {f : Kind → Nat → JobId → Payload → Res} {c : Nat}

theorem inv_init : Inv f c {} := by
  constructor <;> simp [Sess.all, Sess.down, Sess.compJ]

theorem good_mono {pay pay' : List (JobId × Kind × Payload)} (h : ∀ x ∈ pay, x ∈ pay') {p : Pkt}
    (hp : good f c pay p) : good f c pay' p := by
  cases p with
  | task k j q => exact h _ hp
  | result j r => obtain ⟨k, q, h1, h2⟩ := hp; exact ⟨k, q, h _ h1, h2⟩
  | rekey => trivial
  | ctrl => trivial

theorem inv_task {s : Sess} (h : Inv f c s) (k j p) (hj : j ∉ s.used) :
    Inv f c { s with sq := s.sq ++ [.task k j p], jobs := j :: s.jobs, used := j :: s.used, pay := (j, k, p) :: s.pay } := by
  have h0 := h.token j
  simp [hj] at h0
  constructor
  · intro i
    have := h.token i
    simp only [Sess.all, Sess.compJ, cntJ_append, cntJ_cons, cntJ_nil, isJ_task] at *
    by_cases hij : j = i
    · subst hij; simp [hj] at *; omega
    · have : ¬ i = j := fun e => hij e.symm
      simp [hij, this] at *; omega
  · intro i
    have := h.execd i
    simpa [Sess.down, Sess.compJ] using this
  · intro i hi
    simp only [Sess.all, cntJ_append, cntJ_cons, cntJ_nil, isJ_task] at hi
    by_cases hij : j = i
    · subst hij; simp
    · have := h.pend i (by simp [Sess.all, hij] at *; omega)
      simp [this]
  · intro q hq
    have : q = .task k j p ∨ q ∈ s.all := by
      simp [Sess.all] at *; grind
    cases this with
    | inl e => subst e; simp [good]
    | inr e => exact good_mono (by intro x hx; simp [hx]) (h.cont q e)
  · intro jr hjr
    obtain ⟨k', q', h1, h2⟩ := h.compl jr hjr
    exact ⟨k', q', by simp [h1], h2⟩
  · intro i k1 q1 k2 q2 h1 h2
    have := h.payF i k1 q1 k2 q2
    have := h.payU i k1 q1
    have := h.payU i k2 q2
    simp at h1 h2
    grind
  · intro i k1 q1 h1
    have := h.payU i k1 q1
    simp at h1
    grind
  · exact h.untr

/-- packets only moved between places (or control / re-key packets appeared): the invariant is kept -/
theorem inv_move {s s' : Sess} (h : Inv f c s)
    (hall : ∀ j, cntJ j s'.all = cntJ j s.all) (hdown : ∀ j, cntJ j s'.down = cntJ j s.down)
    (hmem : ∀ p ∈ s'.all, p ∈ s.all ∨ p = .ctrl ∨ p = .rekey)
    (hjobs : s'.jobs = s.jobs) (hused : s'.used = s.used) (hpay : s'.pay = s.pay)
    (hexe : s'.execd = s.execd) (hcomp : s'.completed = s.completed) (hun : s'.untracked = s.untracked) :
    Inv f c s' := by
  have hcj : s'.compJ = s.compJ := by simp [Sess.compJ, hcomp]
  constructor
  · intro j; rw [hall, hcj, hused]; exact h.token j
  · intro j; rw [hdown, hcj, hexe]; exact h.execd j
  · intro j hj; rw [hall] at hj; rw [hjobs]; exact h.pend j hj
  · intro p hp
    rw [hpay]
    rcases hmem p hp with h1 | rfl | rfl
    · exact h.cont p h1
    · trivial
    · trivial
  · intro jr hjr; rw [hcomp] at hjr; rw [hpay]; exact h.compl jr hjr
  · rw [hpay]; exact h.payF
  · rw [hpay, hused]; exact h.payU
  · rw [hun]; exact h.untr

theorem inv_step {s s' : Sess} (h : Inv f c s) (e : SEv) (hs : stepS? f c s e = some s') : Inv f c s' := by
  cases e with
  | task k j p =>
    simp only [stepS?] at hs
    split at hs
    · rename_i hg
      cases hs
      exact inv_task h k j p hg.2.1
    · cases hs
  | taskFull =>
    simp only [stepS?] at hs
    split at hs
    · cases hs; exact h
    · cases hs
  | snext ps =>
    simp only [stepS?] at hs
    split at hs
    · cases hs
    · split at hs
      · rename_i sq' ht
        cases hs
        obtain ⟨h1, h2, h3, _⟩ := takeAll_spec _ _ _ ht
        apply inv_move h <;> try rfl
        · intro j; have := h1 j; simp [Sess.all, cntJ_filter_tracked]; omega
        · intro j; simp [Sess.down]
        · intro p hp
          simp [Sess.all] at hp ⊢
          grind
      · cases hs
  | crecv p =>
    simp only [stepS?] at hs
    split at hs
    · rename_i hp
      split at hs
      · cases hs
        apply inv_move h <;> try rfl
        · intro j; have := cntJ_erase j _ _ hp; simp [Sess.all] at *; omega
        · intro j; simp [Sess.down]
        · intro q hq
          have he : ∀ b, q ∈ s.s2c.erase b → q ∈ s.s2c := fun b => List.mem_of_mem_erase
          simp [Sess.all] at hq ⊢
          grind
      · cases hs
    · cases hs
  | exec k j p =>
    simp only [stepS?] at hs
    split at hs
    · rename_i hp
      cases hs
      have hgood := h.cont (.task k j p) (by simp [Sess.all, hp])
      constructor
      · intro i; have := h.token i; have := cntJ_erase i _ _ hp
        simp [Sess.all, Sess.compJ] at *; omega
      · intro i; have := h.execd i
        simp only [Sess.down, Sess.compJ, cntJ_append, cntJ_cons, cntJ_nil, isJ_task, List.count_cons] at *
        by_cases hij : j = i <;> simp [hij] at * <;> omega
      · intro i hi
        apply h.pend i
        have := cntJ_erase i _ _ hp
        simp [Sess.all] at *; omega
      · intro q hq
        have he : ∀ b, q ∈ s.cmux.erase b → q ∈ s.cmux := fun b => List.mem_of_mem_erase
        have : q ∈ s.all := by
          simp [Sess.all] at hq ⊢
          grind
        exact h.cont q this
      · exact h.compl
      · exact h.payF
      · exact h.payU
      · exact h.untr
    · cases hs
  | result j r drop =>
    simp only [stepS?] at hs
    split at hs
    · rename_i k i p hfind
      have hp : Pkt.task k i p ∈ s.run := List.mem_of_find?_eq_some hfind
      split at hs
      · rename_i hg
        obtain ⟨hr, hij⟩ := hg
        subst hij
        have hgood : (i, k, p) ∈ s.pay := h.cont (.task k i p) (by simp [Sess.all, hp])
        have hnew : good f c s.pay (.result i r) := ⟨k, p, hgood, hr⟩
        -- both outcomes: the task token in `run` becomes a result token in `cq` / `dropped`
        have key : ∀ s'' : Sess, (s'' = { s with run := s.run.erase (.task k i p), dropped := s.dropped ++ [.result i r] } ∨
            s'' = { s with run := s.run.erase (.task k i p), cq := s.cq ++ [.result i r] }) → Inv f c s'' := by
          intro s'' hs''
          have he : ∀ q b, q ∈ s.run.erase b → q ∈ s.run := fun q b => List.mem_of_mem_erase
          rcases hs'' with rfl | rfl
          all_goals
            constructor
            · intro l; have := h.token l; have := cntJ_erase l _ _ hp
              simp [Sess.all, Sess.compJ, isJ_task, isJ_result] at *; omega
            · intro l; have := h.execd l; have := cntJ_erase l _ _ hp
              simp [Sess.down, Sess.compJ, isJ_task, isJ_result] at *; omega
            · intro l hl
              apply h.pend l
              have := cntJ_erase l _ _ hp
              simp [Sess.all, isJ_task, isJ_result] at *; omega
            · intro q hq
              have : q ∈ s.all ∨ q = .result i r := by
                simp [Sess.all] at hq ⊢
                grind
              rcases this with h1 | rfl
              · exact h.cont q h1
              · exact hnew
            · exact h.compl
            · exact h.payF
            · exact h.payU
            · exact h.untr
        split at hs
        · split at hs
          · cases hs; exact key _ (Or.inl rfl)
          · cases hs
        · cases hs; exact key _ (Or.inr rfl)
      · cases hs
    · cases hs
  | cnext ps =>
    simp only [stepS?] at hs
    split at hs
    · split at hs
      · rename_i hg
        cases hs
        rw [hg]
        apply inv_move h <;> try rfl
        · intro j; simp [Sess.all, Pkt.isJ]
        · intro j; simp [Sess.down, Pkt.isJ]
        · intro q hq
          simp [Sess.all] at hq ⊢
          grind
      · cases hs
    · split at hs
      · rename_i cq' ht
        cases hs
        obtain ⟨h1, h2, h3, _⟩ := takeAll_spec _ _ _ ht
        apply inv_move h <;> try rfl
        · intro j; have := h1 j; simp [Sess.all, cntJ_filter_tracked]; omega
        · intro j; have := h1 j; simp [Sess.down, cntJ_filter_tracked]; omega
        · intro p hp
          simp [Sess.all] at hp ⊢
          grind
      · cases hs
  | srecv p =>
    simp only [stepS?] at hs
    split at hs
    · rename_i hp
      split at hs
      · cases hs
        apply inv_move h <;> try rfl
        · intro j; have := cntJ_erase j _ _ hp; simp [Sess.all] at *; omega
        · intro j; have := cntJ_erase j _ _ hp; simp [Sess.down] at *; omega
        · intro q hq
          have he : ∀ b, q ∈ s.c2s.erase b → q ∈ s.c2s := fun b => List.mem_of_mem_erase
          simp [Sess.all] at hq ⊢
          grind
      · cases hs
        apply inv_move h <;> try rfl
        · intro j; have := cntJ_erase j _ _ hp; simp [Sess.all, Pkt.isJ] at *; omega
        · intro j; have := cntJ_erase j _ _ hp; simp [Sess.down, Pkt.isJ] at *; omega
        · intro q hq
          have he : ∀ b, q ∈ s.c2s.erase b → q ∈ s.c2s := fun b => List.mem_of_mem_erase
          simp [Sess.all] at hq ⊢
          grind
      · cases hs
    · cases hs
  | handle j r tracked =>
    simp only [stepS?] at hs
    split at hs
    · rename_i hp
      have hall : Pkt.result j r ∈ s.all := by simp [Sess.all, hp]
      have hjobs : j ∈ s.jobs := h.pend j (cntJ_pos_of_mem hall (by simp [Pkt.isJ]))
      simp only [hjobs, if_true] at hs
      split at hs
      · cases hs
        have he : ∀ q b, q ∈ s.smux.erase b → q ∈ s.smux := fun q b => List.mem_of_mem_erase
        have her : ∀ l, cntJ l (s.smux.erase (.result j r)) + (if j = l then 1 else 0) = cntJ l s.smux := by
          intro l; have := cntJ_erase l _ _ hp; simpa [isJ_result] using this
        constructor
        · intro l; have := h.token l; have := her l
          simp only [Sess.all, Sess.compJ, cntJ_append, List.map_cons, List.count_cons] at *
          by_cases hjl : j = l <;> simp [hjl] at * <;> omega
        · intro l; have := h.execd l; have := her l
          simp only [Sess.down, Sess.compJ, cntJ_append, List.map_cons, List.count_cons] at *
          by_cases hjl : j = l <;> simp [hjl] at * <;> omega
        · intro l hl
          have h1 := her l
          have h2 := h.token l
          have h3 := h.pend l
          simp only [Sess.all, Sess.compJ, cntJ_append] at hl h2 h3 ⊢
          by_cases hjl : j = l
          · -- the token of j is now the completion record: no packet carries j any more
            subst hjl
            simp at h1
            have : (if j ∈ s.used then 1 else 0) ≤ 1 := by split <;> omega
            omega
          · simp [hjl] at h1
            have : l ∈ s.jobs := h3 (by omega)
            exact (List.mem_erase_of_ne (fun e => hjl e.symm)).mpr this
        · intro q hq
          have : q ∈ s.all := by
            simp [Sess.all] at hq ⊢
            grind
          exact h.cont q this
        · intro jr hjr
          simp at hjr
          rcases hjr with rfl | hjr
          · exact h.cont _ hall
          · exact h.compl jr hjr
        · exact h.payF
        · exact h.payU
        · exact h.untr
      · cases hs
    · cases hs
  | regen => cases hs; apply inv_move h <;> first | rfl | (intro; rfl) | (intro p hp; exact Or.inl hp)
  | sync => cases hs; apply inv_move h <;> first | rfl | (intro; rfl) | (intro p hp; exact Or.inl hp)
  | revert => cases hs; apply inv_move h <;> first | rfl | (intro; rfl) | (intro p hp; exact Or.inl hp)
  | setChan a b => cases hs; exact h
  | wake => cases hs; exact h
  | sctrl drop =>
    simp only [stepS?] at hs
    split at hs
    · split at hs
      · cases hs; exact h
      · cases hs
    · cases hs
      apply inv_move h <;> try rfl
      · intro j; simp [Sess.all, Pkt.isJ]
      · intro j; simp [Sess.down]
      · intro q hq
        simp [Sess.all] at hq ⊢
        grind
  | cctrl drop =>
    simp only [stepS?] at hs
    split at hs
    · split at hs
      · cases hs; exact h
      · cases hs
    · cases hs
      apply inv_move h <;> try rfl
      · intro j; simp [Sess.all, Pkt.isJ]
      · intro j; simp [Sess.down, Pkt.isJ]
      · intro q hq
        simp [Sess.all] at hq ⊢
        grind

/-! ### lifting to the global state (one session per client) and to whole traces -/

/-- every session satisfies the invariant (for its own client number) -/
def GInv (f : Kind → Nat → JobId → Payload → Res) (st : State) : Prop :=
  ∀ c s, st[c]? = some s → Inv f c s

theorem ginv_init (n : Nat) : GInv f (init n) := by
  intro c s hs
  simp [init, List.getElem?_replicate] at hs
  obtain ⟨_, rfl⟩ := hs
  exact inv_init

theorem ginv_step {st st' : State} {ev : Ev} (h : GInv f st) (hs : step? f st ev = some st') : GInv f st' := by
  unfold step? at hs
  split at hs
  · cases hs
  · rename_i s hsc
    split at hs
    · cases hs
    · rename_i s' hstep
      cases hs
      intro c t ht
      rw [List.getElem?_set] at ht
      split at ht
      · rename_i hc
        subst hc
        split at ht
        · cases ht; exact inv_step (h _ _ hsc) _ hstep
        · cases ht
      · exact h c t ht

theorem ginv_run {tr : List Ev} : ∀ {st st' : State}, GInv f st → run? f st tr = some st' → GInv f st' := by
  induction tr with
  | nil => intro st st' h hr; simp [run?] at hr; subst hr; exact h
  | cons ev evs ih =>
    intro st st' h hr
    simp only [run?] at hr
    split at hr
    · cases hr
    · rename_i st1 hs
      exact ih (ginv_step h hs) hr

/-- an event of client `c` leaves every other session alone -/
theorem step_other {st st' : State} {ev : Ev} (hs : step? f st ev = some st') {c' : Nat} (hc : c' ≠ ev.c) :
    st'[c']? = st[c']? := by
  unfold step? at hs
  split at hs
  · cases hs
  · split at hs
    · cases hs
    · cases hs
      rw [List.getElem?_set]
      have : ¬ ev.c = c' := fun e => hc e.symm
      simp [this]

end XMT.Proto
