/-
  XMT.ProtoProgress — shape invariant (tasks travel server → client, results client → server) and the
  progress argument of the C05 protocol machine: the token of a pending job that no full queue has
  discarded can always advance, by an explicitly constructed event, towards completion.
-/
import XMT.ProtoLemmas
namespace XMT.Proto
variable {f : Kind → Nat → JobId → Payload → Res} {c : Nat}

def Pkt.isResult : Pkt → Bool
  | .result .. => true
  | _ => false
def Pkt.isTask : Pkt → Bool
  | .task .. => true
  | _ => false

/-- tasks travel server → client, results client → server -/
structure Shape (s : Sess) : Prop where
  up : ∀ p, p ∈ s.sq ∨ p ∈ s.s2c ∨ p ∈ s.cmux ∨ p ∈ s.run → p.isResult = false
  dn : ∀ p, p ∈ s.cq ∨ p ∈ s.c2s ∨ p ∈ s.smux ∨ p ∈ s.dropped → p.isTask = false

theorem shape_init : Shape {} := by constructor <;> simp

theorem mem_filter_tracked {p : Pkt} {ps : List Pkt} (h : p ∈ ps.filter Pkt.tracked) : p ∈ ps :=
  (List.mem_filter.mp h).1

theorem shape_step {s s' : Sess} (h : Shape s) (e : SEv) (hs : stepS? f c s e = some s') : Shape s' := by
  obtain ⟨hu, hd⟩ := h
  have he : ∀ (l : List Pkt) (q b : Pkt), q ∈ l.erase b → q ∈ l := fun l q b => List.mem_of_mem_erase
  have hf : ∀ (q : Pkt) (ps : List Pkt), q ∈ ps.filter Pkt.tracked → q ∈ ps := fun q ps => mem_filter_tracked
  cases e with
  | task k j p =>
    simp only [stepS?] at hs
    split at hs
    · cases hs; constructor
      · intro q hq; simp at hq; rcases hq with (hq | rfl) | hq | hq | hq
        · exact hu q (Or.inl hq)
        · rfl
        · exact hu q (Or.inr (Or.inl hq))
        · exact hu q (Or.inr (Or.inr (Or.inl hq)))
        · exact hu q (Or.inr (Or.inr (Or.inr hq)))
      · exact hd
    · cases hs
  | taskFull =>
    simp only [stepS?] at hs
    split at hs
    · cases hs; exact ⟨hu, hd⟩
    · cases hs
  | snext ps =>
    simp only [stepS?] at hs
    split at hs
    · cases hs
    · split at hs
      · rename_i sq' ht
        cases hs
        obtain ⟨_, h2, h3, _⟩ := takeAll_spec _ _ _ ht
        constructor
        · intro q hq; simp at hq
          apply hu q
          grind
        · exact hd
      · cases hs
  | crecv p =>
    simp only [stepS?] at hs
    split at hs
    · split at hs
      · cases hs
        constructor
        · intro q hq; simp at hq
          rcases hq with hq | hq | (hq | rfl) | hq
          · exact hu q (Or.inl hq)
          · exact hu q (Or.inr (Or.inl (he _ _ _ hq)))
          · exact hu q (Or.inr (Or.inr (Or.inl hq)))
          · rfl
          · exact hu q (Or.inr (Or.inr (Or.inr hq)))
        · exact hd
      · cases hs
    · cases hs
  | exec k j p =>
    simp only [stepS?] at hs
    split at hs
    · cases hs
      constructor
      · intro q hq; simp at hq
        rcases hq with hq | hq | hq | (hq | rfl)
        · exact hu q (Or.inl hq)
        · exact hu q (Or.inr (Or.inl hq))
        · exact hu q (Or.inr (Or.inr (Or.inl (he _ _ _ hq))))
        · exact hu q (Or.inr (Or.inr (Or.inr hq)))
        · rfl
      · exact hd
    · cases hs
  | result j r drop =>
    simp only [stepS?] at hs
    split at hs
    · split at hs
      · split at hs
        · split at hs
          · cases hs
            constructor
            · intro q hq; simp at hq
              apply hu q; grind
            · intro q hq; simp at hq
              rcases hq with hq | hq | hq | (hq | rfl)
              · exact hd q (Or.inl hq)
              · exact hd q (Or.inr (Or.inl hq))
              · exact hd q (Or.inr (Or.inr (Or.inl hq)))
              · exact hd q (Or.inr (Or.inr (Or.inr hq)))
              · rfl
          · cases hs
        · cases hs
          constructor
          · intro q hq; simp at hq
            apply hu q; grind
          · intro q hq; simp at hq
            rcases hq with (hq | rfl) | hq | hq | hq
            · exact hd q (Or.inl hq)
            · rfl
            · exact hd q (Or.inr (Or.inl hq))
            · exact hd q (Or.inr (Or.inr (Or.inl hq)))
            · exact hd q (Or.inr (Or.inr (Or.inr hq)))
      · cases hs
    · cases hs
  | cnext ps =>
    simp only [stepS?] at hs
    split at hs
    · split at hs
      · rename_i hg
        cases hs
        rw [hg]
        constructor
        · exact hu
        · intro q hq; simp at hq
          rcases hq with hq | (hq | rfl) | hq | hq
          · exact hd q (Or.inl hq)
          · exact hd q (Or.inr (Or.inl hq))
          · rfl
          · exact hd q (Or.inr (Or.inr (Or.inl hq)))
          · exact hd q (Or.inr (Or.inr (Or.inr hq)))
      · cases hs
    · split at hs
      · rename_i cq' ht
        cases hs
        obtain ⟨_, h2, h3, _⟩ := takeAll_spec _ _ _ ht
        constructor
        · exact hu
        · intro q hq; simp at hq
          apply hd q
          grind
      · cases hs
  | srecv p =>
    simp only [stepS?] at hs
    split at hs
    · split at hs
      · cases hs
        constructor
        · exact hu
        · intro q hq; simp at hq
          rcases hq with hq | hq | (hq | rfl) | hq
          · exact hd q (Or.inl hq)
          · exact hd q (Or.inr (Or.inl (he _ _ _ hq)))
          · exact hd q (Or.inr (Or.inr (Or.inl hq)))
          · rfl
          · exact hd q (Or.inr (Or.inr (Or.inr hq)))
      · cases hs
        constructor
        · exact hu
        · intro q hq; simp at hq
          apply hd q; grind
      · cases hs
    · cases hs
  | handle j r tracked =>
    simp only [stepS?] at hs
    split at hs
    · split at hs
      · split at hs
        · cases hs
          constructor
          · exact hu
          · intro q hq; simp at hq
            apply hd q; grind
        · cases hs
      · split at hs
        · cases hs
        · cases hs
          constructor
          · exact hu
          · intro q hq; simp at hq
            apply hd q; grind
    · cases hs
  | regen => cases hs; exact ⟨hu, hd⟩
  | sync => cases hs; exact ⟨hu, hd⟩
  | revert => cases hs; exact ⟨hu, hd⟩
  | setChan a b => cases hs; exact ⟨hu, hd⟩
  | wake => cases hs; exact ⟨hu, hd⟩
  | sctrl drop =>
    simp only [stepS?] at hs
    split at hs
    · split at hs
      · cases hs; exact ⟨hu, hd⟩
      · cases hs
    · cases hs
      constructor
      · intro q hq; simp at hq
        rcases hq with (hq | rfl) | hq | hq | hq
        · exact hu q (Or.inl hq)
        · rfl
        · exact hu q (Or.inr (Or.inl hq))
        · exact hu q (Or.inr (Or.inr (Or.inl hq)))
        · exact hu q (Or.inr (Or.inr (Or.inr hq)))
      · exact hd
  | cctrl drop =>
    simp only [stepS?] at hs
    split at hs
    · split at hs
      · cases hs; exact ⟨hu, hd⟩
      · cases hs
    · cases hs
      constructor
      · exact hu
      · intro q hq; simp at hq
        rcases hq with (hq | rfl) | hq | hq | hq
        · exact hd q (Or.inl hq)
        · rfl
        · exact hd q (Or.inr (Or.inl hq))
        · exact hd q (Or.inr (Or.inr (Or.inl hq)))
        · exact hd q (Or.inr (Or.inr (Or.inr hq)))

/-- distance of job `j`'s token from completion -/
def rank (s : Sess) (j : JobId) : Nat :=
  7 * cntJ j s.sq + 6 * cntJ j s.s2c + 5 * cntJ j s.cmux + 4 * cntJ j s.run + 3 * cntJ j s.cq +
    2 * cntJ j s.c2s + cntJ j s.smux

def runS? (f : Kind → Nat → JobId → Payload → Res) (c : Nat) : Sess → List SEv → Option Sess
  | s, [] => some s
  | s, e :: es =>
    match stepS? f c s e with
    | none => none
    | some s' => runS? f c s' es

theorem isJ_shape_up {p : Pkt} {j : JobId} (h1 : p.isJ j = true) (h2 : p.isResult = false) :
    ∃ k q, p = .task k j q := by
  cases p with
  | task k i q => simp [Pkt.isJ] at h1; subst h1; exact ⟨k, q, rfl⟩
  | result i r => simp [Pkt.isResult] at h2
  | rekey => simp [Pkt.isJ] at h1
  | ctrl => simp [Pkt.isJ] at h1

theorem isJ_shape_dn {p : Pkt} {j : JobId} (h1 : p.isJ j = true) (h2 : p.isTask = false) :
    ∃ r, p = .result j r := by
  cases p with
  | task k i q => simp [Pkt.isTask] at h2
  | result i r => simp [Pkt.isJ] at h1; subst h1; exact ⟨r, rfl⟩
  | rekey => simp [Pkt.isJ] at h1
  | ctrl => simp [Pkt.isJ] at h1

theorem takeAll_single {xs : List Pkt} {p : Pkt} (h : p ∈ xs) : takeAll xs [p] = some (xs.erase p) := by
  simp [takeAll, h]

/-- the token of a pending, not discarded job can always advance: an explicit event is enabled that
    moves it one place closer to completion (or completes it) -/
theorem progress_step {s : Sess} {j : JobId} (inv : Inv f c s) (sh : Shape s) (hu : j ∈ s.used)
    (hn : s.compJ.count j = 0) (hd : cntJ j s.dropped = 0) :
    ∃ e s', stepS? f c s e = some s' ∧ s'.used = s.used ∧ cntJ j s'.dropped = 0 ∧
      ((rank s' j < rank s j ∧ s'.compJ.count j = 0) ∨ j ∈ s'.compJ) := by
  have htok := inv.token j
  simp only [hu, if_true, hn, Sess.all, cntJ_append, hd] at htok
  by_cases c1 : 0 < cntJ j s.sq
  · obtain ⟨p, hp, hj⟩ := exists_of_cntJ_pos c1
    obtain ⟨k, q, rfl⟩ := isJ_shape_up hj (sh.up p (Or.inl hp))
    have he := cntJ_erase j _ _ hp
    have hstep : stepS? f c s (.snext [.task k j q]) =
        some { s with sq := s.sq.erase (.task k j q), s2c := s.s2c ++ [.task k j q] } := by
      simp [stepS?, takeAll_single hp, Pkt.tracked]
    refine ⟨_, _, hstep, rfl, hd, Or.inl ⟨?_, hn⟩⟩
    simp [rank, isJ_task] at *; omega
  by_cases c2 : 0 < cntJ j s.s2c
  · obtain ⟨p, hp, hj⟩ := exists_of_cntJ_pos c2
    obtain ⟨k, q, rfl⟩ := isJ_shape_up hj (sh.up p (Or.inr (Or.inl hp)))
    have he := cntJ_erase j _ _ hp
    have hstep : stepS? f c s (.crecv (.task k j q)) =
        some { s with s2c := s.s2c.erase (.task k j q), cmux := s.cmux ++ [.task k j q] } := by
      simp [stepS?, hp]
    refine ⟨_, _, hstep, rfl, hd, Or.inl ⟨?_, hn⟩⟩
    simp [rank, isJ_task] at *; omega
  by_cases c3 : 0 < cntJ j s.cmux
  · obtain ⟨p, hp, hj⟩ := exists_of_cntJ_pos c3
    obtain ⟨k, q, rfl⟩ := isJ_shape_up hj (sh.up p (Or.inr (Or.inr (Or.inl hp))))
    have he := cntJ_erase j _ _ hp
    have hstep : stepS? f c s (.exec k j q) =
        some { s with cmux := s.cmux.erase (.task k j q), run := s.run ++ [.task k j q], execd := j :: s.execd } := by
      simp [stepS?, hp]
    refine ⟨_, _, hstep, rfl, hd, Or.inl ⟨?_, hn⟩⟩
    simp [rank, isJ_task] at *; omega
  by_cases c4 : 0 < cntJ j s.run
  · have : (s.run.find? (Pkt.isJ j)).isSome := by
      obtain ⟨p, hp, hj⟩ := exists_of_cntJ_pos c4
      exact List.find?_isSome.mpr ⟨p, hp, hj⟩
    obtain ⟨p, hfind⟩ := Option.isSome_iff_exists.mp this
    have hp : p ∈ s.run := List.mem_of_find?_eq_some hfind
    have hj : p.isJ j = true := List.find?_some hfind
    obtain ⟨k, q, rfl⟩ := isJ_shape_up hj (sh.up p (Or.inr (Or.inr (Or.inr hp))))
    have he := cntJ_erase j _ _ hp
    have hstep : stepS? f c s (.result j (f k c j q) false) =
        some { s with run := s.run.erase (.task k j q), cq := s.cq ++ [.result j (f k c j q)] } := by
      simp [stepS?, hfind]
    refine ⟨_, _, hstep, rfl, hd, Or.inl ⟨?_, hn⟩⟩
    simp [rank, isJ_task, isJ_result] at *; omega
  by_cases c5 : 0 < cntJ j s.cq
  · obtain ⟨p, hp, hj⟩ := exists_of_cntJ_pos c5
    obtain ⟨r, rfl⟩ := isJ_shape_dn hj (sh.dn p (Or.inl hp))
    have he := cntJ_erase j _ _ hp
    have hstep : stepS? f c s (.cnext [.result j r]) =
        some { s with cq := s.cq.erase (.result j r), c2s := s.c2s ++ [.result j r] } := by
      simp [stepS?, takeAll_single hp, Pkt.tracked]
    refine ⟨_, _, hstep, rfl, hd, Or.inl ⟨?_, hn⟩⟩
    simp [rank, isJ_result] at *; omega
  by_cases c6 : 0 < cntJ j s.c2s
  · obtain ⟨p, hp, hj⟩ := exists_of_cntJ_pos c6
    obtain ⟨r, rfl⟩ := isJ_shape_dn hj (sh.dn p (Or.inr (Or.inl hp)))
    have he := cntJ_erase j _ _ hp
    have hstep : stepS? f c s (.srecv (.result j r)) =
        some { s with c2s := s.c2s.erase (.result j r), smux := s.smux ++ [.result j r] } := by
      simp [stepS?, hp]
    refine ⟨_, _, hstep, rfl, hd, Or.inl ⟨?_, hn⟩⟩
    simp [rank, isJ_result] at *; omega
  · have c7 : 0 < cntJ j s.smux := by omega
    obtain ⟨p, hp, hj⟩ := exists_of_cntJ_pos c7
    obtain ⟨r, rfl⟩ := isJ_shape_dn hj (sh.dn p (Or.inr (Or.inr (Or.inl hp))))
    have hjobs : j ∈ s.jobs := inv.pend j (by simp [Sess.all]; omega)
    have hstep : stepS? f c s (.handle j r true) =
        some { s with smux := s.smux.erase (.result j r), jobs := s.jobs.erase j, completed := (j, r) :: s.completed } := by
      simp [stepS?, hp, hjobs]
    refine ⟨_, _, hstep, rfl, hd, Or.inr ?_⟩
    simp [Sess.compJ]

theorem rank_pos_of_token {s : Sess} {j : JobId} (inv : Inv f c s) (hu : j ∈ s.used)
    (hn : s.compJ.count j = 0) (hd : cntJ j s.dropped = 0) : 1 ≤ rank s j ∧ rank s j ≤ 7 := by
  have htok := inv.token j
  simp only [hu, if_true, hn, Sess.all, cntJ_append, hd] at htok
  simp only [rank]; omega

/-- function statement of progress: from any reachable situation, at most `n ≥ rank` explicitly
    constructed events complete the job -/
theorem completes_within {j : JobId} : ∀ (n : Nat) (s : Sess), Inv f c s → Shape s → j ∈ s.used →
    s.compJ.count j = 0 → cntJ j s.dropped = 0 → rank s j ≤ n →
    ∃ evs s', evs.length ≤ n ∧ runS? f c s evs = some s' ∧ j ∈ s'.compJ
  | 0, s, inv, _, hu, hn, hd, hr => by
    have := rank_pos_of_token inv hu hn hd; omega
  | n + 1, s, inv, sh, hu, hn, hd, hr => by
    obtain ⟨e, s', hstep, hused, hd', hcase⟩ := progress_step inv sh hu hn hd
    rcases hcase with ⟨hlt, hn'⟩ | hdone
    · obtain ⟨evs, s'', hlen, hrun, hdone⟩ :=
        completes_within n s' (inv_step inv e hstep) (shape_step sh e hstep) (hused ▸ hu) hn' hd' (by omega)
      exact ⟨e :: evs, s'', by simp; omega, by simp [runS?, hstep, hrun], hdone⟩
    · exact ⟨[e], s', by simp, by simp [runS?, hstep], hdone⟩

theorem inv_runS {evs : List SEv} : ∀ {s s' : Sess}, Inv f c s → runS? f c s evs = some s' → Inv f c s' := by
  induction evs with
  | nil => intro s s' inv hrun; simp [runS?] at hrun; subst hrun; exact inv
  | cons e es ih =>
    intro s s' inv hrun
    simp only [runS?] at hrun
    split at hrun
    · cases hrun
    · rename_i s1 hstep
      exact ih (inv_step inv e hstep) hrun

/-- no step takes a packet out of `dropped` -/
theorem dropped_mono {s s' : Sess} (e : SEv) (hs : stepS? f c s e = some s') (j : JobId) :
    cntJ j s.dropped ≤ cntJ j s'.dropped := by
  cases e <;> simp only [stepS?] at hs <;> (repeat' split at hs) <;> first
    | (cases hs; simp)
    | (cases hs; done)
    | skip

theorem discarded_never_completes {evs : List SEv} : ∀ {s s' : Sess} {j : JobId}, Inv f c s →
    0 < cntJ j s.dropped → runS? f c s evs = some s' → j ∉ s'.compJ := by
  induction evs with
  | nil =>
    intro s s' j inv hd hrun
    simp [runS?] at hrun; subst hrun
    have := inv.token j
    have : cntJ j s.dropped ≤ cntJ j s.all := by simp [Sess.all]; omega
    intro hc
    have : 0 < s.compJ.count j := List.count_pos_iff.mpr hc
    split at * <;> omega
  | cons e es ih =>
    intro s s' j inv hd hrun
    simp only [runS?] at hrun
    split at hrun
    · cases hrun
    · rename_i s1 hstep
      exact ih (inv_step inv e hstep) (Nat.lt_of_lt_of_le hd (dropped_mono e hstep j)) hrun

/-- all sessions have the shape invariant along every trace -/
def GShape (st : State) : Prop := ∀ (c : Nat) (s : Sess), st[c]? = some s → Shape s

theorem gshape_init (n : Nat) : GShape (init n) := by
  intro c s hs
  simp [init, List.getElem?_replicate] at hs
  obtain ⟨_, rfl⟩ := hs
  exact shape_init

theorem gshape_step {st st' : State} {ev : Ev} (h : GShape st) (hs : step? f st ev = some st') : GShape st' := by
  unfold step? at hs
  split at hs
  · cases hs
  · rename_i s hsc
    split at hs
    · cases hs
    · rename_i s' hstep
      cases hs
      intro c t ht
      rw [List.getElem?_set] at ht
      split at ht
      · rename_i hc
        subst hc
        split at ht
        · cases ht; exact shape_step (h _ _ hsc) _ hstep
        · cases ht
      · exact h c t ht

theorem gshape_run {tr : List Ev} : ∀ {st st' : State}, GShape st → run? f st tr = some st' → GShape st' := by
  induction tr with
  | nil => intro st st' h hr; simp [run?] at hr; subst hr; exact h
  | cons ev evs ih =>
    intro st st' h hr
    simp only [run?] at hr
    split at hr
    · cases hr
    · rename_i st1 hs
      exact ih (gshape_step h hs) hr

end XMT.Proto
