/-
  XMT.RegDisplay — model of the display form of a registry value, device/regedit/v_no_implant.go
  `Entry.String` (build tag `!implant`; there is no implant twin: with `-tags implant` the type has no
  `String`/`TypeName` method at all) and `Entry.TypeName`, and of `util.Uitoa` (util/number.go) which
  it prints DWORD/QWORD values with.

  Conventions (as XMT/Utf16.lean): the result string is the list of its runes — every piece the
  function concatenates is either ASCII (digits, hex digits, `", "`, `"<invalid>"`) or
  `string(UTF16Decode(..))`, a rune list of scalar values, so the concatenation of the UTF-8 strings
  is the UTF-8 string of the concatenated rune lists (the harness compares `[]rune(e.String())`).
  The `[]uint16` view over `e.Data` is read through `u16At` only: an index outside the value is
  `Outcome.panic "read-oob"`. The length of the view is a parameter of `entryStringV` (the code has
  `len(e.Data)/2`, regenerated as a syntactic fact; `entryString` instantiates it) so that the
  guard-needed theorem can state what any longer view does.
  Core-only.
-/
import XMT.Utf16
namespace XMT.Utf16
open XMT

/-! ### util.Uitoa -/

/-- The loop of `util.Uitoa` with `k = i + 1` (so `b[i]` is `b[k-1]`, and `k = 0` is the index `-1`):
    `for v >= 0xA { n := v / 0xA; b[i] = byte(0x30 + v - n*0xA); i--; v = n }; b[i] = byte(0x30 + v);`
    `return string(b[i:])` — `uint64` arithmetic wraps modulo 2^64, `byte(..)` keeps the low 8 bits. -/
def uitoaLoop : Nat → Nat → Bytes → Outcome Bytes
  | 0, _, _ => .panic "index"
  | k + 1, v, b =>
    if v ≥ 0xA then
      match wr b k (UInt8.ofNat (((0x30 + v) % 18446744073709551616 + 18446744073709551616
                      - (v / 0xA * 0xA) % 18446744073709551616) % 18446744073709551616)) with
      | .ok b => uitoaLoop k (v / 0xA) b
      | .err e => .err e
      | .panic p => .panic p
    else
      match wr b k (UInt8.ofNat ((0x30 + v) % 18446744073709551616)) with
      | .ok b => .ok (b.drop k)
      | .err e => .err e
      | .panic p => .panic p

/-- `util.Uitoa(v uint64) string`: `if v == 0 { return "0" }; var ( i = 0x13; b [20]byte ) …`. -/
def uitoa (v : Nat) : Outcome Bytes :=
  if v = 0 then .ok [0x30] else uitoaLoop 0x14 v (List.replicate 20 0)

/-- Reference: the decimal digits of `v`, most significant first, as ASCII. -/
def decRef (v : Nat) : Bytes :=
  if v < 10 then [UInt8.ofNat (0x30 + v)] else decRef (v / 10) ++ [UInt8.ofNat (0x30 + v % 10)]
decreasing_by omega

/-- An ASCII byte string as the rune list of the Go string it is. -/
def asRunes (b : Bytes) : List Int := b.map fun x => (x.toNat : Int)

/-- `hex.EncodeToString` (stdlib: two lower-case digits per byte, high nibble first). -/
def hexRunes (d : Bytes) : List Int :=
  d.flatMap fun b =>
    let dg : Nat → Int := fun n => if n < 10 then ((0x30 + n : Nat) : Int) else ((0x61 + (n - 10) : Nat) : Int)
    [dg (b.toNat / 16), dg (b.toNat % 16)]

/-! ### the `[]uint16` view -/

/-- `(*[1 << 29]uint16)(unsafe.Pointer(&e.Data[0]))[: n : n]` for a view length `n`. -/
def regViewN (d : Bytes) (n : Nat) : Outcome U16s :=
  match d[0]? with
  | none => .panic "index"                                       -- &e.Data[0]
  | some _ =>
    if n > Facts.regArrayCap then .panic "slice-bounds"
    else viewU16 d n

/-! ### Entry.String -/

/-- `"<invalid>"` -/
def invalidRunes : List Int := [60, 105, 110, 118, 97, 108, 105, 100, 62]

/-- Loop of the `TypeStringList` case of `Entry.String` (the list is `v[i:]`, `acc` the Builder):
    `for i, n := 0, 0; i < len(v); i++ { if v[i] > 0 { continue }; if n > 0 { b.WriteByte(',');`
    `b.WriteByte(' ') }; b.WriteString(string(winapi.UTF16Decode(v[n:i]))); n = i + 1 }`. -/
def dispLoop (v : U16s) : U16s → Nat → Nat → List Int → Outcome (List Int)
  | [], _, _, acc => .ok acc
  | x :: rest, i, n, acc =>
    if x.toNat > 0 then dispLoop v rest (i + 1) n acc
    else
      match slice v n i with
      | .ok seg =>
        match utf16Decode seg with
        | .ok rs => dispLoop v rest (i + 1) (i + 1) ((if n > 0 then acc ++ [44, 32] else acc) ++ rs)
        | .err e => .err e
        | .panic p => .panic p
      | .err e => .err e
      | .panic p => .panic p

/-- `Entry.String()` with the view length `vl (len(e.Data))`; `nameLen = len(e.Name)`. The `switch`
    cases are tried in source order (Dword, Qword, Binary, StringList, String/ExpandString). -/
def entryStringV (vl : Nat → Nat) (ty nameLen : Nat) (d : Bytes) : Outcome (List Int) :=
  if ty = 0 then
    if nameLen = 0 then .ok invalidRunes else .ok []
  else if ty = Facts.regTypeDword then
    if d.length ≠ 4 then .ok []
    else
      match d[3]?, d[0]?, d[1]?, d[2]? with                       -- `_ = e.Data[3]` first
      | some b3, some b0, some b1, some b2 =>
        match uitoa (b0.toNat ||| (b1.toNat <<< 8) ||| (b2.toNat <<< 16) ||| (b3.toNat <<< 24)) with
        | .ok s => .ok (asRunes s)
        | .err e => .err e
        | .panic p => .panic p
      | _, _, _, _ => .panic "index"
  else if ty = Facts.regTypeQword then
    if d.length ≠ 8 then .ok []
    else
      match d[7]?, d[0]?, d[1]?, d[2]?, d[3]?, d[4]?, d[5]?, d[6]? with
      | some b7, some b0, some b1, some b2, some b3, some b4, some b5, some b6 =>
        match uitoa (b0.toNat ||| (b1.toNat <<< 8) ||| (b2.toNat <<< 16) ||| (b3.toNat <<< 24) |||
             (b4.toNat <<< 32) ||| (b5.toNat <<< 40) ||| (b6.toNat <<< 48) ||| (b7.toNat <<< 56)) with
        | .ok s => .ok (asRunes s)
        | .err e => .err e
        | .panic p => .panic p
      | _, _, _, _, _, _, _, _ => .panic "index"
  else if ty = Facts.regTypeBinary then .ok (hexRunes d)
  else if ty = Facts.regTypeStringList then
    if d.length < 3 then .ok []
    else
      match regViewN d (vl d.length) with
      | .ok v =>
        if v.length = 0 then .ok []
        else
          match v[v.length - 1]? with
          | none => .panic "index"
          | some last =>
            let v' := if last = 0 then v.take (v.length - 1) else v
            dispLoop v' v' 0 0 []
      | .err e => .err e
      | .panic p => .panic p
  else if ty = Facts.regTypeString ∨ ty = Facts.regTypeExpandString then
    if d.length < 3 then .ok []
    else
      match regViewN d (vl d.length) with
      | .ok v => utf16Decode v                                    -- UTF16ToString
      | .err e => .err e
      | .panic p => .panic p
  else .ok []

/-- `Entry.String()` as written: both views are `[: len(e.Data)/2 : len(e.Data)/2]`. -/
def entryString (ty nameLen : Nat) (d : Bytes) : Outcome (List Int) :=
  entryStringV (fun l => l / 2) ty nameLen d

/-- `Entry.TypeName()`: 0 = "KEY", 1 = "DWORD", 2 = "QWORD", 3 = "BINARY", 4 = "MULTI_STRING",
    5 = "STRING", 6 = "" (the name as a small code; the driver prints the text). -/
def entryTypeName (ty : Nat) : Nat :=
  if ty = 0 then 0
  else if ty = Facts.regTypeDword then 1
  else if ty = Facts.regTypeQword then 2
  else if ty = Facts.regTypeBinary then 3
  else if ty = Facts.regTypeStringList then 4
  else if ty = Facts.regTypeString ∨ ty = Facts.regTypeExpandString then 5
  else 6

/-! ### reference display form -/

/-- `strings.Join(segs, ", ")` on rune lists: the part after the first element … -/
def joinTail (l : List (List Int)) : List Int := l.flatMap fun s => [44, 32] ++ s

/-- … and the whole. -/
def joinSegs : List (List Int) → List Int
  | [] => []
  | a :: t => a ++ joinTail t

/-- The documented display form of a value (written from the value layouts, not from the code). -/
def refDisplay (ty nameLen : Nat) (d : Bytes) : List Int :=
  if ty = 0 then (if nameLen = 0 then invalidRunes else [])
  else if ty = Facts.regTypeDword then (if d.length = 4 then asRunes (decRef (leNat d)) else [])
  else if ty = Facts.regTypeQword then (if d.length = 8 then asRunes (decRef (leNat d)) else [])
  else if ty = Facts.regTypeBinary then hexRunes d
  else if ty = Facts.regTypeStringList then
    (if d.length < 3 then [] else joinSegs ((segs (stripLastNul (leWords d))).map refDecode))
  else if ty = Facts.regTypeString ∨ ty = Facts.regTypeExpandString then
    (if d.length < 3 then [] else refDecode (untilNul (leWords d)))
  else []

end XMT.Utf16
