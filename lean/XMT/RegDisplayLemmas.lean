/-
  XMT.RegDisplayLemmas — lemmas about the model of `Entry.String` / `util.Uitoa` (XMT/RegDisplay.lean).
-/
import XMT.Utf16Reg
import XMT.RegDisplay
namespace XMT.Utf16
open XMT

/-! ### util.Uitoa is the decimal representation -/

theorem drop_set_self {α : Type} : ∀ (b : List α) (k : Nat) (x : α), k < b.length →
    (b.set k x).drop k = x :: b.drop (k + 1) := by
  intro b
  induction b with
  | nil => intro k x h; simp at h
  | cons a t ih =>
    intro k x h
    cases k with
    | zero => simp
    | succ k =>
      simp only [List.length_cons] at h
      simp only [List.set_cons_succ, List.drop_succ_cons]
      exact ih k x (by omega)

theorem uitoaLoop_eq : ∀ (k v : Nat) (b : Bytes), v < 10 ^ (k + 1) → v < 18446744073709551616 →
    k < b.length → uitoaLoop (k + 1) v b = .ok (decRef v ++ b.drop (k + 1)) := by
  intro k
  induction k with
  | zero =>
    intro v b hv _ hk
    have hv' : v < 10 := by simpa using hv
    unfold uitoaLoop
    rw [if_neg (by omega)]
    unfold wr
    rw [if_pos hk]
    dsimp only
    rw [drop_set_self b 0 _ hk]
    unfold decRef
    rw [if_pos hv']
    have : (0x30 + v) % 18446744073709551616 = 0x30 + v := by omega
    rw [this]
    rfl
  | succ k ih =>
    intro v b hv h64 hk
    unfold uitoaLoop
    by_cases h10 : v ≥ 0xA
    · rw [if_pos h10]
      unfold wr
      rw [if_pos hk]
      dsimp only
      have hq : v / 0xA < 10 ^ (k + 1) := by
        rw [Nat.pow_succ] at hv
        omega
      rw [ih (v / 0xA) _ hq (by omega) (by rw [List.length_set]; omega)]
      have hd : (b.set (k + 1) (UInt8.ofNat (((0x30 + v) % 18446744073709551616 + 18446744073709551616
                      - (v / 0xA * 0xA) % 18446744073709551616) % 18446744073709551616))).drop (k + 1)
            = UInt8.ofNat (0x30 + v % 10) :: b.drop (k + 1 + 1) := by
        rw [drop_set_self b (k + 1) _ hk]
        congr 2
        omega
      rw [hd]
      conv => rhs; unfold decRef
      rw [if_neg (by omega)]
      simp
    · rw [if_neg h10]
      unfold wr
      rw [if_pos hk]
      dsimp only
      rw [drop_set_self b (k + 1) _ hk]
      unfold decRef
      rw [if_pos (by omega)]
      have : (0x30 + v) % 18446744073709551616 = 0x30 + v := by omega
      rw [this]
      rfl

theorem decRef_zero : decRef 0 = [0x30] := by
  unfold decRef; rfl

/-- `util.Uitoa` returns the decimal digits for every `uint64`; no index of `b [20]byte` is out of range. -/
theorem uitoa_eq (v : Nat) (h : v < 18446744073709551616) : uitoa v = .ok (decRef v) := by
  unfold uitoa
  by_cases h0 : v = 0
  · rw [if_pos h0, h0, decRef_zero]
  · rw [if_neg h0]
    have := uitoaLoop_eq 19 v (List.replicate 20 0) (by omega) h (by simp)
    simpa using this

/-! ### the view -/

theorem regViewN_half (d : Bytes) : regViewN d (d.length / 2) = regView d := by
  unfold regViewN regView
  rfl

/-- Guard needed: a view of `(len+1)/2` words over a value of odd length reads one byte past it. -/
theorem viewU16_roundUp_oob (d : Bytes) (hodd : d.length % 2 = 1) :
    viewU16 d ((d.length + 1) / 2) = .panic "read-oob" := by
  have e : (d.length + 1) / 2 = d.length / 2 + 1 := by omega
  rw [e]
  unfold viewU16
  rw [viewU16_eq d _ (by omega)]
  dsimp only
  unfold u16At
  have h1 : d[2 * (d.length / 2) + 1]? = none := by
    rw [List.getElem?_eq_none_iff]; omega
  rw [h1]
  split <;> simp_all

/-! ### the MULTI_SZ display loop -/

theorem dispLoop_eq (v : U16s) : ∀ (rest pre : U16s) (n : Nat) (acc : List Int),
    v = pre ++ rest → n ≤ pre.length →
    dispLoop v rest pre.length n acc
      = .ok (acc ++ (if n > 0 then joinTail ((segsAux (pre.drop n) rest).map (fun s => refDecode (untilNul s)))
                     else joinSegs ((segsAux (pre.drop n) rest).map (fun s => refDecode (untilNul s))))) := by
  intro rest
  induction rest with
  | nil => intro pre n acc _ _; simp [dispLoop, segsAux, joinTail, joinSegs]
  | cons x rest ih =>
    intro pre n acc hv hn
    unfold dispLoop segsAux
    have hv' : v = (pre ++ [x]) ++ rest := by rw [hv]; simp
    have hl : (pre ++ [x]).length = pre.length + 1 := by simp
    by_cases hx : x.toNat > 0
    · rw [if_pos hx]
      have hx0 : x ≠ 0 := by intro e; rw [e] at hx; simp at hx
      rw [if_neg hx0]
      have := ih (pre ++ [x]) n acc hv' (by rw [hl]; omega)
      rw [hl] at this
      rw [this, List.drop_append_of_le_length hn]
    · rw [if_neg hx]
      have hx0 : x = 0 := by
        apply UInt16.toNat_inj.mp; simp; omega
      rw [if_pos hx0]
      rw [hv, slice_pre pre (x :: rest) n hn]
      dsimp only
      rw [utf16Decode_eq]
      dsimp only
      rw [← hv]
      have := ih (pre ++ [x]) (pre.length + 1)
        ((if n > 0 then acc ++ [44, 32] else acc) ++ refDecode (untilNul (pre.drop n))) hv' (by rw [hl]; omega)
      rw [hl] at this
      rw [this]
      have hd : (pre ++ [x]).drop (pre.length + 1) = [] := by
        apply List.drop_of_length_le; simp
      rw [hd]
      have hp : List.length pre + 1 > 0 := by omega
      rw [if_pos hp]
      by_cases hn0 : n > 0
      · simp only [if_pos hn0]
        simp [joinTail]
      · simp only [if_neg hn0]
        simp [joinSegs, joinTail]

/-! ### Entry.String -/

theorem entryString_eq (ty nameLen : Nat) (d : Bytes) (hc : d.length / 2 ≤ Facts.regArrayCap) :
    entryString ty nameLen d = .ok (refDisplay ty nameLen d) := by
  unfold entryString entryStringV refDisplay
  split
  · split <;> rfl
  · split
    · -- DWORD
      split
      · rfl
      · rename_i h
        have h4 : d.length = 4 := by omega
        rw [if_pos h4]
        match d, h4 with
        | [b0, b1, b2, b3], _ =>
          simp only [List.getElem?_cons_succ, List.getElem?_cons_zero]
          rw [leNat4, uitoa_eq _ (by have := leNat_lt [b0, b1, b2, b3]; simp at this; omega)]
    · split
      · -- QWORD
        split
        · rfl
        · rename_i h
          have h8 : d.length = 8 := by omega
          rw [if_pos h8]
          match d, h8 with
          | [b0, b1, b2, b3, b4, b5, b6, b7], _ =>
            simp only [List.getElem?_cons_succ, List.getElem?_cons_zero]
            rw [leNat8, uitoa_eq _ (by have := leNat_lt [b0, b1, b2, b3, b4, b5, b6, b7]; simpa using this)]
      · split
        · rfl
        · split
          · -- MULTI_SZ
            split
            · rfl
            · rename_i h3
              rw [regViewN_half, regView_eq d (by omega) hc]
              dsimp only
              have hl : (leWords d).length = d.length / 2 := leWords_length d.length d (Nat.le_refl _)
              have hpos : 0 < (leWords d).length := by omega
              rw [if_neg (by omega)]
              have hlast : (leWords d)[(leWords d).length - 1]? = (leWords d).getLast? := by
                rw [List.getLast?_eq_getElem?]
              have hi : (leWords d).length - 1 < (leWords d).length := by omega
              rw [List.getElem?_eq_getElem hi]
              dsimp only
              have := dispLoop_eq (stripLastNul (leWords d)) (stripLastNul (leWords d)) [] 0 [] (by simp) (by simp)
              simp only [List.length_nil, List.drop_nil, List.nil_append] at this
              have hs : (if (leWords d)[(leWords d).length - 1] = 0 then (leWords d).take ((leWords d).length - 1) else leWords d)
                  = stripLastNul (leWords d) := by
                unfold stripLastNul
                rw [← hlast, List.getElem?_eq_getElem hi, List.dropLast_eq_take]
                simp
              rw [hs, this, if_neg (by omega)]
              have := segs_map_decode (stripLastNul (leWords d))
              unfold segs at this
              unfold segs
              rw [this]
          · split
            · -- SZ / EXPAND_SZ
              split
              · rfl
              · rw [regViewN_half, regView_eq d (by omega) hc]
                exact utf16Decode_eq _
            · rfl

/-- No run of `Entry.String` reads outside the value, whatever the type code, name and bytes. -/
theorem entryString_no_oob (ty nameLen : Nat) (d : Bytes) :
    entryString ty nameLen d ≠ .panic "read-oob" := by
  by_cases hc : d.length / 2 ≤ Facts.regArrayCap
  · rw [entryString_eq ty nameLen d hc]; simp
  · have hv : regViewN d (d.length / 2) = .panic "slice-bounds" := by
      unfold regViewN
      split
      · rename_i h; rw [List.getElem?_eq_none_iff] at h
        have : Facts.regArrayCap = 536870912 := by decide
        omega
      · rw [if_pos (by omega)]
    have hlen : ¬ d.length = 4 ∧ ¬ d.length = 8 := by
      have : Facts.regArrayCap = 536870912 := by decide
      omega
    unfold entryString entryStringV
    split
    · split <;> simp
    · split
      · rw [if_pos (by omega)]; simp
      · split
        · rw [if_pos (by omega)]; simp
        · split
          · simp
          · split
            · split
              · simp
              · rw [hv]; simp
            · split
              · split
                · simp
                · rw [hv]; simp
              · simp

/-- Guard needed: with a view of `(len+1)/2` words (rounding up instead of down) `Entry.String` of a
    string value of odd length ≥ 3 reads the byte after the value. -/
theorem entryStringV_roundUp_oob (ty nameLen : Nat) (d : Bytes)
    (hty : ty = Facts.regTypeString ∨ ty = Facts.regTypeExpandString ∨ ty = Facts.regTypeStringList)
    (h3 : 3 ≤ d.length) (hodd : d.length % 2 = 1) (hc : (d.length + 1) / 2 ≤ Facts.regArrayCap) :
    entryStringV (fun l => (l + 1) / 2) ty nameLen d = .panic "read-oob" := by
  have hv : regViewN d ((d.length + 1) / 2) = .panic "read-oob" := by
    unfold regViewN
    have h0 : 0 < d.length := by omega
    rw [List.getElem?_eq_getElem h0]
    dsimp only
    rw [if_neg (by omega), viewU16_roundUp_oob d hodd]
  have e1 : Facts.regTypeString = 1 := by decide
  have e2 : Facts.regTypeExpandString = 2 := by decide
  have e7 : Facts.regTypeStringList = 7 := by decide
  have e4 : Facts.regTypeDword = 4 := by decide
  have e11 : Facts.regTypeQword = 11 := by decide
  have e3 : Facts.regTypeBinary = 3 := by decide
  unfold entryStringV
  rw [e1, e2, e7] at hty
  rw [e1, e2, e7, e4, e11, e3]
  rcases hty with h | h | h <;> subst h <;> simp [hv] <;> omega

/-! ### what `decRef` is -/

/-- The number a string of ASCII digits denotes. -/
def decValue (s : Bytes) : Nat := s.foldl (fun a b => 10 * a + (b.toNat - 0x30)) 0

theorem decRef_spec : ∀ (n v : Nat), v ≤ n →
    decValue (decRef v) = v ∧ (∀ b ∈ decRef v, 0x30 ≤ b.toNat ∧ b.toNat ≤ 0x39) ∧
    (v ≠ 0 → (decRef v).head? ≠ some 0x30) ∧ decRef v ≠ [] := by
  intro n
  induction n with
  | zero =>
    intro v hv
    have : v = 0 := by omega
    subst this
    rw [decRef_zero]
    refine ⟨by decide, by decide, by simp, by simp⟩
  | succ n ih =>
    intro v hv
    by_cases h10 : v < 10
    · have e : decRef v = [UInt8.ofNat (0x30 + v)] := by
        unfold decRef; rw [if_pos h10]
      have ht : (UInt8.ofNat (0x30 + v)).toNat = 0x30 + v := by
        rw [UInt8.toNat_ofNat']; omega
      generalize UInt8.ofNat (0x30 + v) = x at e ht
      rw [e]
      refine ⟨?_, ?_, ?_, by simp⟩
      · simp [decValue, ht]
      · intro b hb
        simp at hb
        subst hb
        rw [ht]; omega
      · intro h0 hh
        simp at hh
        have := congrArg UInt8.toNat hh
        rw [ht] at this
        simp at this
        omega
    · have e : decRef v = decRef (v / 10) ++ [UInt8.ofNat (0x30 + v % 10)] := by
        conv => lhs; unfold decRef
        rw [if_neg h10]
      have ht : (UInt8.ofNat (0x30 + v % 10)).toNat = 0x30 + v % 10 := by
        rw [UInt8.toNat_ofNat']; omega
      obtain ⟨hval, hdig, hlead, hne⟩ := ih (v / 10) (by omega)
      generalize UInt8.ofNat (0x30 + v % 10) = x at e ht
      rw [e]
      refine ⟨?_, ?_, ?_, by simp⟩
      · unfold decValue at hval ⊢
        rw [List.foldl_append, hval]
        simp [ht]
        omega
      · intro b hb
        rcases List.mem_append.mp hb with h | h
        · exact hdig b h
        · simp at h; subst h; rw [ht]; omega
      · intro _
        have hq : v / 10 ≠ 0 := by omega
        have := hlead hq
        cases hd : decRef (v / 10) with
        | nil => exact absurd hd hne
        | cons a t => rw [hd] at this; simpa using this


end XMT.Utf16
