/-
  XMT.RegKeyLemmas — lemmas about the model of the Windows-only `Key.String` / `Key.Strings`
  (XMT/RegKey.lean).
-/
import XMT.Utf16Reg
import XMT.RegKey
namespace XMT.Utf16
open XMT

theorem listOfView_eq (v : U16s) :
    listOfView v = .ok ((segs (stripLastNul v)).map (fun s => refDecode (untilNul s))) := by
  unfold listOfView
  by_cases h0 : v.length = 0
  · rw [if_pos h0]
    have : v = [] := List.eq_nil_of_length_eq_zero h0
    subst this
    simp [stripLastNul, segs, segsAux]
  · rw [if_neg h0]
    have hlast : v[v.length - 1]? = v.getLast? := by
      rw [List.getLast?_eq_getElem?]
    have hi : v.length - 1 < v.length := by omega
    rw [List.getElem?_eq_getElem hi]
    dsimp only
    have := slLoop_eq (stripLastNul v) (stripLastNul v) [] 0 [] (by simp) (by simp)
    simp only [List.length_nil, List.drop_nil, List.nil_append] at this
    have hs : (if v[v.length - 1] = 0 then v.take (v.length - 1) else v) = stripLastNul v := by
      unfold stripLastNul
      rw [← hlast, List.getElem?_eq_getElem hi, List.dropLast_eq_take]
      simp
    rw [hs, this]
    rfl

theorem regView_big (d : Bytes) (h1 : 1 ≤ d.length) (hc : ¬ d.length / 2 ≤ Facts.regArrayCap) :
    regView d = .panic "slice-bounds" := by
  unfold regView
  have h0 : 0 < d.length := by omega
  rw [List.getElem?_eq_getElem h0]
  dsimp only
  rw [if_pos (by omega)]

theorem keyString_eq (ty : Nat) (d : Bytes) (hc : d.length / 2 ≤ Facts.regArrayCap) :
    keyString ty d =
      if ty = Facts.regTypeString ∨ ty = Facts.regTypeExpandString
      then .ok (refDecode (untilNul (leWords d))) else .err .unexpectedType := by
  unfold keyString
  split
  · split
    · rename_i h0
      have : d = [] := List.eq_nil_of_length_eq_zero h0
      subst this
      rfl
    · rw [regView_eq d (by omega) hc]
      exact utf16Decode_eq _
  · rfl

theorem keyStrings_eq (ty : Nat) (d : Bytes) (hc : d.length / 2 ≤ Facts.regArrayCap) :
    keyStrings ty d =
      if ty ≠ Facts.regTypeStringList then .err .unexpectedType
      else .ok ((segs (stripLastNul (leWords d))).map refDecode) := by
  unfold keyStrings
  split
  · rfl
  · split
    · rename_i h0
      have : d = [] := List.eq_nil_of_length_eq_zero h0
      subst this
      rfl
    · rw [regView_eq d (by omega) hc]
      dsimp only
      rw [listOfView_eq, segs_map_decode]

theorem keyString_no_oob (ty : Nat) (d : Bytes) : keyString ty d ≠ .panic "read-oob" := by
  by_cases hc : d.length / 2 ≤ Facts.regArrayCap
  · rw [keyString_eq ty d hc]; split <;> simp
  · unfold keyString
    split
    · split
      · simp
      · rw [regView_big d (by omega) hc]; simp
    · simp

theorem keyStrings_no_oob (ty : Nat) (d : Bytes) : keyStrings ty d ≠ .panic "read-oob" := by
  by_cases hc : d.length / 2 ≤ Facts.regArrayCap
  · rw [keyStrings_eq ty d hc]; split <;> simp
  · unfold keyStrings
    split
    · simp
    · split
      · simp
      · rw [regView_big d (by omega) hc]; simp

end XMT.Utf16
