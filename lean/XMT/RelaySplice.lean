/-
  XMT.RelaySplice — a tagged device's batch is encrypted and then SPLICED into the reply.

  Go (c2/listener.go, c2/vars.go):
    conn.resolve   n := v.next(true); n.KeyCrypt(v.keyValue()); c.add = append(c.add, n)
    conn.process   c.next = &Packet{Flags: Multi|MultiDevice, Device: A}; writeUnpack(c.next, c.add[i])
    writeUnpack    src is Multi → dst.payload ++= src.payload; Len += src.Len        (SPLICE)
                   otherwise   → dst.payload ++= MarshalStream(src); Len += 1        (NEST)
  `next` returns ONE packet, or — with two or more queued — a Multi container whose payload is the
  nested stream form of the packets.  `KeyCrypt` XORs the container's PAYLOAD with the device key,
  so what the splice arm copies is ciphertext, not `Len` well-formed elements.

  This file: the two arms, the receiver's unpack loop, B's decrypt-and-unpack, and
    * `nest_delivers`        nesting the encrypted container as one element delivers exactly the
                             queued packets, for all inputs (the repair shape);
    * `single_delivers`      the one-packet case of the current code (which nests) is correct;
    * `splice_loses_witness` the current code on two packets: the reply does not parse (EOF);
    * `splice_is_ciphertext` what the splice arm copies is `xorOp elements key`; it parses when the
                             key leaves the elements unchanged (e.g. an all-zero key).
-/
import XMT.BatchLemmas
import XMT.KeysXor
import XMT.Props.C01

namespace XMT.RelaySplice
open XMT XMT.Packet XMT.Codec XMT.Batch
open XMT.Keys (xorOp xorBytes xorLoop)

abbrev Pkt := Packet.Packet

/-! ### definitions -/

/-- the nested stream form of a list of packets, concatenated (`MarshalStream` each) -/
def elems (ps : List Pkt) : Bytes := (ps.map marshalStream).flatten

/-- B's transmission when `ps` (two or more) are queued: what `nextPacket` builds from
`&Packet{Flags: Multi, Device: B}` by `writeUnpack` of each plain packet: it `Carries` `ps` in the
sense of the batching model (`container_carries`) and is what the model of `(*Session).next`
returns on the witness (`witness_next_two`). -/
def container (dev : Bytes) (ps : List Pkt) : Pkt :=
  { id := 0, job := 0, flags := Flag.setLen Facts.flagMulti (ps.length % 2^16), tags := [],
    dev := dev, payload := elems ps }

/-- `n.KeyCrypt(key)`: XOR of the payload bytes with the shared secret -/
def encryptFor (key : Bytes) (n : Pkt) : Pkt := { n with payload := xorOp n.payload key }

/-- the SPLICE arm of `writeUnpack(dst, src)` (taken when `src` is Multi / MultiDevice) -/
def spliceInto (dst src : Pkt) : Pkt :=
  { dst with payload := dst.payload ++ src.payload,
             flags := Flag.setLen dst.flags ((Flag.len dst.flags + Flag.len src.flags) % 2^16) }

/-- the NEST arm of `writeUnpack(dst, src, true, true)`: `src` becomes one element -/
def nestInto (dst src : Pkt) : Pkt :=
  { dst with payload := dst.payload ++ marshalStream src,
             flags := packedFlags dst.flags src.flags,
             tags := dst.tags ++ src.tags }

/-- `c.next = &Packet{Flags: Multi|MultiDevice, Device: A}` -/
def emptyReply (devA : Bytes) : Pkt := emptyBatch devA (Facts.flagMulti ||| Facts.flagMultiDevice)

/-- the receiver's loop `for x := Len; x > 0; x-- { v.UnmarshalStream(payload) }`: the elements and
the bytes left over -/
def unpackRest : Nat → Bytes → Except PErr (List Pkt × Bytes)
  | 0, bs => .ok ([], bs)
  | k + 1, bs =>
    match unmarshalStream chunkPrim devReadChunk bs with
    | .error e => .error e
    | .ok (v, rest) =>
      match unpackRest k rest with
      | .error e => .error e
      | .ok (vs, rest) => .ok (v :: vs, rest)

/-- the elements only -/
def unpack (count : Nat) (payload : Bytes) : Except PErr (List Pkt) :=
  match unpackRest count payload with
  | .error e => .error e
  | .ok (vs, _) => .ok vs

/-- the proxy forwards the elements that name `dev` -/
def routeTo (dev : Bytes) (es : List Pkt) : List Pkt := es.filter (fun e => e.dev = dev)

/-- B on one forwarded element: `KeyCrypt` (decrypt), then the Multi arm of `receive` -/
def openElem (key : Bytes) (e : Pkt) : Except PErr (List Pkt) :=
  if hasFlag e.flags Facts.flagMulti then
    if Flag.len e.flags = 0 then .error .invalidType     -- ErrInvalidPacketCount
    else unpack (Flag.len e.flags) (xorOp e.payload key)
  else .ok [{ e with payload := xorOp e.payload key }]

/-- B on all forwarded elements: the leaves, in order -/
def deliverToB (key : Bytes) : List Pkt → Except PErr (List Pkt)
  | [] => .ok []
  | e :: es =>
    match openElem key e with
    | .error x => .error x
    | .ok vs =>
      match deliverToB key es with
      | .error x => .error x
      | .ok ws => .ok (vs ++ ws)

/-! ### witness data -/

def devA : Bytes := List.replicate 32 0xA1
def devB : Bytes := List.replicate 32 0xB2
def key65 : Bytes := (List.range 65).map (fun i => UInt8.ofNat (i + 1))
def p1 : Pkt := { id := 0x20, job := 1, flags := 0, tags := [], dev := devB, payload := [0x11] }
def p2 : Pkt := { id := 0x21, job := 2, flags := 0, tags := [], dev := devB, payload := [0x22, 0x33] }

def splicedReply : Pkt := spliceInto (emptyReply devA) (encryptFor key65 (container devB [p1, p2]))
def nestedReply : Pkt := nestInto (emptyReply devA) (encryptFor key65 (container devB [p1, p2]))


/-! ### links to the existing batch model (XMT/Batch.lean) -/

/-- the receiver's loop is the flat instance of `Batch.unpackLevel` -/
theorem unpack_eq_unpackLevel (k : Nat) (bs : Bytes) :
    unpack k bs = unpackLevel (fun v => .ok [v]) k bs := by
  induction k generalizing bs with
  | zero => rfl
  | succ k ih =>
    have ih' := fun bs => ih bs
    unfold unpack at ih' ⊢
    unfold unpackRest unpackLevel
    cases h : unmarshalStream chunkPrim devReadChunk bs with
    | error e => rfl
    | ok r =>
      obtain ⟨v, rest⟩ := r
      simp only
      rw [← ih' rest]
      cases unpackRest k rest with
      | error e => rfl
      | ok q => rfl

theorem container_flags (dev : Bytes) (ps : List Pkt) (hl : ps.length ≤ Facts.fragMax) :
    Flag.len (container dev ps).flags = ps.length ∧
    hasFlag (container dev ps).flags Facts.flagMulti = true ∧
    hasFlag (container dev ps).flags Facts.flagMultiDevice = false ∧
    (container dev ps).flags < 2^64 := by
  have K := flagsOK
  have hn : ps.length < 2^16 := by have := K.fragMax; omega
  have hm : ps.length % 2^16 = ps.length := Nat.mod_eq_of_lt hn
  obtain ⟨t1, _, t7⟩ := testBit_setLen Facts.flagMulti ps.length hn
  unfold container
  simp only [hm]
  refine ⟨len_setLen' _ _ hn, ?_, ?_, ?_⟩
  · exact (hasFlag_pow _ 1).trans (t1.trans (by decide))
  · exact (hasFlag_pow _ 7).trans (t7.trans (by decide))
  · exact Nat.mod_lt _ (by decide)

/-- `container dev ps` is a batch that carries exactly `ps` in the sense of the batching model -/
theorem container_carries (dev : Bytes) (ps : List Pkt) (hl : ps.length ≤ Facts.fragMax) :
    Carries (container dev ps) ps :=
  ⟨rfl, (container_flags dev ps hl).1, fun _ => (container_flags dev ps hl).2.1⟩

/-- on a container `writeUnpack` takes the SPLICE arm -/
theorem writeUnpack_splice (dst src : Pkt)
    (hm : hasFlag src.flags Facts.flagMulti = true ∨ hasFlag src.flags Facts.flagMultiDevice = true)
    (h0 : Flag.len src.flags ≠ 0) (hfit : Flag.len src.flags + Flag.len dst.flags ≤ Facts.fragMax) :
    writeUnpack dst src = .ok (spliceInto dst src) := by
  unfold writeUnpack
  rw [if_pos (by rcases hm with h | h <;> simp [h])]
  simp only
  rw [if_neg h0, if_neg (by omega)]
  rfl

/-- on a plain packet `writeUnpack` takes the NEST arm -/
theorem writeUnpack_nest (dst src : Pkt) (hp : Plain src)
    (hl : Flag.len dst.flags + 1 ≤ Facts.fragMax) :
    writeUnpack dst src = .ok (nestInto dst src) :=
  writeUnpack_plain dst src hp hl

/-! ### the receiver reads back what was nested -/

theorem elems_append (a b : List Pkt) : elems (a ++ b) = elems a ++ elems b := by
  simp [elems]

theorem elems_singleton (n : Pkt) : elems [n] = marshalStream n := by
  simp [elems]

/-- `count` well-formed elements followed by anything: the loop yields the elements and leaves the
rest untouched -/
theorem unpackRest_elems (ps : List Pkt) (hps : ∀ p ∈ ps, WF p) (rest : Bytes) :
    unpackRest ps.length (elems ps ++ rest) = .ok (ps, rest) := by
  induction ps with
  | nil => rfl
  | cons a ps ih =>
    simp only [elems, List.map_cons, List.flatten_cons, List.append_assoc, List.length_cons]
    unfold unpackRest
    rw [Props.C01.stream_roundtrip_chunk a (hps a List.mem_cons_self)]
    simp only
    have := ih (fun x hx => hps x (List.mem_cons_of_mem _ hx))
    unfold elems at this
    rw [this]

theorem unpack_elems (ps : List Pkt) (hps : ∀ p ∈ ps, WF p) :
    unpackRest ps.length (elems ps) = .ok (ps, []) ∧ unpack ps.length (elems ps) = .ok ps := by
  have h := unpackRest_elems ps hps []
  rw [List.append_nil] at h
  exact ⟨h, by unfold unpack; rw [h]⟩

/-- a reply that carries the well-formed elements `prev` -/
structure Holds (dst : Pkt) (prev : List Pkt) : Prop where
  wf : ∀ a ∈ prev, WF a
  pay : dst.payload = elems prev
  len : Flag.len dst.flags = prev.length

theorem emptyReply_holds (devA : Bytes) : Holds (emptyReply devA) [] :=
  ⟨by simp, rfl, by show Flag.len (Facts.flagMulti ||| Facts.flagMultiDevice) = 0; decide⟩

/-- nesting ANY well-formed packet `n` (a container or not, encrypted or not) adds exactly one
element, and the receiver's loop reads all elements back, consuming the payload exactly -/
theorem nest_unpack (dst : Pkt) (prev : List Pkt) (hd : Holds dst prev) (n : Pkt) (hn : WF n)
    (hfit : prev.length + 1 ≤ Facts.fragMax) :
    Flag.len (nestInto dst n).flags = prev.length + 1 ∧
    unpackRest (Flag.len (nestInto dst n).flags) (nestInto dst n).payload = .ok (prev ++ [n], []) ∧
    Holds (nestInto dst n) (prev ++ [n]) := by
  have hl' : Flag.len dst.flags + 1 ≤ Facts.fragMax := by rw [hd.len]; exact hfit
  obtain ⟨f1, _, _⟩ := packedFlags_fields dst.flags n.flags hl'
  have hw : ∀ a ∈ prev ++ [n], WF a := by
    intro a ha
    rcases List.mem_append.mp ha with h | h
    · exact hd.wf a h
    · rw [List.mem_singleton.mp h]; exact hn
  have hlen : Flag.len (nestInto dst n).flags = prev.length + 1 := by
    show Flag.len (packedFlags dst.flags n.flags) = _
    rw [f1, hd.len]
  have hpay : (nestInto dst n).payload = elems (prev ++ [n]) := by
    show dst.payload ++ marshalStream n = _
    rw [hd.pay, elems_append, elems_singleton]
  refine ⟨hlen, ?_, ⟨hw, hpay, by rw [hlen]; simp⟩⟩
  rw [hlen, hpay]
  have := (unpack_elems (prev ++ [n]) hw).1
  simpa using this

/-! ### encryption keeps well-formedness; B undoes it -/

theorem encryptFor_wf (key : Bytes) (n : Pkt) (hn : WF n) : WF (encryptFor key n) := by
  obtain ⟨h1, h2, h3, h4, h5, h6, h7⟩ := hn
  exact ⟨h1, h2, h3, h4, h5, h6, by
    show (xorOp n.payload key).length ≤ _
    rw [Keys.xorOp_length]; exact h7⟩

theorem container_wf (dev : Bytes) (ps : List Pkt) (hl : ps.length ≤ Facts.fragMax)
    (hd : dev.length = Facts.idSize) (hz : dev.head? ≠ some 0)
    (hpay : (elems ps).length ≤ Facts.maxSlice) : WF (container dev ps) :=
  ⟨by show (0 : Nat) < 2^16; decide, (container_flags dev ps hl).2.2.2, Nat.zero_le _,
   by simp [container], hd, hz, hpay⟩

/-- B opens an encrypted batch that carries `ps`: exactly `ps`, in order -/
theorem openElem_batch (key : Bytes) (n : Pkt) (ps : List Pkt) (hc : Carries n ps) (hne : ps ≠ [])
    (hps : ∀ p ∈ ps, WF p) : openElem key (encryptFor key n) = .ok ps := by
  unfold openElem
  have hm : hasFlag (encryptFor key n).flags Facts.flagMulti = true := hc.multi hne
  have hl : Flag.len (encryptFor key n).flags = ps.length := hc.len
  rw [hm, hl]
  simp only [if_true]
  rw [if_neg (by intro h; exact hne (List.length_eq_zero_iff.mp h))]
  show unpack ps.length (xorOp (xorOp n.payload key) key) = _
  rw [Keys.xorOp_involutive, hc.pay]
  exact (unpack_elems ps hps).2

/-- B opens an encrypted plain packet: that packet -/
theorem openElem_plain (key : Bytes) (p : Pkt) (hp : hasFlag p.flags Facts.flagMulti = false) :
    openElem key (encryptFor key p) = .ok [p] := by
  unfold openElem
  have hm : hasFlag (encryptFor key p).flags Facts.flagMulti = false := hp
  rw [hm]
  simp only [Bool.false_eq_true, if_false]
  show Except.ok [{ encryptFor key p with payload := xorOp (xorOp p.payload key) key }] = _
  rw [Keys.xorOp_involutive]
  rfl

theorem deliverToB_one (key : Bytes) (e : Pkt) (vs : List Pkt) (h : openElem key e = .ok vs) :
    deliverToB key [e] = .ok vs := by
  simp [deliverToB, h]

/-! ### the relay, end to end -/

/-- server packs B's encrypted transmission `n` into the reply for A with `arm`; A unpacks the reply
and forwards the elements naming B; B decrypts and unpacks them -/
def relay (arm : Pkt → Pkt → Pkt) (key devA devB : Bytes) (n : Pkt) : Except PErr (List Pkt) :=
  match unpack (Flag.len (arm (emptyReply devA) (encryptFor key n)).flags)
      (arm (emptyReply devA) (encryptFor key n)).payload with
  | .error e => .error e
  | .ok es => deliverToB key (routeTo devB es)

/-- what `writeUnpack` does (its error is ignored by the callers) -/
def currentArm (dst src : Pkt) : Pkt :=
  match writeUnpack dst src with
  | .ok o => o
  | .error _ => dst

/-- **The repair shape delivers.**  For EVERY key, every device ID of B, every non-empty list `ps`
of well-formed packets whose batch is a well-formed packet (at most `fragMax` packets, nested
encodings within `maxSlice` in total), and every reply `dst` that already holds well-formed elements
`prev` with room for one more: if the encrypted batch is NESTED as one element,
  * the receiver's unpack loop succeeds, consumes the payload exactly and yields the elements
    `prev` followed by that one element,
  * the element names B, and
  * B's decryption and unpack of it yield exactly `ps`, in order. -/
theorem nest_delivers (key devB : Bytes) (ps : List Pkt) (hps : ∀ p ∈ ps, WF p) (hne : ps ≠ [])
    (hl : ps.length ≤ Facts.fragMax) (hd : devB.length = Facts.idSize) (hz : devB.head? ≠ some 0)
    (hpay : (elems ps).length ≤ Facts.maxSlice)
    (dst : Pkt) (prev : List Pkt) (hdst : Holds dst prev) (hfit : prev.length + 1 ≤ Facts.fragMax) :
    unpackRest (Flag.len (nestInto dst (encryptFor key (container devB ps))).flags)
        (nestInto dst (encryptFor key (container devB ps))).payload
      = .ok (prev ++ [encryptFor key (container devB ps)], []) ∧
    (encryptFor key (container devB ps)).dev = devB ∧
    openElem key (encryptFor key (container devB ps)) = .ok ps ∧
    deliverToB key [encryptFor key (container devB ps)] = .ok ps := by
  have hw := encryptFor_wf key _ (container_wf devB ps hl hd hz hpay)
  have ho := openElem_batch key _ ps (container_carries devB ps hl) hne hps
  exact ⟨(nest_unpack dst prev hdst _ hw hfit).2.1, rfl, ho, deliverToB_one key _ _ ho⟩

/-- the same, end to end on an empty reply: B receives exactly `ps` -/
theorem nest_relay (key devA devB : Bytes) (ps : List Pkt) (hps : ∀ p ∈ ps, WF p) (hne : ps ≠ [])
    (hl : ps.length ≤ Facts.fragMax) (hd : devB.length = Facts.idSize) (hz : devB.head? ≠ some 0)
    (hpay : (elems ps).length ≤ Facts.maxSlice) :
    relay nestInto key devA devB (container devB ps) = .ok ps := by
  obtain ⟨h1, _, _, h4⟩ := nest_delivers key devB ps hps hne hl hd hz hpay (emptyReply devA) []
    (emptyReply_holds devA) (by decide)
  unfold relay unpack
  rw [h1]
  simp only [List.nil_append]
  have : routeTo devB [encryptFor key (container devB ps)] = [encryptFor key (container devB ps)] := by
    unfold routeTo
    rw [List.filter_cons_of_pos (by show decide (devB = devB) = true; simp)]
    rfl
  rw [this, h4]

/-- the same for ANY well-formed batch `n` that carries `ps` (e.g. what `nextPacket` builds, with a
Channel bit or merged tags) -/
theorem nest_delivers_carries (key : Bytes) (n : Pkt) (ps : List Pkt) (hn : WF n) (hc : Carries n ps)
    (hps : ∀ p ∈ ps, WF p) (hne : ps ≠ [])
    (dst : Pkt) (prev : List Pkt) (hdst : Holds dst prev) (hfit : prev.length + 1 ≤ Facts.fragMax) :
    unpackRest (Flag.len (nestInto dst (encryptFor key n)).flags) (nestInto dst (encryptFor key n)).payload
      = .ok (prev ++ [encryptFor key n], []) ∧
    deliverToB key [encryptFor key n] = .ok ps :=
  ⟨(nest_unpack dst prev hdst _ (encryptFor_wf key n hn) hfit).2.1,
   deliverToB_one key _ _ (openElem_batch key n ps hc hne hps)⟩

/-- **One queued packet, current code.**  `next` returns the packet `p` itself; it is plain, so
`writeUnpack` takes the NEST arm: the reply parses and B gets exactly `p`. -/
theorem single_delivers (key : Bytes) (p : Pkt) (hp : WF p) (hpl : Plain p)
    (dst : Pkt) (prev : List Pkt) (hdst : Holds dst prev) (hfit : prev.length + 1 ≤ Facts.fragMax) :
    writeUnpack dst (encryptFor key p) = .ok (nestInto dst (encryptFor key p)) ∧
    unpackRest (Flag.len (nestInto dst (encryptFor key p)).flags) (nestInto dst (encryptFor key p)).payload
      = .ok (prev ++ [encryptFor key p], []) ∧
    deliverToB key [encryptFor key p] = .ok [p] :=
  ⟨writeUnpack_nest dst _ hpl (by rw [hdst.len]; exact hfit),
   (nest_unpack dst prev hdst _ (encryptFor_wf key p hp) hfit).2.1,
   deliverToB_one key _ _ (openElem_plain key p hpl.1)⟩

/-- end to end with the current code: one queued packet arrives -/
theorem single_relay (key devA : Bytes) (p : Pkt) (hp : WF p) (hpl : Plain p) :
    relay currentArm key devA p.dev p = .ok [p] := by
  obtain ⟨h1, h2, h3⟩ := single_delivers key p hp hpl (emptyReply devA) [] (emptyReply_holds devA)
    (by decide)
  unfold relay currentArm
  rw [h1]
  simp only
  unfold unpack
  rw [h2]
  simp only [List.nil_append]
  have : routeTo p.dev [encryptFor key p] = [encryptFor key p] := by
    unfold routeTo
    rw [List.filter_cons_of_pos (by show decide (p.dev = p.dev) = true; simp)]
    rfl
  rw [this, h3]

/-! ### the defect: the SPLICE arm copies ciphertext -/

theorem splice_len (dst : Pkt) (prev : List Pkt) (hd : Holds dst prev) (src : Pkt) (m : Nat)
    (hs : Flag.len src.flags = m) (hfit : prev.length + m ≤ Facts.fragMax) :
    Flag.len (spliceInto dst src).flags = prev.length + m := by
  have K := flagsOK
  have hn : prev.length + m < 2^16 := by have := K.fragMax; omega
  show Flag.len (Flag.setLen dst.flags ((Flag.len dst.flags + Flag.len src.flags) % 2^16)) = _
  rw [hd.len, hs, Nat.mod_eq_of_lt hn]
  exact len_setLen' _ _ hn

/-- **What the current code puts into the reply** for a batch of `ps`: the announced count grows by
`ps.length`, the payload grows by the ENCRYPTED element bytes `xorOp (elems ps) key`. -/
theorem splice_is_ciphertext (key devB : Bytes) (ps : List Pkt) (hl : ps.length ≤ Facts.fragMax)
    (hne : ps ≠ []) (dst : Pkt) (prev : List Pkt) (hd : Holds dst prev)
    (hfit : prev.length + ps.length ≤ Facts.fragMax) :
    writeUnpack dst (encryptFor key (container devB ps))
      = .ok (spliceInto dst (encryptFor key (container devB ps))) ∧
    Flag.len (spliceInto dst (encryptFor key (container devB ps))).flags = prev.length + ps.length ∧
    (spliceInto dst (encryptFor key (container devB ps))).payload
      = elems prev ++ xorOp (elems ps) key := by
  obtain ⟨c1, c2, _, _⟩ := container_flags devB ps hl
  have hlen : Flag.len (encryptFor key (container devB ps)).flags = ps.length := c1
  have c2' : hasFlag (encryptFor key (container devB ps)).flags Facts.flagMulti = true := c2
  refine ⟨?_, splice_len dst prev hd _ _ hlen hfit, ?_⟩
  · apply writeUnpack_splice dst _ (Or.inl c2')
    · rw [hlen]; intro h; exact hne (List.length_eq_zero_iff.mp h)
    · rw [hlen, hd.len]; omega
  · show dst.payload ++ xorOp (elems ps) key = _
    rw [hd.pay]

/-- the spliced reply parses as `ps` whenever the cipher happens to leave the element bytes
unchanged … -/
theorem splice_parses_of_fixed (key devB : Bytes) (ps : List Pkt) (hps : ∀ p ∈ ps, WF p)
    (hl : ps.length ≤ Facts.fragMax) (hne : ps ≠ [])
    (hfix : xorOp (elems ps) key = elems ps)
    (dst : Pkt) (prev : List Pkt) (hd : Holds dst prev)
    (hfit : prev.length + ps.length ≤ Facts.fragMax) :
    unpackRest (Flag.len (spliceInto dst (encryptFor key (container devB ps))).flags)
        (spliceInto dst (encryptFor key (container devB ps))).payload = .ok (prev ++ ps, []) := by
  obtain ⟨_, h2, h3⟩ := splice_is_ciphertext key devB ps hl hne dst prev hd hfit
  rw [h2, h3, hfix, ← elems_append, ← List.length_append]
  refine (unpack_elems (prev ++ ps) ?_).1
  intro a ha
  rcases List.mem_append.mp ha with h | h
  · exact hd.wf a h
  · exact hps a h

theorem xorBytes_zero (key v : Bytes) (hk : ∀ k ∈ key, k = 0) :
    xorBytes key v = v.take key.length := by
  induction key generalizing v with
  | nil => simp [xorBytes]
  | cons k ks ih =>
    cases v with
    | nil => simp [xorBytes]
    | cons x xs =>
      have hk0 : k = 0 := hk k List.mem_cons_self
      have := ih xs (fun a ha => hk a (List.mem_cons_of_mem _ ha))
      unfold xorBytes at this ⊢
      simp only [List.zipWith_cons_cons, List.length_cons, List.take_succ_cons, this, hk0,
        UInt8.zero_xor]

theorem xorLoop_zero (key : Bytes) (hk : ∀ k ∈ key, k = 0) :
    ∀ (fuel : Nat) (v : Bytes), xorLoop key fuel v = v
  | 0, v => rfl
  | fuel + 1, v => by
    unfold xorLoop
    split
    · rfl
    · simp only
      rw [xorLoop_zero key hk fuel, xorBytes_zero key v hk, List.length_take]
      by_cases h : key.length ≤ v.length
      · rw [Nat.min_eq_left h]; exact List.take_append_drop _ _
      · rw [Nat.min_eq_right (by omega), List.take_of_length_le (by omega), List.drop_length]; simp

/-- an all-zero (or empty) key is the identity cipher -/
theorem xorOp_zero_key (v key : Bytes) (hk : ∀ k ∈ key, k = 0) : xorOp v key = v := by
  unfold xorOp
  split
  · rfl
  · split
    · rename_i h
      rw [xorBytes_zero key v hk, List.take_of_length_le (by omega)]
    · exact xorLoop_zero key hk _ _

theorem deliverToB_zero_key (key : Bytes) (hk : ∀ k ∈ key, k = 0) (ps : List Pkt)
    (hpl : ∀ p ∈ ps, hasFlag p.flags Facts.flagMulti = false) : deliverToB key ps = .ok ps := by
  induction ps with
  | nil => rfl
  | cons p ps ih =>
    have h1 : openElem key p = .ok [p] := by
      unfold openElem
      rw [hpl p List.mem_cons_self, xorOp_zero_key _ _ hk]
      rfl
    unfold deliverToB
    rw [h1, ih (fun x hx => hpl x (List.mem_cons_of_mem _ hx))]
    rfl

/-- … e.g. under an all-zero key, the only reason the splice arm can work: then the reply parses as
`prev ++ ps` and B (for whom decryption is the identity too) gets `ps`. -/
theorem splice_zero_key (key devB : Bytes) (hk : ∀ k ∈ key, k = 0) (ps : List Pkt)
    (hps : ∀ p ∈ ps, WF p) (hpl : ∀ p ∈ ps, hasFlag p.flags Facts.flagMulti = false)
    (hl : ps.length ≤ Facts.fragMax) (hne : ps ≠ [])
    (dst : Pkt) (prev : List Pkt) (hd : Holds dst prev)
    (hfit : prev.length + ps.length ≤ Facts.fragMax) :
    unpackRest (Flag.len (spliceInto dst (encryptFor key (container devB ps))).flags)
        (spliceInto dst (encryptFor key (container devB ps))).payload = .ok (prev ++ ps, []) ∧
    deliverToB key ps = .ok ps :=
  ⟨splice_parses_of_fixed key devB ps hps hl hne (xorOp_zero_key _ _ hk) dst prev hd hfit,
   deliverToB_zero_key key hk ps hpl⟩

/-! #### any key whose first byte is not zero: the spliced reply never yields the queued packets -/

theorem unmarshalStream_id (b : UInt8) (r : Bytes) (v : Pkt) (rest : Bytes)
    (h : unmarshalStream chunkPrim devReadChunk (b :: r) = .ok (v, rest)) : v.id = b := by
  unfold unmarshalStream at h
  simp only [chunkPrim] at h
  repeat' split at h
  all_goals (cases h <;> rfl)

theorem xorOp_head (a k : UInt8) (v ks : Bytes) :
    ∃ t, xorOp (a :: v) (k :: ks) = (k ^^^ a) :: t := by
  unfold xorOp
  rw [if_neg (by simp)]
  split
  · exact ⟨_, rfl⟩
  · simp only [List.length_cons, xorLoop]
    rw [if_neg (by omega)]
    exact ⟨_, rfl⟩

theorem xor_ne (k a : UInt8) (hk : k ≠ 0) : k ^^^ a ≠ a := by
  intro h
  apply hk
  have : (k ^^^ a) ^^^ a = a ^^^ a := by rw [h]
  rw [UInt8.xor_assoc, UInt8.xor_self, UInt8.xor_zero] at this
  exact this

/-- **The defect, for every key with a non-zero first byte** (a key is 65 bytes of an ECDH shared
secret): whatever the receiver's loop makes of the reply that the current code builds from a batch
`p :: tl` — if it parses at all — its first element carries the ID byte `key[0] ^ p.ID ≠ p.ID`; the
elements are never the queued packets. -/
theorem splice_never_delivers (k : UInt8) (ks : Bytes) (hk : k ≠ 0) (devA devB : Bytes) (p : Pkt)
    (tl : List Pkt) (hl : (p :: tl).length ≤ Facts.fragMax) (got : List Pkt) (rest : Bytes)
    (h : unpackRest
          (Flag.len (spliceInto (emptyReply devA) (encryptFor (k :: ks) (container devB (p :: tl)))).flags)
          (spliceInto (emptyReply devA) (encryptFor (k :: ks) (container devB (p :: tl)))).payload
        = .ok (got, rest)) :
    (∃ g gs, got = g :: gs ∧ g.id = k ^^^ p.id) ∧ got ≠ p :: tl := by
  obtain ⟨_, h2, h3⟩ := splice_is_ciphertext (k :: ks) devB (p :: tl) hl (by simp) (emptyReply devA) []
    (emptyReply_holds devA) (by simpa using hl)
  rw [h2, h3] at h
  have he : ∃ t, elems (p :: tl) = p.id :: t := ⟨_, by simp [elems, marshalStream]; rfl⟩
  obtain ⟨t, ht⟩ := he
  obtain ⟨c, hc⟩ := xorOp_head p.id k t ks
  rw [ht, hc] at h
  simp only [List.length_nil, List.length_cons, Nat.zero_add, elems, List.map_nil,
    List.flatten_nil, List.nil_append] at h
  unfold unpackRest at h
  have hfirst : ∃ g gs, got = g :: gs ∧ g.id = k ^^^ p.id := by
    split at h
    · cases h
    · rename_i v r hv
      split at h
      · cases h
      · rename_i vs r' _
        cases h
        exact ⟨v, vs, rfl, unmarshalStream_id _ _ _ _ hv⟩
  refine ⟨hfirst, ?_⟩
  obtain ⟨g, gs, rfl, hg⟩ := hfirst
  intro heq
  have : g.id = p.id := by rw [(List.cons.inj heq).1]
  rw [hg] at this
  exact xor_ne k p.id hk this

/-! ### the witness: two packets, key = bytes 1..65 -/

theorem p1_wf : WF p1 :=
  ⟨by decide, by decide, by decide, by simp [p1], by decide, by decide, by decide⟩
theorem p2_wf : WF p2 :=
  ⟨by decide, by decide, by decide, by simp [p2], by decide, by decide, by decide⟩
theorem p1_plain : Plain p1 := ⟨by decide, by decide⟩
theorem p2_plain : Plain p2 := ⟨by decide, by decide⟩
theorem key65_length : key65.length = 65 := by decide


/-- with the standard limits (`limits.Packets = 256`, `limits.Frag = 33554432`) the batching model's
`(*Session).next` returns exactly `container devB [p1, p2]` when both packets are queued … -/
theorem witness_next_two :
    (Batch.next 256 33554432 { q := [p1, p2], peek := none, last := 0 } devB).1
      = some (container devB [p1, p2]) := by rfl

/-- … and the packet itself when one is queued -/
theorem witness_next_one :
    (Batch.next 256 33554432 { q := [p1], peek := none, last := 0 } devB).1 = some p1 := by rfl

/-- `writeUnpack` splices the encrypted two-packet batch into the empty reply -/
theorem witness_built :
    writeUnpack (emptyReply devA) (encryptFor key65 (container devB [p1, p2])) = .ok splicedReply := by
  rfl

theorem witness_len : Flag.len splicedReply.flags = 2 := by decide

/-- the receiver's loop on the spliced reply: EOF -/
theorem witness_eof : unpackRest 2 splicedReply.payload = .error .eof := by rfl

/-- **The defect on the witness**: two well-formed plain packets queued for B, key = bytes 1..65.
The reply the current code builds announces 2 elements; the receiver's loop fails with EOF on the
first of them (the ciphertext announces 0x0405 tags); B receives nothing. The same two packets in the
repair shape arrive. -/
theorem splice_loses_witness :
    writeUnpack (emptyReply devA) (encryptFor key65 (container devB [p1, p2])) = .ok splicedReply ∧
    Flag.len splicedReply.flags = 2 ∧
    unpackRest 2 splicedReply.payload = .error .eof ∧
    unpack 2 splicedReply.payload = .error .eof ∧
    relay currentArm key65 devA devB (container devB [p1, p2]) = .error .eof ∧
    relay nestInto key65 devA devB (container devB [p1, p2]) = .ok [p1, p2] := by
  have h3 := witness_eof
  have h4 : unpack 2 splicedReply.payload = .error .eof := by unfold unpack; rw [h3]
  refine ⟨witness_built, witness_len, h3, h4, ?_, ?_⟩
  · unfold relay currentArm
    rw [witness_built]
    simp only
    rw [witness_len, h4]
  · apply nest_relay
    · intro p hp
      simp only [List.mem_cons, List.not_mem_nil, or_false] at hp
      rcases hp with rfl | rfl
      · exact p1_wf
      · exact p2_wf
    all_goals decide

/-- one packet queued, same key, current code: it arrives -/
theorem single_witness : relay currentArm key65 devA devB p1 = .ok [p1] :=
  single_relay key65 devA p1 p1_wf p1_plain

end XMT.RelaySplice
