/-
  XMT.Route — executable model of the per-device routing of packets in package c2 (property C15).

  Mirrors (after the `fix:` commits of C15, see known/C15.json):
    device/id.go      ID.Empty, ID.Hash (FNV-1, 32 bit)
    c2/server.go      Server.Session, Server.Remove, the sessions table  map[uint32]*Session
    c2/listener.go    Listener.talk, Listener.talkSub, Listener.notify, Listener.resolve
    c2/channel.go     conn.process, processSingle, processMultiple, conn.resolve (tags)
    c2/vars.go        receive (device test, Multi unpacking), isPacketNoP
    c2/proxy.go       Proxy.accept, Proxy.talk, Proxy.talkSub (second half of this file)

  The hash is a PARAMETER (`hash : ID → Nat`) of every function: the theorems in Props/C15.lean hold
  for every hash function, in particular for non-injective ones (colliding device IDs).  The
  driver instantiates it with `idHash`, the model of the real FNV-1 function.

  Side effects on a Session are explicit events (`Ev`), in program order.  What is NOT modelled:
  fragment reassembly (C02), the contents of payloads (C01/C12), keys (C06); a packet is its
  routing-relevant header + "is the payload empty" + "does the payload parse as hello info".
  Core-only (no Mathlib): the driver is a compiled lean_exe.
-/
import XMT.Base
import XMT.Generated.Facts
namespace XMT.Route
open XMT

/-! ### device.ID -/

abbrev ID := Bytes

/-- `ID.Empty()`: `i[0] == 0` (an ID is a 32-byte array; the model also calls `[]` empty). -/
def idEmpty : ID → Bool
  | [] => true
  | b :: _ => b == 0

/-- `ID.Hash()`: `h := uint32(basis); for x := range i { h *= prime; h ^= uint32(i[x]) }`. -/
def idHash (i : ID) : Nat :=
  i.foldl (fun h b => ((h * Facts.c15FnvPrime) % 2 ^ Facts.c15HashBits) ^^^ b.toNat) Facts.c15FnvBasis

/-! ### constants (regenerated from the source on every run) -/

def svHello := Facts.c15SvHello
def svRegister := Facts.c15SvRegister
def svComplete := Facts.c15SvComplete
def svShutdown := Facts.c15SvShutdown
def mvRefresh := Facts.c15MvRefresh
def flagFrag := Facts.c15FlagFrag
def flagMulti := Facts.c15FlagMulti
def flagProxy := Facts.c15FlagProxy
def flagOneshot := Facts.c15FlagOneshot
def flagMultiDevice := Facts.c15FlagMultiDevice
def flagCrypt := Facts.c15FlagCrypt
def packetMaxTags := Facts.c15PacketMaxTags

/-- `f & bit != 0` -/
def hasFlag (f bit : Nat) : Bool := f &&& bit != 0

/-- `Flag.Len()`: `uint16(f >> 48)` -/
def flagLen (f : Nat) : Nat := (f >>> 48) % 2 ^ 16

/-! ### packets -/

/-- A packet without nested content: what routing looks at. -/
structure Sub where
  dev : ID
  pid : Nat
  job : Nat
  flags : Nat
  /-- `Packet.Empty()` -/
  empty : Bool
  /-- the payload parses as hello device info (`readDeviceInfo(infoHello, n)` succeeds) -/
  info : Bool
deriving DecidableEq, Repr, Inhabited

/-- A top-level packet: header, tags, and — for a `FlagMulti` container — the packets marshalled
in its payload, in order. -/
structure Pkt where
  hd : Sub
  tags : List Nat
  subs : List Sub
deriving DecidableEq, Repr, Inhabited

/-- `isPacketNoP`: `n.ID < 2 && n.Empty() && (n.Flags == 0 || n.Flags == FlagProxy)` -/
def nop (n : Sub) : Bool := n.pid < 2 && n.empty && (n.flags == 0 || n.flags == flagProxy)

/-- An outbound packet as far as routing is concerned. -/
structure Leaf where
  dev : ID
  pid : Nat
  job : Nat
  /-- the packet carries key material (`FlagCrypt`): only the `SvComplete` answer to a hello does
  (`keyHostSync`); such a packet is never packed with others (`Session.next`, `nextPacket`) -/
  crypt : Bool := false
deriving DecidableEq, Repr, Inhabited

/-- what one `Session.next` call takes from a non-empty queue (budgets aside): a packet carrying
key material goes out alone, and packing stops in front of one (it is carried over) -/
def takeOwn : List Leaf → List Leaf × List Leaf
  | [] => ([], [])
  | l :: ls =>
    if l.crypt then ([l], ls)
    else (l :: ls.takeWhile (fun x => !x.crypt), ls.dropWhile (fun x => !x.crypt))

/-! ### server state -/

/-- A server side Session: its device ID and its send queue (every queued packet names `id`,
see `Session.queue` / `verifyPacket`). -/
structure Sess where
  id : ID
  q : List Leaf
deriving DecidableEq, Repr, Inhabited

/-- `Server.sessions  map[uint32]*Session` as an association list with unique keys. -/
abbrev Tbl := List (Nat × Sess)

def Tbl.get (t : Tbl) (h : Nat) : Option Sess :=
  match t with
  | [] => none
  | (k, s) :: r => if k = h then some s else Tbl.get r h

def Tbl.del (t : Tbl) (h : Nat) : Tbl := t.filter (fun e => e.1 != h)

def Tbl.set (t : Tbl) (h : Nat) (s : Sess) : Tbl := (h, s) :: Tbl.del t h

/-! ### events and errors -/

inductive Ev
  /-- `s.host.Set(a); s.Last = now` on Session `sid` while handling a packet that names `pdev` -/
  | touch (sid pdev : ID)
  /-- `keyCryptAndUpdate` replaced key material of Session `sid` from a packet that names `pdev` -/
  | key (sid pdev : ID)
  /-- `receive` accepted the packet for Session `sid` (reaches `receiveSingle` → handler) -/
  | recv (sid pdev : ID) (pid job : Nat)
  /-- a new Session for `sid` was created and stored for a hello packet naming `pdev` -/
  | reg (sid pdev : ID)
  /-- `Listener.oneshot` -/
  | oneshot (pdev : ID)
  /-- `conn.resolve`: `v.update(a)` on the Session found under tag `tag` -/
  | tagTouch (sid : ID) (tag : Nat)
  /-- `conn.resolve`: the queue of Session `sid` (found under `tag`) was drained into the
  connection whose host is `host` -/
  | tagOut (host sid : ID) (tag : Nat)
deriving DecidableEq, Repr

inductive Err
  | closed | short | malformed | info | badtag | count | unmarshal | mismatch | unmodelled
deriving DecidableEq, Repr

/-! ### receive (c2/vars.go), server side: `l != nil`, `s.proxy == nil` -/

/-- `receive(s, l, n)` for a packet without modelled nested content. `s = none` is the call
`receive(nil, l, n)` made for oneshot packets. -/
def receiveSub (s : Option Sess) (n : Sub) : List Ev × Except Err Unit :=
  if idEmpty n.dev || nop n then ([], .ok ())
  else if (match s with
      | some s => !(hasFlag n.flags flagMultiDevice) && s.id != n.dev
      | none => false) then ([], .error .mismatch)
  else if hasFlag n.flags flagOneshot then ([.oneshot n.dev], .ok ())
  else match s with
    | none => ([], .ok ())
    | some s =>
      if n.pid == svComplete && !(hasFlag n.flags flagCrypt) then ([], .ok ())
      else if hasFlag n.flags flagMulti then
        -- a container whose payload is not modelled (always empty here): Len 0 is refused,
        -- otherwise the first UnmarshalStream fails
        if flagLen n.flags == 0 then ([], .error .count) else ([], .error .unmarshal)
      else if hasFlag n.flags flagFrag then ([], .error .unmodelled)
      -- receiveSingle: SvComplete carrying key data (FlagCrypt is set here) → keySessionSync
      -- replaces the key material of a Session that has no shared secret yet
      else if n.pid == svComplete && !n.empty then ([.key s.id n.dev], .ok ())
      else ([.recv s.id n.dev n.pid n.job], .ok ())

/-- the unpack loop of the `FlagMulti` arm of `receive`: `x` packets are expected. -/
def receiveAll (s : Sess) : Nat → List Sub → List Ev × Except Err Unit
  | 0, _ => ([], .ok ())
  | _ + 1, [] => ([], .error .unmarshal)
  | x + 1, v :: vs =>
    if idEmpty v.dev then ([], .error .unmarshal)   -- ID.Read refuses an empty ID
    else match receiveSub (some s) v with
      | (e, .error r) => (e, .error r)
      | (e, .ok ()) => let (e', r) := receiveAll s x vs; (e ++ e', r)

/-- `receive(s, l, n)` for a top-level packet. -/
def receive (s : Sess) (n : Pkt) : List Ev × Except Err Unit :=
  let h := n.hd
  if idEmpty h.dev || nop h then ([], .ok ())
  else if !(hasFlag h.flags flagMultiDevice) && s.id != h.dev then ([], .error .mismatch)
  else if hasFlag h.flags flagOneshot then ([.oneshot h.dev], .ok ())
  else if h.pid == svComplete && !(hasFlag h.flags flagCrypt) then ([], .ok ())
  else if hasFlag h.flags flagMulti then
    if flagLen h.flags == 0 then ([], .error .count) else receiveAll s (flagLen h.flags) n.subs
  else if hasFlag h.flags flagFrag then ([], .error .unmodelled)
  else if h.pid == svComplete && !h.empty then ([.key s.id h.dev], .ok ())
  else ([.recv s.id h.dev h.pid h.job], .ok ())

/-- `keyCryptAndUpdate`: key material is replaced iff `FlagCrypt` is set and the payload is not empty. -/
def keyEv (s : Sess) (n : Sub) : List Ev :=
  if hasFlag n.flags flagCrypt && !n.empty then [.key s.id n.dev] else []

/-- `Listener.notify(h, n)` with a non-nil host: `keyCryptAndUpdate(n, false)` then `receive`. -/
def notifySub (s : Sess) (n : Sub) : List Ev × Except Err Unit :=
  let (e, r) := receiveSub (some s) n
  (keyEv s n ++ e, r)

/-! ### Session.next (server side, not in channel mode) as far as routing is concerned -/

/-- `next(false)`: everything queued, or a keep-alive naming the Session. -/
def nextAll (s : Sess) : List Leaf :=
  if s.q.isEmpty then [{ dev := s.id, pid := 0, job := 0 }] else (takeOwn s.q).1

/-- the Session after that call: what was not taken stays queued -/
def Sess.kept (s : Sess) : Sess := { s with q := (takeOwn s.q).2 }

@[simp] theorem Sess.kept_id (s : Sess) : s.kept.id = s.id := rfl

/-! ### Server.Session / Server.Remove (c2/server.go) -/

/-- `Server.Session(i)` -/
def lookup (hash : ID → Nat) (t : Tbl) (i : ID) : Option Sess :=
  if idEmpty i then none
  else match t.get (hash i) with
    | some s => if s.id != i then none else some s
    | none => none

/-- `Server.Remove(i, false)` followed by the `delSession` arm of `Server.listen`. -/
def remove (hash : ID → Nat) (t : Tbl) (i : ID) : Tbl :=
  match t.get (hash i) with
  | some s => if s.id = i then t.del (hash i) else t
  | none => t

/-- queue a packet on the Session registered for `i` (what `Session.Task`/`Send` do). -/
def enqueue (hash : ID → Nat) (t : Tbl) (i : ID) (l : Leaf) : Tbl :=
  match t.get (hash i) with
  | some s => if s.id = i then t.set (hash i) { s with q := s.q ++ [l] } else t
  | none => t

/-! ### the hash-keyed lookup with the full-ID comparison (the repaired sites) -/

/-- Result of `s, ok = sessions[hash(dev)]` followed by the full-ID test added by the fix:
a Session stored under the same hash for ANOTHER device is never used. -/
inductive Found
  | own (s : Sess)
  | absent
  | collide
deriving Repr

def find (hash : ID → Nat) (t : Tbl) (d : ID) : Found :=
  match t.get (hash d) with
  | none => .absent
  | some s => if s.id != d then .collide else .own s

/-! ### Listener.talkSub -/

structure SubOut where
  /-- the connHost returned (`k`), by ID -/
  host : Option ID
  /-- the hash returned (`q`) -/
  key : Nat
  /-- the packet returned (`r`), flattened -/
  reply : List Leaf
deriving Repr, DecidableEq

def registerReply (n : Sub) : Leaf := { dev := n.dev, pid := svRegister, job := 0 }

/-- the Session created for a hello packet: `s.write(true, keyHostSync(l, n))` queues the
`SvComplete` answer unless the packet came through a proxy (`FlagProxy`). -/
def newSess (n : Sub) : Sess :=
  if hasFlag n.flags flagProxy then { id := n.dev, q := [] }
  else { id := n.dev, q := [{ dev := n.dev, pid := svComplete, job := n.job, crypt := true }] }

/-- `Listener.talkSub(a, n, o)`. Returns the new table, the events and the result. -/
def talkSub (hash : ID → Nat) (closing : Bool) (t : Tbl) (n : Sub) (o : Bool) :
    Tbl × List Ev × Except Err SubOut :=
  if idEmpty n.dev || closing then (t, [], .error .short) else
  let i := hash n.dev
  match find hash t n.dev with
  | .collide =>
    if n.pid == svHello then (t, [], .error .malformed)
    else (t, [], .ok { host := none, key := 0, reply := [registerReply n] })
  | .absent =>
    if n.pid != svHello then (t, [], .ok { host := none, key := 0, reply := [registerReply n] })
    else if !n.info then (t, [], .error .info)
    else
      let s := newSess n
      let ev := [Ev.reg s.id n.dev, Ev.touch s.id n.dev]
      let (e, r) := receiveSub (some s) n
      match r with
      | .error x => (t.set i s, ev ++ e, .error x)
      | .ok () =>
        if o then (t.set i s, ev ++ e, .ok { host := some s.id, key := i, reply := [] })
        else (t.set i s.kept, ev ++ e, .ok { host := some s.id, key := i, reply := (takeOwn s.q).1 })
  | .own s =>
    let ev := [Ev.touch s.id n.dev] ++ keyEv s n
    let (e, r) := receiveSub (some s) n
    match r with
    | .error x => (t, ev ++ e, .error x)
    | .ok () =>
      if o then (t, ev ++ e, .ok { host := some s.id, key := i, reply := [] })
      else (t.set i s.kept, ev ++ e, .ok { host := some s.id, key := i, reply := (takeOwn s.q).1 })

/-! ### conn.resolve (tags) -/

structure Conn where
  /-- `c.add`, flattened -/
  add : List Leaf
  /-- keys of `c.subs` that are `true` -/
  subs : List Nat
deriving Repr, DecidableEq

/-- the loop of `conn.resolve(l, s, h, a, t, false)`; `idx` is the loop index `i`. -/
def resolveLoop (host : ID) : Nat → List Nat → Tbl → Conn → Tbl × List Ev × Except Err Conn
  | _, [], t, c => (t, [], .ok c)
  | idx, tag :: rest, t, c =>
    if tag == 0 then (t, [], .error .badtag)
    else if idx > packetMaxTags then (t, [], .ok c)
    else if c.subs.contains tag then resolveLoop host (idx + 1) rest t c
    else match t.get tag with
      | none => resolveLoop host (idx + 1) rest t c
      | some v =>
        if v.id == host then resolveLoop host (idx + 1) rest t c
        else
          let c := { c with subs := c.subs ++ [tag] }
          if v.q.isEmpty then
            let (t', e, r) := resolveLoop host (idx + 1) rest t c
            (t', Ev.tagTouch v.id tag :: e, r)
          else
            let (t', e, r) := resolveLoop host (idx + 1) rest (t.set tag v.kept)
              { c with add := c.add ++ (takeOwn v.q).1 }
            (t', Ev.tagTouch v.id tag :: Ev.tagOut host v.id tag :: e, r)

/-! ### conn.processMultiple

`c.host` is a POINTER to the Session object in the Go code; the model carries that object as a
value (`hs`) through `process` and writes it back into its slot at the end of `talk`.  Nothing in
between reads more than the `id` of the slot's entry (`talkSub` only for a different device, which
can at most collide with it; `resolve` skips the host), so the two views coincide. -/

/-- the loop of `processMultiple` (o = false): `x` packets are expected; `hs` is the connection's
host Session. Returns table, host, events, and the leaves packed into `c.next` plus the hashes
added to `c.subs`. -/
def multiLoop (hash : ID → Nat) (closing : Bool) :
    Nat → List Sub → Sess → Tbl → Tbl × Sess × List Ev × Except Err (List Leaf × List Nat)
  | 0, _, hs, t => (t, hs, [], .ok ([], []))
  | _ + 1, [], hs, t => (t, hs, [], .error .unmarshal)
  | x + 1, v :: vs, hs, t =>
    if idEmpty v.dev then (t, hs, [], .error .unmarshal)
    else if hasFlag v.flags flagMulti || hasFlag v.flags flagMultiDevice then
      multiLoop hash closing x vs hs t
    else if hasFlag v.flags flagOneshot then
      -- fix: h.notify(nil, &v)
      let (e, _) := receiveSub none v
      let (t', hs', e', r) := multiLoop hash closing x vs hs t
      (t', hs', e ++ e', r)
    else if hs.id == v.dev then
      let (e, _) := notifySub hs v              -- errors are logged and ignored
      let out := nextAll hs
      let (t', hs', e', r) := multiLoop hash closing x vs hs.kept t
      (t', hs', e ++ e', match r with
        | .ok (l, k) => .ok (out ++ l, k)
        | .error z => .error z)
    else
      match talkSub hash closing t v false with
      | (t1, e, .error z) => (t1, hs, e, .error z)
      | (t1, e, .ok so) =>
        let (t', hs', e', r) := multiLoop hash closing x vs hs t1
        (t', hs', e ++ e', match r with
          | .ok (l, k) => .ok (so.reply ++ l, (if so.host.isSome then [so.key] else []) ++ k)
          | .error z => .error z)

/-! ### Listener.talk -/

structure Reply where
  /-- the `ok` result: the Session existed before this packet -/
  ok : Bool
  /-- `conn.host`, by ID (`none`: the re-registration reply has no host) -/
  host : Option ID
  /-- `conn.next`, containers flattened, in order -/
  next : List Leaf
  /-- `conn.subs` (true entries) -/
  subs : List Nat
deriving Repr, DecidableEq

/-- `conn.process(l, h, a, n, false)` on the connection whose host is `hs`. -/
def process (hash : ID → Nat) (closing : Bool) (hs : Sess) (t : Tbl) (n : Pkt) (c : Conn) :
    Tbl × Sess × List Ev × Except Err (List Leaf × List Nat) :=
  if hasFlag n.hd.flags flagMultiDevice then
    let x := flagLen n.hd.flags
    if x == 0 then (t, hs, [], .error .count)
    else match multiLoop hash closing x n.subs hs t with
      | (t', hs', e, .error z) => (t', hs', e, .error z)
      | (t', hs', e, .ok (l, k)) =>
        let all := l ++ c.add
        (t', hs', e, .ok (if all.isEmpty then [{ dev := hs.id, pid := 0, job := 0 }] else all, c.subs ++ k))
  else
    -- processSingle: h.notify(c.host, n); v := c.host.next(false)
    let (e, r) := receive hs n
    let e := keyEv hs n.hd ++ e
    match r with
    | .error z => (t, hs, e, .error z)
    | .ok () => (t, hs.kept, e, .ok (nextAll hs ++ c.add, c.subs))

/-- everything `talk` does once it holds the Session `s` of the sender (`ok`: it existed before);
`t` already contains `s` in slot `i`. -/
def talkWith (hash : ID → Nat) (closing : Bool) (i : Nat) (s : Sess) (ok : Bool) (t : Tbl) (n : Pkt) :
    Tbl × List Ev × Except Err Reply :=
  match (if n.tags.isEmpty then (t, [], .ok { add := [], subs := [] })
         else resolveLoop s.id 0 n.tags t { add := [], subs := [] }) with
  | (t1, e1, .error z) => (t1, e1, .error z)
  | (t1, e1, .ok c) =>
    -- KeyCrypt: decrypt / re-key only for a Session that existed before
    let ek := if ok then keyEv s n.hd else []
    match process hash closing s t1 n c with
    | (t2, s', e2, .error z) => (t2.set i s', e1 ++ ek ++ e2, .error z)
    | (t2, s', e2, .ok (l, k)) =>
      (t2.set i s', e1 ++ ek ++ e2, .ok { ok := ok, host := some s.id, next := l, subs := k })

/-- the `!ok` branch of `Listener.talk`: the sender has no Session. -/
def talkNew (hash : ID → Nat) (closing : Bool) (t : Tbl) (n : Pkt) : Tbl × List Ev × Except Err Reply :=
  let h := n.hd
  if h.empty && h.pid == svHello then (t, [], .error .malformed)
  else if h.pid != svHello then
    (t, [], .ok { ok := false, host := none, next := [registerReply h], subs := [] })
  else if !h.info then (t, [], .error .info)
  else
    let s := newSess h
    let (t', e, r) := talkWith hash closing (hash h.dev) s false (t.set (hash h.dev) s) n
    (t', [Ev.reg s.id h.dev, Ev.touch s.id h.dev] ++ e, r)

/-- `Listener.talk(a, n)`. -/
def talk (hash : ID → Nat) (closing : Bool) (t : Tbl) (n : Pkt) : Tbl × List Ev × Except Err Reply :=
  let h := n.hd
  if idEmpty h.dev || closing then (t, [], .error .closed) else
  match find hash t h.dev with
  | .collide =>
    -- fix: the slot belongs to another device; a hello cannot be registered, anything else is
    -- answered like a packet from an unregistered device
    if h.pid == svHello then (t, [], .error .malformed) else talkNew hash closing t n
  | .absent => talkNew hash closing t n
  | .own s =>
    let (t', e, r) := talkWith hash closing (hash h.dev) s true t n
    (t', [Ev.touch s.id h.dev] ++ e, r)

/-! ### histories -/

inductive Op
  | talk (n : Pkt)
  | talkSub (n : Sub) (o : Bool)
  | lookup (i : ID)
  | remove (i : ID)
  | queue (i : ID) (l : Leaf)
deriving Repr

/-- one step of a history: new table and the events of the step. -/
def step (hash : ID → Nat) (t : Tbl) : Op → Tbl × List Ev
  | .talk n => let (t', e, _) := talk hash false t n; (t', e)
  | .talkSub n o => let (t', e, _) := talkSub hash false t n o; (t', e)
  | .lookup _ => (t, [])
  | .remove i => (remove hash t i, [])
  | .queue i l => (enqueue hash t i l, [])

/-- run a history from a table; all events in order. -/
def run (hash : ID → Nat) : Tbl → List Op → Tbl × List Ev
  | t, [] => (t, [])
  | t, op :: ops =>
    let (t1, e1) := step hash t op
    let (t2, e2) := run hash t1 ops
    (t2, e1 ++ e2)

end XMT.Route
