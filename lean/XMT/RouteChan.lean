/-
  XMT.RouteChan — `conn.resolve(l, s, h, a, t, true)` (c2/channel.go), the tag handling of a connection
  in CHANNEL mode, with `Listener.clientGet / clientSet / clientClear` (c2/listener.go).

  In channel mode a connection is long-lived: every packet read from it carries the CURRENT list of
  devices the peer (a proxy) serves.  `resolve` marks the Sessions named by the tags in `c.subs`,
  redirects their outbound queue to this connection (`Session.chn = c.host.sender()`), and releases
  (`chn = nil`) every Session that was marked by an earlier packet and is no longer named.

  State: per Session the connection its queue is redirected to (`chn`), per connection `c.subs`.
-/
import XMT.Route

namespace XMT.RouteChan
open XMT XMT.Route

structure CSess where
  id : ID
  /-- `Session.chn`: the connection (by number) the outbound queue is redirected to -/
  chn : Option Nat
deriving DecidableEq, Repr

abbrev CTbl := List (Nat × CSess)

def CTbl.get (t : CTbl) (h : Nat) : Option CSess :=
  match t with
  | [] => none
  | (k, s) :: r => if k = h then some s else CTbl.get r h

/-- update the entry stored under `h` (a Go map holds one entry per key) -/
def CTbl.upd (t : CTbl) (h : Nat) (f : CSess → CSess) : CTbl :=
  match t with
  | [] => []
  | (k, s) :: r => if k = h then (k, f s) :: r else (k, s) :: CTbl.upd r h f

structure Conn where
  /-- number of this connection -/
  cid : Nat
  /-- `c.host.clientID()` -/
  host : ID
  /-- `c.subs` -/
  subs : List (Nat × Bool)
deriving DecidableEq, Repr

def marked (subs : List (Nat × Bool)) (k : Nat) : Bool := subs.any (fun e => e.1 == k && e.2)

/-- `c.subs[k] = true` -/
def mark (subs : List (Nat × Bool)) (k : Nat) : List (Nat × Bool) :=
  if subs.any (fun e => e.1 == k) then subs.map (fun e => if e.1 == k then (k, true) else e)
  else subs ++ [(k, true)]

/-- the tag loop of `resolve` with `o = true`; `idx` is the loop index. `none` = `ErrMalformedTag` -/
def tagLoop (host : ID) (t : CTbl) : Nat → List Nat → List (Nat × Bool) → Option (List (Nat × Bool))
  | _, [], subs => some subs
  | idx, tag :: rest, subs =>
    if tag == 0 then none
    else if idx > packetMaxTags then some subs
    else if marked subs tag then tagLoop host t (idx + 1) rest subs
    else match t.get tag with
      | none => tagLoop host t (idx + 1) rest subs
      | some v =>
        if v.id == host then tagLoop host t (idx + 1) rest subs
        else tagLoop host t (idx + 1) rest (mark subs tag)

/-- `clientClear(i)`: `v.chn = nil` -/
def clear (t : CTbl) (k : Nat) : CTbl := t.upd k (fun s => { s with chn := none })

/-- `clientSet(i, c)`: `if v.chn != nil { return }; v.chn = c` -/
def set (cid : Nat) (t : CTbl) (k : Nat) : CTbl :=
  t.upd k (fun s => if s.chn.isSome then s else { s with chn := some cid })

/-- `conn.resolve(…, t, true)`; `none` = the malformed-tag error (the connection is then stopped,
`conn.stop` releases every entry of `c.subs`) -/
def resolve (c : Conn) (tags : List Nat) (t : CTbl) : Option (CTbl × Conn) :=
  let subs0 := c.subs.map (fun e => (e.1, false))
  match tagLoop c.host t 0 tags subs0 with
  | none => none
  | some subs =>
    let gone := (subs.filter (fun e => !e.2)).map (·.1)
    let keep := subs.filter (fun e => e.2)
    let t1 := gone.foldl clear t
    let t2 := (keep.map (·.1)).foldl (set c.cid) t1
    some (t2, { c with subs := keep })

/-- `conn.stop`: every entry of `c.subs` is released -/
def stop (c : Conn) (t : CTbl) : CTbl := (c.subs.map (·.1)).foldl clear t

/-! ### lemmas -/

theorem get_upd_same (t : CTbl) (k : Nat) (f : CSess → CSess) :
    (t.upd k f).get k = (t.get k).map f := by
  induction t with
  | nil => rfl
  | cons e r ih =>
    obtain ⟨k', s⟩ := e
    unfold CTbl.upd
    by_cases h : k' = k
    · simp [h, CTbl.get]
    · simp only [h, if_false, CTbl.get]; exact ih

theorem get_upd_other (t : CTbl) (k k2 : Nat) (f : CSess → CSess) (h : k2 ≠ k) :
    (t.upd k f).get k2 = t.get k2 := by
  induction t with
  | nil => rfl
  | cons e r ih =>
    obtain ⟨k', s⟩ := e
    unfold CTbl.upd
    by_cases h1 : k' = k
    · subst h1
      have : ¬ k' = k2 := fun e => h e.symm
      simp [CTbl.get, this]
    · simp only [h1, if_false, CTbl.get]
      by_cases h2 : k' = k2
      · simp [h2]
      · simp only [h2, if_false]; exact ih

/-- `chn` of the entry under `k`, `none` when there is no entry -/
def chnOf (t : CTbl) (k : Nat) : Option Nat := (t.get k).bind (·.chn)

theorem chnOf_clear_same (t : CTbl) (k : Nat) : chnOf (clear t k) k = none := by
  unfold chnOf clear
  rw [get_upd_same]
  cases t.get k <;> rfl

theorem chnOf_clear_other (t : CTbl) (k k2 : Nat) (h : k2 ≠ k) : chnOf (clear t k) k2 = chnOf t k2 := by
  unfold chnOf clear; rw [get_upd_other _ _ _ _ h]

theorem chnOf_set_other (cid : Nat) (t : CTbl) (k k2 : Nat) (h : k2 ≠ k) : chnOf (set cid t k) k2 = chnOf t k2 := by
  unfold chnOf set; rw [get_upd_other _ _ _ _ h]

theorem chnOf_set_same (cid : Nat) (t : CTbl) (k : Nat) :
    chnOf (set cid t k) k = (match t.get k with
      | none => none
      | some s => if s.chn.isSome then s.chn else some cid) := by
  unfold chnOf set
  rw [get_upd_same]
  cases h : t.get k with
  | none => rfl
  | some s =>
    simp only [Option.map_some, Option.bind_some]
    by_cases hs : s.chn.isSome = true <;> simp [hs]

/-- clearing a list of keys: a key of the list ends up released, any other key is unchanged -/
theorem chnOf_foldl_clear (ks : List Nat) (t : CTbl) (k : Nat) :
    chnOf (ks.foldl clear t) k = if k ∈ ks then none else chnOf t k := by
  induction ks generalizing t with
  | nil => simp
  | cons a as ih =>
    simp only [List.foldl_cons]
    rw [ih]
    by_cases hk : k ∈ as
    · simp [hk]
    · simp only [hk, if_false, List.mem_cons]
      by_cases ha : k = a
      · subst ha; simp [chnOf_clear_same]
      · simp [ha, chnOf_clear_other _ _ _ ha]

/-- setting a list of keys never makes a key outside the list point to this connection anew, and
never changes a key that points somewhere already -/
theorem chnOf_foldl_set (cid : Nat) (ks : List Nat) (t : CTbl) (k : Nat) :
    chnOf ((ks.foldl (set cid)) t) k =
      if k ∈ ks then (match t.get k with
        | none => none
        | some s => if s.chn.isSome then s.chn else some cid)
      else chnOf t k := by
  induction ks generalizing t with
  | nil => simp
  | cons a as ih =>
    simp only [List.foldl_cons]
    rw [ih]
    by_cases ha : k = a
    · subst ha
      have hget : (set cid t k).get k = (t.get k).map (fun s => if s.chn.isSome then s else { s with chn := some cid }) := by
        unfold set; rw [get_upd_same]
      by_cases hk : k ∈ as
      · simp only [hk, if_true, List.mem_cons, true_or]
        rw [hget]
        cases t.get k with
        | none => rfl
        | some s =>
          simp only [Option.map_some]
          by_cases hs : s.chn.isSome = true
          · simp [hs]
          · simp [hs]
      · simp only [hk, if_false, List.mem_cons, true_or, if_true]
        exact chnOf_set_same cid t k
    · have hget : (set cid t a).get k = t.get k := by unfold set; exact get_upd_other _ _ _ _ ha
      by_cases hk : k ∈ as
      · simp [hk, ha, hget]
      · simp [hk, ha, chnOf_set_other _ _ _ _ ha]


def keys (subs : List (Nat × Bool)) : List Nat := subs.map (·.1)

theorem keys_mark (subs : List (Nat × Bool)) (k : Nat) : ∀ x ∈ keys subs, x ∈ keys (mark subs k) := by
  intro x hx
  unfold mark
  split
  · unfold keys at hx ⊢
    obtain ⟨e, he, rfl⟩ := List.mem_map.mp hx
    refine List.mem_map.mpr ⟨(if e.1 == k then (k, true) else e), List.mem_map.mpr ⟨e, he, rfl⟩, ?_⟩
    by_cases h : (e.1 == k) = true
    · simp only [h, if_true]; exact (beq_iff_eq.mp h).symm
    · simp [h]
  · unfold keys at hx ⊢
    rw [List.map_append]; exact List.mem_append_left _ hx

/-- an entry that is `true` after `mark subs k` was `true` before or is `k` itself -/
theorem true_mark (subs : List (Nat × Bool)) (k x : Nat) (h : (x, true) ∈ mark subs k) :
    (x, true) ∈ subs ∨ x = k := by
  unfold mark at h
  split at h
  · obtain ⟨e, he, heq⟩ := List.mem_map.mp h
    by_cases hk : (e.1 == k) = true
    · simp only [hk, if_true, Prod.mk.injEq] at heq; exact Or.inr heq.1.symm
    · simp only [hk] at heq; subst heq; exact Or.inl he
  · rcases List.mem_append.mp h with h | h
    · exact Or.inl h
    · simp only [List.mem_singleton, Prod.mk.injEq] at h; exact Or.inr h.1

theorem tagLoop_keys (host : ID) (t : CTbl) : ∀ (tags : List Nat) (idx : Nat) (subs out : List (Nat × Bool)),
    tagLoop host t idx tags subs = some out → ∀ x ∈ keys subs, x ∈ keys out
  | [], idx, subs, out, h, x, hx => by
    unfold tagLoop at h; injection h with h; subst h; exact hx
  | tag :: rest, idx, subs, out, h, x, hx => by
    unfold tagLoop at h
    split at h
    · cases h
    · split at h
      · injection h with h; subst h; exact hx
      · split at h
        · exact tagLoop_keys host t rest _ _ _ h x hx
        · split at h
          · exact tagLoop_keys host t rest _ _ _ h x hx
          · split at h
            · exact tagLoop_keys host t rest _ _ _ h x hx
            · exact tagLoop_keys host t rest _ _ _ h x (keys_mark subs tag x hx)

/-- an entry that is `true` after the tag loop was `true` before, or is one of the tags, names a
stored Session and that Session is not the host of the connection -/
theorem tagLoop_true (host : ID) (t : CTbl) : ∀ (tags : List Nat) (idx : Nat) (subs out : List (Nat × Bool)),
    tagLoop host t idx tags subs = some out → ∀ x, (x, true) ∈ out →
      (x, true) ∈ subs ∨ (x ∈ tags ∧ ∃ v, t.get x = some v ∧ (v.id == host) = false)
  | [], idx, subs, out, h, x, hx => by
    unfold tagLoop at h; injection h with h; subst h; exact Or.inl hx
  | tag :: rest, idx, subs, out, h, x, hx => by
    have lift : ∀ {S : List (Nat × Bool)}, ((x, true) ∈ S ∨ (x ∈ rest ∧ ∃ v, t.get x = some v ∧ (v.id == host) = false)) →
        ((x, true) ∈ S ∨ (x ∈ tag :: rest ∧ ∃ v, t.get x = some v ∧ (v.id == host) = false)) := by
      intro S h
      rcases h with h | ⟨h1, h2⟩
      · exact Or.inl h
      · exact Or.inr ⟨List.mem_cons_of_mem _ h1, h2⟩
    unfold tagLoop at h
    split at h
    · cases h
    · split at h
      · injection h with h; subst h; exact Or.inl hx
      · split at h
        · exact lift (tagLoop_true host t rest _ _ _ h x hx)
        · split at h
          · exact lift (tagLoop_true host t rest _ _ _ h x hx)
          · rename_i v hv
            split at h
            · exact lift (tagLoop_true host t rest _ _ _ h x hx)
            · rename_i hne
              rcases tagLoop_true host t rest _ _ _ h x hx with h1 | ⟨h1, h2⟩
              · rcases true_mark subs tag x h1 with h3 | h3
                · exact Or.inl h3
                · subst h3
                  exact Or.inr ⟨List.mem_cons_self, v, hv, by simpa using hne⟩
              · exact Or.inr ⟨List.mem_cons_of_mem _ h1, h2⟩

/-- every Session redirected to connection `c` is recorded in `c.subs` -/
def Tracked (c : Conn) (t : CTbl) : Prop := ∀ k, chnOf t k = some c.cid → k ∈ keys c.subs

theorem mem_keys_split (subs : List (Nat × Bool)) (k : Nat) (h : k ∈ keys subs) :
    k ∈ keys (subs.filter (fun e => e.2)) ∨ k ∈ (subs.filter (fun e => !e.2)).map (·.1) := by
  unfold keys at *
  obtain ⟨e, he, rfl⟩ := List.mem_map.mp h
  by_cases hb : e.2 = true
  · exact Or.inl (List.mem_map.mpr ⟨e, List.mem_filter.mpr ⟨he, by simpa using hb⟩, rfl⟩)
  · exact Or.inr (List.mem_map.mpr ⟨e, List.mem_filter.mpr ⟨he, by simpa using hb⟩, rfl⟩)

/-- what `resolve` leaves behind, key by key -/
theorem resolve_chnOf (c : Conn) (tags : List Nat) (t t' : CTbl) (c' : Conn) (h : resolve c tags t = some (t', c'))
    (k : Nat) :
    ∃ subs, tagLoop c.host t 0 tags (c.subs.map (fun e => (e.1, false))) = some subs ∧
      c'.subs = subs.filter (fun e => e.2) ∧ c'.cid = c.cid ∧ c'.host = c.host ∧
      chnOf t' k =
        if k ∈ keys (subs.filter (fun e => e.2)) then
          (match ((subs.filter (fun e => !e.2)).map (·.1)).foldl clear t |>.get k with
            | none => none
            | some s => if s.chn.isSome then s.chn else some c.cid)
        else if k ∈ (subs.filter (fun e => !e.2)).map (·.1) then none else chnOf t k := by
  unfold resolve at h
  simp only at h
  cases hl : tagLoop c.host t 0 tags (c.subs.map (fun e => (e.1, false))) with
  | none => rw [hl] at h; cases h
  | some subs =>
    rw [hl] at h
    simp only [Option.some.injEq, Prod.mk.injEq] at h
    obtain ⟨ht, hc⟩ := h
    subst ht; subst hc
    refine ⟨subs, rfl, rfl, rfl, rfl, ?_⟩
    rw [chnOf_foldl_set]
    unfold keys
    by_cases hk : k ∈ (subs.filter (fun e => e.2)).map (·.1)
    · simp only [hk, if_true]
    · simp only [hk, if_false]
      rw [chnOf_foldl_clear]

theorem keys_false_map (subs : List (Nat × Bool)) : keys (subs.map (fun e => (e.1, false))) = keys subs := by
  unfold keys; rw [List.map_map]; rfl

theorem no_true_in_false_map (subs : List (Nat × Bool)) (x : Nat) : (x, true) ∉ subs.map (fun e => (e.1, false)) := by
  intro h
  obtain ⟨e, _, he⟩ := List.mem_map.mp h
  simp at he

/-- **stale redirects are released**: a Session recorded by an earlier packet of this connection and
not named by the current one no longer has its queue redirected -/
theorem resolve_releases_stale (c : Conn) (tags : List Nat) (t t' : CTbl) (c' : Conn)
    (h : resolve c tags t = some (t', c')) (k : Nat) (hk : k ∈ keys c.subs) (hn : k ∉ keys c'.subs) :
    chnOf t' k = none := by
  obtain ⟨subs, hl, hs, _, _, hv⟩ := resolve_chnOf c tags t t' c' h k
  rw [hs] at hn
  have hin : k ∈ keys subs := tagLoop_keys c.host t tags 0 _ subs hl k (by rw [keys_false_map]; exact hk)
  rcases mem_keys_split subs k hin with h1 | h1
  · exact absurd h1 hn
  · rw [hv]; simp only [hn, if_false, h1, if_true]

/-- **only Sessions named by the current packet are redirected to the connection** (and never the
connection's own host) -/
theorem resolve_redirects_only_tagged (c : Conn) (tags : List Nat) (t t' : CTbl) (c' : Conn)
    (htr : Tracked c t) (h : resolve c tags t = some (t', c')) (k : Nat) (hk : chnOf t' k = some c.cid) :
    k ∈ keys c'.subs ∧ k ∈ tags ∧ ∃ v, t.get k = some v ∧ (v.id == c.host) = false := by
  obtain ⟨subs, hl, hs, _, _, hv⟩ := resolve_chnOf c tags t t' c' h k
  by_cases h1 : k ∈ keys (subs.filter (fun e => e.2))
  · refine ⟨by rw [hs]; exact h1, ?_⟩
    unfold keys at h1
    obtain ⟨e, he, rfl⟩ := List.mem_map.mp h1
    obtain ⟨he1, he2⟩ := List.mem_filter.mp he
    have : (e.1, true) ∈ subs := by
      have : e = (e.1, true) := by
        cases e with
        | mk a b => simp only at he2; subst he2; rfl
      rw [← this]; exact he1
    rcases tagLoop_true c.host t tags 0 _ subs hl e.1 this with h2 | h2
    · exact absurd h2 (no_true_in_false_map _ _)
    · exact h2
  · rw [hv] at hk
    simp only [h1, if_false] at hk
    by_cases h2 : k ∈ (subs.filter (fun e => !e.2)).map (·.1)
    · simp [h2] at hk
    · simp only [h2, if_false] at hk
      have hin : k ∈ keys subs := tagLoop_keys c.host t tags 0 _ subs hl k (by rw [keys_false_map]; exact htr k hk)
      rcases mem_keys_split subs k hin with h3 | h3
      · exact absurd h3 h1
      · exact absurd h3 h2

/-- the book-keeping invariant is kept -/
theorem resolve_tracked (c : Conn) (tags : List Nat) (t t' : CTbl) (c' : Conn)
    (htr : Tracked c t) (h : resolve c tags t = some (t', c')) : Tracked c' t' := by
  intro k hk
  obtain ⟨_, _, _, hcid, _, _⟩ := resolve_chnOf c tags t t' c' h k
  rw [hcid] at hk
  exact (resolve_redirects_only_tagged c tags t t' c' htr h k hk).1

/-- a whole channel: the packets read from one connection, one after the other -/
def runConn (c : Conn) (t : CTbl) : List (List Nat) → Option (CTbl × Conn)
  | [] => some (t, c)
  | tags :: rest =>
    match resolve c tags t with
    | none => none
    | some r => runConn r.2 r.1 rest

theorem runConn_tracked : ∀ (ps : List (List Nat)) (c : Conn) (t : CTbl) (t' : CTbl) (c' : Conn),
    Tracked c t → runConn c t ps = some (t', c') → Tracked c' t' ∧ c'.cid = c.cid ∧ c'.host = c.host
  | [], c, t, t', c', htr, h => by
    unfold runConn at h; injection h with h; injection h with h1 h2; subst h1; subst h2; exact ⟨htr, rfl, rfl⟩
  | tags :: rest, c, t, t', c', htr, h => by
    unfold runConn at h
    cases hr : resolve c tags t with
    | none => rw [hr] at h; cases h
    | some r =>
      rw [hr] at h
      simp only at h
      obtain ⟨t1, c1⟩ := r
      obtain ⟨_, _, _, hcid, hhost, _⟩ := resolve_chnOf c tags t t1 c1 hr 0
      have := runConn_tracked rest c1 t1 t' c' (resolve_tracked c tags t t1 c1 htr hr) h
      exact ⟨this.1, this.2.1.trans hcid, this.2.2.trans hhost⟩

end XMT.RouteChan
