/-
  XMT.RouteLemmas — helper lemmas for Props/C15.lean (routing model, XMT/Route.lean).
-/
import XMT.Route
namespace XMT.Route
open XMT

/-! ### "the event acts on the Session of the device the packet names" -/

/-- An event that acts on a Session on behalf of a packet is *good* when the Session's device ID
equals the device ID the packet names; an event of tag resolution (`conn.resolve`: the peer
announced a 32-bit tag, the Session stored under that number was touched / drained) is good when
the Session's device satisfies `tagP` (instantiated with "the peer really serves that device", or
with `True` when only the packet-driven effects are of interest). -/
def Ev.Good (tagP : ID → Prop) : Ev → Prop
  | .touch s d => s = d
  | .key s d => s = d
  | .recv s d _ _ => s = d
  | .reg s d => s = d
  | .oneshot _ => True
  | .tagTouch s _ => tagP s
  | .tagOut _ s _ => tagP s

def AllGood (tagP : ID → Prop) (l : List Ev) : Prop := ∀ e ∈ l, e.Good tagP

/-- packet-driven effects only (tag resolution unconstrained) -/
abbrev Ev.Own (e : Ev) : Prop := e.Good (fun _ => True)
abbrev AllOwn (l : List Ev) : Prop := AllGood (fun _ => True) l

variable {tagP : ID → Prop}

theorem allOwn_nil : AllGood tagP [] := by intro e h; cases h

theorem allOwn_append {a b : List Ev} (ha : AllGood tagP a) (hb : AllGood tagP b) : AllGood tagP (a ++ b) := by
  intro e h
  rcases List.mem_append.mp h with h | h
  · exact ha e h
  · exact hb e h

theorem allOwn_cons {e : Ev} {l : List Ev} (he : e.Good tagP) (hl : AllGood tagP l) : AllGood tagP (e :: l) := by
  intro x h
  rcases List.mem_cons.mp h with h | h
  · exact h ▸ he
  · exact hl x h

/-! ### table -/

theorem Tbl.get_cons (k : Nat) (s : Sess) (r : Tbl) (h : Nat) :
    Tbl.get ((k, s) :: r) h = if k = h then some s else Tbl.get r h := rfl

theorem Tbl.del_cons (k : Nat) (s : Sess) (r : Tbl) (h : Nat) :
    Tbl.del ((k, s) :: r) h = if k = h then Tbl.del r h else (k, s) :: Tbl.del r h := by
  by_cases hk : k = h <;> simp [Tbl.del, List.filter_cons, hk]

theorem Tbl.get_del_same (t : Tbl) (h : Nat) : Tbl.get (Tbl.del t h) h = none := by
  induction t with
  | nil => rfl
  | cons e r ih =>
    obtain ⟨k, s⟩ := e
    rw [Tbl.del_cons]
    by_cases hk : k = h
    · simp [hk, ih]
    · simp [hk, Tbl.get_cons, ih]

theorem Tbl.get_del_other (t : Tbl) (h k : Nat) (hk : k ≠ h) : Tbl.get (Tbl.del t h) k = Tbl.get t k := by
  induction t with
  | nil => rfl
  | cons e r ih =>
    obtain ⟨k', s⟩ := e
    rw [Tbl.del_cons]
    by_cases hk' : k' = h
    · have : k' ≠ k := by intro x; exact hk (x ▸ hk')
      simp [hk', Tbl.get_cons, ih]
      intro x; exact absurd x.symm hk
    · simp [hk', Tbl.get_cons, ih]

theorem Tbl.get_set_same (t : Tbl) (h : Nat) (s : Sess) : Tbl.get (Tbl.set t h s) h = some s := by
  simp [Tbl.set, Tbl.get]

theorem Tbl.get_set_other (t : Tbl) (h k : Nat) (s : Sess) (hk : k ≠ h) :
    Tbl.get (Tbl.set t h s) k = Tbl.get t k := by
  have : h ≠ k := fun x => hk x.symm
  simp [Tbl.set, Tbl.get, this, Tbl.get_del_other t h k hk]

theorem Tbl.get_set (t : Tbl) (h k : Nat) (s : Sess) :
    Tbl.get (Tbl.set t h s) k = if k = h then some s else Tbl.get t k := by
  by_cases hk : k = h
  · subst hk; simp [Tbl.get_set_same]
  · simp [hk, Tbl.get_set_other t h k s hk]

theorem Tbl.get_del (t : Tbl) (h k : Nat) :
    Tbl.get (Tbl.del t h) k = if k = h then none else Tbl.get t k := by
  by_cases hk : k = h
  · subst hk; simp [Tbl.get_del_same]
  · simp [hk, Tbl.get_del_other t h k hk]

/-! ### find -/

theorem find_own {hash : ID → Nat} {t : Tbl} {d : ID} {s : Sess} (h : find hash t d = .own s) :
    s.id = d ∧ t.get (hash d) = some s := by
  unfold find at h
  split at h
  · cases h
  · rename_i s' hs
    split at h
    · cases h
    · rename_i hne
      cases h
      exact ⟨by simpa using hne, hs⟩

theorem find_absent {hash : ID → Nat} {t : Tbl} {d : ID} (h : find hash t d = .absent) :
    t.get (hash d) = none := by
  unfold find at h
  split at h
  · assumption
  · split at h <;> cases h

theorem find_collide {hash : ID → Nat} {t : Tbl} {d : ID} (h : find hash t d = .collide) :
    ∃ s, t.get (hash d) = some s ∧ s.id ≠ d := by
  unfold find at h
  split at h
  · cases h
  · rename_i s hs
    split at h
    · rename_i hne; exact ⟨s, hs, by simpa using hne⟩
    · cases h

/-! ### receive -/

theorem receiveSub_none_own (n : Sub) : AllGood tagP (receiveSub none n).1 := by
  intro e he
  unfold receiveSub at he
  repeat' (split at he)
  all_goals simp at he
  all_goals subst he
  all_goals simp only [Ev.Good]
  all_goals simp_all

theorem receiveSub_own (s : Sess) (n : Sub)
    (h : s.id = n.dev ∨ hasFlag n.flags flagMultiDevice = false) : AllGood tagP (receiveSub (some s) n).1 := by
  intro e he
  unfold receiveSub at he
  repeat' (split at he)
  all_goals simp at he
  all_goals subst he
  all_goals simp only [Ev.Good]
  all_goals (rcases h with h | h <;> simp_all)

theorem receiveAll_own (s : Sess) (x : Nat) (vs : List Sub)
    (h : ∀ v ∈ vs, hasFlag v.flags flagMultiDevice = false) : AllGood tagP (receiveAll s x vs).1 := by
  induction x generalizing vs with
  | zero => unfold receiveAll; exact allOwn_nil
  | succ x ih =>
    cases vs with
    | nil => unfold receiveAll; exact allOwn_nil
    | cons v vs =>
      have hv := receiveSub_own (tagP := tagP) s v (Or.inr (h v (by simp)))
      have hr := ih vs (fun w hw => h w (by simp [hw]))
      unfold receiveAll
      split
      · exact allOwn_nil
      · split
        · rename_i e r heq; rw [heq] at hv; exact hv
        · rename_i e heq; rw [heq] at hv
          exact allOwn_append hv hr

/-- no element of a same-device batch carries `FlagMultiDevice` (see the known finding
`mdflag-bypass:receive`). -/
def InnerOK (n : Pkt) : Bool :=
  hasFlag n.hd.flags flagMultiDevice || n.subs.all (fun v => !hasFlag v.flags flagMultiDevice)

theorem receive_own (s : Sess) (n : Pkt) (hid : s.id = n.hd.dev)
    (hin : ∀ v ∈ n.subs, hasFlag v.flags flagMultiDevice = false) : AllGood tagP (receive s n).1 := by
  have hall := receiveAll_own (tagP := tagP) s (flagLen n.hd.flags) n.subs hin
  intro e he
  dsimp only [receive] at he
  repeat' (split at he)
  all_goals first
    | exact hall e he
    | (simp at he; try subst he; simp only [Ev.Good]; try exact hid)

theorem keyEv_own (s : Sess) (n : Sub) (hid : s.id = n.dev) : AllGood tagP (keyEv s n) := by
  unfold keyEv
  split
  · intro e he; simp at he; subst he; exact hid
  · exact allOwn_nil

theorem notifySub_own (s : Sess) (n : Sub) (hid : s.id = n.dev) : AllGood tagP (notifySub s n).1 := by
  unfold notifySub
  exact allOwn_append (keyEv_own s n hid) (receiveSub_own s n (Or.inl hid))

/-! ### talkSub / processMultiple / resolve / process / talk: every event is own -/

theorem newSess_id (n : Sub) : (newSess n).id = n.dev := by
  unfold newSess; split <;> rfl

theorem talkSub_own (hash : ID → Nat) (closing : Bool) (t : Tbl) (n : Sub) (o : Bool) :
    AllGood tagP (talkSub hash closing t n o).2.1 := by
  unfold talkSub
  split
  · exact allOwn_nil
  · split
    · -- collide
      split <;> exact allOwn_nil
    · -- absent
      split
      · exact allOwn_nil
      · split
        · exact allOwn_nil
        · dsimp only
          have hs := newSess_id n
          have hk : AllGood tagP ([Ev.reg (newSess n).id n.dev, Ev.touch (newSess n).id n.dev] ++
              (receiveSub (some (newSess n)) n).1) :=
            allOwn_append (allOwn_cons hs (allOwn_cons hs allOwn_nil)) (receiveSub_own _ n (Or.inl hs))
          split <;> first | exact hk | (split <;> exact hk)
    · -- own
      rename_i s hf
      obtain ⟨hid, _⟩ := find_own hf
      dsimp only
      have key : AllGood tagP ([Ev.touch s.id n.dev] ++ keyEv s n ++ (receiveSub (some s) n).1) :=
        allOwn_append (allOwn_append (allOwn_cons hid allOwn_nil) (keyEv_own s n hid)) (receiveSub_own s n (Or.inl hid))
      split <;> first | exact key | (split <;> exact key)

theorem multiLoop_own (hash : ID → Nat) (closing : Bool) (x : Nat) (vs : List Sub) (hs : Sess) (t : Tbl) :
    AllGood tagP (multiLoop hash closing x vs hs t).2.2.1 := by
  induction x generalizing vs hs t with
  | zero => unfold multiLoop; exact allOwn_nil
  | succ x ih =>
    cases vs with
    | nil => unfold multiLoop; exact allOwn_nil
    | cons v vs =>
      unfold multiLoop
      split
      · exact allOwn_nil
      · split
        · exact ih vs hs t
        · split
          · dsimp only
            exact allOwn_append (receiveSub_none_own v) (ih vs hs t)
          · split
            · rename_i hown
              have hid : hs.id = v.dev := by simpa using hown
              dsimp only
              exact allOwn_append (notifySub_own hs v hid) (ih vs _ t)
            · have hts := talkSub_own (tagP := tagP) hash closing t v false
              split
              · rename_i t1 e z heq; rw [heq] at hts; exact hts
              · rename_i t1 e so heq; rw [heq] at hts
                dsimp only
                exact allOwn_append hts (ih vs hs t1)

/-- every Session that a tag of the packet can reach belongs to the sender itself or to a device
that satisfies `tagP`. -/
def TagsOK (tagP : ID → Prop) (t : Tbl) (tags : List Nat) (host : ID) : Prop :=
  ∀ tag ∈ tags, ∀ v, t.get tag = some v → v.id = host ∨ tagP v.id

theorem tagsOK_true (t : Tbl) (tags : List Nat) (host : ID) : TagsOK (fun _ => True) t tags host :=
  fun _ _ _ _ => Or.inr trivial

theorem tagsOK_set {t : Tbl} {tags : List Nat} {host : ID} {k : Nat} {v v' : Sess}
    (h : TagsOK tagP t tags host) (hv : t.get k = some v) (hid : v'.id = v.id) :
    TagsOK tagP (t.set k v') tags host := by
  intro tag htag x hx
  rw [Tbl.get_set] at hx
  by_cases e : tag = k
  · subst e; simp at hx; subst hx; rw [hid]; exact h tag htag v hv
  · simp [e] at hx; exact h tag htag x hx

theorem tagsOK_set_host {t : Tbl} {tags : List Nat} {host : ID} {k : Nat} {v' : Sess}
    (h : TagsOK tagP t tags host) (hid : v'.id = host) : TagsOK tagP (t.set k v') tags host := by
  intro tag htag x hx
  rw [Tbl.get_set] at hx
  by_cases e : tag = k
  · subst e; simp at hx; subst hx; exact Or.inl hid
  · simp [e] at hx; exact h tag htag x hx

theorem resolveLoop_own (host : ID) (idx : Nat) (tags : List Nat) (t : Tbl) (c : Conn)
    (h : TagsOK tagP t tags host) : AllGood tagP (resolveLoop host idx tags t c).2.1 := by
  induction tags generalizing idx t c with
  | nil => unfold resolveLoop; exact allOwn_nil
  | cons tag rest ih =>
    have hrest : TagsOK tagP t rest host := fun g hg => h g (by simp [hg])
    unfold resolveLoop
    split
    · exact allOwn_nil
    · split
      · exact allOwn_nil
      · split
        · exact ih _ _ _ hrest
        · split
          · exact ih _ _ _ hrest
          · rename_i v hv
            split
            · exact ih _ _ _ hrest
            · rename_i hnh
              have hal : tagP v.id := by
                rcases h tag (by simp) v hv with h1 | h1
                · simp [h1] at hnh
                · exact h1
              dsimp only
              split
              · exact allOwn_cons hal (ih _ _ _ hrest)
              · exact allOwn_cons hal (allOwn_cons hal
                  (ih _ _ _ (tagsOK_set (v' := v.kept) hrest hv rfl)))

theorem inner_of_InnerOK {n : Pkt} (h : InnerOK n = true) (hmd : hasFlag n.hd.flags flagMultiDevice = false) :
    ∀ v ∈ n.subs, hasFlag v.flags flagMultiDevice = false := by
  intro v hv
  unfold InnerOK at h
  simp [hmd] at h
  exact h v hv

theorem process_own (hash : ID → Nat) (closing : Bool) (hs : Sess) (t : Tbl) (n : Pkt) (c : Conn)
    (hid : hs.id = n.hd.dev) (hin : InnerOK n = true) : AllGood tagP (process hash closing hs t n c).2.2.1 := by
  unfold process
  split
  · dsimp only
    split
    · exact allOwn_nil
    · have := multiLoop_own (tagP := tagP) hash closing (flagLen n.hd.flags) n.subs hs t
      split <;> (rename_i heq; rw [heq] at this; exact this)
  · rename_i hmd
    have hmd' : hasFlag n.hd.flags flagMultiDevice = false := by simpa using hmd
    dsimp only
    have key := allOwn_append (tagP := tagP) (keyEv_own hs n.hd hid) (receive_own hs n hid (inner_of_InnerOK hin hmd'))
    split <;> exact key

theorem talkWith_own (hash : ID → Nat) (closing : Bool) (i : Nat) (s : Sess) (ok : Bool) (t : Tbl) (n : Pkt)
    (hid : s.id = n.hd.dev) (hin : InnerOK n = true) (htag : TagsOK tagP t n.tags s.id) :
    AllGood tagP (talkWith hash closing i s ok t n).2.1 := by
  unfold talkWith
  have hr : AllGood tagP (if n.tags.isEmpty then ((t, [], .ok { add := [], subs := [] }) : Tbl × List Ev × Except Err Conn)
         else resolveLoop s.id 0 n.tags t { add := [], subs := [] }).2.1 := by
    split
    · exact allOwn_nil
    · exact resolveLoop_own _ _ _ _ _ htag
  split
  · rename_i t1 e1 z heq; rw [heq] at hr; exact hr
  · rename_i t1 e1 c heq; rw [heq] at hr
    have hp := process_own (tagP := tagP) hash closing s t1 n c hid hin
    have hk : AllGood tagP (if ok then keyEv s n.hd else []) := by
      split
      · exact keyEv_own s n.hd hid
      · exact allOwn_nil
    dsimp only
    split <;> (rename_i heq2; rw [heq2] at hp; exact allOwn_append (allOwn_append hr hk) hp)

theorem talkNew_own (hash : ID → Nat) (closing : Bool) (t : Tbl) (n : Pkt) (hin : InnerOK n = true)
    (htag : TagsOK tagP t n.tags n.hd.dev) : AllGood tagP (talkNew hash closing t n).2.1 := by
  unfold talkNew
  dsimp only
  repeat' split
  all_goals first
    | exact allOwn_nil
    | exact allOwn_append (allOwn_cons (newSess_id n.hd) (allOwn_cons (newSess_id n.hd) allOwn_nil))
        (talkWith_own hash closing _ _ false _ n (newSess_id n.hd) hin
          (tagsOK_set_host (by rw [newSess_id]; exact htag) rfl))

theorem talk_own (hash : ID → Nat) (closing : Bool) (t : Tbl) (n : Pkt) (hin : InnerOK n = true)
    (htag : TagsOK tagP t n.tags n.hd.dev) : AllGood tagP (talk hash closing t n).2.1 := by
  unfold talk
  dsimp only
  split
  · exact allOwn_nil
  · split
    · split
      · exact allOwn_nil
      · exact talkNew_own hash closing t n hin htag
    · exact talkNew_own hash closing t n hin htag
    · rename_i s hf
      obtain ⟨hid, _⟩ := find_own hf
      exact allOwn_append (allOwn_cons hid allOwn_nil)
        (talkWith_own hash closing _ s true t n hid hin (by rw [hid]; exact htag))

/-! ### frame: occupied slots stay with their device; table invariant -/

/-- every occupied slot of `t` is still occupied in `t'` by a Session of the same device. -/
def Keeps (t t' : Tbl) : Prop := ∀ k s, t.get k = some s → ∃ s', t'.get k = some s' ∧ s'.id = s.id

theorem Keeps.refl (t : Tbl) : Keeps t t := fun _ s h => ⟨s, h, rfl⟩

theorem Keeps.trans {a b c : Tbl} (h1 : Keeps a b) (h2 : Keeps b c) : Keeps a c := by
  intro k s h
  obtain ⟨s1, g1, e1⟩ := h1 k s h
  obtain ⟨s2, g2, e2⟩ := h2 k s1 g1
  exact ⟨s2, g2, e2.trans e1⟩

theorem keeps_set_same {t : Tbl} {i : Nat} {s s' : Sess} (h : t.get i = some s) (hid : s'.id = s.id) :
    Keeps t (t.set i s') := by
  intro k x hx
  rw [Tbl.get_set]
  by_cases hk : k = i
  · subst hk; rw [h] at hx; cases hx; exact ⟨s', by simp, hid⟩
  · exact ⟨x, by simp [hk, hx], rfl⟩

theorem keeps_set_absent {t : Tbl} {i : Nat} {s' : Sess} (h : t.get i = none) : Keeps t (t.set i s') := by
  intro k x hx
  rw [Tbl.get_set]
  by_cases hk : k = i
  · subst hk; rw [h] at hx; cases hx
  · exact ⟨x, by simp [hk, hx], rfl⟩

/-- the keys of the table are the hashes of the (non-empty) IDs stored under them. -/
def Inv (hash : ID → Nat) (t : Tbl) : Prop := ∀ k s, t.get k = some s → hash s.id = k ∧ idEmpty s.id = false

theorem inv_nil (hash : ID → Nat) : Inv hash [] := by intro k s h; cases h

theorem inv_set {hash : ID → Nat} {t : Tbl} {k : Nat} {s : Sess} (h : Inv hash t) (hk : hash s.id = k)
    (he : idEmpty s.id = false) : Inv hash (t.set k s) := by
  intro k' s' hs
  rw [Tbl.get_set] at hs
  by_cases e : k' = k
  · subst e; simp at hs; subst hs; exact ⟨hk, he⟩
  · simp [e] at hs; exact h k' s' hs

theorem inv_del {hash : ID → Nat} {t : Tbl} {k : Nat} (h : Inv hash t) : Inv hash (t.del k) := by
  intro k' s' hs
  rw [Tbl.get_del] at hs
  by_cases e : k' = k
  · simp [e] at hs
  · simp [e] at hs; exact h k' s' hs

/-- talkSub: frame + invariant -/
theorem talkSub_keeps (hash : ID → Nat) (closing : Bool) (t : Tbl) (n : Sub) (o : Bool) :
    Keeps t (talkSub hash closing t n o).1 ∧ (Inv hash t → Inv hash (talkSub hash closing t n o).1) := by
  unfold talkSub
  split
  · exact ⟨Keeps.refl t, id⟩
  · rename_i hne
    have hemp : idEmpty n.dev = false := by
      cases h : idEmpty n.dev <;> simp_all
    split
    · split <;> exact ⟨Keeps.refl t, id⟩
    · rename_i hf
      have habs := find_absent hf
      split
      · exact ⟨Keeps.refl t, id⟩
      · split
        · exact ⟨Keeps.refl t, id⟩
        · dsimp only
          have hs := newSess_id n
          repeat' split
          all_goals refine ⟨keeps_set_absent habs, fun hi => inv_set hi ?_ ?_⟩
          all_goals simp [hs, hemp]
    · rename_i s hf
      obtain ⟨hid, hget⟩ := find_own hf
      dsimp only
      repeat' split
      all_goals first
        | exact ⟨Keeps.refl t, id⟩
        | (refine ⟨keeps_set_same hget rfl, fun hi => inv_set hi ?_ ?_⟩ <;> simp [hid, hemp])

def KI (hash : ID → Nat) (t t' : Tbl) : Prop := Keeps t t' ∧ (Inv hash t → Inv hash t')

theorem KI.refl (hash : ID → Nat) (t : Tbl) : KI hash t t := ⟨Keeps.refl t, id⟩
theorem KI.trans {hash : ID → Nat} {a b c : Tbl} (h1 : KI hash a b) (h2 : KI hash b c) : KI hash a c :=
  ⟨h1.1.trans h2.1, fun h => h2.2 (h1.2 h)⟩

theorem resolveLoop_ki (hash : ID → Nat) (host : ID) (idx : Nat) (tags : List Nat) (t : Tbl) (c : Conn) :
    KI hash t (resolveLoop host idx tags t c).1 := by
  induction tags generalizing idx t c with
  | nil => unfold resolveLoop; exact KI.refl hash t
  | cons tag rest ih =>
    unfold resolveLoop
    split
    · exact KI.refl hash t
    · split
      · exact KI.refl hash t
      · split
        · exact ih _ _ _
        · split
          · exact ih _ _ _
          · rename_i v hv
            split
            · exact ih _ _ _
            · dsimp only
              split
              · exact ih _ _ _
              · have h1 : KI hash t (t.set tag v.kept) :=
                  ⟨keeps_set_same hv rfl, fun hi => inv_set hi (hi tag v hv).1 (hi tag v hv).2⟩
                exact h1.trans (ih _ _ _)

theorem multiLoop_ki (hash : ID → Nat) (closing : Bool) (x : Nat) (vs : List Sub) (hs : Sess) (t : Tbl) :
    KI hash t (multiLoop hash closing x vs hs t).1 ∧ (multiLoop hash closing x vs hs t).2.1.id = hs.id := by
  induction x generalizing vs hs t with
  | zero => unfold multiLoop; exact ⟨KI.refl hash t, rfl⟩
  | succ x ih =>
    cases vs with
    | nil => unfold multiLoop; exact ⟨KI.refl hash t, rfl⟩
    | cons v vs =>
      unfold multiLoop
      split
      · exact ⟨KI.refl hash t, rfl⟩
      · split
        · exact ih vs hs t
        · split
          · dsimp only; exact ih vs hs t
          · split
            · dsimp only; exact ih vs _ t
            · have hts := talkSub_keeps hash closing t v false
              split
              · rename_i t1 e z heq; rw [heq] at hts; exact ⟨hts, rfl⟩
              · rename_i t1 e so heq; rw [heq] at hts
                dsimp only
                exact ⟨KI.trans hts (ih vs hs t1).1, (ih vs hs t1).2⟩

theorem process_ki (hash : ID → Nat) (closing : Bool) (hs : Sess) (t : Tbl) (n : Pkt) (c : Conn) :
    KI hash t (process hash closing hs t n c).1 ∧ (process hash closing hs t n c).2.1.id = hs.id := by
  unfold process
  split
  · dsimp only
    split
    · exact ⟨KI.refl hash t, rfl⟩
    · have := multiLoop_ki hash closing (flagLen n.hd.flags) n.subs hs t
      split <;> (rename_i heq; rw [heq] at this; exact this)
  · dsimp only
    split <;> exact ⟨KI.refl hash t, rfl⟩

theorem talkWith_ki (hash : ID → Nat) (closing : Bool) (i : Nat) (s s0 : Sess) (ok : Bool) (t : Tbl) (n : Pkt)
    (hslot : t.get i = some s0) (hid0 : s0.id = s.id) (hi : hash s.id = i) (he : idEmpty s.id = false) :
    KI hash t (talkWith hash closing i s ok t n).1 := by
  unfold talkWith
  have hr : KI hash t (if n.tags.isEmpty then ((t, [], .ok { add := [], subs := [] }) : Tbl × List Ev × Except Err Conn)
         else resolveLoop s.id 0 n.tags t { add := [], subs := [] }).1 := by
    split
    · exact KI.refl hash t
    · exact resolveLoop_ki _ _ _ _ _ _
  split
  · rename_i t1 e1 z heq; rw [heq] at hr; exact hr
  · rename_i t1 e1 c heq; rw [heq] at hr
    have hp := process_ki hash closing s t1 n c
    dsimp only
    have fin : ∀ (t2 : Tbl) (s' : Sess), KI hash t1 t2 → s'.id = s.id → KI hash t (t2.set i s') := by
      intro t2 s' h12 hs'
      have h02 := hr.trans h12
      obtain ⟨x, hx, hxid⟩ := h02.1 i s0 hslot
      exact h02.trans ⟨keeps_set_same hx (by rw [hs', hxid, hid0]), fun hinv => inv_set hinv (by rw [hs', hi]) (by rw [hs', he])⟩
    split <;> (rename_i heq2; rw [heq2] at hp; exact fin _ _ hp.1 hp.2)

theorem talkNew_nonhello (hash : ID → Nat) (closing : Bool) (t : Tbl) (n : Pkt) (h : (n.hd.pid == svHello) = false) :
    talkNew hash closing t n =
      (t, [], .ok { ok := false, host := none, next := [registerReply n.hd], subs := [] }) := by
  have hne : n.hd.pid ≠ svHello := by simpa using h
  unfold talkNew
  simp [h]
  intro hh; exact absurd hh hne

theorem talkNew_ki (hash : ID → Nat) (closing : Bool) (t : Tbl) (n : Pkt)
    (habs : t.get (hash n.hd.dev) = none) (he : idEmpty n.hd.dev = false) :
    KI hash t (talkNew hash closing t n).1 := by
  unfold talkNew
  dsimp only
  repeat' split
  all_goals first
    | exact KI.refl hash t
    | (have h1 : KI hash t (t.set (hash n.hd.dev) (newSess n.hd)) :=
         ⟨keeps_set_absent habs, fun hinv => inv_set hinv (by rw [newSess_id]) (by rw [newSess_id, he])⟩
       exact h1.trans (talkWith_ki hash closing _ (newSess n.hd) (newSess n.hd) false _ n (by simp [Tbl.get_set_same]) rfl
         (by rw [newSess_id]) (by rw [newSess_id, he])))

theorem talk_ki (hash : ID → Nat) (closing : Bool) (t : Tbl) (n : Pkt) : KI hash t (talk hash closing t n).1 := by
  unfold talk
  dsimp only
  split
  · exact KI.refl hash t
  · rename_i hne
    have hemp : idEmpty n.hd.dev = false := by
      cases h : idEmpty n.hd.dev <;> simp_all
    split
    · split
      · exact KI.refl hash t
      · rename_i hh
        rw [talkNew_nonhello hash closing t n (by simpa using hh)]
        exact KI.refl hash t
    · rename_i hf; exact talkNew_ki hash closing t n (find_absent hf) hemp
    · rename_i s hf
      obtain ⟨hid, hget⟩ := find_own hf
      exact talkWith_ki hash closing _ s s true t n hget rfl (by rw [hid]) (by rw [hid, hemp])

/-! ### lookup / remove / histories -/


theorem lookup_some {hash : ID → Nat} {t : Tbl} {i : ID} {s : Sess} (h : lookup hash t i = some s) :
    s.id = i ∧ t.get (hash i) = some s ∧ idEmpty i = false := by
  unfold lookup at h
  split at h
  · cases h
  · rename_i he
    split at h
    · rename_i s' hs
      split at h
      · cases h
      · rename_i hne
        cases h
        exact ⟨by simpa using hne, hs, by simpa using he⟩
    · cases h

theorem lookup_of_slot {hash : ID → Nat} {t : Tbl} {s : Sess} (hi : Inv hash t) {k : Nat}
    (h : t.get k = some s) : lookup hash t s.id = some s := by
  obtain ⟨hk, he⟩ := hi k s h
  unfold lookup
  simp [he, hk, h]

/-- `remove` of another device never frees or changes the slot of `a`. -/
theorem remove_keeps_other (hash : ID → Nat) (t : Tbl) (i a : ID) (s : Sess)
    (hs : t.get (hash a) = some s) (hid : s.id = a) (hne : i ≠ a) :
    (remove hash t i).get (hash a) = some s := by
  unfold remove
  split
  · rename_i x hx
    split
    · rename_i hxi
      rw [Tbl.get_del]
      by_cases hk : hash a = hash i
      · rw [hk, hx] at hs; cases hs; exact absurd (hxi.symm.trans hid) hne
      · simp [hk, hs]
    · exact hs
  · exact hs

theorem remove_inv {hash : ID → Nat} {t : Tbl} (i : ID) (h : Inv hash t) : Inv hash (remove hash t i) := by
  unfold remove
  repeat' split
  all_goals first | exact h | exact inv_del h

theorem remove_removes (hash : ID → Nat) (t : Tbl) (i : ID) : lookup hash (remove hash t i) i = none := by
  unfold remove
  split
  · rename_i x hx
    split
    · unfold lookup; simp [Tbl.get_del_same]
    · rename_i hne
      unfold lookup; split
      · rfl
      · simp [hx, hne]
  · rename_i hx
    unfold lookup; simp [hx]

theorem enqueue_ki (hash : ID → Nat) (t : Tbl) (i : ID) (l : Leaf) : KI hash t (enqueue hash t i l) := by
  unfold enqueue
  split
  · rename_i s hs
    split
    · rename_i hid
      exact ⟨keeps_set_same hs rfl, fun hinv => inv_set hinv (hinv _ s hs).1 (hinv _ s hs).2⟩
    · exact KI.refl hash t
  · exact KI.refl hash t

/-- an operation that is not `remove a` -/
def Op.notRemove (a : ID) : Op → Prop
  | .remove i => i ≠ a
  | _ => True

theorem step_inv {hash : ID → Nat} {t : Tbl} (op : Op) (h : Inv hash t) : Inv hash (step hash t op).1 := by
  cases op with
  | talk n => exact (talk_ki hash false t n).2 h
  | talkSub n o => exact (talkSub_keeps hash false t n o).2 h
  | lookup i => exact h
  | remove i => exact remove_inv i h
  | queue i l => exact (enqueue_ki hash t i l).2 h

theorem step_stays {hash : ID → Nat} {t : Tbl} {a : ID} {s : Sess} (op : Op) (hop : op.notRemove a)
    (hs : t.get (hash a) = some s) (hid : s.id = a) :
    ∃ s', (step hash t op).1.get (hash a) = some s' ∧ s'.id = a := by
  cases op with
  | talk n => obtain ⟨s', h1, h2⟩ := (talk_ki hash false t n).1 _ s hs; exact ⟨s', h1, h2.trans hid⟩
  | talkSub n o => obtain ⟨s', h1, h2⟩ := (talkSub_keeps hash false t n o).1 _ s hs; exact ⟨s', h1, h2.trans hid⟩
  | lookup i => exact ⟨s, hs, hid⟩
  | remove i => exact ⟨s, remove_keeps_other hash t i a s hs hid hop, hid⟩
  | queue i l => obtain ⟨s', h1, h2⟩ := (enqueue_ki hash t i l).1 _ s hs; exact ⟨s', h1, h2.trans hid⟩

theorem run_inv {hash : ID → Nat} (ops : List Op) {t : Tbl} (h : Inv hash t) : Inv hash (run hash t ops).1 := by
  induction ops generalizing t with
  | nil => exact h
  | cons op ops ih => unfold run; exact ih (step_inv op h)

theorem run_stays {hash : ID → Nat} (ops : List Op) {t : Tbl} {a : ID} {s : Sess}
    (hops : ∀ op ∈ ops, op.notRemove a) (hs : t.get (hash a) = some s) (hid : s.id = a) :
    ∃ s', (run hash t ops).1.get (hash a) = some s' ∧ s'.id = a := by
  induction ops generalizing t s with
  | nil => exact ⟨s, hs, hid⟩
  | cons op ops ih =>
    obtain ⟨s1, h1, hid1⟩ := step_stays op (hops op (by simp)) hs hid
    unfold run
    exact ih (fun o ho => hops o (by simp [ho])) h1 hid1

/-- packets of a history that the partial theorem covers -/
def Op.ok : Op → Bool
  | .talk n => InnerOK n
  | _ => true

theorem step_own (hash : ID → Nat) (t : Tbl) (op : Op) (h : op.ok = true) : AllOwn (step hash t op).2 := by
  cases op with
  | talk n => exact talk_own hash false t n h (tagsOK_true _ _ _)
  | talkSub n o => exact talkSub_own hash false t n o
  | lookup i => exact allOwn_nil
  | remove i => exact allOwn_nil
  | queue i l => exact allOwn_nil

theorem run_own (hash : ID → Nat) (ops : List Op) (t : Tbl) (h : ∀ op ∈ ops, op.ok = true) :
    AllOwn (run hash t ops).2 := by
  induction ops generalizing t with
  | nil => exact allOwn_nil
  | cons op ops ih =>
    unfold run
    exact allOwn_append (step_own hash t op (h op (by simp))) (ih _ (fun o ho => h o (by simp [ho])))

/-! ### unknown device -/

theorem talk_unknown (hash : ID → Nat) (t : Tbl) (n : Pkt)
    (hun : ∀ k s, t.get k = some s → s.id ≠ n.hd.dev) (he : idEmpty n.hd.dev = false)
    (hh : (n.hd.pid == svHello) = false) :
    talk hash false t n =
      (t, [], .ok { ok := false, host := none, next := [registerReply n.hd], subs := [] }) := by
  unfold talk
  dsimp only
  simp only [he, Bool.or_self, Bool.false_eq_true, ↓reduceIte]
  split
  · simp [hh]; exact talkNew_nonhello hash false t n hh
  · exact talkNew_nonhello hash false t n hh
  · rename_i s hf
    obtain ⟨hid, hget⟩ := find_own hf
    exact absurd hid (hun _ s hget)

theorem talk_collide_hello (hash : ID → Nat) (t : Tbl) (n : Pkt) (s : Sess)
    (hs : t.get (hash n.hd.dev) = some s) (hne : s.id ≠ n.hd.dev) (he : idEmpty n.hd.dev = false)
    (hh : (n.hd.pid == svHello) = true) :
    talk hash false t n = (t, [], .error .malformed) := by
  have hf : find hash t n.hd.dev = .collide := by
    unfold find; simp [hs, hne]
  unfold talk
  dsimp only
  simp only [he, Bool.or_self, Bool.false_eq_true, ↓reduceIte, hf, hh]

end XMT.Route
