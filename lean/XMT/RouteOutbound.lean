/-
  XMT.RouteOutbound — helper lemmas for the outbound part of Props/C15.lean: which device IDs the
  packets placed into a connection's reply can name.
-/
import XMT.RouteLemmas
namespace XMT.Route
open XMT

/-- what is queued on a Session names that Session -/
def SQ (s : Sess) : Prop := ∀ l ∈ s.q, l.dev = s.id

/-- … for every Session of the table -/
def QOK (t : Tbl) : Prop := ∀ k s, t.get k = some s → SQ s

theorem qok_nil : QOK [] := by intro k s h; cases h

theorem qok_set {t : Tbl} {k : Nat} {s : Sess} (h : QOK t) (hs : SQ s) : QOK (t.set k s) := by
  intro k' s' hs'
  rw [Tbl.get_set] at hs'
  by_cases e : k' = k
  · simp [e] at hs'; subst hs'; exact hs
  · simp [e] at hs'; exact h k' s' hs'

theorem qok_del {t : Tbl} {k : Nat} (h : QOK t) : QOK (t.del k) := by
  intro k' s' hs'
  rw [Tbl.get_del] at hs'
  by_cases e : k' = k
  · simp [e] at hs'
  · simp [e] at hs'; exact h k' s' hs'

theorem sq_empty (s : Sess) : SQ { s with q := [] } := by intro l hl; cases hl

theorem takeOwn_fst_sub {q : List Leaf} {l : Leaf} (h : l ∈ (takeOwn q).1) : l ∈ q := by
  cases q with
  | nil => simp [takeOwn] at h
  | cons a as =>
    by_cases hc : a.crypt = true
    · simp only [takeOwn, hc, if_true, List.mem_singleton] at h
      subst h; exact List.mem_cons_self
    · simp only [takeOwn, hc] at h
      rcases List.mem_cons.mp h with h | h
      · subst h; exact List.mem_cons_self
      · exact List.mem_cons_of_mem _ ((List.takeWhile_sublist _).subset h)

theorem takeOwn_snd_sub {q : List Leaf} {l : Leaf} (h : l ∈ (takeOwn q).2) : l ∈ q := by
  cases q with
  | nil => simp [takeOwn] at h
  | cons a as =>
    by_cases hc : a.crypt = true
    · simp only [takeOwn, hc, if_true] at h
      exact List.mem_cons_of_mem _ h
    · simp only [takeOwn, hc] at h
      exact List.mem_cons_of_mem _ ((List.dropWhile_sublist _).subset h)

theorem sq_kept (s : Sess) (hs : SQ s) : SQ s.kept := by
  intro l hl
  exact hs l (takeOwn_snd_sub hl)

theorem sq_newSess (n : Sub) : SQ (newSess n) := by
  unfold newSess
  split
  · intro l hl; cases hl
  · intro l hl; simp at hl; subst hl; rfl

theorem nextAll_dev (s : Sess) (hs : SQ s) : ∀ l ∈ nextAll s, l.dev = s.id := by
  unfold nextAll
  split
  · intro l hl; simp at hl; subst hl; rfl
  · intro l hl; exact hs l (takeOwn_fst_sub hl)

variable {P : ID → Prop}

/-- talkSub: the returned packets name the sender; QOK is preserved. -/
theorem talkSub_out (hash : ID → Nat) (closing : Bool) (t : Tbl) (n : Sub) (o : Bool) (hq : QOK t) :
    QOK (talkSub hash closing t n o).1 ∧
    ∀ so, (talkSub hash closing t n o).2.2 = .ok so → ∀ l ∈ so.reply, l.dev = n.dev := by
  unfold talkSub
  split
  · exact ⟨hq, fun so h => by cases h⟩
  · split
    · split
      · exact ⟨hq, fun so h => by cases h⟩
      · refine ⟨hq, fun so h => ?_⟩
        cases h; intro l hl; simp at hl; subst hl; rfl
    · split
      · refine ⟨hq, fun so h => ?_⟩
        cases h; intro l hl; simp at hl; subst hl; rfl
      · split
        · exact ⟨hq, fun so h => by cases h⟩
        · dsimp only
          have hn := sq_newSess n
          have hid := newSess_id n
          repeat' split
          all_goals first
            | (refine ⟨qok_set hq hn, fun so h => ?_⟩; cases h; done)
            | (refine ⟨qok_set hq hn, fun so h => ?_⟩; cases h; intro l hl; simp at hl; done)
            | (refine ⟨qok_set hq (sq_kept _ hn), fun so h => ?_⟩; cases h; intro l hl; rw [hn l (takeOwn_fst_sub hl), hid])
    · rename_i s hf
      obtain ⟨hid, hget⟩ := find_own hf
      have hs := hq _ s hget
      dsimp only
      repeat' split
      all_goals first
        | (refine ⟨hq, fun so h => ?_⟩; cases h; done)
        | (refine ⟨hq, fun so h => ?_⟩; cases h; intro l hl; simp at hl; done)
        | (refine ⟨qok_set hq (sq_kept _ hs), fun so h => ?_⟩; cases h; intro l hl; rw [hs l (takeOwn_fst_sub hl), hid])

/-- processMultiple: the packed leaves name the host or the sender of an element. -/
theorem multiLoop_out (hash : ID → Nat) (closing : Bool) (x : Nat) (vs : List Sub) (hs : Sess) (t : Tbl)
    (hq : QOK t) (hsq : SQ hs) (hP : P hs.id) (hvs : ∀ v ∈ vs, P v.dev) :
    QOK (multiLoop hash closing x vs hs t).1 ∧ SQ (multiLoop hash closing x vs hs t).2.1 ∧
    ∀ l k, (multiLoop hash closing x vs hs t).2.2.2 = .ok (l, k) → ∀ y ∈ l, P y.dev := by
  induction x generalizing vs hs t with
  | zero =>
    unfold multiLoop
    exact ⟨hq, hsq, fun l k h => by cases h; intro y hy; cases hy⟩
  | succ x ih =>
    cases vs with
    | nil => unfold multiLoop; exact ⟨hq, hsq, fun l k h => by cases h⟩
    | cons v vs =>
      have hvs' : ∀ w ∈ vs, P w.dev := fun w hw => hvs w (by simp [hw])
      unfold multiLoop
      split
      · exact ⟨hq, hsq, fun l k h => by cases h⟩
      · split
        · exact ih vs hs t hq hsq hP hvs'
        · split
          · dsimp only; exact ih vs hs t hq hsq hP hvs'
          · split
            · dsimp only
              obtain ⟨h1, h2, h3⟩ := ih vs hs.kept t hq (sq_kept hs hsq) hP hvs'
              refine ⟨h1, h2, fun l k h => ?_⟩
              split at h
              · rename_i l' k' heq
                simp only [Except.ok.injEq, Prod.mk.injEq] at h
                obtain ⟨hl, _⟩ := h
                subst hl
                intro y hy
                rcases List.mem_append.mp hy with hy | hy
                · rw [nextAll_dev hs hsq y hy]; exact hP
                · exact h3 l' k' heq y hy
              · cases h
            · have hts := talkSub_out hash closing t v false hq
              split
              · rename_i t1 e z heq; rw [heq] at hts
                exact ⟨hts.1, hsq, fun l k h => by cases h⟩
              · rename_i t1 e so heq; rw [heq] at hts
                dsimp only
                obtain ⟨h1, h2, h3⟩ := ih vs hs t1 hts.1 hsq hP hvs'
                refine ⟨h1, h2, fun l k h => ?_⟩
                split at h
                · rename_i l' k' heq'
                  simp only [Except.ok.injEq, Prod.mk.injEq] at h
                  obtain ⟨hl, _⟩ := h
                  subst hl
                  intro y hy
                  rcases List.mem_append.mp hy with hy | hy
                  · rw [hts.2 so rfl y hy]; exact hvs v (by simp)
                  · exact h3 l' k' heq' y hy
                · cases h

/-- conn.resolve: what is added to the connection names a device that satisfies `tagP`. -/
theorem resolveLoop_out {tagP : ID → Prop} (host : ID) (idx : Nat) (tags : List Nat) (t : Tbl) (c : Conn)
    (hq : QOK t) (h : TagsOK tagP t tags host) (hc : ∀ y ∈ c.add, tagP y.dev) :
    QOK (resolveLoop host idx tags t c).1 ∧
    ∀ c', (resolveLoop host idx tags t c).2.2 = .ok c' → ∀ y ∈ c'.add, tagP y.dev := by
  induction tags generalizing idx t c with
  | nil => unfold resolveLoop; exact ⟨hq, fun c' h => by cases h; exact hc⟩
  | cons tag rest ih =>
    have hrest : TagsOK tagP t rest host := fun g hg => h g (by simp [hg])
    unfold resolveLoop
    split
    · exact ⟨hq, fun c' h => by cases h⟩
    · split
      · exact ⟨hq, fun c' h => by cases h; exact hc⟩
      · split
        · exact ih _ _ _ hq hrest hc
        · split
          · exact ih _ _ _ hq hrest hc
          · rename_i v hv
            split
            · exact ih _ _ _ hq hrest hc
            · rename_i hnh
              have hal : tagP v.id := by
                rcases h tag (by simp) v hv with h1 | h1
                · simp [h1] at hnh
                · exact h1
              dsimp only
              split
              · exact ih _ _ _ hq hrest hc
              · refine ih _ _ _ (qok_set hq (sq_kept v (hq _ v hv))) (tagsOK_set (v' := v.kept) hrest hv rfl) ?_
                intro y hy
                rcases List.mem_append.mp hy with hy | hy
                · exact hc y hy
                · rw [hq _ v hv y (takeOwn_fst_sub hy)]; exact hal

theorem process_out (hash : ID → Nat) (closing : Bool) (hs : Sess) (t : Tbl) (n : Pkt) (c : Conn)
    (hq : QOK t) (hsq : SQ hs) (hP : P hs.id) (hvs : ∀ v ∈ n.subs, P v.dev) (hc : ∀ y ∈ c.add, P y.dev) :
    QOK (process hash closing hs t n c).1 ∧ SQ (process hash closing hs t n c).2.1 ∧
    ∀ l k, (process hash closing hs t n c).2.2.2 = .ok (l, k) → ∀ y ∈ l, P y.dev := by
  unfold process
  split
  · dsimp only
    split
    · exact ⟨hq, hsq, fun l k h => by cases h⟩
    · obtain ⟨h1, h2, h3⟩ := multiLoop_out (P := P) hash closing (flagLen n.hd.flags) n.subs hs t hq hsq hP hvs
      split
      · rename_i t' hs' e z heq; rw [heq] at h1 h2
        exact ⟨h1, h2, fun l k h => by cases h⟩
      · rename_i t' hs' e l' k' heq; rw [heq] at h1 h2 h3
        refine ⟨h1, h2, fun l k h => ?_⟩
        cases h
        split
        · intro y hy; simp at hy; subst hy; exact hP
        · intro y hy
          rcases List.mem_append.mp hy with hy | hy
          · exact h3 l' k' rfl y hy
          · exact hc y hy
  · dsimp only
    split
    · exact ⟨hq, hsq, fun l k h => by cases h⟩
    · refine ⟨hq, sq_kept hs hsq, fun l k h => ?_⟩
      cases h
      intro y hy
      rcases List.mem_append.mp hy with hy | hy
      · rw [nextAll_dev hs hsq y hy]; exact hP
      · exact hc y hy

theorem talkWith_out {tagP : ID → Prop} (hash : ID → Nat) (closing : Bool) (i : Nat) (s : Sess) (ok : Bool)
    (t : Tbl) (n : Pkt) (hq : QOK t) (hsq : SQ s) (htag : TagsOK tagP t n.tags s.id)
    (hP : P s.id) (hvs : ∀ v ∈ n.subs, P v.dev) (htp : ∀ d, tagP d → P d) :
    QOK (talkWith hash closing i s ok t n).1 ∧
    ∀ r, (talkWith hash closing i s ok t n).2.2 = .ok r → ∀ y ∈ r.next, P y.dev := by
  unfold talkWith
  have hr : QOK (if n.tags.isEmpty then ((t, [], .ok { add := [], subs := [] }) : Tbl × List Ev × Except Err Conn)
         else resolveLoop s.id 0 n.tags t { add := [], subs := [] }).1 ∧
      ∀ c', (if n.tags.isEmpty then ((t, [], .ok { add := [], subs := [] }) : Tbl × List Ev × Except Err Conn)
         else resolveLoop s.id 0 n.tags t { add := [], subs := [] }).2.2 = .ok c' → ∀ y ∈ c'.add, tagP y.dev := by
    split
    · exact ⟨hq, fun c' h => by cases h; intro y hy; cases hy⟩
    · exact resolveLoop_out _ _ _ _ _ hq htag (by intro y hy; cases hy)
  split
  · rename_i t1 e1 z heq; rw [heq] at hr
    exact ⟨hr.1, fun r h => by cases h⟩
  · rename_i t1 e1 c heq; rw [heq] at hr
    obtain ⟨h1, h2, h3⟩ := process_out (P := P) hash closing s t1 n c hr.1 hsq hP hvs
      (fun y hy => htp _ (hr.2 c rfl y hy))
    dsimp only
    split
    · rename_i t2 s' e2 z heq2; rw [heq2] at h1 h2
      exact ⟨qok_set h1 h2, fun r h => by cases h⟩
    · rename_i t2 s' e2 l k heq2; rw [heq2] at h1 h2 h3
      refine ⟨qok_set h1 h2, fun r h => ?_⟩
      cases h
      exact h3 l k rfl

theorem talkNew_out {tagP : ID → Prop} (hash : ID → Nat) (closing : Bool) (t : Tbl) (n : Pkt) (hq : QOK t)
    (htag : TagsOK tagP t n.tags n.hd.dev)
    (hP : P n.hd.dev) (hvs : ∀ v ∈ n.subs, P v.dev) (htp : ∀ d, tagP d → P d) :
    QOK (talkNew hash closing t n).1 ∧
    ∀ r, (talkNew hash closing t n).2.2 = .ok r → ∀ y ∈ r.next, P y.dev := by
  unfold talkNew
  dsimp only
  split
  · exact ⟨hq, fun r h => by cases h⟩
  · split
    · refine ⟨hq, fun r h => ?_⟩
      cases h; intro y hy; simp at hy; subst hy; exact hP
    · split
      · exact ⟨hq, fun r h => by cases h⟩
      · exact talkWith_out (P := P) hash closing _ (newSess n.hd) false _ n (qok_set hq (sq_newSess _)) (sq_newSess _)
          (tagsOK_set_host (by rw [newSess_id]; exact htag) rfl) (by rw [newSess_id]; exact hP) hvs htp

theorem talk_out {tagP : ID → Prop} (hash : ID → Nat) (closing : Bool) (t : Tbl) (n : Pkt) (hq : QOK t)
    (htag : TagsOK tagP t n.tags n.hd.dev)
    (hP : P n.hd.dev) (hvs : ∀ v ∈ n.subs, P v.dev) (htp : ∀ d, tagP d → P d) :
    QOK (talk hash closing t n).1 ∧
    ∀ r, (talk hash closing t n).2.2 = .ok r → ∀ y ∈ r.next, P y.dev := by
  unfold talk
  dsimp only
  split
  · exact ⟨hq, fun r h => by cases h⟩
  · split
    · split
      · exact ⟨hq, fun r h => by cases h⟩
      · exact talkNew_out hash closing t n hq htag hP hvs htp
    · exact talkNew_out hash closing t n hq htag hP hvs htp
    · rename_i s hf
      obtain ⟨hid, hget⟩ := find_own hf
      exact talkWith_out (P := P) hash closing _ s true t n hq (hq _ s hget) (by rw [hid]; exact htag)
        (by rw [hid]; exact hP) hvs htp

theorem talk_outbound (hash : ID → Nat) (closing : Bool) (t : Tbl) (n : Pkt) (allowed : List ID)
    (hq : QOK t) (htag : TagsOK (· ∈ allowed) t n.tags n.hd.dev) (r : Reply)
    (h : (talk hash closing t n).2.2 = .ok r) :
    ∀ l ∈ r.next, l.dev = n.hd.dev ∨ l.dev ∈ n.subs.map (·.dev) ∨ l.dev ∈ allowed :=
  (talk_out (P := fun d => d = n.hd.dev ∨ d ∈ n.subs.map (·.dev) ∨ d ∈ allowed) hash closing t n hq htag
    (Or.inl rfl) (fun v hv => Or.inr (Or.inl (List.mem_map.mpr ⟨v, hv, rfl⟩)))
    (fun d hd => Or.inr (Or.inr hd))).2 r h

/-! QOK over histories -/

/-- a `queue` operation queues a packet that names the Session's device (what `Session.queue` /
`verifyPacket` enforce on the real Session). -/
def Op.queuesOwn : Op → Bool
  | .queue i l => l.dev == i
  | _ => true

theorem step_qok (hash : ID → Nat) (t : Tbl) (op : Op) (hop : op.queuesOwn = true) (hq : QOK t) :
    QOK (step hash t op).1 := by
  cases op with
  | talk n =>
    exact (talk_out (P := fun _ => True) (tagP := fun _ => True) hash false t n hq (tagsOK_true _ _ _) trivial
      (fun _ _ => trivial) (fun _ _ => trivial)).1
  | talkSub n o => exact (talkSub_out hash false t n o hq).1
  | lookup i => exact hq
  | remove i =>
    show QOK (remove hash t i)
    unfold remove
    repeat' split
    all_goals first | exact hq | exact qok_del hq
  | queue i l =>
    show QOK (enqueue hash t i l)
    have hl : l.dev = i := by simpa [Op.queuesOwn] using hop
    unfold enqueue
    split
    · rename_i s hs
      split
      · rename_i hid
        refine qok_set hq ?_
        intro y hy
        simp at hy
        rcases hy with hy | hy
        · exact hq _ s hs y hy
        · subst hy; rw [hl, hid]
      · exact hq
    · exact hq

theorem run_qok (hash : ID → Nat) (ops : List Op) {t : Tbl} (hops : ∀ op ∈ ops, op.queuesOwn = true)
    (hq : QOK t) : QOK (run hash t ops).1 := by
  induction ops generalizing t with
  | nil => exact hq
  | cons op ops ih =>
    unfold run
    exact ih (fun o ho => hops o (by simp [ho])) (step_qok hash t op (hops op (by simp)) hq)

end XMT.Route
