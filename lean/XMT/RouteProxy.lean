/-
  XMT.RouteProxy — the proxy half of the routing model (property C15): c2/proxy.go
  Proxy.accept, Proxy.talk, Proxy.talkSub, proxyClient.next and the branch of receive()
  (c2/vars.go) that hands a packet which does not name the parent Session to Proxy.accept.
  After the `fix:` commit that adds the full-ID comparison to the three hash look-ups.

  Modelled for single packets (no tags, no multi-device batch: those run through the same
  conn.resolve / conn.processMultiple code that XMT/Route.lean models for the Listener).
-/
import XMT.Route
namespace XMT.Route.Proxy
open XMT XMT.Route

/-- a proxied client: its device ID and its send queue. -/
structure Client where
  id : ID
  q : List Leaf
deriving DecidableEq, Repr, Inhabited

/-- `Proxy.clients  map[uint32]*proxyClient` -/
abbrev PTbl := List (Nat × Client)

def PTbl.get (t : PTbl) (h : Nat) : Option Client :=
  match t with
  | [] => none
  | (k, s) :: r => if k = h then some s else PTbl.get r h

def PTbl.del (t : PTbl) (h : Nat) : PTbl := t.filter (fun e => e.1 != h)
def PTbl.set (t : PTbl) (h : Nat) (s : Client) : PTbl := (h, s) :: PTbl.del t h

inductive PEv
  /-- `c.state.Set(stateSeen)` on client `cid` while handling a packet naming `pdev` -/
  | seen (cid pdev : ID)
  /-- a new proxyClient `cid` was created and stored for a hello packet naming `pdev` -/
  | reg (cid pdev : ID)
  /-- `p.parent.write(true, n)`: the packet is forwarded upstream -/
  | fwd (pdev : ID) (pid job : Nat)
  /-- `Proxy.accept`: `c.queue(n)` — a packet naming `pdev` is queued for client `cid` -/
  | queued (cid pdev : ID) (pid job : Nat)
  /-- `p.close <- i`: removal of client `cid` requested by a packet naming `pdev` -/
  | closeReq (cid pdev : ID)
  /-- the packet names the parent Session itself and is handled by it -/
  | parentRecv (parent pdev : ID) (pid job : Nat)
deriving DecidableEq, Repr

inductive PFound
  | own (c : Client)
  | absent
  | collide

def find (hash : ID → Nat) (t : PTbl) (d : ID) : PFound :=
  match t.get (hash d) with
  | none => .absent
  | some c => if c.id != d then .collide else .own c

/-- `Proxy.accept(n)` -/
def accept (hash : ID → Nat) (t : PTbl) (n : Sub) : PTbl × List PEv × Bool :=
  if t.isEmpty then (t, [], false)
  else match find hash t n.dev with
    | .absent => (t, [], false)
    | .collide => (t, [], false)          -- fix: `!ok || c.ID != n.Device`
    | .own c =>
      if nop n then (t, [], true)
      else (t.set (hash n.dev) { c with q := c.q ++ [{ dev := n.dev, pid := n.pid, job := n.job, crypt := hasFlag n.flags flagCrypt }] },
            [.queued c.id n.dev n.pid n.job], true)

/-- `receive(parent, nil, n)` on the client that runs the proxy (routing part only). -/
def receiveDown (hash : ID → Nat) (parent : ID) (t : PTbl) (n : Sub) : PTbl × List PEv × Except Err Unit :=
  if idEmpty n.dev || nop n then (t, [], .ok ())
  else if !(hasFlag n.flags flagMultiDevice) && parent != n.dev then
    match accept hash t n with
    | (t', e, true) => (t', e, .ok ())
    | (t', e, false) => (t', e, .error .mismatch)
  else if n.pid == svComplete && !(hasFlag n.flags flagCrypt) then (t, [], .ok ())
  else if hasFlag n.flags flagMulti then
    (t, [], if flagLen n.flags == 0 then .error .count else .error .unmarshal)
  else if hasFlag n.flags flagFrag then (t, [], .error .unmodelled)
  else (t, [.parentRecv parent n.dev n.pid n.job], .ok ())

/-- what one `proxyClient.next` call takes from a non-empty queue: `nextPacket` packs the first
packet whatever it is and stops in front of a later one that carries key material -/
def takeClient : List Leaf → List Leaf × List Leaf
  | [] => ([], [])
  | l :: ls => (l :: ls.takeWhile (fun x => !x.crypt), ls.dropWhile (fun x => !x.crypt))

/-- `proxyClient.next(false)` -/
def nextAll (c : Client) : List Leaf :=
  if c.q.isEmpty then [{ dev := c.id, pid := 0, job := 0 }] else (takeClient c.q).1

/-- the client after that call -/
def Client.kept (c : Client) : Client := { c with q := (takeClient c.q).2 }

@[simp] theorem Client.kept_id (c : Client) : c.kept.id = c.id := rfl

/-- everything `Proxy.talk` does after the look-up, for the client `c` of the sender (`ok`: it
existed before); `h` is the packet header with `FlagProxy` set, `i` the slot. -/
def talkCont (i : Nat) (h : Sub) (t : PTbl) (c : Client) (ok : Bool) (ev : List PEv) :
    PTbl × List PEv × Except Err Reply :=
  let ev := ev ++ [.seen c.id h.dev]
  if h.pid == svShutdown then
    (t, ev ++ [.closeReq c.id h.dev, .fwd h.dev h.pid h.job],
      .ok { ok := false, host := none, next := [{ dev := h.dev, pid := svShutdown, job := h.job }], subs := [] })
  else
    -- processSingle: Proxy.notify forwards everything that is not a keep-alive
    (t.set i c.kept, ev ++ (if nop h then [] else [.fwd h.dev h.pid h.job]),
      .ok { ok := ok, host := some c.id, next := nextAll c, subs := [] })

/-- `Proxy.talk(a, n)` for a packet without tags that is not a multi-device batch. -/
def talk (hash : ID → Nat) (closing : Bool) (t : PTbl) (n : Pkt) : PTbl × List PEv × Except Err Reply :=
  if idEmpty n.hd.dev || closing then (t, [], .error .short) else
  if !n.tags.isEmpty || hasFlag n.hd.flags flagMultiDevice then (t, [], .error .unmodelled) else
  -- n.Flags |= FlagProxy
  let h : Sub := { n.hd with flags := n.hd.flags ||| flagProxy }
  let i := hash h.dev
  let reg : Except Err Reply := .ok { ok := false, host := none, next := [registerReply h], subs := [] }
  match find hash t h.dev with
  | .collide => if h.pid == svHello then (t, [], .error .malformed) else (t, [], reg)
  | .absent =>
    if h.pid != svHello then (t, [], reg)
    else
      let c : Client := { id := h.dev, q := [{ dev := h.dev, pid := svComplete, job := h.job, crypt := true }] }
      talkCont i h (t.set i c) c false [.reg c.id h.dev, .fwd h.dev h.pid h.job]
  | .own c => talkCont i h t c true []

/-- everything `Proxy.talkSub` does after the look-up. -/
def talkSubCont (i : Nat) (n : Sub) (o : Bool) (t : PTbl) (c : Client) (ev : List PEv) :
    PTbl × List PEv × Except Err SubOut :=
  let ev := ev ++ [.seen c.id n.dev]
  if nop n then
    let ev := ev ++ [.fwd n.dev n.pid n.job]
    if o then (t, ev, .ok { host := some c.id, key := i, reply := [] })
    else (t.set i c.kept, ev, .ok { host := some c.id, key := i, reply := (takeClient c.q).1 })
  else if n.pid == svShutdown then
    (t, ev ++ [.closeReq c.id n.dev, .fwd n.dev n.pid n.job],
      .ok { host := none, key := 0, reply := [{ dev := n.dev, pid := svShutdown, job := n.job }] })
  else if o then (t, ev, .ok { host := some c.id, key := i, reply := [] })
  else (t.set i c.kept, ev, .ok { host := some c.id, key := i, reply := (takeClient c.q).1 })

/-- `Proxy.talkSub(a, n, o)` -/
def talkSub (hash : ID → Nat) (closing : Bool) (t : PTbl) (n : Sub) (o : Bool) :
    PTbl × List PEv × Except Err SubOut :=
  if idEmpty n.dev || closing then (t, [], .error .short) else
  let i := hash n.dev
  let reg : Except Err SubOut := .ok { host := none, key := 0, reply := [registerReply n] }
  match find hash t n.dev with
  | .collide => if n.pid == svHello then (t, [], .error .malformed) else (t, [], reg)
  | .absent =>
    if n.pid != svHello then (t, [], reg)
    else
      let c : Client := { id := n.dev, q := [{ dev := n.dev, pid := svComplete, job := n.job, crypt := true }] }
      talkSubCont i n o (t.set i c) c [.reg c.id n.dev]
  | .own c => talkSubCont i n o t c []

/-- `Proxy.prune`: every pending close request deletes the entry stored under the hash of the
device named by the packet that asked for it. -/
def applyClose (hash : ID → Nat) (t : PTbl) (ev : List PEv) : PTbl :=
  ev.foldl (fun t e => match e with | .closeReq _ d => t.del (hash d) | _ => t) t

/-- canonical rendering of the observable part of the events (driver I/O). -/
def evLine (idx : ID → String) (ev : List PEv) : String :=
  let lst (l : List String) := if l.isEmpty then "-" else ",".intercalate l
  let seen := ((ev.filterMap fun e => match e with | .seen c _ => some (idx c) | _ => none).toArray.qsort (· < ·)).toList.eraseDups
  let fwd := ev.filterMap fun e => match e with | .fwd d p j => some s!"{idx d}.{p}.{j}" | _ => none
  let qd := ev.filterMap fun e => match e with | .queued c d p j => some s!"{idx c}>{idx d}.{p}.{j}" | _ => none
  let cl := ev.filterMap fun e => match e with | .closeReq c _ => some (idx c) | _ => none
  let new := ev.filterMap fun e => match e with | .reg c _ => some (idx c) | _ => none
  let pr := ev.filterMap fun e => match e with
    | .parentRecv _ d p j => if p ≥ mvRefresh then some s!"{idx d}.{p}.{j}" else none
    | _ => none
  s!"s={lst seen} f={lst fwd} q={lst qd} c={lst cl} n={lst new} p={lst pr}"

end XMT.Route.Proxy
