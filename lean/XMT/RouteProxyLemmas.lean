/-
  XMT.RouteProxyLemmas — helper lemmas for the proxy half of Props/C15.lean.
-/
import XMT.RouteProxy
import XMT.RouteLemmas
namespace XMT.Route.Proxy
open XMT XMT.Route

/-- a proxy event acts on the client entry (or on the parent Session) of the device the packet names. -/
def PEv.Own : PEv → Prop
  | .seen c d => c = d
  | .reg c d => c = d
  | .queued c d _ _ => c = d
  | .closeReq c d => c = d
  | .parentRecv p d _ _ => p = d
  | .fwd _ _ _ => True

def AllOwn (l : List PEv) : Prop := ∀ e ∈ l, e.Own

theorem pfind_own {hash : ID → Nat} {t : PTbl} {d : ID} {c : Client} (h : find hash t d = .own c) :
    c.id = d ∧ t.get (hash d) = some c := by
  unfold find at h
  split at h
  · cases h
  · rename_i c' hc
    split at h
    · cases h
    · rename_i hne; cases h; exact ⟨by simpa using hne, hc⟩

theorem accept_own (hash : ID → Nat) (t : PTbl) (n : Sub) : AllOwn (accept hash t n).2.1 := by
  unfold accept
  split
  · intro e he; cases he
  · split
    · intro e he; cases he
    · intro e he; cases he
    · rename_i c hf
      obtain ⟨hid, _⟩ := pfind_own hf
      split
      · intro e he; cases he
      · intro e he; simp at he; subst he; exact hid

theorem receiveDown_own (hash : ID → Nat) (parent : ID) (t : PTbl) (n : Sub)
    (hmd : hasFlag n.flags flagMultiDevice = false) : AllOwn (receiveDown hash parent t n).2.1 := by
  unfold receiveDown
  split
  · intro e he; cases he
  · split
    · have := accept_own hash t n
      split <;> (rename_i heq; rw [heq] at this; exact this)
    · rename_i hne
      have hp : parent = n.dev := by simpa [hmd] using hne
      repeat' split
      all_goals (intro e he; simp at he; try (subst he; exact hp))

theorem allOwn_nil : AllOwn [] := by intro e h; cases h

theorem allOwn_append {a b : List PEv} (ha : AllOwn a) (hb : AllOwn b) : AllOwn (a ++ b) := by
  intro e h
  rcases List.mem_append.mp h with h | h
  · exact ha e h
  · exact hb e h

theorem allOwn_cons {e : PEv} {l : List PEv} (he : e.Own) (hl : AllOwn l) : AllOwn (e :: l) := by
  intro x h
  rcases List.mem_cons.mp h with h | h
  · exact h ▸ he
  · exact hl x h

theorem talkCont_own (i : Nat) (h : Sub) (t : PTbl) (c : Client) (ok : Bool) (ev : List PEv)
    (hid : c.id = h.dev) (hev : AllOwn ev) : AllOwn (talkCont i h t c ok ev).2.1 := by
  unfold talkCont
  dsimp only
  have hseen : AllOwn (ev ++ [PEv.seen c.id h.dev]) := allOwn_append hev (allOwn_cons hid allOwn_nil)
  split
  · exact allOwn_append hseen (allOwn_cons hid (allOwn_cons trivial allOwn_nil))
  · apply allOwn_append hseen
    split
    · exact allOwn_nil
    · exact allOwn_cons trivial allOwn_nil

theorem talk_own (hash : ID → Nat) (closing : Bool) (t : PTbl) (n : Pkt) : AllOwn (talk hash closing t n).2.1 := by
  unfold talk
  split
  · exact allOwn_nil
  · split
    · exact allOwn_nil
    · dsimp only
      split
      · split <;> exact allOwn_nil
      · split
        · exact allOwn_nil
        · exact talkCont_own _ _ _ _ _ _ rfl (allOwn_cons rfl (allOwn_cons trivial allOwn_nil))
      · rename_i c hf
        obtain ⟨hid, _⟩ := pfind_own hf
        exact talkCont_own _ _ _ _ _ _ hid allOwn_nil

theorem talkSubCont_own (i : Nat) (n : Sub) (o : Bool) (t : PTbl) (c : Client) (ev : List PEv)
    (hid : c.id = n.dev) (hev : AllOwn ev) : AllOwn (talkSubCont i n o t c ev).2.1 := by
  unfold talkSubCont
  dsimp only
  have hseen : AllOwn (ev ++ [PEv.seen c.id n.dev]) := allOwn_append hev (allOwn_cons hid allOwn_nil)
  have hfwd : AllOwn (ev ++ [PEv.seen c.id n.dev] ++ [PEv.fwd n.dev n.pid n.job]) :=
    allOwn_append hseen (allOwn_cons trivial allOwn_nil)
  repeat' split
  all_goals first
    | exact hseen
    | exact hfwd
    | exact allOwn_append hseen (allOwn_cons hid (allOwn_cons trivial allOwn_nil))

theorem talkSub_own (hash : ID → Nat) (closing : Bool) (t : PTbl) (n : Sub) (o : Bool) :
    AllOwn (talkSub hash closing t n o).2.1 := by
  unfold talkSub
  split
  · exact allOwn_nil
  · dsimp only
    split
    · split <;> exact allOwn_nil
    · split
      · exact allOwn_nil
      · exact talkSubCont_own _ _ _ _ _ _ rfl (allOwn_cons rfl allOwn_nil)
    · rename_i c hf
      obtain ⟨hid, _⟩ := pfind_own hf
      exact talkSubCont_own _ _ _ _ _ _ hid allOwn_nil

/-- a packet for a device the proxy has no entry for is never queued anywhere. -/
theorem accept_unknown (hash : ID → Nat) (t : PTbl) (n : Sub)
    (hun : ∀ k c, t.get k = some c → c.id ≠ n.dev) : accept hash t n = (t, [], false) := by
  unfold accept
  split
  · rfl
  · split
    · rfl
    · rfl
    · rename_i c hf
      obtain ⟨hid, hget⟩ := pfind_own hf
      exact absurd hid (hun _ c hget)

/-- a packet (not a hello) from a device the proxy has no entry for — entries with the same hash
may exist — is answered with SvRegister and has no effect at all. -/
theorem talk_unknown (hash : ID → Nat) (t : PTbl) (n : Pkt)
    (hun : ∀ k c, t.get k = some c → c.id ≠ n.hd.dev) (he : idEmpty n.hd.dev = false)
    (hh : (n.hd.pid == svHello) = false) (htags : n.tags = [])
    (hmd : hasFlag n.hd.flags flagMultiDevice = false) :
    talk hash false t n =
      (t, [], .ok { ok := false, host := none,
                    next := [registerReply { n.hd with flags := n.hd.flags ||| flagProxy }], subs := [] }) := by
  unfold talk
  simp only [he, htags, hmd, Bool.or_self, Bool.false_eq_true, ↓reduceIte, List.isEmpty_nil, Bool.not_true]
  have hne : n.hd.pid ≠ svHello := by simpa using hh
  split
  · simp [hh]
  · simp [hh]; intro h; exact absurd h hne
  · rename_i c hf
    obtain ⟨hid, hget⟩ := pfind_own hf
    exact absurd hid (hun _ c hget)

end XMT.Route.Proxy
