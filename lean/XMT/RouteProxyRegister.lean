/-
  XMT.RouteProxyRegister — `Proxy.subsRegister` (c2/proxy.go): when the server asks the client that
  runs a proxy to register again, every proxied client gets a re-registration request of its own.
  Model + lemmas for Props/C15 `proxy_reregistration_own`; compared with the real code by op `prxreg`.
-/
import XMT.RouteProxyLemmas
namespace XMT.Route.Proxy
open XMT XMT.Route

/-- `for _, v := range p.clients { v.queue(&com.Packet{ID: SvRegister, Job: rand, Device: v.ID}) }`;
`job k` is the random Job number drawn for the entry under key `k`. -/
def subsRegister (t : PTbl) (job : Nat → Nat) : PTbl × List PEv :=
  (t.map (fun e => (e.1, { e.2 with q := e.2.q ++ [{ dev := e.2.id, pid := svRegister, job := job e.1 }] })),
   t.map (fun e => PEv.queued e.2.id e.2.id svRegister (job e.1)))

/-- every request is queued for the client it names -/
theorem subsRegister_own (t : PTbl) (job : Nat → Nat) : AllOwn (subsRegister t job).2 := by
  intro e he
  simp only [subsRegister, List.mem_map] at he
  obtain ⟨x, _, rfl⟩ := he
  simp [PEv.Own]

/-- the table keeps its keys and clients; every queue grew by exactly one packet: an `SvRegister`
naming the queue's own client -/
theorem subsRegister_each (t : PTbl) (job : Nat → Nat) :
    (subsRegister t job).1.map (fun e => (e.1, e.2.id)) = t.map (fun e => (e.1, e.2.id)) ∧
    ∀ e ∈ (subsRegister t job).1, ∃ e0 ∈ t, e.1 = e0.1 ∧ e.2.id = e0.2.id ∧
      e.2.q = e0.2.q ++ [{ dev := e.2.id, pid := svRegister, job := job e.1 }] := by
  constructor
  · simp [subsRegister, List.map_map, Function.comp_def]
  · intro e he
    simp only [subsRegister, List.mem_map] at he
    obtain ⟨e0, h0, rfl⟩ := he
    exact ⟨e0, h0, rfl, rfl, rfl⟩

end XMT.Route.Proxy
