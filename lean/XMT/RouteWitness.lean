/-
  XMT.RouteWitness — concrete data for the negation theorems of Props/C15.lean: a REAL pair of
  device IDs whose 32-bit `device.ID.Hash` values collide (found by the harness' birthday search
  with seed 1 after 174 565 random IDs, re-checked here against the FNV-1 model), and the tables /
  packets of the two known findings.
-/
import XMT.Route
namespace XMT.Route.Witness
open XMT XMT.Route

def idA : ID := [0xBC, 0x89, 0x2B, 0x09, 0x3E, 0x5E, 0xB7, 0x6D, 0x8F, 0x79, 0x29, 0xFF, 0x18, 0x29, 0xFE, 0x4A, 0x85, 0x38, 0xC2, 0x44, 0x3C, 0x29, 0x03, 0xB9, 0x6F, 0x36, 0x58, 0xD6, 0x8F, 0xD7, 0x00, 0x55]
def idB : ID := [0xA3, 0x68, 0x75, 0x2B, 0x59, 0x92, 0x63, 0x6D, 0x91, 0x27, 0x26, 0xC3, 0xDD, 0xB6, 0xB8, 0x4F, 0x60, 0x03, 0xA8, 0x92, 0xEB, 0x0D, 0x4B, 0x0C, 0x6F, 0x7B, 0x1A, 0x55, 0xC8, 0x32, 0x7B, 0x6B]
/-- a third device (a client that runs a proxy) -/
def idP : ID := (0x50 : UInt8) :: List.replicate 31 (0x01 : UInt8)

/-- `Flag(FlagMulti)` with `SetLen(1)`: `1<<48 | FlagFrag | FlagMulti` -/
def multi1 : Nat := (1 <<< 48) ||| Facts.c15FlagFrag ||| Facts.c15FlagMulti

/-- table in which only A is registered, with one queued task -/
def tblA : Tbl := [(idHash idA, { id := idA, q := [{ dev := idA, pid := 200, job := 70 }] })]

/-- A and P registered -/
def tblAP : Tbl := (idHash idP, { id := idP, q := [] }) :: tblA

/-- P polls and announces, by tag, that it serves B (tag = hash of B) -/
def pktTagB : Pkt :=
  { hd := { dev := idP, pid := 20, job := 5, flags := 0, empty := false, info := false },
    tags := [idHash idB], subs := [] }

/-- A sends a same-device batch whose single element names B and carries FlagMultiDevice -/
def pktInnerMD : Pkt :=
  { hd := { dev := idA, pid := 0, job := 9, flags := multi1, empty := false, info := false },
    tags := [],
    subs := [{ dev := idB, pid := 20, job := 5, flags := Facts.c15FlagMultiDevice, empty := false, info := false }] }

/-- B (not registered, same hash as A) sends a result packet / a hello -/
def pktFromB (pid : Nat) : Pkt :=
  { hd := { dev := idB, pid := pid, job := 6, flags := Facts.c15FlagCrypt, empty := false, info := true },
    tags := [], subs := [] }

end XMT.Route.Witness
