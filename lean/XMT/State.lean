/-
  XMT.State — executable model of c2/state.go (the session state word).

  The word is a Go `uint32` accessed with sync/atomic; here it is a `Nat` (`s < 2^32` is the
  well-formedness predicate of the theorems), every Go operator is written literally:
     a & b  ↦ a &&& b      a | b ↦ a ||| b      a &^ b ↦ a &&& (b ^^^ 0xFFFFFFFF)
     a >> k ↦ a >>> k      uint16(a) ↦ a % 2^16   uint32(v) << 16 ↦ (v <<< 16) % 2^32
  This file is the *sequential* reading (one goroutine): a method that mutates the receiver returns
  the new word.  Methods that load the word several times keep that structure (nested `if`s in the
  order of the Go source).  The access-level (concurrent) reading is in XMT/StateConc.lean.
  Core-only.
-/
import XMT.Generated.Facts
namespace XMT.State

abbrev Word := Nat

/-- all-ones uint32, the `m` of Go's `^x = m ^ x` -/
def mask32 : Nat := 2 ^ 32 - 1

/-- Go `a &^ b` (bit clear) on uint32. -/
def andNot (a b : Nat) : Nat := a &&& (b ^^^ mask32)

/-- `atomic.LoadUint32(s) & m != 0` -/
def has (s m : Nat) : Bool := s &&& m != 0

/-! The 16 flag constants (`1 << iota`) come from the current source tree. -/
def stCanRecv := Facts.stateCanRecv
def stReady := Facts.stateReady
def stClosed := Facts.stateClosed
def stClosing := Facts.stateClosing
def stShutdown := Facts.stateShutdown
def stSendClose := Facts.stateSendClose
def stRecvClose := Facts.stateRecvClose
def stWakeClose := Facts.stateWakeClose
def stChannel := Facts.stateChannel
def stChannelValue := Facts.stateChannelValue
def stChannelUpdated := Facts.stateChannelUpdated
def stChannelProxy := Facts.stateChannelProxy
def stSeen := Facts.stateSeen
def stMoving := Facts.stateMoving
def stReplacing := Facts.stateReplacing
def stShutdownWait := Facts.stateShutdownWait

def allFlags : List Nat := [stCanRecv, stReady, stClosed, stClosing, stShutdown, stSendClose, stRecvClose,
  stWakeClose, stChannel, stChannelValue, stChannelUpdated, stChannelProxy, stSeen, stMoving, stReplacing,
  stShutdownWait]

/-! ### mutators (the new word) -/

/-- `Set(v)`: `old | v` -/
def set (s v : Nat) : Nat := s ||| v
/-- `Unset(v)`: `old &^ v` -/
def unset (s v : Nat) : Nat := andNot s v
/-- `SetLast(v)`: `(uint32(v)<<16) | uint32(uint16(old))` -/
def setLast (s v : Nat) : Nat := ((v <<< 16) % 2 ^ 32) ||| (s % 2 ^ 16)
/-- `tryUnset(v)` (test-and-clear): `if old&v == 0 {return false}; old &^ v; return true` -/
def tryUnset (s v : Nat) : Nat × Bool := if s &&& v == 0 then (s, false) else (andNot s v, true)
/-- `trySet(v)` (test-and-set): `if old&v == v {return false}; old | v; return true` -/
def trySet (s v : Nat) : Nat × Bool := if s &&& v == v then (s, false) else (s ||| v, true)

/-! ### predicates, in the order and with the nesting of state.go -/

def seen (s : Nat) : Bool := has s stSeen
def closed (s : Nat) : Bool := has s stClosed
def ready (s : Nat) : Bool := if closed s then false else has s stReady
/-- `uint16(load >> 16)` -/
def last (s : Nat) : Nat := (s >>> 16) % 2 ^ 16
def moving (s : Nat) : Bool := has s stMoving
def recvClosed (s : Nat) : Bool := if closed s then true else has s stRecvClose
def canRecv (s : Nat) : Bool := if closed s || recvClosed s then false else has s stCanRecv
def closing (s : Nat) : Bool := if closed s then true else has s stClosing
def channel (s : Nat) : Bool := has s stChannel
def shutdown (s : Nat) : Bool := if closed s then true else has s stShutdown
def replacing (s : Nat) : Bool := has s stReplacing
def sendClosed (s : Nat) : Bool := if closed s then true else has s stSendClose
def wakeClosed (s : Nat) : Bool := if closed s then true else has s stWakeClose
def shutdownWait (s : Nat) : Bool := has s stShutdownWait
def channelValue (s : Nat) : Bool := has s stChannelValue
def channelProxy (s : Nat) : Bool := has s stChannelProxy
def channelUpdated (s : Nat) : Bool := has s stChannelUpdated

/-- the low 16 bits (the flag set) -/
def flags (s : Nat) : Nat := s % 2 ^ 16

/-! ### compound methods -/

/-- `Tag`: `if !s.Seen() {return false}; s.Unset(stateSeen); return true` -/
def tag (s : Nat) : Nat × Bool := if !seen s then (s, false) else (unset s stSeen, true)

/-- `ChannelCanStart` -/
def channelCanStart (s : Nat) : Bool :=
  if closed s then false else if channel s then true else channelValue s

/-- `ChannelCanStop`: the 'updated' notice is taken with a test-and-clear; the answer is then read
from the word *after* the clear (`!s.ChannelValue()`), as in the source. -/
def channelCanStop (s : Nat) : Nat × Bool :=
  if closing s || !channel s then (s, true)
  else
    let (s', took) := tryUnset s stChannelUpdated
    if took then (s', !channelValue s') else (s', !channel s')

/-- `SetChannel(e)` -/
def setChannel (s : Nat) (e : Bool) : Nat × Bool :=
  if e then
    if channelValue s then (s, false)
    else (set (set s stChannelValue) stChannelUpdated, true)
  else
    if (!channel s || !channelProxy s) && !channelValue s then (s, false)
    else (set (unset s stChannelValue) stChannelUpdated, true)

/-- The request `e` equals the standing request: on = an "on" value is recorded; off = no value is
recorded and the channel is not being held open through a proxy. -/
def standing (s : Nat) (e : Bool) : Bool :=
  if e then channelValue s else !(channelValue s || (channel s && channelProxy s))

/-- all read-only predicates, in the order of the harness hook `VerifC13Preds` -/
def predicates (s : Nat) : List Bool :=
  [seen s, ready s, moving s, closed s, canRecv s, closing s, channel s, shutdown s, replacing s,
   recvClosed s, sendClosed s, wakeClosed s, shutdownWait s, channelValue s, channelProxy s,
   channelUpdated s, channelCanStart s]

end XMT.State
