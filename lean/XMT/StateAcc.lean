/-
  XMT.StateAcc — every method of c2/state.go at the granularity of its sync/atomic accesses.

  A method is a little program `Meth`: a plain atomic load whose value decides how to go on, a
  read-modify-write primitive (one compare-and-swap loop of XMT.StateConc: load, CAS, retry), or a
  return.  Short-circuit evaluation (`a || b`, `a && b`) and the nesting of helper calls
  (`Closing` calls `Closed` first, …) are kept, because they decide how many loads happen and in
  which order — which is what an interleaving can see.  `stepA` lets one thread perform its next
  access; a schedule is a list of thread ids, exactly as in XMT.StateConc.
  Used for deterministic schedule replay against the real code (driver op `acc`), and tied to the
  sequential model by `solo_eq_seq` (XMT/StateAccLemmas.lean): a method that runs without
  interference is the sequential function.
  Core-only.
-/
import XMT.StateConc
namespace XMT.StateAcc
open XMT XMT.State XMT.StateConc

inductive Meth where
  | ret (r : Nat)
  | load (k : Nat → Meth)
  | rmw (op : Op) (k : Bool → Meth)

def b2n (b : Bool) : Nat := if b then 1 else 0

/-- `s.X()` for a plain one-load predicate on flag `m` -/
def flagM (m : Nat) (k : Bool → Meth) : Meth := .load fun w => k (has w m)
/-- `s.Closed()` -/
def closedM (k : Bool → Meth) : Meth := flagM stClosed k
/-- `if s.Closed() { return true }; return load&m != 0` — Closing, Shutdown, RecvClosed, SendClosed,
WakeClosed BEFORE the repair (two loads); kept for the `orig*` programs only -/
def domM (m : Nat) (k : Bool → Meth) : Meth := closedM fun c => if c then k true else flagM m k
/-- `v := load; return v&stateClosed != 0 || v&m != 0` (Closing, Shutdown, RecvClosed, SendClosed,
WakeClosed after the repair: ONE load) -/
def dom1M (m : Nat) (k : Bool → Meth) : Meth := .load fun v => k (has v stClosed || has v m)

inductive Call where
  | prim (op : Op)
  | last
  | simple (m : Nat)        -- Seen, Moving, Closed, Channel, Replacing, ShutdownWait, ChannelValue, ChannelProxy, ChannelUpdated
  | dom (m : Nat)           -- Closing, Shutdown, RecvClosed, SendClosed, WakeClosed
  | ready
  | canRecv
  | canStart
  | canStop
  | setChannel (e : Bool)
  | tag
  | origReady               -- Ready as it was before the repair: Closed() load, then a second load
  | origTag                 -- Tag as it was before the repair: Seen() load, then Unset(stateSeen)

def Call.meth : Call → Meth
  | .prim op => .rmw op fun r => .ret (b2n r)
  | .last => .load fun w => .ret (State.last w)
  | .simple m => flagM m fun b => .ret (b2n b)
  | .dom m => dom1M m fun b => .ret (b2n b)
  -- v := load; return v&stateClosed == 0 && v&stateReady != 0
  | .ready => .load fun v => .ret (b2n (!has v stClosed && has v stReady))
  -- v := load; return v&stateClosed == 0 && v&stateRecvClose == 0 && v&stateCanRecv != 0
  | .canRecv => .load fun v => .ret (b2n (!has v stClosed && !has v stRecvClose && has v stCanRecv))
  -- v := load; return v&stateClosed == 0 && (v&stateChannel != 0 || v&stateChannelValue != 0)
  | .canStart => .load fun v => .ret (b2n (!has v stClosed && (has v stChannel || has v stChannelValue)))
  | .canStop =>
    -- if s.Closing() || !s.Channel() { return true }     (Closing: one load)
    dom1M stClosing fun cl => if cl then .ret 1 else
      flagM stChannel fun ch => if !ch then .ret 1 else
        .rmw (.tryUnset stChannelUpdated) fun took =>
          if took then flagM stChannelValue fun v => .ret (b2n (!v))
          else flagM stChannel fun ch' => .ret (b2n (!ch'))
  | .setChannel true =>
    flagM stChannelValue fun v => if v then .ret 0 else
      .rmw (.set stChannelValue) fun _ => .rmw (.set stChannelUpdated) fun _ => .ret 1
  | .setChannel false =>
    -- if (!s.Channel() || !s.ChannelProxy()) && !s.ChannelValue() { return false }
    let change : Meth := .rmw (.unset stChannelValue) fun _ => .rmw (.set stChannelUpdated) fun _ => .ret 1
    let rhs : Meth := flagM stChannelValue fun v => if !v then .ret 0 else change
    flagM stChannel fun ch => if !ch then rhs else
      flagM stChannelProxy fun px => if !px then rhs else change
  -- return s.tryUnset(stateSeen)
  | .tag => .rmw (.tryUnset stSeen) fun r => .ret (b2n r)
  | .origReady => closedM fun c => if c then .ret 0 else flagM stReady fun b => .ret (b2n b)
  | .origTag =>
    flagM stSeen fun sn => if !sn then .ret 0 else .rmw (.unset stSeen) fun _ => .ret 1

structure AThread where
  calls : List Call
  cur : Option Meth := none   -- the rest of the call in progress (none = not started)
  loaded : Option Nat := none -- word read by the pending compare-and-swap
  rets : List Nat := []

structure ASys where
  mem : Nat
  thr : List AThread
  casFail : Nat := 0

def ASys.init (w : Nat) (progs : List (List Call)) : ASys :=
  { mem := w, thr := progs.map fun p => { calls := p } }

/-- after an access: either the method goes on, or it returned -/
def settle (th : AThread) (rest : List Call) (m : Meth) : AThread :=
  match m with
  | .ret r => { calls := rest, cur := none, loaded := none, rets := th.rets ++ [r] }
  | m => { th with cur := some m, loaded := none }

def stepA (s : ASys) (t : Nat) : ASys :=
  match s.thr[t]? with
  | none => s
  | some th =>
    match th.calls with
    | [] => s
    | c :: rest =>
      match th.cur.getD c.meth with
      | .ret r => { s with thr := s.thr.set t { calls := rest, cur := none, loaded := none, rets := th.rets ++ [r] } }
      | .load k => { s with thr := s.thr.set t (settle th rest (k s.mem)) }
      | .rmw op k =>
        match th.loaded with
        | none =>
          if op.early s.mem then { s with thr := s.thr.set t (settle th rest (k (op.ret s.mem))) }
          else { s with thr := s.thr.set t { th with cur := some (.rmw op k), loaded := some s.mem } }
        | some o =>
          if s.mem = o then
            { s with mem := op.apply o, thr := s.thr.set t (settle th rest (k (op.ret o))) }
          else
            { s with thr := s.thr.set t { th with cur := some (.rmw op k), loaded := none }, casFail := s.casFail + 1 }

def runA (s : ASys) (sched : List Nat) : ASys := sched.foldl stepA s

def ASys.completed (s : ASys) : Bool := s.thr.all fun th => th.calls.isEmpty

/-- a method running without interference: fuel = number of accesses allowed -/
def solo : Nat → Meth → Nat → Option (Nat × Nat)
  | _, .ret r, w => some (w, r)
  | 0, _, _ => none
  | n + 1, .load k, w => solo n (k w) w
  | n + 1, .rmw op k, w => solo n (k (op.ret w)) (op.apply w)

/-- the sequential model's answer for the same call -/
def Call.seq : Call → Nat → Nat × Nat
  | .prim op, w => (op.apply w, b2n (op.ret w))
  | .last, w => (w, State.last w)
  | .simple m, w => (w, b2n (has w m))
  | .dom m, w => (w, b2n (if closed w then true else has w m))
  | .ready, w => (w, b2n (State.ready w))
  | .canRecv, w => (w, b2n (State.canRecv w))
  | .canStart, w => (w, b2n (channelCanStart w))
  | .canStop, w => ((channelCanStop w).1, b2n (channelCanStop w).2)
  | .setChannel e, w => ((State.setChannel w e).1, b2n (State.setChannel w e).2)
  | .tag, w => ((State.tag w).1, b2n (State.tag w).2)
  | .origReady, w => (w, b2n (State.ready w))
  | .origTag, w => ((State.tag w).1, b2n (State.tag w).2)

end XMT.StateAcc
