/-
  XMT.StateAccInv — invariants of the access-level machine XMT.StateAcc (ALL methods of
  c2/state.go as sequences of atomic accesses) under ALL schedules.

  `stepG` is `stepA` with a ghost history: the read-modify-write primitives (the compare-and-swap
  loops Set / Unset / SetLast / tryUnset / trySet, whether called directly or from inside
  SetChannel / Tag / ChannelCanStop) in the order in which they took effect (`stepG_sys`: erasing the
  ghost gives `stepA`).  `GInv`: the history is a legal sequential execution of those primitives that
  ends in the current word (`StateConc.Lin`, so every per-bit lemma of XMT.StateConcLemmas applies),
  every primitive in it belongs to a call of the thread's program (`Call.prims`), and every directly
  called primitive that has returned is in it.
  Core-only.
-/
import XMT.StateAcc
import XMT.StateConcLemmas
set_option linter.unusedSimpArgs false
namespace XMT.StateAccInv
open XMT XMT.State XMT.StateConc XMT.StateAcc

/-- the read-modify-write primitives a call can perform -/
def Call.prims : Call → List Op
  | .prim op => [op]
  | .canStop => [.tryUnset stChannelUpdated]
  | .setChannel true => [.set stChannelValue, .set stChannelUpdated]
  | .setChannel false => [.unset stChannelValue, .set stChannelUpdated]
  | .tag => [.tryUnset stSeen]
  | .origTag => [.unset stSeen]
  | _ => []

/-- every read-modify-write in the program tree satisfies `S`, whatever the loads return -/
def OpsIn (S : Op → Prop) : Meth → Prop
  | .ret _ => True
  | .load k => ∀ w, OpsIn S (k w)
  | .rmw op k => S op ∧ ∀ b, OpsIn S (k b)

theorem opsIn_ite {S : Op → Prop} {c : Prop} [Decidable c] {a b : Meth} (ha : OpsIn S a) (hb : OpsIn S b) :
    OpsIn S (if c then a else b) := by split <;> assumption

macro "opsin" : tactic => `(tactic| repeat (first | (intro _) | (apply opsIn_ite) | (refine ⟨by simp, ?_⟩) | (exact True.intro) | (simp only [OpsIn])))

theorem meth_opsIn (c : Call) : OpsIn (· ∈ Call.prims c) c.meth := by
  cases c with
  | setChannel e => cases e <;> simp only [Call.meth, flagM, Call.prims] <;> opsin
  | canStop => simp only [Call.meth, flagM, domM, dom1M, closedM, Call.prims]; opsin
  | canRecv => simp only [Call.meth, flagM, domM, dom1M, closedM, Call.prims]; opsin
  | canStart => simp only [Call.meth, flagM, domM, dom1M, closedM, Call.prims]; opsin
  | dom m => simp only [Call.meth, flagM, domM, dom1M, closedM, Call.prims]; opsin
  | ready => simp only [Call.meth, flagM, domM, dom1M, closedM, Call.prims]; opsin
  | tag => simp only [Call.meth, flagM, domM, dom1M, closedM, Call.prims]; opsin
  | origTag => simp only [Call.meth, flagM, domM, dom1M, closedM, Call.prims]; opsin
  | origReady => simp only [Call.meth, flagM, domM, dom1M, closedM, Call.prims]; opsin
  | prim op => simp only [Call.meth, flagM, domM, dom1M, closedM, Call.prims]; opsin
  | last => simp only [Call.meth, flagM, domM, dom1M, closedM, Call.prims]; opsin
  | simple m => simp only [Call.meth, flagM, domM, dom1M, closedM, Call.prims]; opsin

structure GSys where
  sys : ASys
  hist : List Ev := []

def GSys.init (w : Nat) (progs : List (List Call)) : GSys := { sys := ASys.init w progs }

def stepG (g : GSys) (t : Nat) : GSys :=
  match g.sys.thr[t]? with
  | none => g
  | some th =>
    match th.calls with
    | [] => g
    | c :: rest =>
      match th.cur.getD c.meth with
      | .ret r => { g with sys := { g.sys with thr := g.sys.thr.set t { calls := rest, cur := none, loaded := none, rets := th.rets ++ [r] } } }
      | .load k => { g with sys := { g.sys with thr := g.sys.thr.set t (settle th rest (k g.sys.mem)) } }
      | .rmw op k =>
        match th.loaded with
        | none =>
          if op.early g.sys.mem then
            { sys := { g.sys with thr := g.sys.thr.set t (settle th rest (k (op.ret g.sys.mem))) },
              hist := g.hist ++ [⟨t, op, op.ret g.sys.mem⟩] }
          else { g with sys := { g.sys with thr := g.sys.thr.set t { th with cur := some (.rmw op k), loaded := some g.sys.mem } } }
        | some o =>
          if g.sys.mem = o then
            { sys := { g.sys with mem := op.apply o, thr := g.sys.thr.set t (settle th rest (k (op.ret o))) },
              hist := g.hist ++ [⟨t, op, op.ret o⟩] }
          else
            { g with sys := { g.sys with thr := g.sys.thr.set t { th with cur := some (.rmw op k), loaded := none },
                                         casFail := g.sys.casFail + 1 } }

def runG (g : GSys) (sched : List Nat) : GSys := sched.foldl stepG g

/-- the ghost history does not influence the machine -/
theorem stepG_sys (g : GSys) (t : Nat) : (stepG g t).sys = stepA g.sys t := by
  unfold stepG stepA
  cases h1 : g.sys.thr[t]? with
  | none => rfl
  | some th =>
    simp only []
    cases h2 : th.calls with
    | nil => rfl
    | cons c rest =>
      simp only []
      cases h3 : th.cur.getD c.meth with
      | ret r => rfl
      | load k => rfl
      | rmw op k =>
        simp only []
        cases h4 : th.loaded with
        | none => simp only []; split <;> rfl
        | some o => simp only []; split <;> rfl

theorem runG_sys (g : GSys) (sched : List Nat) : (runG g sched).sys = runA g.sys sched := by
  induction sched generalizing g with
  | nil => rfl
  | cons t ts ih =>
    show (runG (stepG g t) ts).sys = runA (stepA g.sys t) ts
    rw [ih, stepG_sys]

/-- the program in progress belongs to call `c` -/
def Good (c : Call) (m : Meth) : Prop := OpsIn (· ∈ Call.prims c) m ∧ ∀ op, c = .prim op → m = c.meth

theorem good_meth (c : Call) : Good c c.meth := ⟨meth_opsIn c, fun _ _ => rfl⟩

structure GInv (w : Nat) (progs : List (List Call)) (g : GSys) : Prop where
  lin : Lin w g.hist g.sys.mem
  len : g.sys.thr.length = progs.length
  thr : ∀ t th, g.sys.thr[t]? = some th → ∃ done, progs[t]? = some (done ++ th.calls) ∧
    (∀ op, Call.prim op ∈ done → ∃ e ∈ g.hist, e.op = op ∧ e.tid = t) ∧
    (∀ c rest m, th.calls = c :: rest → th.cur = some m → Good c m)
  ops : ∀ e ∈ g.hist, ∃ p, progs[e.tid]? = some p ∧ ∃ c ∈ p, e.op ∈ Call.prims c

theorem ginv_init (w : Nat) (progs : List (List Call)) : GInv w progs (GSys.init w progs) := by
  refine ⟨Lin.nil, by simp [GSys.init, ASys.init], ?_, by simp [GSys.init]⟩
  intro t th h
  simp only [GSys.init, ASys.init, List.getElem?_map, Option.map_eq_some_iff] at h
  obtain ⟨p, hp, rfl⟩ := h
  exact ⟨[], by simpa using hp, by simp, by simp⟩

theorem settle_cases (th : AThread) (rest : List Call) (m : Meth) :
    (∃ r, m = .ret r ∧ settle th rest m = { calls := rest, cur := none, loaded := none, rets := th.rets ++ [r] }) ∨
    ((∀ r, m ≠ .ret r) ∧ settle th rest m = { th with cur := some m, loaded := none }) := by
  cases m with
  | ret r => exact Or.inl ⟨r, rfl, rfl⟩
  | load k => exact Or.inr ⟨fun r h => (by cases h), rfl⟩
  | rmw op k => exact Or.inr ⟨fun r h => (by cases h), rfl⟩

/-- the generic step: thread `t` (in call `c`) is replaced by `th'`, the history grows by events of
thread `t` whose primitive belongs to `c`; `th'` is either still in `c` (with a good program) or has
returned from it (and, if `c` is a directly called primitive, its event is in the history). -/
theorem ginv_update {w : Nat} {progs : List (List Call)} {g : GSys} (hi : GInv w progs g) {t : Nat} {th : AThread}
    {c : Call} {rest : List Call} (ht : g.sys.thr[t]? = some th) (hc : th.calls = c :: rest)
    (mem' cf : Nat) (hist' : List Ev) (th' : AThread)
    (hlin : Lin w hist' mem')
    (hsub : ∀ e ∈ g.hist, e ∈ hist')
    (hnew : ∀ e ∈ hist', e ∈ g.hist ∨ (e.tid = t ∧ e.op ∈ Call.prims c))
    (hth : (th'.calls = th.calls ∧ ∀ m, th'.cur = some m → Good c m) ∨
           (th'.calls = rest ∧ th'.cur = none ∧ ∀ op, c = .prim op → ∃ e ∈ hist', e.op = op ∧ e.tid = t)) :
    GInv w progs { sys := { mem := mem', thr := g.sys.thr.set t th', casFail := cf }, hist := hist' } := by
  have htl : t < g.sys.thr.length := by
    rcases Nat.lt_or_ge t g.sys.thr.length with h | h
    · exact h
    · rw [List.getElem?_eq_none h] at ht; cases ht
  obtain ⟨done, hp, hdone, hcur⟩ := hi.thr t th ht
  refine ⟨hlin, by simp [hi.len], ?_, ?_⟩
  · intro t' th'' h'
    simp only [List.getElem?_set] at h'
    by_cases htt : t = t'
    · subst htt
      simp only [htl, ↓reduceIte, Option.some.injEq] at h'
      subst h'
      rcases hth with ⟨h1, h2⟩ | ⟨h1, h2, h3⟩
      · refine ⟨done, by rw [h1]; exact hp, ?_, ?_⟩
        · intro op hop
          obtain ⟨e, he, h⟩ := hdone op hop
          exact ⟨e, hsub e he, h⟩
        · intro c' rest' m hc' hm
          rw [h1, hc] at hc'
          cases hc'
          exact h2 m hm
      · refine ⟨done ++ [c], by rw [h1, hp, hc]; simp, ?_, ?_⟩
        · intro op hop
          simp only [List.mem_append, List.mem_singleton] at hop
          rcases hop with hop | hop
          · obtain ⟨e, he, h⟩ := hdone op hop
            exact ⟨e, hsub e he, h⟩
          · exact h3 op hop.symm
        · intro c' rest' m _ hm
          rw [h2] at hm; cases hm
    · simp only [htt, ↓reduceIte] at h'
      obtain ⟨done', hp', hdone', hcur'⟩ := hi.thr t' th'' h'
      refine ⟨done', hp', ?_, hcur'⟩
      intro op hop
      obtain ⟨e, he, h⟩ := hdone' op hop
      exact ⟨e, hsub e he, h⟩
  · intro e he
    rcases hnew e he with h | ⟨h1, h2⟩
    · exact hi.ops e h
    · exact ⟨done ++ th.calls, by rw [h1]; exact hp, c, by rw [hc]; simp, h2⟩

theorem ginv_step {w : Nat} {progs : List (List Call)} {g : GSys} (hi : GInv w progs g) (t : Nat) :
    GInv w progs (stepG g t) := by
  unfold stepG
  split
  · exact hi
  · rename_i th ht
    split
    · exact hi
    · rename_i c rest hc
      have hgood : Good c (th.cur.getD c.meth) := by
        cases hcur : th.cur with
        | none => exact good_meth c
        | some m =>
          obtain ⟨_, _, _, h⟩ := hi.thr t th ht
          exact h c rest m hc hcur
      have hnoprim_of_ne : ∀ m, th.cur.getD c.meth = m → (∀ op k, m ≠ .rmw op k) → ∀ op, c ≠ .prim op := by
        intro m hm hne op hcp
        have := hgood.2 op hcp
        rw [hm, hcp] at this
        exact hne _ _ this
      split
      · -- the program is a bare return
        rename_i r hm
        exact ginv_update hi ht hc g.sys.mem g.sys.casFail g.hist _ hi.lin (fun e he => he) (fun e he => Or.inl he)
          (Or.inr ⟨rfl, rfl, fun op hcp => absurd hcp (hnoprim_of_ne _ hm (fun _ _ h => by cases h) op)⟩)
      · -- a plain load
        rename_i k hm
        rw [hm] at hgood
        rcases settle_cases th rest (k g.sys.mem) with ⟨r, _, hs⟩ | ⟨_, hs⟩
        · rw [hs]
          exact ginv_update hi ht hc g.sys.mem g.sys.casFail g.hist _ hi.lin (fun e he => he) (fun e he => Or.inl he)
            (Or.inr ⟨rfl, rfl, fun op hcp => absurd hcp (hnoprim_of_ne _ hm (fun _ _ h => by cases h) op)⟩)
        · rw [hs]
          refine ginv_update hi ht hc g.sys.mem g.sys.casFail g.hist _ hi.lin (fun e he => he) (fun e he => Or.inl he)
            (Or.inl ⟨rfl, ?_⟩)
          intro m hm'
          simp only [Option.some.injEq] at hm'
          subst hm'
          exact ⟨hgood.1 g.sys.mem, fun op hcp => absurd hcp (hnoprim_of_ne _ hm (fun _ _ h => by cases h) op)⟩
      · -- a read-modify-write primitive
        rename_i op k hm
        rw [hm] at hgood
        have hop : op ∈ Call.prims c := hgood.1.1
        have hprim : ∀ op', c = .prim op' → op' = op ∧ ∀ b, ∃ r, k b = .ret r := by
          intro op' hcp
          have := hgood.2 op' hcp
          rw [hcp] at this
          simp only [Call.meth, Meth.rmw.injEq] at this
          exact ⟨this.1.symm, fun b => ⟨_, by rw [this.2]⟩⟩
        -- the step after which the primitive has taken effect
        have heff : ∀ (b : Bool) (mem' : Nat), Lin w (g.hist ++ [⟨t, op, b⟩]) mem' →
            GInv w progs { sys := { mem := mem', thr := g.sys.thr.set t (settle th rest (k b)), casFail := g.sys.casFail },
                           hist := g.hist ++ [⟨t, op, b⟩] } := by
          intro b mem' hl
          have hnew : ∀ e ∈ g.hist ++ [(⟨t, op, b⟩ : Ev)], e ∈ g.hist ∨ (e.tid = t ∧ e.op ∈ Call.prims c) := by
            intro e he
            simp only [List.mem_append, List.mem_singleton] at he
            rcases he with he | rfl
            · exact Or.inl he
            · exact Or.inr ⟨rfl, hop⟩
          rcases settle_cases th rest (k b) with ⟨r, _, hs⟩ | ⟨hne, hs⟩
          · rw [hs]
            refine ginv_update hi ht hc mem' g.sys.casFail _ _ hl (fun e he => by simp [he]) hnew
              (Or.inr ⟨rfl, rfl, fun op' hcp => ⟨⟨t, op, b⟩, by simp, ((hprim op' hcp).1).symm, rfl⟩⟩)
          · rw [hs]
            refine ginv_update hi ht hc mem' g.sys.casFail _ _ hl (fun e he => by simp [he]) hnew (Or.inl ⟨rfl, ?_⟩)
            intro m hm'
            simp only [Option.some.injEq] at hm'
            subst hm'
            refine ⟨hgood.1.2 b, fun op' hcp => ?_⟩
            obtain ⟨r, hr⟩ := (hprim op' hcp).2 b
            exact absurd hr (hne r)
        have hstay : ∀ (l : Option Nat) (cf : Nat),
            GInv w progs { g with sys := { g.sys with thr := g.sys.thr.set t { th with cur := some (.rmw op k), loaded := l }, casFail := cf } } := by
          intro l cf
          exact ginv_update hi ht hc g.sys.mem cf g.hist _ hi.lin (fun e he => he) (fun e he => Or.inl he)
            (Or.inl ⟨rfl, fun m hm' => by simp only [Option.some.injEq] at hm'; subst hm'; exact hgood⟩)
        split
        · split
          · rename_i he
            have hl : Lin w (g.hist ++ [⟨t, op, op.ret g.sys.mem⟩]) g.sys.mem := by
              have := Lin.snoc (⟨t, op, op.ret g.sys.mem⟩ : Ev) hi.lin rfl
              rwa [show (⟨t, op, op.ret g.sys.mem⟩ : Ev).op.apply g.sys.mem = g.sys.mem from early_apply op _ he] at this
            exact heff _ _ hl
          · exact hstay _ _
        · rename_i o _
          split
          · rename_i hmo
            have hl : Lin w (g.hist ++ [⟨t, op, op.ret o⟩]) (op.apply o) := by
              have := Lin.snoc (⟨t, op, op.ret g.sys.mem⟩ : Ev) hi.lin rfl
              rw [hmo] at this
              exact this
            exact heff _ _ hl
          · exact hstay _ _

theorem ginv_run {w : Nat} {progs : List (List Call)} {g : GSys} (hi : GInv w progs g) (sched : List Nat) :
    GInv w progs (runG g sched) := by
  induction sched generalizing g with
  | nil => exact hi
  | cons t ts ih => exact ih (ginv_step hi t)

/-- the value a call must return on a closed session -/
def closedAnswer : Call → Option Nat
  | .ready => some 0
  | .canRecv => some 0
  | .canStart => some 0
  | .canStop => some 1
  | .dom _ => some 1
  | _ => none


end XMT.StateAccInv
