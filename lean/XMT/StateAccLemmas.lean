/-
  XMT.StateAccLemmas — the access-level programs of XMT.StateAcc, run without interference, are
  the sequential functions of XMT.State (so the sequential theorems speak about the same methods
  the schedule replay exercises).
-/
import XMT.StateAcc
set_option linter.unusedSimpArgs false
namespace XMT.StateAcc
open XMT XMT.State XMT.StateConc

theorem solo_eq_seq (c : Call) (w : Nat) : solo 8 c.meth w = some (c.seq w) := by
  cases c with
  | prim op => simp [Call.meth, Call.seq, solo]
  | last => simp [Call.meth, Call.seq, solo]
  | simple m => simp [Call.meth, Call.seq, solo, flagM]
  | dom m =>
    cases h : has w stClosed <;> simp [Call.meth, Call.seq, dom1M, solo, closed, h, b2n]
  | ready =>
    cases h : has w stClosed <;> simp [Call.meth, Call.seq, solo, ready, closed, h, b2n]
  | canRecv =>
    cases h : has w stClosed <;> cases h2 : has w stRecvClose <;>
      simp [Call.meth, Call.seq, solo, canRecv, recvClosed, closed, h, h2, b2n]
  | canStart =>
    cases h : has w stClosed <;> cases h2 : has w stChannel <;>
      simp [Call.meth, Call.seq, solo, channelCanStart, closed, channel, channelValue, h, h2, b2n]
  | canStop =>
    cases h : has w stClosed <;> cases h2 : has w stClosing <;> cases h3 : has w stChannel <;>
      simp [Call.meth, Call.seq, dom1M, flagM, solo, channelCanStop, closing, closed, channel,
        channelValue, h, h2, h3, Op.ret, Op.apply, b2n]
    by_cases h4 : (State.tryUnset w stChannelUpdated).2 = true
    · simp [solo, h4]
    · simp [solo, h4]
  | origReady =>
    cases h : has w stClosed <;> simp [Call.meth, Call.seq, closedM, flagM, solo, ready, closed, h, b2n]
  | origTag =>
    cases h : has w stSeen <;> simp [Call.meth, Call.seq, flagM, solo, tag, seen, h, Op.ret, Op.apply, b2n]
  | setChannel e =>
    cases e
    · cases h : has w stChannel <;> cases h2 : has w stChannelProxy <;> cases h3 : has w stChannelValue <;>
        simp [Call.meth, Call.seq, flagM, solo, setChannel, channel, channelProxy, channelValue, h, h2, h3,
          Op.ret, Op.apply, b2n]
    · cases h : has w stChannelValue <;>
        simp [Call.meth, Call.seq, flagM, solo, setChannel, channelValue, h, Op.ret, Op.apply, b2n]
  | tag =>
    cases h : has w stSeen <;>
      simp_all [Call.meth, Call.seq, solo, tag, seen, has, State.tryUnset, State.unset, Op.ret, Op.apply, b2n]

end XMT.StateAcc
