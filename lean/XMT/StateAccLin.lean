/-
  XMT.StateAccLin — call-level linearizability of the access-level machine XMT.StateAcc
  (all methods of c2/state.go, including the multi-access ones: SetChannel, Tag, ChannelCanStop and
  the predicates that load the word two to four times).

  `seqRuns` enumerates every sequential execution of a family of thread programs (each call is one
  atomic step `Call.seq`, program order kept): the outcomes (final word, per-thread results) a
  linearizable execution may produce.  `linearizableA` is the decidable question whether the
  outcome of an interleaved run `runA` is one of them.  Used for the proved NEGATIONS (witness
  schedules, replayed on the real code by the harness group `s3wit`).
  Core-only.
-/
import XMT.StateAcc
namespace XMT.StateAccLin
open XMT XMT.State XMT.StateConc XMT.StateAcc

/-- append a result to thread `t`'s result list -/
def pushRet (rets : List (List Nat)) (t r : Nat) : List (List Nat) :=
  match rets[t]? with
  | some rs => rets.set t (rs ++ [r])
  | none => rets

/-- all sequential executions; `fuel` ≥ total number of calls + 1 -/
def seqRuns : Nat → Nat → List (List Call) → List (List Nat) → List (Nat × List (List Nat))
  | 0, _, _, _ => []
  | fuel + 1, w, progs, rets =>
    if progs.all List.isEmpty then [(w, rets)] else
    (List.range progs.length).flatMap fun t =>
      match progs[t]? with
      | some (c :: rest) => seqRuns fuel (c.seq w).1 (progs.set t rest) (pushRet rets t (c.seq w).2)
      | _ => []

def totalCalls (progs : List (List Call)) : Nat := (progs.map List.length).sum

/-- the sequential outcomes of `progs` from word `w` -/
def seqOutcomes (w : Nat) (progs : List (List Call)) : List (Nat × List (List Nat)) :=
  seqRuns (totalCalls progs + 1) w progs (progs.map fun _ => [])

/-- the interleaved run under `sched` completed and its outcome is a sequential outcome -/
def linearizableA (w : Nat) (progs : List (List Call)) (sched : List Nat) : Bool :=
  let s := runA (ASys.init w progs) sched
  s.completed && (seqOutcomes w progs).contains (s.mem, s.thr.map (·.rets))

end XMT.StateAccLin
