/-
  XMT.StateAccShape — the access lists of the access-level model XMT.StateAcc, to be compared with
  the lists regenerated from c2/state.go (Facts.c13AccessLists).

  `accessLists` is the model's table: for every method of `*state` the flattened sequence of
  shared-memory accesses in source order (calls of other methods on the receiver inlined):
  1 = atomic load, 3 = compare-and-swap, 4 / 5 = `for {` / `}` of a retry loop.
  `trace` is what an access program `Meth` really performs when it runs alone from a word `w`
  (a read-modify-write primitive is one pass of its loop: load, compare-and-swap unless it
  returns early).  `trace_sublist` proves, for EVERY call and EVERY word, that the program's
  trace is a sublist of its row (it follows one path through the source); the examples in
  Props/C13 show that each row is covered.  So a change of the number or order of the accesses
  of a method in state.go changes the regenerated fact and breaks the `decide` tie
  `access_lists_match_source`.
  Core-only.
-/
import XMT.StateAcc
set_option linter.unusedSimpArgs false
namespace XMT.StateAccShape
open XMT XMT.State XMT.StateConc XMT.StateAcc

def accessLists : List (String × List Nat) :=
  [("CanRecv", [1]), ("Channel", [1]), ("ChannelCanStart", [1]),
   ("ChannelCanStop", [1, 1, 4, 1, 3, 5, 1, 1]), ("ChannelProxy", [1]), ("ChannelUpdated", [1]),
   ("ChannelValue", [1]), ("Closed", [1]), ("Closing", [1]), ("Last", [1]), ("Moving", [1]),
   ("Ready", [1]), ("RecvClosed", [1]), ("Replacing", [1]), ("Seen", [1]), ("SendClosed", [1]),
   ("Set", [4, 1, 3, 5]),
   -- if e { ChannelValue; Set } else { Channel, ChannelProxy, ChannelValue; (the same three again as
   -- arguments of the bugtrack message, compiled out unless bugtrack.Enabled); Unset }; Set
   ("SetChannel", [1, 4, 1, 3, 5, 1, 1, 1, 1, 1, 1, 4, 1, 3, 5, 4, 1, 3, 5]),
   ("SetLast", [4, 1, 3, 5]), ("Shutdown", [1]), ("ShutdownWait", [1]), ("Tag", [4, 1, 3, 5]),
   ("Unset", [4, 1, 3, 5]), ("WakeClosed", [1]), ("trySet", [4, 1, 3, 5]), ("tryUnset", [4, 1, 3, 5])]

/-- the state.go method(s) a model call stands for -/
def Call.fns : Call → List String
  | .prim (.set _) => ["Set"]
  | .prim (.unset _) => ["Unset"]
  | .prim (.setLast _) => ["SetLast"]
  | .prim (.tryUnset _) => ["tryUnset"]
  | .prim (.trySet _) => ["trySet"]
  | .last => ["Last"]
  | .simple _ => ["Seen", "Moving", "Closed", "Channel", "Replacing", "ShutdownWait", "ChannelValue", "ChannelProxy", "ChannelUpdated"]
  | .dom _ => ["Closing", "Shutdown", "RecvClosed", "SendClosed", "WakeClosed"]
  | .ready => ["Ready"]
  | .canRecv => ["CanRecv"]
  | .canStart => ["ChannelCanStart"]
  | .canStop => ["ChannelCanStop"]
  | .setChannel _ => ["SetChannel"]
  | .tag => ["Tag"]
  -- the programs before the repair stand for no method of the current source
  | .origReady => []
  | .origTag => []

def row (name : String) : Option (List Nat) := (accessLists.find? fun p => p.1 == name).map (·.2)

/-- accesses performed by a method that runs alone from word `w` (9 = out of fuel) -/
def trace : Nat → Meth → Nat → List Nat
  | _, .ret _, _ => []
  | 0, _, _ => [9]
  | n + 1, .load k, w => 1 :: trace n (k w) w
  | n + 1, .rmw op k, w =>
    (if op.early w then [4, 1, 5] else [4, 1, 3, 5]) ++ trace n (k (op.ret w)) (op.apply w)

/-- the trace `t` follows one path through the source of method `name` -/
def within (t : List Nat) (name : String) : Bool :=
  match row name with
  | some r => decide (t.Sublist r)
  | none => false

macro "shp" "[" ts:Lean.Parser.Tactic.simpLemma,* "]" : tactic =>
  `(tactic| (simp only [Call.fns, Call.meth, trace, flagM, domM, dom1M, closedM, Op.early, Bool.false_eq_true, ↓reduceIte,
      List.append_nil, Bool.not_true, Bool.not_false, $ts,*] <;> try decide))

/-- every solo trace of every model method, from every word, follows one path through the source row -/
theorem trace_sublist (c : Call) (w : Nat) : (Call.fns c).all (within (trace 8 c.meth w)) = true := by
  cases c with
  | prim op =>
    cases op <;> (simp only [Call.fns, Call.meth, trace]; split <;> decide)
  | last => shp []
  | simple m => shp []
  | dom m => shp []
  | ready => shp []
  | canRecv => shp []
  | canStart => shp []
  | origReady => rfl
  | origTag => rfl
  | tag => simp only [Call.fns, Call.meth, trace]; split <;> decide
  | setChannel e =>
    cases e
    · cases h : has w stChannel <;> cases h2 : has w stChannelProxy <;> cases h3 : has w stChannelValue <;> shp [h, h2, h3]
    · cases h : has w stChannelValue <;> shp [h]
  | canStop =>
    cases h : (has w stClosed || has w stClosing) <;> cases h3 : has w stChannel <;> shp [h, h3]
    by_cases h4 : (w &&& stChannelUpdated == 0) = true <;> by_cases h5 : (Op.tryUnset stChannelUpdated).ret w = true <;>
      simp only [h4, h5, trace, Bool.false_eq_true, ↓reduceIte] <;> decide

end XMT.StateAccShape
