/-
  XMT.StateConc — access-level (interleaving) model of the mutators of c2/state.go.

  Granularity = the sync/atomic operations of the Go source (sequentially consistent single steps
  by the Go memory model).  Every mutator of the repaired code is one compare-and-swap loop

      for { o := Load(); [early return]; if CompareAndSwap(o, f(o)) { return } }

  so a call takes the steps  load, cas, (load, cas)*.  A thread is a list of calls; a schedule is a
  list of thread ids, entry `t` lets thread `t` perform its next access (a finished thread
  stutters).  `Sys.hist` is a ghost: the calls in the order in which they took effect.

  `stepLS` is the same machine for the code *before* the repair (`Store(Load() | v)`: a load step
  and an unconditional store step); it exists for the proved counterexample only.
  Core-only.
-/
import XMT.State
namespace XMT.StateConc
open XMT

inductive Op where
  | set (v : Nat)
  | unset (v : Nat)
  | setLast (v : Nat)
  | tryUnset (v : Nat)
  | trySet (v : Nat)
  deriving DecidableEq, Repr

/-- the word the successful compare-and-swap installs, from the loaded word `o` -/
def Op.apply : Op → Nat → Nat
  | .set v, o => State.set o v
  | .unset v, o => State.unset o v
  | .setLast v, o => State.setLast o v
  | .tryUnset v, o => (State.tryUnset o v).1
  | .trySet v, o => (State.trySet o v).1

/-- the call's result (void methods: `true`) -/
def Op.ret : Op → Nat → Bool
  | .tryUnset v, o => (State.tryUnset o v).2
  | .trySet v, o => (State.trySet o v).2
  | _, _ => true

/-- the call returns straight after its load, without a compare-and-swap -/
def Op.early : Op → Nat → Bool
  | .tryUnset v, o => o &&& v == 0
  | .trySet v, o => o &&& v == v
  | _, _ => false

structure Thread where
  ops : List Op              -- calls still to be made (head = call in progress)
  loaded : Option Nat := none -- the word read by the pending compare-and-swap (none = at the loop head)
  rets : List Bool := []      -- results of the finished calls, in order

structure Ev where
  tid : Nat
  op : Op
  ret : Bool

structure Sys where
  mem : Nat
  thr : List Thread
  hist : List Ev := []
  casFail : Nat := 0

def Sys.init (w : Nat) (progs : List (List Op)) : Sys :=
  { mem := w, thr := progs.map fun p => { ops := p } }

/-- thread `t` performs its next shared-memory access (repaired code) -/
def step (s : Sys) (t : Nat) : Sys :=
  match s.thr[t]? with
  | none => s
  | some th =>
    match th.ops with
    | [] => s
    | op :: rest =>
      match th.loaded with
      | none =>
        -- o := atomic.LoadUint32(s)
        if op.early s.mem then
          { s with thr := s.thr.set t { ops := rest, loaded := none, rets := th.rets ++ [op.ret s.mem] },
                   hist := s.hist ++ [⟨t, op, op.ret s.mem⟩] }
        else
          { s with thr := s.thr.set t { th with loaded := some s.mem } }
      | some o =>
        -- atomic.CompareAndSwapUint32(s, o, f(o))
        if s.mem = o then
          { s with mem := op.apply o,
                   thr := s.thr.set t { ops := rest, loaded := none, rets := th.rets ++ [op.ret o] },
                   hist := s.hist ++ [⟨t, op, op.ret o⟩] }
        else
          { s with thr := s.thr.set t { th with loaded := none }, casFail := s.casFail + 1 }

def run (s : Sys) (sched : List Nat) : Sys := sched.foldl step s

/-- every thread has returned from all its calls -/
def Sys.completed (s : Sys) : Bool := s.thr.all fun th => th.ops.isEmpty

/-- the code before the repair: `Store(f(Load()))`, two independent atomic steps -/
def stepLS (s : Sys) (t : Nat) : Sys :=
  match s.thr[t]? with
  | none => s
  | some th =>
    match th.ops with
    | [] => s
    | op :: rest =>
      match th.loaded with
      | none => { s with thr := s.thr.set t { th with loaded := some s.mem } }
      | some o =>
        { s with mem := op.apply o,
                 thr := s.thr.set t { ops := rest, loaded := none, rets := th.rets ++ [op.ret o] },
                 hist := s.hist ++ [⟨t, op, op.ret o⟩] }

def runLS (s : Sys) (sched : List Nat) : Sys := sched.foldl stepLS s

/-! ### sequential specification -/

/-- `Lin w h m`: executing the calls of `h` one after the other from word `w` is legal (each
recorded result is the result of that call on the word it meets) and ends in word `m`. -/
inductive Lin (w : Nat) : List Ev → Nat → Prop where
  | nil : Lin w [] w
  | snoc {h : List Ev} {m : Nat} (e : Ev) : Lin w h m → e.ret = e.op.ret m → Lin w (h ++ [e]) (e.op.apply m)

/-- the calls of thread `t` in a history -/
def proj (t : Nat) (h : List Ev) : List Ev := h.filter fun e => e.tid == t

/-- flag bit `k` may be set / cleared by the call -/
def Op.sets (k : Nat) : Op → Bool
  | .set v => v.testBit k
  | .trySet v => v.testBit k
  | _ => false
def Op.clears (k : Nat) : Op → Bool
  | .unset v => v.testBit k
  | .tryUnset v => v.testBit k
  | _ => false
/-- the call writes the last-group half -/
def Op.isSetLast : Op → Bool
  | .setLast _ => true
  | _ => false
/-- the call's mask is a flag mask (below 2^16) — `SetLast` takes a uint16 -/
def Op.flagOnly : Op → Bool
  | .set v => v < 2 ^ 16
  | .unset v => v < 2 ^ 16
  | .tryUnset v => v < 2 ^ 16
  | .trySet v => v < 2 ^ 16
  | .setLast _ => false
def Op.lastOk : Op → Bool
  | .setLast v => v < 2 ^ 16
  | _ => true

/-- the argument of the last `SetLast` call in a list of calls -/
def lastWritten (l : List Op) : Option Nat :=
  l.foldl (fun acc op => match op with | .setLast v => some v | _ => acc) none

end XMT.StateConc
