/-
  XMT.StateConcLemmas — the invariant behind linearizability of the compare-and-swap mutators,
  and what a legal sequential history implies for individual bits.
-/
import XMT.StateConc
import XMT.StateLemmas
set_option linter.unusedSimpArgs false
namespace XMT.StateConc
open XMT XMT.State

/-- an early return leaves the word as it is -/
theorem early_apply (op : Op) (o : Nat) (h : op.early o = true) : op.apply o = o := by
  cases op <;> simp_all [Op.early, Op.apply, State.tryUnset, State.trySet]

/-- The invariant: the ghost history is a legal sequential execution that ends in the current
word, and every thread's finished calls + remaining calls are its program, with the results it
actually returned. -/
structure Inv (w : Nat) (progs : List (List Op)) (s : Sys) : Prop where
  lin : Lin w s.hist s.mem
  len : s.thr.length = progs.length
  tid : ∀ e ∈ s.hist, e.tid < progs.length
  thr : ∀ t th, s.thr[t]? = some th →
    ∃ p, progs[t]? = some p ∧ (proj t s.hist).map (·.op) ++ th.ops = p ∧ th.rets = (proj t s.hist).map (·.ret)

theorem inv_init (w : Nat) (progs : List (List Op)) : Inv w progs (Sys.init w progs) := by
  refine ⟨Lin.nil, by simp [Sys.init], by simp [Sys.init], ?_⟩
  intro t th h
  simp only [Sys.init, List.getElem?_map, Option.map_eq_some_iff] at h
  obtain ⟨p, hp, rfl⟩ := h
  exact ⟨p, hp, by simp [proj, Sys.init], by simp [proj, Sys.init]⟩

theorem proj_append_same (t : Nat) (h : List Ev) (e : Ev) (he : e.tid = t) : proj t (h ++ [e]) = proj t h ++ [e] := by
  simp [proj, List.filter_append, he]

theorem proj_append_other (t : Nat) (h : List Ev) (e : Ev) (he : e.tid ≠ t) : proj t (h ++ [e]) = proj t h := by
  simp [proj, List.filter_append, he]

/-- a call takes effect -/
theorem inv_complete {w : Nat} {progs : List (List Op)} {s : Sys} (hi : Inv w progs s) {t : Nat} {th : Thread}
    {op : Op} {rest : List Op} (ht : s.thr[t]? = some th) (hops : th.ops = op :: rest) (m' c : Nat)
    (hm : m' = op.apply s.mem) :
    Inv w progs { mem := m', thr := s.thr.set t { ops := rest, loaded := none, rets := th.rets ++ [op.ret s.mem] },
                  hist := s.hist ++ [⟨t, op, op.ret s.mem⟩], casFail := c } := by
  have htl : t < s.thr.length := by
    rcases Nat.lt_or_ge t s.thr.length with h | h
    · exact h
    · rw [List.getElem?_eq_none h] at ht; cases ht
  refine ⟨?_, ?_, ?_, ?_⟩
  · subst hm; exact Lin.snoc (⟨t, op, op.ret s.mem⟩ : Ev) hi.lin rfl
  · simp [hi.len]
  · intro e he
    simp only [List.mem_append, List.mem_singleton] at he
    rcases he with he | rfl
    · exact hi.tid e he
    · simpa [← hi.len] using htl
  · intro t' th' h'
    simp only [List.getElem?_set] at h'
    by_cases htt : t = t'
    · subst htt
      simp only [htl, ↓reduceIte, Option.some.injEq] at h'
      subst h'
      obtain ⟨p, hp, h1, h2⟩ := hi.thr t th ht
      refine ⟨p, hp, ?_, ?_⟩
      · show List.map (·.op) (proj t (s.hist ++ [⟨t, op, op.ret s.mem⟩])) ++ rest = p
        rw [proj_append_same t s.hist ⟨t, op, op.ret s.mem⟩ rfl, ← h1, hops]; simp
      · show th.rets ++ [op.ret s.mem] = List.map (·.ret) (proj t (s.hist ++ [⟨t, op, op.ret s.mem⟩]))
        rw [proj_append_same t s.hist ⟨t, op, op.ret s.mem⟩ rfl, h2]; simp
    · simp only [htt, ↓reduceIte] at h'
      obtain ⟨p, hp, h1, h2⟩ := hi.thr t' th' h'
      have hne : (⟨t, op, op.ret s.mem⟩ : Ev).tid ≠ t' := htt
      refine ⟨p, hp, ?_, ?_⟩
      · show List.map (·.op) (proj t' (s.hist ++ [⟨t, op, op.ret s.mem⟩])) ++ th'.ops = p
        rw [proj_append_other _ _ _ hne]; exact h1
      · show th'.rets = List.map (·.ret) (proj t' (s.hist ++ [⟨t, op, op.ret s.mem⟩]))
        rw [proj_append_other _ _ _ hne]; exact h2

/-- a step that only touches the thread's private `loaded` register -/
theorem inv_local {w : Nat} {progs : List (List Op)} {s : Sys} (hi : Inv w progs s) {t : Nat} {th : Thread}
    (ht : s.thr[t]? = some th) (l : Option Nat) (c : Nat) :
    Inv w progs { s with thr := s.thr.set t { th with loaded := l }, casFail := c } := by
  refine ⟨hi.lin, by simp [hi.len], hi.tid, ?_⟩
  intro t' th' h'
  simp only [List.getElem?_set] at h'
  by_cases htt : t = t'
  · subst htt
    have htl : t < s.thr.length := by
      rcases Nat.lt_or_ge t s.thr.length with h | h
      · exact h
      · rw [List.getElem?_eq_none h] at ht; cases ht
    simp only [htl, ↓reduceIte, Option.some.injEq] at h'
    subst h'
    exact hi.thr t th ht
  · simp only [htt, ↓reduceIte] at h'
    exact hi.thr t' th' h'

theorem inv_step {w : Nat} {progs : List (List Op)} {s : Sys} (hi : Inv w progs s) (t : Nat) :
    Inv w progs (step s t) := by
  unfold step
  split
  · exact hi
  · rename_i th ht
    split
    · exact hi
    · rename_i op rest hops
      split
      · split
        · rename_i he
          exact inv_complete hi ht hops s.mem s.casFail (early_apply op s.mem he).symm
        · exact inv_local hi ht (some s.mem) s.casFail
      · rename_i o hl
        split
        · rename_i hm
          have := inv_complete hi ht hops (op.apply o) s.casFail (by rw [hm])
          rw [hm] at this
          exact this
        · exact inv_local hi ht none (s.casFail + 1)

theorem inv_run {w : Nat} {progs : List (List Op)} {s : Sys} (hi : Inv w progs s) (sched : List Nat) :
    Inv w progs (run s sched) := by
  induction sched generalizing s with
  | nil => exact hi
  | cons t ts ih => exact ih (inv_step hi t)

/-! ### what one call does to one flag bit -/

theorem and_eq_self_testBit {m v k : Nat} (h : (m &&& v == v) = true) (hv : v.testBit k = true) : m.testBit k = true := by
  have h0 : m &&& v = v := by simpa using h
  have := congrArg (fun x => x.testBit k) h0
  simp only [Nat.testBit_and, hv, Bool.and_true] at this
  exact this

theorem and_eq_zero_testBit {m v k : Nat} (h : (m &&& v == 0) = true) (hv : v.testBit k = true) : m.testBit k = false := by
  have h0 : m &&& v = 0 := by simpa using h
  have := congrArg (fun x => x.testBit k) h0
  simp only [Nat.testBit_and, hv, Bool.and_true, Nat.zero_testBit] at this
  exact this

theorem apply_keeps_set {k : Nat} (op : Op) (m : Nat) (hk : k < 16) (hc : op.clears k = false)
    (hm : m.testBit k = true) : (op.apply m).testBit k = true := by
  have h32 : k < 32 := by omega
  have h16 : ¬ 16 ≤ k := by omega
  cases op with
  | set v => simp [Op.apply, testBit_set, hm]
  | unset v => simp only [Op.clears] at hc; simp [Op.apply, testBit_unset, hm, hc, h32]
  | setLast v => simp [Op.apply, testBit_setLast, hm, hk, h16]
  | tryUnset v =>
    simp only [Op.clears] at hc
    simp only [Op.apply, State.tryUnset]
    split
    · exact hm
    · simp [testBit_andNot, hm, hc, h32]
  | trySet v =>
    simp only [Op.apply, State.trySet]
    split
    · exact hm
    · simp [hm]

theorem apply_keeps_clear {k : Nat} (op : Op) (m : Nat) (hk : k < 16) (hc : op.sets k = false)
    (hm : m.testBit k = false) : (op.apply m).testBit k = false := by
  have h16 : ¬ 16 ≤ k := by omega
  cases op with
  | set v => simp only [Op.sets] at hc; simp [Op.apply, testBit_set, hm, hc]
  | unset v => simp [Op.apply, testBit_unset, hm]
  | setLast v => simp [Op.apply, testBit_setLast, hm, hk, h16]
  | tryUnset v =>
    simp only [Op.apply, State.tryUnset]
    split
    · exact hm
    · simp [testBit_andNot, hm]
  | trySet v =>
    simp only [Op.sets] at hc
    simp only [Op.apply, State.trySet]
    split
    · exact hm
    · simp [hm, hc]

theorem apply_sets {k : Nat} (op : Op) (m : Nat) (hs : op.sets k = true) : (op.apply m).testBit k = true := by
  cases op with
  | set v => simp only [Op.sets] at hs; simp [Op.apply, testBit_set, hs]
  | trySet v =>
    simp only [Op.sets] at hs
    simp only [Op.apply, State.trySet]
    split
    · rename_i h; exact and_eq_self_testBit h hs
    · simp [hs]
  | _ => simp [Op.sets] at hs

theorem apply_clears {k : Nat} (op : Op) (m : Nat) (hk : k < 16) (hs : op.clears k = true) :
    (op.apply m).testBit k = false := by
  have h32 : k < 32 := by omega
  cases op with
  | unset v => simp only [Op.clears] at hs; simp [Op.apply, testBit_unset, hs, h32]
  | tryUnset v =>
    simp only [Op.clears] at hs
    simp only [Op.apply, State.tryUnset]
    split
    · rename_i h; exact and_eq_zero_testBit h hs
    · simp [testBit_andNot, hs, h32]
  | _ => simp [Op.clears] at hs

/-! ### consequences of a legal sequential history -/

theorem lin_bit_set {w m k : Nat} {h : List Ev} (hl : Lin w h m) (hk : k < 16)
    (hc : ∀ e ∈ h, e.op.clears k = false) (hs : w.testBit k = true ∨ ∃ e ∈ h, e.op.sets k = true) :
    m.testBit k = true := by
  induction hl with
  | nil => rcases hs with hs | ⟨e, he, _⟩
           · exact hs
           · cases he
  | @snoc h m e hl _ ih =>
    by_cases he : e.op.sets k = true
    · exact apply_sets e.op m he
    · apply apply_keeps_set e.op m hk (hc e (by simp))
      apply ih (fun e' he' => hc e' (by simp [he']))
      rcases hs with hs | ⟨e', he', hs'⟩
      · exact Or.inl hs
      · simp only [List.mem_append, List.mem_singleton] at he'
        rcases he' with he' | rfl
        · exact Or.inr ⟨e', he', hs'⟩
        · exact absurd hs' he

theorem lin_bit_clear {w m k : Nat} {h : List Ev} (hl : Lin w h m) (hk : k < 16)
    (hc : ∀ e ∈ h, e.op.sets k = false) (hs : w.testBit k = false ∨ ∃ e ∈ h, e.op.clears k = true) :
    m.testBit k = false := by
  induction hl with
  | nil => rcases hs with hs | ⟨e, he, _⟩
           · exact hs
           · cases he
  | @snoc h m e hl _ ih =>
    by_cases he : e.op.clears k = true
    · exact apply_clears e.op m hk he
    · apply apply_keeps_clear e.op m hk (hc e (by simp))
      apply ih (fun e' he' => hc e' (by simp [he']))
      rcases hs with hs | ⟨e', he', hs'⟩
      · exact Or.inl hs
      · simp only [List.mem_append, List.mem_singleton] at he'
        rcases he' with he' | rfl
        · exact Or.inr ⟨e', he', hs'⟩
        · exact absurd hs' he

theorem apply_flagOnly_last (op : Op) (m : Nat) (h : op.flagOnly = true) : State.last (op.apply m) = State.last m := by
  cases op with
  | set v => simp only [Op.flagOnly, decide_eq_true_eq] at h; exact last_set m h
  | unset v => simp only [Op.flagOnly, decide_eq_true_eq] at h; exact last_unset m h
  | setLast v => simp [Op.flagOnly] at h
  | tryUnset v =>
    simp only [Op.flagOnly, decide_eq_true_eq] at h
    simp only [Op.apply, State.tryUnset]
    split
    · rfl
    · exact last_unset m h
  | trySet v =>
    simp only [Op.flagOnly, decide_eq_true_eq] at h
    simp only [Op.apply, State.trySet]
    split
    · rfl
    · exact last_set m h

theorem lin_last_flagOnly {w m : Nat} {h : List Ev} (hl : Lin w h m) (hf : ∀ e ∈ h, e.op.flagOnly = true) :
    State.last m = State.last w := by
  induction hl with
  | nil => rfl
  | @snoc h m e hl _ ih =>
    rw [apply_flagOnly_last e.op m (hf e (by simp)), ih (fun e' he' => hf e' (by simp [he']))]

theorem lin_flags_setLast {w m : Nat} {h : List Ev} (hl : Lin w h m) (hf : ∀ e ∈ h, e.op.isSetLast = true) :
    State.flags m = State.flags w := by
  induction hl with
  | nil => rfl
  | @snoc h m e hl _ ih =>
    have := hf e (by simp)
    rw [← ih (fun e' he' => hf e' (by simp [he']))]
    cases he : e.op with
    | setLast v => exact flags_setLast m v
    | _ => simp [he, Op.isSetLast] at this

/-! ### a tryUnset of one flag is won exactly once -/

/-- number of `tryUnset(2^k)` calls in the history that reported success -/
def winsTU (k : Nat) (h : List Ev) : Nat := (h.filter fun e => e.op == .tryUnset (2 ^ k) && e.ret).length

theorem winsTU_snoc (k : Nat) (h : List Ev) (e : Ev) :
    winsTU k (h ++ [e]) = winsTU k h + (if (e.op == .tryUnset (2 ^ k) && e.ret) = true then 1 else 0) := by
  unfold winsTU
  rw [List.filter_append, List.length_append]
  by_cases hc : (e.op == .tryUnset (2 ^ k) && e.ret) = true <;> simp [hc]

theorem lin_TU_once {w m k : Nat} {h : List Ev} (hl : Lin w h m)
    (hops : ∀ e ∈ h, e.op = .tryUnset (2 ^ k) ∨ (e.op.sets k = false ∧ e.op.clears k = false)) (hk : k < 16) :
    (w.testBit k = true →
      (m.testBit k = true ∧ winsTU k h = 0 ∧ ∀ e ∈ h, e.op ≠ .tryUnset (2 ^ k)) ∨ (m.testBit k = false ∧ winsTU k h = 1)) ∧
    (w.testBit k = false → m.testBit k = false ∧ winsTU k h = 0) := by
  induction hl with
  | nil => exact ⟨fun hw => Or.inl ⟨hw, rfl, fun e he => by cases he⟩, fun hw => ⟨hw, rfl⟩⟩
  | @snoc h m e hl hret ih =>
    have ih := ih (fun e' he' => hops e' (by simp [he']))
    rw [winsTU_snoc]
    rcases hops e (by simp) with hop | ⟨hs, hc⟩
    · -- the call is tryUnset(2^k)
      cases hm : m.testBit k
      all_goals
        have hr : e.ret = e.op.ret m := hret
        rw [hop] at hr ⊢
        simp only [Op.ret, Op.apply] at hr ⊢
      · -- bit clear: the call fails and changes nothing
        rw [tryUnset_pow_of_clear hm] at hr ⊢
        simp only [hr, Bool.and_false, Bool.false_eq_true, ↓reduceIte, Nat.add_zero, hm]
        refine ⟨fun hw => ?_, fun hw => ?_⟩
        · rcases ih.1 hw with ⟨h1, _, _⟩ | ⟨_, h2⟩
          · rw [hm] at h1; cases h1
          · exact Or.inr ⟨by first | trivial | rfl, h2⟩
        · exact ⟨by first | trivial | rfl, (ih.2 hw).2⟩
      · -- bit set: the call wins and clears it
        rw [tryUnset_pow_of_set hm] at hr ⊢
        have hb : (State.unset m (2 ^ k)).testBit k = false := by
          rw [testBit_unset]; simp [Nat.testBit_two_pow_self, show k < 32 by omega]
        simp only [hr, hb, beq_self_eq_true, Bool.and_self, ↓reduceIte]
        refine ⟨fun hw => ?_, fun hw => ?_⟩
        · rcases ih.1 hw with ⟨_, h2, _⟩ | ⟨h1, _⟩
          · exact Or.inr ⟨by first | trivial | rfl, by rw [h2]⟩
          · rw [hm] at h1; cases h1
        · have := (ih.2 hw).1; rw [hm] at this; cases this
    · -- any other call leaves bit k alone and is not counted
      have hne : e.op ≠ .tryUnset (2 ^ k) := by
        intro h'; rw [h'] at hs hc; first | (simp [Op.clears, Nat.testBit_two_pow_self] at hc; done) | (simp [Op.sets, Nat.testBit_two_pow_self] at hs; done)
      have hb : (e.op.apply m).testBit k = m.testBit k := by
        cases hm : m.testBit k
        · exact apply_keeps_clear e.op m hk hs hm
        · exact apply_keeps_set e.op m hk hc hm
      have hcnt : (e.op == .tryUnset (2 ^ k) && e.ret) = false := by simp [hne]
      rw [hb, hcnt]
      refine ⟨fun hw => ?_, fun hw => ?_⟩
      · rcases ih.1 hw with ⟨h1, h2, h3⟩ | ⟨h1, h2⟩
        · refine Or.inl ⟨h1, by simpa using h2, ?_⟩
          intro e' he'
          simp only [List.mem_append, List.mem_singleton] at he'
          rcases he' with he' | rfl
          · exact h3 e' he'
          · exact hne
        · exact Or.inr ⟨h1, by simpa using h2⟩
      · exact ⟨(ih.2 hw).1, by simpa using (ih.2 hw).2⟩

theorem lin_TU_winner {w m k : Nat} {h : List Ev} (hl : Lin w h m)
    (hops : ∀ e ∈ h, e.op = .tryUnset (2 ^ k) ∨ (e.op.sets k = false ∧ e.op.clears k = false)) (hk : k < 16) :
    winsTU k h = if w.testBit k = true ∧ ∃ e ∈ h, e.op = .tryUnset (2 ^ k) then 1 else 0 := by
  have := lin_TU_once hl hops hk
  cases hw : w.testBit k
  · simp [(this.2 hw).2]
  · rcases this.1 hw with ⟨_, h2, h3⟩ | ⟨_, h2⟩
    · have : ¬ ∃ e ∈ h, e.op = .tryUnset (2 ^ k) := fun ⟨e, he, h'⟩ => h3 e he h'
      simp [h2, this]
    · have hex : ∃ e ∈ h, e.op = .tryUnset (2 ^ k) := by
        apply Classical.byContradiction; intro hn
        have h0 : winsTU k h = 0 := by
          unfold winsTU
          rw [List.length_eq_zero_iff, List.filter_eq_nil_iff]
          intro e he hc
          simp only [Bool.and_eq_true, beq_iff_eq] at hc
          exact hn ⟨e, he, hc.1⟩
        omega
      simp [h2, hex]

/-! ### a trySet of one flag is won exactly once -/

/-- number of `trySet(2^k)` calls in the history that reported success -/
def winsTS (k : Nat) (h : List Ev) : Nat := (h.filter fun e => e.op == .trySet (2 ^ k) && e.ret).length

theorem winsTS_snoc (k : Nat) (h : List Ev) (e : Ev) :
    winsTS k (h ++ [e]) = winsTS k h + (if (e.op == .trySet (2 ^ k) && e.ret) = true then 1 else 0) := by
  unfold winsTS
  rw [List.filter_append, List.length_append]
  by_cases hc : (e.op == .trySet (2 ^ k) && e.ret) = true <;> simp [hc]

theorem lin_TS_once {w m k : Nat} {h : List Ev} (hl : Lin w h m)
    (hops : ∀ e ∈ h, e.op = .trySet (2 ^ k) ∨ (e.op.sets k = false ∧ e.op.clears k = false)) (hk : k < 16) :
    (w.testBit k = false →
      (m.testBit k = false ∧ winsTS k h = 0 ∧ ∀ e ∈ h, e.op ≠ .trySet (2 ^ k)) ∨ (m.testBit k = true ∧ winsTS k h = 1)) ∧
    (w.testBit k = true → m.testBit k = true ∧ winsTS k h = 0) := by
  induction hl with
  | nil => exact ⟨fun hw => Or.inl ⟨hw, rfl, fun e he => by cases he⟩, fun hw => ⟨hw, rfl⟩⟩
  | @snoc h m e hl hret ih =>
    have ih := ih (fun e' he' => hops e' (by simp [he']))
    rw [winsTS_snoc]
    rcases hops e (by simp) with hop | ⟨hs, hc⟩
    · -- the call is trySet(2^k)
      cases hm : m.testBit k
      all_goals
        have hr : e.ret = e.op.ret m := hret
        rw [hop] at hr ⊢
        simp only [Op.ret, Op.apply] at hr ⊢
      · -- bit clear: the call wins and sets it
        rw [trySet_pow_of_clear hm] at hr ⊢
        have hb : (State.set m (2 ^ k)).testBit k = true := by
          rw [testBit_set]; simp [Nat.testBit_two_pow_self]
        simp only [hr, hb, beq_self_eq_true, Bool.and_self, ↓reduceIte]
        refine ⟨fun hw => ?_, fun hw => ?_⟩
        · rcases ih.1 hw with ⟨_, h2, _⟩ | ⟨h1, _⟩
          · exact Or.inr ⟨by first | trivial | rfl, by rw [h2]⟩
          · rw [hm] at h1; cases h1
        · have := (ih.2 hw).1; rw [hm] at this; cases this
      · -- bit set: the call fails and changes nothing
        rw [trySet_pow_of_set hm] at hr ⊢
        simp only [hr, Bool.and_false, Bool.false_eq_true, ↓reduceIte, Nat.add_zero, hm]
        refine ⟨fun hw => ?_, fun hw => ?_⟩
        · rcases ih.1 hw with ⟨h1, _, _⟩ | ⟨_, h2⟩
          · rw [hm] at h1; cases h1
          · exact Or.inr ⟨by first | trivial | rfl, h2⟩
        · exact ⟨by first | trivial | rfl, (ih.2 hw).2⟩
    · -- any other call leaves bit k alone and is not counted
      have hne : e.op ≠ .trySet (2 ^ k) := by
        intro h'; rw [h'] at hs hc; first | (simp [Op.clears, Nat.testBit_two_pow_self] at hc; done) | (simp [Op.sets, Nat.testBit_two_pow_self] at hs; done)
      have hb : (e.op.apply m).testBit k = m.testBit k := by
        cases hm : m.testBit k
        · exact apply_keeps_clear e.op m hk hs hm
        · exact apply_keeps_set e.op m hk hc hm
      have hcnt : (e.op == .trySet (2 ^ k) && e.ret) = false := by simp [hne]
      rw [hb, hcnt]
      refine ⟨fun hw => ?_, fun hw => ?_⟩
      · rcases ih.1 hw with ⟨h1, h2, h3⟩ | ⟨h1, h2⟩
        · refine Or.inl ⟨h1, by simpa using h2, ?_⟩
          intro e' he'
          simp only [List.mem_append, List.mem_singleton] at he'
          rcases he' with he' | rfl
          · exact h3 e' he'
          · exact hne
        · exact Or.inr ⟨h1, by simpa using h2⟩
      · exact ⟨(ih.2 hw).1, by simpa using (ih.2 hw).2⟩

theorem lin_TS_winner {w m k : Nat} {h : List Ev} (hl : Lin w h m)
    (hops : ∀ e ∈ h, e.op = .trySet (2 ^ k) ∨ (e.op.sets k = false ∧ e.op.clears k = false)) (hk : k < 16) :
    winsTS k h = if w.testBit k = false ∧ ∃ e ∈ h, e.op = .trySet (2 ^ k) then 1 else 0 := by
  have := lin_TS_once hl hops hk
  cases hw : w.testBit k
  · rcases this.1 hw with ⟨_, h2, h3⟩ | ⟨_, h2⟩
    · have : ¬ ∃ e ∈ h, e.op = .trySet (2 ^ k) := fun ⟨e, he, h'⟩ => h3 e he h'
      simp [h2, this]
    · have hex : ∃ e ∈ h, e.op = .trySet (2 ^ k) := by
        apply Classical.byContradiction; intro hn
        have h0 : winsTS k h = 0 := by
          unfold winsTS
          rw [List.length_eq_zero_iff, List.filter_eq_nil_iff]
          intro e he hc
          simp only [Bool.and_eq_true, beq_iff_eq] at hc
          exact hn ⟨e, he, hc.1⟩
        omega
      simp [h2, hex]
  · simp [(this.2 hw).2]

/-! ### the history contains exactly the calls of the programs -/

theorem getElem?_of_lt_thr {s : Sys} {t : Nat} (h : t < s.thr.length) : ∃ th, s.thr[t]? = some th :=
  ⟨s.thr[t], List.getElem?_eq_getElem h⟩

theorem inv_op_of_hist {w : Nat} {progs : List (List Op)} {s : Sys} (hi : Inv w progs s) {e : Ev} (he : e ∈ s.hist) :
    ∃ p ∈ progs, e.op ∈ p := by
  have ht : e.tid < s.thr.length := by rw [hi.len]; exact hi.tid e he
  obtain ⟨th, hth⟩ := getElem?_of_lt_thr ht
  obtain ⟨p, hp, h1, _⟩ := hi.thr e.tid th hth
  refine ⟨p, List.mem_of_getElem? hp, ?_⟩
  rw [← h1]
  apply List.mem_append_left
  apply List.mem_map.mpr
  exact ⟨e, by simp [proj, he], rfl⟩

theorem inv_hist_of_op {w : Nat} {progs : List (List Op)} {s : Sys} (hi : Inv w progs s) (hc : s.completed = true)
    {p : List Op} (hp : p ∈ progs) {op : Op} (hop : op ∈ p) : ∃ e ∈ s.hist, e.op = op := by
  obtain ⟨t, ht, hpt⟩ := List.getElem_of_mem hp
  have ht' : t < s.thr.length := by rw [hi.len]; exact ht
  obtain ⟨th, hth⟩ := getElem?_of_lt_thr ht'
  obtain ⟨p', hp', h1, _⟩ := hi.thr t th hth
  have : p' = p := by
    rw [List.getElem?_eq_getElem ht] at hp'
    rw [← hpt]; exact (Option.some.inj hp').symm
  subst this
  have hops : th.ops = [] := by
    have := List.all_eq_true.mp hc th (List.mem_of_getElem? hth)
    simpa using this
  rw [hops, List.append_nil] at h1
  rw [← h1] at hop
  obtain ⟨e, he, heq⟩ := List.mem_map.mp hop
  exact ⟨e, (List.mem_filter.mp he).1, heq⟩

/-! ### the last group value with a single writer -/

theorem inv_op_of_hist_tid {w : Nat} {progs : List (List Op)} {s : Sys} (hi : Inv w progs s) {e : Ev} (he : e ∈ s.hist) :
    ∃ p, progs[e.tid]? = some p ∧ e.op ∈ p := by
  have ht : e.tid < s.thr.length := by rw [hi.len]; exact hi.tid e he
  obtain ⟨th, hth⟩ := getElem?_of_lt_thr ht
  obtain ⟨p, hp, h1, _⟩ := hi.thr e.tid th hth
  refine ⟨p, hp, ?_⟩
  rw [← h1]
  apply List.mem_append_left
  apply List.mem_map.mpr
  exact ⟨e, by simp [proj, he], rfl⟩

def lwStep (acc : Option Nat) (op : Op) : Option Nat := match op with | .setLast v => some v | _ => acc

theorem lastWritten_eq (l : List Op) : lastWritten l = l.foldl lwStep none := rfl

theorem lastWritten_snoc (l : List Op) (op : Op) : lastWritten (l ++ [op]) = lwStep (lastWritten l) op := by
  simp [lastWritten_eq, List.foldl_append]

theorem foldl_lwStep_filter (l : List Op) (acc : Option Nat) :
    l.foldl lwStep acc = (l.filter Op.isSetLast).foldl lwStep acc := by
  induction l generalizing acc with
  | nil => rfl
  | cons op l ih =>
    cases op <;> simp [List.filter_cons, Op.isSetLast, lwStep, ih]

theorem lastWritten_filter (l : List Op) : lastWritten l = lastWritten (l.filter Op.isSetLast) := by
  rw [lastWritten_eq, lastWritten_eq, foldl_lwStep_filter]

theorem flagOnly_not_setLast (op : Op) (h : op.flagOnly = true) : op.isSetLast = false := by
  cases op <;> simp_all [Op.flagOnly, Op.isSetLast]

theorem lin_last_written {w m : Nat} {h : List Ev} (hl : Lin w h m)
    (hf : ∀ e ∈ h, e.op.flagOnly = true ∨ (e.op.isSetLast = true ∧ e.op.lastOk = true)) :
    State.last m = (lastWritten (h.map (·.op))).getD (State.last w) := by
  induction hl with
  | nil => rfl
  | @snoc h m e hl _ ih =>
    have ih := ih (fun e' he' => hf e' (by simp [he']))
    rw [List.map_append, List.map_singleton, lastWritten_snoc]
    rcases hf e (by simp) with hfo | ⟨hsl, hok⟩
    · rw [apply_flagOnly_last e.op m hfo, ih]
      have := flagOnly_not_setLast e.op hfo
      cases he : e.op <;> simp_all [lwStep, Op.isSetLast]
    · cases he : e.op with
      | setLast v =>
        rw [he] at hok
        simp only [Op.lastOk, decide_eq_true_eq] at hok
        simp [Op.apply, lwStep, last_setLast m hok]
      | _ => simp [he, Op.isSetLast] at hsl

theorem setLast_ops_of_writer {h : List Ev} {p : Nat} (hp : ∀ e ∈ h, e.op.isSetLast = true → e.tid = p) :
    (h.map (·.op)).filter Op.isSetLast = ((proj p h).map (·.op)).filter Op.isSetLast := by
  rw [List.filter_map, List.filter_map, proj, List.filter_filter]
  congr 1
  apply List.filter_congr
  intro e he
  simp only [Function.comp]
  cases hs : e.op.isSetLast
  · simp
  · simp [hp e he hs]

/-! ### progress: a thread that runs alone finishes its call within three accesses -/

theorem thr_ops_step_other {s : Sys} {t t' : Nat} (h : t ≠ t') : (step s t).thr[t']? = s.thr[t']? := by
  unfold step
  split
  · rfl
  · split
    · rfl
    · split
      · split <;> simp [List.getElem?_set, h]
      · split <;> simp [List.getElem?_set, h]

theorem lt_of_getElem? {s : Sys} {t : Nat} {th : Thread} (ht : s.thr[t]? = some th) : t < s.thr.length := by
  rcases Nat.lt_or_ge t s.thr.length with h | h
  · exact h
  · rw [List.getElem?_eq_none h] at ht; cases ht

/-- what one step does to the stepping thread and to the word -/
theorem step_self {s : Sys} {t : Nat} {th : Thread} {op : Op} {rest : List Op}
    (ht : s.thr[t]? = some th) (hops : th.ops = op :: rest) :
    ∃ th', (step s t).thr[t]? = some th' ∧
      ((th'.ops = rest) ∨
       (th'.ops = op :: rest ∧ th.loaded = none ∧ th'.loaded = some (step s t).mem) ∨
       (th'.ops = op :: rest ∧ th.loaded ≠ none ∧ th.loaded ≠ some s.mem ∧ th'.loaded = none)) := by
  have hlt := lt_of_getElem? ht
  unfold step
  simp only [ht, hops]
  cases hl : th.loaded with
  | none =>
    by_cases he : op.early s.mem = true
    · simp [he, hlt]
    · simp [he, hlt, hops]
  | some o =>
    by_cases hm : s.mem = o
    · simp [hm, hlt]
    · simp [hm, hlt, hops]; exact fun h => hm h.symm

theorem step_length (s : Sys) (t : Nat) : (step s t).thr.length = s.thr.length := by
  unfold step
  split
  · rfl
  · split
    · rfl
    · split
      · split <;> simp
      · split <;> simp

theorem run_length (s : Sys) (sch : List Nat) : (run s sch).thr.length = s.thr.length := by
  induction sch generalizing s with
  | nil => rfl
  | cons t ts ih => exact (ih (step s t)).trans (step_length s t)

theorem run_append (s : Sys) (a b : List Nat) : run s (a ++ b) = run (run s a) b := by
  simp [run, List.foldl_append]

theorem run_other {s : Sys} {t t' : Nat} (sch : List Nat) (hs : ∀ x ∈ sch, x = t) (h : t ≠ t') :
    (run s sch).thr[t']? = s.thr[t']? := by
  induction sch generalizing s with
  | nil => rfl
  | cons x xs ih =>
    have hx : x = t := hs x (by simp)
    subst hx
    exact (ih (s := step s x) (fun y hy => hs y (by simp [hy]))).trans (thr_ops_step_other h)

/-- a thread at the head of its loop finishes the call in at most two accesses of its own -/
theorem solo_none {s : Sys} {t : Nat} {th : Thread} {op : Op} {rest : List Op}
    (ht : s.thr[t]? = some th) (hops : th.ops = op :: rest) (hl : th.loaded = none) :
    ∃ sch, (∀ x ∈ sch, x = t) ∧ ∃ th', (run s sch).thr[t]? = some th' ∧ th'.ops = rest := by
  obtain ⟨th1, h1, hc⟩ := step_self ht hops
  rcases hc with hd | ⟨ho, _, hld⟩ | ⟨_, hne, _⟩
  · exact ⟨[t], by simp, th1, h1, hd⟩
  · obtain ⟨th2, h2, hc2⟩ := step_self h1 ho
    rcases hc2 with hd | ⟨_, hn, _⟩ | ⟨_, _, hne, _⟩
    · exact ⟨[t, t], by simp, th2, h2, hd⟩
    · rw [hld] at hn; cases hn
    · exact absurd hld hne
  · exact absurd hl hne

theorem solo_call {s : Sys} {t : Nat} {th : Thread} {op : Op} {rest : List Op}
    (ht : s.thr[t]? = some th) (hops : th.ops = op :: rest) :
    ∃ sch, (∀ x ∈ sch, x = t) ∧ ∃ th', (run s sch).thr[t]? = some th' ∧ th'.ops = rest := by
  cases hl : th.loaded with
  | none => exact solo_none ht hops hl
  | some o =>
    obtain ⟨th1, h1, hc⟩ := step_self ht hops
    rcases hc with hd | ⟨_, hn, _⟩ | ⟨ho, _, _, hld⟩
    · exact ⟨[t], by simp, th1, h1, hd⟩
    · rw [hl] at hn; cases hn
    · obtain ⟨sch, hs, th2, h2, hd⟩ := solo_none h1 ho hld
      refine ⟨t :: sch, ?_, th2, h2, hd⟩
      intro x hx
      simp only [List.mem_cons] at hx
      rcases hx with rfl | hx
      · rfl
      · exact hs x hx

theorem solo_thread (n : Nat) : ∀ {s : Sys} {t : Nat} {th : Thread}, s.thr[t]? = some th → th.ops.length = n →
    ∃ sch, (∀ x ∈ sch, x = t) ∧ ∃ th', (run s sch).thr[t]? = some th' ∧ th'.ops = [] := by
  induction n with
  | zero =>
    intro s t th ht hn
    exact ⟨[], by simp, th, ht, List.length_eq_zero_iff.mp hn⟩
  | succ n ih =>
    intro s t th ht hn
    match hops : th.ops with
    | [] => rw [hops] at hn; cases hn
    | op :: rest =>
      obtain ⟨sch, hs, th1, h1, hd⟩ := solo_call ht hops
      have hlen : th1.ops.length = n := by rw [hd]; rw [hops] at hn; simpa using hn
      obtain ⟨sch2, hs2, th2, h2, hd2⟩ := ih h1 hlen
      refine ⟨sch ++ sch2, ?_, th2, by rw [run_append]; exact h2, hd2⟩
      intro x hx
      rcases List.mem_append.mp hx with hx | hx
      · exact hs x hx
      · exact hs2 x hx

theorem finish_first (s : Sys) (n : Nat) (hn : n ≤ s.thr.length) :
    ∃ sch, ∀ t, t < n → ∃ th, (run s sch).thr[t]? = some th ∧ th.ops = [] := by
  induction n with
  | zero => exact ⟨[], fun t ht => absurd ht (Nat.not_lt_zero t)⟩
  | succ n ih =>
    obtain ⟨sch, h⟩ := ih (Nat.le_of_succ_le hn)
    have hlt : n < (run s sch).thr.length := by rw [run_length]; exact hn
    obtain ⟨th, hth⟩ := getElem?_of_lt_thr hlt
    obtain ⟨sch2, hs2, th2, h2, hd2⟩ := solo_thread th.ops.length hth rfl
    refine ⟨sch ++ sch2, fun t ht => ?_⟩
    rw [run_append]
    by_cases htn : t = n
    · subst htn; exact ⟨th2, h2, hd2⟩
    · have : t < n := by omega
      rw [run_other sch2 hs2 (Ne.symm htn)]
      exact h t this

/-- from every reachable or unreachable state some continuation of the schedule lets all calls return -/
theorem exists_completion (s : Sys) : ∃ sch, (run s sch).completed = true := by
  obtain ⟨sch, h⟩ := finish_first s s.thr.length (Nat.le_refl _)
  refine ⟨sch, ?_⟩
  unfold Sys.completed
  rw [List.all_eq_true]
  intro th hth
  obtain ⟨t, ht, heq⟩ := List.getElem_of_mem hth
  have ht' : t < s.thr.length := by rw [run_length] at ht; exact ht
  obtain ⟨th', h1, h2⟩ := h t ht'
  rw [List.getElem?_eq_getElem ht] at h1
  have : th = th' := by rw [← heq]; exact Option.some.inj h1
  subst this
  simp [h2]

end XMT.StateConc
