/-
  XMT.StateLemmas — bit-level lemmas about the sequential model of c2/state.go.
  Everything is reduced to `Nat.testBit`; the flag constants enter only through
  `stX = 2 ^ kX`, `kX < 16` and pairwise distinctness (obligations on the regenerated facts,
  closed by `decide`), so a reordering of the iota block re-proves.
-/
import XMT.State
namespace XMT.State

def kCanRecv := Facts.stateCanRecvBit
def kReady := Facts.stateReadyBit
def kClosed := Facts.stateClosedBit
def kClosing := Facts.stateClosingBit
def kShutdown := Facts.stateShutdownBit
def kSendClose := Facts.stateSendCloseBit
def kRecvClose := Facts.stateRecvCloseBit
def kWakeClose := Facts.stateWakeCloseBit
def kChannel := Facts.stateChannelBit
def kValue := Facts.stateChannelValueBit
def kUpdated := Facts.stateChannelUpdatedBit
def kProxy := Facts.stateChannelProxyBit
def kSeen := Facts.stateSeenBit
def kMoving := Facts.stateMovingBit
def kReplacing := Facts.stateReplacingBit
def kShutdownWait := Facts.stateShutdownWaitBit

/-- obligations on the facts: every flag is the single bit `kX` -/
theorem flag_eqs :
    stCanRecv = 2 ^ kCanRecv ∧ stReady = 2 ^ kReady ∧ stClosed = 2 ^ kClosed ∧ stClosing = 2 ^ kClosing ∧
    stShutdown = 2 ^ kShutdown ∧ stSendClose = 2 ^ kSendClose ∧ stRecvClose = 2 ^ kRecvClose ∧
    stWakeClose = 2 ^ kWakeClose ∧ stChannel = 2 ^ kChannel ∧ stChannelValue = 2 ^ kValue ∧
    stChannelUpdated = 2 ^ kUpdated ∧ stChannelProxy = 2 ^ kProxy ∧ stSeen = 2 ^ kSeen ∧
    stMoving = 2 ^ kMoving ∧ stReplacing = 2 ^ kReplacing ∧ stShutdownWait = 2 ^ kShutdownWait := by
  decide

def allK : List Nat := [kCanRecv, kReady, kClosed, kClosing, kShutdown, kSendClose, kRecvClose, kWakeClose,
  kChannel, kValue, kUpdated, kProxy, kSeen, kMoving, kReplacing, kShutdownWait]

/-- obligations on the facts: 16 distinct positions in the low half -/
theorem allK_lt : ∀ k ∈ allK, k < 16 := by decide
theorem allK_nodup : allK.Nodup := by decide

/-! ### generic bit lemmas -/

theorem and_pow (s k : Nat) : s &&& 2 ^ k = if s.testBit k then 2 ^ k else 0 := by
  apply Nat.eq_of_testBit_eq; intro i
  rw [Nat.testBit_and, Nat.testBit_two_pow]
  by_cases h : k = i
  · subst h; cases hs : s.testBit k <;> simp [Nat.testBit_two_pow_self]
  · cases hs : s.testBit k <;> simp [h, Nat.testBit_two_pow_of_ne h]

theorem has_pow (s k : Nat) : has s (2 ^ k) = s.testBit k := by
  unfold has
  rw [and_pow]
  cases h : s.testBit k <;> simp

theorem and_pow_eq_zero (s k : Nat) : (s &&& 2 ^ k == 0) = !s.testBit k := by
  rw [and_pow]
  cases h : s.testBit k <;> simp

theorem and_pow_eq_self (s k : Nat) : (s &&& 2 ^ k == 2 ^ k) = s.testBit k := by
  rw [and_pow]
  cases h : s.testBit k <;> simp
  exact Nat.ne_of_lt (Nat.pow_pos (by decide))

theorem testBit_mask32 (i : Nat) : mask32.testBit i = decide (i < 32) := by
  unfold mask32; exact Nat.testBit_two_pow_sub_one 32 i

theorem testBit_set (s v i : Nat) : (set s v).testBit i = (s.testBit i || v.testBit i) := by
  simp [set]

theorem testBit_andNot (s v i : Nat) :
    (andNot s v).testBit i = (s.testBit i && (v.testBit i != decide (i < 32))) := by
  simp [andNot, Nat.testBit_and, Nat.testBit_xor, testBit_mask32]

theorem testBit_unset (s v i : Nat) :
    (unset s v).testBit i = (s.testBit i && (v.testBit i != decide (i < 32))) := testBit_andNot s v i

theorem testBit_setLast (s v i : Nat) :
    (setLast s v).testBit i =
      ((decide (i < 32) && (decide (16 ≤ i) && v.testBit (i - 16))) || (decide (i < 16) && s.testBit i)) := by
  simp only [setLast, Nat.testBit_or, Nat.testBit_mod_two_pow, Nat.testBit_shiftLeft, ge_iff_le]

theorem testBit_last (s i : Nat) : (last s).testBit i = (decide (i < 16) && s.testBit (16 + i)) := by
  simp only [last, Nat.testBit_mod_two_pow, Nat.testBit_shiftRight]

theorem testBit_flags (s i : Nat) : (flags s).testBit i = (decide (i < 16) && s.testBit i) := by
  simp only [flags, Nat.testBit_mod_two_pow]

theorem testBit_of_lt {v i j : Nat} (h : v < 2 ^ i) (hij : i ≤ j) : v.testBit j = false :=
  Nat.testBit_lt_two_pow (Nat.lt_of_lt_of_le h (Nat.pow_le_pow_right (by decide) hij))

/-! ### well-formedness is preserved -/

theorem set_lt {s v : Nat} (hs : s < 2 ^ 32) (hv : v < 2 ^ 32) : set s v < 2 ^ 32 :=
  Nat.or_lt_two_pow hs hv
theorem unset_lt {s : Nat} (v : Nat) (hs : s < 2 ^ 32) : unset s v < 2 ^ 32 :=
  Nat.lt_of_le_of_lt Nat.and_le_left hs
theorem setLast_lt (s v : Nat) : setLast s v < 2 ^ 32 := by
  unfold setLast
  apply Nat.or_lt_two_pow
  · exact Nat.mod_lt _ (by decide)
  · exact Nat.lt_of_lt_of_le (Nat.mod_lt _ (by decide)) (by decide)

/-! ### flags and the last group are independent -/

theorem last_set {v : Nat} (s : Nat) (hv : v < 2 ^ 16) : last (set s v) = last s := by
  apply Nat.eq_of_testBit_eq; intro i
  simp only [testBit_last, testBit_set]
  rw [testBit_of_lt hv (Nat.le_add_right 16 i)]; simp

theorem last_unset {v : Nat} (s : Nat) (hv : v < 2 ^ 16) : last (unset s v) = last s := by
  apply Nat.eq_of_testBit_eq; intro i
  simp only [testBit_last, testBit_unset]
  rw [testBit_of_lt hv (Nat.le_add_right 16 i)]
  by_cases h : i < 16
  · have : 16 + i < 32 := by omega
    simp [h, this]
  · simp [h]

theorem flags_setLast (s v : Nat) : flags (setLast s v) = flags s := by
  apply Nat.eq_of_testBit_eq; intro i
  simp only [testBit_flags, testBit_setLast]
  by_cases h : i < 16
  · have : ¬ 16 ≤ i := by omega
    simp [h, this]
  · simp [h]

theorem last_setLast {v : Nat} (s : Nat) (hv : v < 2 ^ 16) : last (setLast s v) = v := by
  apply Nat.eq_of_testBit_eq; intro i
  simp only [testBit_last, testBit_setLast]
  by_cases h : i < 16
  · have h1 : 16 + i < 32 := by omega
    have h2 : ¬ 16 + i < 16 := by omega
    simp [h, h1, h2]
  · simp [h]
    exact testBit_of_lt hv (Nat.le_of_not_lt h)

/-- a flag-bit query does not see the last group -/
theorem has_setLast {k : Nat} (s v : Nat) (hk : k < 16) : has (setLast s v) (2 ^ k) = has s (2 ^ k) := by
  rw [has_pow, has_pow, testBit_setLast]
  have : ¬ 16 ≤ k := by omega
  simp [hk, this]

theorem tryUnset_fst {s : Nat} (v : Nat) (hs : s < 2 ^ 32) : (tryUnset s v).1 = unset s v := by
  unfold tryUnset
  split
  · rename_i h
    apply Nat.eq_of_testBit_eq; intro i
    rw [testBit_unset]
    have h0 : s &&& v = 0 := by simpa using h
    have := congrArg (fun x => x.testBit i) h0
    simp only [Nat.testBit_and, Nat.zero_testBit] at this
    by_cases h32 : i < 32
    · cases hs' : s.testBit i <;> cases hv : v.testBit i <;> simp_all
    · have : s.testBit i = false := testBit_of_lt hs (by omega)
      simp [this]
  · rfl

/-! ### per-flag obligations on the regenerated facts (closed by `decide`) and the predicates as bit tests -/

theorem stCanRecv_eq : stCanRecv = 2 ^ kCanRecv := by decide
theorem kCanRecv_lt : kCanRecv < 16 := by decide
theorem has_stCanRecv (s : Nat) : has s stCanRecv = s.testBit kCanRecv := by rw [stCanRecv_eq, has_pow]
theorem stReady_eq : stReady = 2 ^ kReady := by decide
theorem kReady_lt : kReady < 16 := by decide
theorem has_stReady (s : Nat) : has s stReady = s.testBit kReady := by rw [stReady_eq, has_pow]
theorem stClosed_eq : stClosed = 2 ^ kClosed := by decide
theorem kClosed_lt : kClosed < 16 := by decide
theorem has_stClosed (s : Nat) : has s stClosed = s.testBit kClosed := by rw [stClosed_eq, has_pow]
theorem stClosing_eq : stClosing = 2 ^ kClosing := by decide
theorem kClosing_lt : kClosing < 16 := by decide
theorem has_stClosing (s : Nat) : has s stClosing = s.testBit kClosing := by rw [stClosing_eq, has_pow]
theorem stShutdown_eq : stShutdown = 2 ^ kShutdown := by decide
theorem kShutdown_lt : kShutdown < 16 := by decide
theorem has_stShutdown (s : Nat) : has s stShutdown = s.testBit kShutdown := by rw [stShutdown_eq, has_pow]
theorem stSendClose_eq : stSendClose = 2 ^ kSendClose := by decide
theorem kSendClose_lt : kSendClose < 16 := by decide
theorem has_stSendClose (s : Nat) : has s stSendClose = s.testBit kSendClose := by rw [stSendClose_eq, has_pow]
theorem stRecvClose_eq : stRecvClose = 2 ^ kRecvClose := by decide
theorem kRecvClose_lt : kRecvClose < 16 := by decide
theorem has_stRecvClose (s : Nat) : has s stRecvClose = s.testBit kRecvClose := by rw [stRecvClose_eq, has_pow]
theorem stWakeClose_eq : stWakeClose = 2 ^ kWakeClose := by decide
theorem kWakeClose_lt : kWakeClose < 16 := by decide
theorem has_stWakeClose (s : Nat) : has s stWakeClose = s.testBit kWakeClose := by rw [stWakeClose_eq, has_pow]
theorem stChannel_eq : stChannel = 2 ^ kChannel := by decide
theorem kChannel_lt : kChannel < 16 := by decide
theorem has_stChannel (s : Nat) : has s stChannel = s.testBit kChannel := by rw [stChannel_eq, has_pow]
theorem stChannelValue_eq : stChannelValue = 2 ^ kValue := by decide
theorem kValue_lt : kValue < 16 := by decide
theorem has_stChannelValue (s : Nat) : has s stChannelValue = s.testBit kValue := by rw [stChannelValue_eq, has_pow]
theorem stChannelUpdated_eq : stChannelUpdated = 2 ^ kUpdated := by decide
theorem kUpdated_lt : kUpdated < 16 := by decide
theorem has_stChannelUpdated (s : Nat) : has s stChannelUpdated = s.testBit kUpdated := by rw [stChannelUpdated_eq, has_pow]
theorem stChannelProxy_eq : stChannelProxy = 2 ^ kProxy := by decide
theorem kProxy_lt : kProxy < 16 := by decide
theorem has_stChannelProxy (s : Nat) : has s stChannelProxy = s.testBit kProxy := by rw [stChannelProxy_eq, has_pow]
theorem stSeen_eq : stSeen = 2 ^ kSeen := by decide
theorem kSeen_lt : kSeen < 16 := by decide
theorem has_stSeen (s : Nat) : has s stSeen = s.testBit kSeen := by rw [stSeen_eq, has_pow]
theorem stMoving_eq : stMoving = 2 ^ kMoving := by decide
theorem kMoving_lt : kMoving < 16 := by decide
theorem has_stMoving (s : Nat) : has s stMoving = s.testBit kMoving := by rw [stMoving_eq, has_pow]
theorem stReplacing_eq : stReplacing = 2 ^ kReplacing := by decide
theorem kReplacing_lt : kReplacing < 16 := by decide
theorem has_stReplacing (s : Nat) : has s stReplacing = s.testBit kReplacing := by rw [stReplacing_eq, has_pow]
theorem stShutdownWait_eq : stShutdownWait = 2 ^ kShutdownWait := by decide
theorem kShutdownWait_lt : kShutdownWait < 16 := by decide
theorem has_stShutdownWait (s : Nat) : has s stShutdownWait = s.testBit kShutdownWait := by rw [stShutdownWait_eq, has_pow]

theorem testBit_unset_wf {s : Nat} (v i : Nat) (hs : s < 2 ^ 32) :
    (unset s v).testBit i = (s.testBit i && !v.testBit i) := by
  rw [testBit_unset]
  by_cases h : i < 32
  · simp [h]
  · have : s.testBit i = false := testBit_of_lt hs (Nat.le_of_not_lt h)
    simp [this]

theorem testBit_set_pow (s k i : Nat) : (set s (2 ^ k)).testBit i = (s.testBit i || decide (k = i)) := by
  rw [testBit_set, Nat.testBit_two_pow]

theorem testBit_unset_pow {s : Nat} (k i : Nat) (hs : s < 2 ^ 32) :
    (unset s (2 ^ k)).testBit i = (s.testBit i && !decide (k = i)) := by
  rw [testBit_unset_wf _ _ hs, Nat.testBit_two_pow]

theorem tryUnset_pow_of_set {s k : Nat} (h : s.testBit k = true) : tryUnset s (2 ^ k) = (unset s (2 ^ k), true) := by
  simp [tryUnset, and_pow_eq_zero, h, unset]
theorem tryUnset_pow_of_clear {s k : Nat} (h : s.testBit k = false) : tryUnset s (2 ^ k) = (s, false) := by
  simp [tryUnset, and_pow_eq_zero, h]
theorem trySet_pow_of_clear {s k : Nat} (h : s.testBit k = false) : trySet s (2 ^ k) = (set s (2 ^ k), true) := by
  simp [trySet, and_pow_eq_self, h, set]
theorem trySet_pow_of_set {s k : Nat} (h : s.testBit k = true) : trySet s (2 ^ k) = (s, false) := by
  simp [trySet, and_pow_eq_self, h]

end XMT.State
