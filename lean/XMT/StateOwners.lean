/-
  XMT.StateOwners — which function of package c2 (outside state.go) may set / clear which flag of a
  state word: the reviewed table that the regenerated fact `Facts.c13FuncMasks` (go/cmd/xmth/
  c13_masks.go: per function the union of the constant masks it passes to Set/trySet resp.
  Unset/tryUnset on a `state` field) is compared with on every run.

  The numbers are the state* constants of c2/state.go (Facts.c13State*, checked distinct low bits by
  Props.C13.flags_are_distinct_low_bits): 1 seen, 2 ready, 4 closed, 8 closing, 16 moving,
  32 closed-send, 64 closed-wake, 128 closed-recv, 256 channel, 512 channel-value,
  1024 channel-updated, 2048 channel-proxy, 4096 can-recv, 8192 replacing, 16384 shutdown-wait,
  32768 tagged/oneshot.
-/
import XMT.Generated.Facts
namespace XMT.StateOwners

/-- (function, bits it may set, bits it may clear) as reviewed against c2 at the pinned commit. -/
def reviewed : List (String × Nat × Nat) :=
  [("Listener.Close", 8, 0), ("Listener.Replace", 16384, 16384), ("Listener.clientClear", 0, 2048),
   ("Listener.clientSet", 2048, 0), ("Listener.listen", 140, 0), ("Proxy.Close", 8, 0),
   ("Proxy.Replace", 16384, 16384), ("Proxy.accept", 2, 0), ("Proxy.clientClear", 0, 2048),
   ("Proxy.clientSet", 2048, 0), ("Proxy.listen", 140, 0), ("Proxy.talk", 4096, 0),
   ("Proxy.talkSub", 4098, 0), ("Session.MigrateProfile", 8200, 8192), ("Session.Packets", 1, 0),
   ("Session.close", 8, 1792), ("Session.listen", 16, 1792), ("Session.session", 256, 256),
   ("Session.shutdown", 228, 0), ("Session.wait", 8, 0), ("conn.process", 0, 256), ("conn.start", 256, 0),
   ("conn.stop", 0, 256), ("proxyClient.Close", 164, 1792), ("proxyClient.next", 2, 2),
   ("proxyClient.update", 4096, 0), ("receiveSingle", 32768, 0)]

/-- functions that may change bit `b` (set it, clear it) according to a table -/
def setters (t : List (String × Nat × Nat)) (b : Nat) : List String :=
  (t.filter fun r => r.2.1 &&& b != 0).map (·.1)
def clearers (t : List (String × Nat × Nat)) (b : Nat) : List String :=
  (t.filter fun r => r.2.2 &&& b != 0).map (·.1)

end XMT.StateOwners
