/-
  XMT.StateRT — real-time order for the interleaving machine of XMT.StateConc.

  `stepT` is `StateConc.step` plus ghost clocks (the machine itself is untouched: `stepT_sys`):
  `now` counts the schedule entries consumed, `started[t]` is the schedule position of the FIRST
  shared-memory access of the call thread `t` is in (the latest moment that can count as the
  call's invocation), and every call that takes effect is logged with that position (`inv`) and
  the position of its LAST access (`fin`, the earliest moment that can count as its return).
  "A returned before B was invoked" is therefore at most `A.fin < B.inv`; `TInv` shows that the
  log (which is the linearization `Sys.hist` of `linearizable`) is strictly sorted by `fin` and
  that `inv ≤ fin`, hence it respects that order.
  Core-only.
-/
import XMT.StateConcLemmas
namespace XMT.StateRT
open XMT XMT.State XMT.StateConc

structure TEv where
  ev : Ev
  inv : Nat
  fin : Nat

structure TSys where
  sys : Sys
  now : Nat := 0
  started : List (Option Nat)
  thist : List TEv := []

def TSys.init (w : Nat) (progs : List (List Op)) : TSys :=
  { sys := Sys.init w progs, started := progs.map fun _ => none }

/-- entry `t` of the schedule performs an access (the thread exists and has a call left) -/
def active (s : Sys) (t : Nat) : Bool :=
  match s.thr[t]? with
  | some th => !th.ops.isEmpty
  | none => false

/-- position of the first access of the call thread `t` is in, if this entry is not the first -/
def startOf (s : TSys) (t : Nat) : Nat :=
  match s.started[t]? with
  | some (some i) => i
  | _ => s.now

def stepT (s : TSys) (t : Nat) : TSys :=
  match (step s.sys t).hist.drop s.sys.hist.length with
  | e :: _ =>
    { sys := step s.sys t, now := s.now + 1, started := s.started.set t none,
      thist := s.thist ++ [⟨e, startOf s t, s.now⟩] }
  | [] =>
    { sys := step s.sys t, now := s.now + 1,
      started := if active s.sys t then s.started.set t (some (startOf s t)) else s.started,
      thist := s.thist }

def runT (s : TSys) (sched : List Nat) : TSys := sched.foldl stepT s

/-- the ghost clocks do not influence the machine -/
theorem stepT_sys (s : TSys) (t : Nat) : (stepT s t).sys = step s.sys t := by
  unfold stepT; split <;> rfl

theorem runT_sys (s : TSys) (sched : List Nat) : (runT s sched).sys = run s.sys sched := by
  induction sched generalizing s with
  | nil => rfl
  | cons t ts ih =>
    show (runT (stepT s t) ts).sys = run (step s.sys t) ts
    rw [ih, stepT_sys]

theorem stepT_now (s : TSys) (t : Nat) : (stepT s t).now = s.now + 1 := by
  unfold stepT; split <;> rfl

theorem runT_now (s : TSys) (sched : List Nat) : (runT s sched).now = s.now + sched.length := by
  induction sched generalizing s with
  | nil => rfl
  | cons t ts ih =>
    show (runT (stepT s t) ts).now = _
    rw [ih, stepT_now, List.length_cons]; omega

/-- one access logs at most one call, and it is a call of the thread that moved -/
theorem step_hist (s : Sys) (t : Nat) :
    (step s t).hist = s.hist ∨ ∃ op r, (step s t).hist = s.hist ++ [⟨t, op, r⟩] := by
  unfold step
  split
  · exact Or.inl rfl
  · split
    · exact Or.inl rfl
    · split
      · split
        · exact Or.inr ⟨_, _, rfl⟩
        · exact Or.inl rfl
      · split
        · exact Or.inr ⟨_, _, rfl⟩
        · exact Or.inl rfl

structure TInv (s : TSys) : Prop where
  erase : s.thist.map (·.ev) = s.sys.hist
  bound : ∀ te ∈ s.thist, te.inv ≤ te.fin ∧ te.fin < s.now
  sorted : s.thist.Pairwise (fun a b => a.fin < b.fin)
  start : ∀ t i, s.started[t]? = some (some i) → i < s.now ∧ ∀ te ∈ s.thist, te.ev.tid = t → te.fin < i
  prog : s.thist.Pairwise (fun a b => a.ev.tid = b.ev.tid → a.fin < b.inv)

theorem tinv_init (w : Nat) (progs : List (List Op)) : TInv (TSys.init w progs) := by
  refine ⟨rfl, by simp [TSys.init], by simp [TSys.init], ?_, by simp [TSys.init]⟩
  intro t i h
  simp only [TSys.init, List.getElem?_map, Option.map_eq_some_iff] at h
  obtain ⟨_, _, h⟩ := h
  cases h

theorem startOf_spec {s : TSys} (hi : TInv s) (t : Nat) :
    startOf s t ≤ s.now ∧ ∀ te ∈ s.thist, te.ev.tid = t → te.fin < startOf s t := by
  unfold startOf
  split
  · rename_i i h
    have := hi.start t i h
    exact ⟨by omega, this.2⟩
  · exact ⟨Nat.le_refl _, fun te hte _ => (hi.bound te hte).2⟩

theorem tinv_step {s : TSys} (hi : TInv s) (t : Nat) : TInv (stepT s t) := by
  have hso := startOf_spec hi t
  unfold stepT
  rcases step_hist s.sys t with h | ⟨op, r, h⟩
  · -- nothing took effect
    rw [h, List.drop_length]
    refine ⟨?_, ?_, hi.sorted, ?_, hi.prog⟩
    · show s.thist.map (·.ev) = (step s.sys t).hist
      rw [h]; exact hi.erase
    · intro te hte
      have := hi.bound te hte
      exact ⟨this.1, by show te.fin < s.now + 1; omega⟩
    · intro t' i hst
      show i < s.now + 1 ∧ ∀ te ∈ s.thist, te.ev.tid = t' → te.fin < i
      by_cases ha : active s.sys t = true
      · simp only [ha, ↓reduceIte] at hst
        rw [List.getElem?_set] at hst
        by_cases htt : t = t'
        · subst htt
          simp only [↓reduceIte] at hst
          split at hst
          · simp only [Option.some.injEq] at hst
            subst hst
            exact ⟨by omega, hso.2⟩
          · cases hst
        · simp only [htt, ↓reduceIte] at hst
          have := hi.start t' i hst
          exact ⟨by omega, this.2⟩
      · rw [if_neg ha] at hst
        have := hi.start t' i hst
        exact ⟨by omega, this.2⟩
  · -- a call of thread t took effect at this access
    rw [h, List.drop_left]
    refine ⟨?_, ?_, ?_, ?_, ?_⟩
    · show (s.thist ++ [TEv.mk ⟨t, op, r⟩ (startOf s t) s.now]).map (·.ev) = (step s.sys t).hist
      rw [h, List.map_append, hi.erase]; rfl
    · intro te hte
      show te.inv ≤ te.fin ∧ te.fin < s.now + 1
      simp only [List.mem_append, List.mem_singleton] at hte
      rcases hte with hte | rfl
      · have := hi.bound te hte; exact ⟨this.1, by omega⟩
      · exact ⟨hso.1, by show s.now < s.now + 1; omega⟩
    · show (s.thist ++ [TEv.mk ⟨t, op, r⟩ (startOf s t) s.now]).Pairwise _
      rw [List.pairwise_append]
      refine ⟨hi.sorted, by simp, ?_⟩
      intro a ha b hb
      simp only [List.mem_singleton] at hb
      subst hb
      exact (hi.bound a ha).2
    · intro t' i hst
      show i < s.now + 1 ∧ ∀ te ∈ s.thist ++ [TEv.mk ⟨t, op, r⟩ (startOf s t) s.now], te.ev.tid = t' → te.fin < i
      rw [List.getElem?_set] at hst
      by_cases htt : t = t'
      · subst htt
        simp only [↓reduceIte] at hst
        split at hst <;> cases hst
      · simp only [htt, ↓reduceIte] at hst
        have := hi.start t' i hst
        refine ⟨by omega, ?_⟩
        intro te hte htid
        simp only [List.mem_append, List.mem_singleton] at hte
        rcases hte with hte | rfl
        · exact this.2 te hte htid
        · exact absurd htid htt
    · show (s.thist ++ [TEv.mk ⟨t, op, r⟩ (startOf s t) s.now]).Pairwise _
      rw [List.pairwise_append]
      refine ⟨hi.prog, by simp, ?_⟩
      intro a ha b hb
      simp only [List.mem_singleton] at hb
      subst hb
      intro htid
      exact hso.2 a ha htid

theorem tinv_run {s : TSys} (hi : TInv s) (sched : List Nat) : TInv (runT s sched) := by
  induction sched generalizing s with
  | nil => exact hi
  | cons t ts ih => exact ih (tinv_step hi t)

/-- a log strictly sorted by `fin` with `inv ≤ fin` respects real-time order -/
theorem realtime_of_sorted {l : List TEv} (hs : l.Pairwise (fun a b => a.fin < b.fin))
    (hb : ∀ te ∈ l, te.inv ≤ te.fin) (i j : Nat) (hi : i < l.length) (hj : j < l.length)
    (h : l[i].fin < l[j].inv) : i < j := by
  rcases Nat.lt_or_ge i j with hlt | hge
  · exact hlt
  · exfalso
    have hbj := hb l[j] (List.getElem_mem hj)
    rcases Nat.eq_or_lt_of_le hge with heq | hlt
    · subst heq; omega
    · have := List.pairwise_iff_getElem.mp hs j i hj hi hlt
      omega

end XMT.StateRT
