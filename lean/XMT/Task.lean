/-
  XMT.Task — model of the task / filter / launcher description codecs (property C18).

  * c2/task/{v_process,v_dll,zombie,v_assembly}.go `MarshalStream`  (server side, `!implant`)
    c2/task/{process,dll,zombie,assembly}.go `UnmarshalStream`       (implant side)
      are straight-line sequences of primitive codec calls.  They are NOT transcribed by hand: the
      ordered (field, wire kind) lists are regenerated from the two Go functions on every run
      (`Facts.c18_schema_<T>_marshal/_unmarshal`) and interpreted by the generic schema codec
      `encS` / `decS` below.
  * cmd/filter/filter.go  `(*Filter).MarshalStream`, `(*Filter).UnmarshalStream`,
      `filter.UnmarshalStream`, `unmarshalStream`, `isEmpty`            (hand-modelled: guards)
  * man/sentinel.go  `sentinelPath` and `Sentinel` codecs, `Sentinel.Write/Read` (file frame
      IV ++ CTR(codec))                                                  (hand-modelled: guards, loop)
    The hand models are tied to the source by the normalised function bodies
    `Facts.c18_body_*` (compared with the expected text in Props/C18, `tie_*`).

  Everything is built on the primitive codec of XMT.Codec (C10); decoders are generic in the
  reader implementation (`Prim S`): tasks are read from a Packet (in-memory Chunk), launcher
  files from a stream reader over an io.Reader that may deliver short reads.
  Decoding is into a FRESH destination (zero struct / nil pointer), which is what every caller in
  the repository does (`var p Process`, `var s Sentinel`, `var f *filter.Filter`).
-/
import XMT.Codec
namespace XMT.Task
open XMT XMT.Codec

/-! ### cmd/filter.Filter -/

structure Filter where
  exclude : List Bytes
  incl : List Bytes
  pid : Nat
  fallback : Bool
  session : UInt8
  elevated : UInt8
  deriving DecidableEq, Repr

/-- `new(Filter)` / the zero value of an embedded Filter. -/
def Filter.zero : Filter := ⟨[], [], 0, false, 0, 0⟩

/-- `Filter.isEmpty` (note: `Fallback` is not inspected). -/
def Filter.isEmpty (f : Filter) : Bool :=
  f.pid == 0 && f.session.toNat == Facts.c18_filterEmpty && f.elevated.toNat == Facts.c18_filterEmpty
    && f.exclude.length == 0 && f.incl.length == 0

/-- What the Go types can hold. -/
def Filter.WF (f : Filter) : Prop :=
  f.pid < 2^32 ∧ (Val.strs f.exclude).WF ∧ (Val.strs f.incl).WF

/-- The six writes after the presence flag, in source order. -/
def filterBody (f : Filter) : List Val :=
  [.u32 f.pid, .bool f.fallback, .u8 f.session, .u8 f.elevated, .strs f.exclude, .strs f.incl]

/-- `(*Filter).MarshalStream`: `nil` and empty filters are a single `false`. -/
def encFilter : Option Filter → Bytes
  | none => encChunk (.bool false)
  | some f =>
    if f.isEmpty then encChunk (.bool false)
    else encChunk (.bool true) ++ encAllChunk (filterBody f)

/-- The normalisation the codec applies to a `*Filter` field: empty becomes `nil`. -/
def normPtr : Option Filter → Option Filter
  | none => none
  | some f => if f.isEmpty then none else some f

/-- … and to an embedded `Filter` value (Sentinel): empty becomes the zero value. -/
def normVal (f : Filter) : Filter := if f.isEmpty then Filter.zero else f

section Readers
variable {S : Type} (P : Prim S)

/-- `ReadBool` / `Bool()`: `b == 1`. -/
def decBool (s : S) : Except Err (Bool × S) := do
  let (b, s) ← P.u8 s
  pure (b = 1, s)

/-- `(*Filter).unmarshalStream` into a zero Filter. -/
def decFilterBody (s : S) : Except Err (Filter × S) := do
  let (pid, s) ← P.u32 s
  let (fb, s) ← decBool P s
  let (se, s) ← P.u8 s
  let (el, s) ← P.u8 s
  let (ex, s) ← decStrs P s
  let (inc, s) ← decStrs P s
  pure ({ exclude := ex, incl := inc, pid := pid, fallback := fb, session := se, elevated := el }, s)

/-- `filter.UnmarshalStream(r, &f)` with `f == nil`: stays nil when the flag is false. -/
def decFilterPtr (s : S) : Except Err (Option Filter × S) := do
  let (v, s) ← decBool P s
  if !v then pure (none, s)
  else do
    let (f, s) ← decFilterBody P s
    pure (some f, s)

/-- `(*Filter).UnmarshalStream(r)` on an embedded zero Filter: stays zero when the flag is false. -/
def decFilterVal (s : S) : Except Err (Filter × S) := do
  let (v, s) ← decBool P s
  if !v then pure (Filter.zero, s)
  else decFilterBody P s

end Readers

/-! ### Generic schema codec (Process, DLL, Zombie, Assembly) -/

inductive FTy | prim (t : Ty) | filter
  deriving DecidableEq, Repr

inductive FVal | prim (v : Val) | filter (f : Option Filter)
  deriving DecidableEq, Repr

def FVal.ty : FVal → FTy
  | .prim v => .prim v.ty
  | .filter _ => .filter

def FVal.WF : FVal → Prop
  | .prim v => v.WF
  | .filter none => True
  | .filter (some f) => f.WF

def normF : FVal → FVal
  | .prim v => .prim v
  | .filter f => .filter (normPtr f)

/-- ordered (Go struct field, wire type) list of one Marshal/UnmarshalStream function -/
abbrev Schema := List (String × FTy)

/-- wire kinds as printed by the extractor (`go/cmd/xmth/c18facts.go`) -/
def kindOf : String → Option FTy
  | "b" => some (.prim .bool)
  | "u8" => some (.prim .u8)
  | "u16" => some (.prim .u16)
  | "u32" => some (.prim .u32)
  | "u64" => some (.prim .u64)
  | "by" => some (.prim .bytes)
  | "sl" => some (.prim .strs)
  | "filter" => some .filter
  | _ => none

/-- An extracted trace is a schema when every call was recognised. -/
def schemaOf : List (String × String) → Option Schema
  | [] => some []
  | (n, k) :: l =>
    match kindOf k, schemaOf l with
    | some t, some W => some ((n, t) :: W)
    | _, _ => none

/-- A description: the value of every struct field, by Go field name. -/
abbrev Rec := String → FVal

def encF : FVal → Bytes
  | .prim v => encChunk v
  | .filter f => encFilter f

/-- Run a writer schema on a description. -/
def encS (W : Schema) (ρ : Rec) : Bytes := W.flatMap fun e => encF (ρ e.1)

/-- The description is well typed for the schema and its values fit the Go types. -/
def WT (W : Schema) (ρ : Rec) : Prop := ∀ e ∈ W, (ρ e.1).ty = e.2 ∧ (ρ e.1).WF

section Readers
variable {S : Type} (P : Prim S)

def decF : FTy → S → Except Err (FVal × S)
  | .prim t, s => do let (v, s) ← dec P t s; pure (.prim v, s)
  | .filter, s => do let (f, s) ← decFilterPtr P s; pure (.filter f, s)

/-- Run a reader schema: the decoded fields in schema order. -/
def decS : Schema → S → Except Err (List (String × FVal) × S)
  | [], s => pure ([], s)
  | (n, t) :: W, s => do
    let (v, s) ← decF P t s
    let (r, s) ← decS W s
    pure ((n, v) :: r, s)

end Readers

/-- What decoding the encoding of `ρ` must give: every field of the schema, normalised. -/
def normRec (W : Schema) (ρ : Rec) : List (String × FVal) := W.map fun e => (e.1, normF (ρ e.1))

/-- The statement of C18 for one task type, given the writer trace `m` (from `v_*.go`), the reader
trace `u` (from the implant-side file) and the struct's field list `fields`, all three extracted
from the current source: both traces are schemas, every struct field is on the wire, and decoding
with the READER's schema what the WRITER's schema encoded returns every field (normalised) and
consumes exactly the encoding — from a Packet (Chunk reader) and from any short-read stream. -/
def TaskRoundTrips (m u : List (String × String)) (fields : List String) : Prop :=
  ∃ Wm Wu : Schema, schemaOf m = some Wm ∧ schemaOf u = some Wu ∧
    (∀ f ∈ fields, f ∈ Wm.map Prod.fst) ∧
    ∀ (ρ : Rec) (rest : Bytes), WT Wm ρ →
      decS chunkPrim Wu (encS Wm ρ ++ rest) = .ok (normRec Wm ρ, rest) ∧
      ∀ cs : Stream, (∀ c ∈ cs, c ≠ []) → cs.flatten = encS Wm ρ ++ rest →
        ∃ cs', decS streamPrim Wu cs = .ok (normRec Wm ρ, cs') ∧ cs'.flatten = rest

/-! ### man.sentinelPath / man.Sentinel -/

structure SPath where
  t : UInt8
  path : Bytes
  extra : List Bytes
  deriving DecidableEq, Repr

structure Sentinel where
  paths : List SPath
  filter : Filter
  deriving DecidableEq, Repr

def SPath.WF (p : SPath) : Prop := p.path.length ≤ Facts.maxSlice ∧ (Val.strs p.extra).WF

/-- `sentinelPath.MarshalStream`: kinds below `sentPathDownload` carry no argument list. -/
def encPath (p : SPath) : Bytes :=
  encChunk (.u8 p.t) ++ encChunk (.bytes p.path) ++
    (if p.t.toNat < Facts.c18_sentPathDownload then [] else encChunk (.strs p.extra))

/-- What the path codec preserves: the argument list of a kind that has none is dropped. -/
def normPath (p : SPath) : SPath :=
  if p.t.toNat < Facts.c18_sentPathDownload then { p with extra := [] } else p

/-- The literal `0xFFFF` of `Sentinel.MarshalStream` (tie: `tie_sentinel`). -/
def maxPaths : Nat := 0xFFFF

/-- `Sentinel.MarshalStream`: `n := len(paths); if n > 0xFFFF { n = 0xFFFF }; WriteUint16(uint16(n));
for i := 0; i < n; i++ { paths[i].MarshalStream(w) }`. -/
def encSentinel (s : Sentinel) : Bytes :=
  let n := if s.paths.length > maxPaths then maxPaths else s.paths.length
  encFilter (some s.filter) ++ be16 n ++ (s.paths.take n).flatMap encPath

section Readers
variable {S : Type} (P : Prim S)

/-- `(*sentinelPath).UnmarshalStream` into a zero path. -/
def decPath (s : S) : Except Err (SPath × S) := do
  let (t, s) ← P.u8 s
  let (path, s) ← decBytes P s
  if t.toNat < Facts.c18_sentPathDownload then pure (⟨t, path, []⟩, s)
  else do
    let (extra, s) ← decStrs P s
    pure (⟨t, path, extra⟩, s)

/-- the loop of `(*Sentinel).UnmarshalStream` -/
def decPaths : Nat → S → Except Err (List SPath × S)
  | 0, s => pure ([], s)
  | n + 1, s => do
    let (p, s) ← decPath P s
    let (r, s) ← decPaths n s
    pure (p :: r, s)

/-- `(*Sentinel).UnmarshalStream` into a zero Sentinel. -/
def decSentinel (s : S) : Except Err (Sentinel × S) := do
  let (f, s) ← decFilterVal P s
  let (n, s) ← P.u16 s
  let (ps, s) ← decPaths P n s
  pure (⟨ps, f⟩, s)

end Readers

/-- The description a launcher file decodes to. -/
def normSentinel (s : Sentinel) : Sentinel :=
  ⟨(s.paths.take maxPaths).map normPath, normVal s.filter⟩

/-! ### Launcher file frame: IV ++ CTR(codec)  (`Sentinel.Write` / `Sentinel.Read`) -/

/-- `cipher.Stream.XORKeyStream` of a CTR stream positioned at byte `off`: the keystream `ks`
(a function of key and IV only) is a parameter. -/
def xorAt (ks : Nat → UInt8) (off : Nat) : Bytes → Bytes
  | [] => []
  | b :: bs => (b ^^^ ks off) :: xorAt ks (off + 1) bs

/-- `cipher.StreamReader` over an io.Reader: every piece delivered is decrypted in place, so the
short-read structure of the underlying reader is preserved. -/
def xorStream (ks : Nat → UInt8) (off : Nat) : Stream → Stream
  | [] => []
  | c :: cs => xorAt ks off c :: xorStream ks (off + c.length) cs

/-- A block cipher as far as the frame is concerned: its block size and, per IV, the CTR
keystream.  `none` models `c == nil`. -/
structure Cipher where
  blockSize : Nat
  ks : Bytes → Nat → UInt8

/-- `Sentinel.Write(c, w)`; `iv` is the result of `rand.Read` (`c.BlockSize()` bytes). The stream
writer's output equals the in-memory encoding (C10 `writers_agree`). -/
def sentinelWrite (c : Option Cipher) (iv : Bytes) (s : Sentinel) : Bytes :=
  match c with
  | none => encSentinel s
  | some c =>
    if c.blockSize = 0 then encSentinel s
    else iv ++ xorAt (c.ks iv) 0 (encSentinel s)

/-- `Sentinel.Read(c, r)`: the IV is read with `io.ReadFull`, the rest through a CTR
`StreamReader` and the stream reader of package data. Returns the description and the rest of the
(decrypted) stream. -/
def sentinelRead (c : Option Cipher) (cs : Stream) : Except Err (Sentinel × Stream) :=
  match c with
  | none => decSentinel streamPrim cs
  | some c =>
    if c.blockSize = 0 then decSentinel streamPrim cs
    else
      let r := readFull c.blockSize cs
      if r.1.length ≠ c.blockSize then .error (shortErr r.1)
      else decSentinel streamPrim (xorStream (c.ks r.1) 0 r.2)

end XMT.Task
