/-
  Helper lemmas for C18: round trips of the filter, schema, sentinelPath and Sentinel codecs through
  any lawful reader (Chunk reader, stream reader under every chunking), built on C10's `dec_ok`.
-/
import XMT.Task
import XMT.CodecRoundtrip
namespace XMT.Task
open XMT XMT.Codec

section
variable {S : Type} {P : Prim S} {abs : S → Bytes} {inv : S → Prop}

/-! #### primitive reads, restated for the raw `Prim` functions -/

theorem u8_ok (L : Lawful P abs inv) (n : UInt8) (s : S) (r : Bytes) (hi : inv s)
    (h : abs s = encChunk (.u8 n) ++ r) :
    ∃ s', P.u8 s = .ok (n, s') ∧ abs s' = r ∧ inv s' :=
  L.u8_ok s n r hi (by simpa [encChunk] using h)

theorem bool_ok (L : Lawful P abs inv) (b : Bool) (s : S) (r : Bytes) (hi : inv s)
    (h : abs s = encChunk (.bool b) ++ r) :
    ∃ s', decBool P s = .ok (b, s') ∧ abs s' = r ∧ inv s' := by
  obtain ⟨s1, e1, a1, i1⟩ := L.u8_ok s _ r hi (by simpa [encChunk] using h)
  refine ⟨s1, ?_, a1, i1⟩
  cases b <;> simp [decBool, e1, bind, Except.bind, pure, Except.pure]

theorem u16_ok (L : Lawful P abs inv) (n : Nat) (hn : n < 2^16) (s : S) (r : Bytes) (hi : inv s)
    (h : abs s = be16 n ++ r) :
    ∃ s', P.u16 s = .ok (n, s') ∧ abs s' = r ∧ inv s' := by
  simp only [be16, List.cons_append, List.nil_append] at h
  obtain ⟨s1, e1, a1, i1⟩ := L.u16_ok s _ _ _ hi h
  rw [ofBe16_be16 n hn] at e1
  exact ⟨s1, e1, a1, i1⟩

theorem u32_ok (L : Lawful P abs inv) (n : Nat) (hn : n < 2^32) (s : S) (r : Bytes) (hi : inv s)
    (h : abs s = encChunk (.u32 n) ++ r) :
    ∃ s', P.u32 s = .ok (n, s') ∧ abs s' = r ∧ inv s' := by
  simp only [encChunk, be32, List.cons_append, List.nil_append] at h
  obtain ⟨s1, e1, a1, i1⟩ := L.u32_ok s _ _ _ _ _ hi h
  rw [ofBe32_be32 n hn] at e1
  exact ⟨s1, e1, a1, i1⟩

theorem strs_ok (L : Lawful P abs inv) (l : List Bytes) (hl : (Val.strs l).WF) (s : S) (r : Bytes)
    (hi : inv s) (h : abs s = encChunk (.strs l) ++ r) :
    ∃ s', decStrs P s = .ok (l, s') ∧ abs s' = r ∧ inv s' := by
  obtain ⟨s1, e1, a1, i1⟩ := dec_ok L (.strs l) hl s r hi h
  refine ⟨s1, ?_, a1, i1⟩
  simp only [Val.ty, dec] at e1
  cases hd : decStrs P s with
  | error e => simp [hd, bind, Except.bind] at e1
  | ok p =>
    obtain ⟨l', s''⟩ := p
    simp [hd, bind, Except.bind, pure, Except.pure] at e1
    obtain ⟨h1, h2⟩ := e1
    subst h1; subst h2; rfl

theorem bytes_ok (L : Lawful P abs inv) (b : Bytes) (hb : b.length ≤ Facts.maxSlice) (s : S)
    (r : Bytes) (hi : inv s) (h : abs s = encChunk (.bytes b) ++ r) :
    ∃ s', decBytes P s = .ok (b, s') ∧ abs s' = r ∧ inv s' :=
  decBytes_ok L b hb s r hi (by simpa [encChunk] using h)

/-! #### Filter -/

theorem filterBody_ok (L : Lawful P abs inv) (f : Filter) (hf : f.WF) (s : S) (r : Bytes)
    (hi : inv s) (h : abs s = encAllChunk (filterBody f) ++ r) :
    ∃ s', decFilterBody P s = .ok (f, s') ∧ abs s' = r ∧ inv s' := by
  obtain ⟨hp, hx, hn⟩ := hf
  simp only [filterBody, encAllChunk, List.flatMap_cons, List.flatMap_nil, List.append_nil,
    List.append_assoc] at h
  obtain ⟨s1, e1, a1, i1⟩ := u32_ok L f.pid hp s _ hi h
  obtain ⟨s2, e2, a2, i2⟩ := bool_ok L f.fallback s1 _ i1 a1
  obtain ⟨s3, e3, a3, i3⟩ := u8_ok L f.session s2 _ i2 a2
  obtain ⟨s4, e4, a4, i4⟩ := u8_ok L f.elevated s3 _ i3 a3
  obtain ⟨s5, e5, a5, i5⟩ := strs_ok L f.exclude hx s4 _ i4 a4
  obtain ⟨s6, e6, a6, i6⟩ := strs_ok L f.incl hn s5 r i5 a5
  refine ⟨s6, ?_, a6, i6⟩
  simp [decFilterBody, e1, e2, e3, e4, e5, e6, bind, Except.bind, pure, Except.pure]

theorem filterPtr_ok (L : Lawful P abs inv) (f : Option Filter) (hf : (FVal.filter f).WF) (s : S)
    (r : Bytes) (hi : inv s) (h : abs s = encFilter f ++ r) :
    ∃ s', decFilterPtr P s = .ok (normPtr f, s') ∧ abs s' = r ∧ inv s' := by
  have hfalse : ∀ s r, inv s → abs s = encChunk (.bool false) ++ r →
      ∃ s', decFilterPtr P s = .ok (none, s') ∧ abs s' = r ∧ inv s' := by
    intro s r hi h
    obtain ⟨s1, e1, a1, i1⟩ := bool_ok L false s r hi h
    exact ⟨s1, by simp [decFilterPtr, e1, bind, Except.bind, pure, Except.pure], a1, i1⟩
  cases f with
  | none => exact hfalse s r hi h
  | some f =>
    simp only [encFilter, normPtr] at h ⊢
    by_cases he : f.isEmpty
    · simp only [he, if_true] at h ⊢
      exact hfalse s r hi h
    · simp only [he, Bool.false_eq_true, if_false, List.append_assoc] at h ⊢
      obtain ⟨s1, e1, a1, i1⟩ := bool_ok L true s _ hi h
      obtain ⟨s2, e2, a2, i2⟩ := filterBody_ok L f hf s1 r i1 a1
      exact ⟨s2, by simp [decFilterPtr, e1, e2, bind, Except.bind, pure, Except.pure], a2, i2⟩

theorem filterVal_ok (L : Lawful P abs inv) (f : Filter) (hf : f.WF) (s : S)
    (r : Bytes) (hi : inv s) (h : abs s = encFilter (some f) ++ r) :
    ∃ s', decFilterVal P s = .ok (normVal f, s') ∧ abs s' = r ∧ inv s' := by
  simp only [encFilter, normVal] at h ⊢
  by_cases he : f.isEmpty
  · simp only [he, if_true] at h ⊢
    obtain ⟨s1, e1, a1, i1⟩ := bool_ok L false s r hi h
    exact ⟨s1, by simp [decFilterVal, e1, bind, Except.bind, pure, Except.pure], a1, i1⟩
  · simp only [he, Bool.false_eq_true, if_false, List.append_assoc] at h ⊢
    obtain ⟨s1, e1, a1, i1⟩ := bool_ok L true s _ hi h
    obtain ⟨s2, e2, a2, i2⟩ := filterBody_ok L f hf s1 r i1 a1
    exact ⟨s2, by simp [decFilterVal, e1, e2, bind, Except.bind], a2, i2⟩

/-! #### schema codec -/

theorem decF_ok (L : Lawful P abs inv) (v : FVal) (hv : v.WF) (s : S) (r : Bytes) (hi : inv s)
    (h : abs s = encF v ++ r) :
    ∃ s', decF P v.ty s = .ok (normF v, s') ∧ abs s' = r ∧ inv s' := by
  cases v with
  | prim v =>
    obtain ⟨s1, e1, a1, i1⟩ := dec_ok L v hv s r hi h
    exact ⟨s1, by simp [decF, FVal.ty, normF, e1, bind, Except.bind, pure, Except.pure], a1, i1⟩
  | filter f =>
    obtain ⟨s1, e1, a1, i1⟩ := filterPtr_ok L f hv s r hi h
    exact ⟨s1, by simp [decF, FVal.ty, normF, e1, bind, Except.bind, pure, Except.pure], a1, i1⟩

/-- The generic theorem: decoding with schema `W` what was encoded with schema `W` returns every
field (normalised), consumes exactly the encoding and leaves the reader on the trailing data. -/
theorem decS_ok (L : Lawful P abs inv) (W : Schema) (ρ : Rec) (hw : WT W ρ) (s : S) (r : Bytes)
    (hi : inv s) (h : abs s = encS W ρ ++ r) :
    ∃ s', decS P W s = .ok (normRec W ρ, s') ∧ abs s' = r ∧ inv s' := by
  induction W generalizing s with
  | nil => exact ⟨s, rfl, by simpa [encS] using h, hi⟩
  | cons e W ih =>
    obtain ⟨n, t⟩ := e
    simp only [encS, List.flatMap_cons, List.append_assoc] at h
    obtain ⟨ht, hwf⟩ := hw (n, t) List.mem_cons_self
    obtain ⟨s1, e1, a1, i1⟩ := decF_ok L (ρ n) hwf s _ hi h
    simp only at ht
    rw [ht] at e1
    obtain ⟨s2, e2, a2, i2⟩ := ih (fun x hx => hw x (List.mem_cons_of_mem _ hx)) s1 i1 a1
    refine ⟨s2, ?_, a2, i2⟩
    simp [decS, normRec, e1, e2, bind, Except.bind, pure, Except.pure]

theorem schemaOf_names {l : List (String × String)} {W : Schema} (h : schemaOf l = some W) :
    W.map Prod.fst = l.map Prod.fst := by
  induction l generalizing W with
  | nil => simp [schemaOf] at h; subst h; rfl
  | cons e l ih =>
    obtain ⟨n, k⟩ := e
    simp only [schemaOf] at h
    cases hk : kindOf k with
    | none => simp [hk] at h
    | some t =>
      cases hl : schemaOf l with
      | none => simp [hk, hl] at h
      | some W' =>
        simp [hk, hl] at h
        subst h
        simp [ih hl]

/-- Looking a field up in the decoded description gives the encoded value (normalised). -/
theorem normRec_lookup (W : Schema) (ρ : Rec) (f : String) (h : f ∈ W.map Prod.fst) :
    (normRec W ρ).lookup f = some (normF (ρ f)) := by
  induction W with
  | nil => simp at h
  | cons e W ih =>
    obtain ⟨n, t⟩ := e
    simp only [normRec, List.map_cons, List.lookup_cons]
    by_cases hn : f = n
    · subst hn; simp
    · have : (f == n) = false := by simpa using hn
      simp only [this]
      simp only [List.map_cons, List.mem_cons] at h
      rcases h with h | h
      · exact absurd h hn
      · exact ih h

/-! #### sentinelPath / Sentinel -/

theorem decPath_ok (L : Lawful P abs inv) (p : SPath) (hp : p.WF) (s : S) (r : Bytes)
    (hi : inv s) (h : abs s = encPath p ++ r) :
    ∃ s', decPath P s = .ok (normPath p, s') ∧ abs s' = r ∧ inv s' := by
  obtain ⟨hp1, hp2⟩ := hp
  simp only [encPath, List.append_assoc] at h
  obtain ⟨s1, e1, a1, i1⟩ := u8_ok L p.t s _ hi h
  obtain ⟨s2, e2, a2, i2⟩ := bytes_ok L p.path hp1 s1 _ i1 a1
  by_cases ht : p.t.toNat < Facts.c18_sentPathDownload
  · simp only [ht, if_true, List.nil_append] at a2
    refine ⟨s2, ?_, a2, i2⟩
    simp [decPath, normPath, e1, e2, ht, bind, Except.bind, pure, Except.pure]
  · simp only [ht, if_false] at a2
    obtain ⟨s3, e3, a3, i3⟩ := strs_ok L p.extra hp2 s2 r i2 a2
    refine ⟨s3, ?_, a3, i3⟩
    simp [decPath, normPath, e1, e2, e3, ht, bind, Except.bind, pure, Except.pure]

theorem decPaths_ok (L : Lawful P abs inv) (ps : List SPath) (hp : ∀ p ∈ ps, p.WF) (s : S)
    (r : Bytes) (hi : inv s) (h : abs s = ps.flatMap encPath ++ r) :
    ∃ s', decPaths P ps.length s = .ok (ps.map normPath, s') ∧ abs s' = r ∧ inv s' := by
  induction ps generalizing s with
  | nil => exact ⟨s, rfl, by simpa using h, hi⟩
  | cons p ps ih =>
    simp only [List.flatMap_cons, List.append_assoc] at h
    obtain ⟨s1, e1, a1, i1⟩ := decPath_ok L p (hp p List.mem_cons_self) s _ hi h
    obtain ⟨s2, e2, a2, i2⟩ := ih (fun x hx => hp x (List.mem_cons_of_mem _ hx)) s1 i1 a1
    refine ⟨s2, ?_, a2, i2⟩
    simp [decPaths, e1, e2, bind, Except.bind, pure, Except.pure]

theorem decSentinel_ok (L : Lawful P abs inv) (x : Sentinel) (hf : x.filter.WF)
    (hp : ∀ p ∈ x.paths, p.WF) (s : S) (r : Bytes) (hi : inv s)
    (h : abs s = encSentinel x ++ r) :
    ∃ s', decSentinel P s = .ok (normSentinel x, s') ∧ abs s' = r ∧ inv s' := by
  simp only [encSentinel, List.append_assoc] at h
  obtain ⟨s1, e1, a1, i1⟩ := filterVal_ok L x.filter hf s _ hi h
  have hn : (if x.paths.length > maxPaths then maxPaths else x.paths.length) =
      (x.paths.take maxPaths).length := by
    simp only [List.length_take]; split <;> omega
  have ht : x.paths.take (if x.paths.length > maxPaths then maxPaths else x.paths.length) =
      x.paths.take maxPaths := by
    split
    · rfl
    · rw [List.take_of_length_le (Nat.le_refl _), List.take_of_length_le (by omega)]
  rw [ht, hn] at a1
  have hlt : (x.paths.take maxPaths).length < 2^16 := by
    simp only [List.length_take, maxPaths]; omega
  obtain ⟨s2, e2, a2, i2⟩ := u16_ok L _ hlt s1 _ i1 a1
  obtain ⟨s3, e3, a3, i3⟩ := decPaths_ok L (x.paths.take maxPaths)
    (fun p hp' => hp p (List.mem_of_mem_take hp')) s2 r i2 a2
  refine ⟨s3, ?_, a3, i3⟩
  simp only [decSentinel, normSentinel, e1, e2, e3, bind, Except.bind, pure, Except.pure]

end

/-- The three tie obligations (closed by `decide` on the regenerated facts) give the round trip. -/
theorem taskRoundTrips_of_tie (m u : List (String × String)) (fields : List String)
    (h1 : (schemaOf m).isSome = true) (h2 : m = u) (h3 : ∀ f ∈ fields, f ∈ m.map Prod.fst) :
    TaskRoundTrips m u fields := by
  obtain ⟨W, hW⟩ := Option.isSome_iff_exists.mp h1
  refine ⟨W, W, hW, h2 ▸ hW, ?_, ?_⟩
  · rw [schemaOf_names hW]; exact h3
  · intro ρ rest hw
    constructor
    · obtain ⟨s', e, a, _⟩ := decS_ok chunk_lawful W ρ hw (encS W ρ ++ rest) rest trivial rfl
      simp only [id] at a; subst a; exact e
    · intro cs hne hcs
      obtain ⟨s', e, a, _⟩ := decS_ok stream_lawful W ρ hw cs rest hne hcs
      exact ⟨s', e, a⟩

/-! #### keystream XOR -/

theorem xorAt_length (ks : Nat → UInt8) (off : Nat) (b : Bytes) : (xorAt ks off b).length = b.length := by
  induction b generalizing off with
  | nil => rfl
  | cons x b ih => simp [xorAt, ih]

theorem xorAt_append (ks : Nat → UInt8) (off : Nat) (a b : Bytes) :
    xorAt ks off (a ++ b) = xorAt ks off a ++ xorAt ks (off + a.length) b := by
  induction a generalizing off with
  | nil => simp [xorAt]
  | cons x a ih =>
    simp only [List.cons_append, xorAt, ih, List.length_cons]
    congr 3; omega

/-- XOR with the same keystream at the same position is an involution (this is all the frame
needs from CTR mode). -/
theorem xorAt_xorAt (ks : Nat → UInt8) (off : Nat) (b : Bytes) : xorAt ks off (xorAt ks off b) = b := by
  induction b generalizing off with
  | nil => rfl
  | cons x b ih =>
    simp only [xorAt, ih]
    congr 1
    rw [UInt8.xor_assoc, UInt8.xor_self, UInt8.xor_zero]

theorem xorStream_flatten (ks : Nat → UInt8) (off : Nat) (cs : Stream) :
    (xorStream ks off cs).flatten = xorAt ks off cs.flatten := by
  induction cs generalizing off with
  | nil => rfl
  | cons c cs ih => simp [xorStream, xorAt_append, ih]

theorem xorStream_noEmpty (ks : Nat → UInt8) (off : Nat) (cs : Stream) (h : NoEmpty cs) :
    NoEmpty (xorStream ks off cs) := by
  induction cs generalizing off with
  | nil => intro c hc; simp [xorStream] at hc
  | cons c cs ih =>
    intro d hd
    simp only [xorStream, List.mem_cons] at hd
    rcases hd with rfl | hd
    · intro h0
      have := congrArg List.length h0
      rw [xorAt_length] at this
      exact h c List.mem_cons_self (List.length_eq_zero_iff.mp this)
    · exact ih (off + c.length) (fun x hx => h x (List.mem_cons_of_mem _ hx)) d hd

end XMT.Task

namespace XMT.Task
open XMT XMT.Codec

/-- `Sentinel.Read ∘ Sentinel.Write` with a cipher: for every keystream, every IV of block size and
every way the underlying reader splits the file into short reads. `rest` is whatever follows the
description in the stream; it comes back (still to be read) decrypted at its position. -/
theorem sentinelRead_cipher_ok (c : Cipher) (hb : c.blockSize ≠ 0) (iv : Bytes)
    (hiv : iv.length = c.blockSize) (x : Sentinel) (hf : x.filter.WF) (hp : ∀ p ∈ x.paths, p.WF)
    (rest : Bytes) (cs : Stream) (hne : NoEmpty cs)
    (hcs : cs.flatten = sentinelWrite (some c) iv x ++ rest) :
    ∃ cs', sentinelRead (some c) cs = .ok (normSentinel x, cs') ∧
      cs'.flatten = xorAt (c.ks iv) (encSentinel x).length rest := by
  simp only [sentinelWrite, hb, if_false, List.append_assoc] at hcs
  have h1 : (readFull c.blockSize cs).1 = iv := by
    rw [readFull_fst, hcs, ← hiv, List.take_left']; rfl
  have h2 : (readFull c.blockSize cs).2.flatten = xorAt (c.ks iv) 0 (encSentinel x) ++ rest := by
    rw [readFull_snd, hcs, ← hiv, List.drop_left']; rfl
  have h3 := readFull_noEmpty c.blockSize cs hne
  have h4 : (xorStream (c.ks iv) 0 (readFull c.blockSize cs).2).flatten =
      encSentinel x ++ xorAt (c.ks iv) (encSentinel x).length rest := by
    rw [xorStream_flatten, h2, xorAt_append, xorAt_xorAt, xorAt_length, Nat.zero_add]
  obtain ⟨s', e, a, _⟩ := decSentinel_ok stream_lawful x hf hp _ _
    (xorStream_noEmpty _ _ _ h3) h4
  refine ⟨s', ?_, a⟩
  simp only [sentinelRead, hb, if_false, h1, hiv, ne_eq, not_true_eq_false]
  exact e

theorem sentinelRead_plain_ok (c : Option Cipher) (hc : ∀ c', c = some c' → c'.blockSize = 0)
    (iv : Bytes) (x : Sentinel) (hf : x.filter.WF) (hp : ∀ p ∈ x.paths, p.WF)
    (rest : Bytes) (cs : Stream) (hne : NoEmpty cs)
    (hcs : cs.flatten = sentinelWrite c iv x ++ rest) :
    ∃ cs', sentinelRead c cs = .ok (normSentinel x, cs') ∧ cs'.flatten = rest := by
  have hw : sentinelWrite c iv x = encSentinel x := by
    cases c with
    | none => rfl
    | some c' => simp [sentinelWrite, hc c' rfl]
  rw [hw] at hcs
  obtain ⟨s', e, a, _⟩ := decSentinel_ok stream_lawful x hf hp cs rest hne hcs
  refine ⟨s', ?_, a⟩
  cases c with
  | none => exact e
  | some c' => simp only [sentinelRead, hc c' rfl, if_true]; exact e

end XMT.Task
