/-
  XMT.Teardown — executable interleaving model of the Server / Listener teardown (C16, extension):

    c2/server.go    Server.listen (run-word transition, the select arms ctx.Done / delListener /
                    delSession), Server.shutdown (cancel, `v.Close()` of every Session, `v.Close()` of
                    every active Listener, the drain loop on delListener, `s.active = nil`, the swap of the
                    run word, the five channel closes in source order), Server.Close, Server.IsActive,
                    Server.Remove(id, false)
    c2/listener.go  Listener.listen (context arm, Closing() break, Accept on a closed socket, the exit
                    sequence cancel / socket close / `l.s.delListener <- l.name` / Set(stateClosed) /
                    close(l.ch)), Listener.Close, the registration of a new Session in Listener.talk
                    (`l.state.Closing()` guard, insertion under the Server lock)

  Granularity as in XMT/Close.lean: one atomic action per shared-memory access; `pc` = label of the yield
  point the overlay rewrites of lib/props/C16.json put in front of that access in the real code.
  Channels have their REAL capacities (regenerated facts): a send on a full channel is a blocked action
  (`enabled` false), a send on a closed channel is `Out.panicSend`, a second close `Out.panicClose`.

  The `select` of the Server loop has several arms that can be ready at once and Go chooses at random:
  a schedule entry therefore names a thread AND an arm (`e = t + 1000 * arm`, arm 0 = ctx.Done,
  1 = delListener, 2 = delSession); an arm that is not ready is a no-op. The theorems quantify over all
  such schedules, i.e. over every choice Go can make.

  `for _, v := range s.active` visits the map in an arbitrary order, and the range statement fetches its
  next entry when control returns to the loop head (after pc 111 and after the return of Listener.Close):
  for those actions the `arm` part of the schedule entry names the entry fetched (0 = none left, j+1 =
  Listener j, which must still be in the map and not yet visited; any other value is a no-op).
  Not modelled: the `s.new` arm / ListenContext (every Listener of the model is already in `s.active`),
  the events arm (callbacks nil), Listener.Replace (Replacing() is false), accepted connections.
  A server-side `Session.Close()` inside Server.shutdown is the store of the SvShutdown packet into
  `s.peek` (XMT/Close.lean models that call; here it is the ghost `told`).
  Core only.
-/
import XMT.Close
namespace XMT.Teardown
open XMT.Close (upd upd_apply upd_same upd_other)

/-- channels closed / sent on by the teardown -/
inductive SChan | new | delListener | delSession | events | ch | lch
deriving DecidableEq, Repr, Inhabited

inductive Out
  | none
  | ret
  | panicClose (c : SChan)
  | panicSend (c : SChan)
  | panicNil                   -- nil pointer dereference (`l.name` of the zero value received from the closed s.new)
deriving DecidableEq, Repr, Inhabited

def Out.isPanic : Out → Bool
  | .panicClose _ => true
  | .panicSend _ => true
  | .panicNil => true
  | _ => false

/-- pc of a finished thread (larger than every action pc) -/
def tfin : Nat := 999

/-- thread programs -/
inductive Kind
  | loop                       -- `go s.listen()` from its first statement
  | sclose                     -- Server.Close()
  | cancel                     -- the Server's parent context is cancelled
  | llisten (j : Nat)          -- `go l.listen()` of Listener j
  | lclose (j : Nat)           -- Listener.Close() of Listener j
  | remove (i : Nat)           -- Server.Remove(id of Session i, false) (called by Session.shutdown)
  | register (j i : Nat)       -- a connection handler of Listener j registering Session i (Listener.talk)
  | idle
deriving DecidableEq, Repr, Inhabited

structure Cfg where
  nl : Nat                     -- Listeners in s.active at the start
  loopCAS : Bool               -- Server.listen claims the run word with CompareAndSwap(0,1) (else Swap(1))
  capDL : Nat                  -- cap(s.delListener)
  capDS : Nat                  -- cap(s.delSession)
deriving DecidableEq, Repr

/-- the current tree -/
def cfgF (nl : Nat) : Cfg :=
  { nl := nl, loopCAS := Facts.c16SrvLoopCAS, capDL := Facts.c16DelListenerCap,
    capDS := Facts.c16DelSessionCap }

structure Loc where
  pc : Nat := 999
  kind : Kind := .idle
  j : Nat := 0                 -- Listener the thread works on / value received from a channel
  i : Nat := 0                 -- Session index (remove / register)
  contS : Nat := 999           -- where Server.shutdown returns to (122 = Server.Close, 999 = the loop)
  contL : Nat := 999           -- where Listener.Close returns to (112 = Server.shutdown, 999 = caller)
  todo : List Nat := []        -- Listeners `range s.active` has not produced yet
  sel : Option Nat := none     -- the entry the range statement fetched (pc 112)
  won : Bool := false          -- ghost: this thread's swap of the run word returned a value other than 2
  out : Out := .none
deriving Inhabited

structure St where
  ctxDone : Bool := false      -- s.ctx is cancelled
  run : Nat := 0               -- s.run
  newC : Nat := 0              -- ghost: successful close() calls per channel
  dlC : Nat := 0
  dsC : Nat := 0
  evC : Nat := 0
  chC : Nat := 0
  dl : List Nat := []          -- contents of s.delListener (Listener indices)
  ds : List Nat := []          -- contents of s.delSession (Session indices)
  active : Nat → Bool := fun _ => false     -- the map object s.active was made with
  activeNil : Bool := false                 -- `s.active = nil` was executed (the field no longer points to it)
  listed : Nat → Bool := fun _ => false     -- s.sessions
  told : Nat → Bool := fun _ => false       -- ghost: Server.shutdown called Close() on Session i
  -- Listeners
  lClosing : Nat → Bool := fun _ => false
  lClosed : Nat → Bool := fun _ => false
  lWake : Nat → Bool := fun _ => false
  lCtx : Nat → Bool := fun _ => false       -- l.cancel() was called
  sock : Nat → Bool := fun _ => false       -- l.listener is closed
  lchC : Nat → Nat := fun _ => 0            -- ghost: close(l.ch) calls
  loc : Nat → Loc := fun _ => {}

instance : Inhabited St := ⟨{}⟩

def setLoc (s : St) (t : Nat) (l : Loc) : St := { s with loc := upd s.loc t l }
def goto (s : St) (t : Nat) (pc : Nat) : St := setLoc s t { s.loc t with pc := pc }
def finish (s : St) (t : Nat) : St := setLoc s t { s.loc t with pc := tfin, out := .ret }
def die (s : St) (t : Nat) (o : Out) : St := setLoc s t { s.loc t with pc := tfin, out := o }

/-- return from Server.shutdown -/
def retS (s : St) (t : Nat) : St :=
  if (s.loc t).contS = tfin then finish s t else goto s t (s.loc t).contS
/-- the `range s.active` statement fetches its next entry (an entry removed from the map before it is
reached is not produced): `arm` = 0: none left, `arm` = j+1: Listener j -/
def fetch (arm : Nat) (s : St) (l : Loc) : Option Loc :=
  match arm with
  | 0 => if (l.todo.filter s.active).isEmpty then some { l with pc := 112, sel := none } else none
  | j + 1 =>
    if (l.todo.filter s.active).contains j then some { l with pc := 112, sel := some j, todo := l.todo.erase j }
    else none

/-- return from Listener.Close: to the caller, or to the loop head of Server.shutdown -/
def retL (arm : Nat) (s : St) (t : Nat) : St :=
  if (s.loc t).contL = tfin then finish s t
  else match fetch arm s (s.loc t) with
    | some l => setLoc s t l
    | none => s

/-- `len(s.active) > 0` -/
def anyActive (cfg : Cfg) (s : St) : Bool := !s.activeNil && (List.range cfg.nl).any s.active

/-- `delete(s.active, j)` (no-op on a nil map) -/
def delActive (s : St) (j : Nat) : Nat → Bool := if s.activeNil then s.active else upd s.active j false

/-- the Listener's context: derived from the Server's (Server.Listen passes s.ctx) -/
def lctxDone (s : St) (j : Nat) : Bool := s.lCtx j || s.ctxDone

def validPc (pc : Nat) : Bool :=
  [100, 101, 103, 104, 110, 111, 112, 113, 114, 115, 116, 117, 118, 119, 120, 121, 122,
   130, 131, 132, 133, 134, 136, 137, 138, 139, 140, 141, 142, 143, 144, 150, 151, 160, 161, 190].contains pc

/-- blocking actions -/
def enabled (cfg : Cfg) (s : St) (t : Nat) : Bool :=
  match (s.loc t).pc with
  | 101 => s.ctxDone || !s.dl.isEmpty || !s.ds.isEmpty || decide (s.dlC > 0) || decide (s.dsC > 0)
  | 113 => !anyActive cfg s || !s.dl.isEmpty || decide (s.dlC > 0)   -- `<-s.delListener`
  | 122 => decide (s.chC > 0)                                        -- `<-s.ch`
  | 132 => s.sock (s.loc t).j                                        -- Accept() returns once the socket is closed
  | 137 => decide (s.dl.length < cfg.capDL) || decide (s.dlC > 0)    -- `l.s.delListener <- l.name`
  | 144 => decide (s.lchC (s.loc t).j > 0)                           -- `<-l.ch`
  | 151 => decide (s.ds.length < cfg.capDS) || decide (s.dsC > 0)    -- `s.delSession <- i`
  | pc => validPc pc

/-! ### the atomic actions -/

set_option linter.unusedVariables false

-- Server.listen: `if atomic.SwapUint32(&s.run, 1) != 0 { return }`
def a100 (cfg : Cfg) (s : St) (t : Nat) : St :=
  if cfg.loopCAS then (if s.run = 0 then goto { s with run := 1 } t 101 else finish s t)
  else (if s.run ≠ 0 then finish { s with run := 1 } t else goto { s with run := 1 } t 101)

-- the select of the loop; `arm` = the case Go chose
def a101 (cfg : Cfg) (arm : Nat) (s : St) (t : Nat) : St :=
  let l := s.loc t
  match arm with
  | 0 => if s.ctxDone then setLoc s t { l with pc := 110, contS := tfin } else s
  | 1 => match s.dl with
    | j :: r => setLoc { s with dl := r } t { l with pc := 103, j := j }
    | [] => if s.dlC > 0 then setLoc s t { l with pc := 103, j := cfg.nl } else s   -- zero value ""
  | 2 => match s.ds with
    | i :: r => setLoc { s with ds := r } t { l with pc := 104, j := i, i := 0 }
    | [] => if s.dsC > 0 then setLoc s t { l with pc := 104, i := 1 } else s        -- zero ID (`i` = 1): no Session has it
  | 3 => if s.newC > 0 then die s t .panicNil else s      -- `l := <-s.new` (closed): `s.active[l.name]` with l == nil
  | _ => s

-- `delete(s.active, r)`
def a103 (cfg : Cfg) (s : St) (t : Nat) : St :=
  goto { s with active := delActive s (s.loc t).j } t 101

-- `s.lock.Lock(); if v, ok := s.sessions[i]; ok && v.ID == d { … delete(s.sessions, i) }; s.lock.Unlock()`
def a104 (cfg : Cfg) (s : St) (t : Nat) : St :=
  if (s.loc t).i = 1 then goto s t 101
  else goto { s with listed := upd s.listed (s.loc t).j false } t 101

-- Server.shutdown
def a110 (cfg : Cfg) (s : St) (t : Nat) : St :=
  goto { s with ctxDone := true } t 111                              -- s.cancel()

def a111 (cfg : Cfg) (arm : Nat) (s : St) (t : Nat) : St :=          -- for _, v := range s.sessions { v.Close() }
  let s1 := { s with told := fun i => s.told i || s.listed i }
  match fetch arm s1 { s.loc t with todo := if s.activeNil then [] else (List.range cfg.nl).filter s.active } with
  | some l => setLoc s1 t l
  | none => s

def a112 (cfg : Cfg) (s : St) (t : Nat) : St :=                      -- for _, v := range s.active { v.Close() }
  let l := s.loc t
  match l.sel with
  | none => goto s t 113
  | some j => setLoc s t { l with pc := 140, j := j, contL := 112 }

-- `for len(s.active) > 0 { delete(s.active, <-s.delListener) }`
def a113 (cfg : Cfg) (s : St) (t : Nat) : St :=
  if !anyActive cfg s then goto s t 114
  else match s.dl with
    | j :: r => { s with dl := r, active := delActive s j }
    | [] => s

-- `if s.active = nil; atomic.SwapUint32(&s.run, 2) == 2 { return }`
def a114 (cfg : Cfg) (s : St) (t : Nat) : St :=
  let s1 := { s with activeNil := true }
  if s.run = 2 then retS s1 t
  else setLoc { s1 with run := 2 } t { s.loc t with pc := 115, won := true }

def a115 (cfg : Cfg) (s : St) (t : Nat) : St :=
  if s.newC > 0 then die s t (.panicClose .new) else goto { s with newC := s.newC + 1 } t 116
def a116 (cfg : Cfg) (s : St) (t : Nat) : St :=
  if s.dlC > 0 then die s t (.panicClose .delListener) else goto { s with dlC := s.dlC + 1 } t 117
def a117 (cfg : Cfg) (s : St) (t : Nat) : St :=
  if s.dsC > 0 then die s t (.panicClose .delSession) else goto { s with dsC := s.dsC + 1 } t 118
def a118 (cfg : Cfg) (s : St) (t : Nat) : St :=
  if s.evC > 0 then die s t (.panicClose .events) else goto { s with evC := s.evC + 1 } t 119
def a119 (cfg : Cfg) (s : St) (t : Nat) : St :=
  if s.chC > 0 then die s t (.panicClose .ch) else retS { s with chC := s.chC + 1 } t

-- Server.Close
def a120 (cfg : Cfg) (s : St) (t : Nat) : St :=
  goto { s with ctxDone := true } t 121                              -- s.cancel()
def a121 (cfg : Cfg) (s : St) (t : Nat) : St :=                      -- atomic.LoadUint32(&s.run) == 0
  if s.run = 0 then setLoc s t { s.loc t with pc := 110, contS := 122 } else goto s t 122
def a122 (cfg : Cfg) (s : St) (t : Nat) : St := finish s t           -- <-s.ch

-- Listener.listen
def a130 (cfg : Cfg) (s : St) (t : Nat) : St :=                      -- select { case <-l.ctx.Done(): Set(stateClosing) default: }
  let j := (s.loc t).j
  goto (if lctxDone s j then { s with lClosing := upd s.lClosing j true } else s) t 131
def a131 (cfg : Cfg) (s : St) (t : Nat) : St :=                      -- if l.state.Closing() { break }
  let j := (s.loc t).j
  if s.lClosed j || s.lClosing j then goto s t 134 else goto s t 132
def a132 (cfg : Cfg) (s : St) (t : Nat) : St := goto s t 133         -- c, err := l.listener.Accept()
def a133 (cfg : Cfg) (s : St) (t : Nat) : St :=                      -- err != nil: Closing() → break; closed error → continue
  let j := (s.loc t).j
  if s.lClosed j || s.lClosing j then goto s t 134 else goto s t 130
def a134 (cfg : Cfg) (s : St) (t : Nat) : St :=                      -- if l.cancel(); !l.state.WakeClosed() { Set(stateWakeClose) }
  let j := (s.loc t).j
  goto { s with lCtx := upd s.lCtx j true, lWake := upd s.lWake j true } t 136
def a136 (cfg : Cfg) (s : St) (t : Nat) : St :=                      -- l.listener.Close()
  goto { s with sock := upd s.sock (s.loc t).j true } t 137
def a137 (cfg : Cfg) (s : St) (t : Nat) : St :=                      -- l.s.delListener <- l.name
  if s.dlC > 0 then die s t (.panicSend .delListener)
  else goto { s with dl := s.dl ++ [(s.loc t).j] } t 138
def a138 (cfg : Cfg) (s : St) (t : Nat) : St :=                      -- l.state.Set(stateClosed)
  goto { s with lClosed := upd s.lClosed (s.loc t).j true } t 139
def a139 (cfg : Cfg) (s : St) (t : Nat) : St :=                      -- close(l.ch)
  let j := (s.loc t).j
  if s.lchC j > 0 then die s t (.panicClose .lch) else finish { s with lchC := upd s.lchC j (s.lchC j + 1) } t

-- Listener.Close
def a140 (cfg : Cfg) (arm : Nat) (s : St) (t : Nat) : St :=          -- if l.state.Closed() { return nil }
  if s.lClosed (s.loc t).j then retL arm s t else goto s t 141
def a141 (cfg : Cfg) (s : St) (t : Nat) : St :=                      -- l.state.Set(stateClosing)
  goto { s with lClosing := upd s.lClosing (s.loc t).j true } t 142
def a142 (cfg : Cfg) (s : St) (t : Nat) : St :=                      -- l.cancel()
  goto { s with lCtx := upd s.lCtx (s.loc t).j true } t 143
def a143 (cfg : Cfg) (s : St) (t : Nat) : St :=                      -- if !Replacing() { err = l.listener.Close() }
  goto { s with sock := upd s.sock (s.loc t).j true } t 144
def a144 (cfg : Cfg) (arm : Nat) (s : St) (t : Nat) : St := retL arm s t   -- <-l.ch

-- Server.Remove(i, false)
def a150 (cfg : Cfg) (s : St) (t : Nat) : St :=                      -- if !s.IsActive() { return }
  if decide (s.chC > 0) || s.ctxDone then finish s t else goto s t 151
def a151 (cfg : Cfg) (s : St) (t : Nat) : St :=                      -- s.delSession <- i
  if s.dsC > 0 then die s t (.panicSend .delSession)
  else finish { s with ds := s.ds ++ [(s.loc t).i] } t

-- Listener.talk, registration of a new Session
def a160 (cfg : Cfg) (s : St) (t : Nat) : St :=                      -- if … l.state.Closing() { return ErrClosedPipe }
  let j := (s.loc t).j
  if s.lClosed j || s.lClosing j then finish s t else goto s t 161
def a161 (cfg : Cfg) (s : St) (t : Nat) : St :=                      -- l.s.lock.Lock(); l.s.sessions[i] = s; Unlock()
  finish { s with listed := upd s.listed (s.loc t).i true } t

def a190 (cfg : Cfg) (s : St) (t : Nat) : St := finish { s with ctxDone := true } t

def act (cfg : Cfg) (arm : Nat) (s : St) (t : Nat) : St :=
  match (s.loc t).pc with
  | 100 => a100 cfg s t
  | 101 => a101 cfg arm s t
  | 103 => a103 cfg s t
  | 104 => a104 cfg s t
  | 110 => a110 cfg s t
  | 111 => a111 cfg arm s t
  | 112 => a112 cfg s t
  | 113 => a113 cfg s t
  | 114 => a114 cfg s t
  | 115 => a115 cfg s t
  | 116 => a116 cfg s t
  | 117 => a117 cfg s t
  | 118 => a118 cfg s t
  | 119 => a119 cfg s t
  | 120 => a120 cfg s t
  | 121 => a121 cfg s t
  | 122 => a122 cfg s t
  | 130 => a130 cfg s t
  | 131 => a131 cfg s t
  | 132 => a132 cfg s t
  | 133 => a133 cfg s t
  | 134 => a134 cfg s t
  | 136 => a136 cfg s t
  | 137 => a137 cfg s t
  | 138 => a138 cfg s t
  | 139 => a139 cfg s t
  | 140 => a140 cfg arm s t
  | 141 => a141 cfg s t
  | 142 => a142 cfg s t
  | 143 => a143 cfg s t
  | 144 => a144 cfg arm s t
  | 150 => a150 cfg s t
  | 151 => a151 cfg s t
  | 160 => a160 cfg s t
  | 161 => a161 cfg s t
  | 190 => a190 cfg s t
  | _ => s

/-- One schedule entry `e = t + 1000 * arm`: thread `t` executes its next action. -/
def step (cfg : Cfg) (n : Nat) (s : St) (e : Nat) : St :=
  if e % 1000 < n ∧ enabled cfg s (e % 1000) = true then act cfg (e / 1000) s (e % 1000) else s

def run (cfg : Cfg) (n : Nat) (s : St) (sched : List Nat) : St := sched.foldl (step cfg n) s

def initLoc : Kind → Loc
  | .loop => { pc := 100, kind := .loop }
  | .sclose => { pc := 120, kind := .sclose }
  | .cancel => { pc := 190, kind := .cancel }
  | .llisten j => { pc := 130, kind := .llisten j, j := j }
  | .lclose j => { pc := 140, kind := .lclose j, j := j }
  | .remove i => { pc := 150, kind := .remove i, i := i }
  | .register j i => { pc := 160, kind := .register j i, j := j, i := i }
  | .idle => {}

/-- a fresh Server (`run` = 0, loop not started) with `cfg.nl` Listeners in `s.active` and `ns`
registered Sessions -/
def init (cfg : Cfg) (ns : Nat) (prog : List Kind) : St :=
  { active := fun j => decide (j < cfg.nl), listed := fun i => decide (i < ns),
    loc := fun t => match prog[t]? with | some k => initLoc k | none => {} }

def quiescent (cfg : Cfg) (n : Nat) (s : St) : Prop := ∀ t, t < n → enabled cfg s t = false

/-- every Listener goroutine of the program belongs to a Listener of the Server, and there is at most
one per Listener -/
def uniqueLL (prog : List Kind) : Bool :=
  (List.range prog.length).all fun t => (List.range prog.length).all fun u =>
    match prog[t]?, prog[u]? with
    | some (.llisten j), some (.llisten k) => j != k || t == u
    | _, _ => true

end XMT.Teardown
