/-
  XMT.TeardownInit — the safety invariant of the teardown model (XMT/TeardownInv.lean) holds in every
  initial state (fresh Server, any thread set with at most one goroutine per Listener).
-/
import XMT.TeardownInv
namespace XMT.Teardown

theorem init_loc (cfg : Cfg) (ns : Nat) (prog : List Kind) (t : Nat) :
    (init cfg ns prog).loc t = (match prog[t]? with | some k => initLoc k | none => {}) := rfl

/-- a property of every initial thread-local state -/
theorem init_cases (cfg : Cfg) (ns : Nat) (prog : List Kind) (P : Loc → Prop) (h0 : P {})
    (hk : ∀ k, P (initLoc k)) (t : Nat) : P ((init cfg ns prog).loc t) := by
  rw [init_loc]
  cases prog[t]? with
  | none => exact h0
  | some k => exact hk k

theorem init_kind (cfg : Cfg) (ns : Nat) (prog : List Kind) (t j : Nat)
    (h : ((init cfg ns prog).loc t).kind = .llisten j) : prog[t]? = some (.llisten j) := by
  rw [init_loc] at h
  cases hp : prog[t]? with
  | none => rw [hp] at h; simp at h
  | some k =>
    rw [hp] at h
    cases k <;> simp [initLoc] at h
    subst h; rfl

theorem uniqueLL_spec (prog : List Kind) (hu : uniqueLL prog = true) (t u j : Nat)
    (ht : prog[t]? = some (.llisten j)) (hv : prog[u]? = some (.llisten j)) : t = u := by
  have htl : t < prog.length := by
    rcases Nat.lt_or_ge t prog.length with h | h
    · exact h
    · rw [List.getElem?_eq_none h] at ht; simp at ht
  have hul : u < prog.length := by
    rcases Nat.lt_or_ge u prog.length with h | h
    · exact h
    · rw [List.getElem?_eq_none h] at hv; simp at hv
  unfold uniqueLL at hu
  rw [List.all_eq_true] at hu
  have h1 := hu t (List.mem_range.mpr htl)
  rw [List.all_eq_true] at h1
  have h2 := h1 u (List.mem_range.mpr hul)
  rw [ht, hv] at h2
  simpa using h2

theorem inv_init (cfg : Cfg) (ns : Nat) (prog : List Kind) (hu : uniqueLL prog = true) :
    Inv cfg (init cfg ns prog) := by
  have hw : ∀ t, ((init cfg ns prog).loc t).won = false :=
    init_cases cfg ns prog (fun l => l.won = false) rfl (by intro k; cases k <;> rfl)
  refine ⟨?_, ?_, ?_, ?_, ?_, ?_, ?_, ?_, ?_, ?_, ?_, ?_, ?_, ?_, ?_⟩
  · intro t u h; rw [hw] at h; cases h
  · intro t h; rw [hw] at h; cases h
  · intro t h; rw [hw] at h; cases h
  · exact init_cases cfg ns prog (fun l => 115 ≤ l.pc → l.pc ≤ 119 → l.won = true) (by decide)
      (by intro k; cases k <;> simp [initLoc])
  · exact Or.inl rfl
  · exact Or.inl rfl
  · exact Or.inl rfl
  · exact Or.inl rfl
  · exact Or.inl rfl
  · exact init_cases cfg ns prog (fun l => 130 ≤ l.pc → l.pc ≤ 139 → l.kind = .llisten l.j) (by decide)
      (by intro k; cases k <;> simp [initLoc])
  · intro j; exact Or.inl rfl
  · intro t u j h1 h2
    exact uniqueLL_spec prog hu t u j (init_kind cfg ns prog t j h1) (init_kind cfg ns prog u j h2)
  · exact init_cases cfg ns prog (fun l => ∀ c, l.out ≠ .panicClose c) (by intro c h; cases h)
      (by intro k c; cases k <;> simp [initLoc])
  · exact init_cases cfg ns prog (fun l => l.contS = 122 ∨ l.contS = tfin) (by decide)
      (by intro k; cases k <;> simp [initLoc, tfin])
  · exact init_cases cfg ns prog (fun l => l.contL = 112 ∨ l.contL = tfin) (by decide)
      (by intro k; cases k <;> simp [initLoc, tfin])

end XMT.Teardown
