/-
  XMT.TeardownInv — the inductive safety invariant of the Server / Listener teardown model
  (XMT/Teardown.lean) and its preservation by every atomic action (helper lemmas for Props/C16).
-/
import XMT.Teardown
namespace XMT.Teardown
open XMT.Close (upd upd_apply upd_same upd_other)

/-- a Server channel was closed at most once, and only by the one thread whose swap of the run word
did not return 2 and which is already past the close statement at pc `k` -/
def closedBy (s : St) (c : Nat) (k : Nat) : Prop :=
  c = 0 ∨ (c = 1 ∧ ∃ t, (s.loc t).won = true ∧ k < (s.loc t).pc)

structure Inv (cfg : Cfg) (s : St) : Prop where
  uniq : ∀ t u, (s.loc t).won = true → (s.loc u).won = true → t = u
  wonRun : ∀ t, (s.loc t).won = true → s.run = 2
  wonPc : ∀ t, (s.loc t).won = true →
    (115 ≤ (s.loc t).pc ∧ (s.loc t).pc ≤ 119) ∨ (s.loc t).pc = 122 ∨ (s.loc t).pc = tfin
  pcWon : ∀ t, 115 ≤ (s.loc t).pc → (s.loc t).pc ≤ 119 → (s.loc t).won = true
  newC : closedBy s s.newC 115
  dlC : closedBy s s.dlC 116
  dsC : closedBy s s.dsC 117
  evC : closedBy s s.evC 118
  chC : closedBy s s.chC 119
  kindL : ∀ t, 130 ≤ (s.loc t).pc → (s.loc t).pc ≤ 139 → (s.loc t).kind = .llisten (s.loc t).j
  lch : ∀ j, s.lchC j = 0 ∨ (s.lchC j = 1 ∧ ∃ t, (s.loc t).kind = .llisten j ∧ (s.loc t).pc = tfin)
  uniqL : ∀ t u j, (s.loc t).kind = .llisten j → (s.loc u).kind = .llisten j → t = u
  noPanic : ∀ t c, (s.loc t).out ≠ .panicClose c
  contOk : ∀ t, (s.loc t).contS = 122 ∨ (s.loc t).contS = tfin
  contLOk : ∀ t, (s.loc t).contL = 112 ∨ (s.loc t).contL = tfin

macro "inv_tac" : tactic => `(tactic| (
  refine ⟨?_, ?_, ?_, ?_, ?_, ?_, ?_, ?_, ?_, ?_, ?_, ?_, ?_, ?_, ?_⟩ <;>
  simp only [closedBy, goto, setLoc, finish, die, retS, retL, fetch, delActive, upd_apply, tfin] at * <;>
  grind))

set_option linter.unusedVariables false
set_option linter.unusedSimpArgs false
set_option maxHeartbeats 1600000

theorem inv_a100 (cfg : Cfg) (hc : cfg.loopCAS = true) (s : St) (t : Nat) (hp : (s.loc t).pc = 100)
    (hi : Inv cfg s) : Inv cfg (a100 cfg s t) := by
  obtain ⟨h1, h2, h3, h4, h5, h6, h7, h8, h9, h10, h11, h12, h13, h14, h15⟩ := hi
  simp only [a100, retS, retL, fetch]
  repeat' split
  all_goals inv_tac

theorem inv_a101 (cfg : Cfg) (arm : Nat) (hc : cfg.loopCAS = true) (s : St) (t : Nat) (hp : (s.loc t).pc = 101)
    (hi : Inv cfg s) : Inv cfg (a101 cfg arm s t) := by
  obtain ⟨h1, h2, h3, h4, h5, h6, h7, h8, h9, h10, h11, h12, h13, h14, h15⟩ := hi
  simp only [a101, retS, retL, fetch]
  repeat' split
  all_goals inv_tac

theorem inv_a103 (cfg : Cfg) (hc : cfg.loopCAS = true) (s : St) (t : Nat) (hp : (s.loc t).pc = 103)
    (hi : Inv cfg s) : Inv cfg (a103 cfg s t) := by
  obtain ⟨h1, h2, h3, h4, h5, h6, h7, h8, h9, h10, h11, h12, h13, h14, h15⟩ := hi
  simp only [a103, retS, retL, fetch]
  repeat' split
  all_goals inv_tac

theorem inv_a104 (cfg : Cfg) (hc : cfg.loopCAS = true) (s : St) (t : Nat) (hp : (s.loc t).pc = 104)
    (hi : Inv cfg s) : Inv cfg (a104 cfg s t) := by
  obtain ⟨h1, h2, h3, h4, h5, h6, h7, h8, h9, h10, h11, h12, h13, h14, h15⟩ := hi
  simp only [a104, retS, retL, fetch]
  repeat' split
  all_goals inv_tac

theorem inv_a110 (cfg : Cfg) (hc : cfg.loopCAS = true) (s : St) (t : Nat) (hp : (s.loc t).pc = 110)
    (hi : Inv cfg s) : Inv cfg (a110 cfg s t) := by
  obtain ⟨h1, h2, h3, h4, h5, h6, h7, h8, h9, h10, h11, h12, h13, h14, h15⟩ := hi
  simp only [a110, retS, retL, fetch]
  repeat' split
  all_goals inv_tac

theorem inv_a111 (cfg : Cfg) (arm : Nat) (hc : cfg.loopCAS = true) (s : St) (t : Nat) (hp : (s.loc t).pc = 111)
    (hi : Inv cfg s) : Inv cfg (a111 cfg arm s t) := by
  obtain ⟨h1, h2, h3, h4, h5, h6, h7, h8, h9, h10, h11, h12, h13, h14, h15⟩ := hi
  simp only [a111, retS, retL, fetch]
  repeat' split
  all_goals inv_tac

theorem inv_a112 (cfg : Cfg) (hc : cfg.loopCAS = true) (s : St) (t : Nat) (hp : (s.loc t).pc = 112)
    (hi : Inv cfg s) : Inv cfg (a112 cfg s t) := by
  obtain ⟨h1, h2, h3, h4, h5, h6, h7, h8, h9, h10, h11, h12, h13, h14, h15⟩ := hi
  simp only [a112, retS, retL, fetch]
  repeat' split
  all_goals inv_tac

theorem inv_a113 (cfg : Cfg) (hc : cfg.loopCAS = true) (s : St) (t : Nat) (hp : (s.loc t).pc = 113)
    (hi : Inv cfg s) : Inv cfg (a113 cfg s t) := by
  obtain ⟨h1, h2, h3, h4, h5, h6, h7, h8, h9, h10, h11, h12, h13, h14, h15⟩ := hi
  simp only [a113, retS, retL, fetch]
  repeat' split
  all_goals inv_tac

theorem inv_a114 (cfg : Cfg) (hc : cfg.loopCAS = true) (s : St) (t : Nat) (hp : (s.loc t).pc = 114)
    (hi : Inv cfg s) : Inv cfg (a114 cfg s t) := by
  obtain ⟨h1, h2, h3, h4, h5, h6, h7, h8, h9, h10, h11, h12, h13, h14, h15⟩ := hi
  simp only [a114, retS, retL, fetch]
  repeat' split
  all_goals inv_tac

theorem inv_a115 (cfg : Cfg) (hc : cfg.loopCAS = true) (s : St) (t : Nat) (hp : (s.loc t).pc = 115)
    (hi : Inv cfg s) : Inv cfg (a115 cfg s t) := by
  obtain ⟨h1, h2, h3, h4, h5, h6, h7, h8, h9, h10, h11, h12, h13, h14, h15⟩ := hi
  simp only [a115, retS, retL, fetch]
  repeat' split
  all_goals inv_tac

theorem inv_a116 (cfg : Cfg) (hc : cfg.loopCAS = true) (s : St) (t : Nat) (hp : (s.loc t).pc = 116)
    (hi : Inv cfg s) : Inv cfg (a116 cfg s t) := by
  obtain ⟨h1, h2, h3, h4, h5, h6, h7, h8, h9, h10, h11, h12, h13, h14, h15⟩ := hi
  simp only [a116, retS, retL, fetch]
  repeat' split
  all_goals inv_tac

theorem inv_a117 (cfg : Cfg) (hc : cfg.loopCAS = true) (s : St) (t : Nat) (hp : (s.loc t).pc = 117)
    (hi : Inv cfg s) : Inv cfg (a117 cfg s t) := by
  obtain ⟨h1, h2, h3, h4, h5, h6, h7, h8, h9, h10, h11, h12, h13, h14, h15⟩ := hi
  simp only [a117, retS, retL, fetch]
  repeat' split
  all_goals inv_tac

theorem inv_a118 (cfg : Cfg) (hc : cfg.loopCAS = true) (s : St) (t : Nat) (hp : (s.loc t).pc = 118)
    (hi : Inv cfg s) : Inv cfg (a118 cfg s t) := by
  obtain ⟨h1, h2, h3, h4, h5, h6, h7, h8, h9, h10, h11, h12, h13, h14, h15⟩ := hi
  simp only [a118, retS, retL, fetch]
  repeat' split
  all_goals inv_tac

theorem inv_a119 (cfg : Cfg) (hc : cfg.loopCAS = true) (s : St) (t : Nat) (hp : (s.loc t).pc = 119)
    (hi : Inv cfg s) : Inv cfg (a119 cfg s t) := by
  obtain ⟨h1, h2, h3, h4, h5, h6, h7, h8, h9, h10, h11, h12, h13, h14, h15⟩ := hi
  simp only [a119, retS, retL, fetch]
  repeat' split
  all_goals inv_tac

theorem inv_a120 (cfg : Cfg) (hc : cfg.loopCAS = true) (s : St) (t : Nat) (hp : (s.loc t).pc = 120)
    (hi : Inv cfg s) : Inv cfg (a120 cfg s t) := by
  obtain ⟨h1, h2, h3, h4, h5, h6, h7, h8, h9, h10, h11, h12, h13, h14, h15⟩ := hi
  simp only [a120, retS, retL, fetch]
  repeat' split
  all_goals inv_tac

theorem inv_a121 (cfg : Cfg) (hc : cfg.loopCAS = true) (s : St) (t : Nat) (hp : (s.loc t).pc = 121)
    (hi : Inv cfg s) : Inv cfg (a121 cfg s t) := by
  obtain ⟨h1, h2, h3, h4, h5, h6, h7, h8, h9, h10, h11, h12, h13, h14, h15⟩ := hi
  simp only [a121, retS, retL, fetch]
  repeat' split
  all_goals inv_tac

theorem inv_a122 (cfg : Cfg) (hc : cfg.loopCAS = true) (s : St) (t : Nat) (hp : (s.loc t).pc = 122)
    (hi : Inv cfg s) : Inv cfg (a122 cfg s t) := by
  obtain ⟨h1, h2, h3, h4, h5, h6, h7, h8, h9, h10, h11, h12, h13, h14, h15⟩ := hi
  simp only [a122, retS, retL, fetch]
  repeat' split
  all_goals inv_tac

theorem inv_a130 (cfg : Cfg) (hc : cfg.loopCAS = true) (s : St) (t : Nat) (hp : (s.loc t).pc = 130)
    (hi : Inv cfg s) : Inv cfg (a130 cfg s t) := by
  obtain ⟨h1, h2, h3, h4, h5, h6, h7, h8, h9, h10, h11, h12, h13, h14, h15⟩ := hi
  simp only [a130, retS, retL, fetch]
  repeat' split
  all_goals inv_tac

theorem inv_a131 (cfg : Cfg) (hc : cfg.loopCAS = true) (s : St) (t : Nat) (hp : (s.loc t).pc = 131)
    (hi : Inv cfg s) : Inv cfg (a131 cfg s t) := by
  obtain ⟨h1, h2, h3, h4, h5, h6, h7, h8, h9, h10, h11, h12, h13, h14, h15⟩ := hi
  simp only [a131, retS, retL, fetch]
  repeat' split
  all_goals inv_tac

theorem inv_a132 (cfg : Cfg) (hc : cfg.loopCAS = true) (s : St) (t : Nat) (hp : (s.loc t).pc = 132)
    (hi : Inv cfg s) : Inv cfg (a132 cfg s t) := by
  obtain ⟨h1, h2, h3, h4, h5, h6, h7, h8, h9, h10, h11, h12, h13, h14, h15⟩ := hi
  simp only [a132, retS, retL, fetch]
  repeat' split
  all_goals inv_tac

theorem inv_a133 (cfg : Cfg) (hc : cfg.loopCAS = true) (s : St) (t : Nat) (hp : (s.loc t).pc = 133)
    (hi : Inv cfg s) : Inv cfg (a133 cfg s t) := by
  obtain ⟨h1, h2, h3, h4, h5, h6, h7, h8, h9, h10, h11, h12, h13, h14, h15⟩ := hi
  simp only [a133, retS, retL, fetch]
  repeat' split
  all_goals inv_tac

theorem inv_a134 (cfg : Cfg) (hc : cfg.loopCAS = true) (s : St) (t : Nat) (hp : (s.loc t).pc = 134)
    (hi : Inv cfg s) : Inv cfg (a134 cfg s t) := by
  obtain ⟨h1, h2, h3, h4, h5, h6, h7, h8, h9, h10, h11, h12, h13, h14, h15⟩ := hi
  simp only [a134, retS, retL, fetch]
  repeat' split
  all_goals inv_tac

theorem inv_a136 (cfg : Cfg) (hc : cfg.loopCAS = true) (s : St) (t : Nat) (hp : (s.loc t).pc = 136)
    (hi : Inv cfg s) : Inv cfg (a136 cfg s t) := by
  obtain ⟨h1, h2, h3, h4, h5, h6, h7, h8, h9, h10, h11, h12, h13, h14, h15⟩ := hi
  simp only [a136, retS, retL, fetch]
  repeat' split
  all_goals inv_tac

theorem inv_a137 (cfg : Cfg) (hc : cfg.loopCAS = true) (s : St) (t : Nat) (hp : (s.loc t).pc = 137)
    (hi : Inv cfg s) : Inv cfg (a137 cfg s t) := by
  obtain ⟨h1, h2, h3, h4, h5, h6, h7, h8, h9, h10, h11, h12, h13, h14, h15⟩ := hi
  simp only [a137, retS, retL, fetch]
  repeat' split
  all_goals inv_tac

theorem inv_a138 (cfg : Cfg) (hc : cfg.loopCAS = true) (s : St) (t : Nat) (hp : (s.loc t).pc = 138)
    (hi : Inv cfg s) : Inv cfg (a138 cfg s t) := by
  obtain ⟨h1, h2, h3, h4, h5, h6, h7, h8, h9, h10, h11, h12, h13, h14, h15⟩ := hi
  simp only [a138, retS, retL, fetch]
  repeat' split
  all_goals inv_tac

theorem inv_a139 (cfg : Cfg) (hc : cfg.loopCAS = true) (s : St) (t : Nat) (hp : (s.loc t).pc = 139)
    (hi : Inv cfg s) : Inv cfg (a139 cfg s t) := by
  obtain ⟨h1, h2, h3, h4, h5, h6, h7, h8, h9, h10, h11, h12, h13, h14, h15⟩ := hi
  simp only [a139, retS, retL, fetch]
  repeat' split
  all_goals inv_tac

theorem inv_a140 (cfg : Cfg) (arm : Nat) (hc : cfg.loopCAS = true) (s : St) (t : Nat) (hp : (s.loc t).pc = 140)
    (hi : Inv cfg s) : Inv cfg (a140 cfg arm s t) := by
  obtain ⟨h1, h2, h3, h4, h5, h6, h7, h8, h9, h10, h11, h12, h13, h14, h15⟩ := hi
  simp only [a140, retS, retL, fetch]
  repeat' split
  all_goals inv_tac

theorem inv_a141 (cfg : Cfg) (hc : cfg.loopCAS = true) (s : St) (t : Nat) (hp : (s.loc t).pc = 141)
    (hi : Inv cfg s) : Inv cfg (a141 cfg s t) := by
  obtain ⟨h1, h2, h3, h4, h5, h6, h7, h8, h9, h10, h11, h12, h13, h14, h15⟩ := hi
  simp only [a141, retS, retL, fetch]
  repeat' split
  all_goals inv_tac

theorem inv_a142 (cfg : Cfg) (hc : cfg.loopCAS = true) (s : St) (t : Nat) (hp : (s.loc t).pc = 142)
    (hi : Inv cfg s) : Inv cfg (a142 cfg s t) := by
  obtain ⟨h1, h2, h3, h4, h5, h6, h7, h8, h9, h10, h11, h12, h13, h14, h15⟩ := hi
  simp only [a142, retS, retL, fetch]
  repeat' split
  all_goals inv_tac

theorem inv_a143 (cfg : Cfg) (hc : cfg.loopCAS = true) (s : St) (t : Nat) (hp : (s.loc t).pc = 143)
    (hi : Inv cfg s) : Inv cfg (a143 cfg s t) := by
  obtain ⟨h1, h2, h3, h4, h5, h6, h7, h8, h9, h10, h11, h12, h13, h14, h15⟩ := hi
  simp only [a143, retS, retL, fetch]
  repeat' split
  all_goals inv_tac

theorem inv_a144 (cfg : Cfg) (arm : Nat) (hc : cfg.loopCAS = true) (s : St) (t : Nat) (hp : (s.loc t).pc = 144)
    (hi : Inv cfg s) : Inv cfg (a144 cfg arm s t) := by
  obtain ⟨h1, h2, h3, h4, h5, h6, h7, h8, h9, h10, h11, h12, h13, h14, h15⟩ := hi
  simp only [a144, retS, retL, fetch]
  repeat' split
  all_goals inv_tac

theorem inv_a150 (cfg : Cfg) (hc : cfg.loopCAS = true) (s : St) (t : Nat) (hp : (s.loc t).pc = 150)
    (hi : Inv cfg s) : Inv cfg (a150 cfg s t) := by
  obtain ⟨h1, h2, h3, h4, h5, h6, h7, h8, h9, h10, h11, h12, h13, h14, h15⟩ := hi
  simp only [a150, retS, retL, fetch]
  repeat' split
  all_goals inv_tac

theorem inv_a151 (cfg : Cfg) (hc : cfg.loopCAS = true) (s : St) (t : Nat) (hp : (s.loc t).pc = 151)
    (hi : Inv cfg s) : Inv cfg (a151 cfg s t) := by
  obtain ⟨h1, h2, h3, h4, h5, h6, h7, h8, h9, h10, h11, h12, h13, h14, h15⟩ := hi
  simp only [a151, retS, retL, fetch]
  repeat' split
  all_goals inv_tac

theorem inv_a160 (cfg : Cfg) (hc : cfg.loopCAS = true) (s : St) (t : Nat) (hp : (s.loc t).pc = 160)
    (hi : Inv cfg s) : Inv cfg (a160 cfg s t) := by
  obtain ⟨h1, h2, h3, h4, h5, h6, h7, h8, h9, h10, h11, h12, h13, h14, h15⟩ := hi
  simp only [a160, retS, retL, fetch]
  repeat' split
  all_goals inv_tac

theorem inv_a161 (cfg : Cfg) (hc : cfg.loopCAS = true) (s : St) (t : Nat) (hp : (s.loc t).pc = 161)
    (hi : Inv cfg s) : Inv cfg (a161 cfg s t) := by
  obtain ⟨h1, h2, h3, h4, h5, h6, h7, h8, h9, h10, h11, h12, h13, h14, h15⟩ := hi
  simp only [a161, retS, retL, fetch]
  repeat' split
  all_goals inv_tac

theorem inv_a190 (cfg : Cfg) (hc : cfg.loopCAS = true) (s : St) (t : Nat) (hp : (s.loc t).pc = 190)
    (hi : Inv cfg s) : Inv cfg (a190 cfg s t) := by
  obtain ⟨h1, h2, h3, h4, h5, h6, h7, h8, h9, h10, h11, h12, h13, h14, h15⟩ := hi
  simp only [a190, retS, retL, fetch]
  repeat' split
  all_goals inv_tac

theorem inv_act (cfg : Cfg) (hc : cfg.loopCAS = true) (arm : Nat) (s : St) (t : Nat) (hi : Inv cfg s) :
    Inv cfg (act cfg arm s t) := by
  unfold act
  split
  · exact inv_a100 cfg hc s t (by assumption) hi
  · exact inv_a101 cfg arm hc s t (by assumption) hi
  · exact inv_a103 cfg hc s t (by assumption) hi
  · exact inv_a104 cfg hc s t (by assumption) hi
  · exact inv_a110 cfg hc s t (by assumption) hi
  · exact inv_a111 cfg arm hc s t (by assumption) hi
  · exact inv_a112 cfg hc s t (by assumption) hi
  · exact inv_a113 cfg hc s t (by assumption) hi
  · exact inv_a114 cfg hc s t (by assumption) hi
  · exact inv_a115 cfg hc s t (by assumption) hi
  · exact inv_a116 cfg hc s t (by assumption) hi
  · exact inv_a117 cfg hc s t (by assumption) hi
  · exact inv_a118 cfg hc s t (by assumption) hi
  · exact inv_a119 cfg hc s t (by assumption) hi
  · exact inv_a120 cfg hc s t (by assumption) hi
  · exact inv_a121 cfg hc s t (by assumption) hi
  · exact inv_a122 cfg hc s t (by assumption) hi
  · exact inv_a130 cfg hc s t (by assumption) hi
  · exact inv_a131 cfg hc s t (by assumption) hi
  · exact inv_a132 cfg hc s t (by assumption) hi
  · exact inv_a133 cfg hc s t (by assumption) hi
  · exact inv_a134 cfg hc s t (by assumption) hi
  · exact inv_a136 cfg hc s t (by assumption) hi
  · exact inv_a137 cfg hc s t (by assumption) hi
  · exact inv_a138 cfg hc s t (by assumption) hi
  · exact inv_a139 cfg hc s t (by assumption) hi
  · exact inv_a140 cfg arm hc s t (by assumption) hi
  · exact inv_a141 cfg hc s t (by assumption) hi
  · exact inv_a142 cfg hc s t (by assumption) hi
  · exact inv_a143 cfg hc s t (by assumption) hi
  · exact inv_a144 cfg arm hc s t (by assumption) hi
  · exact inv_a150 cfg hc s t (by assumption) hi
  · exact inv_a151 cfg hc s t (by assumption) hi
  · exact inv_a160 cfg hc s t (by assumption) hi
  · exact inv_a161 cfg hc s t (by assumption) hi
  · exact inv_a190 cfg hc s t (by assumption) hi
  · exact hi

theorem inv_step (cfg : Cfg) (hc : cfg.loopCAS = true) (n : Nat) (s : St) (e : Nat) (hi : Inv cfg s) :
    Inv cfg (step cfg n s e) := by
  unfold step
  split
  · exact inv_act cfg hc _ s _ hi
  · exact hi

theorem inv_run (cfg : Cfg) (hc : cfg.loopCAS = true) (n : Nat) (sched : List Nat) (s : St) (hi : Inv cfg s) :
    Inv cfg (run cfg n s sched) := by
  induction sched generalizing s with
  | nil => exact hi
  | cons e es ih => exact ih _ (inv_step cfg hc n s e hi)

end XMT.Teardown
