/-
  XMT.TeardownShow — line-protocol side of the teardown model (XMT/Teardown.lean): parsing of the op
  `tdn <variant> <nl> <ns> <nsAll> <threads> <sched>` and the canonical final-state line.
  I/O side only; nothing here is used by a theorem.
-/
import XMT.Drv.Util
import XMT.Teardown
namespace XMT.Teardown
open XMT.Drv

/-- thread tokens: `P` loop, `Z` Server.Close, `X` cancel, `A<j>` Listener j's goroutine, `B<j>`
Listener.Close, `M<i>` Server.Remove(i,false), `G<j>:<i>` registration of Session i at Listener j -/
def parseTKind (tok : String) : Option Kind :=
  match tok.toList with
  | ['P'] => some .loop
  | ['Z'] => some .sclose
  | ['X'] => some .cancel
  | 'A' :: r => (natOf (String.ofList r)).map .llisten
  | 'B' :: r => (natOf (String.ofList r)).map .lclose
  | 'M' :: r => (natOf (String.ofList r)).map .remove
  | 'G' :: r =>
    match splitOn1 (String.ofList r) ':' with
    | [a, b] => match natOf a, natOf b with
      | some j, some i => some (.register j i)
      | _, _ => none
    | _ => none
  | _ => none

def tnatsOf (s : String) : Option (List Nat) :=
  if s = "-" ∨ s = "" then some [] else (splitOn1 s '.').mapM natOf

def tcfgOf (variant : String) (nl : Nat) : Option Cfg :=
  if variant = "F" then some (cfgF nl)
  else if variant = "1" then some { cfgF nl with loopCAS := true }
  else if variant = "0" then some { cfgF nl with loopCAS := false }
  else none

def tb01 (b : Bool) : String := if b then "1" else "0"

def showSChan : SChan → String
  | .new => "new" | .delListener => "delListener" | .delSession => "delSession"
  | .events => "events" | .ch => "ch" | .lch => "lch"

def showTOut (s : St) (t : Nat) : String :=
  let l := s.loc t
  if l.pc ≠ tfin then s!"blk@{l.pc}" else
  match l.out with
  | .none => "-"
  | .ret => "ret"
  | .panicClose c => s!"panic:close:{showSChan c}"
  | .panicSend c => s!"panic:send:{showSChan c}"
  | .panicNil => "panic:other"

def showNats (l : List Nat) : String := if l.isEmpty then "-" else ".".intercalate (l.map toString)

def showT (cfg : Cfg) (n nsAll : Nat) (s : St) : String :=
  let d (x : String) := if x = "" then "-" else x
  let c (k : Nat) := if k > 0 then "1" else "0"
  let thr := ",".intercalate ((List.range n).map (showTOut s))
  let act := String.join ((List.range cfg.nl).map fun j => tb01 (!s.activeNil && s.active j))
  let lsn := ",".intercalate ((List.range cfg.nl).map fun j =>
    s!"{tb01 (s.lClosing j)}{tb01 (s.lClosed j)}{tb01 (lctxDone s j)}{tb01 (s.sock j)}{c (s.lchC j)}")
  let listed := String.join ((List.range nsAll).map fun i => tb01 (s.listed i))
  let told := String.join ((List.range nsAll).map fun i => tb01 (s.told i && s.listed i))
  let quiet := (List.range n).all fun t => !enabled cfg s t
  s!"thr={d thr} srv={tb01 s.ctxDone}{s.run} ch={c s.newC}{c s.dlC}{c s.dsC}{c s.evC}{c s.chC} dl={showNats s.dl} ds={showNats s.ds} act={d act} lsn={d lsn} listed={d listed} told={d told} quiet={tb01 quiet}"

def handleT (args : List String) : String :=
  match args with
  | [variant, nl, ns, nsAll, threads, sched] =>
    match natOf nl, natOf ns, natOf nsAll, (splitOn1 threads ',').mapM parseTKind, tnatsOf sched with
    | some nl, some ns, some nsAll, some prog, some sc =>
      match tcfgOf variant nl with
      | some cfg => showT cfg prog.length nsAll (run cfg prog.length (init cfg ns prog) sc)
      | none => "bad-op"
    | _, _, _, _, _ => "bad-op"
  | _ => "bad-op"

end XMT.Teardown
