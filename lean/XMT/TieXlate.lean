/-
  XMT.TieXlate — the hand-written models of the straight-line integer functions are PROVED equal to
  the definitions that `xmth facts` (go/cmd/xmth/xlate.go) regenerates from the current Go source on
  every run (`XMT.Facts.x_<pkg>_<Recv>_<Func>`, a naive, uniform translation of the Go expression with
  Go's unsigned semantics: every conversion / shift-left / + / * / - is followed by `% 2^w`).

  This file: com/flag.go (C01). A source edit that changes what a function computes makes the
  equivalence theorem fail to check (and one that leaves the translated fragment removes the generated
  definition, with the same effect): a broken tie, reported by every check that builds this module.

  Technique: both sides are compared bit by bit (`Nat.eq_of_testBit_eq`); see `xl_flag`.
-/
import XMT.Flag
import XMT.Generated.Facts
namespace XMT.TieXlate
open XMT

theorem testBit_one (i : Nat) : Nat.testBit 1 i = decide (i = 0) := by
  have h := @Nat.testBit_two_pow 0 i
  simp only [Nat.pow_zero] at h
  rw [h]; exact decide_eq_decide.mpr ⟨fun h => h.symm, fun h => h.symm⟩

/-- `x < 2^w` has no bit at or above `w` -/
theorem testBit_of_lt {x w i : Nat} (hx : x < 2^w) (hi : w ≤ i) : x.testBit i = false :=
  Nat.testBit_lt_two_pow (Nat.lt_of_lt_of_le hx (Nat.pow_le_pow_right (by decide) hi))

/-- the bits of Go's `a &^ b` as the hand models write it (`a - (a &&& b)`) -/
theorem testBit_sub_and (i : Nat) : ∀ a b : Nat, (a - (a &&& b)).testBit i = (a.testBit i && !b.testBit i) := by
  induction i with
  | zero =>
    intro a b
    have hle : a &&& b ≤ a := Nat.and_le_left
    have hm : (a &&& b) % 2 = (a % 2) &&& (b % 2) := by
      have := @Nat.and_mod_two_pow a b 1
      simpa using this
    simp only [Nat.testBit_zero]
    generalize a &&& b = x at *
    rcases Nat.mod_two_eq_zero_or_one a with ha | ha <;> rcases Nat.mod_two_eq_zero_or_one b with hb | hb <;>
      rw [ha, hb] at hm
    · have : (a - x) % 2 = 0 := by simp at hm; omega
      simp [this, ha]
    · have : (a - x) % 2 = 0 := by simp at hm; omega
      simp [this, ha]
    · have : (a - x) % 2 = 1 := by simp at hm; omega
      simp [this, ha, hb]
    · have : (a - x) % 2 = 0 := by simp at hm; omega
      simp [this, ha, hb]
  | succ i ih =>
    intro a b
    have hle : a &&& b ≤ a := Nat.and_le_left
    have hm : (a &&& b) % 2 = (a % 2) &&& (b % 2) := by
      have := @Nat.and_mod_two_pow a b 1
      simpa using this
    have hd : (a &&& b) / 2 = a / 2 &&& b / 2 := by
      have := @Nat.and_div_two_pow a b 1
      simpa using this
    have hlow : (a &&& b) % 2 ≤ a % 2 := by rw [hm]; exact Nat.and_le_left
    simp only [Nat.testBit_add_one]
    rw [← ih (a / 2) (b / 2), ← hd]
    congr 1
    generalize a &&& b = x at *
    omega

/-- the regions of a bit position in a `com.Flag` word |len:16|pos:16|group:16|bits:16| -/
theorem flag_regions (i : Nat) :
    i = 0 ∨ (1 ≤ i ∧ i < 16) ∨ (16 ≤ i ∧ i < 32) ∨ (32 ≤ i ∧ i < 48) ∨ (48 ≤ i ∧ i < 64) ∨ 64 ≤ i := by
  omega

/-- decide every linear side condition in the current region of the bit position -/
macro "xl_region" : tactic => `(tactic|
  (simp (disch := omega) only [decide_eq_true, decide_eq_false, Nat.add_sub_of_le, testBit_of_lt,
    decide_true, decide_false,
    Bool.true_and, Bool.false_and, Bool.and_true, Bool.and_false, Bool.or_true, Bool.or_false,
    Bool.true_or, Bool.false_or, Bool.xor_false, Bool.false_xor, Bool.xor_true, Bool.true_xor,
    Bool.not_true, Bool.not_false, Bool.and_self, Bool.or_self]))

/-- Equality of two 64-bit-word expressions, bit by bit: `testBit` is pushed through the operators
(both sides become Boolean combinations of `x.testBit (affine index)` and `decide (linear fact about
the position)`), the position is split at the field boundaries of a `com.Flag` word, and in each
region every side condition is decided by `omega`. Closes the goal at whichever stage the two sides
already coincide. -/
macro "xl_flag" : tactic => `(tactic| first
  | rfl
  | (apply Nat.eq_of_testBit_eq; intro i
     try simp only [Nat.testBit_or, Nat.testBit_and, Nat.testBit_xor, Nat.testBit_mod_two_pow,
       Nat.testBit_shiftLeft, Nat.testBit_shiftRight, Nat.testBit_two_pow_sub_one, testBit_one,
       testBit_sub_and]
     try (rcases flag_regions i with h | h | h | h | h | h <;> try xl_region)))

/-! ### com/flag.go -/

/-- `func (f Flag) Len() uint16` as the source has it now = the hand model -/
theorem x_com_Flag_Len_eq (f : Nat) : Facts.x_com_Flag_Len f = Flag.len f := by
  unfold Facts.x_com_Flag_Len Flag.len Flag.u16
  xl_flag

theorem x_com_Flag_Group_eq (f : Nat) : Facts.x_com_Flag_Group f = Flag.group f := by
  unfold Facts.x_com_Flag_Group Flag.group Flag.u16
  xl_flag

theorem x_com_Flag_Position_eq (f : Nat) : Facts.x_com_Flag_Position f = Flag.position f := by
  unfold Facts.x_com_Flag_Position Flag.position Flag.u16
  xl_flag

theorem x_com_Flag_SetLen_eq (f n : Nat) : Facts.x_com_Flag_SetLen f n = Flag.setLen f n := by
  unfold Facts.x_com_Flag_SetLen Flag.setLen Flag.position Flag.u64 Flag.u32 Flag.u16 Flag.flagFrag
  xl_flag

theorem x_com_Flag_SetPosition_eq (f n : Nat) : Facts.x_com_Flag_SetPosition f n = Flag.setPosition f n := by
  unfold Facts.x_com_Flag_SetPosition Flag.setPosition Flag.len Flag.u64 Flag.u32 Flag.u16 Flag.flagFrag
  xl_flag

theorem x_com_Flag_SetGroup_eq (f n : Nat) : Facts.x_com_Flag_SetGroup f n = Flag.setGroup f n := by
  unfold Facts.x_com_Flag_SetGroup Flag.setGroup Flag.u64 Flag.u16 Flag.flagFrag
  xl_flag

theorem x_com_Flag_Clear_eq (f : Nat) : Facts.x_com_Flag_Clear f = Flag.clear f := by
  unfold Facts.x_com_Flag_Clear Flag.clear Flag.u16 Flag.flagFrag
  xl_flag

theorem x_com_Flag_Set_eq (f n : Nat) : Facts.x_com_Flag_Set f n = Flag.set f n := by
  unfold Facts.x_com_Flag_Set Flag.set
  xl_flag

/-- `*f = *f &^ n` on a 64-bit word -/
theorem x_com_Flag_Unset_eq (f n : Nat) (hf : f < 2^64) : Facts.x_com_Flag_Unset f n = Flag.unset f n := by
  unfold Facts.x_com_Flag_Unset Flag.unset
  xl_flag

end XMT.TieXlate
