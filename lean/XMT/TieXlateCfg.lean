/-
  XMT.TieXlateCfg — `Config.next` (c2/cfg/convert.go), the stride function of the profile parser:
  the hand-written model `XMT.Cfg.next` against the definition `Facts.x_cfg_Config_next` that
  `xmth facts` (go/cmd/xmth/xlate.go + xlate2_s3.go) REGENERATES from the current source on every run
  — the whole body: the offset guard, `switch cBit(c[i])` with its case labels in source order
  (fallthrough clauses merged), the per-arm guards, the 16-bit length expressions with Go's
  precedence taken from the parsed tree, both bounded loops (as folds over `x` steps). `int` is `Int`
  with an explicit int64 wrap after every operator; `c[k]` is a checked read: a read outside the
  slice makes the result `none` (Go: index out of range panic); the value is Go's result, `-1` included.

  Proved here for ALL byte strings (shorter than 2^62) and ALL offsets: negative offsets, the offset
  guard, the failing tag read at `i = len(c)`, every fixed-stride tag (30 labels) and the `valXOR`/
  `valHost` arm (the arm of fix 262ef21). The arms valAES, valMuTLS, valTLSxCA, valTLSCert, valWC2,
  valDNS and the no-label case are tied by the differential group `xnext` (the regenerated definition,
  run by the Lean driver, against the real function) and by the existing C09 run of the hand model;
  their equality proof is OPEN (see the comment at `x_next_eq_partial`).
-/
import XMT.Cfg
import XMT.Generated.Facts
namespace XMT.TieXlateCfg
open XMT XMT.Cfg

def conv : M (Option Nat) → Option Int
  | .ok (some n) => some (n : Int)
  | .ok none => some (-1)
  | .error _ => none

theorem wrap_id (x : Int) (h1 : 0 ≤ x) (h2 : x < 9223372036854775808) :
    (x + 9223372036854775808) % 18446744073709551616 - 9223372036854775808 = x := by omega

theorem rdI (c : Bytes) (k : Nat) :
    (if (k : Int) < 0 then none else c[Int.toNat (k : Int)]?) = c[k]? := by
  have : ¬ (k : Int) < 0 := by omega
  simp [this]

theorem byteI (b : UInt8) : (Int.ofNat b.toNat + 9223372036854775808) % 18446744073709551616 - 9223372036854775808 = (b.toNat : Int) := by
  have := b.toNat_lt
  show ((b.toNat : Int) + 9223372036854775808) % 18446744073709551616 - 9223372036854775808 = (b.toNat : Int)
  omega

theorem byteSh (b : UInt8) : ((b.toNat : Int) * 256 + 9223372036854775808) % 18446744073709551616 - 9223372036854775808 = ((b.toNat <<< 8 : Nat) : Int) := by
  have := b.toNat_lt
  rw [Nat.shiftLeft_eq]
  omega

theorem or16 (a b : UInt8) : a.toNat ||| b.toNat <<< 8 < 65536 := by
  have ha := a.toNat_lt
  have hb := b.toNat_lt
  rw [Nat.shiftLeft_eq]
  exact Nat.or_lt_two_pow (n := 16) (by omega) (by omega)

theorem or16' (a b : Nat) (ha : a < 256) (hb : b < 256) : a ||| b <<< 8 < 65536 := by
  rw [Nat.shiftLeft_eq]
  exact Nat.or_lt_two_pow (n := 16) (by omega) (by omega)

theorem add16 (n : Nat) (a b : UInt8) (hn : n < 2^62 + 70000 * 4) :
    ((n : Int) + Int.ofNat (a.toNat ||| b.toNat <<< 8) + 9223372036854775808) % 18446744073709551616 - 9223372036854775808 =
      ((n + (a.toNat ||| b.toNat <<< 8) : Nat) : Int) := by
  have := or16 a b
  show ((n : Int) + ((a.toNat ||| b.toNat <<< 8 : Nat) : Int) + 9223372036854775808) % 18446744073709551616 - 9223372036854775808 = _
  omega

theorem next_neg (c : Bytes) (i : Int) (h : i < 0) : Facts.x_cfg_Config_next c i = some (-1) := by
  unfold Facts.x_cfg_Config_next
  have : decide (i < (0 : Int)) = true := by simpa using h
  simp only [this, Bool.or_true, if_true]

/-- the tags whose arm of `next` is proved equal below: the fixed strides and valXOR / valHost -/
def provedTags : List Nat :=
  [208, 209, 210, 211, 170, 171, 172, 174, 173, 167, 250, 192, 193, 194, 195, 196, 197, 224,
   176, 226, 162, 163, 178, 168, 169, 213, 165, 161, 164, 166, 212, 160]

-- OPEN: x_next_eq — the same statement without the hypothesis `hT` (all tags: the arms valAES, valMuTLS,
-- valTLSxCA, valTLSCert, the loops of valWC2 / valDNS and the no-label case):
--
--   theorem x_next_eq (c : Bytes) (i : Nat) (hlen : c.length < 2^62) :
--       Facts.x_cfg_Config_next c (i : Int) = conv (next c i)

/-- For every byte string and every non-negative offset whose tag byte (if there is one) is one of
`provedTags`: the regenerated `next` and the hand model agree — same value, same `-1`, same panic. -/
theorem x_next_eq_partial (c : Bytes) (i : Nat) (hlen : c.length < 2^62)
    (hT : ∀ b, c[i]? = some b → b.toNat ∈ provedTags) :
    Facts.x_cfg_Config_next c (i : Int) = conv (next c i) := by
  unfold Facts.x_cfg_Config_next next
  by_cases hi : i > c.length
  · have h1 : decide ((i : Int) > Int.ofNat c.length) = true := by simp; omega
    simp only [h1, Bool.true_or, if_true, hi]
    rfl
  · have h1 : decide ((i : Int) > Int.ofNat c.length) = false := by simp; omega
    have h2 : decide ((i : Int) < (0 : Int)) = false := by simp
    simp only [h1, h2, Bool.or_false, Bool.false_eq_true, if_false, hi, rdI]
    cases hb : c[i]? with
    | none =>
      simp only [Option.bind_none, rd, hb]
      rfl
    | some b =>
      simp only [Option.bind_some, rd, hb]
      have ht : b.toNat % 2^8 = b.toNat := Nat.mod_eq_of_lt (by have := b.toNat_lt; omega)
      simp only [ht]
      show _ = conv (nextArm c i b.toNat)
      have hi' : i ≤ c.length := by omega
      have w1 : ((i : Int) + 1 + 9223372036854775808) % 18446744073709551616 - 9223372036854775808 = ((i + 1 : Nat) : Int) := by omega
      have w2 : ((i : Int) + 2 + 9223372036854775808) % 18446744073709551616 - 9223372036854775808 = ((i + 2 : Nat) : Int) := by omega
      have w3 : ((i : Int) + 3 + 9223372036854775808) % 18446744073709551616 - 9223372036854775808 = ((i + 3 : Nat) : Int) := by omega
      have w4 : ((i : Int) + 4 + 9223372036854775808) % 18446744073709551616 - 9223372036854775808 = ((i + 4 : Nat) : Int) := by omega
      have w5 : ((i : Int) + 5 + 9223372036854775808) % 18446744073709551616 - 9223372036854775808 = ((i + 5 : Nat) : Int) := by omega
      have w6 : ((i : Int) + 6 + 9223372036854775808) % 18446744073709551616 - 9223372036854775808 = ((i + 6 : Nat) : Int) := by omega
      have w7 : ((i : Int) + 7 + 9223372036854775808) % 18446744073709551616 - 9223372036854775808 = ((i + 7 : Nat) : Int) := by omega
      have w8 : ((i : Int) + 8 + 9223372036854775808) % 18446744073709551616 - 9223372036854775808 = ((i + 8 : Nat) : Int) := by omega
      have w9 : ((i : Int) + 9 + 9223372036854775808) % 18446744073709551616 - 9223372036854775808 = ((i + 9 : Nat) : Int) := by omega
      simp only [w1, w2, w3, w4, w5, w6, w7, w8, w9, rdI]
      have hT' := hT b hb
      generalize b.toNat = t at *
      by_cases c1 : (decide (t = 208) || decide (t = 209) || decide (t = 210) || decide (t = 211) || decide (t = 170) || decide (t = 171) || decide (t = 172) || decide (t = 174) || decide (t = 173) || decide (t = 167) || decide (t = 250) || decide (t = 192) || decide (t = 193) || decide (t = 194) || decide (t = 195) || decide (t = 196) || decide (t = 197) || decide (t = 224)) = true
      · rw [if_pos c1]
        simp only [Bool.or_eq_true, decide_eq_true_eq] at c1
        rcases c1 with (((((((((((((((((h|h)|h)|h)|h)|h)|h)|h)|h)|h)|h)|h)|h)|h)|h)|h)|h)|h) <;> subst h <;> rfl
      rw [if_neg c1]
      by_cases c2 : (decide (t = 176) || decide (t = 226) || decide (t = 162) || decide (t = 163) || decide (t = 178) || decide (t = 168) || decide (t = 169)) = true
      · rw [if_pos c2]
        simp only [Bool.or_eq_true, decide_eq_true_eq] at c2
        rcases c2 with ((((((h|h)|h)|h)|h)|h)|h) <;> subst h <;> rfl
      rw [if_neg c2]
      by_cases c3 : (decide (t = 213) || decide (t = 165)) = true
      · rw [if_pos c3]
        simp only [Bool.or_eq_true, decide_eq_true_eq] at c3
        rcases c3 with (h|h) <;> subst h <;> rfl
      rw [if_neg c3]
      by_cases c4 : (decide (t = 161) || decide (t = 164)) = true
      · rw [if_pos c4]
        simp only [Bool.or_eq_true, decide_eq_true_eq] at c4
        rcases c4 with (h|h) <;> subst h <;> rfl
      rw [if_neg c4]
      by_cases c5 : decide (t = 166) = true
      · rw [if_pos c5]
        simp only [decide_eq_true_eq] at c5
        subst c5; rfl
      rw [if_neg c5]
      have c6 : ¬ decide (t = 177) = true := by
        simp only [provedTags, List.mem_cons, List.not_mem_nil, or_false] at hT'
        simp only [decide_eq_true_eq]; omega
      rw [if_neg c6]
      by_cases c7 : (decide (t = 212) || decide (t = 160)) = true
      · rw [if_pos c7]
        have e : nextArm c i t = nextXorHost c i := by
          simp only [Bool.or_eq_true, decide_eq_true_eq] at c7
          rcases c7 with (h|h) <;> subst h <;> rfl
        rw [e]; unfold nextXorHost
        by_cases g : i + 3 ≥ c.length
        · have g' : decide (((i + 3 : Nat) : Int) ≥ Int.ofNat c.length) = true := by simp; omega
          simp only [g', if_true, g]; rfl
        · have g' : decide (((i + 3 : Nat) : Int) ≥ Int.ofNat c.length) = false := by simp; omega
          simp only [g', Bool.false_eq_true, if_false, g]
          have r1 : c[i + 1]? = some c[i + 1] := List.getElem?_eq_getElem (by omega)
          have r2 : c[i + 2]? = some c[i + 2] := List.getElem?_eq_getElem (by omega)
          simp only [r1, r2, Option.bind_some, rd, rd16, byteI]
          have b1 := c[i + 1].toNat_lt
          have b2 := c[i + 2].toNat_lt
          generalize c[i + 1].toNat = x1 at *
          generalize c[i + 2].toNat = x2 at *
          have e1 : ((x1 : Int) * (256 : Int) + (9223372036854775808 : Int)) % (18446744073709551616 : Int) - (9223372036854775808 : Int) = ((x1 <<< 8 : Nat) : Int) := by
            rw [Nat.shiftLeft_eq]; omega
          have o := or16' x2 x1 (by omega) (by omega)
          rw [e1]
          simp only [bind, Except.bind, pure, Except.pure, conv, Int.ofNat_eq_natCast, Option.some.injEq, Int.toNat_natCast,
            Nat.or_comm (_ <<< 8) _]
          omega
      exfalso
      simp only [provedTags, List.mem_cons, List.not_mem_nil, or_false] at hT'
      simp only [Bool.or_eq_true, decide_eq_true_eq, not_or] at c1 c2 c3 c4 c5 c7
      omega

end XMT.TieXlateCfg
