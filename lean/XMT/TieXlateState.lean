/-
  XMT.TieXlateState — c2/state.go (C13): the hand-written models of the pure predicates on the state
  word (XMT/State.lean) are PROVED equal to the definitions regenerated from the current source by the
  Go→Lean translator (go/cmd/xmth/xlate.go), `XMT.Facts.x_c2_state_*`.  Every
  `atomic.LoadUint32((*uint32)(s))` of one predicate is the same parameter `s` (one snapshot of the word,
  as in the hand model); since the repair of the closed-then-load predicates (one `v := load`, decided
  on `v`) that is literally what the source does, and the regenerated terms are `let v := s; …&&…||…`
  where the hand model has the nested `if`s of the earlier source — equal for every word, proved here. The `state*` constants inside the regenerated terms are the values go/constant
  computes from the `1 << iota` block; the models use `Facts.state*` (values of the compiled package):
  the two routes to the constants are compared here as well.
  Kept apart from XMT/TieXlate.lean so that an edit of c2/state.go cannot break the C01 build.
-/
import XMT.State
import XMT.Generated.Facts
namespace XMT.TieXlateState
open XMT XMT.State

theorem has_eq (s m : Nat) : State.has s m = decide (s &&& m ≠ 0) := by
  unfold State.has
  by_cases h : s &&& m = 0 <;> simp [h]

/-- unfold a regenerated predicate and its model down to `decide (s &&& <literal> ≠ 0)` -/
macro "xl_state" : tactic => `(tactic| (
  simp only [Facts.x_c2_state_Seen, Facts.x_c2_state_Ready, Facts.x_c2_state_Moving, Facts.x_c2_state_Closed,
    Facts.x_c2_state_CanRecv, Facts.x_c2_state_Closing, Facts.x_c2_state_Channel, Facts.x_c2_state_Shutdown,
    Facts.x_c2_state_Replacing, Facts.x_c2_state_RecvClosed, Facts.x_c2_state_SendClosed,
    Facts.x_c2_state_WakeClosed, Facts.x_c2_state_ShutdownWait, Facts.x_c2_state_ChannelValue,
    Facts.x_c2_state_ChannelProxy, Facts.x_c2_state_ChannelUpdated, Facts.x_c2_state_ChannelCanStart,
    seen, ready, moving, closed, canRecv, closing, channel, shutdown, replacing, recvClosed, sendClosed,
    wakeClosed, shutdownWait, channelValue, channelProxy, channelUpdated, channelCanStart, has_eq,
    stCanRecv, stReady, stClosed, stClosing, stShutdown, stSendClose, stRecvClose, stWakeClose, stChannel,
    stChannelValue, stChannelUpdated, stChannelProxy, stSeen, stMoving, stReplacing, stShutdownWait,
    Facts.stateCanRecv, Facts.stateReady, Facts.stateClosed, Facts.stateClosing, Facts.stateShutdown,
    Facts.stateSendClose, Facts.stateRecvClose, Facts.stateWakeClose, Facts.stateChannel,
    Facts.stateChannelValue, Facts.stateChannelUpdated, Facts.stateChannelProxy, Facts.stateSeen,
    Facts.stateMoving, Facts.stateReplacing, Facts.stateShutdownWait]))

theorem x_c2_state_Seen_eq (s : Nat) : Facts.x_c2_state_Seen s = seen s := by xl_state
theorem x_c2_state_Closed_eq (s : Nat) : Facts.x_c2_state_Closed s = closed s := by xl_state
theorem x_c2_state_Ready_eq (s : Nat) : Facts.x_c2_state_Ready s = ready s := by
  xl_state <;> by_cases h : s &&& 4 = 0 <;> simp [h]
theorem x_c2_state_Moving_eq (s : Nat) : Facts.x_c2_state_Moving s = moving s := by xl_state
theorem x_c2_state_CanRecv_eq (s : Nat) : Facts.x_c2_state_CanRecv s = canRecv s := by
  xl_state <;> by_cases h : s &&& 4 = 0 <;> simp [h]
theorem x_c2_state_Closing_eq (s : Nat) : Facts.x_c2_state_Closing s = closing s := by
  xl_state <;> by_cases h : s &&& 4 = 0 <;> simp [h]
theorem x_c2_state_Channel_eq (s : Nat) : Facts.x_c2_state_Channel s = channel s := by xl_state
theorem x_c2_state_Shutdown_eq (s : Nat) : Facts.x_c2_state_Shutdown s = shutdown s := by
  xl_state <;> by_cases h : s &&& 4 = 0 <;> simp [h]
theorem x_c2_state_Replacing_eq (s : Nat) : Facts.x_c2_state_Replacing s = replacing s := by xl_state
theorem x_c2_state_RecvClosed_eq (s : Nat) : Facts.x_c2_state_RecvClosed s = recvClosed s := by
  xl_state <;> by_cases h : s &&& 4 = 0 <;> simp [h]
theorem x_c2_state_SendClosed_eq (s : Nat) : Facts.x_c2_state_SendClosed s = sendClosed s := by
  xl_state <;> by_cases h : s &&& 4 = 0 <;> simp [h]
theorem x_c2_state_WakeClosed_eq (s : Nat) : Facts.x_c2_state_WakeClosed s = wakeClosed s := by
  xl_state <;> by_cases h : s &&& 4 = 0 <;> simp [h]
theorem x_c2_state_ShutdownWait_eq (s : Nat) : Facts.x_c2_state_ShutdownWait s = shutdownWait s := by xl_state
theorem x_c2_state_ChannelValue_eq (s : Nat) : Facts.x_c2_state_ChannelValue s = channelValue s := by xl_state
theorem x_c2_state_ChannelProxy_eq (s : Nat) : Facts.x_c2_state_ChannelProxy s = channelProxy s := by xl_state
theorem x_c2_state_ChannelUpdated_eq (s : Nat) : Facts.x_c2_state_ChannelUpdated s = channelUpdated s := by xl_state
theorem x_c2_state_ChannelCanStart_eq (s : Nat) : Facts.x_c2_state_ChannelCanStart s = channelCanStart s := by
  xl_state <;> by_cases h : s &&& 4 = 0 <;> simp [h]
/-- `Last()`: `uint16(load >> 16)` -/
theorem x_c2_state_Last_eq (s : Nat) : Facts.x_c2_state_Last s = State.last s := rfl

/-- all read-only predicates of the hand model (the list the C13 differential run compares with the
real code) are the regenerated source, for every word -/
theorem predicates_eq (s : Nat) : State.predicates s =
    [Facts.x_c2_state_Seen s, Facts.x_c2_state_Ready s, Facts.x_c2_state_Moving s, Facts.x_c2_state_Closed s,
     Facts.x_c2_state_CanRecv s, Facts.x_c2_state_Closing s, Facts.x_c2_state_Channel s,
     Facts.x_c2_state_Shutdown s, Facts.x_c2_state_Replacing s, Facts.x_c2_state_RecvClosed s,
     Facts.x_c2_state_SendClosed s, Facts.x_c2_state_WakeClosed s, Facts.x_c2_state_ShutdownWait s,
     Facts.x_c2_state_ChannelValue s, Facts.x_c2_state_ChannelProxy s, Facts.x_c2_state_ChannelUpdated s,
     Facts.x_c2_state_ChannelCanStart s] := by
  simp only [State.predicates, x_c2_state_Seen_eq, x_c2_state_Ready_eq, x_c2_state_Moving_eq, x_c2_state_Closed_eq,
    x_c2_state_CanRecv_eq, x_c2_state_Closing_eq, x_c2_state_Channel_eq, x_c2_state_Shutdown_eq,
    x_c2_state_Replacing_eq, x_c2_state_RecvClosed_eq, x_c2_state_SendClosed_eq, x_c2_state_WakeClosed_eq,
    x_c2_state_ShutdownWait_eq, x_c2_state_ChannelValue_eq, x_c2_state_ChannelProxy_eq,
    x_c2_state_ChannelUpdated_eq, x_c2_state_ChannelCanStart_eq]

example : Facts.x_c2_state_CanRecv 0x41 = false ∧ Facts.x_c2_state_CanRecv 0x01 = true := by decide

end XMT.TieXlateState
