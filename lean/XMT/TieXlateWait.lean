/-
  XMT.TieXlateWait — the hand-written model of the delay arithmetic of `(*Session).wait`
  (XMT/Jitter.lean: `delay`, `applyJitter`, `fastRandN`, `uint64Of`, `abs64`) is PROVED equal to the
  definitions that `xmth facts` (go/cmd/xmth/xlate.go + xlate2_s3.go) regenerates from the current Go
  source on every run:

    Facts.x_c2_Session_wait_delay  the statements of wait() from `w := s.sleep` up to the arming of the
                                   ticker (`if s.tick == nil`), value = the local `w`; signed arithmetic is
                                   `Int` with an explicit int64 wrap after every operator; the field reads
                                   `s.sleep`, `s.jitter` and the three PRNG call sites are parameters in order
                                   of first appearance (a call site is a function applied to its translated
                                   arguments)
    Facts.x_util_FastRandN / x_util_abs64 / x_util_random_Uint64   util/rand.go, util/rand_fast.go
                                   (`fastRand()` / `FastRand()` call sites are parameters)

  A source edit that changes what the segment computes makes `x_wait_delay_eq` fail to check; one that
  leaves the translated fragment (or moves the marker statements) removes the generated definition,
  with the same effect: a broken tie, reported by every check that builds this module (C19).
-/
import XMT.JitterLemmas
import XMT.Generated.Facts
namespace XMT.TieXlateWait
open XMT XMT.Jitter

/-- word index of the first draw of `Int63n`: `s.jitter == 100 || uint8(util.FastRandN(100)) < s.jitter`
short-circuits the percentage draw when the jitter is 100 -/
def firstWord (jitter : Nat) : Nat := if jitter = 100 then 0 else 1

/-- The delay part of `wait()` assembled around the REGENERATED segment: the guard `if s.sleep < 1
{ return }` in front of it, the segment with its PRNG call sites instantiated by the PRNG helpers on the
raw words at the positions Go's evaluation order gives them (`util.Rand.Int63n(n)` =
`int64(abs64(r.Uint64())) % n` with Go's truncated `%`), and the ticker behind it. -/
def srcDelay (sleep : Int) (jitter : Nat) (q : Nat → Nat) : Delay :=
  if sleep < 1 then .none
  else
    let k := firstWord jitter
    tick (Facts.x_c2_Session_wait_delay sleep jitter
      (fun n => fastRandN (raw q 0) n.toNat)
      (fun n => Int.tmod (i64 ((abs64 (uint64Of (raw q k) (raw q (k + 1))) : Nat) : Int)) n)
      (fun n => fastRandN (raw q (k + 2)) n.toNat))

theorem abs64_lt (v : Nat) : abs64 v < 2^63 := by
  unfold abs64
  exact Nat.lt_of_le_of_lt Nat.and_le_right (by decide)

/-- For EVERY int64 sleep, every jitter and every PRNG stream the hand model computes what the
regenerated segment computes (in particular the model's `integer divide by zero` arm is dead: the
segment calls `Int63n` only under `w > time.Millisecond`). -/
theorem x_wait_delay_eq (S : Int) (jitter : Nat) (q : Nat → Nat) (hS1 : -2^63 ≤ S) (hS2 : S < 2^63) :
    (delay S jitter q).1 = srcDelay S jitter q := by
  have hF : Facts.c19JitterFallbackLe = 1 := by decide
  have hM : Facts.c19Millisecond = 1000000 := by decide
  have hSB : Facts.c19SleepBelow = 1 := by decide
  have hJB : Facts.c19JitterBelow = 101 := by decide
  have hJA : Facts.c19JitterAlways = 100 := by decide
  have hRN : Facts.c19JitterRandN = 100 := by decide
  have hSN : Facts.c19SignRandN = 2 := by decide
  unfold delay srcDelay ms Facts.x_c2_Session_wait_delay
  rw [hSB, hJB, hJA, hM, hRN, hSN]
  rw [show ((1 : Nat) : Int) = 1 from rfl, show ((1000000 : Nat) : Int) = 1000000 from rfl]
  have h2 : Int.toNat 2 = 2 := rfl
  have e63 : (2 : Int) ^ 63 = 9223372036854775808 := by decide
  have e64 : (2 : Int) ^ 64 = 18446744073709551616 := by decide
  have h100' : Int.toNat 100 = 100 := rfl
  by_cases hlt : S < 1
  · simp only [hlt, if_true]
  · simp only [hlt, if_false]
    by_cases hj : (decide (jitter > 0) && decide (jitter < 101)) = true
    · rw [if_pos hj, if_pos hj]
      by_cases hms : S > 1000000
      · have hms' : decide (S > 1000000) = true := by simpa using hms
        have hdiv : S.tdiv 1000000 = S / 1000000 := Int.tdiv_eq_ediv_of_nonneg (by omega)
        have hn : ((S / 1000000 + 9223372036854775808) % 18446744073709551616 - 9223372036854775808 + 9223372036854775808) % 18446744073709551616 - 9223372036854775808 = S / 1000000 := by omega
        have hn' : i64 (S / 1000000) = S / 1000000 := i64_id _ (by omega) (by omega)
        have hn0 : ¬ S / 1000000 = 0 := by omega
        have hA : ∀ a b, i64 ((abs64 (uint64Of a b) : Nat) : Int) = ((abs64 (uint64Of a b) : Nat) : Int) := by
          intro a b
          have := abs64_lt (uint64Of a b)
          exact i64_id _ (by omega) (by omega)
        have hmod : ∀ a b, (((abs64 (uint64Of a b) : Nat) : Int)).tmod (S / 1000000) =
            ((abs64 (uint64Of a b) : Nat) : Int) % (S / 1000000) :=
          fun a b => Int.tmod_eq_emod_of_nonneg (by omega)
        rw [hdiv, hn, hn']
        simp only [hms', Bool.and_true, hn0, if_false, h2, h100', hA, hmod]
        by_cases h100 : jitter = 100
        · subst h100
          simp only [firstWord, if_true, decide_true, Bool.true_or]
          unfold applyJitter ms i64
          rw [hF, hM]
          simp only [decide_eq_true_eq, show ((1000000 : Nat) : Int) = 1000000 from rfl, eq_self, if_true, e63, e64,
              Int.mul_comm _ (1000000 : Int), Int.mul_comm _ (-1 : Int), Int.add_comm _ S]
        · have h100d : decide (jitter = 100) = false := by simpa using h100
          simp only [firstWord, h100, if_false, decide_false, Bool.false_or]
          by_cases hit : decide (fastRandN (raw q 0) 100 % 256 < jitter) = true
          · simp only [hit, if_true]
            unfold applyJitter ms i64
            rw [hF, hM]
            simp only [decide_eq_true_eq, show ((1000000 : Nat) : Int) = 1000000 from rfl, eq_self, if_true, e63, e64,
              Int.mul_comm _ (1000000 : Int), Int.mul_comm _ (-1 : Int), Int.add_comm _ S]
          · simp only [hit, Bool.false_eq_true, if_false]
      · have hms' : decide (S > 1000000) = false := by simpa using hms
        simp only [hms', Bool.and_false, Bool.false_eq_true, if_false]
    · simp only [hj]
      rfl

/-! ### the PRNG helpers of package util -/

/-- `util.FastRandN(n)` on the raw word `r` (`n` is an `int`; the model takes it as a `Nat`) -/
theorem x_util_FastRandN_eq (n : Int) (r : Nat) (hn : 0 ≤ n) :
    Facts.x_util_FastRandN n r = fastRandN r n.toNat := by
  unfold Facts.x_util_FastRandN fastRandN u32 u64
  have : (n % 2 ^ 64).toNat = n.toNat % 2 ^ 64 := by omega
  rw [this]

/-- `random.Uint64()`: first call = high word -/
theorem x_util_random_Uint64_eq (hi lo : Nat) : Facts.x_util_random_Uint64 hi lo = uint64Of hi lo := rfl

/-- `abs64(v)` -/
theorem x_util_abs64_eq (v : Nat) : Facts.x_util_abs64 v = abs64 v := by
  unfold Facts.x_util_abs64 abs64
  rw [show ((2:Nat)^64 - 1) ^^^ 9223372036854775808 = 2^63 - 1 from by decide]

end XMT.TieXlateWait
